import FluteModel.Drv.Toi
def main : IO Unit := Flute.Drv.runDriver ({} : Flute.Drv.Toi.St) Flute.Drv.Toi.step
