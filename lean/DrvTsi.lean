import FluteModel.Drv.Tsi
def main : IO Unit := Flute.Drv.runDriver ({} : Flute.Drv.Tsi.DState) Flute.Drv.Tsi.step
