import FluteModel.Drv.Sched
def main : IO Unit := Flute.Drv.runDriver ({} : Flute.Drv.Sched.D) Flute.Drv.Sched.step
