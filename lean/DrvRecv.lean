import FluteModel.Drv.Recv
def main : IO Unit := Flute.Drv.runDriver Flute.Drv.Recv.init Flute.Drv.Recv.step
