import FluteModel.Lemmas.Codec
namespace Flute.Props.C06
open Flute Flute.Bytes Flute.Lct Flute.Fti Flute.Alc Flute.Spec

/-! ## EXT_FTI per FEC scheme (HET = 64)

  `fti_<scheme>_eq_spec`: the bytes `add_fti` emits are the RFC layout of the OTI values (whole field ranges).
  `fti_<scheme>_parse_spec`: `get_fti` on the RFC layout of ANY in-range values returns those values.
  `fti_<scheme>_roundtrip`: `get_fti ∘ add_fti` returns the sender's values. -/

/-- No-Code (FEC id 0), RFC 5445: ∀ L < 2^48, E < 2^16, B < 2^32 -/
theorem fti_nocode_eq_spec (oti : Oti) (L : Nat) (hL : L < 2^48) (hE : oti.esl < 2^16) (hB : oti.maxSbl < 2^32) :
    addFtiNoCode oti L = .ok (Spec.encode (ftiNoCode L oti.esl oti.maxSbl), 4) := by
  unfold addFtiNoCode
  spec_bytes
  simp only [Nat.reducePow] at hL hE hB ⊢
  refine congrArg (fun x => Except.ok (x, 4)) ?_
  bytes_eq

theorem fti_nocode_parse_spec (L E B : Nat) (hL : L < 2^48) (hE : E < 2^16) (hB : B < 2^32) :
    getFtiNoCode (Spec.encode (ftiNoCode L E B)) = .ok (otiOf 0 0 B E 0 .none, L) := by
  spec_bytes
  unfold getFtiNoCode otiOf
  parse_bebytes
  simp only [Nat.reducePow] at hL hE hB
  rewrite [if_neg (by omega)]
  fields_eq

/-- Reed-Solomon GF(2^8) (FEC id 5), RFC 5510 §5: ∀ L < 2^48, E < 2^16, B + parity ≤ 255 -/
theorem fti_rs28_eq_spec (oti : Oti) (L : Nat) (hL : L < 2^48) (hE : oti.esl < 2^16)
    (hN : oti.parity + oti.maxSbl < 256) :
    addFtiRs28 oti L = .ok (Spec.encode (ftiRs28 L oti.esl oti.maxSbl (oti.parity + oti.maxSbl)), 3) := by
  unfold addFtiRs28 u32add
  simp only [Nat.reducePow] at hL hE ⊢
  rewrite [if_pos (by omega)]
  simp only []
  rewrite [Nat.mod_eq_of_lt hL, Nat.mod_eq_of_lt hN, Nat.mod_eq_of_lt (show oti.maxSbl < 256 by omega)]
  spec_bytes
  refine congrArg (fun x => Except.ok (x, 3)) ?_
  bytes_eq

theorem fti_rs28_parse_spec (L E B maxN : Nat) (hL : L < 2^48) (hE : E < 2^16) (hB : B < 256) (hN : maxN < 256) :
    getFtiRs28 (Spec.encode (ftiRs28 L E B maxN)) = .ok (otiOf 5 0 B E (maxN - B) .none, L) := by
  spec_bytes
  unfold getFtiRs28 otiOf
  parse_bebytes
  simp only [Nat.reducePow] at hL hE
  rewrite [if_neg (by omega)]
  fields_eq

/-- Small Block Systematic, under-specified (FEC id 129), RFC 5445 §5 -/
theorem fti_rs28us_eq_spec (oti : Oti) (L : Nat) (hL : L < 2^48) (hI : oti.inst < 2^16) (hE : oti.esl < 2^16)
    (hN : oti.parity + oti.maxSbl < 2^16) :
    addFtiRs28Us oti L =
      .ok (Spec.encode (ftiSmallBlock L oti.inst oti.esl oti.maxSbl (oti.parity + oti.maxSbl)), 4) := by
  unfold addFtiRs28Us u32add
  simp only [Nat.reducePow] at hL hI hE hN ⊢
  rewrite [if_pos (by omega)]
  spec_bytes
  refine congrArg (fun x => Except.ok (x, 4)) ?_
  bytes_eq

theorem fti_rs28us_parse_spec (L inst E B maxN : Nat) (hL : L < 2^48) (hI : inst < 2^16) (hE : E < 2^16)
    (hB : B < 2^16) (hN : maxN < 2^16) :
    getFtiRs28Us (Spec.encode (ftiSmallBlock L inst E B maxN)) = .ok (otiOf 129 inst B E (maxN - B) .none, L) := by
  spec_bytes
  unfold getFtiRs28Us otiOf
  parse_bebytes
  simp only [Nat.reducePow] at hL hI hE hB hN
  rewrite [if_neg (by omega)]
  fields_eq

/-- Reed-Solomon GF(2^m) (FEC id 2), RFC 5510 §4 -/
theorem fti_rs2m_eq_spec (oti : Oti) (L m g : Nat) (hss : oti.ss = .rs m g) (hL : L < 2^48) (hm : m < 256) (hg : g < 256)
    (hE : oti.esl < 2^16) (hN : oti.parity + oti.maxSbl < 2^16) :
    addFtiRs2m oti L =
      .ok (Spec.encode (ftiRs2m L m g oti.esl oti.maxSbl (oti.parity + oti.maxSbl)), 4) := by
  unfold addFtiRs2m u32add
  rewrite [hss]
  simp only [Nat.reducePow] at hL hE hN ⊢
  rewrite [if_pos (by omega)]
  spec_bytes
  refine congrArg (fun x => Except.ok (x, 4)) ?_
  bytes_eq

theorem fti_rs2m_parse_spec (L m g E B maxN : Nat) (hL : L < 2^48) (hm : m < 256) (hg : g < 256) (hE : E < 2^16)
    (hB : B < 2^16) (hN : maxN < 2^16) :
    getFtiRs2m (Spec.encode (ftiRs2m L m g E B maxN)) =
      .ok (otiOf 2 0 B E (maxN - B) (.rs (if m = 0 then 8 else m) (if g = 0 then 1 else g)), L) := by
  spec_bytes
  unfold getFtiRs2m otiOf
  parse_bebytes
  simp only [Nat.reducePow] at hL hE hB hN
  rewrite [if_neg (by omega)]
  have em : (64 * 1329227995784915872903807060280344576 + (4 * 5192296858534827628530496329220096 +
      (L * 18446744073709551616 + (m * 72057594037927936 + (g * 281474976710656 +
      (E * 4294967296 + (B * 65536 + maxN))))))) / 72057594037927936 % 256 = m := by omega
  have eg : (64 * 1329227995784915872903807060280344576 + (4 * 5192296858534827628530496329220096 +
      (L * 18446744073709551616 + (m * 72057594037927936 + (g * 281474976710656 +
      (E * 4294967296 + (B * 65536 + maxN))))))) / 281474976710656 % 256 = g := by omega
  rewrite [em, eg]
  fields_eq

end Flute.Props.C06
