import FluteModel.Lemmas.Codec
namespace Flute.Fti
open Flute Flute.Bytes Flute.Lct Flute.Fti Flute.Alc Flute.Spec

/-- `get_fec_payload_id` looks only at the payload-id window of the datagram -/
theorem getPayloadId_window (oti : Oti) (pre w post : List Nat) :
    getPayloadId oti (pre ++ (w ++ post)) pre.length (pre.length + w.length) = pidOfBytes oti w := by
  unfold getPayloadId
  rw [Flute.Lct.slice_mid pre w post _ _ rfl rfl, Out.bind_ok]

theorem pidOfBytes_beBytes4 (oti : Oti) (X : Nat) (h : oti.fecId ≠ RS28US) :
    pidOfBytes oti (beBytes 4 X) =
      (let v := X % 2^32
       if oti.fecId = NOCODE then .ok { sbn := v / 2^16, esi := v % 2^16, sbl := none }
       else if oti.fecId = RS28 then .ok { sbn := v / 2^8, esi := v % 2^8, sbl := none }
       else if oti.fecId = RS2M then
         (if rsM oti ≥ 32 then .err else .ok { sbn := v / 2^(rsM oti), esi := v % 2^(rsM oti), sbl := none })
       else if oti.fecId = RAPTORQ then .ok { sbn := v / 2^24, esi := v % 2^24, sbl := none }
       else if oti.fecId = RAPTOR then .ok { sbn := v / 2^16, esi := v % 2^16, sbl := none }
       else .panic "not a FECEncodingID") := by
  unfold pidOfBytes
  rw [if_neg h, length_beBytes, if_neg (by omega), beVal_beBytes]

theorem pidOfBytes_beBytes8 (oti : Oti) (X : Nat) (h : oti.fecId = RS28US) :
    pidOfBytes oti (beBytes 8 X) =
      .ok { sbn := X % 2^64 / 2^32 % 2^32, esi := X % 2^64 % 2^16, sbl := some (X % 2^64 / 2^16 % 2^16) } := by
  unfold pidOfBytes
  rw [if_pos h, length_beBytes, if_neg (by omega), beVal_beBytes]

theorem encode_fpidRs2m (m sbn esi : Nat) (hm : m ≤ 32) :
    Spec.encode (fpidRs2m m sbn esi) = beBytes 4 (sbn * 2 ^ m + esi) := by
  rw [spec_encode_eq]
  simp only [fpidRs2m, width, pack, Nat.add_zero, Nat.pow_zero, Nat.mul_one]
  have : (32 - m + m) / 8 = 4 := by omega
  rw [this]

end Flute.Fti

namespace Flute.Props.C06
open Flute Flute.Bytes Flute.Lct Flute.Fti Flute.Alc Flute.Spec

/-! ## FEC payload id per scheme -/

/-- **payload_id_eq_spec**: over each scheme's whole SBN / ESI range the bytes `add_fec_payload_id` emits are
    the RFC layout (No-Code 16+16, RS GF(2^8) 24+8, Small Block Systematic 32+16+16, RS GF(2^m) (32-m)+m,
    RaptorQ 8+24, Raptor 16+16) -/
theorem payload_id_nocode_eq_spec (oti : Oti) (sbn esi sbl : Nat) (h : oti.fecId = 0) (h1 : sbn < 2^16) (h2 : esi < 2^16) :
    addPayloadId oti sbn esi sbl = .ok (Spec.encode (fpidNoCode sbn esi)) := by
  unfold addPayloadId
  simp only [h, NOCODE, if_true, Nat.reducePow] at h1 h2 ⊢
  rewrite [Nat.mod_eq_of_lt h1, Nat.mod_eq_of_lt h2]
  spec_bytes

theorem payload_id_rs28_eq_spec (oti : Oti) (sbn esi sbl : Nat) (h : oti.fecId = 5) (h1 : sbn < 2^24) (h2 : esi < 2^8) :
    addPayloadId oti sbn esi sbl = .ok (Spec.encode (fpidRs28 sbn esi)) := by
  unfold addPayloadId
  simp only [h, NOCODE, RS28, Nat.reduceEqDiff, if_true, if_false, Nat.reducePow] at h1 h2 ⊢
  rewrite [Nat.mod_eq_of_lt h1, Nat.mod_eq_of_lt h2]
  spec_bytes

theorem payload_id_rs28us_eq_spec (oti : Oti) (sbn esi sbl : Nat) (h : oti.fecId = 129) (h1 : sbn < 2^32)
    (h2 : esi < 2^16) (h3 : sbl < 2^16) :
    addPayloadId oti sbn esi sbl = .ok (Spec.encode (fpidSmallBlock sbn sbl esi)) := by
  unfold addPayloadId
  simp only [h, NOCODE, RS28, RS28US, Nat.reduceEqDiff, if_true, if_false, Nat.reducePow] at h1 h2 h3 ⊢
  spec_bytes
  refine congrArg Except.ok ?_
  bytes_eq

theorem payload_id_raptorq_eq_spec (oti : Oti) (sbn esi sbl : Nat) (h : oti.fecId = 6) (h1 : sbn < 2^8) (h2 : esi < 2^24) :
    addPayloadId oti sbn esi sbl = .ok (Spec.encode (fpidRaptorQ sbn esi)) := by
  unfold addPayloadId
  simp only [h, NOCODE, RS28, RS28US, RS2M, RAPTORQ, Nat.reduceEqDiff, if_true, if_false, Nat.reducePow] at h1 h2 ⊢
  rewrite [Nat.mod_eq_of_lt h1, Nat.mod_eq_of_lt h2]
  spec_bytes

theorem payload_id_raptor_eq_spec (oti : Oti) (sbn esi sbl : Nat) (h : oti.fecId = 1) (h1 : sbn < 2^16) (h2 : esi < 2^16) :
    addPayloadId oti sbn esi sbl = .ok (Spec.encode (fpidRaptor sbn esi)) := by
  unfold addPayloadId
  simp only [h, NOCODE, RS28, RS28US, RS2M, RAPTORQ, RAPTOR, Nat.reduceEqDiff, if_true, if_false, Nat.reducePow] at h1 h2 ⊢
  rewrite [Nat.mod_eq_of_lt h1, Nat.mod_eq_of_lt h2]
  spec_bytes

/-- RS GF(2^m): ∀ 1 ≤ m ≤ 31 (flute refuses m ≥ 32), SBN < 2^(32-m), ESI < 2^m
    (false before the repair of D36 for ESI ≥ 256 or m < 8) -/
theorem payload_id_rs2m_eq_spec (oti : Oti) (m g sbn esi sbl : Nat) (h : oti.fecId = 2) (hss : oti.ss = .rs m g)
    (hm : m < 32) (h1 : sbn < 2^(32 - m)) (h2 : esi < 2^m) :
    addPayloadId oti sbn esi sbl = .ok (Spec.encode (fpidRs2m m sbn esi)) := by
  unfold addPayloadId rsM
  simp only [h, hss, NOCODE, RS28, RS28US, RS2M, Nat.reduceEqDiff, if_true, if_false]
  rewrite [if_neg (by omega), encode_fpidRs2m m sbn esi (by omega), Nat.mod_eq_of_lt h2]
  have : sbn * 2 ^ m < 2 ^ 32 := by
    have e : (2:Nat) ^ 32 = 2 ^ (32 - m) * 2 ^ m := by rw [← Nat.pow_add]; congr 1; omega
    rw [e]; exact Nat.mul_lt_mul_of_lt_of_le h1 (Nat.le_refl _) (Nat.pow_pos (by decide))
  rw [Nat.mod_eq_of_lt this]


/-- **payload_id_parse_spec**: `parse_payload_id` on a datagram whose payload-id window holds the RFC layout of
    any in-range (SBN, ESI[, source block length]) returns those values, whatever precedes and follows -/
theorem payload_id_nocode_parse_spec (oti : Oti) (pre post : List Nat) (sbn esi : Nat) (h : oti.fecId = 0)
    (h1 : sbn < 2^16) (h2 : esi < 2^16) :
    getPayloadId oti (pre ++ (Spec.encode (fpidNoCode sbn esi) ++ post)) pre.length (pre.length + 4) =
      .ok { sbn := sbn, esi := esi, sbl := none } := by
  spec_bytes
  have := getPayloadId_window oti pre (beBytes 4 (sbn * 65536 + esi)) post
  rewrite [length_beBytes] at this
  rewrite [this, pidOfBytes_beBytes4 oti _ (by rw [h]; decide)]
  simp only [h, NOCODE, if_true, Nat.reducePow] at h1 h2 ⊢
  fields_eq

theorem payload_id_rs28_parse_spec (oti : Oti) (pre post : List Nat) (sbn esi : Nat) (h : oti.fecId = 5)
    (h1 : sbn < 2^24) (h2 : esi < 2^8) :
    getPayloadId oti (pre ++ (Spec.encode (fpidRs28 sbn esi) ++ post)) pre.length (pre.length + 4) =
      .ok { sbn := sbn, esi := esi, sbl := none } := by
  spec_bytes
  have := getPayloadId_window oti pre (beBytes 4 (sbn * 256 + esi)) post
  rewrite [length_beBytes] at this
  rewrite [this, pidOfBytes_beBytes4 oti _ (by rw [h]; decide)]
  simp only [h, NOCODE, RS28, Nat.reduceEqDiff, if_true, if_false, Nat.reducePow] at h1 h2 ⊢
  fields_eq

theorem payload_id_rs28us_parse_spec (oti : Oti) (pre post : List Nat) (sbn sbl esi : Nat) (h : oti.fecId = 129)
    (h1 : sbn < 2^32) (h2 : esi < 2^16) (h3 : sbl < 2^16) :
    getPayloadId oti (pre ++ (Spec.encode (fpidSmallBlock sbn sbl esi) ++ post)) pre.length (pre.length + 8) =
      .ok { sbn := sbn, esi := esi, sbl := some sbl } := by
  spec_bytes
  have := getPayloadId_window oti pre (beBytes 8 (sbn * 4294967296 + (sbl * 65536 + esi))) post
  rewrite [length_beBytes] at this
  rewrite [this, pidOfBytes_beBytes8 oti _ (by rw [h]; rfl)]
  simp only [Nat.reducePow] at h1 h2 h3 ⊢
  fields_eq

theorem payload_id_raptorq_parse_spec (oti : Oti) (pre post : List Nat) (sbn esi : Nat) (h : oti.fecId = 6)
    (h1 : sbn < 2^8) (h2 : esi < 2^24) :
    getPayloadId oti (pre ++ (Spec.encode (fpidRaptorQ sbn esi) ++ post)) pre.length (pre.length + 4) =
      .ok { sbn := sbn, esi := esi, sbl := none } := by
  spec_bytes
  have := getPayloadId_window oti pre (beBytes 4 (sbn * 16777216 + esi)) post
  rewrite [length_beBytes] at this
  rewrite [this, pidOfBytes_beBytes4 oti _ (by rw [h]; decide)]
  simp only [h, NOCODE, RS28, RS2M, RAPTORQ, Nat.reduceEqDiff, if_true, if_false, Nat.reducePow] at h1 h2 ⊢
  fields_eq

theorem payload_id_raptor_parse_spec (oti : Oti) (pre post : List Nat) (sbn esi : Nat) (h : oti.fecId = 1)
    (h1 : sbn < 2^16) (h2 : esi < 2^16) :
    getPayloadId oti (pre ++ (Spec.encode (fpidRaptor sbn esi) ++ post)) pre.length (pre.length + 4) =
      .ok { sbn := sbn, esi := esi, sbl := none } := by
  spec_bytes
  have := getPayloadId_window oti pre (beBytes 4 (sbn * 65536 + esi)) post
  rewrite [length_beBytes] at this
  rewrite [this, pidOfBytes_beBytes4 oti _ (by rw [h]; decide)]
  simp only [h, NOCODE, RS28, RS2M, RAPTORQ, RAPTOR, Nat.reduceEqDiff, if_true, if_false, Nat.reducePow] at h1 h2 ⊢
  fields_eq

theorem payload_id_rs2m_parse_spec (oti : Oti) (pre post : List Nat) (m g sbn esi : Nat) (h : oti.fecId = 2)
    (hss : oti.ss = .rs m g) (hm : m < 32) (h1 : sbn < 2^(32 - m)) (h2 : esi < 2^m) :
    getPayloadId oti (pre ++ (Spec.encode (fpidRs2m m sbn esi) ++ post)) pre.length (pre.length + 4) =
      .ok { sbn := sbn, esi := esi, sbl := none } := by
  rewrite [encode_fpidRs2m m sbn esi (by omega)]
  have := getPayloadId_window oti pre (beBytes 4 (sbn * 2 ^ m + esi)) post
  rewrite [length_beBytes] at this
  rewrite [this, pidOfBytes_beBytes4 oti _ (by rw [h]; decide)]
  have hlt : sbn * 2 ^ m + esi < 2 ^ 32 := by
    have e : (2:Nat) ^ 32 = 2 ^ (32 - m) * 2 ^ m := by rw [← Nat.pow_add]; congr 1; omega
    have : (sbn + 1) * 2 ^ m ≤ 2 ^ (32 - m) * 2 ^ m := Nat.mul_le_mul_right _ h1
    rw [e]; rw [Nat.add_mul] at this; omega
  have hr : rsM oti = m := by unfold rsM; rw [hss]
  simp only [h, hr, NOCODE, RS28, RS2M, Nat.reduceEqDiff, if_true, if_false]
  rewrite [if_neg (by omega), Nat.mod_eq_of_lt hlt]
  have e1 : (sbn * 2 ^ m + esi) / 2 ^ m = sbn := by
    rw [Nat.add_comm, Nat.add_mul_div_right _ _ (Nat.pow_pos (by decide)), Nat.div_eq_of_lt h2, Nat.zero_add]
  have e2 : (sbn * 2 ^ m + esi) % 2 ^ m = esi := by
    rw [Nat.add_comm, Nat.add_mul_mod_self_right, Nat.mod_eq_of_lt h2]
  rw [e1, e2]

end Flute.Props.C06
