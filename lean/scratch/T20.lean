import FluteModel.Props.C06
import FluteModel.Legacy
namespace Flute.Props.C06
open Flute Flute.Bytes Flute.Lct Flute.Fti Flute.Alc Flute.Spec Flute.Ntp

/-- D13 witness (pre-repair code): one microsecond after the epoch came back as 0 -/
theorem legacy_ntp_roundtrip_false : ntpToSystemTime (Legacy.systemTimeToNtp 1) = .ok 0 := by decide

/-- D7 witness (pre-repair code): ANY extension area that starts with an unknown variable-length extension of
    64 words (`HET = 65, HEL = 64`, RFC-valid: HEL may be up to 255) made the legacy walk reject the packet,
    whatever extension was asked for - `(64 << 2) as u8 = 0`.  The repaired code finds the extensions behind it
    (`ext_walk_eq_spec`, non-vacuity example `sampleHeader`). -/
theorem legacy_ext_walk_hel64_rejected (fuel : Nat) (rest : List Nat) (ext : Nat) (h : 2 ≤ rest.length) :
    Legacy.getExtLoop (fuel + 1) (65 :: 64 :: rest) ext = .err := by
  unfold Legacy.getExtLoop
  rw [if_pos (by simp only [List.length_cons]; omega)]
  simp [idx]
end Flute.Props.C06
