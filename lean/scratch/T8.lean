import FluteModel.Lemmas.SpecLct
namespace Flute.Fti
open Flute Flute.Bytes
set_option profiler true
theorem beBytes16_explicit (X : Nat) : beBytes 16 X =
    [X / 2^120 % 256, X / 2^112 % 256, X / 2^104 % 256, X / 2^96 % 256, X / 2^88 % 256, X / 2^80 % 256,
     X / 2^72 % 256, X / 2^64 % 256, X / 2^56 % 256, X / 2^48 % 256, X / 2^40 % 256, X / 2^32 % 256,
     X / 2^24 % 256, X / 2^16 % 256, X / 2^8 % 256, X % 256] := by
  simp only [beBytes, Nat.reducePow, Nat.pow_zero, Nat.div_one]
end Flute.Fti
