import FluteModel.Lemmas.Codec
namespace Flute.Fti
open Flute Flute.Bytes Flute.Lct Flute.Fti Flute.Alc Flute.Spec

/-- what `AlcRaptorQ::get_fti` / `AlcRaptor::get_fti` do with the decoded values -/
def raptorCheck (fec : Nat) (ss : SchemeSpecific) (F T Z Al : Nat) : Out (Oti × Nat) :=
  if T = 0 then .err else
  if Z = 0 then .err else
  if Al = 0 then .err else
  if T % Al ≠ 0 then .err else
  .ok (otiOf fec 0 (divCeil (divCeil F Z) T % 2^32) T 0 ss, F)

theorem getFtiRaptorQ_core (X F T Z N Al : Nat)
    (h0 : X / 2^48 % 2^64 / 2^24 = F) (h1 : X / 2^48 % 2^16 = T) (h2 : X / 2^40 % 2^8 = Z)
    (h3 : X / 2^24 % 2^16 = N) (h4 : X / 2^16 % 2^8 = Al) :
    getFtiRaptorQ (beBytes 16 X) = raptorCheck 6 (.raptorq Z N Al) F T Z Al := by
  unfold getFtiRaptorQ raptorCheck otiOf
  parse_bebytes
  simp only [Nat.reducePow] at h0 h1 h2 h3 h4
  rewrite [h0, h1, h2, h3, h4]
  rfl

theorem getFtiRaptor_core (X F T Z N Al : Nat)
    (h0 : X / 2^48 % 2^64 / 2^16 = F) (h1 : X / 2^32 % 2^16 = T) (h2 : X / 2^16 % 2^16 = Z)
    (h3 : X / 2^8 % 2^8 = N) (h4 : X % 2^8 = Al) :
    getFtiRaptor (beBytes 16 X) = raptorCheck 1 (.raptor Z N Al) F T Z Al := by
  unfold getFtiRaptor raptorCheck otiOf
  parse_bebytes
  simp only [Nat.reducePow] at h0 h1 h2 h3 h4
  rewrite [h0, h1, h2, h3, h4]
  rfl
end Flute.Fti

namespace Flute.Props.C06
open Flute Flute.Bytes Flute.Lct Flute.Fti Flute.Alc Flute.Spec

/-- RaptorQ (FEC id 6), RFC 6330 §3.3.2-3.3.3: ∀ F < 2^40, T < 2^16, Z < 2^8, N < 2^16, Al < 2^8 -/
theorem fti_raptorq_eq_spec (oti : Oti) (F z n al : Nat) (hss : oti.ss = .raptorq z n al) (hF : F < 2^40)
    (hT : oti.esl < 2^16) (hz : z < 2^8) (hn : n < 2^16) (hal : al < 2^8) :
    addFtiRaptorQ oti F = .ok (Spec.encode (ftiRaptorQ F oti.esl z n al), 4) := by
  unfold addFtiRaptorQ
  rewrite [hss]
  simp only [Nat.reducePow] at hF hT hz hn hal ⊢
  rewrite [Nat.mod_eq_of_lt (show F * 16777216 < 18446744073709551616 by omega), Nat.mod_eq_of_lt hT]
  spec_bytes
  refine congrArg (fun x => Except.ok (x, 4)) ?_
  bytes_eq

theorem fti_raptorq_parse_spec (F T Z N Al : Nat) (hF : F < 2^40) (hT : T < 2^16) (hZ : Z < 2^8) (hN : N < 2^16)
    (hAl : Al < 2^8) :
    getFtiRaptorQ (Spec.encode (ftiRaptorQ F T Z N Al)) = raptorCheck 6 (.raptorq Z N Al) F T Z Al := by
  spec_bytes
  simp only [Nat.reducePow] at hF hT hZ hN hAl
  apply getFtiRaptorQ_core <;> simp only [Nat.reducePow] <;> omega

/-- Raptor (FEC id 1), RFC 5053 §3.2.2-3.2.3: ∀ F < 2^48, T < 2^16, Z < 2^16, N < 2^8, Al < 2^8
    (false before the repair of D35: flute used the RaptorQ layout) -/
theorem fti_raptor_eq_spec (oti : Oti) (F z n al : Nat) (hss : oti.ss = .raptor z n al) (hF : F < 2^48)
    (hT : oti.esl < 2^16) (hz : z < 2^16) (hn : n < 2^8) (hal : al < 2^8) :
    addFtiRaptor oti F = .ok (Spec.encode (ftiRaptor F oti.esl z n al), 4) := by
  unfold addFtiRaptor
  rewrite [hss]
  simp only [Nat.reducePow] at hF hT hz hn hal ⊢
  rewrite [Nat.mod_eq_of_lt (show F * 65536 < 18446744073709551616 by omega)]
  spec_bytes
  refine congrArg (fun x => Except.ok (x, 4)) ?_
  bytes_eq

theorem fti_raptor_parse_spec (F T Z N Al : Nat) (hF : F < 2^48) (hT : T < 2^16) (hZ : Z < 2^16) (hN : N < 2^8)
    (hAl : Al < 2^8) :
    getFtiRaptor (Spec.encode (ftiRaptor F T Z N Al)) = raptorCheck 1 (.raptor Z N Al) F T Z Al := by
  spec_bytes
  simp only [Nat.reducePow] at hF hT hZ hN hAl
  apply getFtiRaptor_core <;> simp only [Nat.reducePow] <;> omega

end Flute.Props.C06
