import FluteModel.Lemmas.Codec
namespace Flute.Props.C06
open Flute Flute.Bytes Flute.Lct Flute.Fti Flute.Alc Flute.Spec Flute.Ntp

theorem append_congr {a b c d : List Nat} (h1 : a = c) (h2 : b = d) : a ++ b = c ++ d := by rw [h1, h2]

theorem pushSct_eq (data : List Nat) (us ntp : Nat) (h1 : systemTimeToNtp us = .ok ntp) (h2 : ntp < 18446744073709551616) :
    pushSct data us = extendInc data (Spec.encode (extTimeSctDiagram (ntp / 4294967296) (ntp % 4294967296))) 3 := by
  show _ = extendInc data (Spec.encode (extTimeSctDiagram (ntp / 4294967296) (ntp % 4294967296))) (1 + 2)
  unfold pushSct
  rewrite [h1]
  simp only [Nat.reducePow]
  spec_bytes
  rewrite [Nat.div_add_mod' ntp 4294967296]
  refine congrArg (fun x => extendInc data x 3) ?_
  rewrite [beBytes_add 4 8]
  apply append_congr
  · apply beBytes_congr; simp only [Nat.reducePow]; omega
  · apply beBytes_congr; simp only [Nat.reducePow]; omega
end Flute.Props.C06
