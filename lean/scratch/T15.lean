import FluteModel.Lemmas.Codec
import FluteModel.Lemmas.Ntp
namespace Flute.Alc
open Flute Flute.Bytes Flute.Lct Flute.Fti Flute.Alc Flute.Spec Flute.Ntp

/-- `parse_sct` on a 12-byte extension given as a number -/
theorem parseSct_core (X secs frac : Nat) (hu : X / 2^72 % 256 = 192) (h1 : X / 2^32 % 2^32 = secs)
    (h2 : X % 2^32 = frac) :
    parseSct (beBytes 12 X) = (ntpToSystemTime (secs * 2^32 + frac)).bind fun t => .ok (some t) := by
  unfold parseSct
  simp only [Nat.reducePow] at hu h1 h2 ⊢
  rewrite [length_beBytes, if_neg (by omega), idx_beBytes _ _ _ (by omega), Out.bind_ok]
  simp only [Nat.reduceSub, Nat.reducePow]
  rewrite [hu]
  simp only [Nat.reduceDiv, Nat.reduceMod, Nat.reduceAdd, Nat.reduceMul, ne_eq, not_true_eq_false, if_false,
    Nat.reduceEqDiff, if_true]
  rewrite [fld_beBytes _ _ _ _ (by omega) (by omega), Out.bind_ok,
    fld_beBytes _ _ _ _ (by omega) (by omega), Out.bind_ok]
  simp only [Nat.reduceSub, Nat.reducePow, Nat.pow_zero, Nat.div_one]
  rewrite [h1, h2]
  rfl
end Flute.Alc
namespace Flute.Props.C06
open Flute Flute.Bytes Flute.Lct Flute.Fti Flute.Alc Flute.Spec Flute.Ntp

theorem ext_time_parse_spec (secs frac : Nat) (h1 : secs < 2^32) (h2 : frac < 2^32) :
    parseSct (Spec.encode (extTimeSctDiagram secs frac)) =
      (ntpToSystemTime (secs * 2^32 + frac)).bind fun t => .ok (some t) := by
  spec_bytes
  simp only [Nat.reducePow] at h1 h2
  apply parseSct_core <;> simp only [Nat.reducePow] <;> omega

theorem ext_time_eq_spec (data : List Nat) (us : Nat) (h : us / 1000000 + 2208988800 < 2^32) :
    ∃ ntp, systemTimeToNtp us = .ok ntp ∧ ntp < 2^64 ∧
      pushSct data us = extendInc data (Spec.encode (extTimeSctDiagram (ntp / 2^32) (ntp % 2^32))) 3 := by
  simp only [Nat.reducePow] at h
  have hm : us % 1000000 < 1000000 := Nat.mod_lt _ (by decide)
  obtain ⟨hf1, _⟩ := frac_ceil_floor _ hm
  have h1 := systemTimeToNtp_eq us h
  have h2 := (ntp_split _ _ h hf1).2.2
  refine ⟨_, h1, h2, ?_⟩
  generalize (us / 1000000 + 2208988800) * 4294967296 % 18446744073709551616 +
            (us % 1000000 * 4294967296 + 999999) / 1000000 = ntp at h1 h2 ⊢
  unfold pushSct
  rewrite [h1]
  simp only [Nat.reducePow]
  spec_bytes
  refine congrArg (fun x => extendInc data x 3) ?_
  rewrite [show (12:Nat) = 4 + 8 from rfl, beBytes_add]
  refine congrArg₂ (· ++ ·) (beBytes_congr ?_) (beBytes_congr ?_) <;> simp only [Nat.reducePow] <;> omega
end Flute.Props.C06
