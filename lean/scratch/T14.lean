import FluteModel.Lemmas.Codec
import FluteModel.Lemmas.Ntp
namespace Flute.Alc
open Flute Flute.Bytes Flute.Lct Flute.Fti Flute.Alc Flute.Spec Flute.Ntp

theorem fdt_word (v id : Nat) (hv : v < 16) (hid : id < 2 ^ 20) :
    (192 <<< 24) ||| (v <<< 20) ||| id = 192 * 2 ^ 24 + v * 2 ^ 20 + id := by
  rw [Nat.or_comm, Nat.or_comm (192 <<< 24), ← Nat.or_assoc, or_shl _ _ 20 hid,
      or_shl _ _ 24 (by omega)]
  omega

end Flute.Alc

namespace Flute.Props.C06
open Flute Flute.Bytes Flute.Lct Flute.Fti Flute.Alc Flute.Spec Flute.Ntp

/-! ## EXT_FDT, EXT_CENC, EXT_TIME -/

/-- EXT_FDT (RFC 6726 §3.4.1): ∀ version < 16, FDT instance id < 2^20, the extension `push_fdt` appends is the
    RFC layout -/
theorem ext_fdt_eq_spec (data : List Nat) (version id : Nat) (hv : version < 16) (hid : id < 2^20) :
    pushFdt data version id = extendInc data (Spec.encode (extFdtDiagram version id)) 1 := by
  unfold pushFdt
  rewrite [fdt_word version id hv hid]
  spec_bytes
  rw [Nat.add_assoc]

/-- ... and `parse_ext_fdt` reads any RFC-laid-out EXT_FDT back to `(version, instance id)` -/
theorem ext_fdt_parse_spec (version id : Nat) (hv : version < 16) (hid : id < 2^20) :
    parseExtFdt (Spec.encode (extFdtDiagram version id)) = .ok (some (version, id)) := by
  spec_bytes
  unfold parseExtFdt
  rewrite [length_beBytes, if_neg (by omega), beVal_beBytes]
  simp only [Nat.reducePow] at hid ⊢
  simp only [Out.ok.injEq, Option.some.injEq, Prod.mk.injEq]
  constructor <;> omega

/-- EXT_CENC (RFC 6726 §3.4.3) -/
theorem ext_cenc_eq_spec (data : List Nat) (cenc : Nat) :
    pushCenc data cenc = extendInc data (Spec.encode (extCencDiagram cenc)) 1 := by
  unfold pushCenc
  spec_bytes

theorem ext_cenc_parse_spec (cenc : Nat) (h : cenc ≤ 3) :
    parseCenc (Spec.encode (extCencDiagram cenc)) = .ok cenc := by
  spec_bytes
  unfold parseCenc
  rewrite [length_beBytes, if_neg (by omega), idx_beBytes _ _ _ (by omega), Out.bind_ok]
  simp only [Nat.reduceSub, Nat.reducePow]
  have : (193 * 16777216 + cenc * 65536) / 65536 % 256 = cenc := by omega
  rewrite [this, if_pos h]
  rfl

/-- EXT_TIME with SCT-High + SCT-Low (RFC 5651 §5.2.2): the extension `push_sct` appends is the RFC layout
    of the 64-bit NTP timestamp -/
theorem ext_time_eq_spec (data : List Nat) (us : Nat) (h : us / 1000000 + 2208988800 < 2^32) :
    ∃ ntp, systemTimeToNtp us = .ok ntp ∧ ntp < 2^64 ∧
      pushSct data us = extendInc data (Spec.encode (extTimeSctDiagram (ntp / 2^32) (ntp % 2^32))) 3 := by
  simp only [Nat.reducePow] at h
  have hm : us % 1000000 < 1000000 := Nat.mod_lt _ (by decide)
  obtain ⟨hf1, _⟩ := frac_ceil_floor _ hm
  have h1 := systemTimeToNtp_eq us h
  have h2 := (ntp_split _ _ h hf1).2.2
  refine ⟨_, h1, h2, ?_⟩
  generalize (us / 1000000 + 2208988800) * 4294967296 % 18446744073709551616 +
            (us % 1000000 * 4294967296 + 999999) / 1000000 = ntp at h1 h2 ⊢
  unfold pushSct
  rewrite [h1]
  simp only [Nat.reducePow] at h2 ⊢
  spec_bytes
  refine congrArg (fun x => extendInc data x 3) ?_
  bytes_eq

/-- `parse_sct` on the RFC layout of any NTP timestamp = `ntp_to_system_time` of that timestamp -/
theorem ext_time_parse_spec (secs frac : Nat) (h1 : secs < 2^32) (h2 : frac < 2^32) :
    parseSct (Spec.encode (extTimeSctDiagram secs frac)) =
      (ntpToSystemTime (secs * 2^32 + frac)).bind fun t => .ok (some t) := by
  spec_bytes
  unfold parseSct
  simp only [Nat.reducePow] at h1 h2 ⊢
  rewrite [length_beBytes, if_neg (by omega), idx_beBytes _ _ _ (by omega), Out.bind_ok]
  simp only [Nat.reduceSub, Nat.reducePow]
  have hu : (2 * 309485009821345068724781056 + (3 * 1208925819614629174706176 + (1 * 604462909807314587353088 +
      (1 * 302231454903657293676544 + (0 * 151115727451828646838272 + (0 * 75557863725914323419136 +
      (0 * 4722366482869645213696 + (0 * 18446744073709551616 + (secs * 4294967296 + frac)))))))))
      / 4722366482869645213696 % 256 = 192 := by omega
  rewrite [hu]
  simp only [Nat.reduceDiv, Nat.reduceMod, Nat.reduceAdd, Nat.reduceMul, ne_eq, not_true_eq_false, if_false,
    Nat.reduceEqDiff]
  rewrite [fld_beBytes _ _ _ _ (by omega) (by omega), Out.bind_ok, if_pos rfl,
    fld_beBytes _ _ _ _ (by omega) (by omega), Out.bind_ok]
  simp only [Nat.reduceSub, Nat.reducePow, Nat.pow_zero, Nat.div_one]
  have e1 : (2 * 309485009821345068724781056 + (3 * 1208925819614629174706176 + (1 * 604462909807314587353088 +
      (1 * 302231454903657293676544 + (0 * 151115727451828646838272 + (0 * 75557863725914323419136 +
      (0 * 4722366482869645213696 + (0 * 18446744073709551616 + (secs * 4294967296 + frac)))))))))
      / 4294967296 % 4294967296 = secs := by omega
  have e2 : (2 * 309485009821345068724781056 + (3 * 1208925819614629174706176 + (1 * 604462909807314587353088 +
      (1 * 302231454903657293676544 + (0 * 151115727451828646838272 + (0 * 75557863725914323419136 +
      (0 * 4722366482869645213696 + (0 * 18446744073709551616 + (secs * 4294967296 + frac)))))))))
      % 4294967296 = frac := by omega
  rewrite [e1, e2]
  rfl

end Flute.Props.C06
