import FluteModel.Lemmas.SpecLct
import FluteModel.Spec.Fti
import FluteModel.Alc
namespace Flute
open Flute.Bytes Flute.Lct Flute.Fti Flute.Alc Flute.Spec

theorem spec_encode_eq (fs : List Field) : Spec.encode fs = beBytes (width fs / 8) (pack fs) := by
  unfold Spec.encode; rw [octets_eq_beBytes]

theorem beBytes16_gen (X : Nat) : ∃ b15 b14 b13 b12 b11 b10 b9 b8 b7 b6 b5 b4 b3 b2 b1 b0 : Nat,
    beBytes 16 X = [b15, b14, b13, b12, b11, b10, b9, b8, b7, b6, b5, b4, b3, b2, b1, b0] ∧
    b15 = X / 2^120 % 256 ∧ b14 = X / 2^112 % 256 ∧ b13 = X / 2^104 % 256 ∧ b12 = X / 2^96 % 256 ∧
    b11 = X / 2^88 % 256 ∧ b10 = X / 2^80 % 256 ∧ b9 = X / 2^72 % 256 ∧ b8 = X / 2^64 % 256 ∧
    b7 = X / 2^56 % 256 ∧ b6 = X / 2^48 % 256 ∧ b5 = X / 2^40 % 256 ∧ b4 = X / 2^32 % 256 ∧
    b3 = X / 2^24 % 256 ∧ b2 = X / 2^16 % 256 ∧ b1 = X / 2^8 % 256 ∧ b0 = X % 256 :=
  ⟨_, _, _, _, _, _, _, _, _, _, _, _, _, _, _, _, by simp only [beBytes, Nat.reducePow, Nat.pow_zero, Nat.div_one],
   rfl, rfl, rfl, rfl, rfl, rfl, rfl, rfl, rfl, rfl, rfl, rfl, rfl, rfl, rfl, rfl⟩

set_option profiler true in
theorem fti_nocode_roundtrip (L E B : Nat) (hL : L < 2^48) (hE : E < 2^16) (hB : B < 2^32) :
    getFtiNoCode (Spec.encode (ftiNoCode L E B)) =
      .ok ({ fecId := 0, inst := 0, maxSbl := B, esl := E, parity := 0, ss := .none, inbandFti := true }, L) := by
  rw [spec_encode_eq]
  simp only [ftiNoCode, width, pack, HET_FTI, Nat.reduceAdd, Nat.reduceDiv, Nat.reducePow, Nat.zero_mul, Nat.add_zero, Nat.mul_one] at *
  obtain ⟨b15, b14, b13, b12, b11, b10, b9, b8, b7, b6, b5, b4, b3, b2, b1, b0, hb, h15, h14, h13, h12, h11, h10, h9, h8,
    h7, h6, h5, h4, h3, h2, h1, h0⟩ := beBytes16_gen (64 * 1329227995784915872903807060280344576 +
      (4 * 5192296858534827628530496329220096 + (L * 18446744073709551616 + (0 + (E * 4294967296 + B)))))
  rw [hb]
  simp only [Nat.reducePow] at h15 h14 h13 h12 h11 h10 h9 h8 h7 h6 h5 h4 h3 h2 h1 h0
  unfold getFtiNoCode
  simp only [List.length_cons, List.length_nil, Nat.reduceAdd, ne_eq, not_true_eq_false, if_false, idx, fld, slice,
    List.getElem?_cons_succ, List.getElem?_cons_zero, Out.bind_ok, Nat.reduceLeDiff, and_self, if_true,
    List.drop_succ_cons, List.drop_zero, List.take_succ_cons, List.take_zero, Nat.reduceSub, beVal, NOCODE,
    Nat.reducePow, Nat.pow_zero, Nat.mul_one, Nat.add_zero]
  have e14 : b14 = 4 := by omega
  rw [if_neg (by omega)]
  congr 2
  · congr 1
    · omega
    · omega
  · omega
end Flute
