import FluteModel.Lemmas.Total
namespace Flute
open Flute.Bytes Flute.Lct Flute.Fti Flute.Alc Flute.Ntp

theorem fld_lt (fti : List Nat) (hw : Wf fti) (i j : Nat) (h1 : i ≤ j) (h2 : j ≤ fti.length) :
    ∃ v, fld fti i j = .ok v ∧ v < 256 ^ (j - i) := by
  refine ⟨_, fld_ok fti i j h1 h2, ?_⟩
  have := beVal_lt _ (wf_take (wf_drop hw i) (j - i))
  rwa [length_slice _ _ _ h1 h2] at this

theorem parseSct_total (ext : List Nat) (hw : Wf ext) (h : 4 ≤ ext.length) : (parseSct ext).isPanic = false := by
  unfold parseSct
  rw [if_neg (by omega), idx_ok ext 2 (by omega)]
  simp only [Out.bind_ok]
  split
  · rfl
  · rename_i hl
    split
    · rfl
    · rename_i hhi
      obtain ⟨secs, hs, hsl⟩ := fld_lt ext hw 4 8 (by omega) (by omega)
      sorry
end Flute
