import FluteModel.Lemmas.SpecLct
import FluteModel.Spec.Fti
import FluteModel.Alc
namespace Flute.Fti
open Flute Flute.Bytes Flute.Lct Flute.Fti Flute.Spec

theorem beBytes16_explicit (X : Nat) : beBytes 16 X =
    [X / 2^120 % 256, X / 2^112 % 256, X / 2^104 % 256, X / 2^96 % 256, X / 2^88 % 256, X / 2^80 % 256,
     X / 2^72 % 256, X / 2^64 % 256, X / 2^56 % 256, X / 2^48 % 256, X / 2^40 % 256, X / 2^32 % 256,
     X / 2^24 % 256, X / 2^16 % 256, X / 2^8 % 256, X % 256] := by
  simp only [beBytes, Nat.reducePow, Nat.pow_zero, Nat.div_one]

/-- evaluation of the parser primitives on an explicit list -/
macro "eval_parser" : tactic => `(tactic|
  simp only [List.length_cons, List.length_nil, Nat.reduceAdd, ne_eq, not_true_eq_false, if_false, idx, fld, slice,
    List.getElem?_cons_succ, List.getElem?_cons_zero, Out.bind_ok, Nat.reduceLeDiff, and_self, if_true,
    List.drop_succ_cons, List.drop_zero, List.take_succ_cons, List.take_zero, Nat.reduceSub, beVal,
    Nat.reducePow, Nat.pow_zero, Nat.mul_one, Nat.add_zero, List.length_nil])

set_option profiler true in
theorem getFtiNoCode_beBytes (X : Nat) :
    getFtiNoCode (beBytes 16 X) =
      if X / 2^112 % 256 ≠ 4 then .err else
      .ok ({ fecId := NOCODE, inst := 0, maxSbl := X % 2^32, esl := X / 2^32 % 2^16, parity := 0, ss := .none,
             inbandFti := true }, X / 2^64 % 2^48) := by
  rewrite [beBytes16_explicit]
  unfold getFtiNoCode
  eval_parser
  split
  · rfl
  · simp only [Out.ok.injEq, Prod.mk.injEq, Oti.mk.injEq, true_and, and_true]
    trace_state
    sorry
end Flute.Fti
