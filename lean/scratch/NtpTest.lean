import FluteModel.Ntp
import FluteModel.Spec.Ext
open Flute Flute.Ntp

def systemTimeToNtp' (us : Nat) : Rs Nat :=
  let secondsUtc := us / 1000000
  let submicro := us % 1000000
  if secondsUtc + 2208988800 < 2^64 then
    let secondsNtp := secondsUtc + 2208988800
    let fraction := ((submicro * 2^32 + 999999) / 1000000) % 2^32          -- `as u32`
    .ok ((secondsNtp * 2^32) % 2^64 + fraction)                 -- `(seconds_ntp << 32) | fraction`
  else .error "attempt to add with overflow"

theorem frac_ceil_floor (m : Nat) (hm : m < 1000000) :
    let f := (m * 4294967296 + 999999) / 1000000
    f < 4294967296 ∧ f * 1000000 / 4294967296 = m := by
  intro f
  omega

theorem ntp_split (s f : Nat) (hs : s + 2208988800 < 4294967296) (hf : f < 4294967296) :
    ((s + 2208988800) * 4294967296 % 18446744073709551616 + f) / 4294967296 = s + 2208988800 ∧
    ((s + 2208988800) * 4294967296 % 18446744073709551616 + f) % 4294967296 = f ∧
    ((s + 2208988800) * 4294967296 % 18446744073709551616 + f) < 18446744073709551616 := by
  omega

theorem ntp_roundtrip (us : Nat) (h : us / 1000000 + 2208988800 < 2^32) :
    ∃ ntp, systemTimeToNtp' us = .ok ntp ∧ ntp < 2^64 ∧ ntpToSystemTime ntp = .ok us := by
  have hm : us % 1000000 < 1000000 := Nat.mod_lt _ (by decide)
  have hus : us = 1000000 * (us / 1000000) + us % 1000000 := (Nat.div_add_mod us 1000000).symm
  simp only [Nat.reducePow] at h
  obtain ⟨hf1, hf2⟩ := frac_ceil_floor _ hm
  obtain ⟨e1, e2, e3⟩ := ntp_split _ _ h hf1
  unfold systemTimeToNtp' ntpToSystemTime
  simp only [Nat.reducePow]
  rw [if_pos (by omega)]
  refine ⟨_, rfl, ?_, ?_⟩
  · rw [Nat.mod_eq_of_lt hf1]; exact e3
  · rw [Nat.mod_eq_of_lt hf1, e1, e2, hf2]
    rw [if_neg (by omega)]
    simp only [Nat.add_sub_cancel]
    rw [if_pos (by omega)]
    congr 1; omega
