import FluteModel.Lemmas.Codec
namespace Flute.Props.C06
open Flute Flute.Bytes Flute.Lct Flute.Fti Flute.Alc Flute.Spec Flute.Ntp

theorem ext_time_parse_spec (secs frac : Nat) (h1 : secs < 2^32) (h2 : frac < 2^32) :
    parseSct (Spec.encode (extTimeSctDiagram secs frac)) =
      (ntpToSystemTime (secs * 2^32 + frac)).bind fun t => .ok (some t) := by
  spec_bytes
  simp only [Nat.reducePow] at h1 h2
  apply parseSct_core
  · simp only [Nat.reducePow]; omega
  · simp only [Nat.reducePow]; omega
  · simp only [Nat.reducePow]; omega
end Flute.Props.C06
