import FluteModel.Ntp
open Flute Flute.Ntp
example (us : Nat) : ntpToSystemTime us = .err := by
  unfold ntpToSystemTime
  simp only [Nat.reducePow]
  trace_state
  sorry
example (us : Nat) : ntpToSystemTime us = .err := by
  unfold ntpToSystemTime
  simp -zeta only [NTP_UNIX_OFFSET]
  trace_state
  sorry
set_option maxRecDepth 5000 in
example (us : Nat) : ntpToSystemTime us = .err := by
  unfold ntpToSystemTime
  simp only [NTP_UNIX_OFFSET]
  trace_state
  sorry
