import FluteModel.Props.C06
import FluteModel.Legacy
namespace Flute.Props.C06
open Flute Flute.Bytes Flute.Lct Flute.Fti Flute.Alc Flute.Spec Flute.Ntp

/-- a header with non-minimal widths (TSI 5 in 48 bits, TOI 7 in 80 bits, CCI in 64 bits), an unknown
    variable-length extension of 64 words (HEL = 64, the first value the 8-bit shift wrapped on before D7 was
    repaired), an unknown fixed-length one and EXT_CENC -/
def sampleHeader : LctFields :=
  { c := 1, psi := 0, s := 1, o := 2, h := 1, a := 0, b := 1, cp := 0, cci := 9, tsi := 5, toi := 7,
    exts := [{ het := 65, hel := 64, body := List.replicate 254 0xAB }, { het := 200, hel := 0, body := [1, 2, 3] },
             { het := 193, hel := 0, body := [2, 0, 0] }] }

example : sampleHeader.Valid := by
  refine ⟨rfl, by decide, by decide, by decide, by decide, by decide, by decide, by decide, by decide, by decide,
    by decide, by decide, by decide, ?_⟩
  intro e he
  simp only [sampleHeader, List.mem_cons, List.not_mem_nil, or_false] at he
  rcases he with rfl | rfl | rfl
  · refine ⟨fun b hb => ?_, ?_⟩
    · rw [List.eq_of_mem_replicate hb]; decide
    · simp only [show (65:Nat) < 128 from by decide, if_true, List.length_replicate]; decide
  · exact ⟨by decide, by decide⟩
  · exact ⟨by decide, by decide⟩
end Flute.Props.C06
