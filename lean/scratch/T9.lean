import FluteModel.Lemmas.Codec
import FluteModel.Alc
namespace Flute
open Flute.Bytes Flute.Lct Flute.Fti Flute.Alc Flute.Spec

/-- explicit byte lists on both sides, then one linear-arithmetic goal per byte -/
macro "bytes_eq" : tactic => `(tactic|
  (simp only [beBytes, List.cons_append, List.nil_append, Nat.reducePow, Nat.pow_zero, Nat.div_one]
   repeat' (first | rfl | apply Flute.Spec.cons_congr)
   all_goals omega))

/-- a spec diagram with literal widths as `beBytes n (linear expression)` -/
macro "spec_bytes" : tactic => `(tactic|
  (rewrite [Flute.Spec.spec_encode_eq]
   simp only [ftiNoCode, ftiSmallBlock, ftiRs28, ftiRs2m, ftiRaptorQ, ftiRaptor, width, pack, HET_FTI, Nat.reduceAdd,
     Nat.reduceDiv, Nat.reducePow, Nat.zero_mul, Nat.add_zero, Nat.mul_one]))

/-- run a per-scheme FTI parser on `beBytes n X` -/
macro "parse_bebytes" : tactic => `(tactic|
  (simp only [length_beBytes, ne_eq, not_true_eq_false, if_false, Nat.reduceEqDiff]
   repeat (first
     | rewrite [idx_beBytes _ _ _ (by omega)]
     | rewrite [fld_beBytes _ _ _ _ (by omega) (by omega)]
     | rewrite [Out.bind_ok])
   simp only [Nat.reduceSub, Nat.reducePow, Nat.pow_zero, Nat.div_one, Nat.pow_one]))

set_option profiler true in
theorem fti_nocode_parse_spec (L E B : Nat) (hL : L < 2^48) (hE : E < 2^16) (hB : B < 2^32) :
    getFtiNoCode (Spec.encode (ftiNoCode L E B)) =
      .ok ({ fecId := 0, inst := 0, maxSbl := B, esl := E, parity := 0, ss := .none, inbandFti := true }, L) := by
  spec_bytes
  unfold getFtiNoCode
  parse_bebytes
  simp only [Nat.reducePow] at hL hE hB
  rewrite [if_neg (by omega)]
  simp only [Out.ok.injEq, Prod.mk.injEq, Oti.mk.injEq, NOCODE, true_and, and_true]
  repeat' apply And.intro
  all_goals omega
end Flute
