import FluteModel.Lemmas.SpecLct
import FluteModel.Spec.Fti
import FluteModel.Alc
namespace Flute
open Flute.Bytes Flute.Lct Flute.Fti Flute.Alc Flute.Spec

theorem cons_congr {a b : Nat} {r s : List Nat} (h1 : a = b) (h2 : r = s) : a :: r = b :: s := by
  rw [h1, h2]

/-- explicit byte lists on both sides, then one linear-arithmetic goal per byte -/
macro "bytes_eq" : tactic => `(tactic|
  (simp only [beBytes, List.cons_append, List.nil_append, Nat.reducePow, Nat.pow_zero, Nat.div_one]
   repeat' (first | rfl | apply cons_congr)
   all_goals omega))

theorem spec_encode_eq (fs : List Field) : Spec.encode fs = beBytes (width fs / 8) (pack fs) := by
  unfold Spec.encode; rw [octets_eq_beBytes]

set_option profiler true in
theorem fti_nocode_eq_spec (L E B : Nat) (hL : L < 2^48) (hE : E < 2^16) (hB : B < 2^32) :
    addFtiNoCode { fecId := 0, inst := 0, maxSbl := B, esl := E, parity := 0, ss := .none, inbandFti := true } L =
      .ok (Spec.encode (ftiNoCode L E B), 4) := by
  unfold addFtiNoCode
  rw [spec_encode_eq]
  simp only [ftiNoCode, width, pack, HET_FTI, Nat.reduceAdd, Nat.reduceDiv, Nat.reducePow, Nat.zero_mul, Nat.add_zero, Nat.mul_one] at *
  congr 2
  bytes_eq
end Flute
namespace Flute
open Flute.Bytes Flute.Lct Flute.Fti Flute.Alc Flute.Spec

set_option profiler true in
theorem fti_nocode_roundtrip (L E B : Nat) (hL : L < 2^48) (hE : E < 2^16) (hB : B < 2^32) :
    getFtiNoCode (Spec.encode (ftiNoCode L E B)) =
      .ok ({ fecId := 0, inst := 0, maxSbl := B, esl := E, parity := 0, ss := .none, inbandFti := true }, L) := by
  rw [spec_encode_eq]
  simp only [ftiNoCode, width, pack, HET_FTI, Nat.reduceAdd, Nat.reduceDiv, Nat.reducePow, Nat.zero_mul, Nat.add_zero, Nat.mul_one] at *
  simp only [beBytes, Nat.reducePow, Nat.pow_zero, Nat.div_one]
  unfold getFtiNoCode
  simp only [List.length_cons, List.length_nil, Nat.reduceAdd, ne_eq, not_true_eq_false, if_false, idx, fld, slice,
    List.getElem?_cons_succ, List.getElem?_cons_zero, Out.bind_ok, Nat.reduceLeDiff, and_self, if_true,
    List.drop_succ_cons, List.drop_zero, List.take_succ_cons, List.take_zero, Nat.reduceSub, beVal, NOCODE,
    Nat.reducePow, Nat.pow_zero, Nat.mul_one, Nat.add_zero]
  trace_state
  sorry
end Flute
