import FluteModel.Lemmas.Codec
namespace Flute.Props.C06
open Flute Flute.Bytes Flute.Lct Flute.Fti Flute.Alc Flute.Spec Flute.Ntp
theorem append_congr {a b c d : List Nat} (h1 : a = c) (h2 : b = d) : a ++ b = c ++ d := by rw [h1, h2]
theorem pushSct_eq (data : List Nat) (us ntp : Nat) (h1 : systemTimeToNtp us = .ok ntp)
    (h2 : ntp < 18446744073709551616) :
    pushSct data us = extendInc data (Spec.encode (extTimeSctDiagram (ntp / 4294967296) (ntp % 4294967296))) 3 := by
  unfold pushSct
  rewrite [h1, rsBind_ok]
  simp only [Nat.reducePow]
  spec_bytes
  rewrite [Nat.div_add_mod' ntp 4294967296]
  refine congrArg (fun x => extendInc data x 3) ?_
  rewrite [beBytes_add 4 8]
  apply append_congr
  · apply beBytes_congr; simp only [Nat.reducePow]; omega
  · apply beBytes_congr; simp only [Nat.reducePow]; omega

/-- EXT_TIME with SCT-High + SCT-Low (RFC 5651 §5.2.2): ∀ instants of NTP era 0, the extension `push_sct` appends is
    the RFC layout (HET 2, HEL 3, Use = SCT-High|SCT-Low) of the 64-bit NTP timestamp of the instant -/
theorem ext_time_eq_spec (data : List Nat) (us : Nat) (h : us / 1000000 + 2208988800 < 2^32) :
    ∃ ntp, systemTimeToNtp us = .ok ntp ∧ ntp < 2^64 ∧
      pushSct data us = extendInc data (Spec.encode (extTimeSctDiagram (ntp / 2^32) (ntp % 2^32))) 3 := by
  simp only [Nat.reducePow] at h ⊢
  have hm : us % 1000000 < 1000000 := Nat.mod_lt _ (by decide)
  obtain ⟨hf1, _⟩ := frac_ceil_floor _ hm
  exact ⟨_, systemTimeToNtp_eq us h, (ntp_split _ _ h hf1).2.2,
    pushSct_eq data us _ (systemTimeToNtp_eq us h) (ntp_split _ _ h hf1).2.2⟩

/-- `parse_sct` on the RFC layout of ANY NTP timestamp = `ntp_to_system_time` of that timestamp -/
theorem ext_time_parse_spec (secs frac : Nat) (h1 : secs < 2^32) (h2 : frac < 2^32) :
    parseSct (Spec.encode (extTimeSctDiagram secs frac)) =
      (ntpToSystemTime (secs * 2^32 + frac)).bind fun t => .ok (some t) := by
  spec_bytes
  simp only [Nat.reducePow] at h1 h2
  apply parseSct_core
  · simp only [Nat.reducePow]; omega
  · simp only [Nat.reducePow]; omega
  · simp only [Nat.reducePow]; omega

/-- **sender current time round trip**: the EXT_TIME flute builds for an instant `us` of NTP era 0 is parsed back
    by flute to exactly `us` (to the microsecond; false before the repair of D13) -/
theorem ext_time_roundtrip (us : Nat) (h : us / 1000000 + 2208988800 < 2^32) :
    ∃ ntp, systemTimeToNtp us = .ok ntp ∧
      parseSct (Spec.encode (extTimeSctDiagram (ntp / 2^32) (ntp % 2^32))) = .ok (some us) := by
  obtain ⟨ntp, h1, h2, h3⟩ := ntp_roundtrip us h
  refine ⟨ntp, h1, ?_⟩
  simp only [Nat.reducePow] at h2
  rewrite [ext_time_parse_spec _ _ (by simp only [Nat.reducePow]; omega) (by simp only [Nat.reducePow]; omega)]
  simp only [Nat.reducePow]
  rewrite [Nat.div_add_mod' ntp 4294967296, h3]
  rfl
end Flute.Props.C06
