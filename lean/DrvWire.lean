import FluteModel.Drv.Wire
def main : IO Unit := Flute.Drv.runDriver () (fun _ args => ((), Flute.Drv.Wire.step args))
