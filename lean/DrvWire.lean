import FluteModel.Drv.Util
-- stub: engine `wire` not built yet
def main : IO Unit := Flute.Drv.runDriver () (fun _ _ => ((), "bad-op"))
