import FluteModel.Prim
import FluteModel.Partition
import FluteModel.Spec.Rfc5052
import FluteModel.Drv.Util
import FluteModel.Drv.Part
