import FluteModel.Drv.Fdtabs
def main : IO Unit :=
  Flute.Drv.runDriver ({} : Flute.Drv.Fdtabs.DState) (fun st args => Flute.Drv.Fdtabs.step st args)
