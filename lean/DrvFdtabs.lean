import FluteModel.Drv.Fdtabs
/-
  Driver of engine `fdtabs`.  Same line protocol as `Flute.Drv.runDriver`; additionally everything a step writes after a
  TAB is a side channel (today: `SCHED-DIVERGE ...`, the cross-model differential with agent sched's scheduler model): it is
  printed on stderr and makes the driver exit with code 3 - a note in the evidence of the check, never a compared line.
-/
open Flute.Drv Flute.Drv.Fdtabs

partial def loop (hin hout herr : IO.FS.Stream) (st : DState) (side : Nat) : IO Nat := do
  let line ← hin.getLine
  if line.isEmpty then return side
  let l := line.trimAscii.toString
  match l.splitOn " " with
  | "case" :: _ =>
    hout.putStrLn l
    loop hin hout herr {} side
  | _ :: args =>
    let (st', out) := step st args
    match out.splitOn "\t" with
    | [o] => hout.putStrLn o; loop hin hout herr st' side
    | o :: rest =>
      hout.putStrLn o
      herr.putStrLn ("\t".intercalate rest)
      loop hin hout herr st' (side + 1)
    | [] => hout.putStrLn out; loop hin hout herr st' side
  | [] =>
    hout.putStrLn "bad-op"
    loop hin hout herr st side

def main : IO UInt32 := do
  let hin ← IO.getStdin
  let hout ← IO.getStdout
  let herr ← IO.getStderr
  let side ← loop hin hout herr {} 0
  hout.flush
  if side > 0 then
    herr.putStrLn s!"{side} side-channel line(s) (scheduler-model differential)"
    return 3
  return 0
