import FluteModel.Drv.Ring
def main : IO Unit := Flute.Drv.runDriver (none : Option Flute.Ring.Ring) Flute.Drv.Ring.step
