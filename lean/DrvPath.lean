import FluteModel.Drv.Path
def main : IO Unit := Flute.Drv.runDriver () (fun _ args => ((), Flute.Drv.Path.step args))
