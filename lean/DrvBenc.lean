import FluteModel.Drv.Benc
def main : IO Unit := Flute.Drv.runDriver (none : Option Flute.Drv.Benc.St) Flute.Drv.Benc.step
