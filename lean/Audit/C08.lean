import Audit.Tool
import FluteModel.Props.C08
#audit_ns Flute.Props.C08
