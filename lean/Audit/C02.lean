import Audit.Tool
import FluteModel.Props.C02
#audit_ns Flute.Props.C02
