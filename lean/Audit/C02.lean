import Audit.Tool
import FluteModel.Props.C02
-- receiver-side ties of the Session model (namespace Flute.Props.C02.Link): object level to ObjRecv (agent orecv:
-- receiver_simulation, session_complete_is_exact; under Setting.OK + GenEv/FileOK + the codec contract CodecDec, no step
-- hypothesis left; the two halves are not composed) and session level to Recv
-- (agent e2e: receiver_session_agrees for every packet stream)
import FluteModel.Props.C02Link
import FluteModel.Props.C02LinkRecv
#audit_ns Flute.Props.C02
