import Audit.Tool
import FluteModel.Props.C18
#audit_ns Flute.Props.C18
