import Audit.Tool
import FluteModel.Props.C13
#audit_ns Flute.Props.C13
