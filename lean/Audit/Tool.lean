import Lean
/-
  `#audit_ns Flute.Props.C07` prints, for every *theorem* whose name starts with that prefix
  (declared in the imported modules), one line
     AUDIT <name> axioms=[a, b, c]
  so that the check script can count obligations and verify the axiom sets.
-/
open Lean Elab Command

elab "#audit_ns " ns:ident : command => do
  let env ← getEnv
  let pre := ns.getId
  let mut names : Array Name := #[]
  for (n, ci) in env.constants.toList do
    -- skip compiler-generated theorems (equation lemmas `f.eq_1`, `f.eq_def`, `match_…`, `proof_…`, `…._simp_…`,
    -- `sizeOf_spec`, `injEq`, …): only theorems written in the Props files count as obligations
    let last := match n with | .str _ s => s | _ => ""
    let auto := last.startsWith "eq_" || last.startsWith "match_" || last.startsWith "proof_" ||
      last.startsWith "_" || last == "sizeOf_spec" || last == "injEq" || last == "inj" || last == "noConfusion" ||
      last.startsWith "congr_simp" || last.startsWith "fun_cases" || last.startsWith "induct" || last.startsWith "mutual_induct"
    if pre.isPrefixOf n && !n.isInternal && !auto then
      match ci with
      | .thmInfo _ => names := names.push n
      | _ => pure ()
  let sorted := names.qsort (fun a b => a.toString < b.toString)
  for n in sorted do
    let axs ← Lean.collectAxioms n
    let axs := axs.qsort (fun a b => a.toString < b.toString)
    logInfo m!"AUDIT {n} axioms={axs.toList}"
  logInfo m!"AUDIT-COUNT {sorted.size}"
