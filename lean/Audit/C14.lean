import Audit.Tool
import FluteModel.Props.C14
#audit_ns Flute.Props.C14
