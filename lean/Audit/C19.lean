import Audit.Tool
import FluteModel.Props.C19
#audit_ns Flute.Props.C19
