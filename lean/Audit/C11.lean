import Audit.Tool
import FluteModel.Props.C11
#audit_ns Flute.Props.C11
