import Audit.Tool
import FluteModel.Props.C06
#audit_ns Flute.Props.C06
