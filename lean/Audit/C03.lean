import Audit.Tool
import FluteModel.Props.C03
#audit_ns Flute.Props.C03
