import Audit.Tool
import FluteModel.Props.C04
import FluteModel.Props.C04Wire
import FluteModel.Props.C04Obj
import FluteModel.Props.Ring
-- parser totality, engine `wire`, namespace Flute.Props.C04.Wire
-- object-level totality, engine `orecv`, namespace Flute.Props.C04.Obj
#audit_ns Flute.Props.C04
-- ring buffer + decompression drain loop (supports the "no hang / no panic" clause: D15, D32)
#audit_ns Flute.Props.Ring
