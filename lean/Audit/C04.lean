import Audit.Tool
import FluteModel.Props.C04
import FluteModel.Props.C04Wire
import FluteModel.Props.C04WireAbs
import FluteModel.Props.C04Obj
import FluteModel.Props.C04Multi
import FluteModel.Props.C04Whole
import FluteModel.Props.C04MultiWhole
import FluteModel.Props.Ring
-- session level (engine `recv`): Flute.Props.C04; parser totality + abstraction to the receiver's packet records
-- (engine `wire`): Flute.Props.C04.Wire; object level (engine `orecv`): Flute.Props.C04.Obj; MultiReceiver entry point
-- (engine `tsi`): Flute.Props.C04.Multi; the whole call parse -> Receiver.push -> ObjectReceiver -> BlockWriter -> ring
-- composed from those: Flute.Props.C04.Whole
#audit_ns Flute.Props.C04
-- ring buffer + decompression drain loop (supports the "no hang / no panic" clause: D15, D32)
#audit_ns Flute.Props.Ring
