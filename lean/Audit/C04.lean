import Audit.Tool
import FluteModel.Props.C04
-- parser totality, engine `wire`, namespace Flute.Props.C04.Wire
import FluteModel.Props.C04Wire
-- object-level totality, engine `orecv`, namespace Flute.Props.C04.Obj
import FluteModel.Props.C04Obj
#audit_ns Flute.Props.C04
