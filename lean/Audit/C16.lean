import Audit.Tool
import FluteModel.Props.C16
#audit_ns Flute.Props.C16
