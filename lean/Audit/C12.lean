import Audit.Tool
import FluteModel.Props.C12
#audit_ns Flute.Props.C12
