import Audit.Tool
import FluteModel.Props.Ring
#audit_ns Flute.Props.Ring
