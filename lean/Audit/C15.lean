import Audit.Tool
import FluteModel.Props.C15
#audit_ns Flute.Props.C15
