import Audit.Tool
import FluteModel.Props.C09
#audit_ns Flute.Props.C09
