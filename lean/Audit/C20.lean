import Audit.Tool
import FluteModel.Props.C20
#audit_ns Flute.Props.C20
