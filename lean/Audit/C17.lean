import Audit.Tool
import FluteModel.Props.C17
-- object-level clauses (packet cache, decoded blocks), engine `orecv`, namespace Flute.Props.C17.Obj
import FluteModel.Props.C17Obj
#audit_ns Flute.Props.C17
