import Audit.Tool
import FluteModel.Props.C01
#audit_ns Flute.Props.C01
