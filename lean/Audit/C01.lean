import Audit.Tool
import FluteModel.Props.C01
-- tie of the Session model's sender to the BlockEnc model (agent benc): Flute.Props.C01.Link
import FluteModel.Props.C01Link
-- one reference predicate for add_object admission, equivalent to the three component models' (agent toi): Flute.Props.C01.Admission
import FluteModel.Props.AdmissionLink
import FluteModel.Props.AdmissionLinkFdt
import FluteModel.Props.AdmissionLinkSession
#audit_ns Flute.Props.C01
