import Audit.Tool
import FluteModel.Props.C05
#audit_ns Flute.Props.C05
