import Audit.Tool
import FluteModel.Props.C07
#audit_ns Flute.Props.C07
