import Audit.Tool
import FluteModel.Props.C07
import FluteModel.Props.C07Link
#audit_ns Flute.Props.C07
