import Audit.Tool
import FluteModel.Props.C10
#audit_ns Flute.Props.C10
