import FluteModel.Drv.E2e
def main : IO Unit := Flute.Drv.runDriver ({} : Flute.Drv.E2e.St) Flute.Drv.E2e.step
