import FluteModel.Drv.Part
def main : IO Unit := Flute.Drv.runDriver () (fun _ args => ((), Flute.Drv.Part.step args))
