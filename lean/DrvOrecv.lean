import FluteModel.Drv.Orecv
def main : IO Unit := Flute.Drv.runDriver ({} : Flute.Drv.Orecv.DState) Flute.Drv.Orecv.step
