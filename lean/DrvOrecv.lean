import FluteModel.Drv.Util
-- stub: engine `orecv` not built yet
def main : IO Unit := Flute.Drv.runDriver () (fun _ _ => ((), "bad-op"))
