import FluteModel.Drv.Part
/-
  flute_model: line-protocol driver over the executable model.
  One request per input line, first token = engine; exactly one output line per input line.
  `case <id>` lines are echoed (they delimit cases and reset stateful engines).
-/
open Flute

structure DrvState where
  dummy : Nat := 0

def stepLine (st : DrvState) (line : String) : DrvState × String :=
  match line.trimAscii.toString.splitOn " " with
  | "case" :: _ => ({}, line.trimAscii.toString)
  | "part" :: args => (st, Drv.Part.step args)
  | _ => (st, "bad-op")

partial def loop (hin hout : IO.FS.Stream) (st : DrvState) : IO Unit := do
  let line ← hin.getLine
  if line.isEmpty then return ()
  let (st', out) := stepLine st line
  hout.putStrLn out
  loop hin hout st'

def main : IO Unit := do
  let hin ← IO.getStdin
  let hout ← IO.getStdout
  loop hin hout {}
  hout.flush
