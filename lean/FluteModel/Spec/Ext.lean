import FluteModel.Spec.Lct
/-
  FLUTE / ALC header extensions, from the RFC text.

  EXT_FDT  (RFC 6726 §3.4.1, RFC 3926 §3.4.1):   | HET = 192 (8) | V (4) | FDT Instance ID (20) |
  EXT_CENC (RFC 6726 §3.4.3):                    | HET = 193 (8) | CENC (8) | Reserved (16) = 0 |
  EXT_TIME (RFC 5651 §5.2.2):   | HET = 2 (8) | HEL (8) | Use (16) | time values, 32 bits each ... |
      Use: SCT-High (1) SCT-Low (1) ERT (1) SLC (1) reserved by LCT (4) PI-specific (8);
      the time values present appear in the order SCT-High, SCT-Low, ERT, SLC.
      SCT-High = seconds of the NTP timestamp (seconds since 1900-01-01), SCT-Low = its 32-bit fraction.
-/
namespace Flute.Spec

def HET_FDT : Nat := 192
def HET_CENC : Nat := 193
def HET_TIME : Nat := 2
def HET_FTI : Nat := 64

/-- EXT_FDT carrying FLUTE version `v` (< 16) and FDT instance id `id` (< 2^20) -/
def extFdtDiagram (v id : Nat) : List Field := [(8, HET_FDT), (4, v), (20, id)]

/-- EXT_CENC carrying content-encoding algorithm `cenc` (< 256) -/
def extCencDiagram (cenc : Nat) : List Field := [(8, HET_CENC), (8, cenc), (16, 0)]

/-- EXT_TIME carrying only the sender current time as a 64-bit NTP timestamp (SCT-High and SCT-Low) -/
def extTimeSctDiagram (ntpSeconds ntpFraction : Nat) : List Field :=
  [(8, HET_TIME), (8, 3), (1, 1), (1, 1), (1, 0), (1, 0), (4, 0), (8, 0), (32, ntpSeconds), (32, ntpFraction)]

/-- EXT_TIME, general form (RFC 5651 §5.2.2): the Use flags SCT-High, SCT-Low, ERT, SLC (each 0 or 1), 4 bits reserved by
    LCT, 8 PI-specific bits, then the time values that are present, 32 bits each, in the order SCT-High, SCT-Low, ERT,
    SLC; HEL = 1 + number of time values -/
def extTimeDiagram (hi lo ert slc resv pi : Nat) (vals : List Nat) : List Field :=
  [(8, HET_TIME), (8, 1 + vals.length), (1, hi), (1, lo), (1, ert), (1, slc), (4, resv), (8, pi)]
    ++ vals.map (fun v => (32, v))

/-- decode an EXT_FDT extension (4 octets): `(version, instance id)` -/
def decodeExtFdt (e : List Nat) : Option (Nat × Nat) :=
  if e.length = 4 ∧ bitsAt e 0 8 = HET_FDT then some (bitsAt e 8 4, bitsAt e 12 20) else none

/-- decode an EXT_CENC extension (4 octets) -/
def decodeExtCenc (e : List Nat) : Option Nat :=
  if e.length = 4 ∧ bitsAt e 0 8 = HET_CENC then some (bitsAt e 8 8) else none

/-- decode the sender current time of an EXT_TIME extension: `(NTP seconds, NTP fraction)`;
    `none` when the extension is malformed or carries no SCT-High. -/
def decodeExtTimeSct (e : List Nat) : Option (Nat × Nat) :=
  if e.length < 4 ∨ bitsAt e 0 8 ≠ HET_TIME then none else
  let hel := bitsAt e 8 8
  let hi := bitsAt e 16 1
  let lo := bitsAt e 17 1
  let ert := bitsAt e 18 1
  let slc := bitsAt e 19 1
  if e.length ≠ 4 * hel ∨ hel ≠ 1 + hi + lo + ert + slc then none else
  if hi = 0 then none else
  some (bitsAt e 32 32, if lo = 1 then bitsAt e 64 32 else 0)

/-! ### NTP timestamps (RFC 5905 §6: 32-bit seconds since 1900-01-01 00:00 UTC, 32-bit binary fraction) -/

/-- seconds between the NTP era-0 epoch (1900) and the UNIX epoch (1970): 70 years incl. 17 leap days -/
def ntpUnixOffset : Nat := (70 * 365 + 17) * 86400

/-- an independent receiver converting an NTP timestamp to whole microseconds since the UNIX epoch,
    truncating the fraction -/
def ntpToMicrosFloor (secs frac : Nat) : Nat := (secs - ntpUnixOffset) * 1000000 + frac * 1000000 / 2 ^ 32

/-- the same, rounding the fraction to the nearest microsecond -/
def ntpToMicrosRound (secs frac : Nat) : Nat :=
  (secs - ntpUnixOffset) * 1000000 + (frac * 1000000 + 2 ^ 31) / 2 ^ 32

/-- the NTP timestamp `(secs, frac)` denotes an instant within the microsecond `[us, us+1)` after the
    UNIX epoch (or exactly at its start) -/
def NtpDenotes (secs frac us : Nat) : Prop :=
  secs = us / 1000000 + ntpUnixOffset ∧ frac < 2 ^ 32 ∧
  (us % 1000000) * 2 ^ 32 ≤ frac * 1000000 ∧ frac * 1000000 < (us % 1000000 + 1) * 2 ^ 32

end Flute.Spec
