import FluteModel.TsiFilter
/-
  Reference-count specification of the TSI filter, written from the property text and the API
  documentation (not from tsifilter.rs):

    * every listen target has a counter, `add` increments it, `remove` decrements it and is a no-op when
      there is nothing to remove (saturating at 0);
    * "accepted for all TSIs" targets are endpoints, "(endpoint, TSI)" targets are pairs;
    * with filtering enabled a packet from `ep` with `tsi` is processed iff `ep` is accepted for all TSIs, or
      `(ep, tsi)` is listened to, or `(ep with the source address wildcarded, tsi)` is listened to.

  Only the *types* `Endpoint` and `FOp` (the names of the four API calls) are shared with the model.
-/
namespace Flute.Spec.RefCount
open Flute

/-- an operation on one family of counters -/
inductive Op (κ : Type)
  | add (k : κ)
  | remove (k : κ)

/-- one step of the saturating counters -/
def step {κ : Type} [DecidableEq κ] (c : κ → Nat) : Op κ → κ → Nat
  | .add k => fun x => if x = k then c x + 1 else c x
  | .remove k => fun x => if x = k then c x - 1 else c x

/-- counters after a history, starting from `c` -/
def cntFrom {κ : Type} [DecidableEq κ] (c : κ → Nat) : List (Op κ) → κ → Nat
  | [] => c
  | op :: ops => cntFrom (step c op) ops

/-- counters after a history, starting from all-zero -/
def cnt {κ : Type} [DecidableEq κ] (ops : List (Op κ)) : κ → Nat := cntFrom (fun _ => 0) ops

/-- the (endpoint, TSI) listen history of a filter history -/
def tsiOps : List TsiFilter.FOp → List (Op (Endpoint × Nat))
  | [] => []
  | .add ep tsi :: r => .add (ep, tsi) :: tsiOps r
  | .remove ep tsi :: r => .remove (ep, tsi) :: tsiOps r
  | _ :: r => tsiOps r

/-- the "all TSIs of this endpoint" listen history of a filter history -/
def bypassOps : List TsiFilter.FOp → List (Op Endpoint)
  | [] => []
  | .addAll ep :: r => .add ep :: bypassOps r
  | .removeAll ep :: r => .remove ep :: bypassOps r
  | _ :: r => bypassOps r

/-- the accept rule of the property -/
def accepted (ops : List TsiFilter.FOp) (ep : Endpoint) (tsi : Nat) : Prop :=
  cnt (bypassOps ops) ep > 0 ∨ cnt (tsiOps ops) (ep, tsi) > 0 ∨ cnt (tsiOps ops) (ep.noSrc, tsi) > 0

/-- the LITERAL reading of "added more often than removed": number of adds minus number of removes of `k` -/
def adds {κ : Type} [DecidableEq κ] (ops : List (Op κ)) (k : κ) : Nat :=
  (ops.filter fun o => match o with | .add x => decide (x = k) | .remove _ => false).length

def removes {κ : Type} [DecidableEq κ] (ops : List (Op κ)) (k : κ) : Nat :=
  (ops.filter fun o => match o with | .remove x => decide (x = k) | .add _ => false).length

/-- a history never removes what is not there (every `remove k` finds a positive counter) -/
def Disciplined {κ : Type} [DecidableEq κ] (c : κ → Nat) : List (Op κ) → Prop
  | [] => True
  | .add k :: r => Disciplined (step c (.add k)) r
  | .remove k :: r => c k > 0 ∧ Disciplined (step c (.remove k)) r

end Flute.Spec.RefCount
