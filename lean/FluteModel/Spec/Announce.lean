import FluteModel.Sched
/-
  Independent specification of C11 ("announce before send") as a monitor over the ordered stream of
  what the sender publishes and emits (`Sched.Ev`, newest first).  Written from the property text:
  an FDT instance is *completely emitted* once its packets 0 .. n-1 have gone out in order
  (n = number of source packets of the instance, judged from its transfer length);
  an object is *announced* when a completely emitted instance lists it;
  a publication is *pending* until it has been completely emitted.
-/
namespace Flute.Spec.Announce
open Flute.Sched

structure Mon where
  /-- publications so far: (index, TOIs listed) -/
  pubs : List (Nat × List Nat) := []
  /-- publications completely emitted at least once -/
  done : List Nat := []
  /-- FDT transfer in progress: (publication, packets emitted so far) -/
  cur : Option (Nat × Nat) := none

def Mon.step (npk : Nat → Nat) (m : Mon) : Ev → Mon
  | .pub _ k files => { m with pubs := (k, files) :: m.pubs }
  | .fdt _ k _ idx =>
    if idx = 0 ∨ m.cur = some (k, idx) then
      if idx + 1 = npk k then { m with done := k :: m.done, cur := none }
      else { m with cur := some (k, idx + 1) }
    else { m with cur := none }
  | _ => m

/-- monitor state after a trace (newest event first) -/
def Mon.run (npk : Nat → Nat) : List Ev → Mon
  | [] => {}
  | e :: l => (Mon.run npk l).step npk e

/-- a complete FDT instance listing `toi` has been emitted -/
def Announced (m : Mon) (toi : Nat) : Prop := ∃ k files, (k, files) ∈ m.pubs ∧ toi ∈ files ∧ k ∈ m.done

/-- no FDT instance is pending and no FDT transfer is in progress -/
def NoPending (m : Mon) : Prop := (∀ k files, (k, files) ∈ m.pubs → k ∈ m.done) ∧ m.cur = none

/-- some publication lists `toi` -/
def Published (m : Mon) (toi : Nat) : Prop := ∃ k files, (k, files) ∈ m.pubs ∧ toi ∈ files

/-- every object packet of the trace satisfies `P` w.r.t. the monitor state of its past -/
def Holds (npk : Nat → Nat) (P : Mon → Nat → Prop) : List Ev → Prop
  | [] => True
  | e :: l => Holds npk P l ∧
    (match e with
     | .pkt _ _ toi _ _ => P (Mon.run npk l) toi
     | _ => True)

end Flute.Spec.Announce
