import FluteModel.Spec.Ext
/-
  EXT_FTI (HET = 64) and FEC Payload ID layouts of the FEC schemes flute implements, from the RFC text.
  `L`/`F` transfer length, `E`/`T` encoding symbol length, `B` maximum source block length,
  `max_n` maximum number of encoding symbols.

  FEC Encoding ID 0, Compact No-Code (RFC 5445 §3; FTI RFC 5445 §3.2.2/3.2.3 = RFC 3695):
      FTI  | 64 (8) | HEL = 4 (8) | L (48) | Reserved (16) | E (16) | B (32) |
      FPID | SBN (16) | ESI (16) |
  FEC Encoding ID 129, Small Block Systematic, under-specified (RFC 5445 §5):
      FTI  | 64 (8) | HEL = 4 (8) | L (48) | FEC Instance ID (16) | E (16) | B (16) | max_n (16) |
      FPID | SBN (32) | Source Block Length (16) | ESI (16) |
  FEC Encoding ID 5, Reed-Solomon over GF(2^8) (RFC 5510 §5):
      FTI  | 64 (8) | HEL = 3 (8) | L (48) | E (16) | B (8) | max_n (8) |
      FPID | SBN (24) | ESI (8) |
  FEC Encoding ID 2, Reed-Solomon over GF(2^m) (RFC 5510 §4):
      FTI  | 64 (8) | HEL = 4 (8) | L (48) | m (8) | G (8) | E (16) | B (16) | max_n (16) |
      FPID | SBN (32 - m) | ESI (m) |
  FEC Encoding ID 6, RaptorQ (RFC 6330 §3.2, §3.3.2, §3.3.3; 14 octets, padded to a multiple of 32 bits):
      FTI  | 64 (8) | HEL = 4 (8) | F (40) | Reserved (8) | T (16) | Z (8) | N (16) | Al (8) | padding (16) |
      FPID | SBN (8) | ESI (24) |
  FEC Encoding ID 1, Raptor (RFC 5053 §3.1, §3.2.2 "the Transfer Length is encoded as a 48-bit field", §3.2.3):
      FTI  | 64 (8) | HEL = 4 (8) | F (48) | Reserved (16) | T (16) | Z (16) | N (8) | Al (8) |
      FPID | SBN (16) | ESI (16) |
-/
namespace Flute.Spec

def ftiNoCode (L E B : Nat) : List Field := [(8, HET_FTI), (8, 4), (48, L), (16, 0), (16, E), (32, B)]
def ftiSmallBlock (L inst E B maxN : Nat) : List Field :=
  [(8, HET_FTI), (8, 4), (48, L), (16, inst), (16, E), (16, B), (16, maxN)]
def ftiRs28 (L E B maxN : Nat) : List Field := [(8, HET_FTI), (8, 3), (48, L), (16, E), (8, B), (8, maxN)]
def ftiRs2m (L m G E B maxN : Nat) : List Field :=
  [(8, HET_FTI), (8, 4), (48, L), (8, m), (8, G), (16, E), (16, B), (16, maxN)]
def ftiRaptorQ (F T Z N Al : Nat) : List Field :=
  [(8, HET_FTI), (8, 4), (40, F), (8, 0), (16, T), (8, Z), (16, N), (8, Al), (16, 0)]
def ftiRaptor (F T Z N Al : Nat) : List Field :=
  [(8, HET_FTI), (8, 4), (48, F), (16, 0), (16, T), (16, Z), (8, N), (8, Al)]

def fpidNoCode (sbn esi : Nat) : List Field := [(16, sbn), (16, esi)]
def fpidSmallBlock (sbn sbl esi : Nat) : List Field := [(32, sbn), (16, sbl), (16, esi)]
def fpidRs28 (sbn esi : Nat) : List Field := [(24, sbn), (8, esi)]
def fpidRs2m (m sbn esi : Nat) : List Field := [(32 - m, sbn), (m, esi)]
def fpidRaptorQ (sbn esi : Nat) : List Field := [(8, sbn), (24, esi)]
def fpidRaptor (sbn esi : Nat) : List Field := [(16, sbn), (16, esi)]

/-! ### decoders (an extension / payload id given as octets) -/

/-- the values of an EXT_FTI in diagram order (without HET/HEL/reserved/padding), per FEC Encoding ID;
    `none` if the extension has not the length / HEL the scheme prescribes -/
def decodeFti (fec : Nat) (e : List Nat) : Option (List Nat) :=
  if e.length < 4 ∨ bitsAt e 0 8 ≠ HET_FTI ∨ e.length ≠ 4 * bitsAt e 8 8 then none else
  let hel := bitsAt e 8 8
  if fec = 0 then
    if hel = 4 then some [bitsAt e 16 48, bitsAt e 80 16, bitsAt e 96 32] else none
  else if fec = 129 then
    if hel = 4 then some [bitsAt e 16 48, bitsAt e 64 16, bitsAt e 80 16, bitsAt e 96 16, bitsAt e 112 16] else none
  else if fec = 5 then
    if hel = 3 then some [bitsAt e 16 48, bitsAt e 64 16, bitsAt e 80 8, bitsAt e 88 8] else none
  else if fec = 2 then
    if hel = 4 then some [bitsAt e 16 48, bitsAt e 64 8, bitsAt e 72 8, bitsAt e 80 16, bitsAt e 96 16, bitsAt e 112 16]
    else none
  else if fec = 6 then
    if hel = 4 then some [bitsAt e 16 40, bitsAt e 64 16, bitsAt e 80 8, bitsAt e 88 16, bitsAt e 104 8] else none
  else if fec = 1 then
    if hel = 4 then some [bitsAt e 16 48, bitsAt e 80 16, bitsAt e 96 16, bitsAt e 112 8, bitsAt e 120 8] else none
  else none

/-- FEC payload id length in octets -/
def fpidOctets (fec : Nat) : Nat := if fec = 129 then 8 else 4

/-- `(SBN, ESI, source block length?)` of a FEC payload id; `m` only matters for FEC Encoding ID 2 -/
def decodeFpid (fec m : Nat) (p : List Nat) : Option (Nat × Nat × Option Nat) :=
  if p.length ≠ fpidOctets fec then none else
  if fec = 0 ∨ fec = 1 then some (bitsAt p 0 16, bitsAt p 16 16, none)
  else if fec = 129 then some (bitsAt p 0 32, bitsAt p 48 16, some (bitsAt p 32 16))
  else if fec = 5 then some (bitsAt p 0 24, bitsAt p 24 8, none)
  else if fec = 2 then (if m ≤ 32 then some (bitsAt p 0 (32 - m), bitsAt p (32 - m) m, none) else none)
  else if fec = 6 then some (bitsAt p 0 8, bitsAt p 8 24, none)
  else none

end Flute.Spec
