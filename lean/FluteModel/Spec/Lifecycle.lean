import FluteModel.Sched
/-
  Independent specification of C12 (transfer lifecycle) as a per-object monitor over the ordered stream
  of API calls, Start/StopTransfer events and packets (`Sched.Ev`, newest first), written from the
  property text:
  * packets of an object only go out inside a transfer (Start .. Stop), in order 0,1,..., fewer than nPk;
  * a transfer that is not force-stopped ends only when all nPk packets are out - or, for an attempt that failed
    to start (faulty stream source), without any packet;
  * without carousel mode no transfer starts once `max(1, max_transfer_count)` transfers are complete;
  * after `remove_object`: no transfer starts any more; packets only if the object was in transfer;
    if it had been fully sent before (or immediate stop is allowed) at most ONE more packet, carrying B;
  * an FDT instance published later lists the object only if it is still in the sender.
-/
namespace Flute.Spec.Lifecycle
open Flute.Sched

/-- packets of one complete transfer -/
def npk (a : AddArgs) : Nat := if a.nSym = 0 then 1 else a.nSym
/-- `max(1, max_transfer_count)` -/
def burst (a : AddArgs) : Nat := if a.maxCount = 0 then 1 else a.maxCount

structure LM where
  args : Option AddArgs := none
  active : Bool := false
  /-- packets of the current (or last) transfer -/
  sent : Nat := 0
  starts : Nat := 0
  /-- completed transfers (StopTransfer events) -/
  stops : Nat := 0
  /-- transfers of which all nPk packets went out -/
  full : Nat := 0
  /-- set by `remove_object`: (in transfer at that moment, may be stopped at once) -/
  removed : Option (Bool × Bool) := none
  /-- packets after the removal -/
  after : Nat := 0
  deriving DecidableEq

def stoppable (m : LM) : Bool :=
  (match m.args with | some a => a.allowStop | none => false) || decide (m.stops > 0)

def LM.step (toi : Nat) (m : LM) : Ev → LM
  | .opAdd t a ok => if t = toi ∧ ok = true then { m with args := some a } else m
  | .start _ t _ _ => if t = toi then { m with active := true, sent := 0, starts := m.starts + 1 } else m
  | .pkt _ _ t _ _ =>
    if t = toi then
      { m with sent := m.sent + 1
               full := if m.args.map npk = some (m.sent + 1) then m.full + 1 else m.full
               after := if m.removed.isSome then m.after + 1 else m.after }
    else m
  | .stop _ t => if t = toi then { m with active := false, stops := m.stops + 1 } else m
  | .opRemove t ok => if t = toi ∧ ok = true then { m with removed := some (m.active, stoppable m) } else m
  | _ => m

def LM.run (toi : Nat) : List Ev → LM
  | [] => {}
  | e :: l => (LM.run toi l).step toi e

/-- the clauses, judged at event `e` with the monitor state `m` of its past -/
def LM.check (toi : Nat) (m : LM) : Ev → Prop
  | .start _ t _ _ => t = toi →
      m.active = false ∧ m.removed = none ∧ ∃ a, m.args = some a ∧ (a.carousel = none → m.stops < burst a)
  | .pkt _ _ t idx b => t = toi →
      m.active = true ∧ idx = m.sent ∧ (∃ a, m.args = some a ∧ m.sent < npk a) ∧
      (∀ wa st, m.removed = some (wa, st) → wa = true ∧ (st = true → m.after = 0 ∧ b = true))
  | .stop _ t => t = toi →
      m.active = true ∧ ∃ a, m.args = some a ∧
        (m.sent = npk a ∨ m.removed = some (true, true) ∨
         -- a transfer attempt that failed to start (stream source: seek / first read fails): no packet at all;
         -- `a.faults` is the fault schedule of the source, indexed by the number of attempts completed before
         (m.sent = 0 ∧ (a.faults[m.stops]?).isSome = true))
  | .pub _ _ files => toi ∈ files →
      m.removed = none ∧ ∃ a, m.args = some a ∧ (a.carousel = none → m.stops < burst a)
  | _ => True

def Checked (toi : Nat) : List Ev → Prop
  | [] => True
  | e :: l => Checked toi l ∧ LM.check toi (LM.run toi l) e

end Flute.Spec.Lifecycle
