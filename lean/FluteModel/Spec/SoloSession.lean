import FluteModel.MultiRecv
/-
  Specification side of C18's session clauses, written from the property text:

  * `solo`: what ONE session, alone in the world, does with its own sub-sequence of the history
    (its accepted packets, the cleanups, the final drop).  "Interleaving any number of sessions never
    changes what each session delivers" = the multi-session model restricted to a key equals `solo`
    of that key's own sub-sequence.
  * `alt`: the listener-event language per key, `(open close)* open?`, as a two-state automaton that
    also rejects a close without an open and a second open without a close.

  Shared with the model: the types `Key`, `Pkt`, `Event`, `Machine` (the session machine is a
  parameter on both sides).
-/
namespace Flute.Spec.Solo
open Flute Flute.MultiRecv

/-- what a single key sees of a history -/
inductive KOp (π : Type)
  /-- one of its packets (close-session flag clear) is processed at instant `t` -/
  | data (t : Nat) (p : Pkt π)
  /-- one of its packets with the close-session flag is processed at instant `t` -/
  | close (t : Nat) (p : Pkt π)
  /-- `cleanup(now)` at instant `t` -/
  | cleanup (t : Nat) (i : π)
  /-- the receiver is dropped at instant `t` -/
  | drop (t : Nat) (i : π)

/-- the session (if any), the listener events about this key, the outputs of this key's receiver -/
structure Local (σ Out : Type) where
  sess : Option σ
  events : List Event
  outs : List (Key × Out)

def Local.fresh {σ Out : Type} : Local σ Out := ⟨none, [], []⟩

variable {σ π Out : Type}

/-- the single-session automaton -/
def localStep (M : Machine σ π Out) (k : Key) (l : Local σ Out) : KOp π → Local σ Out
  | .data t p =>
    match l.sess with
    | some st =>
      let r := M.push t st p
      { l with sess := some r.1, outs := l.outs ++ [(k, r.2)] }
    | none =>
      -- the first packet creates the session: exactly one `open`
      let r := M.push t (M.init t k) p
      { sess := some r.1, events := l.events ++ [.opened k], outs := l.outs ++ [(k, r.2)] }
  | .close t p =>
    match l.sess with
    | some st =>
      -- the packet is processed, then the session ends: exactly one `close`, the receiver is destroyed
      let r := M.push t st p
      { sess := none, events := l.events ++ [.closed k], outs := l.outs ++ [(k, r.2), (k, M.fini t p.body r.1)] }
    | none => l
  | .cleanup t i =>
    match l.sess with
    | some st =>
      if M.expired t st then
        { sess := none, events := l.events ++ [.closed k], outs := l.outs ++ [(k, M.fini t i st)] }
      else
        let r := M.cleanup t i st
        { l with sess := some r.1, outs := l.outs ++ [(k, r.2)] }
    | none => l
  | .drop t i =>
    match l.sess with
    | some st => { sess := none, events := l.events ++ [.closed k], outs := l.outs ++ [(k, M.fini t i st)] }
    | none => l

/-- a key's own sub-sequence fed to a fresh session -/
def solo (M : Machine σ π Out) (k : Key) (l : Local σ Out) (tr : List (KOp π)) : Local σ Out :=
  tr.foldl (localStep M k) l

/-- listener language of one key: state = "an open is pending"; `none` = illegal (close without open,
    open while an open is pending) -/
def altFrom (pending : Bool) : List Event → Option Bool
  | [] => some pending
  | .opened _ :: r => if pending then none else altFrom true r
  | .closed _ :: r => if pending then altFrom false r else none

/-- the events about `k` in a listener log, run through the automaton from "nothing pending" -/
def alt (k : Key) (log : List Event) : Option Bool :=
  altFrom false (log.filter (fun e => decide (e.key = k)))

end Flute.Spec.Solo
