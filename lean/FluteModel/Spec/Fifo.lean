/-
  Specification: a bounded byte FIFO (written from the usual definition, not from the Rust code).
  `write` accepts as many bytes as there is room for (a prefix of the data), `read n` hands out the oldest
  `min n |q|` bytes; reading nothing (empty queue, or n = 0) answers end-of-stream once `finish` was called and
  "would block" before.
-/
namespace Flute.Spec

structure Fifo where
  q : List Nat
  cap : Nat
  finished : Bool
  deriving Repr, DecidableEq

inductive FifoRead where
  | ok (bytes : List Nat)
  | wouldBlock
  deriving Repr, DecidableEq

def Fifo.empty (cap : Nat) : Fifo := ⟨[], cap, false⟩

def Fifo.write (f : Fifo) (data : List Nat) : Fifo × Nat :=
  let n := min data.length (f.cap - f.q.length)
  ({ f with q := f.q ++ data.take n }, n)

def Fifo.read (f : Fifo) (n : Nat) : Fifo × FifoRead :=
  let m := min n f.q.length
  if m = 0 then (f, if f.finished then .ok [] else .wouldBlock)
  else ({ f with q := f.q.drop m }, .ok (f.q.take m))

def Fifo.finish (f : Fifo) : Fifo := { f with finished := true }


inductive FifoOp where
  | write (data : List Nat)
  | read (n : Nat)
  | finish
  deriving Repr, DecidableEq

inductive FifoObs where
  | wrote (k : Nat)
  | readOk (bytes : List Nat)
  | wouldBlock
  | done
  deriving Repr, DecidableEq

def Fifo.step (f : Fifo) : FifoOp → Fifo × FifoObs
  | .write d => ((f.write d).1, .wrote (f.write d).2)
  | .read n =>
    match f.read n with
    | (f', .ok b) => (f', .readOk b)
    | (f', .wouldBlock) => (f', .wouldBlock)
  | .finish => (f.finish, .done)

def Fifo.run : Fifo → List FifoOp → Fifo × List FifoObs
  | f, [] => (f, [])
  | f, op :: rest => ((Fifo.run (f.step op).1 rest).1, (f.step op).2 :: (Fifo.run (f.step op).1 rest).2)

/-- the bytes accepted by the `write`s of a trace, in order -/
def accepted : List FifoOp → List FifoObs → List Nat
  | .write d :: ops, .wrote k :: obs => d.take k ++ accepted ops obs
  | _ :: ops, _ :: obs => accepted ops obs
  | _, _ => []

/-- the bytes handed out by the `read`s of a trace, in order -/
def delivered : List FifoObs → List Nat
  | .readOk b :: obs => b ++ delivered obs
  | _ :: obs => delivered obs
  | [] => []

end Flute.Spec
