import FluteModel.Spec.Fti
/-
  Whole-datagram decoder of the independent RFC specification, and its canonical text form (model-driver
  op `rfc`, compared with the stand-alone Rust decoder `harness/engines/wire/src/rfcdec.rs`).
  In FLUTE the codepoint carries the FEC Encoding ID (RFC 6726 §5.1 / RFC 3926 §5.1.4).
-/
namespace Flute.Spec.Wire
open Flute.Spec

def hexNib (n : Nat) : Char := if n < 10 then Char.ofNat (48 + n) else Char.ofNat (87 + n)

def hex (bs : List Nat) : String :=
  if bs.isEmpty then "-" else
  String.ofList (bs.foldr (fun b acc => hexNib (b / 16 % 16) :: hexNib (b % 16) :: acc) [])

def showExt (e : Ext) : String := s!"{e.het}.{e.hel}.{hex e.body}"

def showOpt {α} (f : α → String) : Option α → String
  | some v => f v
  | none => "-"

def knownFec (cp : Nat) : Bool := cp = 0 ∨ cp = 1 ∨ cp = 2 ∨ cp = 5 ∨ cp = 6 ∨ cp = 129

def showDecode (d : List Nat) : String :=
  match decodeLct d with
  | none => "ERR"
  | some (f, hlen) =>
    let x := if f.exts.isEmpty then "-" else ";".intercalate (f.exts.map showExt)
    let fdt := (findExt f.exts HET_FDT).bind fun e => decodeExtFdt e.encode
    let cenc := (findExt f.exts HET_CENC).bind fun e => decodeExtCenc e.encode
    let sct := (findExt f.exts HET_TIME).bind fun e => decodeExtTimeSct e.encode
    let ftiExt := findExt f.exts HET_FTI
    let fti : Option (List Nat) := if knownFec f.cp then ftiExt.bind fun e => decodeFti f.cp e.encode else none
    let ftiS := match ftiExt, fti with
      | none, _ => "-"
      | some _, none => "BAD"
      | some _, some vs => ",".intercalate (vs.map toString)
    let m := match fti with
      | some (_ :: m :: _) => if f.cp = 2 then (if m = 0 then 8 else m) else 8
      | _ => 8
    let pid := if knownFec f.cp then decodeFpid f.cp m (octetsAt d hlen (fpidOctets f.cp)) else none
    s!"ok V={f.v} C={f.c} PSI={f.psi} S={f.s} O={f.o} H={f.h} A={f.a} B={f.b} HL={hlen / 4} CP={f.cp} " ++
    s!"CCI={f.cci} TSI={f.tsi} TOI={f.toi} X={x} " ++
    s!"FDT={showOpt (fun (p : Nat × Nat) => s!"{p.1}:{p.2}") fdt} CENC={showOpt toString cenc} " ++
    s!"SCT={showOpt (fun (p : Nat × Nat) => s!"{p.1}:{p.2}") sct} FTI={ftiS} " ++
    s!"PID={showOpt (fun (p : Nat × Nat × Option Nat) => s!"{p.1},{p.2.1},{showOpt toString p.2.2}") pid}"

/-- re-serialise the LCT header of datagram `d` with other width flags `(c, s, o, h)`, everything else
    (values, flags, extensions, the bytes after the header) unchanged; `none` if `d` does not decode or the
    values do not fit the requested widths (driver op `rewidth`) -/
def rewidth (d : List Nat) (c s o h : Nat) : Option (List Nat) :=
  match decodeLct d with
  | none => none
  | some (f, hlen) =>
    let g : LctFields := { f with c := c, s := s, o := o, h := h }
    if c < 4 ∧ s < 2 ∧ o < 4 ∧ h < 2 ∧ g.cci < 2 ^ g.cciBits ∧ g.tsi < 2 ^ g.tsiBits ∧ g.toi < 2 ^ g.toiBits
        ∧ g.hdrLen ≤ 255 then
      some (g.encode ++ d.drop hlen)
    else none

end Flute.Spec.Wire
