/-
  Bit-field layer of the independent RFC specification (no import: shares nothing with the model of the
  Rust code).  RFC packet diagrams are sequences of fields `(width in bits, value)` in network bit order
  (most significant bit first).  `pack` is the number whose binary representation is the concatenation
  of the fields, `encode` the corresponding octet string, `bitsAt` reads a field back from an octet
  string.
-/
namespace Flute.Spec

/-- a field of an RFC diagram: `(width in bits, value)` -/
abbrev Field := Nat × Nat

/-- total width in bits -/
def width : List Field → Nat
  | [] => 0
  | (w, _) :: r => w + width r

/-- every value fits in its width -/
def FieldsOk : List Field → Prop
  | [] => True
  | (w, v) :: r => v < 2 ^ w ∧ FieldsOk r

/-- the concatenation of the fields, first field most significant -/
def pack : List Field → Nat
  | [] => 0
  | (_, v) :: r => v * 2 ^ width r + pack r

/-- octet `i` (from the left) of an `n`-octet big-endian number -/
def octet (n v i : Nat) : Nat := v / 2 ^ (8 * (n - 1 - i)) % 2 ^ 8

/-- `n` octets, network byte order -/
def octets (n v : Nat) : List Nat := (List.range n).map (octet n v)

/-- the octet string of a diagram whose total width is a multiple of 8 -/
def encode (fs : List Field) : List Nat := octets (width fs / 8) (pack fs)

/-- the number represented by an octet string (network byte order) -/
def toNat (d : List Nat) : Nat := d.foldl (fun acc b => acc * 2 ^ 8 + b) 0

/-- the `w`-bit field starting at bit `pos` of the octet string `d` (`pos + w ≤ 8 * d.length`) -/
def bitsAt (d : List Nat) (pos w : Nat) : Nat := toNat d / 2 ^ (8 * d.length - pos - w) % 2 ^ w

/-- octets `[i, i+n)` of `d` -/
def octetsAt (d : List Nat) (i n : Nat) : List Nat := (d.drop i).take n

end Flute.Spec
