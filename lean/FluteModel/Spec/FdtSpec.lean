import FluteModel.FdtAbs
/-
  Independent bookkeeping for property C10, written from the property text, over the API-visible trace
  (operation, result) only: which objects are "announced" (added, not removed, not finished; in transmission),
  what `Expires` must be, how FDT-level and File-level FEC-OTI attributes are resolved by a reader (RFC 6726 §3.4.2).
-/
namespace Flute.Spec.Fdt
open Flute Flute.FdtAbs

/-- bookkeeping of one object that was ever added -/
structure G where
  toi : Nat
  attrs : ObjAttrs
  live : Bool            -- added ∧ not removed ∧ not finished
  transferring : Bool
  done : Nat             -- completed transfers so far
  deriving Repr

/-- an object is finished when a transfer completes, it is not a carousel object and the number of completed
    transfers has reached `max_transfer_count` -/
def finishedAfter (x : G) : Bool := decide (x.attrs.maxTransferCount ≤ x.done + 1) && !x.attrs.carousel

def track1 (g : List G) (ev : Op × Res) : List G :=
  match ev with
  | (.add a, .added (.ok t)) => g ++ [{ toi := t, attrs := a, live := true, transferring := false, done := 0 }]
  | (.remove t, .removed true) => g.map (fun x => if x.toi = t then { x with live := false } else x)
  | (.tstart t _, _) => g.map (fun x => if x.toi = t then { x with transferring := true } else x)
  | (.tdone t _, _) =>
    g.map (fun x => if x.toi = t then
      { x with transferring := false, done := x.done + 1, live := x.live && !finishedAfter x } else x)
  | _ => g

def track (evs : List (Op × Res)) : List G := evs.foldl track1 []

/-- FullFDT: all added, not removed, not finished objects -/
def announcedFull (g : List G) : List Nat := (g.filter (fun x => x.live)).map (fun x => x.toi)

/-- ObjectsBeingTransferred: those of them that are in transmission -/
def announcedBeingTransferred (g : List G) : List Nat :=
  ((g.filter (fun x => x.live)).filter (fun x => x.transferring)).map (fun x => x.toi)

def announced (m : Mode) (g : List G) : List Nat :=
  match m with
  | .fullFdt => announcedFull g
  | .beingTransferred => announcedBeingTransferred g

/-- whole seconds since 1900 of a time given in µs since 1970 (NTP era 0) -/
def ntpFloor (tUs : Nat) : Nat := tUs / 1000000 + 2208988800

/-- the instant (µs since 1970) at which an instance published at `tUs` expires: `Expires` is in whole seconds -/
def expiryUs (durationUs tUs : Nat) : Nat := (tUs / 1000000 + durationUs / 1000000) * 1000000

/-- a reader takes the File element's FEC-OTI attributes when the File carries an encoding id, else the FDT-Instance's -/
def resolveOti (fdt file : OtiAttrs) : OtiAttrs := if file.enc.isSome then file else fdt

/-- the cache directive a receiver must end up with for an object announced with directive `c` in an instance built at `now`
    (whole seconds; no directive: the FDT expiry as a hint) -/
def cacheRead (durationUs now : Nat) : Option CacheCtl → RCache
  | none => .expiresAtHint (expiryUs durationUs now)
  | some .noCache => .noCache
  | some .maxStale => .maxStale
  | some (.expiresIn d) => .expiresAt ((now + d) / 1000000 * 1000000)
  | some (.expiresAt t) => .expiresAt (t / 1000000 * 1000000)

/-- the absolute expiry of the directive lies in NTP era 0 -/
def cacheInEra (now : Nat) : Option CacheCtl → Prop
  | some (.expiresIn d) => (now + d) / 1000000 + 2208988800 < 2^32
  | some (.expiresAt t) => t / 1000000 + 2208988800 < 2^32
  | _ => True

/-- time stamp carried by an operation -/
def opTime : Op → Option Nat
  | .publish t => some t
  | .tstart _ t => some t
  | .tdone _ t => some t
  | .poll t => some t
  | _ => none

end Flute.Spec.Fdt
