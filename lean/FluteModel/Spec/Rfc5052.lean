/-
  RFC 5052 §9.1 block partitioning, written from the RFC text (independent of the Rust code):
      T = ceil(L/E)   N = ceil(T/B)   A_large = ceil(T/N)   A_small = floor(T/N)   I = T - A_small*N
  "Then, the object is partitioned into N source blocks, where the first I source blocks consist of
   A_large source symbols each, the remaining N-I source blocks consist of A_small source symbols each."
-/
namespace Flute.Spec

/-- mathematical ceiling of a/b for b > 0 -/
def ceilDiv (a b : Nat) : Nat := (a + b - 1) / b

structure Rfc5052 where
  T : Nat
  N : Nat
  aLarge : Nat
  aSmall : Nat
  I : Nat
deriving Repr, DecidableEq

def rfc5052 (L E B : Nat) : Rfc5052 :=
  let T := ceilDiv L E
  let N := ceilDiv T B
  { T := T, N := N, aLarge := ceilDiv T N, aSmall := T / N, I := T - (T / N) * N }

/-- number of symbols of block `sbn` per the RFC -/
def Rfc5052.symbolsOf (p : Rfc5052) (sbn : Nat) : Nat := if sbn < p.I then p.aLarge else p.aSmall

/-- first symbol index of block `sbn` -/
def Rfc5052.firstSymbol (p : Rfc5052) (sbn : Nat) : Nat :=
  if sbn ≤ p.I then sbn * p.aLarge else p.I * p.aLarge + (sbn - p.I) * p.aSmall

/-- byte length of block `sbn` of an object of `L` bytes cut into `E`-byte symbols: every symbol is
    `E` bytes except that the object ends at `L`. -/
def Rfc5052.byteLen (p : Rfc5052) (L E sbn : Nat) : Nat :=
  min ((p.firstSymbol sbn + p.symbolsOf sbn) * E) L - min (p.firstSymbol sbn * E) L

end Flute.Spec
