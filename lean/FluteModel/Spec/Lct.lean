import FluteModel.Spec.Bits
/-
  RFC 5651 §5.1 (LCT header) and §5.2 (header extensions), written from the RFC text.

       0                   1                   2                   3
       0 1 2 3 4 5 6 7 8 9 0 1 2 3 4 5 6 7 8 9 0 1 2 3 4 5 6 7 8 9 0 1
      +-+-+-+-+-+-+-+-+-+-+-+-+-+-+-+-+-+-+-+-+-+-+-+-+-+-+-+-+-+-+-+-+
      |   V   | C |PSI|S| O |H|Res|A|B|   HDR_LEN     | Codepoint (CP)|
      | Congestion Control Information (CCI, length = 32*(C+1) bits)  |
      |  Transport Session Identifier (TSI, length = 32*S+16*H bits)  |
      |   Transport Object Identifier (TOI, length = 32*O+16*H bits)  |
      |                Header Extensions (if applicable)              |

  Header extensions: HET (8 bits); for HET < 128 a HEL octet (length of the whole extension in 32-bit
  words, 1..255) follows and the extension is 4*HEL octets long; for HET ≥ 128 the extension is exactly
  one 32-bit word (HET + 24 bits of content).  HDR_LEN is the length of the whole LCT header
  (fixed part + extensions) in 32-bit words.
-/
namespace Flute.Spec

/-- one header extension.  `body` = the octets after HET (fixed-length, HET ≥ 128: 3 octets) or after
    HET and HEL (variable-length, HET < 128: 4*HEL - 2 octets). -/
structure Ext where
  het : Nat
  hel : Nat            -- only meaningful for het < 128
  body : List Nat
deriving Repr, DecidableEq

def Ext.Valid (e : Ext) : Prop :=
  (∀ b ∈ e.body, b < 256) ∧
  if e.het < 128 then 1 ≤ e.hel ∧ e.hel ≤ 255 ∧ e.body.length = 4 * e.hel - 2
  else e.het < 256 ∧ e.body.length = 3

/-- the octets of an extension -/
def Ext.encode (e : Ext) : List Nat :=
  if e.het < 128 then Spec.encode [(8, e.het), (8, e.hel)] ++ e.body
  else Spec.encode [(8, e.het)] ++ e.body

/-- length of an extension in 32-bit words -/
def Ext.words (e : Ext) : Nat := if e.het < 128 then e.hel else 1

def encodeExts : List Ext → List Nat
  | [] => []
  | e :: r => e.encode ++ encodeExts r

def extsWords : List Ext → Nat
  | [] => 0
  | e :: r => e.words + extsWords r

/-- what a receiver looking for extension type `het` finds: the first extension of that type
    (all others, known or not, are skipped using their length) -/
def findExt (exts : List Ext) (het : Nat) : Option Ext := exts.find? (fun e => e.het = het)

/-- the fields of an LCT header; `c s o h` are the width flags chosen by the sender -/
structure LctFields where
  v : Nat := 1
  c : Nat
  psi : Nat
  s : Nat
  o : Nat
  h : Nat
  a : Nat          -- close session
  b : Nat          -- close object
  cp : Nat
  cci : Nat
  tsi : Nat
  toi : Nat
  exts : List Ext
deriving Repr, DecidableEq

def LctFields.cciBits (f : LctFields) : Nat := 32 * (f.c + 1)
def LctFields.tsiBits (f : LctFields) : Nat := 32 * f.s + 16 * f.h
def LctFields.toiBits (f : LctFields) : Nat := 32 * f.o + 16 * f.h

/-- HDR_LEN: total header length in 32-bit words -/
def LctFields.hdrLen (f : LctFields) : Nat :=
  1 + (f.c + 1) + (f.s + f.o + f.h) + extsWords f.exts

/-- a header a conforming sender may emit -/
def LctFields.Valid (f : LctFields) : Prop :=
  f.v = 1 ∧ f.c < 4 ∧ f.psi < 4 ∧ f.s < 2 ∧ f.o < 4 ∧ f.h < 2 ∧ f.a < 2 ∧ f.b < 2 ∧ f.cp < 256 ∧
  f.cci < 2 ^ f.cciBits ∧ f.tsi < 2 ^ f.tsiBits ∧ f.toi < 2 ^ f.toiBits ∧
  f.hdrLen ≤ 255 ∧ ∀ e ∈ f.exts, e.Valid

/-- the fixed part of the header as a diagram -/
def LctFields.diagram (f : LctFields) : List Field :=
  [(4, f.v), (2, f.c), (2, f.psi), (1, f.s), (2, f.o), (1, f.h), (2, 0), (1, f.a), (1, f.b),
   (8, f.hdrLen), (8, f.cp), (f.cciBits, f.cci), (f.tsiBits, f.tsi), (f.toiBits, f.toi)]

/-- the octets of the LCT header -/
def LctFields.encode (f : LctFields) : List Nat := Spec.encode f.diagram ++ encodeExts f.exts

/-! ### decoder -/

/-- split the extension area (a whole number of 32-bit words) into extensions; `none` if malformed.
    `fuel` ≥ number of octets. -/
def decodeExts : Nat → List Nat → Option (List Ext)
  | 0, d => if d = [] then some [] else none
  | fuel+1, d =>
    if d = [] then some [] else
    if d.length < 4 then none else
    let het := bitsAt d 0 8
    if het < 128 then
      let hel := bitsAt d 8 8
      if hel = 0 ∨ 4 * hel > d.length then none else
      match decodeExts fuel (d.drop (4 * hel)) with
      | none => none
      | some r => some ({ het := het, hel := hel, body := octetsAt d 2 (4 * hel - 2) } :: r)
    else
      match decodeExts fuel (d.drop 4) with
      | none => none
      | some r => some ({ het := het, hel := 0, body := octetsAt d 1 3 } :: r)

/-- decode an LCT header at the start of the datagram `d`; returns the fields and the header length
    in octets.  Accepts version 1 only (RFC 5651: "This document specifies LCT version 1"). -/
def decodeLct (d : List Nat) : Option (LctFields × Nat) :=
  if d.length < 4 then none else
  let v := bitsAt d 0 4
  let c := bitsAt d 4 2
  let psi := bitsAt d 6 2
  let s := bitsAt d 8 1
  let o := bitsAt d 9 2
  let h := bitsAt d 11 1
  let a := bitsAt d 14 1
  let b := bitsAt d 15 1
  let hdrLen := bitsAt d 16 8
  let cp := bitsAt d 24 8
  if v ≠ 1 then none else
  let cciBits := 32 * (c + 1)
  let tsiBits := 32 * s + 16 * h
  let toiBits := 32 * o + 16 * h
  let fixedBits := 32 + cciBits + tsiBits + toiBits
  if 32 * hdrLen < fixedBits ∨ 4 * hdrLen > d.length then none else
  let hdr := d.take (4 * hdrLen)
  let cci := bitsAt hdr 32 cciBits
  let tsi := bitsAt hdr (32 + cciBits) tsiBits
  let toi := bitsAt hdr (32 + cciBits + tsiBits) toiBits
  let extArea := hdr.drop (fixedBits / 8)
  match decodeExts extArea.length extArea with
  | none => none
  | some exts =>
    some ({ v := v, c := c, psi := psi, s := s, o := o, h := h, a := a, b := b, cp := cp,
            cci := cci, tsi := tsi, toi := toi, exts := exts }, 4 * hdrLen)

end Flute.Spec
