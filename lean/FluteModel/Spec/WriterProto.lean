/-
  The object-writer protocol of property C09, written from the property text (not from the Rust code):
  "each object writer obtained from the writer builder sees open exactly once before anything else, then zero or more
   writes, then at most one terminal call - complete, error or interrupted - and nothing after it".
      Idle --open ok--> Opened --write*--> Opened --complete|error|interrupted--> Done
      Idle --open err--> Failed --error--> Done                      nothing after Done
-/
namespace Flute.Spec.WriterProto

inductive PState
  | idle | opened | failed | done
deriving DecidableEq, Repr

/-- a call on the writer as the protocol sees it -/
inductive Ev
  | openOk | openErr
  | write (ok : Bool)
  | complete | error | interrupted
deriving DecidableEq, Repr

def step : PState → Ev → Option PState
  | .idle, .openOk => some .opened
  | .idle, .openErr => some .failed
  | .opened, .write _ => some .opened
  | .opened, .complete => some .done
  | .opened, .error => some .done
  | .opened, .interrupted => some .done
  | .failed, .error => some .done
  | _, _ => none

def run : PState → List Ev → Option PState
  | s, [] => some s
  | s, e :: r =>
    match step s e with
    | none => none
    | some s' => run s' r

/-- the trace is a word of the protocol language (prefix-closed: a writer may still be open) -/
def Accepts (tr : List Ev) : Prop := (run .idle tr).isSome

/-- the trace is a COMPLETE session: never opened at all, or ended by its terminal call -/
def Closed (tr : List Ev) : Prop := run .idle tr = some .idle ∨ run .idle tr = some .done

def Ev.isTerminal : Ev → Bool
  | .complete | .error | .interrupted => true
  | _ => false

theorem run_append (s : PState) (a b : List Ev) :
    run s (a ++ b) = (run s a).bind fun s' => run s' b := by
  induction a generalizing s with
  | nil => simp [run]
  | cons e r ih =>
    simp only [List.cons_append, run]
    cases step s e with
    | none => simp
    | some s' => simpa using ih s'

theorem run_snoc (s : PState) (a : List Ev) (e : Ev) :
    run s (a ++ [e]) = (run s a).bind fun s' => step s' e := by
  rw [run_append]
  congr 1
  funext s'
  simp only [run]
  cases step s' e <;> rfl

/-- nothing is accepted after `Done` -/
theorem run_done (tr : List Ev) : run .done tr = some s → tr = [] := by
  cases tr with
  | nil => intro _; rfl
  | cons e r => simp [run, step]

end Flute.Spec.WriterProto

namespace Flute.Spec.WriterProto

theorem step_terminal {s s' : PState} {e : Ev} (h : step s e = some s') (ht : e.isTerminal = true) : s' = .done := by
  cases s <;> cases e <;> simp_all [step, Ev.isTerminal]

theorem step_from_done (e : Ev) : step .done e = none := by cases e <;> rfl

/-- in an accepted word at most one call is terminal -/
theorem run_terminals_le_one (s : PState) (tr : List Ev) {s' : PState} (h : run s tr = some s') :
    (tr.filter Ev.isTerminal).length ≤ 1 := by
  induction tr generalizing s with
  | nil => simp
  | cons e r ih =>
    simp only [run] at h
    split at h
    · simp at h
    · rename_i s1 hs
      by_cases ht : e.isTerminal = true
      · have := step_terminal hs ht
        subst this
        have := run_done r h
        subst this
        simp [ht]
      · simp [ht]
        exact ih _ h

/-- in an accepted word nothing follows a terminal call -/
theorem run_nothing_after_terminal (s : PState) (a b : List Ev) (e : Ev) {s' : PState}
    (h : run s (a ++ e :: b) = some s') (ht : e.isTerminal = true) : b = [] := by
  rw [run_append] at h
  cases ha : run s a with
  | none => simp [ha] at h
  | some s1 =>
    simp [ha, run] at h
    split at h
    · simp at h
    · rename_i s2 hs
      have := step_terminal hs ht
      subst this
      exact run_done b h

/-- `open` is the first call of an accepted non-empty word -/
theorem run_idle_head (e : Ev) (r : List Ev) {s' : PState} (h : run .idle (e :: r) = some s') :
    e = .openOk ∨ e = .openErr := by
  simp only [run] at h
  cases e <;> simp_all [step]

/-- `open` occurs at most once in an accepted word -/
def Ev.isOpen : Ev → Bool
  | .openOk | .openErr => true
  | _ => false

theorem run_no_open_after (s : PState) (hs : s ≠ .idle) (tr : List Ev) {s' : PState} (h : run s tr = some s') :
    tr.filter Ev.isOpen = [] := by
  induction tr generalizing s with
  | nil => simp
  | cons e r ih =>
    simp only [run] at h
    split at h
    · simp at h
    · rename_i s1 hs1
      have h1 : e.isOpen = false ∧ s1 ≠ .idle := by
        cases s <;> cases e <;> simp [step] at hs1 <;> subst hs1 <;> simp_all [Ev.isOpen]
      rw [List.filter_cons, h1.1]
      exact ih _ h1.2 h

end Flute.Spec.WriterProto
