/-
  The object-writer protocol of property C09, written from the property text (not from the Rust code):
  "each object writer obtained from the writer builder sees open exactly once before anything else, then zero or more
   writes, then at most one terminal call - complete, error or interrupted - and nothing after it".
      Idle --open ok--> Opened --write*--> Opened --complete|error|interrupted--> Done
      Idle --open err--> Failed --error--> Done                      nothing after Done
-/
namespace Flute.Spec.WriterProto

inductive PState
  | idle | opened | failed | done
deriving DecidableEq, Repr

/-- a call on the writer as the protocol sees it -/
inductive Ev
  | openOk | openErr
  | write (ok : Bool)
  | complete | error | interrupted
deriving DecidableEq, Repr

def step : PState → Ev → Option PState
  | .idle, .openOk => some .opened
  | .idle, .openErr => some .failed
  | .opened, .write _ => some .opened
  | .opened, .complete => some .done
  | .opened, .error => some .done
  | .opened, .interrupted => some .done
  | .failed, .error => some .done
  | _, _ => none

def run : PState → List Ev → Option PState
  | s, [] => some s
  | s, e :: r =>
    match step s e with
    | none => none
    | some s' => run s' r

/-- the trace is a word of the protocol language (prefix-closed: a writer may still be open) -/
def Accepts (tr : List Ev) : Prop := (run .idle tr).isSome

/-- the trace is a COMPLETE session: never opened at all, or ended by its terminal call -/
def Closed (tr : List Ev) : Prop := run .idle tr = some .idle ∨ run .idle tr = some .done

def Ev.isTerminal : Ev → Bool
  | .complete | .error | .interrupted => true
  | _ => false

theorem run_append (s : PState) (a b : List Ev) :
    run s (a ++ b) = (run s a).bind fun s' => run s' b := by
  induction a generalizing s with
  | nil => simp [run]
  | cons e r ih =>
    simp only [List.cons_append, run]
    cases step s e with
    | none => simp
    | some s' => simpa using ih s'

theorem run_snoc (s : PState) (a : List Ev) (e : Ev) :
    run s (a ++ [e]) = (run s a).bind fun s' => step s' e := by
  rw [run_append]
  congr 1
  funext s'
  simp only [run]
  cases step s' e <;> rfl

/-- nothing is accepted after `Done` -/
theorem run_done (tr : List Ev) : run .done tr = some s → tr = [] := by
  cases tr with
  | nil => intro _; rfl
  | cons e r => simp [run, step]

end Flute.Spec.WriterProto
