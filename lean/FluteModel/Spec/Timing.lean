import FluteModel.Sched
/-
  Independent specification of C14 (timing) as a per-object monitor over the trace (`Sched.Ev`, newest first),
  written from the property text.  All times are the caller-supplied instants carried by the events.
  * a transfer never starts before the transfer start time in effect (from `add_object`, replaced by an
    applied `trigger_transfer_at(.., Some(t))`);
  * carousel gap (burst form, see finding F14): a transfer that follows a COMPLETED ROUND
    (`max_transfer_count` transfers done since the round began) starts more than `delay` after the previous
    transfer ended / more than `interval` after it started - unless `trigger_transfer_at` was applied since;
    for `max_transfer_count = 1` every repetition follows a completed round: the property verbatim;
  * pacing: with a tick (`target / packets`, supplied with the Start event) the i-th packet of a transfer does
    not leave before `start + i * tick`.
-/
namespace Flute.Spec.Timing
open Flute.Sched

structure TM where
  args : Option AddArgs := none
  cfgStart : Option Nat := none
  lastStart : Option Nat := none
  lastEnd : Option Nat := none
  /-- transfers completed in the current round -/
  count : Nat := 0
  tStart : Nat := 0
  tick : Option Nat := none
  sent : Nat := 0
  deriving DecidableEq

def maxCountOf (m : TM) : Nat := match m.args with | some a => a.maxCount | none => 0
def carouselOf (m : TM) : Option Carousel := match m.args with | some a => a.carousel | none => none

def TM.step (toi : Nat) (m : TM) : Ev → TM
  | .opAdd t a ok => if t = toi ∧ ok = true then { m with args := some a, cfgStart := a.start } else m
  | .opTrigger t ts applied =>
    if t = toi ∧ applied = true then
      { m with lastStart := none, lastEnd := none, cfgStart := if ts.isSome then ts else m.cfgStart }
    else m
  | .start now t _ tick =>
    if t = toi then
      { m with count := if m.count = maxCountOf m ∧ (carouselOf m).isSome then 0 else m.count
               lastStart := some now, tStart := now, tick := tick, sent := 0 }
    else m
  | .pkt _ _ t _ _ => if t = toi then { m with sent := m.sent + 1 } else m
  | .stop now t => if t = toi then { m with lastEnd := some now, count := m.count + 1 } else m
  | _ => m

def TM.run (toi : Nat) : List Ev → TM
  | [] => {}
  | e :: l => (TM.run toi l).step toi e

/-- the gap a new transfer has to respect at `now` -/
def GapOk (m : TM) (now : Nat) : Prop :=
  match carouselOf m, m.lastEnd, m.lastStart with
  | some (.delay d), some le, some _ => now - le > d
  | some (.interval d), some _, some ls => now - ls > d
  | _, _, _ => True

def TM.check (toi : Nat) (m : TM) : Ev → Prop
  | .start now t st _ => t = toi →
      st = m.cfgStart ∧ (∀ x, m.cfgStart = some x → x ≤ now) ∧ (¬ (maxCountOf m > m.count) → GapOk m now) ∧
      -- bookkeeping fact that links rounds to ends: a transfer ended since the last reset => the round
      -- counter is at least 1 (so for `max_transfer_count ≤ 1` every repetition follows a completed round)
      (m.lastEnd.isSome = true → 1 ≤ m.count)
  | .pkt now _ t idx _ => t = toi → ∀ tk, m.tick = some tk → m.tStart + idx * tk ≤ now
  | _ => True

def TChecked (toi : Nat) : List Ev → Prop
  | [] => True
  | e :: l => TChecked toi l ∧ TM.check toi (TM.run toi l) e

end Flute.Spec.Timing
