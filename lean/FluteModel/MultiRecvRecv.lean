import FluteModel.MultiRecv
import FluteModel.Recv
/-
  The session machine of `MultiRecv` instantiated with the session-level receiver model `Flute.Recv`
  (src/receiver/receiver.rs; generic in the per-object machine `ObjIface τ`).

  What `Recv` abstracts as parameters of its calls - the `now: SystemTime` argument, the answer of the XML parser for a
  completed FDT (`FdtAns`), the wall-clock staleness of objects at `cleanup` (`Stale`) - is the environment input of
  the call (`REnv`).  What `Recv` does not contain and this file adds, line by line from receiver.rs:
    * the fields `endpoint`, `tsi` (`Receiver::new` stores its arguments; every `self.writer.*(&self.endpoint,
      &self.tsi, ..)` call and every `ObjectReceiver::new(&self.endpoint, self.tsi, ..)` passes them on): `RSess.key`,
      and each event of a call is tagged with it;
    * `last_activity: Instant` (`Receiver::new` and `push` set it to now; `is_expired` = `elapsed > session_timeout`);
    * the destruction of a `Receiver` (no explicit `Drop`: its `objects: HashMap<u128, Box<ObjectReceiver>>` is dropped,
      `Drop for ObjectReceiver` = `ObjIface.drop`; the objects inside `FdtReceiver`s write to an internal buffer, not to
      the user's writer).
-/
namespace Flute.MultiRecv
open Flute

/-- a `Receiver` -/
structure RSess (τ : Type) where
  /-- `endpoint`, `tsi` -/
  key : Key
  /-- `last_activity` -/
  last : Nat
  st : Recv.State τ

/-- environment input of a call into a `Receiver` -/
structure REnv where
  /-- the rest of the parsed packet (`push` only) -/
  pkt : Recv.Pkt
  /-- the `now` argument -/
  now : Int
  /-- what the XML parser answers if this packet completes an FDT instance (`push` only) -/
  ans : Recv.FdtAns
  /-- which object time-outs have elapsed, per session (`cleanup` only) -/
  stale : Key → Recv.Stale

/-- writer callbacks (and ghost events) of one call, each with the (endpoint, tsi) it carries; the call's result
    (`none` = panic) -/
structure ROut where
  calls : List (Key × Recv.Ev)
  res : Option Recv.Res

variable {τ : Type}

/-- `Drop` of a `Receiver`: every object still held is dropped -/
def recvFini (I : Recv.ObjIface τ) (s : Recv.State τ) : List Recv.Ev :=
  s.objects.flatMap (fun e => Recv.wevs e.1 (I.drop e.2))

def recvMachine (I : Recv.ObjIface τ) (cfg : Recv.Config) (timeout : Nat) : Machine (RSess τ) REnv ROut where
  init t k := ⟨k, t, Recv.State.init cfg⟩
  push t s p :=
    -- `self.last_activity = Instant::now()` comes first; a panic leaves the rest as it was
    match Recv.push I s.st { p.body.pkt with closeSession := p.close } p.body.now p.body.ans with
    | .ok (st', r, evs) => (⟨s.key, t, st'⟩, ⟨evs.map (fun e => (s.key, e)), some r⟩)
    | .error _ => (⟨s.key, t, s.st⟩, ⟨[], none⟩)
  cleanup _ i s :=
    match Recv.cleanup I s.st i.now (i.stale s.key) with
    | .ok (st', evs) => (⟨s.key, s.last, st'⟩, ⟨evs.map (fun e => (s.key, e)), some .ok⟩)
    | .error _ => (s, ⟨[], none⟩)
  expired t s := Recv.isExpired s.st (decide (t - s.last > timeout))
  fini _ _ s := ⟨(recvFini I s.st).map (fun e => (s.key, e)), some .ok⟩
  keys o := o.calls.map (·.1)

/-- the receiver model forwards the endpoint / TSI it was constructed with -/
theorem recvMachine_lawful (I : Recv.ObjIface τ) (cfg : Recv.Config) (timeout : Nat) :
    (recvMachine I cfg timeout).Lawful RSess.key := by
  refine ⟨fun _ _ => rfl, ?_, ?_, ?_, ?_, ?_⟩
  · intro t s p
    simp only [recvMachine]
    split <;> rfl
  · intro t i s
    simp only [recvMachine]
    split <;> rfl
  · intro t s p k hk
    simp only [recvMachine] at hk
    split at hk
    · simp only [List.map_map, List.mem_map, Function.comp_apply] at hk
      obtain ⟨_, _, rfl⟩ := hk; rfl
    · simp at hk
  · intro t i s k hk
    simp only [recvMachine] at hk
    split at hk
    · simp only [List.map_map, List.mem_map, Function.comp_apply] at hk
      obtain ⟨_, _, rfl⟩ := hk; rfl
    · simp at hk
  · intro t i s k hk
    simp only [recvMachine, List.map_map, List.mem_map, Function.comp_apply] at hk
    obtain ⟨_, _, rfl⟩ := hk; rfl

end Flute.MultiRecv
