import FluteModel.Recv
import FluteModel.Alc
/-
  `Receiver::push_data(data, now)` as ONE function of the datagram BYTES: the parser model of agent
  `wire` (`Flute.Alc.parseAlcPkt`), the TSI filter, the abstraction of the accepted `AlcPkt` to the
  packet the session model works on (`Recv.Pkt`), then `Recv.push`.  Joins the two models so that the
  C04 statement can be made about bytes (Props/C04.lean, `push_data_total`).
-/
namespace Flute.Recv
open Flute
variable {σ : Type}

/-- `oti.scheme_specific` in the session model's encoding -/
def ssRecv : Flute.Fti.SchemeSpecific → Option (Nat × Nat × Nat × Nat)
  | .none => none
  | .rs m g => some (0, m, g, 0)
  | .raptorq z n al => some (1, z, n, al)
  | .raptor z n al => some (2, z, n, al)

/-- what `Receiver::push` / `FdtReceiver::push` / `ObjectReceiver::push` read of an accepted packet
    (`d` = `pkt.data`); field by field agent wire's `WireAbs.absRecv`, plus the in-band EXT_CENC and the
    parity / scheme-specific part of the OTI (the object model reads them) -/
def ofAlc (d : List Nat) (p : Alc.AlcPkt) : Pkt :=
  { toi := p.lct.toi
    closeObject := p.lct.closeObject
    closeSession := p.lct.closeSession
    fdtId := p.fdtInfo.map (·.2)
    sct := match Alc.getSenderCurrentTime d p with
      | .ok (some t) => some (t : Int)
      | _ => none
    fti := match p.oti, p.transferLength with
      | some o, some l => some ⟨⟨o.fecId, o.esl, o.maxSbl, o.parity, ssRecv o.ss⟩, l⟩
      | _, _ => none
    pid := match Alc.getFecInlinePayloadId d p with   -- `Err` for codepoint 2 (RS GF(2^m)): agent wire
      | .ok r => some (r.sbn, r.esi)
      | _ => none
    plen := d.length - p.payloadOffset
    dlen := d.length
    cenc := p.cenc
    raw := d }

/-- `parse_alc_pkt(data)` + `if alc.lct.tsi != self.tsi`; `.error` = the parser panicked -/
def classify (tsi : Nat) (d : List Nat) : Rs Parsed :=
  match Alc.parseAlcPkt d with
  | .panic w => .error w
  | .err => .ok .reject
  | .ok p => if p.lct.tsi ≠ tsi then .ok .otherTsi else .ok (.pkt (ofAlc d p))

/-- **`Receiver::push_data` on bytes** -/
def pushDataBytes (I : ObjIface σ) (tsi : Nat) (s : State σ) (d : List Nat) (now : Int) (ans : FdtAns) :
    Rs (State σ × Res × List Ev) :=
  match classify tsi d with
  | .error w => .error w
  | .ok pd => pushData I s pd now ans

/-- calls of a receiver at the byte level -/
inductive BOp where
  | data (d : List UInt8) (now : Int) (ans : FdtAns)
  | cleanup (now : Int) (stale : Stale)

/-- the byte-level call as the call of the session model; a parser panic (excluded by
    `Flute.Props.C04.Wire.parse_total`) is mapped to `reject` here and kept visible by `classify` -/
def BOp.abs (tsi : Nat) : BOp → Op
  | .data d now ans =>
    .data (match classify tsi (d.map UInt8.toNat) with | .ok pd => pd | .error _ => .reject) now ans
  | .cleanup now stale => .cleanup now stale

end Flute.Recv
