import FluteModel.Prim
/-
  Decoder side of src/fec/{mod,nocode,rscodec,raptorq,raptor}.rs and src/receiver/blockdecoder.rs.

  * NoCode (src/fec/nocode.rs) is modelled concretely, line by line.
  * Reed-Solomon GF(2^8) (src/fec/rscodec.rs): the bookkeeping of `RSGalois8Codec` (shard vector of
    k+p slots, first copy wins, counters, "no reconstruct when all k source shards are present") is concrete;
    the two calls into the `reed-solomon-erasure` crate (`ReedSolomon::new`, `reconstruct`) are fields of the
    contract structure `Codec`.
  * RaptorQ / Raptor (src/fec/raptorq.rs, raptor.rs): the decoder object of the external crate is a
    deterministic function of the sequence of symbols pushed so far; the model keeps that sequence and asks `Codec`.
  No axioms: every theorem that needs a property of the codecs takes it as a hypothesis on the `Codec` value.
-/
namespace Flute.FecDec

abbrev Bytes := List Nat

/-- FEC Encoding IDs known to flute (src/common/oti.rs) -/
inductive Scheme
  | noCode | raptor | rs2m | rs28 | raptorQ | rs28us
deriving DecidableEq, Repr, Inhabited

/-- `SchemeSpecific` (src/common/oti.rs) -/
inductive SS
  | rs (m g : Nat)
  | rq (z n al : Nat)
  | r (z n al : Nat)
deriving DecidableEq, Repr

/-- `oti::Oti` (the fields the receiver reads) -/
structure Oti where
  scheme : Scheme
  e : Nat            -- encoding_symbol_length (u16)
  b : Nat            -- maximum_source_block_length (u32)
  parity : Nat       -- max_number_of_parity_symbols (u32)
  ss : Option SS
deriving DecidableEq, Repr

/-- What the external codec crates do, as explicit parameters.  `pushes` is the list of `(esi, payload)`
    handed to the crate's decoder so far, in call order. -/
structure Codec where
  /-- `reed_solomon_erasure::galois_8::ReedSolomon::new(k, p).is_ok()` -/
  rsNewOk : Nat → Nat → Bool
  /-- `rs.reconstruct(&mut shards)`: `none` = `Err`, `some s` = `Ok` with the shard vector afterwards -/
  rsReconstruct : Nat → Nat → List (Option Bytes) → Option (List (Option Bytes))
  /-- RaptorQ: value of `self.data` (decoded block) after the pushes -/
  rqData : (sbn k e : Nat) → (ss : SS) → List (Nat × Bytes) → Option Bytes
  /-- Raptor: `decoder.fully_specified()` after the pushes -/
  rFull : (k blockSize : Nat) → List (Nat × Bytes) → Bool
  /-- Raptor: `decoder.decode(source_block_size)` after the pushes -/
  rDecode : (k blockSize : Nat) → List (Nat × Bytes) → Option Bytes

/-- state of one `Box<dyn FecDecoder>` -/
inductive Dec
  /-- `NoCodeDecoder { shards, nb_symbols, data }` -/
  | noCode (shards : List (Option Bytes)) (nb : Nat) (data : Option Bytes)
  /-- `RSGalois8Codec { params{k,p}, decode_shards, decode_block, nb_source_symbols_received, nb_encoding_symbols_received }` -/
  | rs (k p : Nat) (shards : List (Option Bytes)) (block : Option Bytes) (nbSrc nbEnc : Nat)
  /-- `RaptorQDecoder` -/
  | rq (sbn k e : Nat) (ss : SS) (pushes : List (Nat × Bytes)) (data : Option Bytes)
  /-- `RaptorDecoder` -/
  | raptor (k bs : Nat) (pushes : List (Nat × Bytes)) (data : Option Bytes)
deriving Repr

def isSomeAt (l : List (Option Bytes)) (i : Nat) : Bool :=
  match l[i]? with
  | some (some _) => true
  | _ => false

/-- concatenation of the first `k` shards; `none` if one of them is missing -/
def concatShards : Nat → List (Option Bytes) → Option Bytes
  | 0, _ => some []
  | _+1, [] => none
  | _+1, none :: _ => none
  | k+1, some s :: r =>
    match concatShards k r with
    | none => none
    | some t => some (s ++ t)

/-- `FecDecoder::push_symbol` -/
def Dec.pushSymbol (c : Codec) (d : Dec) (sym : Bytes) (esi : Nat) : Dec :=
  match d with
  | .noCode shards nb data =>
    if shards.length ≤ esi then d
    else if isSomeAt shards esi then d
    else .noCode (shards.set esi (some sym)) (nb + 1) data
  | .rs k p shards block nbSrc nbEnc =>
    if block.isSome then d
    else if shards.length ≤ esi then d
    else if isSomeAt shards esi then d
    else .rs k p (shards.set esi (some sym)) block (if esi < k then nbSrc + 1 else nbSrc) (nbEnc + 1)
  | .rq sbn k e ss pushes data =>
    if data.isSome then d
    else
      let pushes' := pushes ++ [(esi, sym)]
      .rq sbn k e ss pushes' (c.rqData sbn k e ss pushes')
  | .raptor k bs pushes data =>
    if data.isSome then d
    else .raptor k bs (pushes ++ [(esi, sym)]) data

/-- `FecDecoder::can_decode` -/
def Dec.canDecode (c : Codec) (d : Dec) : Bool :=
  match d with
  | .noCode shards nb _ => nb == shards.length
  | .rs k _ _ _ _ nbEnc => decide (k ≤ nbEnc)
  | .rq _ _ _ _ _ data => data.isSome
  | .raptor k bs pushes _ => c.rFull k bs pushes

/-- `FecDecoder::decode` : new decoder state and the returned flag -/
def Dec.decode (c : Codec) (d : Dec) : Dec × Bool :=
  match d with
  | .noCode shards nb data =>
    if data.isSome then (d, true)
    else if !(nb == shards.length) then (d, false)
    else
      -- `for shard in &self.shards { output.extend(shard.as_ref().unwrap()) }`: with nb == len every slot is Some
      match concatShards shards.length shards with
      | some out => (.noCode shards nb (some out), true)
      | none => (d, false)   -- unreachable (see `Lemmas`): would be an `unwrap` panic
  | .rs k p shards block nbSrc nbEnc =>
    if block.isSome then (d, true)
    else
      let r : Option (List (Option Bytes)) :=
        if nbSrc < k then c.rsReconstruct k p shards else some shards
      match r with
      | none => (d, false)
      | some shards' =>
        match concatShards k shards' with
        | none => (.rs k p shards' block nbSrc nbEnc, false)
        -- the block is decoded: from here on the shard table is DEAD STATE (`push_symbol` and `decode` return at once when
        -- `decode_block` is set, `source_block` reads `decode_block`); the code leaves the reconstructed table there, the model keeps
        -- the table as received (so that "the ESIs the decoder holds" stays what was received: Lemmas/SessionObjRecv.lean)
        | some out => (.rs k p shards (some out) nbSrc nbEnc, true)
  | .rq _ _ _ _ _ data => (d, data.isSome)
  | .raptor k bs pushes _ =>
    let r := c.rDecode k bs pushes
    (.raptor k bs pushes r, r.isSome)

/-- `FecDecoder::source_block` (`none` = `Err`) -/
def Dec.sourceBlock : Dec → Option Bytes
  | .noCode _ _ data => data
  | .rs _ _ _ block _ _ => block
  | .rq _ _ _ _ _ data => data
  | .raptor _ _ _ data => data

/-- `BlockDecoder` -/
structure Block where
  completed : Bool := false
  initialized : Bool := false
  blockSize : Nat := 0
  dec : Option Dec := none
deriving Repr

/-- outcome of `BlockDecoder::init` -/
inductive InitRes
  | ok (b : Block)
  | err           -- `Err(FluteError)`

/-- `max_source_symbols` of `BlockDecoder::init` (/repo ac59f03, ee3ccfa): K_max = 8192 for Raptor (RFC 5053 5.1.2), K'_max = 56403
    for RaptorQ (RFC 6330 5.1.2) - the FEC libraries panic beyond; 65536 for Compact No-Code (16-bit ESI: a larger block can never be
    received, its `vec![None; K]` table would be allocated from one EXT_FTI) -/
def tooManySymbols (s : Scheme) (k : Nat) : Bool :=
  match s with
  | .noCode => decide (65536 < k)
  | .raptor => decide (8192 < k)
  | .raptorQ => decide (56403 < k)
  | _ => false

/-- `symbol_length` of `BlockDecoder::push` (/repo 97d1aea): `Some(E)` for a RaptorQ block; a payload of another length is ignored
    (the RaptorQ library panics on it) -/
def Dec.wrongLength (d : Dec) (payload : Bytes) : Bool :=
  match d with
  | .rq _ _ e _ _ _ => payload.length != e
  | _ => false

/-- `BlockDecoder::init(oti, nb_source_symbols, block_size, sbn)` -/
def Block.init (c : Codec) (b : Block) (o : Oti) (k blockSize sbn : Nat) : InitRes :=
  if b.initialized then .ok b else
  if tooManySymbols o.scheme k then .err else
  let done (d : Option Dec) : InitRes := .ok { b with dec := d, initialized := true, blockSize := blockSize }
  match o.scheme with
  | .noCode => done (some (.noCode (List.replicate k none) 0 none))
  | .rs28 | .rs28us =>
    if c.rsNewOk k o.parity then done (some (.rs k o.parity (List.replicate (k + o.parity) none) none 0 0))
    else .err
  | .rs2m => .err            -- `log::warn!("Not implemented")`: no decoder exists
  | .raptorQ =>
    match o.ss with
    | some (.rq z n al) =>
      -- /repo 2addd2e (agent recv): the RaptorQ library asserts on Al = 0, Al not dividing E, N = 0; a Scheme-Specific-Info from the
      -- FDT is not validated like the EXT_FTI
      if al = 0 ∨ o.e % al ≠ 0 ∨ n = 0 then .err else
      done (some (.rq sbn k o.e (.rq z n al) [] none))
    | _ => .err
  | .raptor =>
    if o.ss.isNone then .err else done (some (.raptor k blockSize [] none))

/-- `BlockDecoder::deallocate` -/
def Block.deallocate (b : Block) : Block := { b with dec := none, blockSize := 0 }

/-- `BlockDecoder::push`; `none` = `debug_assert!(self.decoder.is_some())` fails (dev profile panic) -/
def Block.push (c : Codec) (b : Block) (payload : Bytes) (esi : Nat) : Option Block :=
  if b.completed then some b else
  match b.dec with
  | none => none
  | some d =>
    if d.wrongLength payload then some b else
    let d := d.pushSymbol c payload esi
    if d.canDecode c then
      let (d', ok) := d.decode c
      some { b with dec := some d', completed := ok }
    else some { b with dec := some d }

/-- `BlockDecoder::source_block` -/
def Block.sourceBlock (b : Block) : Option Bytes :=
  match b.dec with
  | none => none
  | some d => d.sourceBlock

end Flute.FecDec
