import FluteModel.Prim
/-
  Model of the session-level receiver: src/receiver/receiver.rs (`Receiver`) and
  src/receiver/fdtreceiver.rs (`FdtReceiver`), plus the expiry-related parts of
  src/common/fdtinstance.rs (`get_expiration_date`, `get_file`, `get_object_cache_control`) and
  src/tools/mod.rs (`ntp_to_system_time` on whole NTP seconds).

  * The per-object machine (`ObjectReceiver`, modelled by another component) is a PARAMETER:
    `ObjIface σ`.  Every function below is generic in it, so every theorem about the registries and
    about expiry holds for ANY object implementation.
  * Time: `SystemTime` = `Int` microseconds since the Unix epoch (Linux `SystemTime` is a signed
    64-bit second count, so instants before 1970 exist), `Duration` = `Nat` microseconds.
    `SystemTime ± Duration` panics in Rust when the result leaves the i64-second range: `sysSub`,
    `sysAdd` return `Rs`.
  * Rust panics are `Rs` (= `Except String`) errors; `FluteError` results are the value `Res.err`.
  * Wall-clock `Instant` (object / session time-outs) is abstracted: `cleanup` takes the predicate
    "this TOI's last activity is older than the object time-out", `isExpired` the flag "elapsed".
  * `HashMap<u128, Box<ObjectReceiver>>` is an association list in insertion order; nothing below
    depends on the order except the order of the emitted events, which the correspondence
    canonicalises (stable sort by TOI).
  * Fields never read by the Rust code (`last_timestamp`, `closed_is_imminent` is written only) are
    kept only where cheap (`closedImminent`).
-/
namespace Flute.Recv

/-! ## small std-like helpers (association lists, sorted sets) -/

def alookup {α} (k : Nat) : List (Nat × α) → Option α
  | [] => none
  | (k', v) :: r => if k' = k then some v else alookup k r

def aerase {α} (k : Nat) : List (Nat × α) → List (Nat × α)
  | [] => []
  | (k', v) :: r => if k' = k then aerase k r else (k', v) :: aerase k r

/-- `map.insert(k, v)`: replace in place or append -/
def ainsert {α} (k : Nat) (v : α) : List (Nat × α) → List (Nat × α)
  | [] => [(k, v)]
  | (k', v') :: r => if k' = k then (k, v) :: r else (k', v') :: ainsert k v r

def akeys {α} (l : List (Nat × α)) : List Nat := l.map (·.1)

/-- `BTreeSet::insert` on an ascending duplicate-free list -/
def sinsert (x : Nat) : List Nat → List Nat
  | [] => [x]
  | y :: r => if x < y then x :: y :: r else if x = y then y :: r else y :: sinsert x r

/-! ## Rust integer parsing, NTP -/

/-- at least one ASCII digit, nothing else, value below `2^bits` -/
def parseDigits (bits : Nat) (ds : List Char) : Option Nat :=
  if ds.isEmpty then none else
  if ds.all Char.isDigit then
    let v := ds.foldl (fun a c => a * 10 + (c.toNat - 48)) 0
    if v < 2 ^ bits then some v else none
  else none

/-- `str::parse::<uN>()`: optional single leading `+`, then at least one ASCII digit, no overflow -/
def parseUInt (bits : Nat) (s : String) : Option Nat :=
  match s.toList with
  | '+' :: r => parseDigits bits r
  | cs => parseDigits bits cs

/-- seconds between 1900-01-01 and 1970-01-01 -/
def ntpEpoch : Nat := 2208988800

/-- `tools::ntp_to_system_time(secs << 32)` for a whole number of NTP seconds `< 2^32`:
    `Err` before 1970, otherwise the instant in µs -/
def ntpSecsToTime (secs : Nat) : Option Int :=
  if secs < ntpEpoch then none else some (((secs - ntpEpoch) * 1000000 : Nat) : Int)

/-! ## time arithmetic with Rust's panics -/

/-- bound of `SystemTime` on Linux: |seconds| < 2^63, in µs -/
def sysLimit : Int := 9223372036854775808 * 1000000

/-- `SystemTime - Duration` ("overflow when subtracting duration from instant") -/
def sysSub (t : Int) (d : Nat) : Rs Int :=
  if -sysLimit ≤ t - d then .ok (t - d) else .error "overflow when subtracting duration from instant"

/-- `SystemTime + Duration` ("overflow when adding duration to instant") -/
def sysAdd (t : Int) (d : Nat) : Rs Int :=
  if t + d < sysLimit then .ok (t + d) else .error "overflow when adding duration to instant"

/-- `chrono::DateTime<Utc>::from(SystemTime)` unwraps `timestamp_opt`, which is `None` outside
    chrono's year range ±262 000; modelled conservatively as ±8.2e12 s. Only used for a log line. -/
def chronoLimit : Int := 8200000000000 * 1000000
def chronoConv (t : Int) : Rs Unit :=
  if -chronoLimit ≤ t ∧ t < chronoLimit then .ok () else .error "chrono: timestamp out of range"

/-! ## abstract FDT instance (whatever the XML parser answered) -/

inductive CacheControl where
  | noCache | maxStale
  | expiresAt (t : Int)
  | expiresAtHint (t : Int)
  deriving DecidableEq, Repr, Inhabited

/-- `CacheControlChoice` of a `File` element -/
inductive CcChoice where
  | noCache | maxStale
  | expires (ntpSecs : Nat)      -- u32
  deriving DecidableEq, Repr, Inhabited

/-- FEC OTI as far as the session level forwards it -/
structure Oti where
  fec : Nat
  esl : Nat          -- encoding symbol length
  msbl : Nat         -- maximum source block length
  /-- `max_number_of_parity_symbols` -/
  parity : Nat := 0
  /-- `scheme_specific`: `(kind, a, b, c)`, kind 0 = Reed-Solomon GF(2^m) `(m, g, _)`, 1 = RaptorQ
      `(Z, N, Al)`, 2 = Raptor `(Z, N, Al)` -/
  ss : Option (Nat × Nat × Nat × Nat) := none
  deriving DecidableEq, Repr, Inhabited

structure FileAbs where
  toi : String                 -- the TOI attribute, verbatim
  cc : Option CcChoice
  tlen : Nat                   -- `get_transfer_length()`
  oti : Option Oti             -- `FdtInstance::get_oti_for_file`
  /-- `File::content_length`: decides complete vs error when the last byte is written (e19fa2b) -/
  contentLength : Option Nat := none
  /-- `File::content_encoding` as `attach_fdt` maps it (0 null, 1 zlib, 2 deflate, 3 gzip; absent or
      unknown = 0) -/
  cenc : Nat := 0
  deriving DecidableEq, Repr, Inhabited

structure FdtAbs where
  expires : String             -- the Expires attribute, verbatim
  files : Option (List FileAbs)
  deriving DecidableEq, Repr, Inhabited

/-- the XML parser's answer when an FDT object completes: an arbitrary instance or an error;
    `utf8` = the received bytes are valid UTF-8 (`fdt_xml_str`) -/
inductive FdtAns where
  | err
  | ok (fdt : FdtAbs) (utf8 : Bool)
  deriving Repr, Inhabited

/-- `FdtInstance::get_expiration_date`: `parse::<u64>()`, `<< 32` (wraps), `ntp_to_system_time` -/
def FdtAbs.expirationDate (f : FdtAbs) : Option Int :=
  match parseUInt 64 f.expires with
  | none => none
  | some n => ntpSecsToTime (n % 2 ^ 32)

/-- `FdtWriter::complete`: `parse::<u32>()` then `ntp_to_system_time(..).ok()` -/
def FdtAbs.writerExpires (f : FdtAbs) : Option Int :=
  match parseUInt 32 f.expires with
  | none => none
  | some n => ntpSecsToTime n

/-- `FdtInstance::get_file`: string comparison with `toi.to_string()` -/
def FdtAbs.getFile (f : FdtAbs) (toi : Nat) : Option FileAbs :=
  match f.files with
  | none => none
  | some fs => fs.find? (fun x => x.toi == toString toi)

/-- `File::get_object_cache_control(fdt_expiration_time)` -/
def FileAbs.cacheControl (x : FileAbs) (fdtExp : Option Int) : CacheControl :=
  let hint := match fdtExp with
    | some t => CacheControl.expiresAtHint t
    | none => CacheControl.noCache
  match x.cc with
  | some .noCache => .noCache
  | some .maxStale => .maxStale
  | some (.expires n) =>
    match ntpSecsToTime n with
    | some t => .expiresAt t
    | none => hint
  | none => hint

/-- `ObjectCacheControl::should_update` -/
def CacheControl.shouldUpdate (self new : CacheControl) : Bool :=
  match self with
  | .noCache => new != .noCache
  | .maxStale => new != .maxStale
  | .expiresAt e =>
    match new with
    | .expiresAt d => decide ((if d < e then e - d else d - e) > 1000000)
    | _ => true
  | .expiresAtHint e =>
    match new with
    | .expiresAtHint d => decide ((if d < e then e - d else d - e) > 1000000)
    | _ => true

/-! ## packets (parsed `AlcPkt`, as far as the session level and the objects look at it) -/

structure Fti where
  oti : Oti
  len : Nat                    -- transfer length
  deriving DecidableEq, Repr, Inhabited

structure Pkt where
  toi : Nat
  closeObject : Bool
  closeSession : Bool
  fdtId : Option Nat           -- EXT_FDT instance id (parser masks it to 20 bits), TOI 0 only
  sct : Option Int             -- `get_sender_current_time`: `Ok(Some t)`; errors / absent = none
  fti : Option Fti
  pid : Option (Nat × Nat)     -- `get_fec_inline_payload_id`: (sbn, esi); none = `Err`
  plen : Nat                   -- payload length
  dlen : Nat                   -- length of the whole datagram (`pkt.data.len()`)
  /-- EXT_CENC (`pkt.cenc`: 0 null, 1 zlib, 2 deflate, 3 gzip), read by `ObjectReceiver::push` -/
  cenc : Option Nat := none
  /-- the datagram itself (`pkt.data`), for object implementations that look at payload bytes; the
      session level never reads it -/
  raw : List Nat := []
  deriving DecidableEq, Repr, Inhabited

/-- field ranges guaranteed by `parse_alc_pkt` / `parse_ext_fdt` / `parse_sct` -/
def Pkt.WF (p : Pkt) : Prop :=
  (∀ i, p.fdtId = some i → i < 2 ^ 20) ∧
  (∀ t, p.sct = some t → 0 ≤ t ∧ t < 4294967296 * 1000000)

/-! ## the object interface -/

inductive ObjState where
  | receiving | completed | interrupted | error
  deriving DecidableEq, Repr, Inhabited

/-- calls made on an `ObjectWriter(Builder)` by one object -/
inductive WEv where
  | new (cc : CacheControl) | opened
  | write (sbn len : Nat)
  | complete | error | interrupted
  deriving DecidableEq, Repr, Inhabited

/-- The public surface of `ObjectReceiver` used by `Receiver` / `FdtReceiver`. -/
structure ObjIface (σ : Type) where
  /-- `ObjectReceiver::new(.., toi, .., max_size_allocated, ..)` -/
  new : (toi : Nat) → (maxCache : Nat) → σ
  /-- `push(pkt, now)`; the writer calls it caused, in order -/
  push : σ → Pkt → σ × List WEv
  /-- `attach_fdt(fdt_instance_id, fdt, now)` → (new state, success, writer calls) -/
  attachFdt : σ → Nat → FdtAbs → σ × Bool × List WEv
  /-- field `state` -/
  state : σ → ObjState
  /-- field `cache_control` -/
  cacheControl : σ → Option CacheControl
  /-- `Drop for ObjectReceiver`: writer calls made when the object is destroyed -/
  drop : σ → List WEv

/-! ## FdtReceiver -/

inductive FdtState where
  | receiving | complete | error | expired
  deriving DecidableEq, Repr, Inhabited

structure FdtRecv (σ : Type) where
  fdtId : Nat
  obj : Option σ
  /-- `inner.state` -/
  st : FdtState
  /-- `inner.expires` -/
  expires : Option Int
  /-- `inner.fdt` (= what `fdt_instance()` returns; the lazily cloned copy cannot differ because an
      instance is never pushed again once it left `fdt_receivers`) -/
  inst : Option FdtAbs
  /-- `String::from_utf8(inner.data).ok().is_some()` as of the last `complete` -/
  utf8 : Bool
  /-- `sender_current_time_offset` (µs) -/
  offset : Option Nat
  /-- `sender_current_time_late` -/
  late : Bool
  /-- `enable_expired_check` -/
  check : Bool
  /-- `meta.is_some()` -/
  hasMeta : Bool
  /-- `inner.data.len()`: every `FdtWriter::write` appends, up to `maxFdtSize` (MAX_FDT_SIZE) -/
  bytes : Nat
  /-- `first_fti`: FEC OTI and transfer length announced by the first packet pushed to this instance -/
  fti : Option Fti

variable {σ : Type}

def FdtRecv.new (I : ObjIface σ) (fdtId : Nat) (check : Bool) : FdtRecv σ :=
  { fdtId, obj := some (I.new 0 (1024 * 1024)), st := .receiving, expires := none, inst := none,
    utf8 := false, offset := none, late := true, check, hasMeta := false, bytes := 0, fti := none }

/-- `MAX_FDT_SIZE` (fdtreceiver.rs, repair 2037586): the FDT writer refuses to grow beyond it -/
def maxFdtSize : Nat := 16 * 1024 * 1024

/-- the calls the inner object makes on its `FdtWriter` change `inner` -/
def FdtRecv.applyWEv (ans : FdtAns) (f : FdtRecv σ) : WEv → FdtRecv σ
  | .complete =>
    -- a writer that refused a write (below) was told `error` by its object, which then stops: nothing
    -- the object model (whose writer never fails) still emits in this call counts
    if f.st = .error then f else
    match ans with
    | .ok fdt u => { f with expires := fdt.writerExpires, inst := some fdt, st := .complete, utf8 := u }
    | .err => { f with st := .error }
  | .error => { f with st := .error }
  | .interrupted => { f with st := .error }
  | .write _ len =>
    -- `FdtWriter::write`: `Err` when the document would exceed MAX_FDT_SIZE; the object ends in error,
    -- `push_fdt_obj` returns `Err` and drops the instance (9bde117)
    if f.bytes + len > maxFdtSize then { f with st := .error } else { f with bytes := f.bytes + len }
  | _ => f

def FdtRecv.applyWEvs (ans : FdtAns) (f : FdtRecv σ) (evs : List WEv) : FdtRecv σ :=
  evs.foldl (FdtRecv.applyWEv ans) f

/-- the EXT_TIME part of `FdtReceiver::push` -/
def FdtRecv.observeSct (f : FdtRecv σ) (sct : Option Int) (now : Int) : FdtRecv σ :=
  match sct with
  | some res =>
    if res < now then { f with late := true, offset := some (now - res).toNat }
    else { f with late := false, offset := some (res - now).toNat }
  | none => f

/-- head of `FdtReceiver::push`: `if self.first_fti.is_none() { self.first_fti = pkt_fti(pkt) }` -/
def FdtRecv.noteFti (f : FdtRecv σ) (v : Option Fti) : FdtRecv σ :=
  if f.fti.isNone then { f with fti := v } else f

/-- `FdtReceiver::fti_conflicts`: the packet announces another FEC OTI / transfer length -/
def FdtRecv.ftiConflicts (f : FdtRecv σ) (p : Pkt) : Bool :=
  -- `first_fti : (fec_encoding_id, maximum_source_block_length, encoding_symbol_length, transfer_length)`
  match f.fti, p.fti with
  | some a, some b => (a.oti.fec, a.oti.msbl, a.oti.esl, a.len) != (b.oti.fec, b.oti.msbl, b.oti.esl, b.len)
  | _, _ => false

/-- `FdtReceiver::push` (after the `first_fti` bookkeeping, see `fdtEntry`) -/
def FdtRecv.push (I : ObjIface σ) (f : FdtRecv σ) (p : Pkt) (now : Int) (ans : FdtAns) : FdtRecv σ :=
  let f := f.observeSct p.sct now
  match f.obj with
  | none => f
  | some o =>
    let (o', evs) := I.push o p
    let f := f.applyWEvs ans evs
    match I.state o' with
    | .receiving => { f with obj := some o' }
    | .completed =>
      -- `self.meta = Some(..); self.obj = None` (dropping the object may call the writer)
      let f := { f with hasMeta := true, obj := none }
      f.applyWEvs ans (I.drop o')
    | .interrupted => { f with obj := some o', st := .error }
    | .error => { f with obj := some o', st := .error }

/-- `get_server_time` -/
def FdtRecv.serverTime (f : FdtRecv σ) (now : Int) : Rs Int :=
  match f.offset with
  | some off => if f.late then sysSub now off else sysAdd now off
  | none => .ok now

/-- `is_expired` -/
def FdtRecv.isExpired (f : FdtRecv σ) (now : Int) : Rs Bool :=
  match f.expires with
  | none => .ok true
  | some e =>
    match f.serverTime now with
    | .error w => .error w
    | .ok t => .ok (decide (t > e))

/-- `update_expired_state` -/
def FdtRecv.updateExpired (f : FdtRecv σ) (now : Int) : Rs (FdtRecv σ) :=
  if f.st ≠ .complete then .ok f else
  if f.check then
    match f.isExpired now with
    | .error w => .error w
    | .ok true => .ok { f with st := .expired }
    | .ok false => .ok f
  else .ok f

/-! ## Receiver -/

structure Config where
  maxObjectsError : Nat
  /-- `session_timeout.is_some()` -/
  sessionTimeout : Bool
  /-- `object_timeout.is_some()` -/
  objectTimeout : Bool
  /-- `object_max_cache_size.unwrap_or(10 MiB)` -/
  maxCache : Nat
  receiveOnce : Bool
  expCheck : Bool
  deriving DecidableEq, Repr, Inhabited

inductive Res where
  | ok | err
  deriving DecidableEq, Repr, Inhabited

/-- observable / ghost events of one receiver call -/
inductive Ev where
  /-- a writer call made by the object of this TOI -/
  | w (toi : Nat) (e : WEv)
  /-- ghost: `attach_fdt(fdtId, ..)` on the object of this TOI returned `true` -/
  | attach (toi : Nat) (fdtId : Nat)
  /-- `ObjectWriterBuilder::fdt_received` -/
  | fdtReceived (fdtId : Nat)
  /-- `ObjectWriterBuilder::update_cache_control` -/
  | updateCc (toi : Nat) (cc : CacheControl)
  deriving DecidableEq, Repr, Inhabited

structure State (σ : Type) where
  cfg : Config
  objects : List (Nat × σ)
  completed : List (Nat × CacheControl)
  errors : List Nat
  fdtReceivers : List (Nat × FdtRecv σ)
  fdtCurrent : List (FdtRecv σ)
  closedImminent : Bool

def State.init (cfg : Config) : State σ :=
  { cfg, objects := [], completed := [], errors := [], fdtReceivers := [], fdtCurrent := [],
    closedImminent := false }

def wevs (toi : Nat) (l : List WEv) : List Ev := l.map (Ev.w toi)

/-- `self.objects.remove(&toi)`: the removed box is dropped -/
def removeObject (I : ObjIface σ) (s : State σ) (toi : Nat) : State σ × List Ev :=
  match alookup toi s.objects with
  | none => (s, [])
  | some o => ({ s with objects := aerase toi s.objects }, wevs toi (I.drop o))

/-- `gc_object_error`; the fuel is the length of the list (each iteration pops one element) -/
def gcObjectError (I : ObjIface σ) : Nat → State σ → State σ × List Ev
  | 0, s => (s, [])
  | fuel + 1, s =>
    if s.errors.length > s.cfg.maxObjectsError then
      match s.errors with
      | [] => (s, [])            -- `pop_first().unwrap()`: unreachable, length > max ≥ 0
      | toi :: rest =>
        let (s1, e1) := removeObject I { s with errors := rest } toi
        let (s2, e2) := gcObjectError I fuel s1
        (s2, e1 ++ e2)
    else (s, [])

/-- `check_object_state` -/
def checkObjectState (I : ObjIface σ) (s : State σ) (toi : Nat) : State σ × List Ev :=
  match alookup toi s.objects with
  | none => (s, [])
  | some o =>
    match I.state o with
    | .receiving => (s, [])
    | .completed =>
      let s1 :=
        if I.cacheControl o ≠ some .noCache then
          { s with completed := ainsert toi ((I.cacheControl o).getD .noCache) s.completed }
        else s
      removeObject I s1 toi
    | .interrupted | .error =>
      let s1 := { s with errors := sinsert toi s.errors }
      let (s2, e2) := gcObjectError I s1.errors.length s1
      let (s3, e3) := removeObject I s2 toi
      (s3, e2 ++ e3)

def checkObjectStates (I : ObjIface σ) : State σ → List Nat → State σ × List Ev
  | s, [] => (s, [])
  | s, t :: ts =>
    let (s1, e1) := checkObjectState I s t
    let (s2, e2) := checkObjectStates I s1 ts
    (s2, e1 ++ e2)

/-- the loop of `attach_latest_fdt_to_objects` over `self.objects` -/
def attachAll (I : ObjIface σ) (fdtId : Nat) (inst : FdtAbs) :
    List (Nat × σ) → List (Nat × σ) × List Nat × List Ev
  | [] => ([], [], [])
  | (toi, o) :: r =>
    let (o', ok, evs) := I.attachFdt o fdtId inst
    let (r', succ, evr) := attachAll I fdtId inst r
    ((toi, o') :: r',
     (if ok then toi :: succ else succ),
     wevs toi evs ++ (if ok then [Ev.attach toi fdtId] else []) ++ evr)

/-- `attach_latest_fdt_to_objects` -/
def attachLatest (I : ObjIface σ) (s : State σ) : State σ × List Ev :=
  match s.fdtCurrent with
  | [] => (s, [])
  | f :: _ =>
    match f.inst with
    | none => (s, [])
    | some inst =>
      let (objs, succ, evs) := attachAll I f.fdtId inst s.objects
      let (s2, e2) := checkObjectStates I { s with objects := objs } succ
      (s2, evs ++ e2)

/-- `file.toi.parse().unwrap_or(0)` -/
def FileAbs.toiParsed (x : FileAbs) : Nat := (parseUInt 128 x.toi).getD 0

/-- `gc_object_completed` -/
def gcObjectCompleted (s : State σ) : State σ :=
  match s.fdtCurrent with
  | [] => s
  | f :: _ =>
    match f.inst with
    | none => s
    | some inst =>
      match inst.files with
      | none => s
      | some files =>
        let tois := files.map FileAbs.toiParsed
        { s with completed := s.completed.filter (fun c => tois.contains c.1) }

/-- the loop of `update_expiration_date_of_completed_objects_using_latest_fdt` -/
def updateCcLoop (fdtExp : Option Int) :
    List FileAbs → List (Nat × CacheControl) → List (Nat × CacheControl) × List Ev
  | [], c => (c, [])
  | x :: xs, c =>
    let toi := x.toiParsed
    let cc := x.cacheControl fdtExp
    match alookup toi c with
    | some old =>
      if old.shouldUpdate cc then
        let (c', ev) := updateCcLoop fdtExp xs (ainsert toi cc c)
        (c', Ev.updateCc toi cc :: ev)
      else updateCcLoop fdtExp xs c
    | none => updateCcLoop fdtExp xs c

def updateCompletedCc (s : State σ) : State σ × List Ev :=
  match s.fdtCurrent with
  | [] => (s, [])
  | f :: _ =>
    match f.inst with
    | none => (s, [])
    | some inst =>
      match inst.files with
      | none => (s, [])
      | some files =>
        let (c, ev) := updateCcLoop inst.expirationDate files s.completed
        ({ s with completed := c }, ev)

/-- scan of `create_obj` over `fdt_current` (newest first): every visited instance gets
    `update_expired_state(now)`; attach to the first `Complete` one that accepts -/
def createScan (I : ObjIface σ) (toi : Nat) (now : Int) :
    σ → List (FdtRecv σ) → Rs (σ × List (FdtRecv σ) × List Ev)
  | o, [] => .ok (o, [], [])
  | o, f :: r =>
    match f.updateExpired now with
    | .error w => .error w
    | .ok f' =>
      let att : Option (σ × Bool × List WEv) :=
        if f'.st = .complete then
          match f'.inst with
          | some inst => some (I.attachFdt o f'.fdtId inst)
          | none => none
        else none
      match att with
      | some (o', true, evs) => .ok (o', f' :: r, wevs toi evs ++ [Ev.attach toi f'.fdtId])
      | some (o', false, evs) =>
        match createScan I toi now o' r with
        | .error w => .error w
        | .ok (o'', r', ev') => .ok (o'', f' :: r', wevs toi evs ++ ev')
      | none =>
        match createScan I toi now o r with
        | .error w => .error w
        | .ok (o'', r', ev') => .ok (o'', f' :: r', ev')

/-- `create_obj` -/
def createObj (I : ObjIface σ) (s : State σ) (toi : Nat) (now : Int) : Rs (State σ × List Ev) :=
  match createScan I toi now (I.new toi s.cfg.maxCache) s.fdtCurrent with
  | .error w => .error w
  | .ok (o, cur, evs) =>
    .ok ({ s with fdtCurrent := cur, objects := ainsert toi o s.objects }, evs)

/-- head of `push_obj`, `objects_completed` gate: `inr r` = return `r`, `inl s` = go on -/
def gateCompleted (s : State σ) (p : Pkt) : State σ ⊕ Res :=
  if (alookup p.toi s.completed).isSome then
    if s.cfg.receiveOnce then .inr .ok else
    match p.pid with
    | none => .inr .err
    | some (sbn, esi) =>
      if sbn = 0 ∧ esi = 0 then .inl { s with completed := aerase p.toi s.completed }
      else .inr .ok
  else .inl s

/-- head of `push_obj`, `objects_error` gate -/
def gateError (s : State σ) (p : Pkt) : State σ ⊕ Res :=
  if s.errors.contains p.toi then
    match p.pid with
    | none => .inr .err
    | some (sbn, esi) =>
      if sbn = 0 ∧ esi = 0 then .inl { s with errors := s.errors.filter (· ≠ p.toi) }
      else .inr .ok
  else .inl s

/-- rest of `push_obj`: create the object if needed, push, check its state -/
def pushObjCore (I : ObjIface σ) (s : State σ) (p : Pkt) (now : Int) : Rs (State σ × Res × List Ev) :=
  let created : Rs (State σ × List Ev) :=
    if (alookup p.toi s.objects).isNone then createObj I s p.toi now else .ok (s, [])
  match created with
  | .error w => .error w
  | .ok (s, e0) =>
    match alookup p.toi s.objects with
    | none => .ok (s, .err, e0)        -- "Bug ? Object not found"
    | some o =>
      let (o', evs) := I.push o p
      let s1 := { s with objects := ainsert p.toi o' s.objects }
      let (s2, e2) := checkObjectState I s1 p.toi
      .ok (s2, .ok, e0 ++ wevs p.toi evs ++ e2)

/-- `push_obj` -/
def pushObj (I : ObjIface σ) (s : State σ) (p : Pkt) (now : Int) : Rs (State σ × Res × List Ev) :=
  match gateCompleted s p with
  | .inr r => .ok (s, r, [])
  | .inl s1 =>
    match gateError s1 p with
    | .inr r => .ok (s1, r, [])
    | .inl s2 => pushObjCore I s2 p now

/-- `u32` checked addition in `previous_fdt.fdt_id + 1` -/
def u32add (a b : Nat) : Rs Nat :=
  if a + b < 2 ^ 32 then .ok (a + b) else .error "attempt to add with overflow"

/-- `previous_fdt.fdt_id + 1 != fdt_instance_id && ..`: only a log line depends on the comparison,
    but the `u32` addition is checked -/
def prevIdCheck (cur : List (FdtRecv σ)) : Rs Unit :=
  match cur with
  | [] => .ok ()
  | prev :: _ =>
    match u32add prev.fdtId 1 with
    | .error w => .error w
    | .ok _ => .ok ()

/-- `if let Some(xml) = fdt_xml_str() { .. fdt_meta().unwrap() .. fdt_received(..) }` -/
def fdtCb (f : FdtRecv σ) (id : Nat) : Rs (List Ev) :=
  if f.utf8 then
    if f.hasMeta then .ok [Ev.fdtReceived id] else .error "called `Option::unwrap()` on a `None` value"
  else .ok []

/-- the part of `push_fdt_obj` after the instance was found `Complete` -/
def fdtCompleted (I : ObjIface σ) (s : State σ) (id : Nat) : Rs (State σ × Res × List Ev) :=
  match prevIdCheck s.fdtCurrent with
  | .error w => .error w
  | .ok _ =>
  match alookup id s.fdtReceivers with
  | none => .ok (s, .ok, [])
  | some f =>
    let s := { s with fdtReceivers := aerase id s.fdtReceivers }
    match fdtCb f id with
    | .error w => .error w
    | .ok e0 =>
      let s := { s with fdtCurrent := f :: s.fdtCurrent }
      let (s, e1) := attachLatest I s
      let s := gcObjectCompleted s
      let (s, e2) := updateCompletedCc s
      let s := if s.fdtCurrent.length > 10 then { s with fdtCurrent := s.fdtCurrent.dropLast } else s
      .ok (s, .ok, e0 ++ e1 ++ e2)

/-- `self.fdt_receivers.entry(id).or_insert(FdtReceiver::new(..))`; the instance handed on is the
    registered one with the `first_fti` bookkeeping of `FdtReceiver::push` applied (it is stored back
    only if the push happens) -/
def fdtEntry (I : ObjIface σ) (s : State σ) (id : Nat) (p : Pkt) : State σ × FdtRecv σ :=
  match alookup id s.fdtReceivers with
  | some f => (s, f.noteFti p.fti)
  | none =>
    let f := FdtRecv.new I id s.cfg.expCheck
    ({ s with fdtReceivers := ainsert id f s.fdtReceivers }, f.noteFti p.fti)

/-- head of `push_fdt_obj` (repair 282dd8d): an instance under reception whose OTI / transfer length
    the packet contradicts is dropped, the packet then starts a new instance -/
def dropConflict (s : State σ) (p : Pkt) : State σ :=
  match p.fdtId with
  | none => s
  | some id =>
    match alookup id s.fdtReceivers with
    | none => s
    | some f =>
      if f.st = .receiving ∧ f.ftiConflicts p = true then { s with fdtReceivers := aerase id s.fdtReceivers }
      else s

/-- `match fdt_receiver.state() { .. }` of `push_fdt_obj` and what follows -/
def fdtDispatch (I : ObjIface σ) (s : State σ) (id : Nat) (f : FdtRecv σ) (now : Int) :
    Rs (State σ × Res × List Ev) :=
  match f.st with
  | .receiving => .ok (s, .ok, [])
  -- repair 9bde117: a failed / already expired instance is not kept
  | .error => .ok ({ s with fdtReceivers := aerase id s.fdtReceivers }, .err, [])
  | .expired =>
    -- only for the log line: `get_server_time(now)` and two chrono conversions
    match f.serverTime now with
    | .error w => .error w
    | .ok t =>
      match chronoConv (f.expires.getD now) with
      | .error w => .error w
      | .ok _ =>
        match chronoConv t with
        | .error w => .error w
        | .ok _ => .ok ({ s with fdtReceivers := aerase id s.fdtReceivers }, .ok, [])
  | .complete => fdtCompleted I s id

/-- `push_fdt_obj` after the FTI-conflict test -/
def pushFdtObj' (I : ObjIface σ) (s : State σ) (p : Pkt) (now : Int) (ans : FdtAns) :
    Rs (State σ × Res × List Ev) :=
  match p.fdtId with
  | none =>
    if p.closeObject then .ok (s, .ok, []) else
    if p.closeSession then .ok (s, .ok, []) else
    .ok (s, .err, [])
  | some id =>
    if s.cfg.receiveOnce ∧ s.fdtCurrent.any (fun f => f.fdtId = id) then .ok (s, .ok, []) else
    let sf := fdtEntry I s id p
    if sf.2.st ≠ .receiving then .ok (sf.1, .ok, []) else
    let f := sf.2.push I p now ans
    match (if f.st = .complete then f.updateExpired now else .ok f) with
    | .error w => .error w
    | .ok f => fdtDispatch I { sf.1 with fdtReceivers := ainsert id f sf.1.fdtReceivers } id f now

/-- `push_fdt_obj` -/
def pushFdtObj (I : ObjIface σ) (s : State σ) (p : Pkt) (now : Int) (ans : FdtAns) :
    Rs (State σ × Res × List Ev) :=
  pushFdtObj' I (dropConflict s p) p now ans

/-- `Receiver::push` -/
def push (I : ObjIface σ) (s : State σ) (p : Pkt) (now : Int) (ans : FdtAns) :
    Rs (State σ × Res × List Ev) :=
  let s := if p.closeSession then { s with closedImminent := true } else s
  if p.toi = 0 then pushFdtObj I s p now ans else pushObj I s p now

/-- what `alc::parse_alc_pkt` + the TSI comparison of `push_data` made of the datagram -/
inductive Parsed where
  | reject                     -- parser returned `Err`
  | otherTsi                   -- parsed, `alc.lct.tsi != self.tsi`
  | pkt (p : Pkt)
  deriving Repr, Inhabited

/-- `Receiver::push_data` -/
def pushData (I : ObjIface σ) (s : State σ) (d : Parsed) (now : Int) (ans : FdtAns) :
    Rs (State σ × Res × List Ev) :=
  match d with
  | .reject => .ok (s, .err, [])
  | .otherTsi => .ok (s, .ok, [])
  | .pkt p => push I s p now ans

/-- `cleanup_objects`; `stale toi` = "last activity of that object is older than the time-out" -/
def removeObjects (I : ObjIface σ) : State σ → List Nat → State σ × List Ev
  | s, [] => (s, [])
  | s, t :: ts =>
    let s := { s with errors := s.errors.filter (· ≠ t) }
    let (s1, e1) := removeObject I s t
    let (s2, e2) := removeObjects I s1 ts
    (s2, e1 ++ e2)

def cleanupObjects (I : ObjIface σ) (s : State σ) (stale : Nat → Bool) : State σ × List Ev :=
  if ¬ s.cfg.objectTimeout then (s, []) else
  removeObjects I s ((akeys s.objects).filter stale)

def updateExpiredAll (now : Int) : List (Nat × FdtRecv σ) → Rs (List (Nat × FdtRecv σ))
  | [] => .ok []
  | (k, f) :: r =>
    match f.updateExpired now with
    | .error w => .error w
    | .ok f' =>
      match updateExpiredAll now r with
      | .error w => .error w
      | .ok r' => .ok ((k, f') :: r')

/-- which wall-clock time-outs have elapsed at a `cleanup` call: `obj toi` = "the last activity of
    the object `toi` is older than `object_timeout`", `fdt id` = the same for the object inside the
    unfinished FDT instance `id` -/
structure Stale where
  obj : Nat → Bool
  fdt : Nat → Bool

/-- `cleanup_fdt`: expiry is re-evaluated; `Error`/`Expired` instances are dropped; a `Receiving`
    instance is dropped when an object time-out is configured and its last packet is older than it
    (`last_activity_duration_since` is `Some` only while the inner object exists) -/
def cleanupFdt (s : State σ) (now : Int) (staleFdt : Nat → Bool) : Rs (State σ) :=
  match updateExpiredAll now s.fdtReceivers with
  | .error w => .error w
  | .ok l =>
    .ok { s with fdtReceivers := l.filter (fun kf =>
      kf.2.st = .complete ∨
      (kf.2.st = .receiving ∧ ¬ (s.cfg.objectTimeout = true ∧ kf.2.obj.isSome = true ∧ staleFdt kf.1 = true))) }

/-- `Receiver::cleanup` -/
def cleanup (I : ObjIface σ) (s : State σ) (now : Int) (stale : Stale) : Rs (State σ × List Ev) :=
  let (s1, e1) := cleanupObjects I s stale.obj
  match cleanupFdt s1 now stale.fdt with
  | .error w => .error w
  | .ok s2 => .ok (s2, e1)

/-- `Receiver::is_expired`; `elapsed` = "`last_activity.elapsed() > session_timeout`" -/
def isExpired (s : State σ) (elapsed : Bool) : Bool :=
  if ¬ s.cfg.sessionTimeout then false else elapsed

/-! ## histories -/

inductive Op where
  | data (d : Parsed) (now : Int) (ans : FdtAns)
  | cleanup (now : Int) (stale : Stale)

/-- one call; a panic leaves the receiver as it was (the harness never continues after one) -/
def step (I : ObjIface σ) (s : State σ) : Op → Rs (State σ × Res × List Ev)
  | .data d now ans => pushData I s d now ans
  | .cleanup now stale =>
    match cleanup I s now stale with
    | .error w => .error w
    | .ok (s', ev) => .ok (s', .ok, ev)

/-- run a history; `none` as soon as a call panics -/
def run (I : ObjIface σ) : State σ → List Op → Option (State σ × List (Res × List Ev))
  | s, [] => some (s, [])
  | s, op :: ops =>
    match step I s op with
    | .error _ => none
    | .ok (s', r, ev) =>
      match run I s' ops with
      | none => none
      | some (s'', out) => some (s'', (r, ev) :: out)

/-- receiver time of a call -/
def Op.now : Op → Int
  | .data _ now _ => now
  | .cleanup now _ => now

/-- like `run`, but keeps for every call the state after it: (call, state after, result, events) -/
def runT (I : ObjIface σ) : State σ → List Op → Option (List (Op × State σ × Res × List Ev))
  | _, [] => some []
  | s, op :: ops =>
    match step I s op with
    | .error _ => none
    | .ok (s', r, ev) =>
      match runT I s' ops with
      | none => none
      | some t => some ((op, s', r, ev) :: t)

end Flute.Recv
