import FluteModel.Sched
/-
  `Sender::read` with the pacing tick the sender computes ITSELF.

  In `FluteModel/Sched.lean` the tick of a transfer that starts during a `read` is looked up in a table passed to
  `read` (`ticks`; every theorem of C11-C14 quantifies over all tables - it used to be an input read off the real
  `Duration::div_f64`).  Since /repo 9d73d78 (`TransferInfo::packet_tick`: exact integer division of the nanoseconds) the
  tick is a function of the object and of `now`: `Sched.tickOf`.  `readM` is `read` on the table of exactly these
  values for every object of the sender, `runM` a history in which every `read` is a `readM` (the tick tables written
  in the operations are ignored).  This is what the driver executes (`Drv/Sched.lean`), and
  `Lemmas/SchedTick.lean` proves that every `StartTransfer` event of such a history carries `tickOf` of its object
  (`start_tick_is_tickOf`), so that `Props.C14.pacing_lower_bound_model` speaks about the model's own tick.
-/
namespace Flute.Sched

/-- the tick `TransferInfo::init` would compute at `now` for every object the sender knows -/
def ticksAll (s : State) (now : Nat) : List (Nat × Nat) := s.objs.map fun f => (f.key, tickOf f now)

/-- `Sender::read(now)` -/
def readM (s : State) (now : Nat) : State × Out := read s now (ticksAll s now)

/-- one API call; the tick table of a `read` operation is ignored -/
def stepM (s : State) : Op → State
  | .read now _ => (readM s now).1
  | op => step s op

def runM (s : State) (ops : List Op) : State := ops.foldl stepM s

/-- the same history with the model's own tick tables written into the `read` operations -/
def retick : State → List Op → List Op
  | _, [] => []
  | s, .read now tk :: rest => .read now (ticksAll s now) :: retick (stepM s (.read now tk)) rest
  | s, op :: rest => op :: retick (stepM s op) rest

end Flute.Sched
