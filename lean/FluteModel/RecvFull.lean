import FluteModel.Recv
import FluteModel.RecvMini
import FluteModel.ObjRecv
import FluteModel.Lemmas.ObjRecvAttach
/-
  The full object model `ObjRecv` (engine `orecv`) as an `ObjIface` of the session-level receiver,
  so that `Recv` can be run - and its theorems instantiated - with the real object model instead of
  the small `Mini` object.  Executable; used by the `recv` driver next to `Mini` (both instantiations
  must print the same line, and that line must equal the real receiver's).

  * the object inside an `FdtReceiver` (TOI 0) is an `ObjRecv` object too, through `push0` (see `fdtEntry0`).
  * Writer side: builder answers `StoreObject`, `open`/`write` succeed, MD5 check off (what the
    recording writer of the `recv` engine does).  Codecs other than No-Code and content encodings are
    parameters of `ObjRecv`; here they are instantiated with "nothing decodable" (the `recv` engine's
    modelled stream is No-Code / cenc null; other sessions are oracle-only `fz` ops).
  * A fault of `ObjRecv` (`panic` / `hang`) freezes the object and is flagged (`fault`).
-/
namespace Flute.Recv.Full
open Flute Flute.Recv

def schemeOf (fec : Nat) : FecDec.Scheme :=
  if fec = 1 then .raptor else if fec = 2 then .rs2m else if fec = 5 then .rs28
  else if fec = 6 then .raptorQ else if fec = 129 then .rs28us else .noCode

def ssOf : Option (Nat × Nat × Nat × Nat) → Option FecDec.SS
  | none => none
  | some (0, m, g, _) => some (.rs m g)
  | some (1, z, n, al) => some (.rq z n al)
  | some (_, z, n, al) => some (.r z n al)

def cencOf (c : Nat) : ObjRecv.Cenc :=
  if c = 0 then .null else if c = 1 then .zlib else if c = 2 then .deflate else .gzip

def otiOf (o : Recv.Oti) : FecDec.Oti :=
  { scheme := schemeOf o.fec, e := o.esl, b := o.msbl, parity := o.parity, ss := ssOf o.ss }

def codec : FecDec.Codec where
  rsNewOk _ _ := false
  rsReconstruct _ _ _ := none
  rqData _ _ _ _ _ := none
  rFull _ _ _ := false
  rDecode _ _ _ := none

/-- the DEGENERATE parameter set of the `recv` driver (No-Code only, every inflate answers `Err`, writer never fails): the
    adapter below is generic in the parameters; this value is what the driver executes and the non-vacuity instance -/
def params0 : ObjRecv.Params where
  codec := codec
  dzRead _ _ _ := { take := 0, res := .err }
  dzFuel := fun _ => 1000
  md5 _ := ""
  env := { plan := fun _ => { ans := .store, md5Check := false, openOk := true, writeOk := fun _ => true } }

/-- the parsed packet as `ObjectReceiver` reads it, from the session-level packet and its bytes -/
def toPkt (p : Recv.Pkt) : ObjRecv.Pkt :=
  let cp := schemeOf ((p.raw.drop 3).headD 0)
  let pidLen := if cp = .rs28us then 8 else 4
  { toi := p.toi, cp := cp, close := p.closeObject,
    fti := p.fti.map (fun f => (otiOf f.oti, f.len)),
    cenc := p.cenc.map cencOf,
    pid := (p.raw.drop (p.dlen - p.plen - pidLen)).take pidLen,
    payload := p.raw.drop (p.dlen - p.plen),
    dataLen := p.dlen }

-- the parameters of the object model: codecs, decompressor, writer environment
variable (P : ObjRecv.Params)

structure Obj where
  st : ObjRecv.St
  cc : Option CacheControl := none
  fault : Bool := false
  /-- the object state is one that `new`/`push`/`attach_fdt` can produce: carries the invariants of
      agent orecv's model (`Lemmas/ObjRecvAttach.lean`); a proof, erased at run time -/
  reach : ObjRecv.Reach P st

def stateOf : ObjRecv.OState → ObjState
  | .receiving => .receiving
  | .completed => .completed
  | .interrupted => .interrupted
  | .error => .error

def wev (cc : Option CacheControl) : ObjRecv.WCall → WEv
  | .new _ _ => .new (cc.getD .noCache)
  | .open _ => .opened
  | .write sbn data _ => .write sbn data.length
  | .complete => .complete
  | .error => .error
  | .interrupted => .interrupted

/-- the calls made between two states (`out` is most recent first) -/
def newCalls (cc : Option CacheControl) (before after : ObjRecv.St) : List WEv :=
  ((after.out.take (after.out.length - before.out.length)).reverse).map (wev cc)

def new (toi maxCache : Nat) : Obj P :=
  { st := ObjRecv.St.new toi maxCache, reach := ObjRecv.reach_new P toi maxCache }

/-- `ObjectReceiver::push` for a packet of TOI ≠ 0 -/
def pushN (o : Obj P) (p : Recv.Pkt) : Obj P × List WEv :=
  if o.fault then (o, []) else
  match h : ObjRecv.push P o.st (toPkt p) with
  | .error _ => ({ o with fault := true }, [])
  | .ok st' =>
    ({ o with st := st', reach := ObjRecv.reach_push P o.st (toPkt p) o.reach h }, newCalls o.cc o.st st')

/-- The File entry that stands for EXT_FTI / EXT_CENC of an FDT packet.  `ObjRecv.push` leaves out the
    two TOI-0-only branches of `ObjectReceiver::push` - `set_fdt_id_from_pkt` (the FDT object takes its
    instance id from EXT_FDT, which lets `init_object_writer` open the writer without any `attach_fdt`)
    and `set_cenc_from_pkt` forcing `Null` when there is no EXT_CENC.  Agent orecv's adapter: on the
    packet that brings the FTI, `attachFdt` with this entry sets fdt id / cenc / OTI / transfer length
    exactly as those branches + `set_oti_from_pkt` do, initialises blocks and writer and replays the
    cache; the `push` that follows repeats the (idempotent) prefix and pushes the packet to its block.
    Content-Length and MD5 are `None` for TOI 0 in the code.  (Difference left: the code fixes `cenc` on
    the FIRST packet even when that one has no EXT_FTI.) -/
def fdtEntry0 (q : ObjRecv.Pkt) : Option ObjRecv.FileEntry :=
  q.fti.map (fun x => { oti := some x.1, tl := x.2, cl := none, cenc := q.cenc.getD .null, md5 := none,
                        noCache := false })

/-- `ObjectReceiver::push` for a packet of TOI 0 (the object inside an `FdtReceiver`) -/
def push0 (o : Obj P) (p : Recv.Pkt) : Obj P × List WEv :=
  if o.fault then (o, []) else
  match h : ObjRecv.attachFdt P o.st (p.fdtId.getD 0) (fdtEntry0 (toPkt p)) with
  | .error _ => ({ o with fault := true }, [])
  | .ok (st1, _) =>
    match h2 : ObjRecv.push P st1 (toPkt p) with
    | .error _ => ({ o with fault := true }, [])
    | .ok st' =>
      ({ o with st := st',
                reach := ObjRecv.reach_push P st1 (toPkt p)
                  (ObjRecv.reach_attach P o.st _ _ o.reach h) h2 },
       newCalls o.cc o.st st')

def push (o : Obj P) (p : Recv.Pkt) : Obj P × List WEv :=
  if p.toi = 0 then push0 P o p else pushN P o p

/-- the FDT File entry as `ObjectReceiver::attach_fdt` reads it.  STATED GAP: `md5 := none` - the session
    model's `FileAbs` does not carry `Content-MD5` (the engine's hook reports only its presence), so for a
    parameter set `P` whose writer enables the MD5 check the digest comparison of the code is NOT
    represented here: every `*_full_object_model` / whole-call statement is about receivers whose FDT
    File entries carry no Content-MD5, or whose writer does not check it (the `recv` engine's writer:
    `enable_md5_check() = false`).  Totality is unaffected (orecv's `tinv_attachFdt` holds for every
    entry); what is lost is the complete-vs-error decision on a digest mismatch. -/
def entryOf (x : FileAbs) (cc : CacheControl) : ObjRecv.FileEntry :=
  { oti := x.oti.map otiOf, tl := x.tlen, cl := x.contentLength, cenc := cencOf x.cenc, md5 := none,
    noCache := decide (cc = .noCache) }

def attachFdt (o : Obj P) (id : Nat) (fdt : FdtAbs) : Obj P × Bool × List WEv :=
  if o.fault then (o, false, []) else
  let file := fdt.getFile o.st.toi
  let cc := file.map (fun x => x.cacheControl fdt.expirationDate)
  match h : ObjRecv.attachFdt P o.st id (file.map (fun x => entryOf x (x.cacheControl fdt.expirationDate))) with
  | .error _ => ({ o with fault := true }, false, [])
  | .ok (st', ok) =>
    let cc' := if ok then cc else o.cc
    ({ o with st := st', cc := cc', reach := ObjRecv.reach_attach P o.st id _ o.reach h }, ok, newCalls cc' o.st st')

def drop (o : Obj P) : List WEv := newCalls o.cc o.st (ObjRecv.drop o.st)

/-- every object, the one inside an `FdtReceiver` (TOI 0) included, is an `ObjRecv` object (`push0`);
    the `Mini` summand is kept so that both instantiations share the type (never constructed by `iface`) -/
abbrev Any := Mini.Obj ⊕ Obj P

def iface : ObjIface (Any P) where
  new toi mc := .inr (new P toi mc)
  push o p := match o with
    | .inl m => let r := Mini.push m p; (.inl r.1, r.2)
    | .inr f => let r := push P f p; (.inr r.1, r.2)
  attachFdt o id fdt := match o with
    | .inl m => let r := Mini.attachFdt m id fdt; (.inl r.1, r.2.1, r.2.2)
    | .inr f => let r := attachFdt P f id fdt; (.inr r.1, r.2.1, r.2.2)
  state o := match o with
    | .inl m => m.st
    | .inr f => stateOf f.st.state
  cacheControl o := match o with
    | .inl m => m.cc
    | .inr f => f.cc
  drop o := match o with
    | .inl m => Mini.drop m
    | .inr f => drop P f

end Flute.Recv.Full
