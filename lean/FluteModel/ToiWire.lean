/-
  The TOI field of the LCT header, and nothing else: how `push_lct_header` (src/common/lct.rs:252-305)
  chooses its width (O and H flags, `nb_bytes_128`) and writes it, and how `parse_lct_header` reads it
  back.  (The complete header is modelled by `FluteModel/Lct.lean` for C06; this file is independent
  of it so that C15 does not depend on another component.)  No imports outside FluteModel.
-/
import FluteModel.Prim
namespace Flute.ToiWire

/-- `nb_bytes_128(v, min)`: position of the highest non-zero 16-bit group, in bytes -/
def nbBytes128 (v min : Nat) : Nat :=
  if v / 2 ^ 112 % 2 ^ 16 ≠ 0 then 16
  else if v / 2 ^ 96 % 2 ^ 16 ≠ 0 then 14
  else if v / 2 ^ 80 % 2 ^ 16 ≠ 0 then 12
  else if v / 2 ^ 64 % 2 ^ 16 ≠ 0 then 10
  else if v / 2 ^ 48 % 2 ^ 16 ≠ 0 then 8
  else if v / 2 ^ 32 % 2 ^ 16 ≠ 0 then 6
  else if v / 2 ^ 16 % 2 ^ 16 ≠ 0 then 4
  else if v % 2 ^ 16 ≠ 0 then 2
  else min

/-- `nb_bytes_64(n, min)` (only needed because the H flag is shared with the TSI) -/
def nbBytes64 (n min : Nat) : Nat :=
  if n / 2 ^ 48 % 2 ^ 16 ≠ 0 then 8
  else if n / 2 ^ 32 % 2 ^ 16 ≠ 0 then 6
  else if n / 2 ^ 16 % 2 ^ 16 ≠ 0 then 4
  else if n % 2 ^ 16 ≠ 0 then 2
  else min

/-- the last `n` bytes of `v.to_be_bytes()`, most significant first -/
def beBytes : Nat → Nat → List Nat
  | 0, _ => []
  | n + 1, v => (v / 256 ^ n % 256) :: beBytes n v

/-- `from_be_bytes` -/
def fromBE (bs : List Nat) : Nat := bs.foldl (fun acc b => acc * 256 + b) 0

/-- what the header says about the TOI: the O and H flags and the field bytes -/
structure Field where
  o : Nat
  h : Nat
  bytes : List Nat
  deriving DecidableEq, Repr

/-- H flag contributed by the TSI: `(tsi_size & 2) >> 1` -/
def hTsi (tsi : Nat) : Nat := nbBytes64 tsi 2 / 2 % 2

/-- TOI part of `push_lct_header`:
    `toi_size = nb_bytes_128(toi, 2)`, `h = h_tsi | h_toi`, `o = (toi_size >> 2) & 3`,
    field = `toi.to_be_bytes()[16 - ((o << 2) + (h << 1)) ..]` -/
def encode (toi tsi : Nat) : Field :=
  let toiSize := nbBytes128 toi 2
  let hToi := toiSize / 2 % 2
  let h := max (hTsi tsi) hToi
  let o := toiSize / 4 % 4
  { o := o, h := h, bytes := (beBytes 16 toi).drop (16 - (o * 4 + h * 2)) }

/-- TOI part of `parse_lct_header`: the `(o << 2) + (h << 1)` field bytes are copied right-aligned
    into `[0u8; 16]`, then `u128::from_be_bytes` -/
def decode (f : Field) : Nat :=
  fromBE (List.replicate (16 - f.bytes.length) 0 ++ f.bytes)

end Flute.ToiWire
