import FluteModel.ObjRecv
/-
  The IDEAL TABLE DECOMPRESSOR of the `orecv` driver, as a model file (core only): a streaming decompressor that knows the case's
  table `compressed stream |-> content` (ops `zmap`), hands out the content once the whole stream has been consumed and answers
  `WouldBlock` on a proper prefix, `Err` otherwise; a `bad` entry fails its trailer check after the last content byte.
  `idealFuel` is the inner fuel the driver passes to `decoder_read`: the output still obtainable (agent path's `idealMu`) + 1.
  Kept in namespace `Flute.Drv.Orecv` (the names other files use).
-/
namespace Flute.Drv.Orecv
open Flute Flute.FecDec Flute.ObjRecv

def isPrefix : Bytes → Bytes → Bool
  | [], _ => true
  | _ :: _, [] => false
  | a :: r, b :: s => a == b && isPrefix r s

/-- ideal decompressor: state after a call history = (consumed input, number of output bytes produced).  A table entry
    `(compressed, content, bad)` with `bad = true` is a stream whose trailer check (gzip CRC32 / zlib Adler-32) fails: all of
    `content` is handed out, the read after the last content byte answers `Err`. -/
def idealStep (ztab : List (Bytes × Bytes × Bool)) (stt : Bytes × Nat) (c : DzCall) : (Bytes × Nat) × DzOut :=
  let (consumed, produced) := stt
  let consumed' := consumed ++ c.avail
  match ztab.find? (·.1 == consumed') with
  | some (_, content, bad) =>
    let out := (content.drop produced).take c.buflen
    if bad ∧ out.isEmpty ∧ c.buflen != 0 then ((consumed', produced), { take := c.avail.length, res := .err })
    else ((consumed', produced + out.length), { take := c.avail.length, res := .data out })
  | none =>
    if ztab.any (fun e => isPrefix consumed' e.1) ∧ !c.fin then
      ((consumed', produced), { take := c.avail.length, res := .wouldBlock })
    else ((consumed', produced), { take := c.avail.length, res := .err })

def idealDz (ztab : List (Bytes × Bytes × Bool)) (cenc : Cenc) (hist : List DzCall) (c : DzCall) : DzOut :=
  -- the first call of a history is the constructor: only the gzip decoder reads (its header) at construction
  let isCtor (h : DzCall) : Bool := h.buflen == 0
  let stepC (s : Bytes × Nat) (h : DzCall) : (Bytes × Nat) × DzOut :=
    if isCtor h ∧ cenc != .gzip then (s, { take := 0, res := .wouldBlock }) else idealStep ztab s h
  let stt := hist.foldl (fun s h => (stepC s h).1) ([], 0)
  (stepC stt c).2

/-- state of the table decompressor after a call history -/
def idealSt (ztab : List (Bytes × Bytes × Bool)) (cenc : Cenc) (hist : List DzCall) : Bytes × Nat :=
  hist.foldl (fun s h =>
    ((if (h.buflen == 0) = true ∧ (cenc != .gzip) = true then (s, ({ take := 0, res := .wouldBlock } : DzOut))
      else idealStep ztab s h)).1) ([], 0)

/-- the inner fuel of one `decoder_read`: the content of the table entry matching (consumed ++ ring) minus what was handed out
    (= `Flute.Lemmas.DrainObj.idealMu`), plus one -/
def idealFuel (ztab : List (Bytes × Bytes × Bool)) (w : BW) : Nat :=
  match w.dz with
  | none => 1
  | some dz =>
    (match ztab.find? (·.1 == (idealSt ztab w.cenc dz.hist).1 ++ dz.ring) with
     | some (_, content, _) => content.length - (idealSt ztab w.cenc dz.hist).2
     | none => 0) + 1

/-! ### the table decompressor the driver runs since review batch 4: input THROUGH A BUFFERED READER, nothing consumed after the end

`flate2::read::{Gz,Zlib,Deflate}Decoder<RingBuffer>` read their input through a `BufReader` (32 KiB): it fetches from the ring only when it
is empty, and once the compressed stream has ended the decoders consume nothing more - bytes after the end of the stream stay in the
`BufReader` (what was fetched together with the end of the stream) and then in the RING, `read` answers `Ok(0)`, and `decode_write_pkt`
fails only when the ring is full twice in a row ("Decoder does not consume its input").  `idealStep` above always drains the ring and
answers `Err` on trailing bytes (kept: agent path's `idealContract` is about it).  `tableStep` follows the code: state = (consumed
stream bytes, output bytes produced, bytes fetched but not consumed); a fetch takes the whole ring content (rings of the compared runs are
smaller than the 32 KiB of the `BufReader`). -/

def tableStep (ztab : List (Bytes × Bytes × Bool)) (stt : Bytes × Nat × Bytes) (c : DzCall) : (Bytes × Nat × Bytes) × DzOut :=
  let (consumed, produced, left) := stt
  -- `BufReader::fill_buf`: fetch only when the buffer is empty
  let fetch := if left.isEmpty then c.avail else []
  let buf := left ++ fetch
  match ztab.find? (fun e => isPrefix e.1 (consumed ++ buf)) with
  | some (cmp, content, bad) =>
    -- the whole compressed stream has been fetched: `n` bytes of the buffer belong to it, the rest is never consumed
    let n := cmp.length - consumed.length
    let out := (content.drop produced).take c.buflen
    if bad ∧ out.isEmpty ∧ c.buflen != 0 then
      ((consumed ++ buf.take n, produced, buf.drop n), { take := fetch.length, res := .err })
    else ((consumed ++ buf.take n, produced + out.length, buf.drop n), { take := fetch.length, res := .data out })
  | none =>
    if ztab.any (fun e => isPrefix (consumed ++ buf) e.1) ∧ !c.fin then
      ((consumed ++ buf, produced, []), { take := fetch.length, res := .wouldBlock })
    else ((consumed ++ buf, produced, []), { take := fetch.length, res := .err })

/-- one call of the history: the first call (`buflen = 0`) is the constructor, only the gzip decoder reads (its header) there -/
def tableCall (ztab : List (Bytes × Bytes × Bool)) (cenc : Cenc) (s : Bytes × Nat × Bytes) (h : DzCall) : (Bytes × Nat × Bytes) × DzOut :=
  if (h.buflen == 0) = true ∧ (cenc != .gzip) = true then (s, { take := 0, res := .wouldBlock }) else tableStep ztab s h

/-- state of the table decompressor after a call history -/
def tableSt (ztab : List (Bytes × Bytes × Bool)) (cenc : Cenc) (hist : List DzCall) : Bytes × Nat × Bytes :=
  hist.foldl (fun s h => (tableCall ztab cenc s h).1) ([], 0, [])

def tableDz (ztab : List (Bytes × Bytes × Bool)) (cenc : Cenc) (hist : List DzCall) (c : DzCall) : DzOut :=
  (tableCall ztab cenc (tableSt ztab cenc hist) c).2

/-- the longest content of the table -/
def maxContent : List (Bytes × Bytes × Bool) → Nat
  | [] => 0
  | e :: r => max e.2.1.length (maxContent r)

/-- the inner fuel of one `decoder_read`: the output the table can still provide (longest content minus what was handed out) + 1 -/
def tableFuel (ztab : List (Bytes × Bytes × Bool)) (w : BW) : Nat :=
  match w.dz with
  | none => 1
  | some dz => (maxContent ztab - (tableSt ztab w.cenc dz.hist).2.1) + 1

end Flute.Drv.Orecv
