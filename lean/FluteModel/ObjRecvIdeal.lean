import FluteModel.ObjRecv
/-
  The IDEAL TABLE DECOMPRESSOR of the `orecv` driver, as a model file (core only): a streaming decompressor that knows the case's
  table `compressed stream |-> content` (ops `zmap`), hands out the content once the whole stream has been consumed and answers
  `WouldBlock` on a proper prefix, `Err` otherwise; a `bad` entry fails its trailer check after the last content byte.
  `idealFuel` is the inner fuel the driver passes to `decoder_read`: the output still obtainable (agent path's `idealMu`) + 1.
  Kept in namespace `Flute.Drv.Orecv` (the names other files use).
-/
namespace Flute.Drv.Orecv
open Flute Flute.FecDec Flute.ObjRecv

def isPrefix : Bytes → Bytes → Bool
  | [], _ => true
  | _ :: _, [] => false
  | a :: r, b :: s => a == b && isPrefix r s

/-- ideal decompressor: state after a call history = (consumed input, number of output bytes produced).  A table entry
    `(compressed, content, bad)` with `bad = true` is a stream whose trailer check (gzip CRC32 / zlib Adler-32) fails: all of
    `content` is handed out, the read after the last content byte answers `Err`. -/
def idealStep (ztab : List (Bytes × Bytes × Bool)) (stt : Bytes × Nat) (c : DzCall) : (Bytes × Nat) × DzOut :=
  let (consumed, produced) := stt
  let consumed' := consumed ++ c.avail
  match ztab.find? (·.1 == consumed') with
  | some (_, content, bad) =>
    let out := (content.drop produced).take c.buflen
    if bad ∧ out.isEmpty ∧ c.buflen != 0 then ((consumed', produced), { take := c.avail.length, res := .err })
    else ((consumed', produced + out.length), { take := c.avail.length, res := .data out })
  | none =>
    if ztab.any (fun e => isPrefix consumed' e.1) ∧ !c.fin then
      ((consumed', produced), { take := c.avail.length, res := .wouldBlock })
    else ((consumed', produced), { take := c.avail.length, res := .err })

def idealDz (ztab : List (Bytes × Bytes × Bool)) (cenc : Cenc) (hist : List DzCall) (c : DzCall) : DzOut :=
  -- the first call of a history is the constructor: only the gzip decoder reads (its header) at construction
  let isCtor (h : DzCall) : Bool := h.buflen == 0
  let stepC (s : Bytes × Nat) (h : DzCall) : (Bytes × Nat) × DzOut :=
    if isCtor h ∧ cenc != .gzip then (s, { take := 0, res := .wouldBlock }) else idealStep ztab s h
  let stt := hist.foldl (fun s h => (stepC s h).1) ([], 0)
  (stepC stt c).2

/-- state of the table decompressor after a call history -/
def idealSt (ztab : List (Bytes × Bytes × Bool)) (cenc : Cenc) (hist : List DzCall) : Bytes × Nat :=
  hist.foldl (fun s h =>
    ((if (h.buflen == 0) = true ∧ (cenc != .gzip) = true then (s, ({ take := 0, res := .wouldBlock } : DzOut))
      else idealStep ztab s h)).1) ([], 0)

/-- the inner fuel of one `decoder_read`: the content of the table entry matching (consumed ++ ring) minus what was handed out
    (= `Flute.Lemmas.DrainObj.idealMu`), plus one -/
def idealFuel (ztab : List (Bytes × Bytes × Bool)) (w : BW) : Nat :=
  match w.dz with
  | none => 1
  | some dz =>
    (match ztab.find? (·.1 == (idealSt ztab w.cenc dz.hist).1 ++ dz.ring) with
     | some (_, content, _) => content.length - (idealSt ztab w.cenc dz.hist).2
     | none => 0) + 1

end Flute.Drv.Orecv
