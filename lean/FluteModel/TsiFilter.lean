import FluteModel.Prim
/-
  Model of src/receiver/tsifilter.rs (TSIFilter, TSI) and of src/common/udpendpoint.rs.

  `std::collections::HashMap<K, V>` is modelled by an association list (`AL`): `get` = first match,
  `set` = replace the first match or append, `del` = drop every match.  On lists with unique keys
  (all lists built by these functions from `[]`) this is exactly `get`/`insert`/`remove`.
  Strings (addresses) are interned as `Nat` by the harness; `u64` counters are `Nat` with the dev
  profile's overflow check made explicit (`Rs`).
-/
namespace Flute

namespace AL
variable {κ ν : Type} [DecidableEq κ]

/-- `HashMap::get` -/
def get : List (κ × ν) → κ → Option ν
  | [], _ => none
  | (k', v) :: r, k => if k' = k then some v else get r k

/-- `HashMap::insert` / write through `get_mut` -/
def set : List (κ × ν) → κ → ν → List (κ × ν)
  | [], k, v => [(k, v)]
  | (k', v') :: r, k, v => if k' = k then (k', v) :: r else (k', v') :: set r k v

/-- `HashMap::remove` -/
def del : List (κ × ν) → κ → List (κ × ν)
  | [], _ => []
  | (k', v') :: r, k => if k' = k then del r k else (k', v') :: del r k

/-- `HashMap::keys` (in list order) -/
def keys (m : List (κ × ν)) : List κ := m.map (·.1)

end AL

/-- `UDPEndpoint { source_address: Option<String>, destination_group_address: String, port: u16 }` -/
structure Endpoint where
  src : Option Nat
  dst : Nat
  port : Nat
deriving DecidableEq, Repr

/-- `endpoint_no_src = endpoint.clone(); endpoint_no_src.source_address = None` -/
def Endpoint.noSrc (e : Endpoint) : Endpoint := { e with src := none }

namespace TsiFilter

/-- counted map `HashMap<K, u64>`: `match get_mut(k) { Some(a) => *a += 1, None => insert(k, 1) }` -/
def cmAdd {κ : Type} [DecidableEq κ] (m : List (κ × Nat)) (k : κ) : Rs (List (κ × Nat)) :=
  match AL.get m k with
  | some c => if c + 1 < 2 ^ 64 then .ok (AL.set m k (c + 1)) else .error "add overflow"
  | none => .ok (AL.set m k 1)

/-- `if let Some(v) = get_mut(k) { if *v > 1 { *v -= 1 } else { remove(k) } }` -/
def cmRemove {κ : Type} [DecidableEq κ] (m : List (κ × Nat)) (k : κ) : List (κ × Nat) :=
  match AL.get m k with
  | some c => if c > 1 then AL.set m k (c - 1) else AL.del m k
  | none => m

/-- `TSIFilter { tsi: HashMap<u64, TSI{endpoints: HashMap<UDPEndpoint,u64>}>, endpoint_bypass: HashMap<UDPEndpoint,u64> }` -/
structure Filter where
  tsi : List (Nat × List (Endpoint × Nat))
  bypass : List (Endpoint × Nat)
deriving Repr

/-- `TSIFilter::new` -/
def Filter.new : Filter := ⟨[], []⟩

/-- `add_endpoint_bypass` -/
def addEndpointBypass (f : Filter) (ep : Endpoint) : Rs Filter :=
  match cmAdd f.bypass ep with
  | .ok b => .ok { f with bypass := b }
  | .error w => .error w

/-- `remove_endpoint_bypass` -/
def removeEndpointBypass (f : Filter) (ep : Endpoint) : Filter :=
  { f with bypass := cmRemove f.bypass ep }

/-- `add`: `match self.tsi.get_mut(&tsi) { Some(t) => t.add(endpoint), None => insert(tsi, TSI::new(endpoint)) }` -/
def add (f : Filter) (ep : Endpoint) (tsi : Nat) : Rs Filter :=
  match AL.get f.tsi tsi with
  | some t =>
    match cmAdd t ep with
    | .ok t' => .ok { f with tsi := AL.set f.tsi tsi t' }
    | .error w => .error w
  | none => .ok { f with tsi := AL.set f.tsi tsi [(ep, 1)] }

/-- `remove`: `if let Some(t) = get_mut(&tsi) { t.remove(endpoint); if t.is_empty() { self.tsi.remove(&tsi) } }` -/
def remove (f : Filter) (ep : Endpoint) (tsi : Nat) : Filter :=
  match AL.get f.tsi tsi with
  | some t =>
    let t' := cmRemove t ep
    if t'.isEmpty then { f with tsi := AL.del f.tsi tsi } else { f with tsi := AL.set f.tsi tsi t' }
  | none => f

/-- `TSI::is_valid`: exact endpoint, else the endpoint with its source address cleared -/
def tsiIsValid (t : List (Endpoint × Nat)) (ep : Endpoint) : Bool :=
  if (AL.get t ep).isSome then true else (AL.get t ep.noSrc).isSome

/-- `TSIFilter::is_valid` -/
def isValid (f : Filter) (ep : Endpoint) (tsi : Nat) : Bool :=
  if (AL.get f.bypass ep).isSome then true else
  match AL.get f.tsi tsi with
  | some t => tsiIsValid t ep
  | none => false

/-- the four mutating operations of the filter (as called by `MultiReceiver::{add,remove}_listen_{tsi,all_tsi}`) -/
inductive FOp
  | add (ep : Endpoint) (tsi : Nat)
  | remove (ep : Endpoint) (tsi : Nat)
  | addAll (ep : Endpoint)
  | removeAll (ep : Endpoint)
deriving DecidableEq, Repr

def applyOp (f : Filter) : FOp → Rs Filter
  | .add ep tsi => add f ep tsi
  | .remove ep tsi => .ok (remove f ep tsi)
  | .addAll ep => addEndpointBypass f ep
  | .removeAll ep => .ok (removeEndpointBypass f ep)

/-- a whole history of operations; a panic (counter overflow) aborts -/
def run (f : Filter) : List FOp → Rs Filter
  | [] => .ok f
  | op :: ops =>
    match applyOp f op with
    | .ok f' => run f' ops
    | .error w => .error w

end TsiFilter
end Flute
