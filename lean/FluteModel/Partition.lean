import FluteModel.Prim
/-
  Model of src/common/partition.rs (block_partitioning, block_length), line by line,
  with Rust's checked u64 arithmetic made explicit.
-/
namespace Flute.Partition

/-- the partition quadruple `(a_large, a_small, nb_a_large, nb_blocks)` -/
abbrev Quad := Nat × Nat × Nat × Nat

/-- `block_partitioning(b, l, e)` -/
def blockPartitioning (b l e : Nat) : Rs Quad :=
  if b = 0 then .ok (0, 0, 0, 0) else
  if e = 0 then .ok (0, 0, 0, 0) else
  let t := divCeil l e
  let n := divCeil t b
  if n = 0 then .ok (0, 0, 0, 0) else
  let aLarge := divCeil t n
  let aSmall := t / n
  match u64mul aSmall n with
  | .error w => .error w
  | .ok m =>
    match u64sub t m with
    | .error w => .error w
    | .ok nbLarge => .ok (aLarge, aSmall, nbLarge, n)

/-- `block_length(a_large, a_small, nb_a_large, l, e, sbn)` -/
def blockLength (aL aS nL l e sbn : Nat) : Rs Nat :=
  match u64mul aL e with
  | .error w => .error w
  | .ok large =>
  match u64mul aS e with
  | .error w => .error w
  | .ok small =>
  if sbn + 1 < nL then .ok large else
  if sbn + 1 = nL then
    match u64mul nL large with
    | .error w => .error w
    | .ok largeSize =>
      if largeSize ≤ l then .ok large else
      match u64sub nL 1 with
      | .error w => .error w
      | .ok x =>
        match u64mul x large with
        | .error w => .error w
        | .ok y => u64sub l y
  else
    match u64mul nL large with
    | .error w => .error w
    | .ok m =>
    match u64sub l m with
    | .error w => .error w
    | .ok l' =>
    match u64sub sbn nL with
    | .error w => .error w
    | .ok sbn' =>
    match u64mul (sbn' + 1) small with
    | .error w => .error w
    | .ok smallSize =>
      if smallSize ≤ l' then .ok small else
      match u64mul sbn' small with
      | .error w => .error w
      | .ok z => u64sub l' z

/-- Sender slicing (src/sender/blockencoder.rs `read_block_buffer`): number of source symbols
    announced for block `sbn` (`block_length` there) and the byte range it covers, given the
    current content offset. Returns `(nbSymbolsOfBlock, offsetStart, offsetEnd)`. -/
def senderBlock (q : Quad) (l e sbn off : Nat) : Nat × Nat × Nat :=
  let (aL, aS, nL, _) := q
  let k := if sbn < nL then aL else aS
  let endOff := if off + k * e > l then l else off + k * e
  (k, off, endOff)

/-- sender: all blocks in order starting at offset 0, until `read_end` (offset_end == len).
    `fuel` bounds the loop (the real loop is bounded by the window logic); returns the
    list of `(k, start, end)` per sbn. -/
def senderBlocks (q : Quad) (l e : Nat) : Nat → Nat → Nat → List (Nat × Nat × Nat)
  | 0, _, _ => []
  | fuel+1, sbn, off =>
    let (k, s, en) := senderBlock q l e sbn off
    if en = l then [(k, s, en)] else (k, s, en) :: senderBlocks q l e fuel (sbn+1) en

/-- Receiver sizing (src/receiver/objectreceiver.rs `push_to_block2`): the source block length it uses for block
    `sbn` (a `u32` from the payload id) when the payload ID does not carry one:
    `match payload_id.sbn < self.nb_a_large as u32 { true => self.a_large as u32, _ => self.a_small as u32 }`
    - the three `as u32` casts truncate. -/
def receiverBlockSymbols (q : Quad) (sbn : Nat) : Nat :=
  let (aL, aS, nL, _) := q
  if sbn < nL % 2^32 then aL % 2^32 else aS % 2^32

/-- RaptorQ / Raptor: the sender writes `Z = nb_blocks` into the scheme-specific info
    (src/sender/filedesc.rs `FileDesc::new`), the receiver recomputes the maximum source block length as
    `div_ceil(div_ceil(F, Z), T)` (src/common/alccodec/alcraptorq.rs, alcraptor.rs `get_fti`; the FDT-borne OTI
    carries B verbatim instead).  `z = 0` is rejected by the parsers before this point. -/
def reconstructB (l e z : Nat) : Nat := divCeil (divCeil l z) e

/-- what the parser stores: `maximum_source_block_length as u32` -/
def reconstructB32 (l e z : Nat) : Nat := reconstructB l e z % 2^32

/-- what the EXT_FTI / FDT parsers of RaptorQ and Raptor hand to the receiver as maximum source block length:
    `E = 0` and `Z = 0` are rejected before the reconstruction (alcraptorq.rs / alcraptor.rs `get_fti`; linked to the wire
    model's parser by `Props/C07Link.fti_raptorq_maxSbl`) -/
def ftiMaxSbl (l e z : Nat) : Option Nat := if e = 0 ∨ z = 0 then none else some (reconstructB32 l e z)

/-- the blocks the sender cuts for an object of `l` bytes (fuel `l + 1 ≥ N`); an empty object has no block to cut here -
    what the real sender emits for `L = 0` is owned by C08 / C20 (engine benc), the theorems of C07 are for `0 < L` -/
def senderBlocksOf (q : Quad) (l e : Nat) : List (Nat × Nat × Nat) :=
  if l = 0 then [] else senderBlocks q l e (l + 1) 0 0

/-- Block-structure outcome of a loss-free session, as far as the partitioning decides it (this is what the `rcv` op of
    engine `part` observes on a real sender → receiver run, all five schemes): the sender cuts the object with the
    partition of the OTI's `B`; the receiver partitions with the `B` it knows - for RaptorQ / Raptor (`scheme` 3, 4) the
    one it reconstructs from `Z = N`, stored as `u32` - and the object completes exactly when, for every block, the
    source block length the receiver assumes (`receiverBlockSymbols`; for RS under-specified, `scheme` 2, the wire-borne
    one, i.e. the sender's own count) is the number of source symbols the sender cut.  Then one write per block, of
    `blockLength` bytes: `some lens`.  `none` = the object cannot complete. -/
def cleanSession (scheme b l e : Nat) : Rs (Option (List (Rs Nat))) :=
  match blockPartitioning b l e with
  | .error w => .error w
  | .ok qs =>
    let bRx := if scheme = 3 ∨ scheme = 4 then reconstructB32 l e qs.2.2.2 else b
    match blockPartitioning bRx l e with
    | .error w => .error w
    | .ok qr =>
      let snd := senderBlocks qs l e (l + 1) 0 0
      let agree := decide (snd.length = qr.2.2.2) && (List.range qr.2.2.2).all fun sbn =>
        let kTx := (snd.getD sbn (0, 0, 0)).1
        let kRx := if scheme = 2 then kTx else receiverBlockSymbols qr sbn
        decide (kTx = kRx)
      if agree then .ok (some ((List.range qr.2.2.2).map (blockLength qr.1 qr.2.1 qr.2.2.1 l e))) else .ok none

end Flute.Partition
