import FluteModel.Prim
/-
  Model of src/common/partition.rs (block_partitioning, block_length), line by line,
  with Rust's checked u64 arithmetic made explicit.
-/
namespace Flute.Partition

/-- the partition quadruple `(a_large, a_small, nb_a_large, nb_blocks)` -/
abbrev Quad := Nat × Nat × Nat × Nat

/-- `block_partitioning(b, l, e)` -/
def blockPartitioning (b l e : Nat) : Rs Quad :=
  if b = 0 then .ok (0, 0, 0, 0) else
  if e = 0 then .ok (0, 0, 0, 0) else
  let t := divCeil l e
  let n := divCeil t b
  if n = 0 then .ok (0, 0, 0, 0) else
  let aLarge := divCeil t n
  let aSmall := t / n
  match u64mul aSmall n with
  | .error w => .error w
  | .ok m =>
    match u64sub t m with
    | .error w => .error w
    | .ok nbLarge => .ok (aLarge, aSmall, nbLarge, n)

/-- `block_length(a_large, a_small, nb_a_large, l, e, sbn)` -/
def blockLength (aL aS nL l e sbn : Nat) : Rs Nat :=
  match u64mul aL e with
  | .error w => .error w
  | .ok large =>
  match u64mul aS e with
  | .error w => .error w
  | .ok small =>
  if sbn + 1 < nL then .ok large else
  if sbn + 1 = nL then
    match u64mul nL large with
    | .error w => .error w
    | .ok largeSize =>
      if largeSize ≤ l then .ok large else
      match u64sub nL 1 with
      | .error w => .error w
      | .ok x =>
        match u64mul x large with
        | .error w => .error w
        | .ok y => u64sub l y
  else
    match u64mul nL large with
    | .error w => .error w
    | .ok m =>
    match u64sub l m with
    | .error w => .error w
    | .ok l' =>
    match u64sub sbn nL with
    | .error w => .error w
    | .ok sbn' =>
    match u64mul (sbn' + 1) small with
    | .error w => .error w
    | .ok smallSize =>
      if smallSize ≤ l' then .ok small else
      match u64mul sbn' small with
      | .error w => .error w
      | .ok z => u64sub l' z

/-- Sender slicing (src/sender/blockencoder.rs `read_block_buffer`): number of source symbols
    announced for block `sbn` (`block_length` there) and the byte range it covers, given the
    current content offset. Returns `(nbSymbolsOfBlock, offsetStart, offsetEnd)`. -/
def senderBlock (q : Quad) (l e sbn off : Nat) : Nat × Nat × Nat :=
  let (aL, aS, nL, _) := q
  let k := if sbn < nL then aL else aS
  let endOff := if off + k * e > l then l else off + k * e
  (k, off, endOff)

/-- sender: all blocks in order starting at offset 0, until `read_end` (offset_end == len).
    `fuel` bounds the loop (the real loop is bounded by the window logic); returns the
    list of `(k, start, end)` per sbn. -/
def senderBlocks (q : Quad) (l e : Nat) : Nat → Nat → Nat → List (Nat × Nat × Nat)
  | 0, _, _ => []
  | fuel+1, sbn, off =>
    let (k, s, en) := senderBlock q l e sbn off
    if en = l then [(k, s, en)] else (k, s, en) :: senderBlocks q l e fuel (sbn+1) en

/-- Receiver sizing (src/receiver/objectreceiver.rs `push_to_block2`): the source block length it uses for block
    `sbn` (a `u32` from the payload id) when the payload ID does not carry one:
    `match payload_id.sbn < self.nb_a_large as u32 { true => self.a_large as u32, _ => self.a_small as u32 }`
    - the three `as u32` casts truncate. -/
def receiverBlockSymbols (q : Quad) (sbn : Nat) : Nat :=
  let (aL, aS, nL, _) := q
  if sbn < nL % 2^32 then aL % 2^32 else aS % 2^32

/-- RaptorQ / Raptor: the sender writes `Z = nb_blocks` into the scheme-specific info
    (src/sender/filedesc.rs `FileDesc::new`), the receiver recomputes the maximum source block length as
    `div_ceil(div_ceil(F, Z), T)` (src/common/alccodec/alcraptorq.rs, alcraptor.rs `get_fti`; the FDT-borne OTI
    carries B verbatim instead).  `z = 0` is rejected by the parsers before this point. -/
def reconstructB (l e z : Nat) : Nat := divCeil (divCeil l z) e

/-- what the parser stores: `maximum_source_block_length as u32` -/
def reconstructB32 (l e z : Nat) : Nat := reconstructB l e z % 2^32

end Flute.Partition
