import FluteModel.Prim
import FluteModel.Partition
/-
  Abstract FDT model (property C10).

  Mirrors, on abstract data, what `src/sender/fdt.rs` (files map, `publish`, `fdtid`, `last_publish`,
  `get_fdt_instance`, `current_fdt_will_expire`, `get_next_fdt_transfer`, `transfer_done`),
  `src/sender/filedesc.rs` (`FileDesc::new`, `TransferInfo::init/done`, `is_expired`, `to_file_xml`),
  `src/sender/objectdesc.rs` (`create_fdt_cache_control`), `src/common/oti.rs` (`get_attributes`,
  scheme-specific info) and - receiver side - `src/common/fdtinstance.rs` (`get_oti`, `get_transfer_length`,
  `get_object_cache_control`, `get_expiration_date`) + `ObjectReceiver::attach_fdt/create_meta` do.

  WHAT an FDT instance contains is modelled here; WHEN the scheduler starts/finishes transfers and polls the
  FDT session is an *input* of this model (ops `tstart`, `tdone`, `poll`), every theorem quantifies over all
  sequences of them.  XML bytes are not modelled: quick-xml/serde are a library, the model works on the
  abstract instance (attribute values as opaque strings / numbers); the bytes are validated on every
  generated case by an independent parser (expat) in the correspondence.

  Time is `Nat` microseconds since the UNIX epoch; `Duration`s are microseconds.
  Strings are opaque tokens (the driver keeps them hex-encoded).
-/
namespace Flute.FdtAbs
open Flute

/-! ## OTI (src/common/oti.rs) -/

inductive Scheme where
  | rs2m (m g : Nat)
  | raptorq (z n al : Nat)
  | raptor (z n al : Nat)
  deriving DecidableEq, Repr, Inhabited

/-- `oti::Oti` (without `inband_fti`, which the FDT never shows).  `enc` is the FEC encoding id:
    0 NoCode, 1 Raptor, 2 RS-GF(2^m), 5 RS-GF(2^8), 6 RaptorQ, 129 RS-GF(2^8) under-specified. -/
structure Oti where
  enc : Nat
  inst : Nat
  maxSbl : Nat
  esl : Nat
  parity : Nat
  scheme : Option Scheme
  deriving DecidableEq, Repr, Inhabited

def validEnc (e : Nat) : Bool := e = 0 || e = 1 || e = 2 || e = 5 || e = 6 || e = 129

/-- field ranges of the Rust types (`u16`, `u32`, `u8`) -/
def Scheme.wf : Scheme → Prop
  | .rs2m m g => m < 256 ∧ g < 256
  | .raptorq z n al => z < 256 ∧ n < 65536 ∧ al < 256
  | .raptor z n al => z < 65536 ∧ n < 256 ∧ al < 256

def Oti.wf (o : Oti) : Prop :=
  validEnc o.enc = true ∧ o.inst < 65536 ∧ o.maxSbl < 2^32 ∧ o.esl < 65536 ∧ o.parity < 2^32 ∧
  (∀ s, o.scheme = some s → s.wf)

/-- the scheme-specific parameters, when present, are those of the encoding id -/
def Oti.coherent (o : Oti) : Prop :=
  match o.scheme with
  | none => True
  | some (.rs2m _ _) => o.enc = 2
  | some (.raptorq _ _ _) => o.enc = 6
  | some (.raptor _ _ _) => o.enc = 1

/-- the FEC-OTI-* XML attributes (`OtiAttributes`, and the same six optional attributes of
    `fdtinstance::File` / `FdtInstance`).  `ssi` = the bytes that are base64-encoded into
    `FEC-OTI-Scheme-Specific-Info` (base64 itself is a library). -/
structure OtiAttrs where
  enc : Option Nat
  inst : Option Nat
  maxSbl : Option Nat
  esl : Option Nat
  maxN : Option Nat
  ssi : Option (List Nat)
  deriving DecidableEq, Repr, Inhabited

def noAttrs : OtiAttrs := ⟨none, none, none, none, none, none⟩

/-- `Oti::scheme_specific_info` -/
def schemeInfo (o : Oti) : Option (List Nat) :=
  if o.enc = 2 then
    match o.scheme with
    | some (.rs2m m g) => some [m, g]
    | _ => none
  else if o.enc = 6 then
    match o.scheme with
    | some (.raptorq z n al) => some [z, n / 256, n % 256, al]
    | _ => none
  else if o.enc = 1 then
    match o.scheme with
    | some (.raptor z n al) => some [z / 256, z % 256, n, al]
    | _ => none
  else none

/-- `Oti::get_attributes` -/
def getAttributes (o : Oti) : OtiAttrs :=
  { enc := some o.enc, inst := some o.inst, maxSbl := some o.maxSbl, esl := some o.esl,
    maxN := some (o.maxSbl + o.parity), ssi := schemeInfo o }

/-! ## what the application announces at `add_object` -/

/-- sender-side `CacheControl` -/
inductive CacheCtl where
  | noCache
  | maxStale
  | expiresIn (durUs : Nat)
  | expiresAt (tUs : Nat)
  deriving DecidableEq, Repr, Inhabited

/-- the part of `ObjectDesc`/`TransferConfig` that is announced in the FDT or steers the file's life -/
structure ObjAttrs where
  location : String
  contentType : String
  contentLength : Nat
  transferLength : Nat
  cenc : Nat                       -- 0 null, 1 zlib, 2 deflate, 3 gzip
  md5 : Option String
  etag : Option String
  groups : Option (List String)
  cache : Option CacheCtl
  oti : Option Oti                 -- per-object override
  maxTransferCount : Nat
  carousel : Bool                  -- `carousel_mode.is_some()`
  deriving DecidableEq, Repr, Inhabited

/-! ## abstract FDT instance (fdtinstance::FdtInstance / File, only what the sender ever sets) -/

inductive CacheX where
  | noCache
  | maxStale
  | expires (ntpSecs : Nat)
  deriving DecidableEq, Repr, Inhabited

structure AFile where
  toi : Nat
  location : String
  contentLength : Option Nat
  transferLength : Option Nat
  contentType : Option String
  contentEncoding : Option String
  md5 : Option String
  oti : OtiAttrs
  cache : Option CacheX
  etag : Option String
  groups : List String             -- `File/Group` elements (`None` and `Some([])` both give none)
  deriving DecidableEq, Repr, Inhabited

structure AbsFdt where
  expires : Nat                    -- the decimal number in `@Expires`
  complete : Option Bool
  fullFdt : Option Bool
  groups : List String
  oti : OtiAttrs
  files : List AFile
  deriving DecidableEq, Repr, Inhabited

/-! ## NTP (src/tools/mod.rs) -/

/-- `system_time_to_ntp(t) >> 32`: seconds since 1900, as they survive `(seconds_ntp << 32) >> 32` on `u64` -/
def ntpSecs (tUs : Nat) : Nat := (tUs / 1000000 + 2208988800) % 2^32

/-! ## sender state -/

inductive Mode where
  | fullFdt
  | beingTransferred
  deriving DecidableEq, Repr, Inhabited

structure Cfg where
  mode : Mode
  startId : Nat
  durationUs : Nat
  oti : Oti                        -- session default OTI
  groups : Option (List String)
  toiBits : Nat := 112             -- `toi_max_length`: 16 / 32 / 48 / 64 / 80 / 112
  toiInit : Nat := 1               -- `toi_initial_value = Some(n)`
  /-- admission of the FDT object itself: does `FileDesc::new` accept the serialised (and `fdt_cenc`-compressed)
      instance under the session default OTI (transfer length <= `max_transfer_length`, Reed-Solomon block limits,
      RaptorQ/Raptor block count)?  The byte length is the XML library's, so this is an explicit parameter - every
      theorem holds for every such function; the correspondence feeds the observed outcome. -/
  fdtFits : AbsFdt → Bool := fun _ => true
  /-- `is_xml_str`: every character of the string is a Char of XML 1.0 (section 2.2).  Strings are opaque in this model,
      so the predicate is a parameter; the driver instantiates it on the UTF-8 bytes of the hex token (no C0 control
      other than TAB / LF / CR, not U+FFFE / U+FFFF). -/
  xmlOk : String → Bool := fun _ => true
  deriving Inhabited

/-- `FileDesc` + the two `TransferInfo` fields that decide about FDT membership -/
structure FileDesc where
  toi : Nat
  attrs : ObjAttrs
  oti : Oti                        -- effective OTI (`FileDesc::oti`, Z filled in for RaptorQ/Raptor)
  transferring : Bool
  transferCount : Nat
  deriving DecidableEq, Repr, Inhabited

/-- one publication: what `Fdt::publish(now)` pushed to `fdt_transfer_queue` -/
structure Pub where
  id : Nat
  time : Nat
  inst : AbsFdt
  deriving DecidableEq, Repr, Inhabited

structure State where
  cfg : Cfg
  fdtid : Nat
  complete : Option Bool
  lastPublish : Option Nat
  files : List FileDesc            -- the `files` HashMap, in insertion order (keys are unique, see `Lemmas`)
  queue : List Pub                 -- `fdt_transfer_queue`
  current : Option Pub             -- `current_fdt_transfer`
  nextToi : Nat                    -- ToiAllocator: a counter masked to `toi_max_length` bits that skips 0
                                   -- (its skipping of still-reserved TOIs after a wrap is C15's, not modelled)
  deriving Inhabited

/-- `ToiAllocatorInternal::new`: `Some(0)` -> 1, masked to the width, 0 (the FDT's TOI) -> 1 -/
def firstToi (bits init : Nat) : Nat :=
  let t := (if init = 0 then 1 else init) % 2^bits
  if t = 0 then 1 else t

/-- `ToiAllocatorInternal::allocate`: next value, masked, skipping 0 -/
def succToi (bits t : Nat) : Nat :=
  let n := (t + 1) % 2^bits
  if n = 0 then 1 else n

def init (cfg : Cfg) : State :=
  { cfg := cfg, fdtid := cfg.startId, complete := none, lastPublish := none, files := [], queue := [],
    current := none, nextToi := firstToi cfg.toiBits cfg.toiInit }

/-! ## building an instance (`get_fdt_instance`, `to_file_xml`) -/

def cencStr (c : Nat) : String :=
  if c = 1 then "zlib" else if c = 2 then "deflate" else if c = 3 then "gzip" else "null"

/-- `create_fdt_cache_control` -/
def fdtCache (cc : CacheCtl) (now : Nat) : CacheX :=
  match cc with
  | .noCache => .noCache
  | .maxStale => .maxStale
  | .expiresIn d => .expires (ntpSecs (now + d))
  | .expiresAt t => .expires (ntpSecs t)

/-- the per-file FEC-OTI attributes written by `to_file_xml`:
    RaptorQ and Raptor -> the file's own (Z-adjusted) OTI; otherwise only a per-object override (as given) -/
def fileOtiAttrs (fd : FileDesc) : OtiAttrs :=
  if fd.oti.enc = 6 ∨ fd.oti.enc = 1 then getAttributes fd.oti
  else match fd.attrs.oti with
    | some o => getAttributes o
    | none => noAttrs

/-- `FileDesc::to_file_xml(now)` -/
def toFileXml (fd : FileDesc) (now : Nat) : AFile :=
  { toi := fd.toi
    location := fd.attrs.location
    contentLength := some fd.attrs.contentLength
    transferLength := some fd.attrs.transferLength
    contentType := some fd.attrs.contentType
    contentEncoding := if fd.attrs.cenc = 0 then none else some (cencStr fd.attrs.cenc)
    md5 := fd.attrs.md5
    oti := fileOtiAttrs fd
    cache := fd.attrs.cache.map (fun cc => fdtCache cc now)
    etag := fd.attrs.etag
    groups := fd.attrs.groups.getD [] }

/-- the FDT-level FEC-OTI attributes: none for a RaptorQ / Raptor session default (Z is per object) -/
def fdtOtiAttrs (o : Oti) : OtiAttrs := if o.enc = 6 ∨ o.enc = 1 then noAttrs else getAttributes o

/-- files listed by an instance built now -/
def listedFiles (s : State) : List FileDesc :=
  match s.cfg.mode with
  | .fullFdt => s.files
  | .beingTransferred => s.files.filter (fun f => f.transferring)

/-- `Fdt::get_fdt_instance(now)` (files in insertion order; the implementation's HashMap order is
    canonicalised by sorting on TOI in the correspondence) -/
def instanceAt (s : State) (now : Nat) : AbsFdt :=
  { expires := ntpSecs now + s.cfg.durationUs / 1000000
    complete := s.complete
    fullFdt := match s.cfg.mode with | .fullFdt => some true | .beingTransferred => none
    groups := s.cfg.groups.getD []
    oti := fdtOtiAttrs s.cfg.oti
    files := (listedFiles s).map (fun f => toFileXml f now) }

/-! ## operations -/

/-- the successful path of `Fdt::publish(now)`: instance built from the live files, queued with the current id; id
    incremented with the 20-bit mask; `last_publish` set (`to_xml` failing is not modelled) -/
def publish (s : State) (now : Nat) : State × Pub :=
  let p : Pub := { id := s.fdtid, time := now, inst := instanceAt s now }
  ({ s with queue := s.queue ++ [p], fdtid := (s.fdtid + 1) % 2^20, lastPublish := some now }, p)

/-- `Fdt::publish(now)`: when `FileDesc::new` refuses the FDT object (`?` before anything is changed) the call returns
    `Err` and the sender is exactly as before: nothing queued, id not consumed, `last_publish` untouched -/
def admitted (s : State) (now : Nat) : Bool :=
  -- `to_xml` refuses FDT-level groups that XML 1.0 cannot carry; `FileDesc::new` refuses an FDT object that does not fit
  (s.cfg.groups.getD []).all s.cfg.xmlOk && s.cfg.fdtFits (instanceAt s now)

def tryPublish (s : State) (now : Nat) : State × List Pub :=
  if admitted s now then ((publish s now).1, [(publish s now).2]) else (s, [])

/-- `Fdt::current_fdt_will_expire(now)` -/
def needRepublish (s : State) (now : Nat) : Bool :=
  if !s.queue.isEmpty then false else
  match s.current, s.lastPublish with
  | none, _ => true
  | _, none => true
  | some _, some lp =>
    if lp = now then false else                 -- published at this very instant: nothing to supersede yet (F24 repair)
    let elapsed := now - lp                     -- `duration_since().unwrap_or_default()`
    let d := s.cfg.durationUs
    if d > 30000000 then decide (d - 5000000 < elapsed)
    else if d > 10000000 then decide (d - 1000000 < elapsed)
    else decide (d ≤ elapsed)

/-- `usize::saturating_mul` (64 bit) -/
def satMul64 (a b : Nat) : Nat := if a * b < 2^64 then a * b else 2^64 - 1

/-- `Oti::max_transfer_length`: both products saturate (since /repo bda304c); RS-GF(2^m) is `todo!()` in
    `max_source_blocks_number` -/
def maxTransferLength (o : Oti) : Rs Nat :=
  if o.enc = 2 then .error "todo" else
  let limit := if o.enc = 6 then 0xFFFFFFFFFF else 0xFFFFFFFFFFFF   -- RaptorQ: 40 bits, others 48 bits
  let maxSbn := if o.enc = 0 then 65535 else if o.enc = 5 then 255 else if o.enc = 129 then 4294967295
                else if o.enc = 6 then 255 else 65535
  let size := satMul64 (satMul64 o.esl o.maxSbl) maxSbn
  .ok (if size > limit then limit else size)

inductive AddRes where
  | ok (toi : Nat)
  | err
  | panic
  deriving DecidableEq, Repr, Inhabited

/-- `scheme.source_blocks_length = nb_blocks` for the scheme matching the encoding id (`FileDesc::new`) -/
def setZ (o : Oti) (nb : Nat) : Oti :=
  match o.scheme with
  | some (.raptorq _ n al) => if o.enc = 6 then { o with scheme := some (.raptorq nb n al) } else o
  | some (.raptor _ n al) => if o.enc = 1 then { o with scheme := some (.raptor nb n al) } else o
  | _ => o

/-- the Reed-Solomon GF(2^8) admission checks of `FileDesc::new`, in its order: at least one parity symbol; the
    configured block `B + parity` fits the code (255 symbols for the fully specified scheme, a u16 for the
    under-specified one); the largest source block of this object + parity is at most 255 symbols.
    `.ok true` = refused (`Err`), `.error` = panic (none is reachable for 48-bit lengths: C07). -/
def rsRefused (o : Oti) (transferLength : Nat) : Rs Bool :=
  if o.enc = 5 ∨ o.enc = 129 then
    if o.parity = 0 then .ok true else
    if (o.enc = 5 ∧ o.maxSbl + o.parity > 255) ∨ (o.enc = 129 ∧ o.maxSbl + o.parity > 65535) then .ok true else
    match Partition.blockPartitioning o.maxSbl transferLength o.esl with
    | .error w => .error w
    | .ok q => .ok (decide (q.1 + o.parity > 255))
  else .ok false

/-- `q = (a_large, a_small, nb_a_large, nb_blocks)`: a Raptor partition with a block of 2 or 3 source symbols -/
def raptorSmallBlock (enc : Nat) (q : Partition.Quad) : Bool :=
  decide (enc = 1) && (decide (q.2.2.1 > 0 ∧ (q.1 = 2 ∨ q.1 = 3)) || decide (q.2.2.2 > q.2.2.1 ∧ (q.2.1 = 2 ∨ q.2.1 = 3)))

/-- largest number of source symbols of one block the code supports -/
def kMax (enc : Nat) : Nat := if enc = 6 then 56403 else 8192

/-- the OTI a `FileDesc` ends up with: override or default, Z := max(number of source blocks, 1) for
    RaptorQ / Raptor (`FileDesc::new`).  `none` = `Err`, `.error` = panic. -/
def effectiveOti (dflt : Oti) (a : ObjAttrs) : Rs (Option Oti) :=
  let o := a.oti.getD dflt
  -- Reed-Solomon GF(2^m) has no encoder: `Err` (since /repo 79f1d06; before: `todo!()` panic in `max_transfer_length`)
  if o.enc = 2 then .ok none else
  match maxTransferLength o with
  | .error w => .error w
  | .ok mtl =>
    if a.transferLength > mtl then .ok none else
    match rsRefused o a.transferLength with
    | .error w => .error w
    | .ok true => .ok none
    | .ok false =>
    if o.enc = 6 ∨ o.enc = 1 then
      match Partition.blockPartitioning o.maxSbl a.transferLength o.esl with
      | .error w => .error w
      | .ok q =>
        -- a source block larger than the code supports (K'_max = 56403 for RaptorQ, K_max = 8192 for Raptor): `Err`
        if q.1 > kMax o.enc then .ok none
        -- Raptor (not RaptorQ): a partition that uses a block of 2 or 3 source symbols cannot be encoded: `Err`
        else if raptorSmallBlock o.enc q then .ok none
        -- scheme parameters missing, or more source blocks than Z can hold (u8 for RaptorQ, u16 for Raptor): `Err`
        else if o.scheme.isNone then .ok none
        else if (o.enc = 6 ∧ q.2.2.2 > 255) ∨ (o.enc = 1 ∧ q.2.2.2 > 65535) then .ok none
        else .ok (some (setZ o (max q.2.2.2 1)))
    else .ok (some o)

/-- the metadata strings of an object that end up in the FDT are XML 1.0 strings -/
def attrsXmlOk (ok : String → Bool) (a : ObjAttrs) : Bool :=
  ok a.location && ok a.contentType && a.md5.all ok && a.etag.all ok && (a.groups.getD []).all ok

/-- `Fdt::add_object`: refused once complete, refused when a metadata string cannot be carried by XML 1.0 (the FDT
    would not be well-formed); TOI taken from the allocator *before* `FileDesc::new` may fail -/
def add (s : State) (a : ObjAttrs) : State × AddRes :=
  if s.complete = some true ∨ attrsXmlOk s.cfg.xmlOk a = false then (s, .err) else
  let toi := s.nextToi
  let s1 := { s with nextToi := succToi s.cfg.toiBits s.nextToi }
  match effectiveOti s.cfg.oti a with
  | .error _ => (s1, .panic)
  | .ok none => (s1, .err)
  | .ok (some o) =>
    ({ s1 with files := s1.files ++ [{ toi := toi, attrs := a, oti := o, transferring := false, transferCount := 0 }] },
     .ok toi)

/-- `Fdt::remove_object` -/
def remove (s : State) (toi : Nat) : State × Bool :=
  if s.files.any (fun f => f.toi = toi) then
    ({ s with files := s.files.filter (fun f => f.toi ≠ toi) }, true)
  else (s, false)

def setComplete (s : State) : State := { s with complete := some true }

/-- `TransferInfo::init` on the file with this TOI -/
def fStart (t : Nat) (f : FileDesc) : FileDesc :=
  if f.toi = t then
    { f with transferring := true,
             transferCount := if f.transferCount = f.attrs.maxTransferCount ∧ f.attrs.carousel then 0
                              else f.transferCount }
  else f

/-- `get_next_file_transfer`: `transfer_started(now)` on the file, then - in ObjectsBeingTransferred mode -
    `publish(now)` -/
def tstart (s : State) (toi : Nat) (now : Nat) : State × List Pub :=
  if s.files.any (fun f => f.toi = toi) then
    let s1 := { s with files := s.files.map (fStart toi) }
    match s.cfg.mode with
    | .beingTransferred => tryPublish s1 now            -- `self.publish(now).ok()`: a refusal is ignored
    | .fullFdt => (s1, [])
  else (s, [])

/-- `FileDesc::is_expired` after the increment -/
def expiredAfter (f : FileDesc) : Bool :=
  if f.attrs.maxTransferCount > f.transferCount + 1 then false else !f.attrs.carousel

/-- `TransferInfo::done` on the file with this TOI; the file leaves `files` when it is expired then -/
def fDone (t : Nat) (f : FileDesc) : Option FileDesc :=
  if f.toi = t then
    if expiredAfter f then none
    else some { f with transferring := false, transferCount := f.transferCount + 1 }
  else some f

/-- `Fdt::transfer_done` for an object -/
def tdone (s : State) (toi : Nat) : State := { s with files := s.files.filterMap (fDone toi) }

/-- `if !fdt_transfer_queue.is_empty() { current_fdt_transfer = fdt_transfer_queue.pop_front() }` -/
def popQueue (s : State) : State :=
  match s.queue with
  | [] => s
  | p :: rest => { s with queue := rest, current := some p }

/-- one call of `Fdt::get_next_fdt_transfer(now)` with the FDT session idle: republish when the current
    instance is about to expire, then take the next queued instance as the current one -/
def poll (s : State) (now : Nat) : State × List Pub :=
  if needRepublish s now then
    let r := tryPublish s now                          -- `self.publish(now).ok()`: a refusal is ignored
    (popQueue r.1, r.2)
  else (popQueue s, [])

inductive Op where
  | add (a : ObjAttrs)
  | remove (toi : Nat)
  | publish (now : Nat)
  | setComplete
  | tstart (toi : Nat) (now : Nat)
  | tdone (toi : Nat) (now : Nat)
  | poll (now : Nat)
  deriving Repr, Inhabited

/-- result of an op as the application / the wire sees it -/
inductive Res where
  | added (r : AddRes)
  | removed (b : Bool)
  | published (ok : Bool)
  | unit
  deriving DecidableEq, Repr, Inhabited

/-- one operation: new state, the publications it caused, its result -/
def step (s : State) (op : Op) : State × List Pub × Res :=
  match op with
  | .add a => let r := add s a; (r.1, [], .added r.2)
  | .remove t => let r := remove s t; (r.1, [], .removed r.2)
  | .publish now => let r := tryPublish s now; (r.1, r.2, .published (!r.2.isEmpty))
  | .setComplete => (setComplete s, [], .unit)
  | .tstart t now => let r := tstart s t now; (r.1, r.2, .unit)
  | .tdone t _ => (tdone s t, [], .unit)
  | .poll now => let r := poll s now; (r.1, r.2, .unit)

/-- run a history: final state and all publications in order -/
def run (s : State) : List Op → State × List Pub
  | [] => (s, [])
  | op :: ops =>
    let r := step s op
    let r2 := run r.1 ops
    (r2.1, r.2.1 ++ r2.2)

/-- the trace of (op, result) pairs - what an observer of the API sees -/
def trace (s : State) : List Op → List (Op × Res)
  | [] => []
  | op :: ops => let r := step s op; (op, r.2.2) :: trace r.1 ops

/-! ## receiver side (fdtinstance.rs `get_oti`, `get_transfer_length`, `get_object_cache_control`,
    `get_expiration_date`; objectreceiver.rs `attach_fdt` / `create_meta`) -/

/-- `FdtInstance::get_file(toi)`: the first File entry whose TOI attribute is the decimal string of `toi`
    (the sender writes `toi.to_string()`, so string equality is equality of the numbers) -/
def getFile (fdt : AbsFdt) (toi : Nat) : Option AFile := fdt.files.find? (fun f => f.toi = toi)

/-- decode `FEC-OTI-Scheme-Specific-Info` bytes for an encoding id (`*_scheme_specific(..).unwrap_or(None)`) -/
def decodeScheme (enc : Nat) (ssi : Option (List Nat)) : Option Scheme :=
  match ssi with
  | none => none
  | some bs =>
    if enc = 2 then
      match bs with
      | [m, g] => some (.rs2m m g)
      | _ => none
    else if enc = 6 then
      match bs with
      | [z, n1, n0, al] => some (.raptorq z (n1 * 256 + n0) al)
      | _ => none
    else if enc = 1 then
      match bs with
      | [z1, z0, n, al] => some (.raptor (z1 * 256 + z0) n al)
      | _ => none
    else none

/-- `File::get_oti` / `FdtInstance::get_oti` (identical code).  `.error` = panic (arithmetic overflow). -/
def recvOti (a : OtiAttrs) : Rs (Option Oti) :=
  match a.enc, a.maxSbl, a.esl with
  | some enc, some maxSbl, some esl =>
    if !validEnc enc then .ok none else
    let maxN := a.maxN.getD maxSbl
    -- `maxN.saturating_sub(maxSbl)` (D10 repaired: was a plain u64 subtraction, panicking when maxN < maxSbl)
    let parity := maxN - maxSbl
    .ok (some { enc := enc, inst := (a.inst.getD 0) % 65536, maxSbl := maxSbl % 2^32, esl := esl % 65536,
                parity := parity % 2^32, scheme := decodeScheme enc a.ssi })
  | _, _, _ => .ok none

/-- `FdtInstance::get_oti_for_file` -/
def recvOtiForFile (fdt : AbsFdt) (f : AFile) : Rs (Option Oti) :=
  match recvOti f.oti with
  | .error w => .error w
  | .ok (some o) => .ok (some o)
  | .ok none => recvOti fdt.oti

/-- `FdtInstance::get_expiration_date` in µs since the epoch (`ntp_to_system_time(secs << 32)`) -/
def recvExpiration (fdt : AbsFdt) : Option Nat :=
  let secs := fdt.expires % 2^32           -- `<< 32` on u64 drops the high bits
  if fdt.expires ≥ 2^64 then none          -- `parse::<u64>()` fails
  else if secs < 2208988800 then none else some ((secs - 2208988800) * 1000000)

/-- receiver-side `ObjectCacheControl` -/
inductive RCache where
  | noCache
  | maxStale
  | expiresAt (tUs : Nat)
  | expiresAtHint (tUs : Nat)
  deriving DecidableEq, Repr, Inhabited

/-- `File::get_object_cache_control(fdt.get_expiration_date())` -/
def recvCache (fdt : AbsFdt) (f : AFile) : RCache :=
  let hint : RCache := match recvExpiration fdt with
    | some e => .expiresAtHint e
    | none => .noCache
  match f.cache with
  | some .noCache => .noCache
  | some .maxStale => .maxStale
  | some (.expires t) =>
    if t % 2^32 < 2208988800 then hint else .expiresAt ((t % 2^32 - 2208988800) * 1000000)
  | none => hint

/-- `File::get_transfer_length` -/
def recvTransferLength (f : AFile) : Nat :=
  match f.transferLength with
  | some t => t
  | none => match f.contentLength with
    | some c => c
    | none => 0

/-- content encoding as the receiver resolves it when the packets carry no EXT_CENC -/
def recvCenc (f : AFile) : Nat :=
  match f.contentEncoding with
  | none => 0
  | some s => if s = "zlib" then 1 else if s = "deflate" then 2 else if s = "gzip" then 3 else 0

/-- the `ObjectMetadata` handed to `new_object_writer` for an object attached to this instance -/
structure RMeta where
  location : String
  contentLength : Option Nat
  transferLength : Nat
  contentType : Option String
  cenc : Nat
  md5 : Option String
  oti : Oti
  cache : RCache
  etag : Option String
  groups : List String
  deriving DecidableEq, Repr, Inhabited

/-- `attach_fdt` + `create_meta`: `.error` = panic, `none` = no OTI resolvable (no writer is created).
    `rd` is the XML library's reading of element text (quick-xml normalises end-of-line characters in
    element content - an explicit parameter, instantiated with the concrete normaliser in the driver;
    attribute values are read verbatim). -/
def recvMeta (rd : String → String) (fdt : AbsFdt) (f : AFile) : Rs (Option RMeta) :=
  match recvOtiForFile fdt f with
  | .error w => .error w
  | .ok none => .ok none
  | .ok (some o) =>
    .ok (some { location := f.location, contentLength := f.contentLength, transferLength := recvTransferLength f,
                contentType := f.contentType, cenc := recvCenc f, md5 := f.md5, oti := o,
                cache := recvCache fdt f, etag := f.etag, groups := (fdt.groups ++ f.groups).map rd })

end Flute.FdtAbs
