import FluteModel.TsiFilter
/-
  Model of src/receiver/multireceiver.rs (MultiReceiver): session table keyed by
  `ReceiverEndpoint { endpoint, tsi }`, TSI filter check before dispatch, listener notifications,
  `cleanup`, `Drop`.

  The per-session `Receiver` is a PARAMETER (`Machine`): an arbitrary state machine with the four entry
  points `MultiReceiver` calls (`Receiver::new`, `push`, `cleanup`, `is_expired`).  `Receiver` reads
  `Instant::now()` itself; the model passes the value of a model clock (`State.clock`, advanced only by
  `Op.tick`) to every entry point instead.  The `endpoint`/`tsi` fields that `Receiver::new` stores and that
  every writer callback carries are modelled by `Sess.key`; what the receiver does with a packet
  (callbacks, result) is the opaque output `Out`, logged together with the key it carries.
-/
namespace Flute.MultiRecv
open Flute Flute.TsiFilter

/-- `ReceiverEndpoint { endpoint, tsi }` -/
structure Key where
  ep : Endpoint
  tsi : Nat
deriving DecidableEq, Repr

/-- what `MultiReceiver::push` looks at in a parsed ALC packet (`alc.lct.tsi`, `alc.lct.close_session`);
    everything else (and the `now` argument) is `body` -/
structure Pkt (π : Type) where
  tsi : Nat
  close : Bool
  body : π

/-- `MultiReceiverListener::{on_session_open, on_session_closed}` -/
inductive Event
  | opened (k : Key)
  | closed (k : Key)
deriving DecidableEq, Repr

def Event.key : Event → Key
  | .opened k => k
  | .closed k => k

/-- the per-session state machine (`Receiver`) -/
structure Machine (σ π Out : Type) where
  /-- `Receiver::new(&key.endpoint, key.tsi, writer, config)` at instant `t` -/
  init : Nat → Key → σ
  /-- `Receiver::push(&alc, now)` at instant `t` -/
  push : Nat → σ → Pkt π → σ × Out
  /-- `Receiver::cleanup(now)` at instant `t` -/
  cleanup : Nat → Nat → σ → σ × Out
  /-- `Receiver::is_expired()` at instant `t` -/
  expired : Nat → σ → Bool

/-- a `Receiver`: the `endpoint`/`tsi` it was constructed with (carried by all its callbacks) + the rest -/
structure Sess (σ : Type) where
  key : Key
  st : σ

structure State (σ Out : Type) where
  /-- `alc_receiver: HashMap<ReceiverEndpoint, Box<Receiver>>` -/
  table : List (Key × Sess σ)
  /-- `tsifilter` -/
  filter : Filter
  /-- `enable_tsi_filtering` -/
  filtering : Bool
  /-- model clock standing for `Instant::now()` -/
  clock : Nat
  /-- what a listener registered from the start (and never removed) has been told, in order -/
  events : List Event
  /-- `listeners: HashMap<u64, Box<dyn MultiReceiverListener>>`: id ↦ what that listener has been told so far -/
  listeners : List (Nat × List Event)
  /-- `listeners_id` -/
  listenersId : Nat
  /-- ghost: the logs of listeners that were removed, as they stood at removal -/
  retired : List (Nat × List Event)
  /-- receiver outputs in order: (key the session is stored under, key carried by the callbacks, output) -/
  outs : List (Key × Key × Out)

/-- `MultiReceiver::new(writer, config, enable_tsi_filtering)` -/
def State.new {σ Out : Type} (filtering : Bool) : State σ Out :=
  { table := [], filter := Filter.new, filtering := filtering, clock := 0, events := [], listeners := [],
    listenersId := 0, retired := [], outs := [] }

inductive Op (π : Type)
  /-- `push(endpoint, pkt, now)`; `none` = `parse_alc_pkt` fails -/
  | push (ep : Endpoint) (p : Option (Pkt π))
  /-- time passes (the only thing that moves the clock) -/
  | tick (d : Nat)
  /-- `cleanup(now)` -/
  | cleanup (now : Nat)
  | addListen (ep : Endpoint) (tsi : Nat)
  | removeListen (ep : Endpoint) (tsi : Nat)
  | addAll (ep : Endpoint)
  | removeAll (ep : Endpoint)
  | setFiltering (b : Bool)
  /-- `add_listener(listener)` (returns `listeners_id`, then increments it) -/
  | addListener
  /-- `remove_listener(id)` -/
  | removeListener (id : Nat)
  /-- `Drop for MultiReceiver` (afterwards the table is empty) -/
  | drop

/-- what the caller of one operation sees besides the callbacks -/
inductive Res
  /-- the packet reached a session's `Receiver::push` (whose result is part of `Out`) -/
  | done
  /-- `parse_alc_pkt` failed: `Err` -/
  | parseErr
  /-- rejected by the TSI filter: `Ok(())` -/
  | skipped
  /-- close-session packet for a session that does not exist: `Ok(())` -/
  | noSession
  /-- unit operations -/
  | unit
  /-- counter overflow panic in the filter (state unchanged: the panic precedes the write) -/
  | panic
deriving DecidableEq, Repr

variable {σ π Out : Type}

/-- `for listener in self.listeners.values() { listener.on_session_...(key) }` for a batch of events -/
def tell (ls : List (Nat × List Event)) (evs : List Event) : List (Nat × List Event) :=
  ls.map (fun e => (e.1, e.2 ++ evs))

/-- `MultiReceiver::push` -/
def push (M : Machine σ π Out) (s : State σ Out) (ep : Endpoint) : Option (Pkt π) → State σ Out × Res
  | none => (s, .parseErr)
  | some pkt =>
    if s.filtering && !(isValid s.filter ep pkt.tsi) then (s, .skipped) else
    let key : Key := ⟨ep, pkt.tsi⟩
    if pkt.close then
      match AL.get s.table key with
      | some se =>
        let r := M.push s.clock se.st pkt
        ({ s with table := AL.del s.table key,
                  events := s.events ++ [.closed key],
                  listeners := tell s.listeners [.closed key],
                  outs := s.outs ++ [(key, se.key, r.2)] }, .done)
      | none => (s, .noSession)
    else
      -- get_receiver_or_create
      match AL.get s.table key with
      | some se =>
        let r := M.push s.clock se.st pkt
        ({ s with table := AL.set s.table key { se with st := r.1 },
                  outs := s.outs ++ [(key, se.key, r.2)] }, .done)
      | none =>
        let se : Sess σ := ⟨key, M.init s.clock key⟩
        let r := M.push s.clock se.st pkt
        ({ s with table := AL.set s.table key { se with st := r.1 },
                  events := s.events ++ [.opened key],
                  listeners := tell s.listeners [.opened key],
                  outs := s.outs ++ [(key, se.key, r.2)] }, .done)

/-- `MultiReceiver::cleanup` (after `fix: evaluate session expiry once in MultiReceiver::cleanup`):
    one `retain` pass that evaluates `is_expired()` once per session and collects the removed keys,
    `Receiver::cleanup(now)` on the sessions kept, then `on_session_closed` for the removed keys. -/
def cleanup (M : Machine σ π Out) (s : State σ Out) (now : Nat) : State σ Out :=
  let gone := s.table.filter (fun e => M.expired s.clock e.2.st)
  let kept := s.table.filter (fun e => !M.expired s.clock e.2.st)
  { s with
    table := kept.map (fun e => (e.1, { e.2 with st := (M.cleanup s.clock now e.2.st).1 })),
    outs := s.outs ++ kept.map (fun e => (e.1, e.2.key, (M.cleanup s.clock now e.2.st).2)),
    events := s.events ++ gone.map (fun e => Event.closed e.1),
    listeners := tell s.listeners (gone.map (fun e => Event.closed e.1)) }

/-- `Drop for MultiReceiver`: `on_session_closed` for every key of the table -/
def drop (s : State σ Out) : State σ Out :=
  { s with table := [], events := s.events ++ s.table.map (fun e => Event.closed e.1),
           listeners := tell s.listeners (s.table.map (fun e => Event.closed e.1)) }

def step (M : Machine σ π Out) (s : State σ Out) : Op π → State σ Out × Res
  | .push ep p => push M s ep p
  | .tick d => ({ s with clock := s.clock + d }, .unit)
  | .cleanup now => (cleanup M s now, .unit)
  | .addListen ep tsi =>
    match TsiFilter.add s.filter ep tsi with
    | .ok f => ({ s with filter := f }, .unit)
    | .error _ => (s, .panic)
  | .removeListen ep tsi => ({ s with filter := TsiFilter.remove s.filter ep tsi }, .unit)
  | .addAll ep =>
    match TsiFilter.addEndpointBypass s.filter ep with
    | .ok f => ({ s with filter := f }, .unit)
    | .error _ => (s, .panic)
  | .removeAll ep => ({ s with filter := TsiFilter.removeEndpointBypass s.filter ep }, .unit)
  | .setFiltering b => ({ s with filtering := b }, .unit)
  | .addListener =>
    ({ s with listeners := AL.set s.listeners s.listenersId [], listenersId := s.listenersId + 1 }, .unit)
  | .removeListener id =>
    ({ s with listeners := AL.del s.listeners id,
              retired := match AL.get s.listeners id with
                | some l => s.retired ++ [(id, l)]
                | none => s.retired }, .unit)
  | .drop => (drop s, .unit)

/-- a whole history -/
def run (M : Machine σ π Out) (s : State σ Out) : List (Op π) → State σ Out
  | [] => s
  | op :: ops => run M (step M s op).1 ops

/-! ### The code before the fix (kept for the record of the defect, see `Props/C18.lean`)

  `cleanup` used to evaluate `is_expired()` twice per session: once to collect the keys to notify, then again
  inside `retain(|_, v| !v.is_expired())`.  `is_expired` reads `Instant::now()`, so the second evaluation
  happens `dt ≥ 0` later. -/
namespace PreFix

def cleanup (M : Machine σ π Out) (s : State σ Out) (now dt : Nat) : State σ Out :=
  let notified := s.table.filter (fun e => M.expired s.clock e.2.st)
  let kept := s.table.filter (fun e => !M.expired (s.clock + dt) e.2.st)
  { s with
    table := kept.map (fun e => (e.1, { e.2 with st := (M.cleanup (s.clock + dt) now e.2.st).1 })),
    outs := s.outs ++ kept.map (fun e => (e.1, e.2.key, (M.cleanup (s.clock + dt) now e.2.st).2)),
    events := s.events ++ notified.map (fun e => Event.closed e.1),
    listeners := tell s.listeners (notified.map (fun e => Event.closed e.1)),
    clock := s.clock + dt }

end PreFix

/-! ### The concrete session machine used by the model driver: last-activity instant + packet count,
    `is_expired = elapsed > session_timeout` -/

structure Act where
  last : Nat
  n : Nat
deriving Repr, DecidableEq

def actMachine (timeout : Option Nat) : Machine Act Unit Unit where
  init t _ := ⟨t, 0⟩
  push t s _ := (⟨t, s.n + 1⟩, ())
  cleanup _ _ s := (s, ())
  expired t s := match timeout with
    | none => false
    | some d => decide (t - s.last > d)

end Flute.MultiRecv
