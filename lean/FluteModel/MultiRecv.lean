import FluteModel.TsiFilter
/-
  Model of src/receiver/multireceiver.rs (MultiReceiver): session table keyed by
  `ReceiverEndpoint { endpoint, tsi }`, TSI filter check before dispatch, listener notifications,
  `cleanup`, `Drop`.

  The per-session `Receiver` is a PARAMETER (`Machine`): an arbitrary state machine with the four entry
  points `MultiReceiver` calls (`Receiver::new`, `push`, `cleanup`, `is_expired`).  `Receiver` reads
  `Instant::now()` itself; the model passes the value of a model clock (`State.clock`, advanced only by
  `Op.tick`) to every entry point instead.  What the receiver does during a call (writer callbacks, result) is the
  output `Out`, logged under the key of the table entry; `Machine.keys` reads the (endpoint, tsi) argument of each
  callback in an output, `Machine.Lawful` says the machine forwards the key it was constructed with (proved for the
  instance built from the session-level receiver model `Flute.Recv`, see `MultiRecvRecv.lean`).
-/
namespace Flute.MultiRecv
open Flute Flute.TsiFilter

/-- `ReceiverEndpoint { endpoint, tsi }` -/
structure Key where
  ep : Endpoint
  tsi : Nat
deriving DecidableEq, Repr

/-- what `MultiReceiver::push` looks at in a parsed ALC packet (`alc.lct.tsi`, `alc.lct.close_session`);
    everything else (and the `now` argument) is `body` -/
structure Pkt (π : Type) where
  tsi : Nat
  close : Bool
  body : π

/-- `MultiReceiverListener::{on_session_open, on_session_closed}` -/
inductive Event
  | opened (k : Key)
  | closed (k : Key)
deriving DecidableEq, Repr

def Event.key : Event → Key
  | .opened k => k
  | .closed k => k

/-- the per-session state machine (`Receiver`).  `π` is the environment input of a call: for `push` the rest of
    the parsed packet and the `now` argument (`Pkt.body`); for `cleanup`, and for the destruction of the receiver,
    whatever else the real code reads at that moment (the `now` argument, wall-clock staleness of its objects).
    `Out` is what the receiver does to the outside during a call: its writer callbacks and its result. -/
structure Machine (σ π Out : Type) where
  /-- `Receiver::new(&key.endpoint, key.tsi, writer, config)` at instant `t` -/
  init : Nat → Key → σ
  /-- `Receiver::push(&alc, now)` at instant `t` -/
  push : Nat → σ → Pkt π → σ × Out
  /-- `Receiver::cleanup(now)` at instant `t` -/
  cleanup : Nat → π → σ → σ × Out
  /-- `Receiver::is_expired()` at instant `t` -/
  expired : Nat → σ → Bool
  /-- the `Box<Receiver>` is dropped (removed from the table, or the table itself is dropped): `Drop for
      ObjectReceiver` of every object it still holds calls `writer.error(..)` -/
  fini : Nat → π → σ → Out
  /-- the `(endpoint, tsi)` arguments of the writer callbacks contained in an output, one per callback -/
  keys : Out → List Key

/-- a session machine forwards the endpoint / TSI it was constructed with: `keyOf` reads the `endpoint`, `tsi` fields -/
def Machine.Lawful {σ π Out : Type} (M : Machine σ π Out) (keyOf : σ → Key) : Prop :=
  (∀ t k, keyOf (M.init t k) = k) ∧
  (∀ t s p, keyOf (M.push t s p).1 = keyOf s) ∧
  (∀ t i s, keyOf (M.cleanup t i s).1 = keyOf s) ∧
  (∀ t s p, ∀ k ∈ M.keys (M.push t s p).2, k = keyOf s) ∧
  (∀ t i s, ∀ k ∈ M.keys (M.cleanup t i s).2, k = keyOf s) ∧
  (∀ t i s, ∀ k ∈ M.keys (M.fini t i s), k = keyOf s)

structure State (σ Out : Type) where
  /-- `alc_receiver: HashMap<ReceiverEndpoint, Box<Receiver>>` -/
  table : List (Key × σ)
  /-- `tsifilter` -/
  filter : Filter
  /-- `enable_tsi_filtering` -/
  filtering : Bool
  /-- model clock standing for `Instant::now()` -/
  clock : Nat
  /-- what a listener registered from the start (and never removed) has been told, in order -/
  events : List Event
  /-- `listeners: HashMap<u64, Box<dyn MultiReceiverListener>>`: id ↦ what that listener has been told so far -/
  listeners : List (Nat × List Event)
  /-- `listeners_id` -/
  listenersId : Nat
  /-- ghost: the logs of listeners that were removed, as they stood at removal -/
  retired : List (Nat × List Event)
  /-- receiver outputs in order: (key of the table entry whose receiver produced it, output) -/
  outs : List (Key × Out)

/-- `MultiReceiver::new(writer, config, enable_tsi_filtering)` -/
def State.new {σ Out : Type} (filtering : Bool) : State σ Out :=
  { table := [], filter := Filter.new, filtering := filtering, clock := 0, events := [], listeners := [],
    listenersId := 0, retired := [], outs := [] }

inductive Op (π : Type)
  /-- `push(endpoint, pkt, now)`; `none` = `parse_alc_pkt` fails -/
  | push (ep : Endpoint) (p : Option (Pkt π))
  /-- time passes (the only thing that moves the clock) -/
  | tick (d : Nat)
  /-- `cleanup(now)` -/
  | cleanup (i : π)
  | addListen (ep : Endpoint) (tsi : Nat)
  | removeListen (ep : Endpoint) (tsi : Nat)
  | addAll (ep : Endpoint)
  | removeAll (ep : Endpoint)
  | setFiltering (b : Bool)
  /-- `add_listener(listener)` (returns `listeners_id`, then increments it) -/
  | addListener
  /-- `remove_listener(id)` -/
  | removeListener (id : Nat)
  /-- `Drop for MultiReceiver` (afterwards the table is empty) -/
  | drop (i : π)

/-- what the caller of one operation sees besides the callbacks -/
inductive Res
  /-- the packet reached a session's `Receiver::push` (whose result is part of `Out`) -/
  | done
  /-- `parse_alc_pkt` failed: `Err` -/
  | parseErr
  /-- rejected by the TSI filter: `Ok(())` -/
  | skipped
  /-- close-session packet for a session that does not exist: `Ok(())` -/
  | noSession
  /-- unit operations -/
  | unit
  /-- counter overflow panic in the filter (state unchanged: the panic precedes the write) -/
  | panic
deriving DecidableEq, Repr

variable {σ π Out : Type}

/-- `for listener in self.listeners.values() { listener.on_session_...(key) }` for a batch of events -/
def tell (ls : List (Nat × List Event)) (evs : List Event) : List (Nat × List Event) :=
  ls.map (fun e => (e.1, e.2 ++ evs))

/-- `MultiReceiver::push` -/
def push (M : Machine σ π Out) (s : State σ Out) (ep : Endpoint) : Option (Pkt π) → State σ Out × Res
  | none => (s, .parseErr)
  | some pkt =>
    if s.filtering && !(isValid s.filter ep pkt.tsi) then (s, .skipped) else
    let key : Key := ⟨ep, pkt.tsi⟩
    if pkt.close then
      match AL.get s.table key with
      | some st =>
        -- `receiver.push(&alc, now)`, then `self.alc_receiver.remove(&key)` drops the receiver, then the listeners
        let r := M.push s.clock st pkt
        ({ s with table := AL.del s.table key,
                  events := s.events ++ [.closed key],
                  listeners := tell s.listeners [.closed key],
                  outs := s.outs ++ [(key, r.2), (key, M.fini s.clock pkt.body r.1)] }, .done)
      | none => (s, .noSession)
    else
      -- get_receiver_or_create
      match AL.get s.table key with
      | some st =>
        let r := M.push s.clock st pkt
        ({ s with table := AL.set s.table key r.1,
                  outs := s.outs ++ [(key, r.2)] }, .done)
      | none =>
        let r := M.push s.clock (M.init s.clock key) pkt
        ({ s with table := AL.set s.table key r.1,
                  events := s.events ++ [.opened key],
                  listeners := tell s.listeners [.opened key],
                  outs := s.outs ++ [(key, r.2)] }, .done)

/-- `MultiReceiver::cleanup` (after `fix: evaluate session expiry once in MultiReceiver::cleanup`):
    one `retain` pass that evaluates `is_expired()` once per session, collects the removed keys and drops the
    removed receivers; `Receiver::cleanup(now)` on the sessions kept; then `on_session_closed` for the removed keys. -/
def cleanup (M : Machine σ π Out) (s : State σ Out) (i : π) : State σ Out :=
  let gone := s.table.filter (fun e => M.expired s.clock e.2)
  let kept := s.table.filter (fun e => !M.expired s.clock e.2)
  { s with
    table := kept.map (fun e => (e.1, (M.cleanup s.clock i e.2).1)),
    outs := s.outs ++ gone.map (fun e => (e.1, M.fini s.clock i e.2))
                   ++ kept.map (fun e => (e.1, (M.cleanup s.clock i e.2).2)),
    events := s.events ++ gone.map (fun e => Event.closed e.1),
    listeners := tell s.listeners (gone.map (fun e => Event.closed e.1)) }

/-- `Drop for MultiReceiver`: `on_session_closed` for every key of the table; then the fields are dropped, i.e.
    every receiver still in the table -/
def drop (M : Machine σ π Out) (s : State σ Out) (i : π) : State σ Out :=
  { s with table := [], events := s.events ++ s.table.map (fun e => Event.closed e.1),
           listeners := tell s.listeners (s.table.map (fun e => Event.closed e.1)),
           outs := s.outs ++ s.table.map (fun e => (e.1, M.fini s.clock i e.2)) }

def step (M : Machine σ π Out) (s : State σ Out) : Op π → State σ Out × Res
  | .push ep p => push M s ep p
  | .tick d => ({ s with clock := s.clock + d }, .unit)
  | .cleanup i => (cleanup M s i, .unit)
  | .addListen ep tsi =>
    match TsiFilter.add s.filter ep tsi with
    | .ok f => ({ s with filter := f }, .unit)
    | .error _ => (s, .panic)
  | .removeListen ep tsi => ({ s with filter := TsiFilter.remove s.filter ep tsi }, .unit)
  | .addAll ep =>
    match TsiFilter.addEndpointBypass s.filter ep with
    | .ok f => ({ s with filter := f }, .unit)
    | .error _ => (s, .panic)
  | .removeAll ep => ({ s with filter := TsiFilter.removeEndpointBypass s.filter ep }, .unit)
  | .setFiltering b => ({ s with filtering := b }, .unit)
  | .addListener =>
    ({ s with listeners := AL.set s.listeners s.listenersId [], listenersId := s.listenersId + 1 }, .unit)
  | .removeListener id =>
    ({ s with listeners := AL.del s.listeners id,
              retired := match AL.get s.listeners id with
                | some l => s.retired ++ [(id, l)]
                | none => s.retired }, .unit)
  | .drop i => (drop M s i, .unit)

/-- a whole history -/
def run (M : Machine σ π Out) (s : State σ Out) : List (Op π) → State σ Out
  | [] => s
  | op :: ops => run M (step M s op).1 ops

/-- what the driver prints after an operation: the entries the operation appended to the two logs -/
def newEvents (before after : State σ Out) : List Event := after.events.drop before.events.length
def newOuts (before after : State σ Out) : List (Key × Out) := after.outs.drop before.outs.length

/-! ### The code before the fix (kept for the record of the defect, see `Props/C18.lean`)

  `cleanup` used to evaluate `is_expired()` twice per session: once to collect the keys to notify, then again
  inside `retain(|_, v| !v.is_expired())`.  `is_expired` reads `Instant::now()`, so the second evaluation
  happens `dt ≥ 0` later. -/
namespace PreFix

def cleanup (M : Machine σ π Out) (s : State σ Out) (i : π) (dt : Nat) : State σ Out :=
  let notified := s.table.filter (fun e => M.expired s.clock e.2)
  let gone := s.table.filter (fun e => M.expired (s.clock + dt) e.2)
  let kept := s.table.filter (fun e => !M.expired (s.clock + dt) e.2)
  { s with
    table := kept.map (fun e => (e.1, (M.cleanup (s.clock + dt) i e.2).1)),
    outs := s.outs ++ gone.map (fun e => (e.1, M.fini (s.clock + dt) i e.2))
                   ++ kept.map (fun e => (e.1, (M.cleanup (s.clock + dt) i e.2).2)),
    events := s.events ++ notified.map (fun e => Event.closed e.1),
    listeners := tell s.listeners (notified.map (fun e => Event.closed e.1)),
    clock := s.clock + dt }

end PreFix

/-! ### The concrete session machine used by the model driver.

  The real `Receiver` is opaque to the driver: HOW MANY writer callbacks a call makes is reported by the
  implementation side as an annotation of the operation line (`#<key>=<n>`) and handed to this machine as the
  environment input; WHICH (endpoint, tsi) they carry is the machine's: the key it was constructed with.
  Expiry: last-activity instant, `is_expired = elapsed > session_timeout`. -/

structure Act where
  /-- `endpoint`, `tsi` fields -/
  key : Key
  /-- `last_activity` -/
  last : Nat
  n : Nat
deriving Repr, DecidableEq

/-- number of callbacks the annotation reports for `k` -/
def annot (a : List (Key × Nat)) (k : Key) : Nat := (AL.get a k).getD 0

def actMachine (timeout : Option Nat) : Machine Act (List (Key × Nat)) (List Key) where
  init t k := ⟨k, t, 0⟩
  -- for a close-flagged packet the annotation is the total of the call and of the destruction that follows: all of
  -- it is attributed to `fini` (the driver prints the two outputs together)
  push t s p := (⟨s.key, t, s.n + 1⟩, if p.close then [] else List.replicate (annot p.body s.key) s.key)
  cleanup _ a s := (s, List.replicate (annot a s.key) s.key)
  expired t s := match timeout with
    | none => false
    | some d => decide (t - s.last > d)
  fini _ a s := List.replicate (annot a s.key) s.key
  keys o := o

end Flute.MultiRecv
