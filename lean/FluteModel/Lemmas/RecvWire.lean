import FluteModel.RecvWire
import FluteModel.Lemmas.Total
import FluteModel.Lemmas.RecvTotal
/-
  The abstraction of an accepted datagram is a well-formed packet of the session model
  (`Pkt.WF`: FDT instance id below 2^20, sender-current-time within the 32-bit NTP-seconds range).
-/
namespace Flute.Recv
open Flute Flute.Bytes Flute.Lct Flute.Fti Flute.Alc Flute.Ntp
variable {σ : Type}

theorem ntpToSystemTime_range (ntp t : Nat) (hn : ntp / 2 ^ 32 < 2 ^ 32) (h : ntpToSystemTime ntp = .ok t) :
    t < 4294967296 * 1000000 := by
  unfold ntpToSystemTime at h
  simp only [] at h
  split at h
  · cases h
  · split at h
    · injection h with h
      subst h
      have hf : ntp % 2 ^ 32 * 1000000 / 2 ^ 32 < 1000000 := by
        have : ntp % 2 ^ 32 < 2 ^ 32 := Nat.mod_lt _ (by decide)
        apply Nat.div_lt_of_lt_mul
        omega
      simp only [Nat.reducePow] at hn hf ⊢
      omega
    · cases h

theorem parseSct_range (ext : List Nat) (hw : Wf ext) (t : Nat) (h : parseSct ext = .ok (some t)) :
    t < 4294967296 * 1000000 := by
  unfold parseSct at h
  split at h
  · cases h
  · rename_i h4
    rw [idx_ok ext 2 (by omega)] at h
    simp only [Out.bind_ok] at h
    split at h
    · cases h
    · rename_i hl
      split at h
      · cases h
      · obtain ⟨secs, hs, hsl⟩ := fld_lt ext hw 4 8 (by omega) (by omega)
        simp only [Nat.reducePow, Nat.reduceSub] at hsl
        rw [hs, Out.bind_ok] at h
        split at h
        · obtain ⟨frac, hf, hfl⟩ := fld_lt ext hw 8 12 (by omega) (by omega)
          simp only [Nat.reducePow, Nat.reduceSub] at hfl
          rw [hf, Out.bind_ok] at h
          cases hn : ntpToSystemTime (secs * 2 ^ 32 + frac) with
          | ok v =>
            rw [hn, Out.bind_ok] at h
            injection h with h; injection h with h; subst h
            exact ntpToSystemTime_range _ _ (by simp only [Nat.reducePow]; omega) hn
          | err => rw [hn] at h; cases h
          | panic w => rw [hn] at h; cases h
        · rw [Out.bind_ok] at h
          cases hn : ntpToSystemTime (secs * 2 ^ 32 + 0) with
          | ok v =>
            rw [hn, Out.bind_ok] at h
            injection h with h; injection h with h; subst h
            exact ntpToSystemTime_range _ _ (by simp only [Nat.reducePow]; omega) hn
          | err => rw [hn] at h; cases h
          | panic w => rw [hn] at h; cases h

theorem senderCurrentTime_range (d : List Nat) (hw : Wf d) (p : AlcPkt) (hinv : PktInv d p) (t : Nat)
    (h : getSenderCurrentTime d p = .ok (some t)) : t < 4294967296 * 1000000 := by
  unfold getSenderCurrentTime at h
  rcases getExt_cases d p.lct EXT_TIME hinv.hdr with he | he | ⟨r, he, hr⟩
  · rw [he] at h; cases h
  · rw [he] at h; cases h
  · rw [he, Out.bind_ok] at h
    exact parseSct_range r (fun b hb => hw b (hr.sub b hb)) t h

theorem fdtInfo_range (d : List Nat) (p : AlcPkt) (h : parseAlcPkt d = .ok p) (v id : Nat)
    (hf : p.fdtInfo = some (v, id)) : id < 2 ^ 20 := by
  unfold parseAlcPkt at h
  cases hl : parseLctHeader d with
  | err => rw [hl] at h; cases h
  | panic w => rw [hl] at h; cases h
  | ok lct =>
    rw [hl, Out.bind_ok] at h
    split at h
    · cases h
    · simp only [] at h
      split at h
      · cases h
      · cases h1 : getFti lct.cp d lct with
        | err => rw [h1] at h; cases h
        | panic w => rw [h1] at h; cases h
        | ok fti =>
          rw [h1, Out.bind_ok] at h
          cases h2 : getExt d lct EXT_CENC with
          | err => rw [h2] at h; cases h
          | panic w => rw [h2] at h; cases h
          | ok ce =>
            rw [h2, Out.bind_ok] at h
            cases h3 : cencOf ce with
            | err => rw [h3] at h; cases h
            | panic w => rw [h3] at h; cases h
            | ok cenc =>
              rw [h3, Out.bind_ok] at h
              cases h4 : fdtInfoOf d lct with
              | err => rw [h4] at h; cases h
              | panic w => rw [h4] at h; cases h
              | ok fi =>
                rw [h4, Out.bind_ok] at h
                injection h with h
                subst h
                simp only [] at hf
                subst hf
                unfold fdtInfoOf at h4
                split at h4
                · cases h5 : getExt d lct EXT_FDT with
                  | err => rw [h5] at h4; cases h4
                  | panic w => rw [h5] at h4; cases h4
                  | ok e =>
                    rw [h5, Out.bind_ok] at h4
                    cases e with
                    | none => cases h4
                    | some ext =>
                      simp only [] at h4
                      unfold parseExtFdt at h4
                      split at h4
                      · cases h4
                      · injection h4 with h4; injection h4 with h4
                        injection h4 with _ h4
                        rw [← h4]
                        exact Nat.mod_lt _ (by decide)
                · cases h4

/-- **the abstraction of every accepted datagram is well-formed** -/
theorem ofAlc_wf (d : List UInt8) (p : AlcPkt) (h : parseAlcPkt (d.map UInt8.toNat) = .ok p) :
    (ofAlc (d.map UInt8.toNat) p).WF := by
  rcases parseAlcPkt_cases (d.map UInt8.toNat) with h' | ⟨p', h', hinv⟩
  · rw [h'] at h; cases h
  · rw [h'] at h; injection h with h; subst h
    refine ⟨?_, ?_⟩
    · intro i hi
      simp only [ofAlc] at hi
      cases hfi : p'.fdtInfo with
      | none => rw [hfi] at hi; cases hi
      | some vi =>
        rw [hfi] at hi
        obtain ⟨v, id⟩ := vi
        simp only [Option.map_some, Option.some.injEq] at hi
        subst hi
        exact fdtInfo_range _ p' h' v id hfi
    · intro t ht
      simp only [ofAlc] at ht
      cases hs : getSenderCurrentTime (d.map UInt8.toNat) p' with
      | err => rw [hs] at ht; cases ht
      | panic w => rw [hs] at ht; cases ht
      | ok o =>
        rw [hs] at ht
        cases o with
        | none => cases ht
        | some u =>
          simp only [Option.some.injEq] at ht
          subst ht
          have := senderCurrentTime_range _ (wf_map_toNat d) p' hinv u hs
          exact ⟨Int.natCast_nonneg u, by omega⟩

/-- the parser never panics (agent wire's `parseAlcPkt_cases`), so `classify` never fails and what
    it hands on meets `OpOK`'s packet clause -/
theorem classify_ok (tsi : Nat) (d : List UInt8) :
    ∃ pd, classify tsi (d.map UInt8.toNat) = .ok pd ∧ ∀ q, pd = .pkt q → q.WF := by
  unfold classify
  rcases parseAlcPkt_cases (d.map UInt8.toNat) with h | ⟨p, h, _⟩
  · rw [h]; exact ⟨.reject, rfl, fun q hq => by cases hq⟩
  · rw [h]
    simp only []
    split
    · exact ⟨.otherTsi, rfl, fun q hq => by cases hq⟩
    · exact ⟨_, rfl, fun q hq => by injection hq with hq; subst hq; exact ofAlc_wf d p h⟩

theorem bop_abs_ok (tsi : Nat) (b : BOp) (hn : TimeSane (b.abs tsi).now) : OpOK (b.abs tsi) := by
  cases b with
  | data d now ans =>
    obtain ⟨pd, hpd, hwf⟩ := classify_ok tsi d
    simp only [BOp.abs, hpd] at hn ⊢
    exact ⟨hn, hwf⟩
  | cleanup now stale => exact hn

end Flute.Recv
