import FluteModel.Lemmas.BencStream
/-
  Simulation between the encoder reading an object from a buffer and the encoder reading the same bytes
  from a stream (any position at creation, any read schedule): same window, same `curr_sbn`,
  `stream.pos = curr_content_offset`; the only difference is that the stream side sets `read_end` one
  `read_block` later.  Hence the same packets, call by call.
-/
namespace Flute.BencSim
open Flute Flute.Fec Flute.BlockEnc Flute.BencArith Flute.BencBlocks Flute.BencInv Flute.BencLoop Flute.BencTrace
open Flute.BencShape Flute.BencStream

structure Sim (c : Bytes) (sb ss : Enc) : Prop where
  srcb : sb.src = .buffer c
  srcs : ∃ st, ss.src = .stream st ∧ st.bytes = c ∧ st.pos = sb.off
  re : ss.readEnd = true → sb.readEnd = true
  off : ss.off = sb.off
  sbn : ss.sbn = sb.sbn
  qaL : ss.aL = sb.aL
  qaS : ss.aS = sb.aS
  qnL : ss.nL = sb.nL
  blocks : ss.blocks = sb.blocks
  idx : ss.idx = sb.idx
  srcSent : ss.srcSent = sb.srcSent
  nbPkt : ss.nbPkt = sb.nbPkt
  stopped : ss.stopped = sb.stopped
  closable : ss.closable = sb.closable

variable {P : Params} {c : Bytes} {aL aS nL n : Nat}

/-- `read_block_buffer` on any state whose cutter fields are those of block `sbn < N` -/
theorem readBlockBuffer_eq (hS : Setup P c aL aS nL n) (hA : Accepts P c aL aS nL n) {s : Enc}
    (h1 : s.aL = aL) (h2 : s.aS = aS) (h3 : s.nL = nL) (hoff : s.off = BencBlocks.off P aL aS nL s.sbn) (hlt : s.sbn < n) :
    ∃ b0, blockAt P c aL aS nL s.sbn = some b0 ∧
      readBlockBuffer P s c = some { s with blocks := s.blocks ++ [b0], sbn := s.sbn + 1, readEnd := decide (s.sbn + 1 = n), off := BencBlocks.off P aL aS nL (s.sbn + 1) } := by
  have hsome := hA s.sbn hlt
  obtain ⟨b0, hb0⟩ := Option.isSome_iff_exists.mp hsome
  refine ⟨b0, hb0, ?_⟩
  have hoffs := off_succ hS hlt
  have hbl : s.blockLength = A aL aS nL s.sbn := by
    unfold Enc.blockLength A; rw [h1, h2, h3]
  have hend : (if s.off + s.blockLength * P.e > c.length then c.length else s.off + s.blockLength * P.e)
      = BencBlocks.off P aL aS nL (s.sbn + 1) := by
    rw [hoffs, hbl, hoff, ← hS.len_eq]
    split <;> omega
  have hbuf : (c.drop s.off).take (BencBlocks.off P aL aS nL (s.sbn + 1) - s.off) = bufAt P c aL aS nL s.sbn := by
    unfold bufAt; rw [hoff]
  simp only [readBlockBuffer]
  rw [hend, hbuf]
  have : Block.new P s.sbn (bufAt P c aL aS nL s.sbn) = some b0 := hb0
  rw [this]
  simp only
  have hre' : (BencBlocks.off P aL aS nL (s.sbn + 1) == c.length) = decide (s.sbn + 1 = n) := by
    rw [← hS.len_eq]
    have := off_succ_eq_len_iff hS hlt
    by_cases h : s.sbn + 1 = n
    · rw [this.mpr h]; simp [h]
    · have h2 : ¬ BencBlocks.off P aL aS nL (s.sbn + 1) = P.len := fun h3 => h (this.mp h3)
      simp [h, h2]
  rw [hre']

theorem rwa_readEnd {s : Enc} (h : s.readEnd = true) : ∀ m, readWindowAux P m s = s := by
  intro m; cases m with
  | zero => rfl
  | succ m => exact rwa_succ_end h

/-- `read_window` on both sides -/
theorem sim_readWindowAux (hS : Setup P c aL aS nL n) (hA : Accepts P c aL aS nL n) (tr : List Pkt) :
    ∀ (m : Nat) (sb ss : Enc), Sim c sb ss → Inv P c aL aS nL n sb → TInv P c aL aS nL tr sb →
      Sim c (readWindowAux P m sb) (readWindowAux P m ss) := by
  intro m
  induction m with
  | zero => intro sb ss h _ _; exact h
  | succ m ih =>
    intro sb ss hsim hI hT
    obtain ⟨st, hst, hbytes, hpos⟩ := hsim.srcs
    by_cases hreb : sb.readEnd = true
    · rw [rwa_succ_end hreb]
      by_cases hres : ss.readEnd = true
      · rw [rwa_succ_end hres]; exact hsim
      · have hres' : ss.readEnd = false := by simpa using hres
        by_cases hw : ss.blocks.length < P.window
        · rw [rwa_succ_cut hres' hw]
          -- the stream is at its end: `read` returns 0, `read_end` is set
          have hsbn : sb.sbn = n := hI.readEnd_iff.mp hreb
          have hoffL : sb.off = c.length := by rw [hI.off_eq, hsbn, off_n hS, hS.len_eq]
          obtain ⟨f1, f2, f3⟩ := fill_spec (ss.blockLength * P.e) st (ss.blockLength * P.e) [] (Nat.le_refl _)
          have hnil : (fill (ss.blockLength * P.e) st (ss.blockLength * P.e) []).1 = [] := by
            rw [f1, List.nil_append, List.drop_eq_nil_iff.mpr (by rw [hbytes, hpos, hoffL]; exact Nat.le_refl _)]; simp
          have hrb : readBlock P ss = { ss with src := .stream (fill (ss.blockLength * P.e) st (ss.blockLength * P.e) []).2, readEnd := true } := by
            unfold readBlock
            rw [hst]
            simp only [readBlockStream, hS.notLegacy, Bool.false_eq_true, if_false]
            generalize fill (ss.blockLength * P.e) st (ss.blockLength * P.e) [] = r at hnil
            obtain ⟨buf, st'⟩ := r
            simp only at hnil
            subst hnil
            simp
          rw [hrb, rwa_readEnd rfl]
          exact { hsim with
            srcs := ⟨_, rfl, by rw [f3, hbytes], by rw [f2, hbytes, hpos, hoffL]; omega⟩
            re := fun _ => hreb }
        · rw [rwa_succ_full hres' hw]; exact hsim
    · have hreb' : sb.readEnd = false := by simpa using hreb
      have hres' : ss.readEnd = false := by
        cases h : ss.readEnd with
        | false => rfl
        | true => exact absurd (hsim.re h) hreb
      by_cases hw : sb.blocks.length < P.window
      · have hws : ss.blocks.length < P.window := by rw [hsim.blocks]; exact hw
        rw [rwa_succ_cut hreb' hw, rwa_succ_cut hres' hws]
        have hlt : sb.sbn < n := by
          have := hI.sbn_le
          have h2 : ¬ sb.sbn = n := fun h => by have := hI.readEnd_iff.mpr h; simp [hreb'] at this
          omega
        -- buffer side
        obtain ⟨b0, hb0, heqb⟩ := readBlock_eq hS hA hI hreb'
        obtain ⟨hI', hT'⟩ := inv_cut hS hI hT hreb' hw hb0
        -- stream side
        have hlts : ss.sbn < n := by rw [hsim.sbn]; exact hlt
        obtain ⟨b1, hb1, heqs⟩ := readBlockBuffer_eq hS hA (s := ss) (by rw [hsim.qaL, hI.qaL]) (by rw [hsim.qaS, hI.qaS])
          (by rw [hsim.qnL, hI.qnL]) (by rw [hsim.off, hsim.sbn, hI.off_eq]) hlts
        rw [hsim.sbn, hb0] at hb1; cases hb1
        have hbl : ss.blockLength = A aL aS nL sb.sbn := by
          unfold Enc.blockLength A; rw [hsim.qaL, hsim.qaS, hsim.qnL, hsim.sbn, hI.qaL, hI.qaS, hI.qnL]
        have hoffb := off_lt hS hlt
        have hApos := A_pos aL aS nL sb.sbn hS.good.aS_pos hS.good.aS_le
        have hk : 0 < ss.blockLength * P.e := by rw [hbl]; exact Nat.mul_pos hApos hS.e_pos
        obtain ⟨st', hrs, hb', hp'⟩ := readBlockStream_eq_buffer P ss st hS.notLegacy (by rw [hpos, hsim.off])
          (by rw [hbytes, hsim.off, hI.off_eq, ← hS.len_eq]; exact hoffb.2) hk
        rw [hbytes, heqs] at hrs
        simp only at hrs
        have hrbs : readBlock P ss = { ss with src := .stream st', blocks := ss.blocks ++ [b0], sbn := ss.sbn + 1, off := BencBlocks.off P aL aS nL (ss.sbn + 1) } := by
          unfold readBlock
          rw [hst]
          simp only [hrs]
        rw [heqb, hrbs]
        apply ih _ _ _ hI' hT'
        have hoffs := off_succ hS hlt
        exact {
          srcb := hsim.srcb
          srcs := ⟨st', rfl, by rw [hb', hbytes], by
            rw [hp', hbytes, hbl, hsim.off, hI.off_eq, ← hS.len_eq]
            show _ = BencBlocks.off P aL aS nL (sb.sbn + 1)
            rw [hoffs]⟩
          re := fun h => by simp [hres'] at h
          off := by show BencBlocks.off P aL aS nL (ss.sbn + 1) = BencBlocks.off P aL aS nL (sb.sbn + 1); rw [hsim.sbn]
          sbn := by show ss.sbn + 1 = sb.sbn + 1; rw [hsim.sbn]
          qaL := hsim.qaL, qaS := hsim.qaS, qnL := hsim.qnL
          blocks := by show ss.blocks ++ [b0] = sb.blocks ++ [b0]; rw [hsim.blocks]
          idx := hsim.idx, srcSent := hsim.srcSent, nbPkt := hsim.nbPkt, stopped := hsim.stopped
          closable := hsim.closable }
      · have hws : ¬ ss.blocks.length < P.window := by rw [hsim.blocks]; exact hw
        rw [rwa_succ_full hreb' hw, rwa_succ_full hres' hws]; exact hsim

/-- the loop of `read` on both sides: same result, related states -/
theorem sim_readLoop (hS : Setup P c aL aS nL n) (hA : Accepts P c aL aS nL n) (force : Bool) (tr : List Pkt) :
    ∀ (fuel : Nat) (sb ss : Enc), Sim c sb ss → Inv P c aL aS nL n sb → TInv P c aL aS nL tr sb →
      (readLoop P force fuel sb).1 = (readLoop P force fuel ss).1 ∧
      Sim c (readLoop P force fuel sb).2 (readLoop P force fuel ss).2 := by
  intro fuel
  induction fuel with
  | zero => intro sb ss h _ _; exact ⟨rfl, h⟩
  | succ fuel ih =>
    intro sb ss hsim hI hT
    obtain ⟨hI1, hT1, _⟩ := inv_readWindowAux hS hA tr P.window sb hI hT
    have h1 := sim_readWindowAux hS hA tr P.window sb ss hsim hI hT
    unfold readLoop
    simp only
    generalize hs1b : readWindow P sb = s1b
    generalize hs1s : readWindow P ss = s1s
    have e1 : readWindowAux P P.window sb = s1b := hs1b
    have e2 : readWindowAux P P.window ss = s1s := hs1s
    rw [e1] at hI1 hT1
    rw [e1, e2] at h1
    rw [h1.blocks, h1.nbPkt, h1.idx, h1.srcSent, h1.closable]
    by_cases hemp : s1b.blocks.isEmpty = true
    · simp only [hemp, if_true]
      by_cases hn0 : s1b.nbPkt = 0
      · simp only [hn0, if_true]
        by_cases hl : P.len ≠ 0
        · rw [if_pos hl, if_pos hl]
          exact ⟨(by first | trivial | rfl), (by constructor <;> first | rfl | exact h1.srcb | exact h1.srcs | exact h1.re | exact h1.off | exact h1.sbn | exact h1.qaL | exact h1.qaS | exact h1.qnL | exact h1.stopped | exact h1.blocks | exact h1.idx | exact h1.srcSent | exact h1.nbPkt | exact h1.closable)⟩
        · rw [if_neg hl, if_neg hl]
          exact ⟨(by first | trivial | rfl), (by constructor <;> first | rfl | exact h1.srcb | exact h1.srcs | exact h1.re | exact h1.off | exact h1.sbn | exact h1.qaL | exact h1.qaS | exact h1.qnL | exact h1.stopped | exact h1.blocks | exact h1.idx | exact h1.srcSent | exact h1.nbPkt | exact h1.closable)⟩
      · simp only [hn0, if_false]
        exact ⟨(by first | trivial | rfl), (by constructor <;> first | rfl | exact h1.srcb | exact h1.srcs | exact h1.re | exact h1.off | exact h1.sbn | exact h1.qaL | exact h1.qaS | exact h1.qnL | exact h1.stopped | exact h1.blocks | exact h1.idx | exact h1.srcSent | exact h1.nbPkt | exact h1.closable)⟩
    · simp only [hemp, Bool.false_eq_true, if_false]
      have hne : s1b.blocks ≠ [] := fun h => hemp (List.isEmpty_iff.mpr h)
      have hlen : 0 < s1b.blocks.length := List.length_pos_iff.mpr hne
      generalize hidx' : (if s1b.idx ≥ s1b.blocks.length then 0 else s1b.idx) = idx
      have hidxlt : idx < s1b.blocks.length := by rw [← hidx']; split <;> omega
      have hget : s1b.blocks[idx]? = some s1b.blocks[idx] := List.getElem?_eq_getElem hidxlt
      generalize s1b.blocks[idx] = blk at hget
      rw [hget]
      simp only
      unfold Block.read
      cases hsh : blk.shards[blk.readIndex]? with
      | none =>
        simp only
        have hdr : blk.readIndex = blk.shards.length := by
          have h1' := (hI1.blocks_ok blk (List.mem_iff_getElem?.mpr ⟨idx, hget⟩)).2.2
          have h2 := List.getElem?_eq_none_iff.mp hsh
          omega
        obtain ⟨hI2, hT2⟩ := inv_erase hI1 hT1 hget hdr
        exact ih _ _ (by constructor <;> first | rfl | exact h1.srcb | exact h1.srcs | exact h1.re | exact h1.off | exact h1.sbn | exact h1.qaL | exact h1.qaS | exact h1.qnL | exact h1.stopped | exact h1.blocks | exact h1.idx | exact h1.srcSent | exact h1.nbPkt | exact h1.closable) hI2 hT2
      | some sh =>
        simp only
        exact ⟨(by first | trivial | rfl), (by constructor <;> first | rfl | exact h1.srcb | exact h1.srcs | exact h1.re | exact h1.off | exact h1.sbn | exact h1.qaL | exact h1.qaS | exact h1.qnL | exact h1.stopped | exact h1.blocks | exact h1.idx | exact h1.srcSent | exact h1.nbPkt | exact h1.closable)⟩

/-- one `read(force)` on both sides -/
theorem sim_read (hS : Setup P c aL aS nL n) (hA : Accepts P c aL aS nL n) {sb ss : Enc} {tr : List Pkt} (f : Bool)
    (hsim : Sim c sb ss) (hI : Inv P c aL aS nL n sb) (hT : TInv P c aL aS nL tr sb) :
    (BlockEnc.read P sb f).1 = (BlockEnc.read P ss f).1 ∧ Sim c (BlockEnc.read P sb f).2 (BlockEnc.read P ss f).2 := by
  unfold BlockEnc.read
  rw [hsim.stopped]
  by_cases hst : sb.stopped = true
  · simp only [hst, if_true]; exact ⟨(by first | trivial | rfl), hsim⟩
  · simp only [hst, Bool.false_eq_true, if_false]
    have hfuel : ∀ a b : Enc, a.blocks = b.blocks → readFuel P a = readFuel P b := by
      intro a b h; unfold readFuel; rw [h]
    cases f with
    | true =>
      simp only [if_true]
      rw [hfuel { ss with stopped := true } { sb with stopped := true } hsim.blocks]
      exact sim_readLoop hS hA true tr _ _ _ { hsim with stopped := rfl } (inv_stopped true hI) (tinv_stopped true hT)
    | false =>
      simp only [Bool.false_eq_true, if_false]
      rw [hfuel ss sb hsim.blocks]
      exact sim_readLoop hS hA false tr _ _ _ hsim hI hT

/-- fresh encoders for the same bytes are related, wherever the stream is positioned and whatever its schedule -/
theorem sim_init {closable : Bool} {st : BlockEnc.Stream} {sb0 ss0 : Enc} (hb : st.bytes = c)
    (h1 : Enc.new P (.buffer c) closable = .ok sb0) (h2 : Enc.new P (.stream st) closable = .ok ss0) :
    Sim c sb0 ss0 := by
  unfold Enc.new at h1 h2
  simp only at h1 h2
  cases hq : Partition.blockPartitioning P.b P.len P.e with
  | error w => rw [hq] at h1; cases h1
  | ok q =>
    obtain ⟨a1, a2, a3, a4⟩ := q
    rw [hq] at h1 h2
    simp only [Except.ok.injEq] at h1 h2
    subst h1 h2
    exact ⟨rfl, ⟨st.rewind, rfl, hb, rfl⟩, (fun h => by cases h), rfl, rfl, rfl, rfl, rfl, rfl, rfl, rfl, rfl, rfl, rfl⟩

/-- every run from the buffer is a run from the stream (same packets, same force flags) … -/
theorem sim_reads_bs (hS : Setup P c aL aS nL n) (hA : Accepts P c aL aS nL n) {sb0 ss0 sb : Enc}
    {tr : List (Bool × Pkt)} (hsim0 : Sim c sb0 ss0)
    (hI0 : Inv P c aL aS nL n sb0) (hT0 : TInv P c aL aS nL [] sb0) (hst0 : sb0.stopped = false)
    (hr : Reads P sb0 tr sb) : ∃ ss, Reads P ss0 tr ss ∧ Sim c sb ss := by
  induction hr with
  | nil => exact ⟨ss0, Reads.nil _, hsim0⟩
  | @snoc s s' tr f p hr' hstep ih =>
    obtain ⟨ss, hrs, hsim⟩ := ih
    obtain ⟨hI, hT, _, _⟩ := reach hS hA hI0 hT0 hst0 hr'
    obtain ⟨e1, e2⟩ := sim_read hS hA (tr := pkts tr) f hsim hI hT
    rw [hstep] at e1 e2
    refine ⟨(BlockEnc.read P ss f).2, Reads.snoc hrs ?_, e2⟩
    rw [Prod.ext_iff]; exact ⟨e1.symm, rfl⟩

/-- … and every run from the stream is a run from the buffer -/
theorem sim_reads_sb (hS : Setup P c aL aS nL n) (hA : Accepts P c aL aS nL n) {sb0 ss0 ss : Enc}
    {tr : List (Bool × Pkt)} (hsim0 : Sim c sb0 ss0)
    (hI0 : Inv P c aL aS nL n sb0) (hT0 : TInv P c aL aS nL [] sb0) (hst0 : sb0.stopped = false)
    (hr : Reads P ss0 tr ss) : ∃ sb, Reads P sb0 tr sb ∧ Sim c sb ss := by
  induction hr with
  | nil => exact ⟨sb0, Reads.nil _, hsim0⟩
  | @snoc s s' tr f p hr' hstep ih =>
    obtain ⟨sb, hrb, hsim⟩ := ih
    obtain ⟨hI, hT, _, _⟩ := reach hS hA hI0 hT0 hst0 hrb
    obtain ⟨e1, e2⟩ := sim_read hS hA (tr := pkts tr) f hsim hI hT
    rw [hstep] at e1 e2
    refine ⟨(BlockEnc.read P sb f).2, Reads.snoc hrb ?_, e2⟩
    rw [Prod.ext_iff]; exact ⟨e1, rfl⟩

/-- the executable run (unforced reads until something that is not a packet): same packets, related end states -/
theorem sim_runPairs (hS : Setup P c aL aS nL n) (hA : Accepts P c aL aS nL n) :
    ∀ (fuel : Nat) (sb ss : Enc) (tr : List Pkt), Sim c sb ss → Inv P c aL aS nL n sb → TInv P c aL aS nL tr sb →
      (runPairs P fuel sb).1 = (runPairs P fuel ss).1 ∧ Sim c (runPairs P fuel sb).2 (runPairs P fuel ss).2 := by
  intro fuel
  induction fuel with
  | zero => intro sb ss tr h _ _; exact ⟨rfl, h⟩
  | succ fuel ih =>
    intro sb ss tr hsim hI hT
    obtain ⟨e1, e2⟩ := sim_read hS hA (tr := tr) false hsim hI hT
    obtain ⟨r1, r2⟩ := read_spec hS hA (tr := tr) false hI hT
    unfold runPairs
    revert e1 e2 r1 r2
    generalize BlockEnc.read P sb false = rb
    generalize BlockEnc.read P ss false = rs
    intro e1 e2 r1 r2
    obtain ⟨ob, sb'⟩ := rb
    obtain ⟨os, ss'⟩ := rs
    simp only at e1 e2
    subst e1
    cases ob with
    | pkt p =>
      simp only
      by_cases hst : sb.stopped = true
      · have := r1 hst; cases this
      · have hst' : sb.stopped = false := by simpa using hst
        have hpost := r2 hst'
        simp only [Bool.false_eq_true, if_false] at hpost
        obtain ⟨hI', hT', _⟩ := hpost
        obtain ⟨i1, i2⟩ := ih sb' ss' (tr ++ [p]) e2 hI' hT'
        exact ⟨by rw [i1], i2⟩
    | none => exact ⟨rfl, hsim⟩
    | panic => exact ⟨rfl, hsim⟩
    | hang => exact ⟨rfl, hsim⟩

/-- no step of the encoder touches a buffer source -/
theorem readBlock_src_buffer (P : Params) {c : Bytes} {s : Enc} (h : s.src = .buffer c) : (readBlock P s).src = .buffer c := by
  unfold readBlock
  rw [h]
  simp only [readBlockBuffer]
  split
  · rename_i h2
    split at h2
    · cases h2
    · simp only [Option.some.injEq] at h2; subst h2; first | exact h | rfl
  · first | exact h | rfl

theorem rwa_src_buffer (P : Params) {c : Bytes} : ∀ (m : Nat) (s : Enc), s.src = .buffer c → (readWindowAux P m s).src = .buffer c := by
  intro m
  induction m with
  | zero => intro s h; exact h
  | succ m ih =>
    intro s h
    unfold readWindowAux
    split
    · exact h
    · split
      · exact ih _ (readBlock_src_buffer P h)
      · exact h

theorem readLoop_src_buffer (P : Params) {c : Bytes} (force : Bool) :
    ∀ (fuel : Nat) (s : Enc), s.src = .buffer c → (readLoop P force fuel s).2.src = .buffer c := by
  intro fuel
  induction fuel with
  | zero => intro s h; exact h
  | succ fuel ih =>
    intro s h
    have h1 : (readWindow P s).src = .buffer c := rwa_src_buffer P _ s h
    unfold readLoop
    simp only
    generalize readWindow P s = s1 at h1
    split
    · split
      · split <;> exact h1
      · exact h1
    · split
      · exact h1
      · split
        · exact ih _ h1
        · exact h1

theorem read_src_buffer (P : Params) {c : Bytes} {s : Enc} (f : Bool) (h : s.src = .buffer c) :
    (BlockEnc.read P s f).2.src = .buffer c := by
  unfold BlockEnc.read
  split
  · exact h
  · cases f with
    | true => exact readLoop_src_buffer P true _ _ h
    | false => exact readLoop_src_buffer P false _ _ h

theorem runAll_eq_runPairs (P : Params) : ∀ fuel s, runAll P fuel s = pkts (runPairs P fuel s).1 := by
  intro fuel
  induction fuel with
  | zero => intro s; rfl
  | succ fuel ih =>
    intro s
    unfold runAll runPairs
    split
    · rename_i p s' h; simp [pkts, ih s']
    · rfl

/-- executable: `k` consecutive transfers of the same object description (each a fresh `BlockEncoder::new`, i.e. a seek
    to the start for a stream; the source is handed on in whatever state the previous transfer left it) -/
def nTransfers (P : Params) (closable : Bool) (fuel : Nat) : Nat → Source → List (List Pkt)
  | 0, _ => []
  | k + 1, src =>
    match Enc.new P src closable with
    | .error _ => []
    | .ok s0 =>
      -- the source is handed on as the read that ended the transfer (`None`) left it (`release`: `src := e'.src`)
      pkts (runPairs P fuel s0).1 :: nTransfers P closable fuel k (BlockEnc.read P (runPairs P fuel s0).2 false).2.src

theorem nTransfers_stream (hS : Setup P c aL aS nL n) (hA : Accepts P c aL aS nL n) {closable : Bool} {sb0 : Enc}
    (hq : Partition.blockPartitioning P.b P.len P.e = .ok (aL, aS, nL, n))
    (h1 : Enc.new P (.buffer c) closable = .ok sb0) (fuel : Nat) :
    ∀ (k : Nat) (st : BlockEnc.Stream), st.bytes = c →
      nTransfers P closable fuel k (.stream st) = List.replicate k (pkts (runPairs P fuel sb0).1) := by
  intro k
  induction k with
  | zero => intro st _; rfl
  | succ k ih =>
    intro st hb
    have h2 : ∃ ss0, Enc.new P (.stream st) closable = .ok ss0 := by
      unfold Enc.new; simp only [hq]; exact ⟨_, rfl⟩
    obtain ⟨ss0, h2⟩ := h2
    have hsim := sim_init hb h1 h2
    have hs0 := new_state hq h1
    obtain ⟨hI0, hT0⟩ := inv_init hS closable
    rw [← hs0] at hI0 hT0
    obtain ⟨e1, e2⟩ := sim_runPairs hS hA fuel sb0 ss0 [] hsim hI0 hT0
    obtain ⟨hI, hT, _, _⟩ := reach hS hA hI0 hT0 (by rw [hs0]) (reads_runPairs P fuel sb0)
    obtain ⟨_, e3⟩ := sim_read hS hA (tr := pkts (runPairs P fuel sb0).1) false e2 hI hT
    obtain ⟨st', hst', hb', _⟩ := e3.srcs
    unfold nTransfers
    rw [h2]
    simp only
    rw [hst', ih st' hb', ← e1, List.replicate_succ]

theorem nTransfers_buffer (hS : Setup P c aL aS nL n) (hA : Accepts P c aL aS nL n) {closable : Bool} {sb0 : Enc}
    (hq : Partition.blockPartitioning P.b P.len P.e = .ok (aL, aS, nL, n))
    (h1 : Enc.new P (.buffer c) closable = .ok sb0) (fuel : Nat) :
    ∀ (k : Nat), nTransfers P closable fuel k (.buffer c) = List.replicate k (pkts (runPairs P fuel sb0).1) := by
  intro k
  induction k with
  | zero => rfl
  | succ k ih =>
    have hs0 := new_state hq h1
    obtain ⟨hI0, hT0⟩ := inv_init hS closable
    rw [← hs0] at hI0 hT0
    obtain ⟨hI, hT, _, _⟩ := reach hS hA hI0 hT0 (by rw [hs0]) (reads_runPairs P fuel sb0)
    have hsrc := read_src_buffer P (s := (runPairs P fuel sb0).2) false hI.src
    unfold nTransfers
    rw [h1]
    simp only
    rw [hsrc, ih, List.replicate_succ]

/-- the hypotheses shared by the whole-transfer theorems: repaired code, `E, B > 0`, non-empty object `c` of the
    announced length, `(aL, aS, nL, n)` = what `block_partitioning` returned, every block accepted by the codec.
    ANY window (`interleave_blocks`), ANY parity, ANY codec meeting the contract. -/
structure Cfg (P : Params) (c : Bytes) (aL aS nL n : Nat) : Prop where
  notLegacy : P.legacy = false
  e_pos : 0 < P.e
  b_pos : 0 < P.b
  len_eq : P.len = c.length
  l_pos : 0 < c.length
  part : Partition.blockPartitioning P.b P.len P.e = .ok (aL, aS, nL, n)
  accepts : Accepts P c aL aS nL n

theorem Cfg.setup {P : Params} {c : Bytes} {aL aS nL n : Nat} (h : Cfg P c aL aS nL n) : Setup P c aL aS nL n :=
  ⟨h.notLegacy, h.e_pos, h.len_eq, by rw [h.len_eq]; exact h.l_pos,
   good_of_partition P.b P.len P.e aL aS nL n h.b_pos h.e_pos (by rw [h.len_eq]; exact h.l_pos) h.part⟩

end Flute.BencSim
