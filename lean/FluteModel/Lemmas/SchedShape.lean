import FluteModel.Lemmas.SchedConst
/-
  Slots: the shape of `Sender.sessions` (one `SenderSessionList` per priority queue with
  `max(1, multiplex_files)` slots) never changes; object keys are pairwise distinct;
  the multiplex bound; no Rust panic (`State.panic`).
-/
namespace Flute.Sched

/-! ### shape of the session lists -/

def shape (qs : List QSess) : List (Nat × Nat) := qs.map (fun q => (q.prio, q.slots.length))

theorem readQueue_shape : ∀ k s q now ticks,
    ((readQueue k s q now ticks).2.1.prio, (readQueue k s q now ticks).2.1.slots.length) = (q.prio, q.slots.length) := by
  intro k
  induction k with
  | zero => intro s q now ticks; rfl
  | succ n ih =>
    intro s q now ticks
    unfold readQueue
    split
    · rfl
    · generalize runFile runFuel s q.prio _ now ticks = r
      obtain ⟨s', cur', out⟩ := r
      simp only []
      cases out with
      | none => rw [ih]; simp
      | hang => simp
      | pkt a b c d => simp
      | fdt a b c => simp

theorem readQueues_shape : ∀ qs s now ticks, shape (readQueues s qs now ticks).2.1 = shape qs := by
  intro qs
  induction qs with
  | nil => intro s now ticks; rfl
  | cons q rest ih =>
    intro s now ticks
    unfold readQueues
    have h := readQueue_shape q.slots.length s q now ticks
    generalize readQueue q.slots.length s q now ticks = r at h
    obtain ⟨s', q', out⟩ := r
    simp only [] at h ⊢
    cases out with
    | none =>
      simp only []
      have h2 := ih s' now ticks
      generalize readQueues s' rest now ticks = r2 at h2
      obtain ⟨s2, rest2, out2⟩ := r2
      simp only [shape, List.map_cons] at h2 ⊢
      rw [h, h2]
    | hang => simp only [shape, List.map_cons]; rw [h]
    | pkt a b c d => simp only [shape, List.map_cons]; rw [h]
    | fdt a b c => simp only [shape, List.map_cons]; rw [h]

theorem readTail_sessions (s : State) (now : Nat) : (readTail s now).1.sessions = s.sessions := by
  unfold readTail
  have := runFdt_sessions runFuel s now
  generalize runFdt runFuel s now = r at this
  obtain ⟨s', o⟩ := r
  cases o <;> exact this

theorem readMid_shape (s : State) (now : Nat) (ticks : List (Nat × Nat)) :
    shape (readMid s now ticks).1.sessions = shape s.sessions := by
  unfold readMid
  have h := readQueues_shape s.sessions s now ticks
  generalize readQueues s s.sessions now ticks = r at h
  obtain ⟨s2, qs, o⟩ := r
  simp only [] at h ⊢
  cases o with
  | none => simp only []; rw [readTail_sessions]; exact h
  | hang => exact h
  | pkt a b c d => exact h
  | fdt a b c => exact h

theorem read_shape (s : State) (now : Nat) (ticks : List (Nat × Nat)) :
    shape (read s now ticks).1.sessions = shape s.sessions := by
  unfold read
  have := runFdt_sessions runFuel (emit s (.opRead now)) now
  generalize runFdt runFuel (emit s (.opRead now)) now = r at this
  obtain ⟨s1, o⟩ := r
  simp only [emit_sessions] at this
  cases o with
  | none => simp only []; rw [readMid_shape]; exact congrArg shape this
  | hang => exact congrArg shape this
  | pkt a b c d => exact congrArg shape this
  | fdt a b c => exact congrArg shape this

theorem step_shape (s : State) (op : Op) : shape (step s op).sessions = shape s.sessions := by
  cases op with
  | add a =>
    show shape (addObject s a).1.sessions = _
    unfold addObject; simp only []; split
    · rfl
    · split <;> rfl
  | publish now =>
    show shape (publishOp s now).sessions = _
    unfold publishOp; rw [publishTry_sessions]; rfl
  | remove t => show shape (removeObject s t).1.sessions = _; unfold removeObject; split <;> rfl
  | trigger t ts =>
    show shape (triggerTransferAt s t ts).1.sessions = _
    unfold triggerTransferAt; split
    · rfl
    · split <;> rfl
  | read now ticks => exact read_shape s now ticks
  | setComplete => rfl

def slotsOf (m : Nat) : Nat := if m = 0 then 1 else m

theorem run_shape (cfg : Cfg) (tbl : List Nat) (ops : List Op) :
    shape (run (init cfg tbl) ops).sessions = cfg.queues.map (fun q => (q.1, slotsOf q.2)) := by
  have : ∀ (ops : List Op) (s : State), shape (run s ops).sessions = shape s.sessions := by
    intro ops
    induction ops with
    | nil => intro s; rfl
    | cons op rest ih => intro s; show shape (run (step s op) rest).sessions = _; rw [ih, step_shape]
  rw [this]
  simp [shape, init, slotsOf]

/-! ### distinct object keys -/

def KeysInv : State → Held → Prop := fun s _ =>
  (s.objs.map (fun f => f.key)).Nodup ∧ ∀ f ∈ s.objs, f.key < s.nextToi

theorem map_key_updF (l : List FileDesc) (k : Nat) (g : FileDesc → FileDesc) (hg : ∀ f, (g f).key = f.key) :
    (updF l k g).map (fun f => f.key) = l.map (fun f => f.key) := by
  unfold updF
  rw [List.map_map]
  apply List.map_congr_left
  intro f _
  simp only [Function.comp]
  split
  · exact hg f
  · rfl

theorem KeysInv.updF {s : State} {L : Held} (h : KeysInv s L) (s' : State) (k : Nat) (g : FileDesc → FileDesc)
    (hg : ∀ f, (g f).key = f.key) (ho : s'.objs = Sched.updF s.objs k g) (hn : s'.nextToi = s.nextToi) :
    KeysInv s' L := by
  refine ⟨by rw [ho, map_key_updF _ _ _ hg]; exact h.1, ?_⟩
  intro f hf
  rw [ho] at hf
  obtain ⟨f0, hf0, rfl⟩ := mem_updF hf
  rw [hn]
  split
  · rw [hg]; exact h.2 f0 hf0
  · exact h.2 f0 hf0

theorem KeysInv.same {s : State} {L : Held} (h : KeysInv s L) (s' : State) (L' : Held)
    (ho : s'.objs = s.objs) (hn : s'.nextToi = s.nextToi) : KeysInv s' L' := by
  unfold KeysInv; rw [ho, hn]; exact h

theorem KeysInv.publish {s : State} {L : Held} (h : KeysInv s L) (now : Nat) : KeysInv (publish s now) L := by
  refine ⟨?_, ?_⟩
  · rw [publish_objs, List.map_map]
    have : ((fun f : FileDesc => f.key) ∘ pubMark s.files) = (fun f => f.key) := by
      funext f; simp
    rw [this]; exact h.1
  · intro f hf
    rw [publish_objs, List.mem_map] at hf
    obtain ⟨f0, hf0, rfl⟩ := hf
    show (pubMark s.files f0).key < s.nextToi
    rw [pubMark_key]; exact h.2 f0 hf0

theorem fdtPop_nextToi (s : State) : (fdtPop s).nextToi = s.nextToi := by unfold fdtPop; split <;> rfl

theorem transferDoneFdt_objs (s : State) (k now : Nat) : (transferDoneFdt s k now).objs = s.objs := by
  unfold transferDoneFdt; simp only []; split
  · split <;> rfl
  · rfl
theorem transferDoneFdt_nextToi (s : State) (k now : Nat) : (transferDoneFdt s k now).nextToi = s.nextToi := by
  unfold transferDoneFdt; simp only []; split
  · split <;> rfl
  · rfl

theorem KeysInv.closed : Closed0 KeysInv where
  perm := fun _ _ _ _ h => h
  leaveFiles := fun _ _ _ h => h
  enterFiles := fun _ _ _ _ h _ _ => h
  emitRead := fun _ _ _ _ h _ => h
  emitIdle := fun _ _ _ _ h _ => h
  publish := fun _ _ now _ h _ => h.publish now
  fdtAdvance := fun s L now _ h _ _ => by
    rcases fdtAdvance_cases s now with ⟨e, _⟩ | ⟨k, f, _, _, _, e⟩
    · rw [e]; exact h.same _ _ (fdtPop_objs s) (fdtPop_nextToi s)
    · rw [e]; exact h.same _ _ (fdtPop_objs s) (fdtPop_nextToi s)
  fileStart := fun s L _ now tk t _ h _ _ => by
    have h1 : KeysInv (fileStartStep s t now tk) L := h.updF _ t (fun f => transferInit f now tk) (fun _ => rfl) rfl rfl
    unfold autoPublish; split
    · exact publishTry_elim (P := fun x => KeysInv x L) _ now (h1.publish now) h1
    · exact h1
  pkt := fun s L _ c _ _ _ _ _ _ h _ _ _ _ _ => h.updF _ c.key tickInfo (fun _ => rfl) rfl rfl
  done := fun s L _ c now _ _ _ h _ _ _ =>
    h.updF _ c.key (fun f => transferDoneInfo f now) (fun _ => rfl) (transferDoneFile_objs s c.key now)
      (transferDoneFile_nextToi s c.key now)
  fdtPkt := fun _ _ _ _ _ _ _ _ _ h _ _ _ _ _ => h
  fdtDone := fun s L c _ now _ _ h _ _ _ _ _ =>
    h.same _ _ (by unfold fdtRelease; exact transferDoneFdt_objs s c.key now)
      (by unfold fdtRelease; exact transferDoneFdt_nextToi s c.key now)

theorem KeysInv.closedOps : ClosedOps0 KeysInv where
  add := fun s L a _ h => by
    unfold addObject; simp only []
    have hfail : ∀ e : Ev, KeysInv (emit { s with nextToi := s.nextToi + 1 } e) L := fun e =>
      ⟨h.1, fun f hf => Nat.lt_succ_of_lt (h.2 f hf)⟩
    split
    · exact hfail _
    · split
      · exact hfail _
      · refine ⟨?_, ?_⟩
        · show ((s.objs ++ [_]).map (fun f : FileDesc => f.key)).Nodup
          rw [List.map_append]
          refine List.nodup_append.mpr ⟨h.1, by simp, ?_⟩
          intro a ha b hb
          simp only [List.map_cons, List.map_nil, List.mem_singleton] at hb
          obtain ⟨f, hf, rfl⟩ := List.mem_map.mp ha
          have := h.2 f hf
          subst hb
          exact Nat.ne_of_lt this
        · intro f hf
          have hf' : f ∈ s.objs ++ [_] := hf
          rcases List.mem_append.mp hf' with hf' | hf'
          · exact Nat.lt_succ_of_lt (h.2 f hf')
          · simp only [List.mem_singleton] at hf'; subst hf'; exact Nat.lt_succ_self _
  remove := fun s L t _ h => by unfold removeObject; split <;> exact h
  trigger := fun s L t ts _ h => by
    unfold triggerTransferAt; split
    · exact h
    · split
      · exact h
      · exact h.updF _ t (fun f => resetLastTransfer f ts) (fun _ => rfl) rfl rfl
  publishOp := fun s L now _ h =>
    publishTry_elim (P := fun x => KeysInv x L) (emit s (.opPublish now)) now
      (KeysInv.publish (s := emit s (.opPublish now)) h now) h
  complete := fun _ _ _ h => h

theorem keys_run (cfg : Cfg) (tbl : List Nat) (ops : List Op) :
    ((run (init cfg tbl) ops).objs.map (fun f => f.key)).Nodup :=
  (inv_run KeysInv.closed KeysInv.closedOps cfg tbl ⟨by simp [init], by simp [init]⟩ ops).1

/-! ### counting -/

theorem nodup_subset_length : ∀ (l₁ l₂ : List Nat), l₁.Nodup → (∀ a ∈ l₁, a ∈ l₂) → l₁.length ≤ l₂.length := by
  intro l₁
  induction l₁ with
  | nil => intro l₂ _ _; exact Nat.zero_le _
  | cons a r ih =>
    intro l₂ hn hs
    have ha : a ∈ l₂ := hs a List.mem_cons_self
    have hn' := List.nodup_cons.mp hn
    have hsub : ∀ b ∈ r, b ∈ l₂.erase a := by
      intro b hb
      have hne : b ≠ a := fun e => hn'.1 (e ▸ hb)
      exact (List.mem_erase_of_ne hne).mpr (hs b (List.mem_cons_of_mem _ hb))
    have := ih (l₂.erase a) hn'.2 hsub
    rw [List.length_erase_of_mem ha] at this
    have hpos : 0 < l₂.length := List.length_pos_of_mem ha
    simp only [List.length_cons]
    omega

theorem heldSlots_length (p : Nat) : ∀ l : List (Option Cur), (heldSlots p l).length ≤ l.length := by
  intro l
  induction l with
  | nil => exact Nat.le_refl _
  | cons a r ih =>
    have e : heldSlots p (a :: r) = optHeld p a ++ heldSlots p r := by simp [heldSlots]
    rw [e, List.length_append, List.length_cons]
    cases a with
    | none => simp only [optHeld, List.length_nil]; omega
    | some c => simp only [optHeld, List.length_cons, List.length_nil]; omega

theorem heldSlots_prio (p : Nat) : ∀ (l : List (Option Cur)) pc, pc ∈ heldSlots p l → pc.1 = p := by
  intro l
  induction l with
  | nil => intro pc h; simp [heldSlots] at h
  | cons a r ih =>
    intro pc h
    simp only [heldSlots, List.flatMap_cons, List.mem_append] at h
    rcases h with h | h
    · cases a with
      | none => simp [optHeld] at h
      | some c => simp only [optHeld, List.mem_singleton] at h; rw [h]
    · exact ih pc h

/-- busy slots of priority `p` are bounded by the slots configured for `p` -/
theorem held_filter_length (p : Nat) : ∀ qs : List QSess,
    ((held qs).filter (fun pc => pc.1 == p)).length ≤
      (((shape qs).filter (fun q => q.1 == p)).map (fun q => q.2)).sum := by
  intro qs
  induction qs with
  | nil => simp [held, shape]
  | cons q rest ih =>
    simp only [held, List.flatMap_cons, List.filter_append, List.length_append, shape, List.map_cons] at *
    by_cases hp : q.prio = p
    · have h1 : ((heldQ q).filter (fun pc => pc.1 == p)).length ≤ q.slots.length :=
        Nat.le_trans (List.length_filter_le _ _) (heldSlots_length q.prio q.slots)
      simp only [List.filter_cons, hp, beq_self_eq_true, if_true, List.map_cons, List.sum_cons]
      omega
    · have h1 : (heldQ q).filter (fun pc => pc.1 == p) = [] := by
        rw [List.filter_eq_nil_iff]
        intro pc hpc
        have := heldSlots_prio q.prio q.slots pc hpc
        simp [this, hp]
      have hp' : (q.prio == p) = false := by simpa using hp
      simp only [List.filter_cons, hp', h1, List.length_nil, Nat.zero_add]
      exact ih

theorem getF_of_mem_nodup : ∀ (l : List FileDesc), (l.map (fun f => f.key)).Nodup → ∀ f ∈ l, getF l f.key = some f := by
  intro l
  induction l with
  | nil => intro _ f hf; cases hf
  | cons a r ih =>
    intro hn f hf
    rw [getF_cons]
    simp only [List.map_cons, List.nodup_cons] at hn
    rcases List.mem_cons.mp hf with rfl | hf
    · simp
    · have : a.key ≠ f.key := fun e => hn.1 (List.mem_map.mpr ⟨f, hf, e.symm⟩)
      rw [if_neg this]; exact ih hn.2 f hf

theorem multiplex_bound_aux (cfg : Cfg) (tbl : List Nat) (ops : List Op) (p : Nat) :
    ((run (init cfg tbl) ops).objs.filter (fun f => f.prio == p && f.info.transferring)).length ≤
      ((cfg.queues.filter (fun q => q.1 == p)).map (fun q => slotsOf q.2)).sum := by
  have hw := wf_run cfg tbl ops
  have hk := keys_run cfg tbl ops
  have hsh := run_shape cfg tbl ops
  generalize run (init cfg tbl) ops = s at hw hk hsh
  -- keys of the objects in transfer in queue p
  have hsub : (s.objs.filter (fun f => f.prio == p && f.info.transferring)).Sublist s.objs := List.filter_sublist
  have hnd : ((s.objs.filter (fun f => f.prio == p && f.info.transferring)).map (fun f => f.key)).Nodup :=
    (hsub.map _).nodup hk
  have hin : ∀ a ∈ (s.objs.filter (fun f => f.prio == p && f.info.transferring)).map (fun f => f.key),
      a ∈ ((heldOf s).filter (fun pc => pc.1 == p)).map (fun pc => pc.2.key) := by
    intro a ha
    obtain ⟨f, hf, rfl⟩ := List.mem_map.mp ha
    have hf' := List.mem_filter.mp hf
    simp only [Bool.and_eq_true, beq_iff_eq] at hf'
    obtain ⟨pc, hpc, e⟩ := hw.transHeld f hf'.1 hf'.2.2
    obtain ⟨f', hf'', _, hp⟩ := hw.heldObj pc hpc
    rw [e, getF_of_mem_nodup s.objs hk f hf'.1] at hf''
    cases hf''
    refine List.mem_map.mpr ⟨pc, List.mem_filter.mpr ⟨hpc, ?_⟩, e⟩
    simp [← hp, hf'.2.1]
  have h1 := nodup_subset_length _ _ hnd hin
  rw [List.length_map, List.length_map] at h1
  have h2 := held_filter_length p s.sessions
  rw [hsh] at h2
  have h3 : (((cfg.queues.map (fun q => (q.1, slotsOf q.2))).filter (fun q => q.1 == p)).map (fun q => q.2)).sum =
      ((cfg.queues.filter (fun q => q.1 == p)).map (fun q => slotsOf q.2)).sum := by
    rw [List.filter_map, List.map_map]
    rfl
  rw [h3] at h2
  exact Nat.le_trans h1 h2

/-! ### no Rust panic -/

def SafeInv : State → Held → Prop := fun s _ => s.panic = none

theorem SafeInv.same {s : State} {L : Held} (h : SafeInv s L) (s' : State) (L' : Held)
    (hp : s'.panic = s.panic) (_hf : s'.fdtid = s.fdtid) : SafeInv s' L' := by
  unfold SafeInv; rw [hp]; exact h

theorem SafeInv.publish {s : State} {L : Held} (h : SafeInv s L) (now : Nat) : SafeInv (publish s now) L := h

theorem fdtPop_panic (s : State) : (fdtPop s).panic = s.panic := by unfold fdtPop; split <;> rfl
theorem fdtPop_fdtid (s : State) : (fdtPop s).fdtid = s.fdtid := by unfold fdtPop; split <;> rfl
theorem transferDoneFdt_panic (s : State) (k now : Nat) : (transferDoneFdt s k now).panic = s.panic := by
  unfold transferDoneFdt; simp only []; split
  · split <;> rfl
  · rfl
theorem transferDoneFdt_fdtid (s : State) (k now : Nat) : (transferDoneFdt s k now).fdtid = s.fdtid := by
  unfold transferDoneFdt; simp only []; split
  · split <;> rfl
  · rfl
theorem transferDoneFile_panic (s : State) (t now : Nat) : (transferDoneFile s t now).panic = s.panic := by
  rw [transferDoneFile_eq]; split
  · rfl
  · split
    · split <;> rfl
    · rfl
theorem transferDoneFile_fdtid (s : State) (t now : Nat) : (transferDoneFile s t now).fdtid = s.fdtid := by
  rw [transferDoneFile_eq]; split
  · rfl
  · split
    · split <;> rfl
    · rfl

theorem SafeInv.closed : Closed0 SafeInv where
  perm := fun _ _ _ _ h => h
  leaveFiles := fun _ _ _ h => h
  enterFiles := fun _ _ _ _ h _ _ => h
  emitRead := fun _ _ _ _ h _ => h
  emitIdle := fun _ _ _ _ h _ => h
  publish := fun _ _ now _ h _ => h.publish now
  fdtAdvance := fun s L now _ h _ _ => by
    rcases fdtAdvance_cases s now with ⟨e, _⟩ | ⟨k, f, _, _, _, e⟩
    · rw [e]; exact h.same _ _ (fdtPop_panic s) (fdtPop_fdtid s)
    · rw [e]; exact h.same _ _ (fdtPop_panic s) (fdtPop_fdtid s)
  fileStart := fun s L _ now tk t _ h _ _ => by
    have h1 : SafeInv (fileStartStep s t now tk) L := h.same _ _ rfl rfl
    unfold autoPublish; split
    · exact publishTry_elim (P := fun x => SafeInv x L) _ now (h1.publish now) h1
    · exact h1
  pkt := fun _ _ _ _ _ _ _ _ _ _ h _ _ _ _ _ => h
  done := fun s L _ c now _ _ _ h _ _ _ =>
    h.same _ _ (transferDoneFile_panic s c.key now) (transferDoneFile_fdtid s c.key now)
  fdtPkt := fun _ _ _ _ _ _ _ _ _ h _ _ _ _ _ => h
  fdtDone := fun s L c _ now _ _ h _ _ _ _ _ =>
    h.same _ _ (by unfold fdtRelease; exact transferDoneFdt_panic s c.key now)
      (by unfold fdtRelease; exact transferDoneFdt_fdtid s c.key now)

theorem SafeInv.closedOps : ClosedOps0 SafeInv where
  add := fun s L a _ h => by
    unfold addObject; simp only []; split
    · exact h
    · split <;> exact h
  remove := fun s L t _ h => by unfold removeObject; split <;> exact h
  trigger := fun s L t ts _ h => by
    unfold triggerTransferAt; split
    · exact h
    · split <;> exact h
  publishOp := fun s L now _ h =>
    publishTry_elim (P := fun x => SafeInv x L) (emit s (.opPublish now)) now h h
  complete := fun _ _ _ h => h

theorem safe_run (cfg : Cfg) (tbl : List Nat) (ops : List Op) :
    (run (init cfg tbl) ops).panic = none :=
  inv_run SafeInv.closed SafeInv.closedOps cfg tbl rfl ops

end Flute.Sched
