import FluteModel.TsiFilter
/- lemmas about the association lists standing for `HashMap` -/
namespace Flute.AL
variable {κ ν : Type} [DecidableEq κ]

@[simp] theorem get_nil (k : κ) : get ([] : List (κ × ν)) k = none := rfl

theorem get_cons (k' : κ) (v : ν) (r : List (κ × ν)) (k : κ) :
    get ((k', v) :: r) k = if k' = k then some v else get r k := rfl

theorem get_set (m : List (κ × ν)) (k : κ) (v : ν) (x : κ) :
    get (set m k v) x = if x = k then some v else get m x := by
  induction m with
  | nil =>
    by_cases h : x = k
    · subst h; simp [set, get]
    · have : ¬ k = x := fun h2 => h h2.symm
      simp [set, get, h, this]
  | cons e r ih =>
    obtain ⟨k', v'⟩ := e
    by_cases hk : k' = k
    · subst hk
      by_cases hx : x = k'
      · subst hx; simp [set, get]
      · have : ¬ k' = x := fun h2 => hx h2.symm
        simp [set, get, hx, this]
    · by_cases hx : x = k
      · subst hx
        simp [set, get, hk, ih]
      · simp [set, get, hk, ih, hx]

theorem get_del (m : List (κ × ν)) (k : κ) (x : κ) :
    get (del m k) x = if x = k then none else get m x := by
  induction m with
  | nil => simp [del]
  | cons e r ih =>
    obtain ⟨k', v'⟩ := e
    by_cases hk : k' = k
    · subst hk
      by_cases hx : x = k'
      · subst hx; simp [del, ih]
      · have : ¬ k' = x := fun h2 => hx h2.symm
        simp [del, get, ih, hx, this]
    · by_cases hx : x = k
      · subst hx
        simp [del, get, hk, ih]
      · simp [del, get, hk, ih, hx]

theorem get_eq_none_iff (m : List (κ × ν)) (k : κ) : get m k = none ↔ k ∉ keys m := by
  induction m with
  | nil => simp [keys]
  | cons e r ih =>
    obtain ⟨k', v'⟩ := e
    simp only [get, keys, List.map_cons, List.mem_cons, not_or]
    simp only [keys] at ih
    split
    · rename_i h; subst h; simp
    · rename_i h; rw [ih]; constructor
      · intro h2; exact ⟨fun h3 => h h3.symm, h2⟩
      · intro h2; exact h2.2

theorem get_isSome_iff (m : List (κ × ν)) (k : κ) : (get m k).isSome = true ↔ k ∈ keys m := by
  have := get_eq_none_iff m k
  cases h : get m k <;> simp_all

theorem keys_set (m : List (κ × ν)) (k : κ) (v : ν) :
    keys (set m k v) = if k ∈ keys m then keys m else keys m ++ [k] := by
  induction m with
  | nil => simp [set, keys]
  | cons e r ih =>
    obtain ⟨k', v'⟩ := e
    simp only [keys] at ih
    by_cases hk : k' = k
    · subst hk; simp [set, keys]
    · have hk2 : ¬ k = k' := fun h2 => hk h2.symm
      simp only [set, keys, hk, ↓reduceIte, List.map_cons, ih, List.mem_cons, hk2, false_or]
      split <;> simp_all

theorem keys_del (m : List (κ × ν)) (k : κ) : keys (del m k) = (keys m).filter (fun x => x ≠ k) := by
  induction m with
  | nil => simp [del, keys]
  | cons e r ih =>
    obtain ⟨k', v'⟩ := e
    simp only [keys] at ih
    simp only [del, keys]
    split
    · rename_i h; subst h; simp [ih]
    · rename_i h; simp [ih, h]

theorem nodup_keys_set (m : List (κ × ν)) (k : κ) (v : ν) (h : (keys m).Nodup) : (keys (set m k v)).Nodup := by
  rw [keys_set]
  split
  · exact h
  · rename_i hk
    rw [List.nodup_append]
    refine ⟨h, by simp, ?_⟩
    intro a ha b hb
    simp at hb; subst hb
    intro hab; subst hab; exact hk ha

theorem nodup_keys_del (m : List (κ × ν)) (k : κ) (h : (keys m).Nodup) : (keys (del m k)).Nodup := by
  rw [keys_del]; exact h.filter _

/-- on unique keys, `retain` on values commutes with `get` -/
theorem get_filter (m : List (κ × ν)) (p : ν → Bool) (k : κ) (h : (keys m).Nodup) :
    get (m.filter (fun e => p e.2)) k = (get m k).filter p := by
  induction m with
  | nil => simp
  | cons e r ih =>
    obtain ⟨k', v'⟩ := e
    simp only [keys, List.map_cons, List.nodup_cons] at h
    have ih := ih h.2
    simp only [List.filter_cons]
    by_cases hk : k' = k
    · subst hk
      have hnone : get r k' = none := (get_eq_none_iff r k').2 h.1
      cases hp : p v'
      · simp only [Bool.false_eq_true, ↓reduceIte, get, Option.filter, hp]
        rw [ih, hnone]; rfl
      · simp [get, Option.filter, hp]
    · cases hp : p v'
      · simp only [Bool.false_eq_true, ↓reduceIte, get, hk]
        exact ih
      · simp only [↓reduceIte, get, hk]
        exact ih

theorem get_map_val (m : List (κ × ν)) (f : κ → ν → ν) (k : κ) :
    get (m.map (fun e => (e.1, f e.1 e.2))) k = (get m k).map (f k) := by
  induction m with
  | nil => simp
  | cons e r ih =>
    obtain ⟨k', v'⟩ := e
    simp only [List.map_cons, get]
    split
    · rename_i h; subst h; simp
    · exact ih

omit [DecidableEq κ] in
theorem keys_map_val (m : List (κ × ν)) (f : κ → ν → ν) :
    keys (m.map (fun e => (e.1, f e.1 e.2))) = keys m := by
  simp [keys, List.map_map, Function.comp_def]

omit [DecidableEq κ] in
theorem nodup_keys_filter (m : List (κ × ν)) (p : κ × ν → Bool) (h : (keys m).Nodup) :
    (keys (m.filter p)).Nodup := by
  unfold keys at *
  exact List.Nodup.sublist (List.Sublist.map _ List.filter_sublist) h

theorem mem_of_get (m : List (κ × ν)) (k : κ) (v : ν) (h : get m k = some v) : (k, v) ∈ m := by
  induction m with
  | nil => simp at h
  | cons e r ih =>
    obtain ⟨k', v'⟩ := e
    simp only [get] at h
    split at h
    · rename_i hk; subst hk; simp at h; subst h; simp
    · exact List.mem_cons_of_mem _ (ih h)

theorem get_of_mem (m : List (κ × ν)) (k : κ) (v : ν) (hn : (keys m).Nodup) (h : (k, v) ∈ m) : get m k = some v := by
  induction m with
  | nil => simp at h
  | cons e r ih =>
    obtain ⟨k', v'⟩ := e
    simp only [keys, List.map_cons, List.nodup_cons] at hn
    simp only [List.mem_cons, Prod.mk.injEq] at h
    simp only [get]
    rcases h with ⟨h1, h2⟩ | h
    · subst h1; subst h2; simp
    · split
      · rename_i hk; subst hk
        exfalso; apply hn.1
        exact List.mem_map.2 ⟨(k', v), h, rfl⟩
      · exact ih hn.2 h

end Flute.AL
