/-
  Helper lemmas for C15 about the sender glue of `FluteModel/Toi.lean`: the system invariant
  (allocator invariant + "the live TOIs are exactly the reserved set"), its preservation by every
  operation, absence of panics, and the bookkeeping of the allocated/released event trace.
  Core Lean only.
-/
import FluteModel.Lemmas.Toi
namespace Flute.Toi

/-! ### tables -/

theorem Tab.del_perm : ∀ (t : Tab) (k v : Nat), t.find? k = some v →
    List.Perm t.tois (v :: (t.del k).tois) := by
  intro t
  induction t with
  | nil => intro k v h; simp [Tab.find?] at h
  | cons a r ih =>
    intro k v h
    obtain ⟨k', v'⟩ := a
    by_cases hk : k' = k
    · simp only [Tab.find?, hk, ↓reduceIte, Option.some.injEq] at h
      subst h
      simp [Tab.del, hk, Tab.tois]
    · simp only [Tab.find?, hk, ↓reduceIte] at h
      have := ih k v h
      simp only [Tab.del, hk, ↓reduceIte, Tab.tois, List.map_cons] at this ⊢
      exact (List.Perm.cons v' this).trans (List.Perm.swap v v' _)

theorem Tab.find_mem (t : Tab) (k v : Nat) (h : t.find? k = some v) : v ∈ t.tois :=
  (Tab.del_perm t k v h).mem_iff.2 (by simp)

/-! ### event traces -/

/-- the live set after a trace -/
def applyEvs : List Nat → List Ev → List Nat
  | L, [] => L
  | L, .allocated v :: r => applyEvs (v :: L) r
  | L, .released v :: r => applyEvs (L.erase v) r

/-- every `allocated v` happens while `v` is not live (and `v ≠ 0`), every `released v` while it is -/
def EvsFresh : List Nat → List Ev → Prop
  | _, [] => True
  | L, .allocated v :: r => v ∉ L ∧ v ≠ 0 ∧ EvsFresh (v :: L) r
  | L, .released v :: r => v ∈ L ∧ EvsFresh (L.erase v) r

theorem applyEvs_append : ∀ (a b : List Ev) (L : List Nat),
    applyEvs L (a ++ b) = applyEvs (applyEvs L a) b := by
  intro a
  induction a with
  | nil => intro b L; rfl
  | cons e r ih => intro b L; cases e <;> simp [applyEvs, ih]

theorem evsFresh_append : ∀ (a b : List Ev) (L : List Nat),
    EvsFresh L (a ++ b) ↔ EvsFresh L a ∧ EvsFresh (applyEvs L a) b := by
  intro a
  induction a with
  | nil => intro b L; simp [EvsFresh, applyEvs]
  | cons e r ih => intro b L; cases e <;> simp [EvsFresh, applyEvs, ih, and_assoc]

theorem applyEvs_perm : ∀ (evs : List Ev) (L L' : List Nat), List.Perm L L' →
    List.Perm (applyEvs L evs) (applyEvs L' evs) := by
  intro evs
  induction evs with
  | nil => intro L L' h; exact h
  | cons e r ih =>
    intro L L' h
    cases e with
    | allocated v => exact ih _ _ (List.Perm.cons v h)
    | released v => exact ih _ _ (h.erase v)

theorem evsFresh_perm : ∀ (evs : List Ev) (L L' : List Nat), List.Perm L L' →
    EvsFresh L evs → EvsFresh L' evs := by
  intro evs
  induction evs with
  | nil => intro L L' _ _; trivial
  | cons e r ih =>
    intro L L' h hf
    cases e with
    | allocated v =>
      exact ⟨fun hm => hf.1 (h.mem_iff.2 hm), hf.2.1, ih _ _ (List.Perm.cons v h) hf.2.2⟩
    | released v =>
      exact ⟨h.mem_iff.1 hf.1, ih _ _ (h.erase v) hf.2⟩

theorem mem_applyEvs_of_no_release (v : Nat) : ∀ (mid : List Ev) (L : List Nat), v ∈ L →
    Ev.released v ∉ mid → v ∈ applyEvs L mid := by
  intro mid
  induction mid with
  | nil => intro L h _; exact h
  | cons e r ih =>
    intro L h hn
    simp only [List.mem_cons, not_or] at hn
    cases e with
    | allocated u => exact ih _ (List.mem_cons_of_mem u h) hn.2
    | released u =>
      have hne : v ≠ u := fun e => hn.1 (by rw [e])
      exact ih _ ((List.mem_erase_of_ne hne).2 h) hn.2

/-- in a fresh trace a value is allocated a second time only after it was released -/
theorem release_between (L : List Nat) (pre mid post : List Ev) (v : Nat)
    (h : EvsFresh L (pre ++ Ev.allocated v :: (mid ++ Ev.allocated v :: post))) :
    Ev.released v ∈ mid := by
  refine Classical.byContradiction fun hn => ?_
  rw [evsFresh_append] at h
  have h2 := h.2
  simp only [EvsFresh] at h2
  have h3 := h2.2.2
  rw [evsFresh_append] at h3
  have h4 := h3.2
  simp only [EvsFresh] at h4
  exact h4.1 (mem_applyEvs_of_no_release v mid _ (by simp) hn)

/-! ### the system invariant -/

structure SysInv (s : Sys) : Prop where
  alloc : Inv s.alloc
  perm : List.Perm s.live s.alloc.reserved

theorem init_inv (w : Width) (init : Nat) : SysInv (Sys.init w init) :=
  ⟨new_inv w init, by simp [Sys.init, Sys.live, new, Tab.tois]⟩

theorem SysInv.nodup {s : Sys} (h : SysInv s) : s.live.Nodup :=
  h.perm.nodup_iff.2 h.alloc.nodup

/-- dropping a live TOI `v`: succeeds, keeps the invariant, `L` (the other live TOIs) is what stays reserved -/
theorem releaseToi_ok {s : Sys} {v : Nat} {L : List Nat} (hi : Inv s.alloc)
    (hp : List.Perm (v :: L) s.alloc.reserved) :
    ∃ a, Sys.releaseToi s v = .ok { s with alloc := a } ∧ Inv a ∧ List.Perm L a.reserved ∧
      a.w = s.alloc.w := by
  have hv : v ∈ s.alloc.reserved := hp.mem_iff.1 (by simp)
  have hv0 : v ≠ 0 := fun e => hi.zero_free (e ▸ hv)
  obtain ⟨a, ha⟩ := release_live_ok (s := s.alloc) hv
  obtain ⟨h1, h2, _, h4⟩ := release_ok hi ha
  refine ⟨a, by simp [Sys.releaseToi, ha], h4, ?_, h2⟩
  simp only [hv0, ↓reduceIte] at h1
  rw [h1]
  exact (hp.trans (List.perm_cons_erase hv)).cons_inv

/-- what one operation guarantees, given the invariant -/
structure StepGood (s : Sys) (r : Res (Sys × Obs × List Ev)) : Prop where
  no_panic : ∀ e, r ≠ .panic e
  ok : ∀ s' obs evs, r = .ok (s', obs, evs) →
    SysInv s' ∧ s'.alloc.w = s.alloc.w ∧ EvsFresh s.live evs ∧
      List.Perm s'.live (applyEvs s.live evs) ∧
      (∀ v, Ev.allocated v ∈ evs → v < s.alloc.w.modulus)

theorem stepGood_same {s : Sys} (hi : SysInv s) (obs : Obs) : StepGood s (.ok (s, obs, [])) := by
  refine ⟨(fun e h => by cases h), ?_⟩
  intro s' obs' evs h
  injection h with h; injection h with h1 h2; injection h2 with h2 h3
  subst h1; subst h3
  exact ⟨hi, rfl, trivial, List.Perm.refl _, by simp⟩

theorem fresh_of_inv {s : Sys} (hi : SysInv s) : s.alloc.next ∉ s.live :=
  fun h => hi.alloc.next_free (hi.perm.mem_iff.1 h)

theorem step_alloc {s : Sys} (hi : SysInv s) (h : Nat) : StepGood s (s.step (.alloc h)) := by
  simp only [Sys.step]
  split
  · exact stepGood_same hi _
  · split
    · exact ⟨(fun e h => by cases h), (fun _ _ _ h => by cases h)⟩
    · rename_i e he; exact absurd he (allocate_no_panic hi.alloc e)
    · rename_i v a ha
      obtain ⟨h1, h2, h3, h4⟩ := allocate_ok hi.alloc ha
      refine ⟨(fun e h => by cases h), ?_⟩
      intro s' obs evs hs
      injection hs with hs; injection hs with e1 e2; injection e2 with e2 e3
      subst e1; subst e3
      have hfresh := fresh_of_inv hi
      refine ⟨⟨h4, ?_⟩, h3, ?_, ?_, ?_⟩
      · simp only [Sys.live, Tab.tois, List.map_cons, List.cons_append, h2]
        exact List.Perm.cons v hi.perm
      · simp only [EvsFresh, and_true]
        exact ⟨h1 ▸ hfresh, h1 ▸ hi.alloc.next_ne⟩
      · simp [applyEvs, Sys.live, Tab.tois]
      · intro u hu
        simp only [List.mem_singleton, Ev.allocated.injEq] at hu
        subst hu; rw [h1]; exact hi.alloc.next_lt

/-- an operation that only moves TOIs between holders -/
theorem stepGood_perm {s s' : Sys} (hi : SysInv s) (ha : s'.alloc = s.alloc)
    (hl : List.Perm s'.live s.live) (obs : Obs) : StepGood s (.ok (s', obs, [])) := by
  refine ⟨(fun e h => by cases h), ?_⟩
  intro s'' obs' evs h
  injection h with h; injection h with h1 h2; injection h2 with h2 h3
  subst h1; subst h3
  exact ⟨⟨ha ▸ hi.alloc, ha ▸ (hl.trans hi.perm)⟩, by rw [ha], trivial, hl, by simp⟩

/-- an operation that drops the holder of `v` (`s0` = the state without that holder) -/
theorem stepGood_release {s s0 : Sys} (hi : SysInv s) (v : Nat) (obs : Obs)
    (ha : s0.alloc = s.alloc) (hl : List.Perm s.live (v :: s0.live)) :
    StepGood s (match Sys.releaseToi s0 v with
      | .ok s' => .ok (s', obs, [.released v])
      | .hang => .hang
      | .panic e => .panic e) := by
  have hp2 : List.Perm (v :: s0.live) s0.alloc.reserved := by
    rw [ha]; exact hl.symm.trans hi.perm
  obtain ⟨a, hrel, hia, hpa, hw⟩ := releaseToi_ok (s := s0) (ha ▸ hi.alloc) hp2
  rw [hrel]
  refine ⟨(fun e h => by cases h), ?_⟩
  intro s' obs' evs hs
  injection hs with hs; injection hs with e1 e2; injection e2 with e2 e3
  subst e1; subst e3
  refine ⟨⟨hia, hpa⟩, by rw [hw, ha], ?_, ?_, by simp⟩
  · simp only [EvsFresh, and_true]
    exact hl.mem_iff.2 (by simp)
  · simp only [applyEvs]
    have h1 : List.Perm (s.live.erase v) s0.live := by
      have := hl.erase v
      rwa [List.erase_cons_head] at this
    exact h1.symm

theorem step_drop {s : Sys} (hi : SysInv s) (h : Nat) : StepGood s (s.step (.drop h)) := by
  simp only [Sys.step]
  split
  · exact stepGood_same hi _
  · rename_i v hv
    exact stepGood_release hi v _ rfl ((Tab.del_perm s.handles h v hv).append_right s.objs.tois)

theorem step_add {s : Sys} (hi : SysInv s) (k : Nat) (b car : Bool) :
    StepGood s (s.step (.add k b car)) := by
  simp only [Sys.step]
  split
  · exact stepGood_same hi _
  · split
    · exact ⟨(fun e h => by cases h), (fun _ _ _ h => by cases h)⟩
    · rename_i e he; exact absurd he (allocate_no_panic hi.alloc e)
    · rename_i v a ha
      obtain ⟨h1, h2, h3, h4⟩ := allocate_ok hi.alloc ha
      have hfresh := fresh_of_inv hi
      cases b with
      | true =>
        simp only [↓reduceIte]
        refine ⟨(fun e h => by cases h), ?_⟩
        intro s' obs evs hs
        injection hs with hs; injection hs with e1 e2; injection e2 with e2 e3
        subst e1; subst e3
        refine ⟨⟨h4, ?_⟩, h3, ?_, ?_, ?_⟩
        · simp only [Sys.live, Tab.tois, List.map_cons, h2]
          exact List.perm_middle.trans (List.Perm.cons v hi.perm)
        · simp only [EvsFresh, and_true]
          exact ⟨h1 ▸ hfresh, h1 ▸ hi.alloc.next_ne⟩
        · simp only [applyEvs, Sys.live, Tab.tois, List.map_cons]
          exact List.perm_middle
        · intro u hu
          simp only [List.mem_singleton, Ev.allocated.injEq] at hu
          subst hu; rw [h1]; exact hi.alloc.next_lt
      | false =>
        simp only [Bool.false_eq_true, ↓reduceIte]
        have hp2 : List.Perm (v :: s.live) a.reserved := by
          rw [h2]; exact List.Perm.cons v hi.perm
        obtain ⟨a2, hrel, hia, hpa, hw⟩ :=
          releaseToi_ok (s := { s with alloc := a }) (L := s.live) h4 hp2
        rw [hrel]
        refine ⟨(fun e h => by cases h), ?_⟩
        intro s' obs evs hs
        injection hs with hs; injection hs with e1 e2; injection e2 with e2 e3
        subst e1; subst e3
        refine ⟨⟨hia, hpa⟩, by rw [hw]; exact h3, ?_, ?_, ?_⟩
        · simp only [EvsFresh, and_true]
          exact ⟨h1 ▸ hfresh, h1 ▸ hi.alloc.next_ne, by simp⟩
        · simp only [applyEvs, List.erase_cons_head]
          exact List.Perm.refl _
        · intro u hu
          simp only [List.mem_cons, Ev.allocated.injEq, reduceCtorEq, List.not_mem_nil,
            or_false] at hu
          subst hu; rw [h1]; exact hi.alloc.next_lt

theorem step_addWith {s : Sys} (hi : SysInv s) (k h : Nat) (b : Bool) :
    StepGood s (s.step (.addWith k h b)) := by
  simp only [Sys.step]
  split
  · rename_i v _ hv
    have hl : List.Perm s.live (v :: ((s.handles.del h).tois ++ s.objs.tois)) :=
      (Tab.del_perm s.handles h v hv).append_right s.objs.tois
    cases b with
    | true =>
      simp only [↓reduceIte]
      refine stepGood_perm hi (by rfl) ?_ _
      simp only [Sys.live, Tab.tois, List.map_cons]
      exact List.perm_middle.trans hl.symm
    | false =>
      simp only [Bool.false_eq_true, ↓reduceIte]
      exact stepGood_release hi v _ rfl hl
  · exact stepGood_same hi _

theorem step_remove {s : Sys} (hi : SysInv s) (k : Nat) : StepGood s (s.step (.remove k)) := by
  simp only [Sys.step]
  split
  · exact stepGood_same hi _
  · rename_i v hv
    split
    · split
      · exact stepGood_perm hi (by rfl) (by exact List.Perm.refl _) _
      · exact stepGood_same hi _
    · refine stepGood_release hi v _ rfl ?_
      simp only [Sys.live]
      exact ((Tab.del_perm s.objs k v hv).append_left s.handles.tois).trans List.perm_middle

theorem step_start {s : Sys} (hi : SysInv s) (k : Nat) : StepGood s (s.step (.start k)) := by
  simp only [Sys.step]
  split
  · exact stepGood_perm hi (by rfl) (by exact List.Perm.refl _) _
  · exact stepGood_same hi _

theorem step_drain {s : Sys} (hi : SysInv s) : StepGood s (s.step .drain) := by
  simp only [Sys.step]
  split
  · exact stepGood_same hi _
  · rename_i k _
    split
    · exact stepGood_same hi _
    · rename_i v hv
      split
      · exact stepGood_perm hi (by rfl) (by exact List.Perm.refl _) _
      · refine stepGood_release hi v _ (by rfl) ?_
        simp only [Sys.live]
        exact ((Tab.del_perm s.objs k v hv).append_left s.handles.tois).trans List.perm_middle

theorem step_good {s : Sys} (hi : SysInv s) (op : Op) : StepGood s (s.step op) := by
  cases op with
  | alloc h => exact step_alloc hi h
  | drop h => exact step_drop hi h
  | add k b car => exact step_add hi k b car
  | addWith k h b => exact step_addWith hi k h b
  | addEarlyErr k => simp only [Sys.step]; exact stepGood_same hi _
  | remove k => exact step_remove hi k
  | start k => exact step_start hi k
  | drain => exact step_drain hi

/-- histories -/
structure ExecGood (s : Sys) (r : Res (Sys × List Ev)) : Prop where
  no_panic : ∀ e, r ≠ .panic e
  ok : ∀ s' evs, r = .ok (s', evs) →
    SysInv s' ∧ s'.alloc.w = s.alloc.w ∧ EvsFresh s.live evs ∧
      List.Perm s'.live (applyEvs s.live evs) ∧
      (∀ v, Ev.allocated v ∈ evs → v < s.alloc.w.modulus)

theorem exec_good : ∀ (ops : List Op) (s : Sys), SysInv s → ExecGood s (s.exec ops) := by
  intro ops
  induction ops with
  | nil =>
    intro s hi
    refine ⟨(fun e h => by simp [Sys.exec] at h), ?_⟩
    intro s' evs h
    simp only [Sys.exec, Res.ok.injEq, Prod.mk.injEq] at h
    obtain ⟨rfl, rfl⟩ := h
    exact ⟨hi, rfl, trivial, List.Perm.refl _, by simp⟩
  | cons op ops ih =>
    intro s hi
    have hg := step_good hi op
    rw [Sys.exec]
    split
    · exact ⟨(fun e h => by cases h), (fun _ _ h => by cases h)⟩
    · rename_i e he; exact absurd he (hg.no_panic e)
    · rename_i s1 obs evs1 h1
      obtain ⟨i1, w1, f1, p1, r1⟩ := hg.ok _ _ _ h1
      have hg2 := ih s1 i1
      split
      · exact ⟨(fun e h => by cases h), (fun _ _ h => by cases h)⟩
      · rename_i e he; exact absurd he (hg2.no_panic e)
      · rename_i s2 evs2 h2
        obtain ⟨i2, w2, f2, p2, r2⟩ := hg2.ok _ _ h2
        refine ⟨(fun e h => by cases h), ?_⟩
        intro s' evs h
        simp only [Res.ok.injEq, Prod.mk.injEq] at h
        obtain ⟨rfl, rfl⟩ := h
        refine ⟨i2, by rw [w2, w1], ?_, ?_, ?_⟩
        · rw [evsFresh_append]
          exact ⟨f1, evsFresh_perm _ _ _ p1 f2⟩
        · rw [applyEvs_append]
          exact p2.trans (applyEvs_perm _ _ _ p1)
        · intro v hv
          simp only [List.mem_append] at hv
          rcases hv with hv | hv
          · exact r1 v hv
          · rw [← w1]; exact r2 v hv

theorem Tab.del_subset : ∀ (t : Tab) (k x : Nat), x ∈ (t.del k).tois → x ∈ t.tois := by
  intro t
  induction t with
  | nil => intro k x h; exact h
  | cons a r ih =>
    intro k x h
    obtain ⟨k', v'⟩ := a
    by_cases hk : k' = k
    · simp only [Tab.del, hk, ↓reduceIte] at h
      simp only [Tab.tois, List.map_cons, List.mem_cons]
      exact Or.inr h
    · simp only [Tab.del, hk, ↓reduceIte, Tab.tois, List.map_cons, List.mem_cons] at h ⊢
      rcases h with h | h
      · exact Or.inl h
      · exact Or.inr (ih k x h)

/-- `n` allocations under the fresh names `i, i+1, …` -/
def allocsFrom : Nat → Nat → List Op
  | _, 0 => []
  | i, n + 1 => .alloc i :: allocsFrom (i + 1) n

/-- as long as a free value remains, `n` successive `allocate_toi` calls all return and make `n`
    more TOIs live -/
theorem exec_allocs : ∀ (n i : Nat) (s : Sys), SysInv s → (∀ j, i ≤ j → s.handles.find? j = none) →
    s.live.length + n + 1 < s.alloc.w.modulus →
    ∃ s' evs, s.exec (allocsFrom i n) = .ok (s', evs) ∧ SysInv s' ∧ s'.alloc.w = s.alloc.w ∧
      s'.live.length = s.live.length + n ∧ (∀ j, i + n ≤ j → s'.handles.find? j = none) := by
  intro n
  induction n with
  | zero =>
    intro i s hi hn _
    exact ⟨s, [], rfl, hi, rfl, rfl, hn⟩
  | succ n ih =>
    intro i s hi hn hlen
    have hlen' : s.alloc.reserved.length + 2 < s.alloc.w.modulus := by
      rw [← hi.perm.length_eq]; omega
    obtain ⟨v, a, ha⟩ := allocate_returns hi.alloc hlen'
    have hstep : s.step (.alloc i) =
        .ok ({ s with alloc := a, handles := (i, v) :: s.handles }, .toi v, [.allocated v]) := by
      simp only [Sys.step, hn i (Nat.le_refl i), ha]
    obtain ⟨i1, w1, _, _, _⟩ := (step_good hi (.alloc i)).ok _ _ _ hstep
    have hl1 : ({ s with alloc := a, handles := (i, v) :: s.handles } : Sys).live.length
        = s.live.length + 1 := by
      simp [Sys.live, Tab.tois]
    obtain ⟨s', evs, he, i2, w2, l2, n2⟩ := ih (i + 1)
      { s with alloc := a, handles := (i, v) :: s.handles } i1
      (by
        intro j hj
        have : ¬ i = j := by omega
        simp only [Tab.find?, this, ↓reduceIte]
        exact hn j (by omega))
      (by rw [hl1, w1]; omega)
    refine ⟨s', [.allocated v] ++ evs, ?_, i2, by rw [w2, w1], by rw [l2, hl1]; omega, ?_⟩
    · simp only [allocsFrom, Sys.exec, hstep, he]
    · intro j hj; exact n2 j (by omega)

/-- the sender state `s` and allocator trace `evs` after the history `ops`, for width `w`,
    configured start value `cfg` (`none` = random) and random draw `rnd` -/
def Reaches (w : Width) (cfg : Option Nat) (rnd : Nat) (ops : List Op) (s : Sys) (evs : List Ev) : Prop :=
  (Sys.init w (initValue cfg rnd)).exec ops = .ok (s, evs)

theorem reaches_good {w cfg rnd ops s evs} (h : Reaches w cfg rnd ops s evs) :
    SysInv s ∧ s.alloc.w = w ∧ EvsFresh [] evs ∧
      (∀ v, Ev.allocated v ∈ evs → v < w.modulus) := by
  have := (exec_good ops _ (init_inv w (initValue cfg rnd))).ok s evs h
  exact ⟨this.1, this.2.1, this.2.2.1, this.2.2.2.2⟩

theorem alloc_events {s s' : Sys} {h v : Nat} {evs : List Ev}
    (hs : s.step (.alloc h) = .ok (s', .toi v, evs)) : evs = [.allocated v] := by
  simp only [Sys.step] at hs
  split at hs
  · cases hs
  · split at hs
    · cases hs
    · cases hs
    · injection hs with hs; injection hs with _ e2; injection e2 with e2 e3
      injection e2 with e2; subst e2; exact e3.symm

theorem add_events {s s' : Sys} {k v : Nat} {b car : Bool} {evs : List Ev}
    (hs : s.step (.add k b car) = .ok (s', .toi v, evs)) : evs = [.allocated v] := by
  simp only [Sys.step] at hs
  split at hs
  · cases hs
  · split at hs
    · cases hs
    · cases hs
    · cases b with
      | true =>
        simp only [↓reduceIte] at hs
        injection hs with hs; injection hs with _ e2; injection e2 with e2 e3
        injection e2 with e2; subst e2; exact e3.symm
      | false =>
        simp only [Bool.false_eq_true, ↓reduceIte] at hs
        split at hs
        · injection hs with hs; injection hs with _ e2; injection e2 with e2 _
          cases e2
        · cases hs
        · cases hs

end Flute.Toi
