import FluteModel.Lemmas.RecvExpiry
/-
  Generic invariant lemma: a predicate on FDT-instance receivers that holds for a fresh one and is
  preserved by `FdtReceiver::push` and `update_expired_state` holds for every instance in
  `fdt_receivers` and `fdt_current` of every reachable state.
-/
namespace Flute.Recv
variable {σ : Type}

def AllFdt (P : FdtRecv σ → Prop) (s : State σ) : Prop :=
  (∀ f ∈ s.fdtCurrent, P f) ∧ (∀ kf ∈ s.fdtReceivers, P kf.2)

theorem createScan_all (I : ObjIface σ) (P : FdtRecv σ → Prop) (toi : Nat) (now : Int)
    (hupd : ∀ f f', P f → f.updateExpired now = .ok f' → P f') :
    ∀ (l : List (FdtRecv σ)) (o o' : σ) (l' : List (FdtRecv σ)) (evs : List Ev),
      createScan I toi now o l = .ok (o', l', evs) → (∀ f ∈ l, P f) → ∀ f ∈ l', P f := by
  intro l
  induction l with
  | nil =>
    intro o o' l' evs h _ f hf
    simp [createScan] at h
    obtain ⟨_, rfl, _⟩ := h
    simp at hf
  | cons g r ih =>
    intro o o' l' evs h hall f hf
    unfold createScan at h
    split at h
    · cases h
    · rename_i g' hup
      have hg' : P g' := hupd g g' (hall g (by simp)) hup
      have hr : ∀ f ∈ r, P f := fun f hf => hall f (List.mem_cons_of_mem _ hf)
      simp only [] at h
      split at h
      · simp only [Except.ok.injEq, Prod.mk.injEq] at h
        obtain ⟨_, rfl, _⟩ := h
        rcases List.mem_cons.mp hf with hf | hf
        · subst hf; exact hg'
        · exact hr f hf
      · split at h
        · cases h
        · rename_i o2 r2 ev2 hrec
          simp only [Except.ok.injEq, Prod.mk.injEq] at h
          obtain ⟨_, rfl, _⟩ := h
          rcases List.mem_cons.mp hf with hf | hf
          · subst hf; exact hg'
          · exact ih _ _ _ _ hrec hr f hf
      · split at h
        · cases h
        · rename_i o2 r2 ev2 hrec
          simp only [Except.ok.injEq, Prod.mk.injEq] at h
          obtain ⟨_, rfl, _⟩ := h
          rcases List.mem_cons.mp hf with hf | hf
          · subst hf; exact hg'
          · exact ih _ _ _ _ hrec hr f hf

theorem createObj_all (I : ObjIface σ) (P : FdtRecv σ → Prop) (s s' : State σ) (toi : Nat) (now : Int)
    (evs : List Ev) (hupd : ∀ f f', P f → f.updateExpired now = .ok f' → P f')
    (h : createObj I s toi now = .ok (s', evs)) (hall : AllFdt P s) : AllFdt P s' ∧ s'.cfg = s.cfg := by
  unfold createObj at h
  split at h
  · cases h
  · rename_i o cur ev hscan
    simp only [Except.ok.injEq, Prod.mk.injEq] at h
    obtain ⟨rfl, _⟩ := h
    exact ⟨⟨createScan_all I P toi now hupd _ _ _ _ _ hscan hall.1, hall.2⟩, rfl⟩

theorem pushObjCore_all (I : ObjIface σ) (P : FdtRecv σ → Prop) (s s' : State σ) (p : Pkt) (now : Int)
    (r : Res) (evs : List Ev) (hupd : ∀ f f', P f → f.updateExpired now = .ok f' → P f')
    (h : pushObjCore I s p now = .ok (s', r, evs)) (hall : AllFdt P s) :
    AllFdt P s' ∧ s'.cfg = s.cfg := by
  unfold pushObjCore at h
  simp only [] at h
  split at h
  · cases h
  · rename_i s1 e0 hc
    have hs1 : AllFdt P s1 ∧ s1.cfg = s.cfg := by
      split at hc
      · exact createObj_all I P _ _ _ _ _ hupd hc hall
      · simp only [Except.ok.injEq, Prod.mk.injEq] at hc
        obtain ⟨rfl, _⟩ := hc
        exact ⟨hall, rfl⟩
    split at h
    · simp only [Except.ok.injEq, Prod.mk.injEq] at h
      obtain ⟨rfl, _, _⟩ := h
      exact hs1
    · rename_i o ho
      simp only [Except.ok.injEq, Prod.mk.injEq] at h
      obtain ⟨rfl, _, _⟩ := h
      have hfr := checkObjectState_fdt I { s1 with objects := ainsert p.toi (I.push o p).1 s1.objects } p.toi
      simp only [] at hfr
      refine ⟨⟨?_, ?_⟩, ?_⟩
      · rw [hfr.1]; exact hs1.1.1
      · rw [hfr.2.1]; exact hs1.1.2
      · rw [hfr.2.2]; exact hs1.2

theorem pushObj_all (I : ObjIface σ) (P : FdtRecv σ → Prop) (s s' : State σ) (p : Pkt) (now : Int)
    (r : Res) (evs : List Ev) (hupd : ∀ f f', P f → f.updateExpired now = .ok f' → P f')
    (h : pushObj I s p now = .ok (s', r, evs)) (hall : AllFdt P s) :
    AllFdt P s' ∧ s'.cfg = s.cfg := by
  unfold pushObj at h
  split at h
  · simp only [Except.ok.injEq, Prod.mk.injEq] at h
    obtain ⟨rfl, _, _⟩ := h
    exact ⟨hall, rfl⟩
  · rename_i s1 hg1
    have h1 := gateCompleted_fdt hg1
    have hall1 : AllFdt P s1 := ⟨by rw [h1.1]; exact hall.1, by rw [h1.2.1]; exact hall.2⟩
    split at h
    · simp only [Except.ok.injEq, Prod.mk.injEq] at h
      obtain ⟨rfl, _, _⟩ := h
      exact ⟨hall1, h1.2.2⟩
    · rename_i s2 hg2
      have h2 := gateError_fdt hg2
      have hall2 : AllFdt P s2 := ⟨by rw [h2.1]; exact hall1.1, by rw [h2.2.1]; exact hall1.2⟩
      have := pushObjCore_all I P s2 s' p now r evs hupd h hall2
      exact ⟨this.1, by rw [this.2, h2.2.2, h1.2.2]⟩

theorem mem_dropLast {α} {a : α} {l : List α} (h : a ∈ l.dropLast) : a ∈ l := by
  induction l with
  | nil => simp at h
  | cons b t ih =>
    cases t with
    | nil => simp at h
    | cons c u =>
      simp only [List.dropLast_cons_cons, List.mem_cons] at h
      rcases h with h | h
      · simp [h]
      · exact List.mem_cons_of_mem _ (ih h)

theorem fdtCompleted_all (I : ObjIface σ) (P : FdtRecv σ → Prop) (s s' : State σ) (id : Nat)
    (r : Res) (evs : List Ev) (h : fdtCompleted I s id = .ok (s', r, evs)) (hall : AllFdt P s) :
    AllFdt P s' ∧ s'.cfg = s.cfg := by
  unfold fdtCompleted at h
  simp only [] at h
  split at h
  · cases h
  · split at h
    · simp only [Except.ok.injEq, Prod.mk.injEq] at h
      obtain ⟨rfl, _, _⟩ := h
      exact ⟨hall, rfl⟩
    · rename_i f hf
      split at h
      · cases h
      · simp only [Except.ok.injEq, Prod.mk.injEq] at h
        obtain ⟨rfl, _, _⟩ := h
        generalize hs0 : ({ s with fdtReceivers := aerase id s.fdtReceivers, fdtCurrent := f :: s.fdtCurrent } : State σ) = s0
        have hPf : P f := hall.2 (id, f) (alookup_mem hf)
        have hall0 : AllFdt P s0 ∧ s0.cfg = s.cfg := by
          subst hs0
          refine ⟨⟨?_, ?_⟩, rfl⟩
          · intro g hg
            rcases List.mem_cons.mp hg with hg | hg
            · subst hg; exact hPf
            · exact hall.1 g hg
          · intro kf hkf
            exact hall.2 kf (mem_aerase hkf)
        have h1 := attachLatest_fdt I s0
        have h2 := gcObjectCompleted_fdt (attachLatest I s0).1
        have h3 := updateCompletedCc_fdt (gcObjectCompleted (attachLatest I s0).1)
        have hc : (updateCompletedCc (gcObjectCompleted (attachLatest I s0).1)).1.fdtCurrent = s0.fdtCurrent := by
          rw [h3.1, h2.1, h1.1]
        have hr : (updateCompletedCc (gcObjectCompleted (attachLatest I s0).1)).1.fdtReceivers = s0.fdtReceivers := by
          rw [h3.2.1, h2.2.1, h1.2.1]
        have hcfg : (updateCompletedCc (gcObjectCompleted (attachLatest I s0).1)).1.cfg = s0.cfg := by
          rw [h3.2.2, h2.2.2, h1.2.2]
        split
        · refine ⟨⟨?_, ?_⟩, ?_⟩
          · intro g hg
            simp only [] at hg
            have := mem_dropLast hg
            rw [hc] at this
            exact hall0.1.1 g this
          · simp only []; rw [hr]; exact hall0.1.2
          · simp only []; rw [hcfg]; exact hall0.2
        · exact ⟨⟨by rw [hc]; exact hall0.1.1, by rw [hr]; exact hall0.1.2⟩, by rw [hcfg]; exact hall0.2⟩

theorem allFdt_aerase (P : FdtRecv σ → Prop) (s : State σ) (id : Nat) (hall : AllFdt P s) :
    AllFdt P { s with fdtReceivers := aerase id s.fdtReceivers } :=
  ⟨hall.1, fun kf hkf => hall.2 kf (mem_aerase hkf)⟩

theorem fdtDispatch_all (I : ObjIface σ) (P : FdtRecv σ → Prop) (s s' : State σ) (id : Nat)
    (f : FdtRecv σ) (now : Int) (r : Res) (evs : List Ev)
    (h : fdtDispatch I s id f now = .ok (s', r, evs)) (hall : AllFdt P s) :
    AllFdt P s' ∧ s'.cfg = s.cfg := by
  unfold fdtDispatch at h
  split at h
  · simp only [Except.ok.injEq, Prod.mk.injEq] at h
    obtain ⟨rfl, _, _⟩ := h; exact ⟨hall, rfl⟩
  · simp only [Except.ok.injEq, Prod.mk.injEq] at h
    obtain ⟨rfl, _, _⟩ := h; exact ⟨allFdt_aerase P s id hall, rfl⟩
  · split at h
    · cases h
    · split at h
      · cases h
      · split at h
        · cases h
        · simp only [Except.ok.injEq, Prod.mk.injEq] at h
          obtain ⟨rfl, _, _⟩ := h; exact ⟨allFdt_aerase P s id hall, rfl⟩
  · exact fdtCompleted_all I P s s' id r evs h hall

theorem fdtEntry_all (I : ObjIface σ) (P : FdtRecv σ → Prop) (s : State σ) (id : Nat) (p : Pkt)
    (hnote : ∀ f v, P f → P (f.noteFti v))
    (hnew : P (FdtRecv.new I id s.cfg.expCheck)) (hall : AllFdt P s) :
    AllFdt P (fdtEntry I s id p).1 ∧ P (fdtEntry I s id p).2 ∧ (fdtEntry I s id p).1.cfg = s.cfg := by
  unfold fdtEntry
  split
  · rename_i f hf
    exact ⟨hall, hnote _ _ (hall.2 (id, f) (alookup_mem hf)), rfl⟩
  · refine ⟨⟨hall.1, ?_⟩, hnote _ _ hnew, rfl⟩
    intro kf hkf
    rcases mem_ainsert hkf with hkf | hkf
    · subst hkf; exact hnew
    · exact hall.2 kf hkf

theorem dropConflict_all (P : FdtRecv σ → Prop) (s : State σ) (p : Pkt) (hall : AllFdt P s) :
    AllFdt P (dropConflict s p) ∧ (dropConflict s p).cfg = s.cfg := by
  unfold dropConflict
  split
  · exact ⟨hall, rfl⟩
  · split
    · exact ⟨hall, rfl⟩
    · split
      · exact ⟨allFdt_aerase P s _ hall, rfl⟩
      · exact ⟨hall, rfl⟩

theorem pushFdtObjP_all (I : ObjIface σ) (P : FdtRecv σ → Prop) (s s' : State σ) (p : Pkt) (now : Int)
    (ans : FdtAns) (r : Res) (evs : List Ev)
    (hnote : ∀ f v, P f → P (f.noteFti v))
    (hnew : ∀ id, p.fdtId = some id → P (FdtRecv.new I id s.cfg.expCheck))
    (hpush : ∀ id, p.fdtId = some id → ∀ f, P f → P (f.push I p now ans))
    (hupd : ∀ f f', P f → f.updateExpired now = .ok f' → P f')
    (h : pushFdtObj' I s p now ans = .ok (s', r, evs)) (hall : AllFdt P s) :
    AllFdt P s' ∧ s'.cfg = s.cfg := by
  unfold pushFdtObj' at h
  split at h
  · split at h
    · simp only [Except.ok.injEq, Prod.mk.injEq] at h
      obtain ⟨rfl, _, _⟩ := h; exact ⟨hall, rfl⟩
    · split at h <;>
      · simp only [Except.ok.injEq, Prod.mk.injEq] at h
        obtain ⟨rfl, _, _⟩ := h; exact ⟨hall, rfl⟩
  · rename_i id hid
    split at h
    · simp only [Except.ok.injEq, Prod.mk.injEq] at h
      obtain ⟨rfl, _, _⟩ := h; exact ⟨hall, rfl⟩
    · have he := fdtEntry_all I P s id p hnote (hnew id hid) hall
      simp only [] at h
      split at h
      · simp only [Except.ok.injEq, Prod.mk.injEq] at h
        obtain ⟨rfl, _, _⟩ := h
        exact ⟨he.1, he.2.2⟩
      · split at h
        · cases h
        · rename_i f hupd'
          have hPf : P f := by
            split at hupd'
            · exact hupd _ _ (hpush id hid _ he.2.1) hupd'
            · injection hupd' with hupd'; subst hupd'; exact hpush id hid _ he.2.1
          have := fdtDispatch_all I P _ s' id f now r evs h
            (⟨he.1.1, by
              intro kf hkf
              simp only [] at hkf
              rcases mem_ainsert hkf with hkf | hkf
              · subst hkf; exact hPf
              · exact he.1.2 kf hkf⟩)
          exact ⟨this.1, by rw [this.2]; exact he.2.2⟩

theorem pushFdtObj_all (I : ObjIface σ) (P : FdtRecv σ → Prop) (s s' : State σ) (p : Pkt) (now : Int)
    (ans : FdtAns) (r : Res) (evs : List Ev)
    (hnote : ∀ f v, P f → P (f.noteFti v))
    (hnew : ∀ id, p.fdtId = some id → P (FdtRecv.new I id s.cfg.expCheck))
    (hpush : ∀ id, p.fdtId = some id → ∀ f, P f → P (f.push I p now ans))
    (hupd : ∀ f f', P f → f.updateExpired now = .ok f' → P f')
    (h : pushFdtObj I s p now ans = .ok (s', r, evs)) (hall : AllFdt P s) :
    AllFdt P s' ∧ s'.cfg = s.cfg := by
  have hd := dropConflict_all P s p hall
  have := pushFdtObjP_all I P (dropConflict s p) s' p now ans r evs hnote
    (fun id hid => by rw [hd.2]; exact hnew id hid) hpush hupd h hd.1
  exact ⟨this.1, by rw [this.2, hd.2]⟩

theorem updateExpiredAll_all (P : FdtRecv σ → Prop) (now : Int)
    (hupd : ∀ f f', P f → f.updateExpired now = .ok f' → P f') :
    ∀ (l l' : List (Nat × FdtRecv σ)), updateExpiredAll now l = .ok l' →
      (∀ kf ∈ l, P kf.2) → ∀ kf ∈ l', P kf.2 := by
  intro l
  induction l with
  | nil =>
    intro l' h _ kf hkf
    simp [updateExpiredAll] at h
    subst h; simp at hkf
  | cons a r ih =>
    intro l' h hall kf hkf
    obtain ⟨k, f⟩ := a
    unfold updateExpiredAll at h
    split at h
    · cases h
    · rename_i f' hf'
      split at h
      · cases h
      · rename_i r' hr'
        injection h with h; subst h
        rcases List.mem_cons.mp hkf with hkf | hkf
        · subst hkf; exact hupd f f' (hall (k, f) (by simp)) hf'
        · exact ih r' hr' (fun x hx => hall x (List.mem_cons_of_mem _ hx)) kf hkf

theorem removeObjects_fdt (I : ObjIface σ) (s : State σ) (l : List Nat) :
    (removeObjects I s l).1.fdtCurrent = s.fdtCurrent ∧
    (removeObjects I s l).1.fdtReceivers = s.fdtReceivers ∧
    (removeObjects I s l).1.cfg = s.cfg := by
  induction l generalizing s with
  | nil => simp [removeObjects]
  | cons t ts ih =>
    simp only [removeObjects]
    have h1 := removeObject_fdt I { s with errors := s.errors.filter (· ≠ t) } t
    have h2 := ih (removeObject I { s with errors := s.errors.filter (· ≠ t) } t).1
    simp only [] at h1
    exact ⟨by rw [h2.1, h1.1], by rw [h2.2.1, h1.2.1], by rw [h2.2.2, h1.2.2]⟩

theorem cleanupObjects_fdt (I : ObjIface σ) (s : State σ) (stale : Nat → Bool) :
    (cleanupObjects I s stale).1.fdtCurrent = s.fdtCurrent ∧
    (cleanupObjects I s stale).1.fdtReceivers = s.fdtReceivers ∧
    (cleanupObjects I s stale).1.cfg = s.cfg := by
  unfold cleanupObjects
  split
  · simp
  · exact removeObjects_fdt I s _

theorem cleanup_all (I : ObjIface σ) (P : FdtRecv σ → Prop) (s s' : State σ) (now : Int)
    (stale : Stale) (evs : List Ev)
    (hupd : ∀ f f', P f → f.updateExpired now = .ok f' → P f')
    (h : cleanup I s now stale = .ok (s', evs)) (hall : AllFdt P s) :
    AllFdt P s' ∧ s'.cfg = s.cfg := by
  unfold cleanup at h
  simp only [] at h
  split at h
  · cases h
  · rename_i s2 hc
    simp only [Except.ok.injEq, Prod.mk.injEq] at h
    obtain ⟨rfl, _⟩ := h
    have h1 := cleanupObjects_fdt I s stale.obj
    unfold cleanupFdt at hc
    split at hc
    · cases hc
    · rename_i l hl
      injection hc with hc; subst hc
      refine ⟨⟨by simp only []; rw [h1.1]; exact hall.1, ?_⟩, by simp only []; exact h1.2.2⟩
      intro kf hkf
      simp only [] at hkf
      have hkf' := (List.mem_filter.mp hkf).1
      exact updateExpiredAll_all P now hupd _ _ hl (by rw [h1.2.1]; exact hall.2) kf hkf'

/-- the generic step lemma -/
theorem step_all (I : ObjIface σ) (P : FdtRecv σ → Prop) (s s' : State σ) (op : Op) (r : Res)
    (evs : List Ev)
    (hnote : ∀ f v, P f → P (f.noteFti v))
    (hnew : ∀ p now ans id, op = .data (.pkt p) now ans → p.fdtId = some id → P (FdtRecv.new I id s.cfg.expCheck))
    (hpush : ∀ p now ans, op = .data (.pkt p) now ans → p.toi = 0 → ∀ id, p.fdtId = some id →
      ∀ f, P f → P (f.push I p now ans))
    (hupd : ∀ f f', P f → f.updateExpired op.now = .ok f' → P f')
    (h : step I s op = .ok (s', r, evs)) (hall : AllFdt P s) : AllFdt P s' ∧ s'.cfg = s.cfg := by
  cases op with
  | data d now ans =>
    simp only [step, pushData] at h
    split at h
    · simp only [Except.ok.injEq, Prod.mk.injEq] at h
      obtain ⟨rfl, _, _⟩ := h; exact ⟨hall, rfl⟩
    · simp only [Except.ok.injEq, Prod.mk.injEq] at h
      obtain ⟨rfl, _, _⟩ := h; exact ⟨hall, rfl⟩
    · rename_i p
      unfold push at h
      simp only [] at h
      have hcfg : (if p.closeSession then { s with closedImminent := true } else s).cfg = s.cfg := by
        split <;> rfl
      have hall' : AllFdt P (if p.closeSession then { s with closedImminent := true } else s) := by
        split <;> exact hall
      split at h
      · rename_i htoi
        have := pushFdtObj_all I P _ s' p now ans r evs hnote
          (fun id hid => by rw [hcfg]; exact hnew p now ans id rfl hid)
          (hpush p now ans rfl htoi) hupd h hall'
        exact ⟨this.1, by rw [this.2, hcfg]⟩
      · have := pushObj_all I P _ s' p now r evs hupd h hall'
        exact ⟨this.1, by rw [this.2, hcfg]⟩
  | cleanup now stale =>
    simp only [step] at h
    split at h
    · cases h
    · rename_i s1 ev hc
      simp only [Except.ok.injEq, Prod.mk.injEq] at h
      obtain ⟨rfl, _, _⟩ := h
      exact cleanup_all I P s _ now stale _ hupd hc hall

end Flute.Recv
