import FluteModel.Lemmas.AL
import FluteModel.Spec.SoloSession
/- per-key decomposition of the MultiReceiver model (keyed fold) -/
set_option linter.unusedSimpArgs false
namespace Flute.MultiRecv
open Flute Flute.TsiFilter Flute.Spec.Solo

variable {σ π Out : Type}

/-- the part of the state that is independent of the session table -/
structure Ctl where
  filter : Filter
  filtering : Bool
  clock : Nat

def State.ctl (s : State σ Out) : Ctl := ⟨s.filter, s.filtering, s.clock⟩

/-- evolution of the control part: does not look at sessions, and is not moved by packets -/
def ctlStep (c : Ctl) : Op π → Ctl
  | .push _ _ => c
  | .tick d => { c with clock := c.clock + d }
  | .cleanup _ => c
  | .addListen ep tsi =>
    match TsiFilter.add c.filter ep tsi with
    | .ok f => { c with filter := f }
    | .error _ => c
  | .removeListen ep tsi => { c with filter := TsiFilter.remove c.filter ep tsi }
  | .addAll ep =>
    match TsiFilter.addEndpointBypass c.filter ep with
    | .ok f => { c with filter := f }
    | .error _ => c
  | .removeAll ep => { c with filter := TsiFilter.removeEndpointBypass c.filter ep }
  | .setFiltering b => { c with filtering := b }
  | .addListener => c
  | .removeListener _ => c
  | .drop _ => c

/-- what key `k` sees of one operation -/
def view (c : Ctl) (op : Op π) (k : Key) : Option (KOp π) :=
  match op with
  | .push ep (some p) =>
    if c.filtering && !(isValid c.filter ep p.tsi) then none
    else if k = ⟨ep, p.tsi⟩ then some (if p.close then .close c.clock p else .data c.clock p)
    else none
  | .cleanup i => some (.cleanup c.clock i)
  | .drop i => some (.drop c.clock i)
  | _ => none

/-- key `k`'s own sub-sequence of a history -/
def trace (k : Key) : Ctl → List (Op π) → List (KOp π)
  | _, [] => []
  | c, op :: ops => (view c op k).toList ++ trace k (ctlStep c op) ops

/-- restriction of the multi-session state to key `k` -/
def localOf (k : Key) (s : State σ Out) : Local σ Out :=
  ⟨AL.get s.table k, s.events.filter (fun e => decide (e.key = k)), s.outs.filter (fun o => decide (o.1 = k))⟩

theorem ctl_step (M : Machine σ π Out) (s : State σ Out) (op : Op π) :
    (step M s op).1.ctl = ctlStep s.ctl op := by
  cases op with
  | push ep p =>
    cases p with
    | none => rfl
    | some pkt =>
      simp only [step, push, ctlStep]
      split
      · rfl
      · split
        · split <;> rfl
        · split <;> rfl
  | tick d => rfl
  | cleanup now => rfl
  | addListen ep tsi =>
    simp only [step, ctlStep, State.ctl]
    split <;> simp_all
  | removeListen ep tsi => rfl
  | addAll ep =>
    simp only [step, ctlStep, State.ctl]
    split <;> simp_all
  | removeAll ep => rfl
  | setFiltering b => rfl
  | addListener => rfl
  | removeListener id => rfl
  | drop i => rfl

/-- generic list fact behind cleanup and drop: on unique keys, selecting by value, mapping to records that
    remember their key, and then picking key `k` yields at most the one record made from `k`'s entry -/
theorem filter_map_key {κ ν β : Type} [DecidableEq κ] (m : List (κ × ν)) (p : ν → Bool) (h : κ → ν → β)
    (kf : β → κ) (hk : ∀ k v, kf (h k v) = k) (k : κ) (hn : (AL.keys m).Nodup) :
    (((m.filter (fun e => p e.2)).map (fun e => h e.1 e.2)).filter (fun x => decide (kf x = k)))
      = match AL.get m k with
        | some v => if p v then [h k v] else []
        | none => [] := by
  induction m with
  | nil => simp
  | cons e r ih =>
    obtain ⟨k', v'⟩ := e
    simp only [AL.keys, List.map_cons, List.nodup_cons] at hn
    have ih := ih hn.2
    by_cases hkk : k' = k
    · subst hkk
      have hnone : AL.get r k' = none := (AL.get_eq_none_iff r k').2 hn.1
      rw [hnone] at ih
      simp only [AL.get, ↓reduceIte]
      cases hp : p v'
      · simp only [List.filter_cons, hp, Bool.false_eq_true, ↓reduceIte]
        exact ih
      · simp only [List.filter_cons, hp, ↓reduceIte, List.map_cons, hk, decide_true]
        rw [ih]
    · simp only [AL.get, hkk, ↓reduceIte]
      cases hp : p v'
      · simp only [List.filter_cons, hp, Bool.false_eq_true, ↓reduceIte]
        exact ih
      · simp only [List.filter_cons, hp, ↓reduceIte, List.map_cons, hk, hkk, decide_false,
          Bool.false_eq_true]
        exact ih

theorem nodup_step (M : Machine σ π Out) (s : State σ Out) (op : Op π) (hn : (AL.keys s.table).Nodup) :
    (AL.keys (step M s op).1.table).Nodup := by
  cases op with
  | push ep p =>
    cases p with
    | none => exact hn
    | some pkt =>
      simp only [step, push]
      split
      · exact hn
      · split
        · split
          · exact AL.nodup_keys_del _ _ hn
          · exact hn
        · split
          · exact AL.nodup_keys_set _ _ _ hn
          · exact AL.nodup_keys_set _ _ _ hn
  | tick d => exact hn
  | cleanup i =>
    simp only [step, cleanup]
    have h1 := AL.nodup_keys_filter s.table (fun e => !M.expired s.clock e.2) hn
    have h2 := AL.keys_map_val (s.table.filter (fun e => !M.expired s.clock e.2))
      (fun _ v => (M.cleanup s.clock i v).1)
    rw [h2]; exact h1
  | addListen ep tsi => simp only [step]; split <;> exact hn
  | removeListen ep tsi => exact hn
  | addAll ep => simp only [step]; split <;> exact hn
  | removeAll ep => exact hn
  | setFiltering b => exact hn
  | addListener => exact hn
  | removeListener id => exact hn
  | drop i => simp [step, drop, AL.keys]

theorem nodup_run (M : Machine σ π Out) (ops : List (Op π)) (s : State σ Out) (hn : (AL.keys s.table).Nodup) :
    (AL.keys (run M s ops).table).Nodup := by
  induction ops generalizing s with
  | nil => exact hn
  | cons op r ih => exact ih _ (nodup_step M s op hn)

theorem key_opened (k : Key) : (Event.opened k).key = k := rfl
theorem key_closed (k : Key) : (Event.closed k).key = k := rfl

private theorem filter_append_singleton_key (l : List Event) (e : Event) (k : Key) :
    (l ++ [e]).filter (fun x => decide (x.key = k)) =
      l.filter (fun x => decide (x.key = k)) ++ (if e.key = k then [e] else []) := by
  rw [List.filter_append]
  by_cases h : e.key = k <;> simp [h]

private theorem filter_append_singleton_out (l : List (Key × Out)) (o : Key × Out) (k : Key) :
    (l ++ [o]).filter (fun x => decide (x.1 = k)) =
      l.filter (fun x => decide (x.1 = k)) ++ (if o.1 = k then [o] else []) := by
  rw [List.filter_append]
  by_cases h : o.1 = k <;> simp [h]

private theorem filter_append_pair_out (l : List (Key × Out)) (o o' : Key × Out) (k : Key) :
    (l ++ [o, o']).filter (fun x => decide (x.1 = k)) =
      l.filter (fun x => decide (x.1 = k)) ++ ((if o.1 = k then [o] else []) ++ (if o'.1 = k then [o'] else [])) := by
  rw [List.filter_append]
  by_cases h : o.1 = k <;> by_cases h' : o'.1 = k <;> simp [h, h']

/-- THE decomposition lemma: one step of the multi-session model, seen from key `k`, is one step of the
    single-session automaton on `k`'s view of the operation (and nothing if `k` has no view of it) -/
theorem localOf_step (M : Machine σ π Out) (s : State σ Out) (op : Op π) (k : Key)
    (hn : (AL.keys s.table).Nodup) :
    localOf k (step M s op).1 =
      match view s.ctl op k with
      | none => localOf k s
      | some ko => localStep M k (localOf k s) ko := by
  cases op with
  | push ep p =>
    cases p with
    | none => rfl
    | some pkt =>
      simp only [step, push, view, State.ctl]
      by_cases hf : (s.filtering && !(isValid s.filter ep pkt.tsi)) = true
      · simp only [hf, ↓reduceIte]
      · simp only [hf, Bool.false_eq_true, ↓reduceIte]
        by_cases hk : k = ⟨ep, pkt.tsi⟩
        · subst hk
          simp only [↓reduceIte]
          cases hc : pkt.close
          · -- data packet
            simp only [Bool.false_eq_true, ↓reduceIte]
            cases hg : AL.get s.table ⟨ep, pkt.tsi⟩ with
            | none =>
              simp only [localOf, localStep, hg, AL.get_set, ↓reduceIte,
                filter_append_singleton_key, filter_append_singleton_out, key_opened, key_closed]
            | some se =>
              simp only [localOf, localStep, hg, AL.get_set, ↓reduceIte,
                filter_append_singleton_out]
          · -- close-session packet
            simp only [↓reduceIte]
            cases hg : AL.get s.table ⟨ep, pkt.tsi⟩ with
            | none => simp only [localOf, localStep, hg]
            | some se =>
              simp only [localOf, localStep, hg, AL.get_del, ↓reduceIte,
                filter_append_singleton_key, filter_append_pair_out, key_opened, key_closed, List.append_assoc,
                List.singleton_append, List.cons_append, List.nil_append]
        · have hk' : ¬ (⟨ep, pkt.tsi⟩ : Key) = k := fun h => hk h.symm
          simp only [hk, ↓reduceIte]
          cases hc : pkt.close
          · simp only [Bool.false_eq_true, ↓reduceIte]
            cases hg : AL.get s.table ⟨ep, pkt.tsi⟩ with
            | none =>
              simp only [localOf, AL.get_set, hk, ↓reduceIte, filter_append_singleton_key,
                filter_append_singleton_out, key_opened, key_closed, hk', List.append_nil]
            | some se =>
              simp only [localOf, AL.get_set, hk, ↓reduceIte,
                filter_append_singleton_out, hk', List.append_nil]
          · simp only [↓reduceIte]
            cases hg : AL.get s.table ⟨ep, pkt.tsi⟩ with
            | none => rfl
            | some se =>
              simp only [localOf, AL.get_del, hk, ↓reduceIte, filter_append_singleton_key,
                filter_append_pair_out, key_opened, key_closed, hk', List.append_nil]
  | tick d => rfl
  | cleanup i =>
    simp only [step, cleanup, view, State.ctl, localOf, List.filter_append]
    have hget : AL.get ((s.table.filter (fun e => !M.expired s.clock e.2)).map
          (fun e => (e.1, (M.cleanup s.clock i e.2).1))) k
        = ((AL.get s.table k).filter (fun v => !M.expired s.clock v)).map
            (fun v => (M.cleanup s.clock i v).1) := by
      rw [AL.get_map_val _ (fun _ v => (M.cleanup s.clock i v).1) k]
      rw [AL.get_filter s.table (fun v => !M.expired s.clock v) k hn]
    have hev := filter_map_key s.table (fun v => M.expired s.clock v) (fun k' _ => Event.closed k')
      Event.key (fun _ _ => rfl) k hn
    have hfin := filter_map_key s.table (fun v => M.expired s.clock v)
      (fun k' v => ((k', M.fini s.clock i v) : Key × Out))
      (fun o => o.1) (fun _ _ => rfl) k hn
    have hout := filter_map_key s.table (fun v => !M.expired s.clock v)
      (fun k' v => ((k', (M.cleanup s.clock i v).2) : Key × Out))
      (fun o => o.1) (fun _ _ => rfl) k hn
    rw [hget, hev, hfin, hout]
    cases hg : AL.get s.table k with
    | none => simp [localStep, hg]
    | some se =>
      cases he : M.expired s.clock se <;> simp [localStep, hg, he, Option.filter]
  | addListen ep tsi => simp only [step, view]; split <;> rfl
  | removeListen ep tsi => rfl
  | addAll ep => simp only [step, view]; split <;> rfl
  | removeAll ep => rfl
  | setFiltering b => rfl
  | addListener => rfl
  | removeListener id => rfl
  | drop i =>
    simp only [step, drop, view, State.ctl, localOf, List.filter_append]
    have hev := filter_map_key s.table (fun _ => true) (fun k' _ => Event.closed k')
      Event.key (fun _ _ => rfl) k hn
    have hfin := filter_map_key s.table (fun _ => true)
      (fun k' v => ((k', M.fini s.clock i v) : Key × Out))
      (fun o => o.1) (fun _ _ => rfl) k hn
    have hft : s.table.filter (fun _ => true) = s.table := by simp
    rw [hft] at hev hfin
    rw [hev, hfin]
    cases hg : AL.get s.table k with
    | none => simp [localStep, hg]
    | some se => simp [localStep, hg]

/-- keyed fold: the restriction of a whole run to key `k` is the single-session automaton run on
    `k`'s own sub-sequence -/
theorem localOf_run (M : Machine σ π Out) (ops : List (Op π)) (s : State σ Out) (k : Key)
    (hn : (AL.keys s.table).Nodup) :
    localOf k (run M s ops) = solo M k (localOf k s) (trace k s.ctl ops) := by
  induction ops generalizing s with
  | nil => rfl
  | cons op r ih =>
    simp only [run, trace]
    rw [ih _ (nodup_step M s op hn), ctl_step, localOf_step M s op k hn]
    cases hv : view s.ctl op k with
    | none => simp [solo]
    | some ko => simp [solo]

/-- packets of other keys (and unparsable datagrams) are invisible to `k` and do not move the control part -/
def foreign (k : Key) : Op π → Bool
  | .push ep (some p) => decide (¬ (k = ⟨ep, p.tsi⟩))
  | .push _ none => true
  | _ => false

theorem trace_filter_foreign (k : Key) (ops : List (Op π)) (c : Ctl) :
    trace k c (ops.filter (fun op => !foreign k op)) = trace k c ops := by
  induction ops generalizing c with
  | nil => rfl
  | cons op r ih =>
    by_cases hf : foreign k op = true
    · simp only [List.filter_cons, hf, Bool.not_true, Bool.false_eq_true, ↓reduceIte, trace]
      rw [ih]
      cases op with
      | push ep p =>
        cases p with
        | none => simp [view, ctlStep]
        | some pkt =>
          simp only [foreign, decide_eq_true_eq] at hf
          simp [view, ctlStep, hf]
      | _ => simp [foreign] at hf
    · simp only [List.filter_cons, hf, Bool.not_false, ↓reduceIte, trace]
      rw [ih]

/-- table invariant behind `callbacks_carry_key`: the receiver stored under `k` holds `k` in its endpoint / tsi
    fields, and every callback of every logged output carries the key the output is filed under -/
def KeyInv (M : Machine σ π Out) (keyOf : σ → Key) (s : State σ Out) : Prop :=
  (∀ k st, AL.get s.table k = some st → keyOf st = k) ∧ (∀ o ∈ s.outs, ∀ k' ∈ M.keys o.2, k' = o.1)

theorem keyInv_new (M : Machine σ π Out) (keyOf : σ → Key) (f : Bool) : KeyInv M keyOf (State.new f : State σ Out) := by
  constructor
  · intro k se h; simp [State.new] at h
  · intro o h; simp [State.new] at h

theorem keyInv_step (M : Machine σ π Out) (keyOf : σ → Key) (hl : M.Lawful keyOf) (s : State σ Out) (op : Op π)
    (hn : (AL.keys s.table).Nodup) (h : KeyInv M keyOf s) : KeyInv M keyOf (step M s op).1 := by
  obtain ⟨h1, h2⟩ := h
  obtain ⟨li, lp, lc, kp, kc, kf⟩ := hl
  cases op with
  | push ep p =>
    cases p with
    | none => exact ⟨h1, h2⟩
    | some pkt =>
      simp only [step, push]
      split
      · exact ⟨h1, h2⟩
      · split
        · split
          · rename_i se hg
            have hse := h1 _ _ hg
            constructor
            · intro k se' hget
              simp only [AL.get_del] at hget
              split at hget
              · simp at hget
              · exact h1 k se' hget
            · intro o ho k' hk'
              simp only [List.mem_append, List.mem_cons, List.not_mem_nil, or_false] at ho
              rcases ho with ho | ho | ho
              · exact h2 o ho k' hk'
              · subst ho; rw [kp _ _ _ k' hk']; exact hse
              · subst ho; rw [kf _ _ _ k' hk', lp]; exact hse
          · exact ⟨h1, h2⟩
        · split
          · rename_i se hg
            have hse := h1 _ _ hg
            constructor
            · intro k se' hget
              simp only [AL.get_set] at hget
              split at hget
              · rename_i hk; subst hk
                simp only [Option.some.injEq] at hget; subst hget
                rw [lp]; exact hse
              · exact h1 k se' hget
            · intro o ho k' hk'
              simp only [List.mem_append, List.mem_singleton] at ho
              rcases ho with ho | ho
              · exact h2 o ho k' hk'
              · subst ho; rw [kp _ _ _ k' hk']; exact hse
          · constructor
            · intro k se' hget
              simp only [AL.get_set] at hget
              split at hget
              · rename_i hk; subst hk
                simp only [Option.some.injEq] at hget; subst hget
                rw [lp, li]
              · exact h1 k se' hget
            · intro o ho k' hk'
              simp only [List.mem_append, List.mem_singleton] at ho
              rcases ho with ho | ho
              · exact h2 o ho k' hk'
              · subst ho; rw [kp _ _ _ k' hk', li]
  | tick d => exact ⟨h1, h2⟩
  | cleanup i =>
    simp only [step, cleanup]
    constructor
    · intro k se' hget
      rw [AL.get_map_val _ (fun _ v => (M.cleanup s.clock i v).1) k,
        AL.get_filter s.table (fun v => !M.expired s.clock v) k hn] at hget
      cases hg : AL.get s.table k with
      | none => simp [hg] at hget
      | some se =>
        simp only [hg, Option.filter] at hget
        split at hget
        · simp only [Option.map_some, Option.some.injEq] at hget
          subst hget; rw [lc]; exact h1 _ se hg
        · simp at hget
    · intro o ho k' hk'
      simp only [List.mem_append, List.mem_map, List.mem_filter] at ho
      rcases ho with (ho | ⟨e, ⟨hmem, _⟩, heq⟩) | ⟨e, ⟨hmem, _⟩, heq⟩
      · exact h2 o ho k' hk'
      · subst heq
        obtain ⟨k0, v0⟩ := e
        rw [kf _ _ _ k' hk']
        exact h1 _ _ (AL.get_of_mem _ _ _ hn hmem)
      · subst heq
        obtain ⟨k0, v0⟩ := e
        rw [kc _ _ _ k' hk']
        exact h1 _ _ (AL.get_of_mem _ _ _ hn hmem)
  | addListen ep tsi => simp only [step]; split <;> exact ⟨h1, h2⟩
  | removeListen ep tsi => exact ⟨h1, h2⟩
  | addAll ep => simp only [step]; split <;> exact ⟨h1, h2⟩
  | removeAll ep => exact ⟨h1, h2⟩
  | setFiltering b => exact ⟨h1, h2⟩
  | addListener => exact ⟨h1, h2⟩
  | removeListener id => exact ⟨h1, h2⟩
  | drop i =>
    simp only [step, drop]
    constructor
    · intro k se h; simp at h
    · intro o ho k' hk'
      simp only [List.mem_append, List.mem_map] at ho
      rcases ho with ho | ⟨e, hmem, heq⟩
      · exact h2 o ho k' hk'
      · subst heq
        obtain ⟨k0, v0⟩ := e
        rw [kf _ _ _ k' hk']
        exact h1 _ _ (AL.get_of_mem _ _ _ hn hmem)

theorem keyInv_run (M : Machine σ π Out) (keyOf : σ → Key) (hl : M.Lawful keyOf) (ops : List (Op π)) (s : State σ Out)
    (hn : (AL.keys s.table).Nodup) (h : KeyInv M keyOf s) : KeyInv M keyOf (run M s ops) := by
  induction ops generalizing s with
  | nil => exact h
  | cons op r ih => exact ih _ (nodup_step M s op hn) (keyInv_step M keyOf hl s op hn h)

/-! ### alternation on the single-session automaton -/

theorem altFrom_append (b : Bool) (xs ys : List Event) :
    altFrom b (xs ++ ys) = (altFrom b xs).bind (fun b' => altFrom b' ys) := by
  induction xs generalizing b with
  | nil => simp [altFrom]
  | cons e r ih =>
    cases e with
    | opened k => simp only [List.cons_append, altFrom]; split <;> simp [ih]
    | closed k => simp only [List.cons_append, altFrom]; split <;> simp [ih]

/-- invariant of the single-session automaton: its event log is legal and an open is pending iff the
    session exists -/
theorem alt_localStep (M : Machine σ π Out) (k : Key) (l : Local σ Out) (ko : KOp π)
    (h : altFrom false l.events = some l.sess.isSome) :
    altFrom false (localStep M k l ko).events = some (localStep M k l ko).sess.isSome := by
  cases ko with
  | data t p =>
    cases hs : l.sess with
    | none => simp [localStep, hs, altFrom_append, h, altFrom]
    | some se => simp [localStep, hs, h]
  | close t p =>
    cases hs : l.sess with
    | none => simp [localStep, hs, h]
    | some se => simp [localStep, hs, altFrom_append, h, altFrom]
  | cleanup t i =>
    cases hs : l.sess with
    | none => simp [localStep, hs, h]
    | some se =>
      cases he : M.expired t se
      · simp [localStep, hs, he, h]
      · simp [localStep, hs, he, altFrom_append, h, altFrom]
  | drop t i =>
    cases hs : l.sess with
    | none => simp [localStep, hs, h]
    | some se => simp [localStep, hs, altFrom_append, h, altFrom]

theorem alt_solo (M : Machine σ π Out) (k : Key) (tr : List (KOp π)) (l : Local σ Out)
    (h : altFrom false l.events = some l.sess.isSome) :
    altFrom false (solo M k l tr).events = some (solo M k l tr).sess.isSome := by
  induction tr generalizing l with
  | nil => exact h
  | cons ko r ih => exact ih _ (alt_localStep M k l ko h)

/-- the events of a legal log are, kind by kind, `(open close)^n` followed by `open` iff one is pending -/
def kinds : List Event → List Bool
  | [] => []
  | .opened _ :: r => true :: kinds r
  | .closed _ :: r => false :: kinds r

def ocPairs : Nat → List Bool
  | 0 => []
  | n + 1 => true :: false :: ocPairs n

theorem altFrom_shape (evs : List Event) (b b' : Bool) (h : altFrom b evs = some b') :
    ∃ n, (if b then true :: kinds evs else kinds evs) = ocPairs n ++ (if b' then [true] else []) := by
  induction evs generalizing b with
  | nil =>
    simp only [altFrom, Option.some.injEq] at h; subst h
    cases b
    · exact ⟨0, by simp [kinds, ocPairs]⟩
    · exact ⟨0, by simp [kinds, ocPairs]⟩
  | cons e r ih =>
    cases e with
    | opened k =>
      cases b
      · simp only [altFrom, Bool.false_eq_true, ↓reduceIte] at h
        obtain ⟨n, hn⟩ := ih true h
        exact ⟨n, by simpa [kinds] using hn⟩
      · simp [altFrom] at h
    | closed k =>
      cases b
      · simp [altFrom] at h
      · simp only [altFrom, ↓reduceIte] at h
        obtain ⟨n, hn⟩ := ih false h
        refine ⟨n + 1, ?_⟩
        simp only [Bool.false_eq_true, ↓reduceIte] at hn
        simp [kinds, ocPairs, hn]

end Flute.MultiRecv
