import FluteModel.Lemmas.SchedRR
/-
  Strict priority / progress for a WAITING object: if the first object of the waiting queue that
  `should_transfer_now` accepts for priority `prio` exists and a slot of that priority queue is free, the poll of the
  queue starts it and returns its first packet - or leaves an FDT instance pending (automatic publication).
-/
namespace Flute.Sched

/-- `t` is the object `get_next_file_transfer(prio)` would start now; a stale pacing timestamp does not hold it back -/
structure WaitReady (s : State) (prio now t : Nat) (f : FileDesc) : Prop where
  find : findNext s prio now s.queue = some t
  obj : getF s.objs t = some f
  gate : wantsTick f = false → f.info.nextTs = none
  /-- the source of the object does not fail (buffer source) -/
  nofault : f.faults = []

theorem findNext_congr {s s' : State} (prio now : Nat) (hm : s'.cfg.mode = s.cfg.mode) :
    ∀ l : List Nat, (∀ u ∈ l, getF s'.objs u = getF s.objs u) → findNext s' prio now l = findNext s prio now l := by
  intro l
  induction l with
  | nil => intro _; rfl
  | cons a r ih =>
    intro h
    unfold findNext
    rw [h a List.mem_cons_self, hm, ih (fun u hu => h u (List.mem_cons_of_mem _ hu))]

theorem findNext_append {s : State} {prio now t : Nat} : ∀ (l x : List Nat), findNext s prio now l = some t →
    findNext s prio now (l ++ x) = some t := by
  intro l
  induction l with
  | nil => intro x h; simp [findNext] at h
  | cons a r ih =>
    intro x h
    rw [List.cons_append]
    unfold findNext at h ⊢
    split
    · rename_i f hf
      rw [hf] at h; simp only [] at h
      split
      · rename_i hst; rw [if_pos hst] at h; exact h
      · rename_i hst; rw [if_neg hst] at h; exact ih x h
    · rename_i hf
      rw [hf] at h; simp only [] at h
      exact ih x h

theorem findNext_mem {s : State} {prio now t : Nat} {l : List Nat} (h : findNext s prio now l = some t) : t ∈ l := by
  obtain ⟨pre, post, e, _⟩ := findNext_spec s prio now l t h
  rw [e]; simp

theorem transferDoneFile_queue_cases (s : State) (t now : Nat) :
    (transferDoneFile s t now).queue = s.queue ∨ (transferDoneFile s t now).queue = s.queue ++ [t] := by
  rw [transferDoneFile_eq]; split
  · exact Or.inl rfl
  · split
    · split
      · exact Or.inr rfl
      · exact Or.inl rfl
    · exact Or.inl rfl

theorem WaitReady.done {s : State} {prio now t : Nat} {f : FileDesc} (h : WaitReady s prio now t f) (k : Nat)
    (hk : k ∉ s.queue) : WaitReady (transferDoneFile s k now) prio now t f := by
  have htq : t ∈ s.queue := findNext_mem h.find
  have hne : ∀ u ∈ s.queue, getF (transferDoneFile s k now).objs u = getF s.objs u := by
    intro u hu
    rw [transferDoneFile_objs, getF_updF s.objs k u (fun f => transferDoneInfo f now) (fun _ => rfl), if_neg (fun (e : u = k) => hk (e ▸ hu))]
  have hf0 : findNext (transferDoneFile s k now) prio now s.queue = some t := by
    rw [findNext_congr prio now (by rw [transferDoneFile_cfg]) s.queue hne]; exact h.find
  refine ⟨?_, by rw [hne t htq]; exact h.obj, h.gate, h.nofault⟩
  rcases transferDoneFile_queue_cases s k now with e | e
  · rw [e]; exact hf0
  · rw [e]; exact findNext_append _ _ hf0

theorem gate_transferInit (f : FileDesc) (now tk : Nat) (hg : wantsTick f = false → f.info.nextTs = none) :
    gateBlocked (transferInit f now tk) now = false := by
  unfold gateBlocked transferInit FileDesc.updInfo
  simp only []
  cases hw : wantsTick f with
  | true => simp
  | false => simp [hg hw]

theorem getF_start (s : State) (t now tk : Nat) (f : FileDesc) (hf : getF s.objs t = some f) :
    ∃ f1, getF (autoPublish (fileStartStep s t now tk) now).objs t = some f1 ∧
      f1.info = (transferInit f now tk).info := by
  have h0 : getF (fileStartStep s t now tk).objs t = some (transferInit f now tk) := by
    show getF (updF s.objs t (fun f => transferInit f now tk)) t = _
    rw [getF_updF s.objs t t (fun f => transferInit f now tk) (fun _ => rfl), if_pos rfl, hf]; rfl
  unfold autoPublish
  split
  · rcases publishTry_cases (fileStartStep s t now tk) now with e | e
    · rw [e, publish_getF_objs, h0]
      exact ⟨_, rfl, pubMark_info _ _⟩
    · rw [e]; exact ⟨_, h0, rfl⟩
  · exact ⟨_, h0, rfl⟩

/-- a free slot: the waiting object is started and its first packet returned, unless an FDT instance is pending -/
theorem runFile_free (fuel : Nat) (s : State) (prio now : Nat) (ticks : List (Nat × Nat)) (t : Nat) (f : FileDesc)
    (h : WaitReady s prio now t f) :
    (∃ i b, (runFile (fuel + 1) s prio none now ticks).2.2 = Out.pkt prio t i b) ∨
    ((runFile (fuel + 1) s prio none now ticks).2.2 = Out.none ∧
      (runFile (fuel + 1) s prio none now ticks).1.fdtQueue ≠ []) := by
  have hg : getNextFile s prio now ticks = (autoPublish (fileStartStep s t now (tkGet ticks t)) now, some t) := by
    unfold getNextFile; rw [h.find]
  obtain ⟨f1, hf1, hinfo⟩ := getF_start s t now (tkGet ticks t) f h.obj
  have hgate : gateBlocked f1 now = false := by
    rw [gateBlocked_congr hinfo]; exact gate_transferInit f now _ h.gate
  unfold runFile
  simp only [hg]
  generalize autoPublish (fileStartStep s t now (tkGet ticks t)) now = s1 at hf1 ⊢
  have hatt : f1.info.attempt = none := by
    rw [hinfo]
    show f.faults[f.info.total]? = none
    rw [h.nofault]; rfl
  have hopen : (startCur s1 t).openFail = false := by
    unfold startCur
    simp only [hf1, hatt]
    rfl
  have hof : openFailed true s1 (some (startCur s1 t)) = none := by
    unfold openFailed
    simp only [hopen, Bool.and_false, Bool.false_eq_true, if_false]
  simp only [hof]
  split
  · rename_i hq
    refine Or.inr ⟨rfl, ?_⟩
    intro e; rw [e] at hq; simp at hq
  · have hkey : (startCur s1 t).key = t := rfl
    simp only [hkey, hf1, hgate]
    obtain ⟨b, e, he⟩ := encRead_fresh f1.nSym (startCur s1 t).enc.closable (canStop f1 && !s1.files.contains t)
    have henc : (startCur s1 t).enc = { sent := 0, stopped := false, closable := (startCur s1 t).enc.closable } := by
      unfold startCur
      simp only [hf1, hatt]
      rfl
    rw [henc, he]
    exact Or.inl ⟨0, b, rfl⟩

/-- an occupied slot of the same queue: a packet, a pending FDT, or nothing happens at all -/
theorem runFile_held_wait (fuel : Nat) (s : State) (prio now : Nat) (ticks : List (Nat × Nat)) (t : Nat) (f : FileDesc)
    (c : Cur) (h : WaitReady s prio now t f) (hc : c.key ∉ s.queue) :
    (∃ t' i b, (runFile (fuel + 2) s prio (some c) now ticks).2.2 = Out.pkt prio t' i b) ∨
    ((runFile (fuel + 2) s prio (some c) now ticks).2.2 = Out.none ∧
      (runFile (fuel + 2) s prio (some c) now ticks).1.fdtQueue ≠ []) ∨
    ((runFile (fuel + 2) s prio (some c) now ticks).2.2 = Out.none ∧
      (runFile (fuel + 2) s prio (some c) now ticks).1 = s ∧
      (runFile (fuel + 2) s prio (some c) now ticks).2.1 = some c) := by
  unfold runFile
  simp only [openFailed_false]
  split
  · rename_i hq
    refine Or.inr (Or.inl ⟨rfl, ?_⟩)
    intro e; rw [e] at hq; simp at hq
  · split
    · exact Or.inr (Or.inr ⟨rfl, rfl, rfl⟩)
    · split
      · exact Or.inr (Or.inr ⟨rfl, rfl, rfl⟩)
      · split
        · simp only [Bool.false_eq_true, if_false]
          rcases runFile_free fuel (transferDoneFile s c.key now) prio now ticks t f (h.done c.key hc) with ⟨i, b, e⟩ | e
          · exact Or.inl ⟨t, i, b, e⟩
          · exact Or.inr (Or.inl e)
        · exact Or.inl ⟨c.key, _, _, rfl⟩

/-- a slot that takes the next waiting object at once: empty, or holding a FINISHED transfer (stopped, or all packets
    sent) whose pacing gate is open - `SenderSession::run` releases it and calls `get_next` in the same poll -/
def Avail (s : State) (now : Nat) (cur : Option Cur) : Prop :=
  cur = none ∨ ∃ c g, cur = some c ∧ getF s.objs c.key = some g ∧ gateBlocked g now = false ∧
    (c.enc.stopped = true ∨ g.nPk ≤ c.enc.sent)

/-- a finished transfer in the slot: it is released and the waiting object started in the same poll -/
theorem runFile_finished_wait (fuel : Nat) (s : State) (prio now : Nat) (ticks : List (Nat × Nat)) (t : Nat)
    (f : FileDesc) (c : Cur) (g : FileDesc) (h : WaitReady s prio now t f) (hc : c.key ∉ s.queue)
    (hg : getF s.objs c.key = some g) (hgate : gateBlocked g now = false)
    (hfin : c.enc.stopped = true ∨ g.nPk ≤ c.enc.sent) :
    (∃ t' i b, (runFile (fuel + 2) s prio (some c) now ticks).2.2 = Out.pkt prio t' i b) ∨
    ((runFile (fuel + 2) s prio (some c) now ticks).2.2 = Out.none ∧
      (runFile (fuel + 2) s prio (some c) now ticks).1.fdtQueue ≠ []) := by
  have henc : ∀ force, (encRead g.nSym c.enc force).1 = none := by
    intro force
    rw [encRead_eq]
    rcases hfin with h1 | h1
    · rw [if_pos h1]
    · by_cases hs : c.enc.stopped = true
      · rw [if_pos hs]
      · rw [if_neg hs]
        have : ¬ c.enc.sent < (if g.nSym = 0 then 1 else g.nSym) := by
          have e : g.nPk = (if g.nSym = 0 then 1 else g.nSym) := rfl
          rw [← e]; omega
        rw [if_neg this]
  unfold runFile
  simp only [openFailed_false]
  split
  · rename_i hq
    refine Or.inr ⟨rfl, ?_⟩
    intro e; rw [e] at hq; simp at hq
  · simp only [hg, hgate, Bool.false_eq_true, if_false]
    have he := henc (canStop g && !s.files.contains c.key)
    generalize encRead g.nSym c.enc (canStop g && !s.files.contains c.key) = r at he
    obtain ⟨r1, r2⟩ := r
    simp only [] at he
    subst he
    simp only [Bool.false_eq_true, if_false]
    rcases runFile_free fuel (transferDoneFile s c.key now) prio now ticks t f (h.done c.key hc) with ⟨i, b, e⟩ | e
    · exact Or.inl ⟨t, i, b, e⟩
    · exact Or.inr e

/-- the poll of a priority queue with a free slot and a ready waiting object -/
theorem readQueue_wait (now : Nat) (ticks : List (Nat × Nat)) (t : Nat) (f : FileDesc) (j n : Nat) (hj : j < n) :
    ∀ steps (s : State) (q : QSess) (curj : Option Cur), WaitReady s q.prio now t f → q.slots.length = n → q.index < n →
    q.slots[j]? = some curj → Avail s now curj →
    (∀ (i : Nat) (c0 : Cur), q.slots[i]? = some (some c0) → c0.key ∉ s.queue) →
    rrDist q.index j n < steps →
    (∃ t' i b, (readQueue steps s q now ticks).2.2 = Out.pkt q.prio t' i b) ∨
    ((readQueue steps s q now ticks).2.2 = Out.none ∧ (readQueue steps s q now ticks).1.fdtQueue ≠ []) := by
  intro steps
  induction steps with
  | zero => intro s q _ _ _ _ _ _ _ hd; exact absurd hd (Nat.not_lt_zero _)
  | succ m ih =>
    intro s q curj h hn hidx hjs hav hdis hd
    unfold readQueue
    split
    · rename_i hnone
      rw [List.getElem?_eq_none_iff] at hnone
      omega
    · rename_i cur hcur
      -- outcome of the slot: packet / pending / untouched
      have hslot : (∃ t' i b, (runFile runFuel s q.prio cur now ticks).2.2 = Out.pkt q.prio t' i b) ∨
          ((runFile runFuel s q.prio cur now ticks).2.2 = Out.none ∧
            (runFile runFuel s q.prio cur now ticks).1.fdtQueue ≠ []) ∨
          ((runFile runFuel s q.prio cur now ticks).2.2 = Out.none ∧
            (runFile runFuel s q.prio cur now ticks).1 = s ∧
            (runFile runFuel s q.prio cur now ticks).2.1 = cur ∧ q.index ≠ j) := by
        cases cur with
        | none =>
          have e : runFuel = 3 + 1 := rfl
          rw [e]
          rcases runFile_free 3 s q.prio now ticks t f h with ⟨i, b, e1⟩ | e1
          · exact Or.inl ⟨t, i, b, e1⟩
          · exact Or.inr (Or.inl e1)
        | some c =>
          have e : runFuel = 2 + 2 := rfl
          rw [e]
          by_cases hij : q.index = j
          · -- the available slot holds a finished transfer
            rw [hij, hjs] at hcur
            simp only [Option.some.injEq] at hcur
            subst hcur
            rcases hav with h0 | ⟨c', g, h1, h2, h3, h4⟩
            · cases h0
            · simp only [Option.some.injEq] at h1
              subst h1
              rcases runFile_finished_wait 2 s q.prio now ticks t f c g h
                  (hdis j c (by rw [hjs])) h2 h3 h4 with e1 | e1
              · exact Or.inl e1
              · exact Or.inr (Or.inl e1)
          · rcases runFile_held_wait 2 s q.prio now ticks t f c h (hdis q.index c hcur) with e1 | e1 | ⟨e1, e2, e3⟩
            · exact Or.inl e1
            · exact Or.inr (Or.inl e1)
            · exact Or.inr (Or.inr ⟨e1, e2, e3, hij⟩)
      generalize runFile runFuel s q.prio cur now ticks = r at hslot
      obtain ⟨s', cur', out⟩ := r
      simp only [] at hslot ⊢
      rcases hslot with ⟨t', i, b, e1⟩ | ⟨e1, e2⟩ | ⟨e1, e2, e3, hne⟩
      · subst e1; exact Or.inl ⟨t', i, b, rfl⟩
      · subst e1
        simp only []
        exact Or.inr (readQueue_pending m s' _ now ticks e2)
      · subst e1; subst e2; subst e3
        simp only []
        have hdist : rrDist (if q.index + 1 = q.slots.length then 0 else q.index + 1) j n + 1 = rrDist q.index j n := by
          unfold rrDist
          rw [hn]
          split <;> split <;> split <;> omega
        exact ih s' { q with slots := q.slots.set q.index cur', index := (if q.index + 1 = q.slots.length then 0 else q.index + 1) } curj
          h (by simp [hn]) (by show (if q.index + 1 = q.slots.length then 0 else q.index + 1) < n; split <;> omega)
          (by show (q.slots.set q.index cur')[j]? = _; rw [List.getElem?_set_ne hne]; exact hjs) hav
          (by
            intro i c0 hget
            have hget' : (q.slots.set q.index cur')[i]? = some (some c0) := hget
            by_cases hiq : q.index = i
            · subst hiq
              rw [List.getElem?_set_self (by omega)] at hget'
              simp only [Option.some.injEq] at hget'
              subst hget'
              exact hdis q.index c0 hcur
            · rw [List.getElem?_set_ne hiq] at hget'
              exact hdis i c0 hget')
          (by show rrDist (if q.index + 1 = q.slots.length then 0 else q.index + 1) j n < m; omega)

end Flute.Sched
