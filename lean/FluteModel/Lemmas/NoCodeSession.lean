import FluteModel.Lemmas.ObjRecvExact
import FluteModel.Lemmas.Partition
/-
  The concrete No-Code session of an object `T` sent with OTI `o` (RFC 5052 partition, symbols = E-byte slices of `T`,
  last symbol short) and the proof that it satisfies `GSess.Laws` for EVERY codec value (No-Code uses none of it).
-/
namespace Flute.ObjRecv
open Flute Flute.FecDec Flute.Lemmas.Partition

theorem genuineConcat_chunks (T : Bytes) (e F : Nat) (i n : Nat) :
    genuineConcat (fun esi => (T.drop ((F + esi) * e)).take e) i n = (T.drop ((F + i) * e)).take (n * e) := by
  induction n generalizing i with
  | zero => simp [genuineConcat]
  | succ m ih =>
    simp only [genuineConcat]
    rw [ih (i + 1)]
    have e1 : (m + 1) * e = e + m * e := by rw [Nat.add_mul]; omega
    have e2 : (F + (i + 1)) * e = (F + i) * e + e := by rw [← Nat.add_assoc, Nat.add_mul]; omega
    rw [e1, List.take_add, List.drop_drop, e2]

/-- the sender's view of a No-Code object -/
def noCodeSession (T : Bytes) (o : Oti) : GSess :=
  let l := T.length
  let ts := divCeil l o.e
  let n := divCeil ts o.b
  let q := ts / n
  let r := ts % n
  let aL := if r = 0 then q else q + 1
  { T := T, o := o, aL := aL, aS := q, nL := r, n := n,
    K := fun sbn => symsOf aL q r sbn,
    sym := fun sbn esi => (T.drop ((firstSym aL q r sbn + esi) * o.e)).take o.e,
    D := fun sbn => genuineConcat (fun esi => (T.drop ((firstSym aL q r sbn + esi) * o.e)).take o.e) 0 (symsOf aL q r sbn),
    pre := fun sbn => T.take (firstSym aL q r sbn * o.e) }

theorem noCodeSession_laws (c : Codec) (T : Bytes) (o : Oti) (hs : o.scheme = .noCode)
    (he : 0 < o.e) (hb : 0 < o.b) (hb32 : o.b < 2 ^ 32) (hT : T.length < 2 ^ 32) :
    (noCodeSession T o).Laws c := by
  by_cases hl0 : T.length = 0
  · -- empty object: no block at all
    have hts : divCeil T.length o.e = 0 := by rw [hl0]; simp [divCeil]
    have hn : divCeil (divCeil T.length o.e) o.b = 0 := by rw [hts]; simp [divCeil]
    have hT0 : T = [] := List.eq_nil_of_length_eq_zero hl0
    refine ⟨?_, ?_, ?_, ?_, ?_, ?_, ?_⟩
    · simp only [noCodeSession, hn, hts]
      unfold Partition.blockPartitioning
      simp [Nat.ne_of_gt he, Nat.ne_of_gt hb, hl0, divCeil]
    · intro sbn h; simp [noCodeSession, hn] at h
    · intro _ sbn h; simp [noCodeSession, hn] at h
    · intro sbn h; simp [noCodeSession, hn] at h
    · simp [noCodeSession, hT0]
    · intro sbn h; simp [noCodeSession, hn] at h
    · simp [noCodeSession, hT0]
  · have hl : 0 < T.length := Nat.pos_of_ne_zero hl0
    have hts : 0 < divCeil T.length o.e := divCeil_pos _ _ he hl
    have ⟨hN, hNT, hNB⟩ := nblocks_bounds (divCeil T.length o.e) o.b hts hb
    have ⟨hq, _, hAL⟩ := quad_shape (divCeil T.length o.e) (divCeil (divCeil T.length o.e) o.b) hN hNT
    have hcov := coverage (divCeil T.length o.e) (divCeil (divCeil T.length o.e) o.b) hN
    have haLB := aLarge_le_B (divCeil T.length o.e) o.b hts hb
    have hr := Nat.mod_lt (divCeil T.length o.e) hN
    have ⟨s1, s2⟩ := divCeil_spec T.length o.e he
    have htsl := divCeil_le_self T.length o.e he
    -- abbreviations
    generalize hTs : divCeil T.length o.e = ts at *
    generalize hNn : divCeil ts o.b = n at *
    generalize hqq : ts / n = q at *
    generalize hrr : ts % n = r at *
    generalize haL : (if r = 0 then q else q + 1) = aL at *
    have haL1 : 1 ≤ aL := by rw [← haL]; split <;> omega
    have haLq : q ≤ aL := by rw [← haL]; split <;> omega
    have haLb : aL ≤ o.b := by rw [← hAL] ; exact haLB
    have hfN : firstSym aL q r n = ts := by rw [firstSym_N _ _ _ _ (Nat.le_of_lt hr)]; exact hcov
    have hfirst : ∀ sbn, sbn < n → firstSym aL q r sbn + symsOf aL q r sbn ≤ ts := by
      intro sbn hsbn
      have := firstSym_room aL q r n haL1 hq (n - (sbn + 1)) (by omega)
      rw [show n - (n - (sbn + 1)) = sbn + 1 by omega, firstSym_succ, hfN] at this
      omega
    refine ⟨?_, ?_, ?_, ?_, ?_, ?_, ?_⟩
    · have := bp_shape o.b T.length o.e hb he hl (by omega)
      simp only [noCodeSession, hTs, hNn, hqq, hrr, haL] at this ⊢
      exact this
    · intro sbn hsbn
      simp only [noCodeSession, hTs, hNn, hqq, hrr, haL] at hsbn ⊢
      have h1 : r % U32 = r := Nat.mod_eq_of_lt (by unfold U32; omega)
      have h2 : aL % U32 = aL := Nat.mod_eq_of_lt (by unfold U32; omega)
      have h3 : q % U32 = q := Nat.mod_eq_of_lt (by unfold U32; omega)
      rw [h1, h2, h3]; rfl
    · intro _ sbn _; rfl
    · intro sbn _
      refine ⟨fun h => ?_, fun h => ?_, fun h => ?_⟩
      · simp only [noCodeSession, hs] at h; cases h <;> contradiction
      · simp only [noCodeSession, hs] at h; contradiction
      · simp only [noCodeSession, hs] at h; contradiction
    · simp [noCodeSession, firstSym_zero]
    · intro sbn hsbn
      simp only [noCodeSession, hTs, hNn, hqq, hrr, haL] at hsbn ⊢
      have hk := symsOf_pos aL q r sbn haL1 hq
      have hf := hfirst sbn hsbn
      rw [genuineConcat_chunks T o.e (firstSym aL q r sbn) 0 (symsOf aL q r sbn), firstSym_succ]
      simp only [Nat.add_zero]
      -- the block starts inside the object
      have hstart : firstSym aL q r sbn * o.e < T.length := sym_lt s2 (by omega)
      have htake : (T.take (firstSym aL q r sbn * o.e)).length = firstSym aL q r sbn * o.e := by
        rw [List.length_take]; omega
      rw [htake]
      have hX : ((T.drop (firstSym aL q r sbn * o.e)).take (symsOf aL q r sbn * o.e)).length ≤
          T.length - firstSym aL q r sbn * o.e := by
        rw [List.length_take, List.length_drop]; omega
      have htrim : trimTo (T.length - firstSym aL q r sbn * o.e)
          ((T.drop (firstSym aL q r sbn * o.e)).take (symsOf aL q r sbn * o.e)) =
          (T.drop (firstSym aL q r sbn * o.e)).take (symsOf aL q r sbn * o.e) := by
        unfold trimTo
        split
        · rfl
        · exact List.take_of_length_le hX
      rw [htrim, Nat.add_mul, List.take_add]
    · simp only [noCodeSession, hTs, hNn, hqq, hrr, haL]
      rw [hfN]
      exact List.take_of_length_le s1

end Flute.ObjRecv
