import FluteModel.Lemmas.BencShape
/-
  Stream sources: the repaired fill loop of `read_block_stream` reads exactly the bytes the buffer
  source slices, whatever the read schedule.
-/
namespace Flute.BencStream
open Flute Flute.Fec Flute.BlockEnc Flute.BencArith Flute.BencBlocks Flute.BencInv

/-- one `read(buf)` of `want > 0` bytes: between 1 and `want` bytes unless the stream is at its end -/
theorem stream_read_spec (st : Stream) (want : Nat) :
    ∃ m, m ≤ want ∧ m ≤ st.bytes.length - st.pos ∧ (0 < want → st.pos < st.bytes.length → 0 < m) ∧
      (st.read want).1 = (st.bytes.drop st.pos).take m ∧ (st.read want).2.pos = st.pos + m ∧
      (st.read want).2.bytes = st.bytes := by
  unfold Stream.read
  cases hsc : st.sched with
  | nil =>
    refine ⟨min want (st.bytes.length - st.pos), by omega, by omega, by omega, rfl, rfl, rfl⟩
  | cons h t =>
    refine ⟨min (min want (max h 1)) (st.bytes.length - st.pos), by omega, by omega, by omega, rfl, rfl, rfl⟩

/-- the fill loop returns exactly the next `min(want, remaining)` bytes of the stream - for EVERY schedule -/
theorem fill_spec : ∀ (fuel : Nat) (st : Stream) (want : Nat) (acc : Bytes), want ≤ fuel →
    (fill fuel st want acc).1 = acc ++ (st.bytes.drop st.pos).take want ∧
    (fill fuel st want acc).2.pos = st.pos + min want (st.bytes.length - st.pos) ∧
    (fill fuel st want acc).2.bytes = st.bytes := by
  intro fuel
  induction fuel with
  | zero =>
    intro st want acc h
    have : want = 0 := by omega
    subst this
    simp [fill]
  | succ fuel ih =>
    intro st want acc h
    unfold fill
    by_cases hw : want = 0
    · subst hw; simp
    · simp only [hw, if_false]
      obtain ⟨m, hm1, hm2, hm3, hr1, hr2, hr3⟩ := stream_read_spec st want
      generalize hrd : st.read want = r at hr1 hr2 hr3
      obtain ⟨got, st'⟩ := r
      simp only at hr1 hr2 hr3 ⊢
      have hgl : got.length = m := by rw [hr1]; simp; omega
      by_cases hg : got.length = 0
      · simp only [hg, if_true]
        have hm0 : m = 0 := by omega
        have hend : ¬ st.pos < st.bytes.length := fun h => by have := hm3 (by omega) h; omega
        have hdrop : st.bytes.drop st.pos = [] := List.drop_eq_nil_iff.mpr (by omega)
        refine ⟨by rw [hdrop]; simp, by rw [hr2, hm0]; omega, hr3⟩
      · simp only [hg, if_false]
        obtain ⟨i1, i2, i3⟩ := ih st' (want - got.length) (acc ++ got) (by omega)
        rw [hr3, hr2] at i1 i2
        refine ⟨?_, ?_, by rw [i3, hr3]⟩
        · rw [i1, hgl, hr1, List.append_assoc]
          congr 1
          have : want = m + (want - m) := by omega
          conv => rhs; rw [this, List.take_add, List.drop_drop]
        · rw [i2, hgl]; omega

/-- cutting one block from a stream positioned at the buffer offset gives the block the buffer source cuts
    (any schedule): same `Block`, same new offset -/
theorem readBlockStream_eq_buffer (P : Params) (s : Enc) (st : Stream) (hnl : P.legacy = false)
    (hpos : st.pos = s.off) (hlt : s.off < st.bytes.length) (hk : 0 < s.blockLength * P.e) :
    ∃ st', readBlockStream P s st =
        (match readBlockBuffer P s st.bytes with
         | some sb => some { sb with src := .stream st', readEnd := s.readEnd }
         | none => none) ∧
      st'.bytes = st.bytes ∧ st'.pos = min (s.off + s.blockLength * P.e) st.bytes.length := by
  obtain ⟨f1, f2, f3⟩ := fill_spec (s.blockLength * P.e) st (s.blockLength * P.e) [] (Nat.le_refl _)
  refine ⟨(fill (s.blockLength * P.e) st (s.blockLength * P.e) []).2, ?_, f3, by rw [f2, hpos]; omega⟩
  unfold readBlockStream readBlockBuffer
  simp only [hnl, Bool.false_eq_true, if_false]
  generalize hfl : fill (s.blockLength * P.e) st (s.blockLength * P.e) [] = r at f1 f2 f3
  obtain ⟨buf, st'⟩ := r
  simp only [List.nil_append] at f1 f2 f3 ⊢
  have hbuf : buf = (st.bytes.drop s.off).take
      ((if s.off + s.blockLength * P.e > st.bytes.length then st.bytes.length else s.off + s.blockLength * P.e) - s.off) := by
    rw [f1, hpos]
    split
    · rw [List.take_of_length_le (by simp; omega), List.take_of_length_le (by simp)]
    · congr 1; omega
  have hbl : ¬ buf.length = 0 := by
    rw [f1, hpos]; simp; omega
  simp only [hbl, if_false]
  rw [← hbuf]
  cases Block.new P s.sbn buf with
  | none => rfl
  | some blk =>
    simp only [Option.some.injEq]
    have : s.off + buf.length =
        (if s.off + s.blockLength * P.e > st.bytes.length then st.bytes.length else s.off + s.blockLength * P.e) := by
      rw [f1, hpos]; simp; split <;> omega
    rw [this]

end Flute.BencStream
