import FluteModel.FecDec
/-
  The No-Code decoder (src/fec/nocode.rs): symbols are placed by ESI, the first copy of an ESI wins, the block is complete when
  all k slots are filled, and then it is the concatenation of the k symbols.  If every symbol pushed is the genuine one for its
  ESI (`sym = G esi`), duplicates and any arrival order are harmless: the decoded block is `G 0 ++ G 1 ++ … ++ G (k-1)`.
-/
namespace Flute.FecDec

/-- concatenation of the genuine symbols `G i, …, G (i+n-1)` -/
def genuineConcat (G : Nat → Bytes) : Nat → Nat → Bytes
  | _, 0 => []
  | i, n + 1 => G i ++ genuineConcat G (i + 1) n

/-- every filled slot `j` of `shards` (slot 0 of the list is ESI `i`) holds the genuine symbol -/
def SlotsOK (G : Nat → Bytes) (i : Nat) : List (Option Bytes) → Prop
  | [] => True
  | none :: r => SlotsOK G (i + 1) r
  | some s :: r => s = G i ∧ SlotsOK G (i + 1) r

theorem slotsOK_replicate (G : Nat → Bytes) (i k : Nat) : SlotsOK G i (List.replicate k none) := by
  induction k generalizing i with
  | zero => simp [SlotsOK]
  | succ n ih => simp [List.replicate_succ, SlotsOK, ih]

theorem slotsOK_set (G : Nat → Bytes) (i : Nat) (l : List (Option Bytes)) (j : Nat) (h : SlotsOK G i l) :
    SlotsOK G i (l.set j (some (G (i + j)))) := by
  induction l generalizing i j with
  | nil => simp [SlotsOK]
  | cons a r ih =>
    cases j with
    | zero =>
      cases a with
      | none => simp [List.set, SlotsOK] at h ⊢; exact h
      | some s => simp [List.set, SlotsOK] at h ⊢; exact h.2
    | succ j' =>
      have e : i + (j' + 1) = (i + 1) + j' := by omega
      cases a with
      | none => simp only [List.set, SlotsOK] at h ⊢; rw [e]; exact ih _ _ h
      | some s => simp only [List.set, SlotsOK] at h ⊢; rw [e]; exact ⟨h.1, ih _ _ h.2⟩

/-- if all of the first `n` slots are filled with genuine symbols, their concatenation is the genuine block part -/
theorem concatShards_genuine (G : Nat → Bytes) (i n : Nat) (l : List (Option Bytes)) (out : Bytes)
    (h : SlotsOK G i l) (hc : concatShards n l = some out) : out = genuineConcat G i n := by
  induction n generalizing i l out with
  | zero => simp [concatShards] at hc; simp [genuineConcat, hc]
  | succ m ih =>
    cases l with
    | nil => simp [concatShards] at hc
    | cons a r =>
      cases a with
      | none => simp [concatShards] at hc
      | some s =>
        simp only [concatShards] at hc
        simp only [SlotsOK] at h
        cases hr : concatShards m r with
        | none => simp [hr] at hc
        | some t =>
          simp [hr] at hc
          rw [← hc, h.1, ih _ _ _ h.2 hr]
          simp [genuineConcat]

/-- invariant of a No-Code decoder fed with genuine symbols only -/
def NoCodeOK (G : Nat → Bytes) (k : Nat) : Dec → Prop
  | .noCode shards _ data => shards.length = k ∧ SlotsOK G 0 shards ∧ (∀ d, data = some d → d = genuineConcat G 0 k)
  | _ => False

theorem noCodeOK_init (G : Nat → Bytes) (k : Nat) : NoCodeOK G k (.noCode (List.replicate k none) 0 none) := by
  simp [NoCodeOK, slotsOK_replicate]

/-- `push_symbol` of a genuine symbol keeps the invariant - whatever the ESI (out of range: ignored), duplicate or not -/
theorem noCodeOK_push (c : Codec) (G : Nat → Bytes) (k : Nat) (d : Dec) (esi : Nat)
    (h : NoCodeOK G k d) : NoCodeOK G k (d.pushSymbol c (G esi) esi) := by
  cases d with
  | noCode shards nb data =>
    simp only [Dec.pushSymbol]
    split
    · exact h
    · split
      · exact h
      · simp only [NoCodeOK] at h ⊢
        refine ⟨by simp [h.1], ?_, h.2.2⟩
        have := slotsOK_set G 0 shards esi h.2.1
        simpa using this
  | rs => exact h.elim
  | rq => exact h.elim
  | raptor => exact h.elim

/-- `decode` keeps the invariant: a decoded No-Code block is the concatenation of the genuine symbols -/
theorem noCodeOK_decode (c : Codec) (G : Nat → Bytes) (k : Nat) (d : Dec)
    (h : NoCodeOK G k d) : NoCodeOK G k (d.decode c).1 := by
  cases d with
  | noCode shards nb data =>
    simp only [Dec.decode]
    split
    · exact h
    · split
      · exact h
      · split
        · rename_i out hc
          simp only [NoCodeOK] at h ⊢
          refine ⟨h.1, h.2.1, ?_⟩
          intro d' hd
          simp at hd
          rw [← hd]
          rw [h.1] at hc
          exact concatShards_genuine G 0 k shards out h.2.1 hc
        · exact h
  | rs => exact h.elim
  | rq => exact h.elim
  | raptor => exact h.elim

/-- No silent corruption at the block level (No-Code): for EVERY sequence of genuine symbols of a block - any subset, order,
    duplication, also ESIs out of range - the source block handed to the BlockWriter, if any, is the genuine block. -/
theorem nocode_complete_is_concat (c : Codec) (G : Nat → Bytes) (k : Nat) (esis : List Nat) :
    ∀ d : Dec, NoCodeOK G k d →
      let d' := esis.foldl (fun d esi =>
        let d1 := d.pushSymbol c (G esi) esi
        if d1.canDecode c then (d1.decode c).1 else d1) d
      ∀ blk, d'.sourceBlock = some blk → blk = genuineConcat G 0 k := by
  induction esis with
  | nil =>
    intro d h
    simp only [List.foldl]
    intro blk hb
    cases d with
    | noCode shards nb data => exact h.2.2 blk hb
    | rs => exact h.elim
    | rq => exact h.elim
    | raptor => exact h.elim
  | cons e r ih =>
    intro d h
    simp only [List.foldl]
    apply ih
    have h1 := noCodeOK_push c G k d e h
    split
    · exact noCodeOK_decode c G k _ h1
    · exact h1

end Flute.FecDec
