import FluteModel.Lemmas.SessionRun
/-
  The empty object (transfer length 0, no block): after the repair of D14 (/repo 7ec1ac7) it is
  completed by the first packet that finds it attached to an FDT instance - never before.
-/
namespace Flute.Lemmas.Session
open Flute.Session

variable (c : Codec)

theorem pushSym_empty (rc : RxCfg) (o : ObjCfg) (hE : o.ks.isEmpty = true) (rx : ORx) (s : Sym) :
    pushSym c.canDecode rc o rx s =
      { rx := rx, term := if rx.attached then .completed else if s.close then .interrupted else .receiving } := by
  unfold pushSym pushCore
  simp only [hE, ↓reduceIte]
  by_cases ha : rx.attached = true
  · simp [ha]
  · have ha' : rx.attached = false := by simpa using ha
    by_cases hc : s.close = true
    · simp [ha', hc]
    · have hc' : s.close = false := by simpa using hc
      simp [ha', hc']

theorem attach_empty (rc : RxCfg) (o : ObjCfg) (hE : o.ks.isEmpty = true) (rx : ORx) :
    attach c.canDecode rc o rx = { rx := { rx with attached := true, otiKnown := true }, term := .receiving } := by
  unfold attach
  simp only [hE, ↓reduceIte, attach.settle', beq_self_eq_true]

/-- invariant of the slice of an empty object that was never delivered -/
structure EI (st : OState) : Prop where
  notDone : st.completed = false
  known : ∀ rx, st.obj = some rx → rx.attached = true → rx.otiKnown = true

def EGood (st : OState) : Prop := 1 ≤ st.completes ∨ EI st

theorem pushObj_empty (rc : RxCfg) (o : ObjCfg) (hE : o.ks.isEmpty = true) (st : OState) (rx : ORx) (s : Sym)
    (hnd : st.completed = false) (hk : rx.attached = true → rx.otiKnown = true) :
    (rx.attached = true → 1 ≤ (pushObj c.canDecode rc o st rx s).completes) ∧
    EGood (pushObj c.canDecode rc o st rx s) := by
  unfold pushObj
  dsimp only
  by_cases ha : rx.attached = true
  · have hkn := hk ha
    simp only [hkn, Bool.not_true, Bool.false_and, Bool.false_eq_true, ↓reduceIte]
    rw [pushSym_empty c rc o hE]
    simp only [ha, ↓reduceIte]
    have : (finish o st { rx := rx, term := Term.completed }).completes = st.completes + 1 :=
      finish_completed o st _ rfl ha
    exact ⟨fun _ => by omega, Or.inl (by omega)⟩
  · have ha' : rx.attached = false := by simpa using ha
    refine ⟨fun h => absurd h ha, ?_⟩
    right
    by_cases hcnd : (!rx.otiKnown && o.inbandFti) = true
    · simp only [hcnd, ↓reduceIte, Bool.not_true, Bool.false_eq_true]
      rw [pushSym_empty c rc o hE]
      simp only [ha', Bool.false_eq_true, ↓reduceIte]
      by_cases hcl : s.close = true
      · simp only [hcl, ↓reduceIte]
        unfold finish
        simp only [ha', Bool.false_eq_true, ↓reduceIte]
        exact ⟨hnd, by intro rx' h; simp at h⟩
      · have : s.close = false := by simpa using hcl
        simp only [this, Bool.false_eq_true, ↓reduceIte]
        rw [finish_receiving o st _ rfl]
        exact ⟨hnd, by intro rx' h hatt; simp only [Option.some.injEq] at h; subst h; simp at hatt; try exact absurd hatt ha⟩
    · simp only [hcnd, Bool.false_eq_true, ↓reduceIte]
      by_cases hkn : rx.otiKnown = true
      · simp only [hkn, Bool.not_true, Bool.false_eq_true, ↓reduceIte]
        rw [pushSym_empty c rc o hE]
        simp only [ha', Bool.false_eq_true, ↓reduceIte]
        by_cases hcl : s.close = true
        · simp only [hcl, ↓reduceIte]
          unfold finish
          simp only [ha', Bool.false_eq_true, ↓reduceIte]
          exact ⟨hnd, by intro rx' h; simp at h⟩
        · have : s.close = false := by simpa using hcl
          simp only [this, Bool.false_eq_true, ↓reduceIte]
          rw [finish_receiving o st _ rfl]
          exact ⟨hnd, by intro rx' h hatt; simp only [Option.some.injEq] at h; subst h; exact absurd hatt ha⟩
      · have hkn' : rx.otiKnown = false := by simpa using hkn
        simp only [hkn', Bool.not_false, ↓reduceIte]
        split
        · unfold finish
          simp only [ha', Bool.false_eq_true, ↓reduceIte]
          exact ⟨hnd, by intro rx' h; simp at h⟩
        · rw [finish_receiving o st _ rfl]
          exact ⟨hnd, by intro rx' h hatt; simp only [Option.some.injEq] at h; subst h; simp at hatt; exact absurd hatt ha⟩

/-- any event keeps `EGood`; a packet that finds the object attached or attachable delivers it -/
theorem stepObj_empty (rc : RxCfg) (o : ObjCfg) (hE : o.ks.isEmpty = true) (st : OState) (e : Ev) (h : EGood st) :
    EGood (stepObj c.canDecode rc o st e) := by
  rcases h with h | h
  · exact Or.inl (Nat.le_trans h (stepObj_completes_ge c rc o st e))
  · cases e with
    | fdt l =>
      simp only [stepObj, fdtEv]
      cases hobj : st.obj with
      | none => right; exact ⟨by simp [h.notDone], by intro rx hrx; simp [hobj] at hrx⟩
      | some rx =>
        simp only
        by_cases hcnd : (l && !rx.attached) = true
        · simp only [hcnd, ↓reduceIte]
          rw [attach_empty c rc o hE, finish_receiving o _ _ rfl]
          right
          exact ⟨by simp [h.notDone], by intro rx' hrx' _; simp only [Option.some.injEq] at hrx'; subst hrx'; rfl⟩
        · simp only [hcnd, Bool.false_eq_true, ↓reduceIte]
          right
          exact ⟨by simp [h.notDone], by intro rx' hrx'; simp only [hobj, Option.some.injEq] at hrx'; subst hrx'; exact h.known rx hobj⟩
    | pkt s =>
      simp only [stepObj, h.notDone, Bool.false_eq_true, ↓reduceIte, pushNew]
      cases hobj : st.obj with
      | some rx => exact (pushObj_empty c rc o hE st rx s h.notDone (h.known rx hobj)).2
      | none =>
        simp only
        by_cases hage : st.age.isSome = true
        · simp only [hage, ↓reduceIte]
          rw [attach_empty c rc o hE]
          simp only [bne_self_eq_false, Bool.false_eq_true, ↓reduceIte]
          exact (pushObj_empty c rc o hE _ _ s (by simp [h.notDone]) (fun _ => rfl)).2
        · simp only [hage, Bool.false_eq_true, ↓reduceIte]
          exact (pushObj_empty c rc o hE st rx0 s h.notDone (by intro h; simp [rx0] at h)).2

theorem runObj_empty (rc : RxCfg) (o : ObjCfg) (hE : o.ks.isEmpty = true) : ∀ (es : List Ev) (st : OState),
    EGood st → EGood (runObj c.canDecode rc o st es) := by
  intro es
  induction es with
  | nil => intro st h; simpa [runObj] using h
  | cons e es ih => intro st h; unfold runObj; exact ih _ (stepObj_empty c rc o hE st e h)

/-- the packet that finds the empty object attached, or attachable, delivers it -/
theorem pkt_delivers_empty (rc : RxCfg) (o : ObjCfg) (hE : o.ks.isEmpty = true) (st : OState) (s : Sym) (h : EI st)
    (hatt : (∃ rx, st.obj = some rx ∧ rx.attached = true) ∨ (st.obj = none ∧ st.age.isSome = true)) :
    1 ≤ (stepObj c.canDecode rc o st (.pkt s)).completes := by
  simp only [stepObj, h.notDone, Bool.false_eq_true, ↓reduceIte, pushNew]
  rcases hatt with ⟨rx, hobj, ha⟩ | ⟨hobj, hage⟩
  · simp only [hobj]
    exact (pushObj_empty c rc o hE st rx s h.notDone (h.known rx hobj)).1 ha
  · simp only [hobj, hage, ↓reduceIte]
    rw [attach_empty c rc o hE]
    simp only [bne_self_eq_false, Bool.false_eq_true, ↓reduceIte]
    exact (pushObj_empty c rc o hE _ _ s (by simp [h.notDone]) (fun _ => rfl)).1 rfl

/-- **the empty object is delivered** by the first packet that follows the completion of an FDT
    instance listing it, as long as that instance is still among the last 10 (`KeepsAge`) - whatever
    happened before (in particular packets that arrived before the FDT: D14 repaired) -/
theorem empty_delivered (rc : RxCfg) (o : ObjCfg) (hE : o.ks.isEmpty = true)
    (pre fs rest : List Ev) (s : Sym)
    (hfs : ∀ e, e ∈ fs → ∃ l, e = Ev.fdt l) (hkeep : KeepsAge 0 fs) :
    1 ≤ (runObj c.canDecode rc o {} (pre ++ Ev.fdt true :: (fs ++ Ev.pkt s :: rest))).completes := by
  rw [runObj_append]
  simp only [runObj]
  have h1 : EGood (runObj c.canDecode rc o {} pre) :=
    runObj_empty c rc o hE pre {} (Or.inr ⟨rfl, by intro rx h; simp at h⟩)
  rcases h1 with h1 | h1
  · exact Nat.le_trans (Nat.le_trans h1 (stepObj_completes_ge c rc o _ _)) (runObj_completes_ge c rc o _ _)
  · generalize hst1 : runObj c.canDecode rc o {} pre = st1 at h1
    rw [runObj_append]
    simp only [runObj]
    cases hobj : st1.obj with
    | some rx =>
      -- alive: attached now (or before), FDT completions do not touch it, the packet delivers it
      have hst2 : ∃ rx2, (stepObj c.canDecode rc o st1 (.fdt true)).obj = some rx2 ∧ rx2.attached = true ∧
          EI (stepObj c.canDecode rc o st1 (.fdt true)) := by
        simp only [stepObj, fdtEv, hobj]
        by_cases ha : rx.attached = true
        · simp only [ha, Bool.not_true, Bool.and_false, Bool.false_eq_true, ↓reduceIte]
          exact ⟨rx, hobj, ha, ⟨by simp [h1.notDone], by intro rx' h; exact h1.known rx' h⟩⟩
        · have ha' : rx.attached = false := by simpa using ha
          simp only [ha', Bool.not_false, Bool.and_self, ↓reduceIte]
          rw [attach_empty c rc o hE, finish_receiving o _ _ rfl]
          exact ⟨_, rfl, rfl, ⟨by simp [h1.notDone], by intro rx' h _; simp only [Option.some.injEq] at h; subst h; rfl⟩⟩
      obtain ⟨rx2, hobj2, ha2, hei2⟩ := hst2
      -- through the FDT completions
      have hrun : ∀ (l : List Ev) (st : OState), (∀ e, e ∈ l → ∃ b, e = Ev.fdt b) → EI st →
          (∃ r, st.obj = some r ∧ r.attached = true) →
          EI (runObj c.canDecode rc o st l) ∧ ∃ r, (runObj c.canDecode rc o st l).obj = some r ∧ r.attached = true := by
        intro l
        induction l with
        | nil => intro st _ h1 h2; simpa [runObj] using ⟨h1, h2⟩
        | cons e es ih =>
          intro st hl hei ⟨r, hr, har⟩
          obtain ⟨b, rfl⟩ := hl e (List.mem_cons_self ..)
          unfold runObj
          apply ih _ (fun e he => hl e (List.mem_cons_of_mem _ he))
          · simp only [stepObj, fdtEv, hr, har, Bool.not_true, Bool.and_false, Bool.false_eq_true, ↓reduceIte]
            exact ⟨by simp [hei.notDone], by intro rx' h; simp only [Option.some.injEq] at h; subst h; exact hei.known r hr⟩
          · simp only [stepObj, fdtEv, hr, har, Bool.not_true, Bool.and_false, Bool.false_eq_true, ↓reduceIte]
            exact ⟨r, rfl, har⟩
      obtain ⟨hei3, hr3⟩ := hrun fs _ hfs hei2 ⟨rx2, hobj2, ha2⟩
      have := pkt_delivers_empty c rc o hE _ s hei3 (Or.inl hr3)
      exact Nat.le_trans this (runObj_completes_ge c rc o _ _)
    | none =>
      have hst : stepObj c.canDecode rc o st1 (.fdt true) =
          { st1 with completed := st1.completed && true, age := ageStep st1.age true } := by
        simp only [stepObj, fdtEv, hobj]
      rw [hst]
      have hphase := run_fdts_none c rc o fs
        { st1 with completed := st1.completed && true, age := ageStep st1.age true } 0 hfs
        ⟨by simp [h1.notDone], by simp [hobj]⟩ (by simp [hobj]) (by simp [ageStep]) hkeep
      obtain ⟨p1, p2, p3, _⟩ := hphase
      have hei : EI (runObj c.canDecode rc o { st1 with completed := st1.completed && true, age := ageStep st1.age true } fs) :=
        ⟨p1.notDone, by intro rx h; rw [p2] at h; simp at h⟩
      have := pkt_delivers_empty c rc o hE _ s hei (Or.inr ⟨p2, p3⟩)
      exact Nat.le_trans this (runObj_completes_ge c rc o _ _)

end Flute.Lemmas.Session
