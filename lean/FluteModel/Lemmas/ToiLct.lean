/-
  Link between the two models of the TOI part of `push_lct_header` / `parse_lct_header`:
  `FluteModel/ToiWire.lean` (C15, TOI field only) and `FluteModel/Lct.lean` (C06, whole header).
-/
import FluteModel.Lemmas.Lct
import FluteModel.Lemmas.ToiWire
namespace Flute.ToiWire
open Flute Flute.Bytes

theorem nbBytes128_eq (v m : Nat) : nbBytes128 v m = Lct.nbBytes128 v m := rfl
theorem nbBytes64_eq (v m : Nat) : nbBytes64 v m = Lct.nbBytes64 v m := rfl

theorem beBytes_eq : ∀ (n v : Nat), ToiWire.beBytes n v = Bytes.beBytes n v := by
  intro n
  induction n with
  | zero => intro v; rfl
  | succ n ih => intro v; simp [ToiWire.beBytes, Bytes.beBytes, ih]

theorem lor_bit (a b : Nat) (ha : a < 2) (hb : b < 2) : a ||| b = max a b := by
  have : a = 0 ∨ a = 1 := by omega
  have : b = 0 ∨ b = 1 := by omega
  rcases ‹a = 0 ∨ a = 1› with rfl | rfl <;> rcases ‹b = 0 ∨ b = 1› with rfl | rfl <;> decide

/-- the O / H flags of the C15 model are the ones of the C06 model -/
theorem flags_eq (toi tsi : Nat) :
    (encode toi tsi).o = Lct.oOf (Lct.nbBytes128 toi 2) ∧
    (encode toi tsi).h = Lct.hOf (Lct.nbBytes64 tsi 2) (Lct.nbBytes128 toi 2) := by
  refine ⟨rfl, ?_⟩
  show max (hTsi tsi) (nbBytes128 toi 2 / 2 % 2) = _
  unfold Lct.hOf hTsi
  rw [lor_bit _ _ (by omega) (by omega)]
  rfl

/-- the field bytes of the C15 model, for in-range values, in the C06 model's terms -/
theorem bytes_eq (toi tsi : Nat) (htsi : tsi < 2 ^ 48) (htoi : toi < 2 ^ 112) :
    (encode toi tsi).bytes =
      Bytes.beBytes (Lct.oOf (Lct.nbBytes128 toi 2) * 4 +
        Lct.hOf (Lct.nbBytes64 tsi 2) (Lct.nbBytes128 toi 2) * 2) toi := by
  obtain ⟨_, ho, hh, _, _⟩ := Lct.soh_spec tsi toi htsi htoi
  obtain ⟨e1, e2⟩ := flags_eq toi tsi
  have : (encode toi tsi).bytes =
      (ToiWire.beBytes 16 toi).drop (16 - ((encode toi tsi).o * 4 + (encode toi tsi).h * 2)) := rfl
  rw [this, e1, e2, beBytes_eq]
  exact Bytes.beBytes_drop (by omega) toi

theorem drop_suffix (x c : List Nat) : (x ++ c).drop ((x ++ c).length - c.length) = c := by
  have : (x ++ c).length - c.length = x.length := by simp
  rw [this, List.drop_append_of_le_length (Nat.le_refl _), List.drop_eq_nil_of_le (Nat.le_refl _),
    List.nil_append]

/-- **link**: in the header built by the C06 model of `push_lct_header`, the second byte carries the
    O and H flags of the C15 model, the header ENDS with the C15 model's field bytes, and the C06 model
    of `parse_lct_header` (whatever follows the header) returns the TOI = what the C15 `decode` returns -/
theorem encode_is_lct_toi_field (psi cci tsi toi cp : Nat) (co cs : Bool) (rest : List Nat)
    (hpsi : psi < 4) (hcp : cp < 256) (hcci : cci < 2 ^ 128) (htsi : tsi < 2 ^ 48) (htoi : toi < 2 ^ 112) :
    let hdr := Lct.pushLctHeader psi cci tsi toi cp co cs
    let f := encode toi tsi
    (∃ b, hdr[1]? = some b ∧ b / 32 % 4 = f.o ∧ b / 16 % 2 = f.h) ∧
    hdr.drop (hdr.length - f.bytes.length) = f.bytes ∧
    (∃ p, Lct.parseLctHeader (hdr ++ rest) = .ok p ∧ p.toi = toi ∧ p.toi = decode f ∧
        p.headerExtOffset = hdr.length ∧
        hdr.drop (p.headerExtOffset - (4 * f.o + 2 * f.h)) = f.bytes) := by
  intro hdr f
  obtain ⟨hc, hcv⟩ := Lct.cOf_spec cci hcci
  obtain ⟨hs, ho, hh, htv, hov⟩ := Lct.soh_spec tsi toi htsi htoi
  have hb1 : Lct.b2n co < 2 := by unfold Lct.b2n; split <;> omega
  have hb2 : Lct.b2n cs < 2 := by unfold Lct.b2n; split <;> omega
  have hl := Lct.pushLctHeader_layout psi cci tsi toi cp co cs hpsi hcp hcci htsi htoi
  obtain ⟨fo, fh⟩ := flags_eq toi tsi
  have fb := bytes_eq toi tsi htsi htoi
  simp only [] at hl hs ho hh htv hov
  generalize hcg : Lct.cOf (Lct.nbBytes128 cci 0) = c at *
  generalize hsg : Lct.sOf (Lct.nbBytes64 tsi 2) = s at *
  generalize hog : Lct.oOf (Lct.nbBytes128 toi 2) = o at *
  generalize hhg : Lct.hOf (Lct.nbBytes64 tsi 2) (Lct.nbBytes128 toi 2) = h at *
  have hdr_eq : hdr = [16 + c * 4 + psi, s * 128 + o * 32 + h * 16 + Lct.b2n cs * 2 + Lct.b2n co,
      2 + o + s + h + c, cp] ++ (Bytes.beBytes ((c + 1) * 4) cci ++ (Bytes.beBytes (s * 4 + h * 2) tsi ++
        Bytes.beBytes (o * 4 + h * 2) toi)) := hl
  have fbl : f.bytes.length = o * 4 + h * 2 := by
    show (encode toi tsi).bytes.length = _
    rw [fb, Bytes.length_beBytes]
  have hlen : hdr.length = 4 + (c + 1) * 4 + (s * 4 + h * 2) + (o * 4 + h * 2) := by
    rw [hdr_eq]; simp only [List.length_append, List.length_cons, List.length_nil, Bytes.length_beBytes]; omega
  have hsuffix : hdr.drop (hdr.length - f.bytes.length) = f.bytes := by
    have e : hdr = ([16 + c * 4 + psi, s * 128 + o * 32 + h * 16 + Lct.b2n cs * 2 + Lct.b2n co,
        2 + o + s + h + c, cp] ++ (Bytes.beBytes ((c + 1) * 4) cci ++ Bytes.beBytes (s * 4 + h * 2) tsi)) ++ f.bytes := by
      rw [hdr_eq]
      show _ = _ ++ (encode toi tsi).bytes
      rw [fb]; simp only [List.append_assoc]
    rw [e]; exact drop_suffix _ _
  have hdec : decode f = toi := (roundtrip_of_lt toi tsi htoi)
  refine ⟨⟨_, by rw [hdr_eq]; rfl, ?_, ?_⟩, hsuffix, ?_⟩
  · show _ = (encode toi tsi).o; rw [fo]; omega
  · show _ = (encode toi tsi).h; rw [fh]; omega
  · have hp := Lct.parse_layout 1 c psi s o h 0 (Lct.b2n cs) (Lct.b2n co) (2 + o + s + h + c) cp cci tsi toi rest
      (.inl rfl) hc hpsi hs ho hh (by omega) hb2 hb1 hcv htv hov (by omega) (by omega)
    rw [show 1 * 16 + c * 4 + psi = 16 + c * 4 + psi by omega,
        show s * 128 + o * 32 + h * 16 + 0 * 4 + Lct.b2n cs * 2 + Lct.b2n co
          = s * 128 + o * 32 + h * 16 + Lct.b2n cs * 2 + Lct.b2n co by omega] at hp
    have hp' : Lct.parseLctHeader (hdr ++ rest) =
        .ok { len := (2 + o + s + h + c) * 4, cci := cci, tsi := tsi, toi := toi, cp := cp,
              closeObject := decide (Lct.b2n co ≠ 0), closeSession := decide (Lct.b2n cs ≠ 0),
              headerExtOffset := 4 + (c + 1) * 4 + (s * 4 + h * 2) + (o * 4 + h * 2) } := by
      rw [hdr_eq]; simp only [List.append_assoc] at hp ⊢; exact hp
    have hfl : 4 * f.o + 2 * f.h = f.bytes.length := by
      show 4 * (encode toi tsi).o + 2 * (encode toi tsi).h = _
      rw [fbl, fo, fh]; omega
    refine ⟨_, hp', rfl, hdec.symm, hlen.symm, ?_⟩
    show hdr.drop (4 + (c + 1) * 4 + (s * 4 + h * 2) + (o * 4 + h * 2) - (4 * f.o + 2 * f.h)) = f.bytes
    rw [hfl, ← hlen]; exact hsuffix

end Flute.ToiWire
