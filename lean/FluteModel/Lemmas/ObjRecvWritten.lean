import FluteModel.Lemmas.ObjRecvProto
/-
  Second invariant: what has been handed to the writer (`writtenOf`) versus the BlockWriter's counters and MD5 context.
-/
namespace Flute.ObjRecv
open Flute Flute.FecDec Flute.Spec
open Flute.Spec.WriterProto (PState Ev)

/-- the bytes accepted by the writer so far (data of the `write` calls that returned Ok), in order -/
def writtenOf : List WCall → Bytes
  | [] => []
  | .write _ d true :: r => writtenOf r ++ d
  | _ :: r => writtenOf r

def St.written (st : St) : Bytes := writtenOf st.out

/-- the working copy `w` of the block writer agrees with the calls recorded in `st` (before the digest is finalised) -/
structure JW (st : St) (w : BW) : Prop where
  ctx : w.md5ctx = if st.md5Check then some st.written else none
  md5 : w.md5 = none
  nc : noComplete st.out
  nbw : w.nbWritten = st.written.length

/-- same fields of the block writer that the write path never touches -/
structure SameBW (w w' : BW) : Prop where
  cenc : w'.cenc = w.cenc
  left : w'.bytesLeft = w.bytesLeft
  sbn : w'.sbn = w.sbn
  cl : w'.cl = w.cl

theorem SameBW.refl (w : BW) : SameBW w w := ⟨rfl, rfl, rfl, rfl⟩
theorem SameBW.trans {a b c : BW} (h1 : SameBW a b) (h2 : SameBW b c) : SameBW a c :=
  ⟨h2.cenc.trans h1.cenc, h2.left.trans h1.left, h2.sbn.trans h1.sbn, h2.cl.trans h1.cl⟩

theorem wWrite_spec (P : Params) (st : St) (sbn : Nat) (d : Bytes) :
    SameSt st (wWrite P st sbn d).1 ∧
    ((wWrite P st sbn d).2 = true → (wWrite P st sbn d).1.written = st.written ++ d) ∧
    (noComplete st.out → noComplete (wWrite P st sbn d).1.out) := by
  refine ⟨⟨rfl, rfl, rfl, rfl, rfl, rfl, rfl, rfl, rfl, rfl, rfl, rfl, rfl, rfl, rfl⟩, ?_, ?_⟩
  · intro h
    simp only [wWrite] at h
    simp [wWrite, St.written, writtenOf, h]
  · intro h; simpa [wWrite, noComplete] using h

/-- `decoder_read` with all writes accepted: the digest context follows the written bytes -/
theorem jw_decoderRead (P : Params) (fuel : Nat) (st : St) (w : BW) {st' : St} {w' : BW}
    (hj : JW st w) (h : decoderRead P fuel st w = .ok (st', w', true)) :
    JW st' w' ∧ SameBW w w' ∧ SameSt st st' := by
  induction fuel generalizing st w with
  | zero => simp [decoderRead] at h
  | succ n ih =>
    unfold decoderRead at h
    split at h
    · simp at h
    · dsimp only at h
      split at h
      · simp at h; obtain ⟨rfl, rfl⟩ := h
        exact ⟨⟨hj.ctx, hj.md5, hj.nc, hj.nbw⟩, ⟨rfl, rfl, rfl, rfl⟩, SameSt.refl _⟩
      · simp at h
      · rename_i out0 _
        generalize hd : List.take w.bufLen out0 = d at h
        split at h
        · simp at h; obtain ⟨rfl, rfl⟩ := h
          exact ⟨⟨hj.ctx, hj.md5, hj.nc, hj.nbw⟩, ⟨rfl, rfl, rfl, rfl⟩, SameSt.refl _⟩
        · split at h
          · have key := fun hjw => ih _ _ hjw h
            have := key ⟨hj.ctx, hj.md5, hj.nc, hj.nbw⟩
            exact ⟨this.1, ⟨this.2.1.cenc, this.2.1.left, this.2.1.sbn, this.2.1.cl⟩, this.2.2⟩
          · split at h
            · simp at h
            · rename_i hok
              have hs := wWrite_spec P st w.sbn d
              have hok' : (wWrite P st w.sbn d).2 = true := by simpa using hok
              have key := fun hjw => ih _ _ hjw h
              refine (fun this => ⟨this.1, ⟨this.2.1.cenc, this.2.1.left, this.2.1.sbn, this.2.1.cl⟩, hs.1.trans this.2.2⟩) (key ?_)
              refine ⟨?_, hj.md5, hs.2.2 hj.nc, ?_⟩
              · simp only [hs.1.md5Check, hs.2.1 hok', hj.ctx]
                split <;> simp
              · simp only [hs.2.1 hok', List.length_append, hj.nbw]

theorem jw_dwLoop (P : Params) (fuel : Nat) (st : St) (w : BW) (pkt : Bytes) (off : Nat) (stalled : Bool)
    {st' : St} {w' : BW} (hj : JW st w)
    (h : dwLoop P fuel st w pkt off stalled = .ok (st', w', true)) :
    JW st' w' ∧ SameBW w w' ∧ SameSt st st' := by
  induction fuel generalizing st w off stalled with
  | zero => simp [dwLoop] at h
  | succ n ih =>
    unfold dwLoop at h
    split at h
    · simp at h
    · dsimp only at h
      split at h
      · simp at h
      · simp at h
      · rename_i heq
        have key := fun hjw => jw_decoderRead P _ _ _ hjw heq
        have h1 := key ⟨hj.ctx, hj.md5, hj.nc, hj.nbw⟩
        have sb : SameBW w _ := ⟨h1.2.1.cenc, h1.2.1.left, h1.2.1.sbn, h1.2.1.cl⟩
        split at h
        · simp at h; obtain ⟨rfl, rfl⟩ := h
          exact ⟨h1.1, sb, h1.2.2⟩
        · split at h
          · simp at h
          · have := ih _ _ _ _ h1.1 h
            exact ⟨this.1, sb.trans this.2.1, h1.2.2.trans this.2.2⟩

theorem jw_decodeWritePkt (P : Params) (st : St) (w : BW) (pkt : Bytes) {st' : St} {w' : BW}
    (hj : JW st w) (h : decodeWritePkt P st w pkt = .ok (st', w', true)) :
    JW st' w' ∧ SameBW w w' ∧ SameSt st st' := by
  unfold decodeWritePkt at h
  split at h
  · have key := fun hjw => jw_decoderRead P _ _ _ hjw h
    have h1 := key ⟨hj.ctx, hj.md5, hj.nc, hj.nbw⟩
    exact ⟨h1.1, ⟨h1.2.1.cenc, h1.2.1.left, h1.2.1.sbn, h1.2.1.cl⟩, h1.2.2⟩
  · exact jw_dwLoop _ _ _ _ _ _ _ hj h

theorem jw_bwData (P : Params) (st : St) (w : BW) (data : Bytes) {st' : St} {w' : BW}
    (hj : JW st w) (h : bwData P st w data = .ok (st', w', true)) :
    JW st' w' ∧ SameBW w w' ∧ SameSt st st' ∧ (w.cenc = .null → st'.written = st.written ++ data) := by
  unfold bwData at h
  split at h
  · rename_i hc
    simp at h
    obtain ⟨rfl, rfl, hok⟩ := h
    have hs := wWrite_spec P st w.sbn data
    refine ⟨⟨?_, hj.md5, hs.2.2 hj.nc, ?_⟩, ⟨rfl, rfl, rfl, rfl⟩, hs.1, fun _ => hs.2.1 hok⟩
    · simp only [hs.1.md5Check, hs.2.1 hok, hj.ctx]
      split <;> simp
    · simp only [hok, if_true, hs.2.1 hok, List.length_append, hj.nbw]
  · rename_i hc
    have := jw_decodeWritePkt _ _ _ _ hj h
    exact ⟨this.1, this.2.1, this.2.2, fun hn => absurd hn hc⟩

theorem jw_bwFinish (P : Params) (st : St) (w : BW) {st' : St} {w' : BW}
    (hj : JW st w) (h : bwFinish P st w = .ok (st', w', true)) :
    JW st' w' ∧ SameBW w w' ∧ SameSt st st' := by
  unfold bwFinish at h
  split at h
  · have key := fun hjw => jw_decoderRead P _ _ _ hjw h
    have h1 := key ⟨hj.ctx, hj.md5, hj.nc, hj.nbw⟩
    exact ⟨h1.1, ⟨h1.2.1.cenc, h1.2.1.left, h1.2.1.sbn, h1.2.1.cl⟩, h1.2.2⟩
  · simp at h; obtain ⟨rfl, rfl⟩ := h
    exact ⟨hj, SameBW.refl _, SameSt.refl _⟩

theorem trimTo_length_le (n : Nat) (d : Bytes) : (trimTo n d).length ≤ n := by
  unfold trimTo; split
  · omega
  · simp [List.length_take]; omega

/-- what `BlockWriter::write` guarantees when every `write` call was accepted -/
structure BwPost (P : Params) (st : St) (w : BW) (data : Bytes) (st' : St) : Prop where
  same : SameSt st st'
  nc : noComplete st'.out
  ex : ∃ w', st'.bw = some w' ∧ w'.cenc = w.cenc ∧ w'.sbn = w.sbn + 1 ∧
        w'.bytesLeft = w.bytesLeft - (trimTo w.bytesLeft data).length ∧
        w'.cl = w.cl ∧ w'.nbWritten = st'.written.length ∧
        (w'.bytesLeft ≠ 0 → JW st' w') ∧
        (w'.bytesLeft = 0 → w'.md5 = if st'.md5Check then some (P.md5 st'.written) else none) ∧
        (w.cenc = .null → w.dz = none → st'.written = st.written ++ trimTo w.bytesLeft data ∧ w'.dz = none)

theorem sameSt_setBw (st : St) (w : BW) : SameSt st { st with bw := some w } := ⟨rfl, rfl, rfl, rfl, rfl, rfl, rfl, rfl, rfl, rfl, rfl, rfl, rfl, rfl, rfl⟩

theorem bwFinish_dz_none (P : Params) (st : St) (w : BW) (h : w.dz = none) : bwFinish P st w = .ok (st, w, true) := by
  unfold bwFinish; rw [h]

theorem bwData_null (P : Params) (st : St) (w : BW) (data : Bytes) {st' : St} {w' : BW} {b : Bool}
    (hc : w.cenc = .null) (h : bwData P st w data = .ok (st', w', b)) : w'.dz = w.dz := by
  unfold bwData at h
  rw [if_pos hc] at h
  simp at h
  rw [← h.2.1]

theorem jw_bwWrite (P : Params) (st : St) (sbn : Nat) (blk : Block) (w : BW) {st' : St} {r : Option Bool}
    (hbw : st.bw = some w) (hj : JW st w)
    (h : bwWrite P st sbn blk = .ok (st', r)) :
    (r = some false → st' = st) ∧
    (r = none → noComplete st'.out ∧ SameSt st st') ∧
    (r = some true → w.sbn = sbn ∧ ∃ data, blk.sourceBlock = some data ∧ BwPost P st w data st') := by
  have hwr := wr_bwWrite _ _ _ _ h
  refine ⟨?_, fun _ => ⟨hwr.nc hj.nc, hwr.same⟩, ?_⟩
  · intro hr
    unfold bwWrite at h
    rw [hbw] at h
    dsimp only at h
    split at h
    · simp at h; exact h.1.symm
    · split at h
      · simp at h; rw [hr] at h; simp at h
      · split at h
        · simp at h
        · simp at h; rw [hr] at h; simp at h
        · split at h
          · split at h
            · simp at h
            · simp at h; rw [hr] at h; simp at h
            · simp at h; rw [hr] at h; simp at h
          · simp at h; rw [hr] at h; simp at h
  · intro hr
    unfold bwWrite at h
    rw [hbw] at h
    dsimp only at h
    split at h
    · simp at h; rw [hr] at h; simp at h
    · rename_i hsbn
      have hsbn' : w.sbn = sbn := by simpa using hsbn
      refine ⟨hsbn', ?_⟩
      split at h
      · simp at h; rw [hr] at h; simp at h
      · rename_i data hsrc
        refine ⟨data, hsrc, ?_⟩
        split at h
        · simp at h
        · simp at h; rw [hr] at h; simp at h
        · rename_i st1 w1 heq
          have h1 := jw_bwData _ _ _ _ hj heq
          split at h
          · rename_i hz
            split at h
            · simp at h
            · simp at h; rw [hr] at h; simp at h
            · rename_i st2 w2 heq2
              have key := fun hjw => jw_bwFinish P _ _ hjw heq2
              have h2 := key ⟨h1.1.ctx, h1.1.md5, h1.1.nc, h1.1.nbw⟩
              simp at h; obtain ⟨rfl, _⟩ := h
              refine ⟨(h1.2.2.1.trans h2.2.2).trans (sameSt_setBw _ _), h2.1.nc, _, rfl, ?_, ?_, ?_, ?_, ?_, ?_, ?_, ?_⟩
              · simp [h2.2.1.cenc, h1.2.1.cenc]
              · simp [h2.2.1.sbn, h1.2.1.sbn]
              · simp [h2.2.1.left, h1.2.1.left]
              · simp [h2.2.1.cl, h1.2.1.cl]
              · exact h2.1.nbw
              · intro hne
                simp [h2.2.1.left] at hne
                exact absurd hz hne
              · intro _
                have := h2.1.ctx
                simp only [this]
                split <;> simp [St.written]
              · intro hc hdz
                have e1 : w1.dz = none := (bwData_null _ _ _ _ hc heq).trans hdz
                have := bwFinish_dz_none P st1 { w1 with bytesLeft := w1.bytesLeft - (trimTo w.bytesLeft data).length, sbn := w1.sbn + 1 } e1
                rw [this] at heq2
                simp at heq2
                obtain ⟨rfl, rfl⟩ := heq2
                exact ⟨h1.2.2.2 hc, e1⟩
          · rename_i hnz
            simp at h; obtain ⟨rfl, _⟩ := h
            refine ⟨h1.2.2.1.trans (sameSt_setBw _ _), h1.1.nc, _, rfl, ?_, ?_, ?_, ?_, ?_, ?_, ?_, ?_⟩
            · simp [h1.2.1.cenc]
            · simp [h1.2.1.sbn]
            · simp [h1.2.1.left]
            · simp [h1.2.1.cl]
            · exact h1.1.nbw
            · intro _
              exact ⟨h1.1.ctx, h1.1.md5, h1.1.nc, h1.1.nbw⟩
            · intro hz
              simp at hz
              exact absurd hz hnz
            · intro hc hdz
              exact ⟨h1.2.2.2 hc, (bwData_null _ _ _ _ hc heq).trans hdz⟩

/-! ### the invariant on whole states -/

/-- conclusion of C09 `complete_only_when_all_written` / C03 `md5_mismatch_errors` -/
structure Done (P : Params) (st : St) : Prop where
  len : st.cenc = some .null → ∃ T, st.tl = some T ∧ st.written.length = T
  md5 : ∀ m, st.md5 = some m → st.md5Check = true → P.md5 st.written = m
  /-- an announced Content-Length is exactly the number of bytes written (any cenc; not checked for an empty transfer) -/
  cl : ∀ n, st.cl = some n → st.tl ≠ some 0 → st.written.length = n

structure JOpen (st : St) : Prop where
  nc : noComplete st.out
  ex : ∃ T C, st.tl = some T ∧ st.cenc = some C ∧
        (T = 0 → st.bw = none ∧ st.written = []) ∧
        (T ≠ 0 → ∃ w, st.bw = some w ∧ w.cenc = C ∧ w.bytesLeft ≠ 0 ∧ JW st w ∧
                  (C = .null → w.dz = none ∧ st.written.length + w.bytesLeft = T) ∧ w.cl = st.cl)

structure JInv (P : Params) (st : St) : Prop where
  none_ : st.writer = none → st.written = [] ∧ noComplete st.out
  opened : st.writer = some .opened → JOpen st
  closed : st.writer = some .closed → Done P st
  error : st.writer = some .error → noComplete st.out

/-- the fields the J-invariant reads -/
structure SameJ (st st' : St) : Prop where
  writer : st'.writer = st.writer
  out : st'.out = st.out
  bw : st'.bw = st.bw
  tl : st'.tl = st.tl
  cenc : st'.cenc = st.cenc
  md5 : st'.md5 = st.md5
  md5Check : st'.md5Check = st.md5Check
  cl : st'.cl = st.cl

theorem SameJ.refl (st : St) : SameJ st st := ⟨rfl, rfl, rfl, rfl, rfl, rfl, rfl, rfl⟩
theorem SameJ.trans {a b c : St} (h1 : SameJ a b) (h2 : SameJ b c) : SameJ a c :=
  ⟨h2.writer.trans h1.writer, h2.out.trans h1.out, h2.bw.trans h1.bw, h2.tl.trans h1.tl, h2.cenc.trans h1.cenc,
   h2.md5.trans h1.md5, h2.md5Check.trans h1.md5Check, h2.cl.trans h1.cl⟩

theorem JW.sameJ {st st' : St} {w : BW} (h : JW st w) (s : SameJ st st') : JW st' w := by
  refine ⟨?_, h.md5, by rw [s.out]; exact h.nc, by rw [St.written, s.out]; exact h.nbw⟩
  rw [s.md5Check, St.written, s.out]; exact h.ctx

theorem JOpen.sameJ {st st' : St} (h : JOpen st) (s : SameJ st st') : JOpen st' := by
  obtain ⟨T, C, h1, h2, h3, h4⟩ := h.ex
  refine ⟨by rw [s.out]; exact h.nc, T, C, s.tl.trans h1, s.cenc.trans h2, ?_, ?_⟩
  · intro hT
    have := h3 hT
    exact ⟨s.bw.trans this.1, by rw [St.written, s.out]; exact this.2⟩
  · intro hT
    obtain ⟨w, a, b, c, d, e, f⟩ := h4 hT
    refine ⟨w, s.bw.trans a, b, c, d.sameJ s, ?_, by rw [s.cl]; exact f⟩
    intro hC
    have := e hC
    exact ⟨this.1, by rw [St.written, s.out]; exact this.2⟩

theorem Done.sameJ {P : Params} {st st' : St} (h : Done P st) (s : SameJ st st') : Done P st' := by
  constructor
  · rw [s.cenc, s.tl, St.written, s.out]; exact h.len
  · rw [s.md5, s.md5Check, St.written, s.out]; exact h.md5
  · rw [s.cl, s.tl, St.written, s.out]; exact h.cl

theorem JInv.sameJ {P : Params} {st st' : St} (h : JInv P st) (s : SameJ st st') : JInv P st' := by
  constructor
  · rw [s.writer, St.written, s.out]; exact h.none_
  · rw [s.writer]; exact fun hw => (h.opened hw).sameJ s
  · rw [s.writer]; exact fun hw => (h.closed hw).sameJ s
  · rw [s.writer, s.out]; exact h.error

@[simp] theorem complete_tl (st : St) : (complete st).tl = st.tl := by
  unfold complete; cases h : st.writer <;> simp [h]
@[simp] theorem complete_cenc (st : St) : (complete st).cenc = st.cenc := by
  unfold complete; cases h : st.writer <;> simp [h]
@[simp] theorem complete_md5 (st : St) : (complete st).md5 = st.md5 := by
  unfold complete; cases h : st.writer <;> simp [h]
@[simp] theorem complete_md5Check (st : St) : (complete st).md5Check = st.md5Check := by
  unfold complete; cases h : st.writer <;> simp [h]
@[simp] theorem complete_written (st : St) : (complete st).written = st.written := by
  simp only [St.written, complete_out]; split <;> simp [writtenOf]
@[simp] theorem error_written (st : St) (i : Bool) : (error st i).written = st.written := by
  simp only [St.written, error_out]; split
  · cases i <;> simp [writtenOf]
  · rfl
theorem error_nc (st : St) (i : Bool) (h : noComplete st.out) : noComplete (error st i).out := by
  simp only [error_out]; split
  · cases i <;> simpa [noComplete] using h
  · exact h

/-- `error()` on a live writer keeps the J-invariant -/
theorem jinv_error {P : Params} {st : St} (i : Bool) (h : JInv P st) (hl : Live st) : JInv P (error st i) := by
  have hnc : noComplete st.out := by
    cases hl with
    | inl hn => exact (h.none_ hn).2
    | inr ho => exact (h.opened ho).nc
  cases hl with
  | inl hn =>
    refine ⟨fun _ => ⟨by simpa using (h.none_ hn).1, error_nc _ _ hnc⟩, ?_, ?_, ?_⟩ <;> simp [hn]
  | inr ho =>
    refine ⟨?_, ?_, ?_, fun _ => error_nc _ _ hnc⟩ <;> simp [ho]

/-- `complete()` for a zero-length object or with no writer -/
theorem jinv_complete_none {P : Params} {st : St} (h : JInv P st) (hn : st.writer = none) : JInv P (complete st) := by
  have := h.none_ hn
  refine ⟨fun _ => ⟨by simpa using this.1, by simpa [hn] using this.2⟩, ?_, ?_, ?_⟩ <;> simp [hn]

theorem jinv_complete_zero {P : Params} {st : St} (h : JInv P st) (ho : st.writer = some .opened)
    (htl : st.tl = some 0) (hv : emptyMd5Valid P st = true) : JInv P (complete st) := by
  have jo := h.opened ho
  obtain ⟨T, C, h1, h2, h3, _⟩ := jo.ex
  have hT : T = 0 := by rw [h1] at htl; simpa using htl
  have hw := (h3 hT).2
  refine ⟨?_, ?_, ?_, ?_⟩ <;> simp [ho]
  constructor
  · intro _; exact ⟨0, by simpa using htl, by simp [hw]⟩
  · intro m hm hchk
    simp only [complete_md5] at hm
    simp only [complete_md5Check] at hchk
    simp only [emptyMd5Valid, hm, hchk] at hv
    have hm' : m = P.md5 [] := by simpa using hv
    rw [hm']; simp [hw]
  · intro n _ hne; simp [htl] at hne

theorem sameJ_popBlock (st : St) (off : Nat) (blk : Block) : SameJ st (popBlock st off blk) := by
  unfold popBlock; dsimp only; split <;> exact ⟨rfl, rfl, rfl, rfl, rfl, rfl, rfl, rfl⟩

/-- what is known when a function returned `Err` (the caller then calls `error()`) -/
structure JErr (st : St) : Prop where
  nc : noComplete st.out
  none_ : st.writer = none → st.written = []

theorem JInv.jerr {P : Params} {st : St} (h : JInv P st) (hl : Live st) : JErr st := by
  cases hl with
  | inl hn => exact ⟨(h.none_ hn).2, fun _ => (h.none_ hn).1⟩
  | inr ho => exact ⟨(h.opened ho).nc, fun hn => by simp [ho] at hn⟩

theorem jinv_error' {P : Params} {st : St} (i : Bool) (h : JErr st) (hl : Live st) : JInv P (error st i) := by
  cases hl with
  | inl hn =>
    refine ⟨fun _ => ⟨by simpa using h.none_ hn, error_nc _ _ h.nc⟩, ?_, ?_, ?_⟩ <;> simp [hn]
  | inr ho =>
    refine ⟨?_, ?_, ?_, fun _ => error_nc _ _ h.nc⟩ <;> simp [ho]

/-- the object is finished: all bytes written, digest finalised -/
theorem jinv_finishObject {P : Params} {st : St} (w : BW) (T : Nat) (C : Cenc)
    (ho : st.writer = some .opened) (hnc : noComplete st.out)
    (htl : st.tl = some T) (hc : st.cenc = some C)
    (hlen : C = .null → st.written.length = T)
    (hmd5 : w.md5 = if st.md5Check then some (P.md5 st.written) else none)
    (hcl : w.cl = st.cl) (hnbw : w.nbWritten = st.written.length) :
    JInv P (finishObject st w) := by
  have herr : JInv P (error st false) := jinv_error' _ ⟨hnc, fun hn => by simp [ho] at hn⟩ (Or.inr ho)
  unfold finishObject
  split
  · exact herr
  · rename_i hck
    split
    · -- complete
      rename_i hv
      refine ⟨?_, ?_, ?_, ?_⟩ <;> simp [ho]
      refine ⟨?_, ?_, ?_⟩
      · intro hC
        simp only [complete_cenc, hc] at hC
        exact ⟨T, by simpa using htl, by simpa using hlen (by simpa using hC)⟩
      · intro m hm hchk
        simp only [complete_md5] at hm
        simp only [complete_md5Check] at hchk
        simp only [md5Valid, hm, BW.checkMd5, hmd5, hchk] at hv
        simpa using hv
      · intro n hn _
        have hn' : st.cl = some n := by
          have : (complete st).cl = st.cl := by unfold complete; cases st.writer <;> simp
          rw [this] at hn; exact hn
        have hck' : w.checkCl = true := by simpa using hck
        simp only [BW.checkCl, hcl, hn'] at hck'
        simp at hck'
        rw [complete_written, ← hnbw]; exact hck'.1.symm
    · exact herr

theorem jinv_writeLoop (P : Params) (fuel : Nat) (st : St) (sbn : Nat) {st' : St} {b : Bool}
    (hi : Inv st) (ho : st.writer = some .opened) (hj : JInv P st)
    (h : writeLoop P fuel st sbn = .ok (st', b)) : (b = true → JInv P st') ∧ (b = false → JErr st') := by
  induction fuel generalizing st sbn with
  | zero => simp [writeLoop] at h
  | succ n ih =>
    have hl : Live st := Or.inr ho
    unfold writeLoop at h
    split at h
    · simp at h; obtain ⟨rfl, rfl⟩ := h; exact ⟨fun _ => hj, fun hf => by cases hf⟩
    · split at h
      · simp at h; obtain ⟨rfl, rfl⟩ := h; exact ⟨fun _ => hj, fun hf => by cases hf⟩
      · split at h
        · simp at h; obtain ⟨rfl, rfl⟩ := h; exact ⟨fun _ => hj, fun hf => by cases hf⟩
        · rename_i blk _ _
          -- the block writer exists
          have jo := hj.opened ho
          obtain ⟨T, C, h1, h2, h3, h4⟩ := jo.ex
          have hT : T ≠ 0 := by
            intro hT
            have hn := (h3 hT).1
            simp [bwWrite, hn] at h
          obtain ⟨w, hbw, b0, c, d, e, ecl⟩ := h4 hT
          have : True := trivial
          · skip
            split at h
            · simp at h
            · -- Err: the writer refused a write
              rename_i st1 heq
              simp at h; obtain ⟨rfl, rfl⟩ := h
              have hwr := wr_bwWrite _ _ _ _ heq
              have h1' := hi.wr ho hwr
              have hb := (jw_bwWrite _ _ _ _ _ hbw d heq).2.1 rfl
              exact ⟨fun hf => (by cases hf), fun _ => ⟨hb.1, fun hn => (by simp [h1'.2] at hn)⟩⟩
            · rename_i st1 heq
              simp at h; obtain ⟨rfl, rfl⟩ := h
              have := (jw_bwWrite _ _ _ _ _ hbw d heq).1 rfl
              rw [this]; exact ⟨fun _ => hj, fun hf => by cases hf⟩
            · rename_i st1 heq
              have hwr := wr_bwWrite _ _ _ _ heq
              have h1' := hi.wr ho hwr
              obtain ⟨data, hsrc, hp⟩ := ((jw_bwWrite _ _ _ _ _ hbw d heq).2.2 rfl).2
              obtain ⟨w', p1, p2, p3, p4, pcl, pnbw, p5, p6, p7⟩ := hp.ex
              split at h
              · simp at h
              · split at h
                · simp at h
                · split at h
                  · simp at h
                  · rename_i w2 hw2
                    have : w2 = w' := by rw [p1] at hw2; simpa using hw2.symm
                    subst this
                    have sj := sameJ_popBlock st1 (sbn - st.blocksOffset) blk
                    have hpb := inv_popBlock h1'.1 (by simp [p1]) (sbn - st.blocksOffset) blk
                    have hlen : C = .null → st1.written.length + w2.bytesLeft = T := by
                      intro hC
                      have e' := e hC
                      have := p7 (b0.trans hC) e'.1
                      rw [this.1, List.length_append, p4]
                      have := trimTo_length_le w.bytesLeft data
                      omega
                    split at h
                    · rename_i hz
                      simp at h; obtain ⟨rfl, rfl⟩ := h
                      refine ⟨fun _ => ?_, fun hf => by cases hf⟩
                      apply jinv_finishObject w2 T C (sj.writer.trans h1'.2) (by rw [sj.out]; exact hp.nc)
                        (sj.tl.trans (hp.same.tl.trans h1)) (sj.cenc.trans (hp.same.cenc.trans h2))
                      · intro hC; have := hlen hC; rw [St.written, sj.out]; rw [hz] at this; simpa [St.written] using this
                      · rw [sj.md5Check, St.written, sj.out]; exact p6 hz
                      · rw [sj.cl, pcl, ecl, hp.same.cl]
                      · rw [St.written, sj.out]; exact pnbw
                    · rename_i hnz
                      refine ih _ _ hpb.1 (hpb.2.trans h1'.2) ?_ h
                      have jo1 : JOpen st1 := by
                        refine ⟨hp.nc, T, C, hp.same.tl.trans h1, hp.same.cenc.trans h2, fun hT0 => absurd hT0 hT, fun _ => ?_⟩
                        refine ⟨w2, p1, p2.trans b0, hnz, p5 hnz, fun hC => ?_, by rw [pcl, ecl, hp.same.cl]⟩
                        have e' := e hC
                        exact ⟨(p7 (b0.trans hC) e'.1).2, hlen hC⟩
                      have jinv1 : JInv P st1 := by
                        refine ⟨?_, fun _ => jo1, ?_, ?_⟩ <;> simp [h1'.2]
                      exact jinv1.sameJ sj

theorem jinv_writeBlocks (P : Params) (st : St) (sbn : Nat) {st' : St} {b : Bool}
    (hi : Inv st) (hj : JInv P st) (h : writeBlocks P st sbn = .ok (st', b)) :
    (b = true → JInv P st') ∧ (b = false → JErr st') := by
  unfold writeBlocks at h
  split at h
  · simp at h; obtain ⟨rfl, rfl⟩ := h; exact ⟨fun _ => hj, fun hf => (by cases hf)⟩
  · rename_i ws hws
    split at h
    · simp at h; obtain ⟨rfl, rfl⟩ := h; exact ⟨fun _ => hj, fun hf => (by cases hf)⟩
    · rename_i hne
      have ho : st.writer = some .opened := by
        rw [hws]; cases ws <;> simp_all
      split at h
      · simp at h; obtain ⟨rfl, rfl⟩ := h; exact ⟨fun _ => hj, fun hf => (by cases hf)⟩
      · exact jinv_writeLoop _ _ _ _ hi ho hj h

/-- quiet steps (blocks, counters, object state) do not touch what the J-invariant reads -/
structure QuietJ (st st' : St) : Prop where
  q : Quiet st st'
  j : SameJ st st'

theorem QuietJ.trans {a b c : St} (h1 : QuietJ a b) (h2 : QuietJ b c) : QuietJ a c := ⟨h1.q.trans h2.q, h1.j.trans h2.j⟩

theorem quietJ_growBlocks (st : St) (off : Nat) : QuietJ st (growBlocks st off) := by
  refine ⟨quiet_growBlocks _ _, ?_⟩
  unfold growBlocks; split
  · exact ⟨rfl, rfl, rfl, rfl, rfl, rfl, rfl, rfl⟩
  · exact SameJ.refl _

theorem quietJ_setError (st : St) : QuietJ st { st with state := .error } :=
  ⟨quiet_setError _, ⟨rfl, rfl, rfl, rfl, rfl, rfl, rfl, rfl⟩⟩

theorem quietJ_allocBlock (P : Params) (st : St) (o : Oti) (tl : Nat) (pid : PayloadId) (blk : Block)
    {st' : St} {r : Option Block} (h : allocBlock P st o tl pid blk = .ok (st', r)) : QuietJ st st' := by
  refine ⟨quiet_allocBlock _ _ _ _ _ _ h, ?_⟩
  unfold allocBlock at h
  split at h
  · simp at h; rw [← h.1]; exact SameJ.refl _
  · dsimp only at h
    split at h
    · simp at h
    · split at h
      · simp at h
      · split at h
        · simp at h; rw [← h.1]; exact ⟨rfl, rfl, rfl, rfl, rfl, rfl, rfl, rfl⟩
        · split at h
          · simp at h; rw [← h.1]; exact ⟨rfl, rfl, rfl, rfl, rfl, rfl, rfl, rfl⟩
          · split at h
            · simp at h
            · simp at h; rw [← h.1]; exact ⟨rfl, rfl, rfl, rfl, rfl, rfl, rfl, rfl⟩

theorem JErr.sameJ {st st' : St} (h : JErr st) (s : SameJ st st') : JErr st' :=
  ⟨by rw [s.out]; exact h.nc, by rw [s.writer, St.written, s.out]; exact h.none_⟩

theorem jinv_pushToBlock2 (P : Params) (st : St) (p : Pkt) {st' : St} {b : Bool}
    (hi : Inv st) (hl : Live st) (hj : JInv P st) (h : pushToBlock2 P st p = .ok (st', b)) :
    (b = true → JInv P st') ∧ (b = false → JErr st') := by
  have je := hj.jerr hl
  unfold pushToBlock2 at h
  split at h
  · rename_i o tl ho htl
    split at h
    · simp at h
    · simp at h; obtain ⟨rfl, rfl⟩ := h; exact ⟨fun hf => (by cases hf), fun _ => je⟩
    · split at h
      · rename_i htl0
        split at h
        · simp at h
        · simp at h; obtain ⟨rfl, rfl⟩ := h
          refine ⟨fun _ => ?_, fun hf => (by cases hf)⟩
          cases hl with
          | inl hn => simp only [hn]; exact hj
          | inr hop =>
            simp only [hop, Option.isSome_some, if_true]
            split
            · rename_i hv; exact jinv_complete_zero hj hop (by rw [htl, htl0]) hv
            · exact jinv_error' _ (hj.jerr (Or.inr hop)) (Or.inr hop)
      · split at h
        · simp at h; obtain ⟨rfl, rfl⟩ := h; exact ⟨fun _ => hj, fun hf => (by cases hf)⟩
        · split at h
          · simp at h; obtain ⟨rfl, rfl⟩ := h; exact ⟨fun _ => hj, fun hf => (by cases hf)⟩
          · split at h
            · simp at h; obtain ⟨rfl, rfl⟩ := h
              exact ⟨fun hf => (by cases hf), fun _ => je.sameJ (quietJ_setError _).j⟩
            · split at h
              · simp at h
              · have q0 := quietJ_growBlocks st (‹PayloadId›.sbn - st.blocksOffset)
                split at h
                · simp at h; obtain ⟨rfl, rfl⟩ := h
                  exact ⟨fun _ => hj.sameJ q0.j, fun hf => (by cases hf)⟩
                · split at h
                  · simp at h
                  · rename_i heq
                    simp at h; obtain ⟨rfl, rfl⟩ := h
                    have q1 := q0.trans (quietJ_allocBlock _ _ _ _ _ _ heq)
                    exact ⟨fun hf => (by cases hf), fun _ => je.sameJ q1.j⟩
                  · rename_i heq
                    have q1 := q0.trans (quietJ_allocBlock _ _ _ _ _ _ heq)
                    split at h
                    · simp at h
                    · have q2 : QuietJ st { ‹St› with blocks := (‹St›).blocks.set (‹PayloadId›.sbn - st.blocksOffset) ‹Block› } :=
                        q1.trans ⟨⟨rfl, rfl, rfl, rfl, rfl, rfl, .inl rfl, rfl, rfl, rfl⟩, ⟨rfl, rfl, rfl, rfl, rfl, rfl, rfl, rfl⟩⟩
                      split at h
                      · exact jinv_writeBlocks _ _ _ (hi.quiet q2.q) (hj.sameJ q2.j) h
                      · simp at h; obtain ⟨rfl, rfl⟩ := h
                        exact ⟨fun _ => hj.sameJ q2.j, fun hf => (by cases hf)⟩
  · simp at h

theorem jinv_pushToBlock (P : Params) (st : St) (p : Pkt) {st' : St} {b : Bool}
    (hi : Inv st) (hl : Live st) (hj : JInv P st) (h : pushToBlock P st p = .ok (st', b)) :
    (b = true → JInv P st') ∧ (b = false → JErr st') := by
  unfold pushToBlock at h
  split at h
  · simp at h
  · rename_i heq
    simp at h; obtain ⟨rfl, rfl⟩ := h
    exact jinv_pushToBlock2 _ _ _ hi hl hj heq
  · rename_i heq
    have h1 := inv_pushToBlock2 _ _ _ hi hl heq
    have j1 := (jinv_pushToBlock2 _ _ _ hi hl hj heq).1 rfl
    split at h
    · rename_i hc
      simp at h; obtain ⟨rfl, rfl⟩ := h
      have hl1 := h1.1.live_of_receiving hc.2
      exact ⟨fun _ => jinv_error' _ (j1.jerr hl1) hl1, fun hf => (by cases hf)⟩
    · simp at h; obtain ⟨rfl, rfl⟩ := h
      exact ⟨fun _ => j1, fun hf => (by cases hf)⟩

theorem jinv_cacheLoop (P : Params) (fuel : Nat) (st : St) {st' : St}
    (hi : Inv st) (hj : JInv P st) (h : cacheLoop P fuel st = .ok st') : JInv P st' := by
  induction fuel generalizing st with
  | zero => simp [cacheLoop] at h; rw [← h]; exact hj
  | succ n ih =>
    unfold cacheLoop at h
    split at h
    · simp at h; rw [← h]; exact hj
    · rename_i pk rest hc
      have hl : Live st := hi.live_of_cache (by simp [hc])
      have hi2 : Inv { st with cache := rest } := by
        refine ⟨hi.noIdle, hi.ps, ?_, hi.bwOff, hi.fdt⟩
        intro t
        have := hi.term t
        simp [hc] at this
      have hl2 : Live { st with cache := rest } := hl
      have hj2 : JInv P { st with cache := rest } := hj.sameJ ⟨rfl, rfl, rfl, rfl, rfl, rfl, rfl, rfl⟩
      split at h
      · simp at h
      · rename_i heq
        simp at h; rw [← h]
        have i1 := inv_pushToBlock _ _ _ hi2 hl2 heq
        have j1 := (jinv_pushToBlock _ _ _ hi2 hl2 hj2 heq).2 rfl
        exact jinv_error' _ j1 (i1.2 rfl)
      · rename_i heq
        have i1 := inv_pushToBlock _ _ _ hi2 hl2 heq
        have j1 := (jinv_pushToBlock _ _ _ hi2 hl2 hj2 heq).1 rfl
        exact ih _ i1.1 j1 h

theorem jinv_pushFromCache (P : Params) (st : St) {st' : St}
    (hi : Inv st) (hj : JInv P st) (h : pushFromCache P st = .ok st') : JInv P st' := by
  unfold pushFromCache at h
  split at h
  · simp at h; rw [← h]; exact hj
  · split at h
    · simp at h
    · rename_i heq
      simp at h; rw [← h]
      exact (jinv_cacheLoop _ _ _ hi hj heq).sameJ ⟨rfl, rfl, rfl, rfl, rfl, rfl, rfl, rfl⟩

theorem sameJ_initBlocksPartitioning (st : St) {st' : St} (h : initBlocksPartitioning st = .ok st') : SameJ st st' := by
  unfold initBlocksPartitioning at h
  split at h
  · simp at h; rw [← h]; exact SameJ.refl _
  · split at h
    · split at h
      · simp at h
      · simp at h; subst h; exact ⟨rfl, rfl, rfl, rfl, rfl, rfl, rfl, rfl⟩
    · simp at h; rw [← h]; exact SameJ.refl _

theorem jinv_openWriter {P : Params} (pl : Plan) (st : St) (tl : Nat) (cenc : Cenc) {st' : St}
    (hw : st.writer = none) (hj : JInv P st) (htl : st.tl = some tl) (hc : st.cenc = some cenc)
    (h : openWriter pl st tl cenc = .ok st') : JInv P st' := by
  have h0 := hj.none_ hw
  unfold openWriter at h
  dsimp only at h
  split at h
  · simp at h
  · rename_i hbw
    have hbw0 : st.bw = none := by
      cases hb : st.bw with
      | none => rfl
      | some x => simp [hb] at hbw
    split at h
    · simp at h; subst h
      refine ⟨?_, ?_, ?_, fun _ => ?_⟩
      · simp
      · simp
      · simp
      · simp only [error_out]
        simpa [noComplete] using h0.2
    · simp at h; subst h
      refine ⟨by simp, fun _ => ?_, by simp, by simp⟩
      refine ⟨by simpa [noComplete] using h0.2, tl, cenc, htl, hc, ?_, ?_⟩
      · intro hT
        simp [hT, hbw0, St.written, writtenOf]
        exact h0.1
      · intro hT
        refine ⟨BW.new tl st.cl cenc (if st.md5.isSome = true then pl.md5Check else st.md5Check), by simp [hT],
          by simp [BW.new], by simpa [BW.new] using hT, ?_, ?_⟩
        · refine ⟨?_, by simp [BW.new], by simpa [noComplete] using h0.2, ?_⟩
          · have : writtenOf st.out = [] := h0.1
            simp only [BW.new, St.written, writtenOf, this]
          · have : writtenOf st.out = [] := h0.1
            simp [BW.new, St.written, writtenOf, this]
        · refine ⟨?_, by simp [BW.new]⟩
          intro _
          have : writtenOf st.out = [] := h0.1
          simp [BW.new, St.written, writtenOf, this]

theorem jinv_initObjectWriter (P : Params) (st : St) {st' : St}
    (hj : JInv P st) (h : initObjectWriter P st = .ok st') : JInv P st' := by
  unfold initObjectWriter at h
  split at h
  · simp at h; rw [← h]; exact hj
  · rename_i hws
    have hw : st.writer = none := by
      cases hx : st.writer <;> simp_all
    have h0 := hj.none_ hw
    split at h
    · rename_i fid cenc tl o hfid hcenc htl ho
      dsimp only at h
      have hj2 : JInv P ({ st with wIdx := st.nBuilder, nBuilder := st.nBuilder + 1, out := WCall.new st.meta (P.env.plan st.nBuilder).ans :: st.out } : St) := by
        refine ⟨fun _ => ⟨?_, ?_⟩, ?_, ?_, ?_⟩ <;> simp [hw]
        · simpa [St.written, writtenOf] using h0.1
        · simpa [noComplete] using h0.2
      split at h
      · simp at h; subst h
        exact hj2.sameJ ⟨rfl, rfl, rfl, rfl, rfl, rfl, rfl, rfl⟩
      · simp at h; subst h
        exact hj2.sameJ ⟨rfl, rfl, rfl, rfl, rfl, rfl, rfl, rfl⟩
      · exact jinv_openWriter _ _ _ _ (by exact hw) hj2 (by exact htl) (by exact hcenc) h
    · simp at h; rw [← h]; exact hj

theorem jinv_setFromPkt {P : Params} (st : St) (p : Pkt) (hl : Live st) (hj : JInv P st) :
    JInv P (setOtiFromPkt (setCencFromPkt st p) p) := by
  have q := (quiet_setCencFromPkt st p).trans (quiet_setOtiFromPkt _ p)
  cases hl with
  | inl hn =>
    have h0 := hj.none_ hn
    refine ⟨fun _ => ?_, ?_, ?_, ?_⟩
    · rw [St.written, q.out]; exact h0
    all_goals (rw [q.writer, hn]; intro hx; cases hx)
  | inr ho =>
    obtain ⟨T, C, h1, h2, _, _⟩ := (hj.opened ho).ex
    apply hj.sameJ
    refine ⟨q.writer, q.out, q.bw, ?_, ?_, ?_, ?_, ?_⟩
    all_goals
      unfold setOtiFromPkt setCencFromPkt
      simp [h1, h2]
      repeat' split
      all_goals simp_all

theorem jinv_cachePkt {P : Params} (st : St) (p : Pkt) (hj : JInv P st) : JInv P (cachePkt st p).1 := by
  unfold cachePkt
  split
  · exact hj
  · split
    · exact hj
    · exact hj.sameJ ⟨rfl, rfl, rfl, rfl, rfl, rfl, rfl, rfl⟩

theorem jinv_push (P : Params) (st : St) (p : Pkt) {st' : St}
    (hi : Inv st) (hj : JInv P st) (h : push P st p = .ok st') : JInv P st' := by
  unfold push at h
  split at h
  · simp at h; rw [← h]; exact hj
  · rename_i hrec
    have hl0 : Live st := hi.live_of_receiving (by simpa using hrec)
    split at h
    · simp at h
    · rename_i st1 h1
      have q01 := (quiet_setCencFromPkt st p).trans (quiet_setOtiFromPkt _ p)
      have i1 := (inv_initBlocksPartitioning _ (hi.quiet q01) h1).1
      have j1 : JInv P st1 := (jinv_setFromPkt st p hl0 hj).sameJ (sameJ_initBlocksPartitioning _ h1)
      split at h
      · simp at h
      · rename_i st2 h2
        have i2 := inv_initObjectWriter _ _ i1 h2
        have j2 := jinv_initObjectWriter _ _ j1 h2
        split at h
        · simp at h
        · rename_i st3 h3
          have i3 := inv_pushFromCache _ _ i2 h3
          have j3 := jinv_pushFromCache _ _ i2 j2 h3
          split at h
          · simp at h; rw [← h]; exact j3
          · rename_i hr
            have hl : Live st3 := i3.live_of_receiving (by simpa using hr)
            split at h
            · have hc := inv_cachePkt st3 p i3 hl
              have jc := jinv_cachePkt (P := P) st3 p j3
              split at h
              · rename_i heq
                simp at h; rw [← h]
                rw [heq] at jc; exact jc
              · rename_i heq
                simp at h; rw [← h]
                rw [heq] at jc hc
                exact jinv_error' _ (jc.jerr hc.2) hc.2
            · split at h
              · simp at h
              · rename_i heq
                simp at h; rw [← h]
                exact (jinv_pushToBlock _ _ _ i3 hl j3 heq).1 rfl
              · rename_i heq
                simp at h; rw [← h]
                have := inv_pushToBlock _ _ _ i3 hl heq
                exact jinv_error' _ ((jinv_pushToBlock _ _ _ i3 hl j3 heq).2 rfl) (this.2 rfl)

theorem jinv_attachMeta {P : Params} (st : St) (fdtId : Nat) (f : FileEntry) {st' : St}
    (hw : st.writer = none) (hj : JInv P st) (h : attachMeta st fdtId f = .ok st') :
    JInv P st' ∧ st'.writer = none := by
  unfold attachMeta at h
  dsimp only at h
  split at h
  · simp at h
  · simp at h; subst h
    have h0 := hj.none_ hw
    refine ⟨⟨fun _ => h0, ?_, ?_, ?_⟩, hw⟩ <;> simp [hw]

theorem jinv_attachFdtOld (P : Params) (st : St) (fdtId : Nat) (file : Option FileEntry) {st' : St} {b : Bool}
    (hi : Inv st) (hj : JInv P st) (h : attachFdtOld P st fdtId file = .ok (st', b)) : JInv P st' := by
  unfold attachFdtOld attachCore at h
  split at h
  · simp at h; rw [← h.1]; exact hj
  · rename_i hf
    have hw : st.writer = none := by
      cases hx : st.writer with
      | none => rfl
      | some ws =>
        have := hi.fdt (by simp [hx])
        cases hy : st.fdtId <;> simp_all
    split at h
    · simp at h; rw [← h.1]; exact hj
    · split at h
      · simp at h
      · rename_i st1 h1
        have i1 := inv_attachMeta _ _ _ hi h1
        have j1 := (jinv_attachMeta _ _ _ hw hj h1).1
        split at h
        · simp at h
        · rename_i st2 h2
          have i2 := (inv_initBlocksPartitioning _ i1 h2).1
          have j2 : JInv P st2 := j1.sameJ (sameJ_initBlocksPartitioning _ h2)
          split at h
          · simp at h
          · rename_i st3 h3
            have i3 := inv_initObjectWriter _ _ i2 h3
            have j3 := jinv_initObjectWriter _ _ j2 h3
            split at h
            · simp at h
            · rename_i st4 h4
              have i4 := inv_pushFromCache _ _ i3 h4
              have j4 := jinv_pushFromCache _ _ i3 j3 h4
              split at h
              · simp at h
              · rename_i st5 ok h5
                have i5 := inv_writeBlocks _ _ _ i4 h5
                have j5 := jinv_writeBlocks _ _ _ i4 j4 h5
                have i6 : Inv (if ok = true then st5 else error st5 false) := by
                  cases ok
                  · simpa using inv_error false i5.1 (Or.inr (i5.2.1 rfl))
                  · simpa using i5.1
                have j6 : JInv P (if ok = true then st5 else error st5 false) := by
                  cases ok
                  · simpa using jinv_error' (P := P) false (j5.2 rfl) (Or.inr (i5.2.1 rfl))
                  · simpa using j5.1 rfl
                split at h
                · simp at h
                · rename_i st6 h6
                  simp at h; rw [← h.1]
                  exact jinv_pushFromCache _ _ i6 j6 h6


theorem jinv_reset {P : Params} {st : St} (hj : JInv P st) (hw : st.writer = none) : JInv P (resetOti st) := by
  have h0 := hj.none_ hw
  refine ⟨fun _ => h0, ?_, ?_, ?_⟩ <;> (intro hx; simp [resetOti, hw] at hx)

theorem jinv_attachFdt (P : Params) (st : St) (fdtId : Nat) (file : Option FileEntry) {st' : St} {b : Bool}
    (hi : Inv st) (hj : JInv P st) (h : attachFdt P st fdtId file = .ok (st', b)) : JInv P st' := by
  rcases attachFdt_cases h with h0 | ⟨f, rfl, hw, _, h1⟩
  · exact jinv_attachFdtOld P st fdtId file hi hj h0
  · exact jinv_attachFdtOld P (resetOti st) fdtId _ (inv_reset hi) (jinv_reset hj hw) h1

theorem jinv_new (P : Params) (toi m : Nat) : JInv P (St.new toi m) := by
  refine ⟨fun _ => ⟨rfl, trivial⟩, ?_, ?_, ?_⟩ <;> simp [St.new]

theorem jinv_run (P : Params) (st : St) (ops : List Op) {st' : St}
    (hi : Inv st) (hj : JInv P st) (h : run P st ops = .ok st') : JInv P st' := by
  induction ops generalizing st with
  | nil => simp [run] at h; rw [← h]; exact hj
  | cons op r ih =>
    simp only [run] at h
    split at h
    · simp at h
    · rename_i st1 heq
      refine ih _ (inv_step _ _ _ hi heq) ?_ h
      cases op with
      | push p => exact jinv_push _ _ _ hi hj heq
      | attach id f =>
        simp only [step] at heq
        split at heq
        · simp at heq
        · rename_i heq2
          simp at heq; rw [← heq]
          exact jinv_attachFdt _ _ _ _ hi hj heq2

/-- Drop calls `error()` on a live writer only -/
theorem jinv_drop {P : Params} (st : St) (hi : Inv st) (hj : JInv P st) : JInv P (drop st) := by
  unfold drop
  split
  · rename_i hw
    exact jinv_error' _ (hj.jerr (Or.inr hw)) (Or.inr hw)
  · rename_i hw
    exact absurd hw hi.noIdle
  · exact hj

end Flute.ObjRecv
