import FluteModel.Session
/-
  Helper lemmas for the session-level theorems (C01 / C02 / C16): the per-object receiver keeps
  every symbol it was given (coverage invariant), `write_blocks` stops only at an undecodable
  block (maximality), counters are monotone.
-/
namespace Flute.Lemmas.Session
open Flute.Session

/-! ### stored symbols -/

theorem mem_esisOf {got : List (Nat × Nat)} {b e : Nat} : e ∈ esisOf got b ↔ (b, e) ∈ got := by
  unfold esisOf
  simp only [List.mem_map, List.mem_filter, beq_iff_eq]
  constructor
  · rintro ⟨x, ⟨hx, hb⟩, he⟩
    have : x = (b, e) := by cases x; simp_all
    simpa [this] using hx
  · intro h
    exact ⟨(b, e), ⟨h, rfl⟩, rfl⟩

theorem esisOf_filter_ge (got : List (Nat × Nat)) (w b : Nat) (h : w ≤ b) :
    esisOf (got.filter (fun x => decide (w ≤ x.1))) b = esisOf got b := by
  unfold esisOf
  rw [List.filter_filter]
  congr 1
  apply List.filter_congr
  intro x _
  by_cases hx : x.1 = b
  · simp [hx, h]
  · simp [hx]

variable (c : Codec)

theorem blockDone_mono (ks : Array Nat) (p : Nat) (got got' : List (Nat × Nat)) (b : Nat)
    (hsub : ∀ q, q ∈ got → q ∈ got') (h : blockDone c.canDecode ks p got b = true) :
    blockDone c.canDecode ks p got' b = true := by
  unfold blockDone at *
  cases hk : ks[b]? with
  | none => simp [hk] at h
  | some k =>
    simp only [hk] at h ⊢
    apply c.mono k p _ _ _ h
    intro x hx
    rw [mem_esisOf] at hx ⊢
    exact hsub _ hx

theorem blockDone_filter_ge (ks : Array Nat) (p : Nat) (got : List (Nat × Nat)) (w b : Nat) (h : w ≤ b) :
    blockDone c.canDecode ks p (got.filter (fun x => decide (w ≤ x.1))) b = blockDone c.canDecode ks p got b := by
  unfold blockDone
  rw [esisOf_filter_ge got w b h]

theorem blockDone_lt (dec : (k p : Nat) → List Nat → Bool) (ks : Array Nat) (p : Nat) (got : List (Nat × Nat)) (b : Nat)
    (h : blockDone dec ks p got b = true) : b < ks.size := by
  unfold blockDone at h
  cases hk : ks[b]? with
  | none => simp [hk] at h
  | some k =>
    have := Array.getElem?_eq_some_iff.mp hk
    exact this.1

/-! ### `advance` (write_blocks) -/

theorem advance_ge (dec : (k p : Nat) → List Nat → Bool) (ks : Array Nat) (p : Nat) (got : List (Nat × Nat)) :
    ∀ fuel w, w ≤ advance dec ks p got fuel w := by
  intro fuel
  induction fuel with
  | zero => intro w; simp [advance]
  | succ n ih =>
    intro w
    unfold advance
    split
    · exact Nat.le_trans (Nat.le_succ w) (ih (w + 1))
    · exact Nat.le_refl w

theorem advance_le (dec : (k p : Nat) → List Nat → Bool) (ks : Array Nat) (p : Nat) (got : List (Nat × Nat)) :
    ∀ fuel w, w ≤ ks.size → advance dec ks p got fuel w ≤ ks.size := by
  intro fuel
  induction fuel with
  | zero => intro w h; simpa [advance] using h
  | succ n ih =>
    intro w h
    unfold advance
    split
    · rename_i hc
      simp only [Bool.and_eq_true, decide_eq_true_eq] at hc
      exact ih (w + 1) hc.1
    · exact h

/-- with enough fuel `advance` stops at a block that is not decodable (or at the end) -/
theorem advance_stop (dec : (k p : Nat) → List Nat → Bool) (ks : Array Nat) (p : Nat) (got : List (Nat × Nat)) :
    ∀ fuel w, ks.size < w + fuel → advance dec ks p got fuel w < ks.size →
      blockDone dec ks p got (advance dec ks p got fuel w) = false := by
  intro fuel
  induction fuel with
  | zero =>
    intro w h1 h2
    simp [advance] at h2
    omega
  | succ n ih =>
    intro w h1 h2
    unfold advance at h2 ⊢
    split
    · rename_i hc
      simp only [hc, if_true] at h2
      exact ih (w + 1) (by omega) h2
    · rename_i hc
      simp only [hc] at h2
      simp only [Bool.and_eq_true, decide_eq_true_eq, not_and, Bool.not_eq_true] at hc
      have : w < ks.size := by simpa using h2
      exact hc this

/-- every block `advance` passes over is decodable -/
theorem advance_passed (dec : (k p : Nat) → List Nat → Bool) (ks : Array Nat) (p : Nat) (got : List (Nat × Nat)) :
    ∀ fuel w b, w ≤ b → b < advance dec ks p got fuel w → blockDone dec ks p got b = true := by
  intro fuel
  induction fuel with
  | zero => intro w b h1 h2; simp [advance] at h2; omega
  | succ n ih =>
    intro w b h1 h2
    unfold advance at h2
    split at h2
    · rename_i hc
      simp only [Bool.and_eq_true, decide_eq_true_eq] at hc
      by_cases hb : b = w
      · subst hb; exact hc.2
      · exact ih (w + 1) b (by omega) h2
    · omega

/-! ### the per-object invariants -/

/-- coverage: every processed symbol of a block not yet written is stored, unless its block is
    already decodable -/
def Cov (o : ObjCfg) (rx : ORx) (P : List Sym) : Prop :=
  ∀ s, s ∈ P → rx.written ≤ s.sbn →
    (s.sbn, s.esi) ∈ rx.got ∨ blockDone c.canDecode o.ks o.p rx.got s.sbn = true

/-- an attached object that is still being received: the next block to write is not decodable -/
def AttInv (o : ObjCfg) (rx : ORx) : Prop :=
  rx.attached = true → rx.written < o.ks.size ∧ blockDone c.canDecode o.ks o.p rx.got rx.written = false

/-- the symbol belongs to the object: SBN below the number of blocks, ESI in the block's table -/
def Genuine (o : ObjCfg) (s : Sym) : Prop :=
  ∃ k, o.ks[s.sbn]? = some k ∧ s.esi < shardsOf o.scheme k o.p

/-- the receiver's resource limits do not bind for this object (C17 demands the limits; they are
    hypotheses of C01 / C02 / C16): look-ahead `2 * MAX_PREALLOCATED_BLOCKS` and
    `object_max_cache_size` for any set of its blocks -/
def Fits (rc : RxCfg) (o : ObjCfg) : Prop :=
  o.ks.size ≤ rc.maxLook ∧
  (∀ (got : List (Nat × Nat)) (sbn : Nat), got.any (fun x => x.1 == sbn) = false →
    allocBytes o.blen got + o.blen.getD sbn 0 ≤ rc.maxSize) ∧
  rc.pktCap = none

theorem sumOver_empty (l : List Nat) : sumOver #[] l = 0 := by
  induction l with
  | nil => rfl
  | cons x xs ih => simp [sumOver, ih]

/-- an object whose blocks the receiver accounts as 0 bytes (or: no per-block accounting) fits any cache -/
theorem fits_of_noacct (rc : RxCfg) (o : ObjCfg) (h1 : o.ks.size ≤ rc.maxLook) (h2 : o.blen = #[])
    (h3 : rc.pktCap = none := by rfl) : Fits rc o := by
  refine ⟨h1, ?_, h3⟩
  intro got sbn _
  unfold allocBytes
  rw [h2, sumOver_empty]
  simp

theorem settle_flags (o : ObjCfg) (rx : ORx) :
    (settle c.canDecode o rx).rx.attached = rx.attached ∧
    (settle c.canDecode o rx).rx.otiKnown = rx.otiKnown ∧
    (settle c.canDecode o rx).rx.cache = rx.cache := by
  unfold settle; split <;> simp

theorem settle_cov (o : ObjCfg) (rx : ORx) (P : List Sym) (h : Cov c o rx P) :
    Cov c o (settle c.canDecode o rx).rx P := by
  unfold settle
  split
  · intro s hs hw
    simp only at hw ⊢
    have hge := advance_ge c.canDecode o.ks o.p rx.got (o.ks.size + 1) rx.written
    rcases h s hs (Nat.le_trans hge hw) with h1 | h1
    · left
      simp only [List.mem_filter, decide_eq_true_eq]
      exact ⟨h1, hw⟩
    · right
      rw [blockDone_filter_ge c o.ks o.p rx.got _ s.sbn hw]
      exact h1
  · exact h

theorem settle_term (o : ObjCfg) (rx : ORx) :
    ((settle c.canDecode o rx).term = .receiving ∨ (settle c.canDecode o rx).term = .completed) ∧
    ((settle c.canDecode o rx).term = .completed → rx.attached = true) ∧
    ((settle c.canDecode o rx).term = .receiving → AttInv c o (settle c.canDecode o rx).rx) := by
  unfold settle
  split
  · rename_i hatt
    refine ⟨?_, fun _ => hatt, ?_⟩
    · simp only; split <;> simp
    · intro hrec _
      simp only at hrec ⊢
      have hlt : advance c.canDecode o.ks o.p rx.got (o.ks.size + 1) rx.written < o.ks.size := by
        by_cases hh : advance c.canDecode o.ks o.p rx.got (o.ks.size + 1) rx.written ≥ o.ks.size
        · simp [hh] at hrec
        · omega
      refine ⟨hlt, ?_⟩
      rw [blockDone_filter_ge c o.ks o.p rx.got _ _ (Nat.le_refl _)]
      exact advance_stop c.canDecode o.ks o.p rx.got (o.ks.size + 1) rx.written (by omega) hlt
  · rename_i hatt
    refine ⟨Or.inl rfl, ?_, ?_⟩
    · intro h; simp at h
    · intro _ ha; simp_all

/-- one symbol, no limit binding: the object stays in reception or completes; nothing is lost -/
theorem pushCore_spec (rc : RxCfg) (o : ObjCfg) (rx : ORx) (s : Sym) (P : List Sym)
    (hN : o.ks.isEmpty = false) (hgen : Genuine o s) (hfit : Fits rc o)
    (hcov : Cov c o rx P) :
    ∀ r, r = pushCore c.canDecode rc o rx s →
    (r.term = .receiving ∨ r.term = .completed) ∧
    (r.rx.attached = rx.attached ∧ r.rx.otiKnown = rx.otiKnown ∧ r.rx.cache = rx.cache) ∧
    (r.term = .completed → rx.attached = true) ∧
    (r.term = .receiving → Cov c o r.rx (s :: P) ∧ (AttInv c o rx → AttInv c o r.rx)) := by
  obtain ⟨k, hk, hesi⟩ := hgen
  have hsbn : s.sbn < o.ks.size := (Array.getElem?_eq_some_iff.mp hk).1
  intro r r0
  unfold pushCore at r0
  simp only [hN] at r0
  by_cases h1 : s.sbn < rx.written
  · have hr : r = { rx := rx, term := .receiving } := by simp [r0, h1]
    rw [hr]
    refine ⟨Or.inl rfl, ⟨rfl, rfl, rfl⟩, by simp, fun _ => ⟨?_, fun h => h⟩⟩
    intro q hq hw
    dsimp only at hw ⊢
    rcases List.mem_cons.mp hq with rfl | hq
    · omega
    · exact hcov q hq hw
  · have h2 : ¬ (s.sbn - rx.written > rc.maxLook) := by have := hfit.1; omega
    by_cases h3 : blockDone c.canDecode o.ks o.p rx.got s.sbn = true
    · have hr : r = { rx := rx, term := .receiving } := by simp [r0, h1, h2, h3]
      rw [hr]
      refine ⟨Or.inl rfl, ⟨rfl, rfl, rfl⟩, by simp, fun _ => ⟨?_, fun h => h⟩⟩
      intro q hq hw
      dsimp only at hw ⊢
      rcases List.mem_cons.mp hq with rfl | hq
      · exact Or.inr h3
      · exact hcov q hq hw
    · have hr : r = settle c.canDecode o
          { rx with got := if !(rx.got.contains (s.sbn, s.esi)) then (s.sbn, s.esi) :: rx.got else rx.got } := by
        by_cases hfr : rx.got.any (fun x => x.1 == s.sbn) = true
        · simp [r0, h1, h2, h3, hk, hesi, hfr]
        · have hfr' : rx.got.any (fun x => x.1 == s.sbn) = false := by
            cases hx : rx.got.any (fun x => x.1 == s.sbn) with
            | false => rfl
            | true => exact absurd hx hfr
          have hal := hfit.2.1 rx.got s.sbn hfr'
          have hcond : (decide ((distinctSbns rx.got).length ≥ 2) &&
              decide (allocBytes o.blen rx.got + o.blen.getD s.sbn 0 > rc.maxSize)) = false := by
            have : decide (allocBytes o.blen rx.got + o.blen.getD s.sbn 0 > rc.maxSize) = false := by
              simp only [decide_eq_false_iff_not]; omega
            rw [this]; simp
          simp only [r0, h1, h2, h3, hfr', Bool.not_false, Bool.true_and, hcond, Bool.false_eq_true, ↓reduceIte, hk, hesi,
            decide_true, Bool.true_or]
      rw [hr]
      -- the state before `settle` covers s :: P
      have hcov' : Cov c o { rx with got := if !(rx.got.contains (s.sbn, s.esi)) then (s.sbn, s.esi) :: rx.got else rx.got } (s :: P) := by
        have hsub : ∀ q, q ∈ rx.got → q ∈ (if !(rx.got.contains (s.sbn, s.esi)) then (s.sbn, s.esi) :: rx.got else rx.got) := by
          intro q hq; split <;> simp [hq]
        intro q hq hw
        simp only at hw ⊢
        rcases List.mem_cons.mp hq with rfl | hq
        · left
          by_cases hc : (q.sbn, q.esi) ∈ rx.got <;> simp [hc]
        · rcases hcov q hq hw with h | h
          · exact Or.inl (hsub _ h)
          · exact Or.inr (blockDone_mono c o.ks o.p rx.got _ q.sbn hsub h)
      have hfl := settle_flags c o { rx with got := if !(rx.got.contains (s.sbn, s.esi)) then (s.sbn, s.esi) :: rx.got else rx.got }
      have htm := settle_term c o { rx with got := if !(rx.got.contains (s.sbn, s.esi)) then (s.sbn, s.esi) :: rx.got else rx.got }
      refine ⟨htm.1, hfl, htm.2.1, fun hrec => ⟨settle_cov c o _ _ hcov', fun _ => htm.2.2 hrec⟩⟩

/-- ESIs of block `b` among the processed symbols -/
def symsOf (P : List Sym) (b : Nat) : List Nat := (P.filter (fun s => s.sbn == b)).map (·.esi)

theorem mem_symsOf {P : List Sym} {b e : Nat} : e ∈ symsOf P b ↔ ∃ s, s ∈ P ∧ s.sbn = b ∧ s.esi = e := by
  unfold symsOf
  simp only [List.mem_map, List.mem_filter, beq_iff_eq]
  constructor
  · rintro ⟨s, ⟨h1, h2⟩, h3⟩; exact ⟨s, h1, h2, h3⟩
  · rintro ⟨s, h1, h2, h3⟩; exact ⟨s, ⟨h1, h2⟩, h3⟩

/-- every block of the object is decodable from the symbols `P` (the hypothesis of C02 on the
    received symbols) -/
def AllDec (o : ObjCfg) (P : List Sym) : Prop :=
  ∀ b, b < o.ks.size → ∃ k, o.ks[b]? = some k ∧ c.canDecode k o.p (symsOf P b) = true

theorem allDec_mono (o : ObjCfg) (P Q : List Sym) (h : ∀ s, s ∈ P → s ∈ Q) (hd : AllDec c o P) : AllDec c o Q := by
  intro b hb
  obtain ⟨k, hk, hdk⟩ := hd b hb
  refine ⟨k, hk, c.mono k o.p _ _ ?_ hdk⟩
  intro x hx
  rw [mem_symsOf] at hx ⊢
  obtain ⟨s, h1, h2, h3⟩ := hx
  exact ⟨s, h s h1, h2, h3⟩

/-- an attached object in reception that holds decodable symbols of every block does not exist:
    `write_blocks` would have completed it -/
theorem not_stuck (o : ObjCfg) (rx : ORx) (P : List Sym)
    (hcov : Cov c o rx P) (hatt : rx.attached = true) (hinv : AttInv c o rx) (hdec : AllDec c o P) : False := by
  obtain ⟨hlt, hnd⟩ := hinv hatt
  obtain ⟨k, hk, hd⟩ := hdec rx.written hlt
  have hnd' : c.canDecode k o.p (esisOf rx.got rx.written) = false := by
    unfold blockDone at hnd; simpa [hk] using hnd
  have : c.canDecode k o.p (esisOf rx.got rx.written) = true := by
    apply c.mono k o.p _ _ _ hd
    intro x hx
    rw [mem_symsOf] at hx
    obtain ⟨s, h1, h2, h3⟩ := hx
    rw [mem_esisOf]
    rcases hcov s h1 (by omega) with h | h
    · rw [← h2, ← h3]; exact h
    · rw [h2, hnd] at h; exact absurd h (by simp)
  rw [this] at hnd'
  exact absurd hnd' (by simp)

theorem pushSym_noclose (rc : RxCfg) (o : ObjCfg) (rx : ORx) (s : Sym) (h : s.close = false) :
    pushSym c.canDecode rc o rx s = pushCore c.canDecode rc o rx s := by
  unfold pushSym; simp [h]

/-- the close-object packet of an attached object whose blocks are all decodable with it: the
    object completes (it is not interrupted) -/
theorem pushSym_close (rc : RxCfg) (o : ObjCfg) (rx : ORx) (s : Sym) (P : List Sym)
    (hN : o.ks.isEmpty = false) (hgen : Genuine o s) (hfit : Fits rc o)
    (hcov : Cov c o rx P) (hinv : AttInv c o rx) (hatt : rx.attached = true) (hdec : AllDec c o (s :: P)) :
    (pushSym c.canDecode rc o rx s).term = .completed ∧ (pushSym c.canDecode rc o rx s).rx.attached = true := by
  have hs := pushCore_spec c rc o rx s P hN hgen hfit hcov _ rfl
  obtain ⟨h1, h2, _, h4⟩ := hs
  rcases h1 with h1 | h1
  · exfalso
    obtain ⟨hc, ha⟩ := h4 h1
    exact not_stuck c o _ _ hc (by rw [h2.1]; exact hatt) (ha hinv) hdec
  · unfold pushSym
    simp [h1, h2.1, hatt]

/-- `push_from_cache`: replaying cached (genuine, non-closing) symbols -/
theorem replay_spec (rc : RxCfg) (o : ObjCfg) (hN : o.ks.isEmpty = false) (hfit : Fits rc o) :
    ∀ (l : List Sym) (rx : ORx) (P : List Sym),
      (∀ s, s ∈ l → Genuine o s ∧ s.close = false) → Cov c o rx P →
      ∀ r, r = replay c.canDecode rc o l rx →
        (r.term = .receiving ∨ r.term = .completed) ∧
        (r.rx.attached = rx.attached ∧ r.rx.otiKnown = rx.otiKnown) ∧
        (r.term = .completed → rx.attached = true) ∧
        (r.term = .receiving → Cov c o r.rx (l ++ P) ∧ r.rx.cache = []) := by
  intro l
  induction l with
  | nil =>
    intro rx P _ hcov r hr
    subst hr
    simp only [replay, List.nil_append]
    refine ⟨by simp, by simp, by simp, fun _ => ⟨hcov, by simp⟩⟩
  | cons s rest ih =>
    intro rx P hl hcov r hr
    have hs := hl s (List.mem_cons_self ..)
    have hstep := pushCore_spec c rc o { rx with cache := rest } s P hN hs.1 hfit hcov _ rfl
    rw [← pushSym_noclose c rc o _ s hs.2] at hstep
    obtain ⟨h1, h2, h3, h4⟩ := hstep
    unfold replay at hr
    rcases h1 with h1 | h1
    · simp only [h1, beq_self_eq_true, if_true] at hr
      obtain ⟨hc, _⟩ := h4 h1
      have := ih _ (s :: P) (fun q hq => hl q (List.mem_cons_of_mem _ hq)) hc r hr
      obtain ⟨g1, g2, g3, g4⟩ := this
      refine ⟨g1, ⟨by rw [g2.1, h2.1], by rw [g2.2, h2.2.1]⟩, fun hh => by have := g3 hh; rw [h2.1] at this; exact this, ?_⟩
      intro hrec
      obtain ⟨k1, k2⟩ := g4 hrec
      refine ⟨?_, k2⟩
      intro q hq hw
      apply k1 q _ hw
      simp only [List.mem_append, List.mem_cons] at hq ⊢
      rcases hq with (rfl | hq) | hq
      · exact Or.inr (Or.inl rfl)
      · exact Or.inl hq
      · exact Or.inr (Or.inr hq)
    · have hne : ((pushSym c.canDecode rc o { rx with cache := rest } s).term == Term.receiving) = false := by
        rw [h1]; rfl
      simp only [hne, Bool.false_eq_true, ↓reduceIte] at hr
      subst hr
      refine ⟨Or.inr h1, ⟨h2.1, h2.2.1⟩, h3, fun hh => by rw [h1] at hh; exact absurd hh (by simp)⟩

/-- `attach_fdt` on an object holding genuine, non-closing cached symbols -/
theorem attach_spec (rc : RxCfg) (o : ObjCfg) (hN : o.ks.isEmpty = false) (hfit : Fits rc o)
    (rx : ORx) (Pb : List Sym)
    (hcache : ∀ s, s ∈ rx.cache → Genuine o s ∧ s.close = false) (hcov : Cov c o rx Pb) :
    ∀ r, r = attach c.canDecode rc o rx →
      (r.term = .receiving ∨ r.term = .completed) ∧ r.rx.attached = true ∧ r.rx.otiKnown = true ∧
      (r.term = .receiving → Cov c o r.rx (rx.cache ++ Pb) ∧ AttInv c o r.rx ∧ r.rx.cache = []) := by
  intro r hr
  unfold attach at hr
  simp only [hN, Bool.false_eq_true, ↓reduceIte, attach.settle'] at hr
  have hrep := replay_spec c rc o hN hfit rx.cache { rx with attached := true, otiKnown := true } Pb hcache hcov _ rfl
  obtain ⟨h1, h2, _, h4⟩ := hrep
  rcases h1 with h1 | h1
  · simp only [h1, beq_self_eq_true, ↓reduceIte] at hr
    obtain ⟨hc, hce⟩ := h4 h1
    have hfl := settle_flags c o (replay c.canDecode rc o rx.cache { rx with attached := true, otiKnown := true }).rx
    have htm := settle_term c o (replay c.canDecode rc o rx.cache { rx with attached := true, otiKnown := true }).rx
    subst hr
    refine ⟨htm.1, by rw [hfl.1, h2.1], by rw [hfl.2.1, h2.2], fun hrec => ⟨settle_cov c o _ _ hc, htm.2.2 hrec, by rw [hfl.2.2, hce]⟩⟩
  · have hne : ((replay c.canDecode rc o rx.cache { rx with attached := true, otiKnown := true }).term == Term.receiving) = false := by
      rw [h1]; rfl
    simp only [hne, Bool.false_eq_true, ↓reduceIte] at hr
    subst hr
    exact ⟨Or.inr h1, h2.1, h2.2, fun hh => by rw [h1] at hh; exact absurd hh (by simp)⟩

/-! ### the per-object slice of the receiver -/

/-- invariant of a live object: `P` = the symbols pushed to it so far -/
def ObjInv (o : ObjCfg) (rx : ORx) (P : List Sym) : Prop :=
  ∃ Pb, Cov c o rx Pb ∧ (∀ s, s ∈ P → s ∈ rx.cache ∨ s ∈ Pb) ∧
        (∀ s, s ∈ rx.cache → Genuine o s ∧ s.close = false) ∧ AttInv c o rx ∧
        (rx.attached = true → rx.otiKnown = true ∧ rx.cache = [])

/-- invariant of the object's slice as long as it was never completed: nothing received is lost -/
structure Inv (o : ObjCfg) (P : List Sym) (st : OState) : Prop where
  notDone : st.completed = false
  obj : match st.obj with
    | none => P = []
    | some rx => ObjInv c o rx P

def Good (o : ObjCfg) (P : List Sym) (st : OState) : Prop := 1 ≤ st.completes ∨ Inv c o P st

theorem finish_completes_ge (o : ObjCfg) (st : OState) (r : PushRes) : st.completes ≤ (finish o st r).completes := by
  unfold finish
  split <;> simp
  split <;> omega

theorem finish_receiving (o : ObjCfg) (st : OState) (r : PushRes) (h : r.term = .receiving) :
    finish o st r = { st with obj := some r.rx } := by
  unfold finish; simp [h]

theorem finish_completed (o : ObjCfg) (st : OState) (r : PushRes) (h : r.term = .completed) (ha : r.rx.attached = true) :
    (finish o st r).completes = st.completes + 1 := by
  unfold finish; simp [h, ha]

theorem pushObj_good (rc : RxCfg) (o : ObjCfg) (hN : o.ks.isEmpty = false) (hfit : Fits rc o)
    (st : OState) (rx : ORx) (s : Sym) (P : List Sym)
    (hgen : Genuine o s) (hnc : s.close = false) (hnd : st.completed = false) (hinv : ObjInv c o rx P) :
    Good c o (s :: P) (pushObj c.canDecode rc o st rx s) := by
  obtain ⟨Pb, hcov, hmem, hcache, hatt, hknown⟩ := hinv
  unfold pushObj
  -- the in-band FTI makes the OTI known
  generalize hrx' : (if (!rx.otiKnown && o.inbandFti) = true then { rx with otiKnown := true } else rx) = rx'
  have e1 : rx'.attached = rx.attached ∧ rx'.cache = rx.cache ∧ rx'.written = rx.written ∧ rx'.got = rx.got ∧
      (rx.otiKnown = true → rx'.otiKnown = true) := by
    subst hrx'; split <;> simp
  have hcov' : Cov c o rx' Pb := by
    intro q hq hw; rw [e1.2.2.1] at hw; rw [e1.2.2.2.1]; exact hcov q hq hw
  have hatt' : AttInv c o rx' := by
    intro ha; rw [e1.1] at ha; rw [e1.2.2.1, e1.2.2.2.1]; exact hatt ha
  by_cases hk : rx'.otiKnown = true
  · simp only [hk, Bool.not_true, Bool.false_eq_true, ↓reduceIte]
    rw [pushSym_noclose c rc o rx' s hnc]
    have hs := pushCore_spec c rc o rx' s Pb hN hgen hfit hcov' _ rfl
    obtain ⟨h1, h2, h3, h4⟩ := hs
    rcases h1 with h1 | h1
    · right
      rw [finish_receiving o st _ h1]
      obtain ⟨hc, ha⟩ := h4 h1
      refine ⟨hnd, ?_⟩
      refine ⟨s :: Pb, hc, ?_, ?_, ha hatt', ?_⟩
      · intro q hq
        rcases List.mem_cons.mp hq with rfl | hq
        · exact Or.inr (List.mem_cons_self ..)
        · rcases hmem q hq with h | h
          · left; rw [h2.2.2, e1.2.1]; exact h
          · right; exact List.mem_cons_of_mem _ h
      · intro q hq; rw [h2.2.2, e1.2.1] at hq; exact hcache q hq
      · intro ha2
        rw [h2.1, e1.1] at ha2
        exact ⟨by rw [h2.2.1]; exact hk, by rw [h2.2.2, e1.2.1]; exact (hknown ha2).2⟩
    · left
      have ha : (pushCore c.canDecode rc o rx' s).rx.attached = true := by rw [h2.1]; exact h3 h1
      rw [finish_completed o st _ h1 ha]; omega
  · have hk' : rx'.otiKnown = false := by simpa using hk
    have hcf : cacheFull rc o rx'.cache = false := by simp [cacheFull, hfit.2.2]
    simp only [hk', Bool.not_false, ↓reduceIte, hcf, Bool.false_eq_true]
    right
    rw [finish_receiving o st _ rfl]
    refine ⟨hnd, ?_⟩
    refine ⟨Pb, hcov', ?_, ?_, hatt', ?_⟩
    · intro q hq
      rcases List.mem_cons.mp hq with rfl | hq
      · left; simp
      · rcases hmem q hq with h | h
        · left; simp only [List.mem_cons]; right; rw [e1.2.1]; exact h
        · right; exact h
    · intro q hq
      simp only [List.mem_cons] at hq
      rcases hq with rfl | hq
      · exact ⟨hgen, hnc⟩
      · rw [e1.2.1] at hq; exact hcache q hq
    · intro ha
      simp only at ha
      rw [e1.1] at ha
      have := e1.2.2.2.2 (hknown ha).1
      rw [hk'] at this; exact absurd this (by simp)

theorem objInv_rx0 (o : ObjCfg) : ObjInv c o rx0 [] := by
  refine ⟨[], ?_, ?_, ?_, ?_, ?_⟩
  · intro q hq; simp at hq
  · intro q hq; simp at hq
  · intro q hq; simp [rx0] at hq
  · intro h; simp [rx0] at h
  · intro h; simp [rx0] at h

theorem pushNew_good (rc : RxCfg) (o : ObjCfg) (hN : o.ks.isEmpty = false) (hfit : Fits rc o)
    (st : OState) (s : Sym) (P : List Sym)
    (hgen : Genuine o s) (hnc : s.close = false) (hinv : Inv c o P st) :
    Good c o (s :: P) (pushNew c.canDecode rc o st s) := by
  obtain ⟨hnd, hobj⟩ := hinv
  unfold pushNew
  cases hso : st.obj with
  | some rx =>
    simp only [hso] at hobj ⊢
    exact pushObj_good c rc o hN hfit st rx s P hgen hnc hnd hobj
  | none =>
    simp only [hso] at hobj ⊢
    subst hobj
    by_cases hage : st.age.isSome = true
    · simp only [hage, ↓reduceIte]
      have ha := attach_spec c rc o hN hfit rx0 [] (by intro q hq; simp [rx0] at hq) (by intro q hq; simp at hq) _ rfl
      obtain ⟨h1, h2, h3, h4⟩ := ha
      rcases h1 with h1 | h1
      · simp only [h1, bne_self_eq_false, Bool.false_eq_true, ↓reduceIte]
        obtain ⟨hc, hai, hce⟩ := h4 h1
        apply pushObj_good c rc o hN hfit _ _ s [] hgen hnc (by simpa using hnd)
        refine ⟨rx0.cache ++ [], hc, by intro q hq; simp at hq, ?_, hai, fun _ => ⟨h3, hce⟩⟩
        intro q hq; rw [hce] at hq; simp at hq
      · have hne : ((attach c.canDecode rc o rx0).term != Term.receiving) = true := by rw [h1]; rfl
        simp only [hne, ↓reduceIte]
        left
        rw [finish_completed o _ _ h1 h2]; simp
    · simp only [hage, Bool.false_eq_true, ↓reduceIte]
      exact pushObj_good c rc o hN hfit st rx0 s [] hgen hnc hnd (objInv_rx0 c o)

theorem fdtEv_good (rc : RxCfg) (o : ObjCfg) (hN : o.ks.isEmpty = false) (hfit : Fits rc o)
    (st : OState) (lists : Bool) (P : List Sym) (hinv : Inv c o P st) :
    Good c o P (fdtEv c.canDecode rc o st lists) := by
  obtain ⟨hnd, hobj⟩ := hinv
  unfold fdtEv
  cases hso : st.obj with
  | none =>
    right
    simp only [hso] at hobj ⊢
    exact ⟨by simp [hnd], by simpa [hso] using hobj⟩
  | some rx =>
    simp only [hso] at hobj ⊢
    by_cases hcnd : (lists && !rx.attached) = true
    · simp only [hcnd, ↓reduceIte]
      obtain ⟨Pb, hcov, hmem, hcache, hatt, hknown⟩ := hobj
      have ha := attach_spec c rc o hN hfit rx Pb hcache hcov _ rfl
      obtain ⟨h1, h2, h3, h4⟩ := ha
      rcases h1 with h1 | h1
      · right
        rw [finish_receiving o _ _ h1]
        obtain ⟨hc, hai, hce⟩ := h4 h1
        refine ⟨by simp [hnd], ?_⟩
        simp only
        refine ⟨rx.cache ++ Pb, hc, ?_, ?_, hai, fun _ => ⟨h3, hce⟩⟩
        · intro q hq
          right
          rcases hmem q hq with h | h
          · exact List.mem_append_left _ h
          · exact List.mem_append_right _ h
        · intro q hq; rw [hce] at hq; simp at hq
      · left
        simp only
        rw [finish_completed o _ _ h1 h2]; simp
    · right
      have : (lists && !rx.attached) = false := by simpa using hcnd
      simp only [this, Bool.false_eq_true, ↓reduceIte]
      exact ⟨by simp [hnd], by simpa [hso] using hobj⟩

/-! ### counters never decrease -/

theorem pushObj_completes_ge (rc : RxCfg) (o : ObjCfg) (st : OState) (rx : ORx) (s : Sym) :
    st.completes ≤ (pushObj c.canDecode rc o st rx s).completes := by
  unfold pushObj
  dsimp only
  generalize (if (!rx.otiKnown && o.inbandFti) = true then ({ rx with otiKnown := true } : ORx) else rx) = rx'
  by_cases h : (!rx'.otiKnown) = true
  · rw [if_pos h]; split <;> exact finish_completes_ge o st _
  · rw [if_neg h]; exact finish_completes_ge o st _

theorem pushNew_completes_ge (rc : RxCfg) (o : ObjCfg) (st : OState) (s : Sym) :
    st.completes ≤ (pushNew c.canDecode rc o st s).completes := by
  unfold pushNew
  cases st.obj with
  | some rx => exact pushObj_completes_ge c rc o st _ s
  | none =>
    dsimp only
    split
    · split
      · exact Nat.le_trans (Nat.le_of_eq rfl) (finish_completes_ge o { st with opens := st.opens + 1 } _)
      · exact Nat.le_trans (Nat.le_of_eq rfl) (pushObj_completes_ge c rc o { st with opens := st.opens + 1 } _ s)
    · exact pushObj_completes_ge c rc o st _ s

theorem fdtEv_completes_ge (rc : RxCfg) (o : ObjCfg) (st : OState) (lists : Bool) :
    st.completes ≤ (fdtEv c.canDecode rc o st lists).completes := by
  unfold fdtEv
  cases st.obj with
  | none => exact Nat.le_refl _
  | some rx =>
    dsimp only
    split
    · exact Nat.le_trans (Nat.le_of_eq rfl) (finish_completes_ge o { st with opens := st.opens + 1 } _)
    · exact Nat.le_refl _

theorem stepObj_completes_ge (rc : RxCfg) (o : ObjCfg) (st : OState) (e : Ev) :
    st.completes ≤ (stepObj c.canDecode rc o st e).completes := by
  cases e with
  | fdt lists => exact fdtEv_completes_ge c rc o st lists
  | pkt s =>
    simp only [stepObj]
    by_cases h1 : st.completed = true
    · rw [if_pos h1]
      by_cases h2 : rc.receiveOnce = true
      · rw [if_pos h2]; exact Nat.le_refl _
      · rw [if_neg h2]
        by_cases h3 : (s.sbn == 0 && s.esi == 0) = true
        · rw [if_pos h3]
          exact Nat.le_trans (Nat.le_of_eq rfl) (pushNew_completes_ge c rc o { st with completed := false } s)
        · rw [if_neg h3]; exact Nat.le_refl _
    · rw [if_neg h1]; exact pushNew_completes_ge c rc o st _

theorem runObj_completes_ge (rc : RxCfg) (o : ObjCfg) : ∀ (es : List Ev) (st : OState),
    st.completes ≤ (runObj c.canDecode rc o st es).completes := by
  intro es
  induction es with
  | nil => intro st; simp [runObj]
  | cons e es ih =>
    intro st
    unfold runObj
    exact Nat.le_trans (stepObj_completes_ge c rc o st e) (ih _)

end Flute.Lemmas.Session
