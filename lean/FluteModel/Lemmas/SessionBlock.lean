import FluteModel.Lemmas.SessionFlush
/-
  THE BLOCK PATH  `push_to_block2 ~ Session.pushCore`  (the hypothesis `BlockStep` of the link).
  Part 1: counting - `distinctSbns got` / `allocBytes` against nb_allocated_blocks / total_allocated_blocks_size.
-/
namespace Flute.Link
open Flute Flute.FecDec Flute.ObjRecv

/-! ### `Session.dedup` -/

theorem mem_dedup (l : List Nat) (x : Nat) : x ∈ Session.dedup l ↔ x ∈ l := by
  induction l with
  | nil => simp [Session.dedup]
  | cons a r ih =>
    simp only [Session.dedup]
    split
    · rename_i hc
      rw [ih]
      constructor
      · intro h; exact List.mem_cons_of_mem _ h
      · intro h
        rcases List.mem_cons.mp h with rfl | h
        · simpa using hc
        · exact h
    · simp [ih]

theorem nodup_dedup (l : List Nat) : (Session.dedup l).Nodup := by
  induction l with
  | nil => simp [Session.dedup]
  | cons a r ih =>
    simp only [Session.dedup]
    split
    · exact ih
    · rename_i hc
      refine List.nodup_cons.mpr ⟨?_, ih⟩
      rw [mem_dedup]
      simpa using hc

theorem sumOver_perm (blen : Array Nat) {a b : List Nat} (h : a.Perm b) : Session.sumOver blen a = Session.sumOver blen b := by
  induction h with
  | nil => rfl
  | cons x _ ih => simp [Session.sumOver, ih]
  | swap x y l => simp [Session.sumOver]; omega
  | trans _ _ ih1 ih2 => exact ih1.trans ih2

/-! ### the allocated blocks of the deque, as a list of SBNs -/

/-- SBNs of the blocks of the deque that have a decoder (`off` = SBN of the first block of the list) -/
def liveSbns : List Block → Nat → List Nat
  | [], _ => []
  | b :: r, off => if b.dec.isSome then off :: liveSbns r (off + 1) else liveSbns r (off + 1)

theorem mem_liveSbns (l : List Block) (off x : Nat) :
    x ∈ liveSbns l off ↔ off ≤ x ∧ ∃ blk, l[x - off]? = some blk ∧ blk.dec.isSome = true := by
  induction l generalizing off with
  | nil => simp [liveSbns]
  | cons b r ih =>
    simp only [liveSbns]
    by_cases hb : b.dec.isSome = true
    · simp only [hb, if_true, List.mem_cons, ih]
      constructor
      · rintro (rfl | ⟨h1, blk, h2, h3⟩)
        · exact ⟨Nat.le_refl _, b, by simp, hb⟩
        · refine ⟨by omega, blk, ?_, h3⟩
          rw [show x - off = (x - (off + 1)) + 1 by omega]; simpa using h2
      · rintro ⟨h1, blk, h2, h3⟩
        by_cases hx : x = off
        · exact .inl hx
        · right
          refine ⟨by omega, blk, ?_, h3⟩
          rw [show x - off = (x - (off + 1)) + 1 by omega] at h2; simpa using h2
    · simp only [hb, if_false, ih, Bool.false_eq_true]
      constructor
      · rintro ⟨h1, blk, h2, h3⟩
        refine ⟨by omega, blk, ?_, h3⟩
        rw [show x - off = (x - (off + 1)) + 1 by omega]; simpa using h2
      · rintro ⟨h1, blk, h2, h3⟩
        have hx : x ≠ off := by
          rintro rfl
          simp at h2; subst h2; exact hb h3
        refine ⟨by omega, blk, ?_, h3⟩
        rw [show x - off = (x - (off + 1)) + 1 by omega] at h2; simpa using h2

theorem nodup_liveSbns (l : List Block) (off : Nat) : (liveSbns l off).Nodup := by
  induction l generalizing off with
  | nil => simp [liveSbns]
  | cons b r ih =>
    simp only [liveSbns]
    split
    · refine List.nodup_cons.mpr ⟨?_, ih _⟩
      rw [mem_liveSbns]; omega
    · exact ih _

theorem length_liveSbns (l : List Block) (off : Nat) : (liveSbns l off).length = wcnt l := by
  induction l generalizing off with
  | nil => rfl
  | cons b r ih =>
    simp only [liveSbns, wcnt, bcnt]
    split <;> simp [ih] <;> omega

/-- with every allocated block accounted at `blen`, and every other block at 0 -/
theorem sum_liveSbns (blen : Array Nat) (l : List Block) (off : Nat)
    (h1 : ∀ (i : Nat) (b : Block), l[i]? = some b → b.dec.isSome = true → b.blockSize = blen.getD (off + i) 0)
    (h0 : ∀ (i : Nat) (b : Block), l[i]? = some b → b.dec = none → b.blockSize = 0) :
    Session.sumOver blen (liveSbns l off) = wsum l := by
  induction l generalizing off with
  | nil => rfl
  | cons b r ih =>
    have ihr := ih (off + 1) (fun i x hx hd => by have := h1 (i + 1) x (by simp [hx]) hd; rw [this]; congr 1; omega)
      (fun i x hx hd => h0 (i + 1) x (by simp [hx]) hd)
    simp only [liveSbns, wsum]
    by_cases hb : b.dec.isSome = true
    · simp only [hb, if_true, Session.sumOver, ihr]
      have := h1 0 b (by simp) hb
      rw [Nat.add_zero] at this
      rw [this]
    · simp only [hb, if_false, ihr, Bool.false_eq_true]
      have : b.dec = none := by cases hd : b.dec <;> simp_all
      have := h0 0 b (by simp) this
      omega

/-! ### the Session's allocation bookkeeping is the code's -/

theorem mem_distinct (got : List (Nat × Nat)) (x : Nat) : x ∈ Session.distinctSbns got ↔ ∃ e, (x, e) ∈ got := by
  unfold Session.distinctSbns
  rw [mem_dedup, List.mem_map]
  constructor
  · rintro ⟨⟨a, e⟩, h, rfl⟩; exact ⟨e, h⟩
  · rintro ⟨e, h⟩; exact ⟨(x, e), h, rfl⟩

theorem live_iff_got (Z : Setting) (st : St) (rx : Session.ORx) (hsim : SimB Z st rx) (x : Nat) :
    (∃ e, (x, e) ∈ rx.got) ↔ (st.blocksOffset ≤ x ∧ ∃ blk, st.blocks[x - st.blocksOffset]? = some blk ∧ blk.dec.isSome = true) := by
  constructor
  · rintro ⟨e, he⟩
    obtain ⟨h1, blk, d, h2, h3, _⟩ := (hsim.got x e).mp he
    exact ⟨h1, blk, h2, by simp [h3]⟩
  · rintro ⟨h1, blk, h2, h3⟩
    have hB := hsim.f.blk (x - st.blocksOffset) blk h2
    obtain ⟨e, he⟩ := List.exists_mem_of_ne_nil _ (hB.ne h3)
    refine ⟨e, (hsim.got x e).mpr ⟨h1, blk, ?_⟩⟩
    cases hd : blk.dec with
    | none => simp [hd] at h3
    | some d => exact ⟨d, h2, rfl, by simpa [blkEsis, hd] using he⟩

theorem alloc_counts (Z : Setting) (st : St) (rx : Session.ORx) (hT : TInv st) (c : CountOK st) (hsim : SimB Z st rx) :
    (Session.distinctSbns rx.got).length = st.nbAlloc ∧ Session.allocBytes Z.oc.blen rx.got = st.totalAlloc := by
  have hperm : (Session.distinctSbns rx.got).Perm (liveSbns st.blocks st.blocksOffset) := by
    have hnd : (Session.distinctSbns rx.got).Nodup := nodup_dedup _
    rw [List.perm_ext_iff_of_nodup hnd (nodup_liveSbns _ _)]
    intro x
    rw [mem_distinct, mem_liveSbns, live_iff_got Z st rx hsim]
  refine ⟨by rw [hperm.length_eq, length_liveSbns, c.cnt], ?_⟩
  unfold Session.allocBytes
  rw [sumOver_perm _ hperm, c.sum]
  apply sum_liveSbns
  · intro i b hb hd; exact (hsim.f.blk i b hb).size hd
  · intro i b hb hd; exact (hT.blocks b (List.mem_of_getElem? hb)).size0 hd

/-- `blockDone` on the Session side is `completed` of the block of the deque (`false` when the deque does not reach that far) -/
theorem blockDone_at (Z : Setting) (hZ : Z.OK) (st : St) (rx : Session.ORx) (hsim : SimB Z st rx) (b : Nat)
    (hb : st.blocksOffset ≤ b) (hbn : b < Z.S.n) :
    Session.blockDone Z.dec Z.oc.ks Z.oc.p rx.got b =
      (match st.blocks[b - st.blocksOffset]? with
       | some blk => blk.completed
       | none => false) := by
  unfold Session.blockDone
  rw [hZ.ks _ hbn]
  dsimp only
  have hmem : ∀ x, x ∈ Session.esisOf rx.got b ↔ holds st b x := by
    intro x
    rw [← hsim.got b x]
    simp only [Session.esisOf, List.mem_map, List.mem_filter]
    constructor
    · rintro ⟨⟨b', e⟩, ⟨hm, hbe⟩, rfl⟩
      have : b' = b := by simpa using hbe
      subst this; exact hm
    · intro hh; exact ⟨(b, x), ⟨hh, by simp⟩, rfl⟩
  cases hblk : st.blocks[b - st.blocksOffset]? with
  | none =>
    dsimp only
    rw [← hZ.decNil _ hbn]
    apply hZ.decExt
    intro x
    rw [hmem]
    simp only [List.not_mem_nil, iff_false]
    rintro ⟨_, blk, d, h1, _⟩
    rw [hblk] at h1; cases h1
  | some blk =>
    dsimp only
    have hB := hsim.f.blk (b - st.blocksOffset) blk hblk
    rw [show st.blocksOffset + (b - st.blocksOffset) = b by omega] at hB
    rw [hB.comp]
    apply hZ.decExt
    intro x
    rw [hmem]
    have := mem_blkEsis_iff_holds st (b - st.blocksOffset) blk hblk x
    rw [show st.blocksOffset + (b - st.blocksOffset) = b by omega] at this
    exact this.symm

/-! ### outcomes of one block step -/

/-- the object goes on, no writer call: the step relation from the relation of the new state -/
theorem stepout_same (Z : Setting) (st fin : St) (os : Session.OState) (rx' : Session.ORx) (hr : RelB Z st os)
    (hrec : fin.state = .receiving) (hsim : SimB Z fin rx') (hout : fin.out = st.out) (hc : fin.cache = st.cache)
    (hcs : fin.cacheSize = st.cacheSize) (hh : Head fin) :
    StepOut Z st fin (Session.finish Z.oc os { rx := rx', term := .receiving }) :=
  ⟨⟨fun _ => ⟨rx', rfl, hsim⟩, fun h => absurd hrec h, by rw [hout]; exact hr.opens, by rw [hout]; exact hr.completes,
    by rw [hout]; exact hr.errors, by rw [hout]; exact hr.interrupts⟩, fun _ => ⟨hc, hcs⟩, fun h => absurd hrec h, fun _ => hh⟩

theorem error_blocks (st : St) (i : Bool) : (error st i).blocks = [] := by
  unfold error; cases h : st.writer <;> simp [h]

/-- `Err` of the block path: `error()`; the writer is told iff the object is attached -/
theorem stepout_err (Z : Setting) (st sX : St) (os : Session.OState) (rx : Session.ORx) (hi : Inv st) (hr : RelB Z st os)
    (hsim : SimB Z st rx) (hw : sX.writer = st.writer) (hout : sX.out = st.out) :
    StepOut Z st (error sX false) (Session.finish Z.oc os { rx := rx, term := .error }) := by
  have hns : (error sX false).state ≠ .receiving := by simp
  have hwa : sX.writer.isSome = rx.attached := by
    rw [hw, hsim.att]
    cases hf : st.fdtId with
    | none =>
      cases hw' : st.writer with
      | none => rfl
      | some w => exact absurd hf (hi.fdt (by simp [hw']))
    | some i => rw [hsim.wr (by simp [hf])]; rfl
  refine ⟨⟨fun h => absurd h hns, fun _ => by simp [Session.finish], ?_, ?_, ?_, ?_⟩, fun h => absurd h hns,
    fun _ => ⟨error_cache _ _, error_blocks _ _⟩, fun h => absurd h hns⟩
  · rw [error_out, hout]; cases hx : sX.writer.isSome <;> simp [Session.finish, cnt_cons, isOpenOk, hr.opens]
  · rw [error_out, hout]; cases hx : sX.writer.isSome <;> simp [Session.finish, cnt_cons, isComplete, hr.completes]
  · rw [error_out, hout]; cases hx : sX.writer.isSome <;> rw [hx] at hwa <;> simp [Session.finish, cnt_cons, isError, hr.errors, ← hwa]; omega
  · rw [error_out, hout]; cases hx : sX.writer.isSome <;> simp [Session.finish, cnt_cons, isInterrupted, hr.interrupts]

/-- the step relation only reads the cache of the start state -/
theorem StepOut.from {Z : Setting} {st st2 fin : St} {os' : Session.OState} (h : StepOut Z st2 fin os')
    (hc : st2.cache = st.cache) (hcs : st2.cacheSize = st.cacheSize) : StepOut Z st fin os' :=
  ⟨h.rel, fun hh => by rw [← hc, ← hcs]; exact h.keep hh, h.clear, h.head⟩

/-! ### `resize_with` of the deque -/

theorem grow_cases (st : St) (k : Nat) :
    growBlocks st k = st ∨ (st.blocks.length ≤ k ∧
      growBlocks st k = { st with blocks := st.blocks ++ List.replicate (k + 1 - st.blocks.length) {} }) := by
  unfold growBlocks
  split
  · rename_i h; exact .inr ⟨h, rfl⟩
  · exact .inl rfl

theorem grow_get (st : St) (k i : Nat) (blk : Block) (h : (growBlocks st k).blocks[i]? = some blk) :
    st.blocks[i]? = some blk ∨ (st.blocks[i]? = none ∧ blk = {} ∧ i ≤ k) := by
  rcases grow_cases st k with e | ⟨hle, e⟩
  · rw [e] at h; exact .inl h
  · rw [e] at h
    simp only [List.getElem?_append] at h
    split at h
    · exact .inl h
    · rename_i hi
      have hm := List.mem_of_getElem? h
      have hlt := (List.getElem?_eq_some_iff.mp h).1
      simp only [List.length_replicate] at hlt
      exact .inr ⟨List.getElem?_eq_none (by omega), List.eq_of_mem_replicate hm, by omega⟩

theorem grow_old (st : St) (k i : Nat) (blk : Block) (h : st.blocks[i]? = some blk) : (growBlocks st k).blocks[i]? = some blk := by
  rcases grow_cases st k with e | ⟨hle, e⟩
  · rw [e]; exact h
  · rw [e]
    have hlt := (List.getElem?_eq_some_iff.mp h).1
    simp only [List.getElem?_append, hlt, if_true]
    exact h

theorem holds_grow (st : St) (k b e : Nat) : holds (growBlocks st k) b e ↔ holds st b e := by
  have hoff : (growBlocks st k).blocksOffset = st.blocksOffset := by
    rcases grow_cases st k with e | ⟨_, e⟩ <;> rw [e]
  unfold holds
  rw [hoff]
  constructor
  · rintro ⟨h0, blk, d, h1, h2, h3⟩
    rcases grow_get st k _ blk h1 with h | ⟨_, h, _⟩
    · exact ⟨h0, blk, d, h, h2, h3⟩
    · rw [h] at h2; cases h2
  · rintro ⟨h0, blk, d, h1, h2, h3⟩
    exact ⟨h0, blk, d, grow_old st k _ blk h1, h2, h3⟩

theorem blkOK_default (Z : Setting) (hZ : Z.OK) (b : Nat) (hb : b < Z.S.n) : BlkOK Z b {} := by
  refine ⟨?_, fun h => by simp at h, rfl, fun h => by simp at h, fun h => by simp at h, fun h => by simp at h⟩
  show false = _
  rw [show blkEsis ({} : Block) = [] from rfl]
  exact (hZ.decNil b hb).symm

theorem BwOK.of_eq {Z : Setting} {st st' : St} {w : BW} (h : BwOK Z st w) (e2 : st'.blocksOffset = st.blocksOffset)
    (e4 : st'.cl = st.cl) : BwOK Z st' w :=
  ⟨by rw [e2]; exact h.sbn, h.left, h.pos, h.cenc, by rw [e4]; exact h.cl, h.nbw, h.disc, h.dz⟩

theorem simB_grow (Z : Setting) (hZ : Z.OK) (st : St) (rx : Session.ORx) (hsim : SimB Z st rx) (k : Nat)
    (hk : st.blocksOffset + k < Z.S.n) (hk2 : k ≤ 2 * MAX_PREALLOCATED_BLOCKS) : SimB Z (growBlocks st k) rx := by
  have hgot := fun b e => holds_grow st k b e
  have hget := grow_get st k
  rcases grow_cases st k with e | ⟨hle, e⟩
  · rw [e]; exact hsim
  · rw [e] at hgot hget ⊢
    refine ⟨hsim.oti, hsim.att, hsim.wr, hsim.written, fun b e => (hsim.got b e).trans (hgot b e).symm, hsim.nodup, hsim.maxSz,
      hsim.attOti, ?_, hsim.quad, hsim.md5, ?_, fun w hw => (hsim.f.bw w hw).of_eq rfl rfl, hsim.f.cl, ?_⟩
    · intro ho hn
      have := hsim.tbl ho hn
      unfold St.nbBlock at this ⊢
      simp only [List.length_append, List.length_replicate]; omega
    · intro i b hib
      rcases hget i b hib with h | ⟨_, h, hik⟩
      · exact hsim.f.blk i b h
      · rw [h]; exact blkOK_default Z hZ _ (by show st.blocksOffset + i < _; omega)
    · simp only [List.length_append, List.length_replicate]; omega

/-! ### the codec contract of the link, and the allocation step -/

/-- WHAT THE LINK ASSUMES OF THE BLOCK DECODERS (a contract on `Params.codec` and the object's symbols, like `GSess.Laws.codec`):
    `Setting.dec` IS the decodability of the codec over the set of ESIs a decoder holds.  Only REACHABLE decoder states are constrained
    (`ReachBlk`: built by `init`, fed genuine symbols). -/
structure CodecDec (Z : Setting) : Prop where
  /-- `BlockDecoder::init` on a block of the object succeeds; the new decoder holds no symbol -/
  init : ∀ (blk : Block) (b bs : Nat), b < Z.S.n → blk.initialized = false →
    ∃ b', blk.init Z.P.codec Z.S.o (Z.S.K b) bs b = .ok b' ∧ blkEsis b' = []
  /-- `BlockDecoder::push` of a genuine symbol with an ESI of the table: the decoder holds that ESI too; the block is completed iff
      `dec` says the held ESIs suffice, and then the source block is there -/
  push : ∀ (blk blk' : Block) (b esi : Nat), b < Z.S.n → ReachBlk Z b blk → blk.completed = false → StoredEsi Z b esi →
    blk.push Z.P.codec (Z.S.sym b esi) esi = some blk' →
    (∀ x, x ∈ blkEsis blk' ↔ x = esi ∨ x ∈ blkEsis blk) ∧ blk'.completed = Z.dec (Z.S.K b) Z.oc.p (blkEsis blk') ∧
    (blk'.completed = true → blk'.sourceBlock.isSome = true)

theorem alloc_outcome (Z : Setting) (hZ : Z.OK) (hC : CodecDec Z) (sg : St) (pid : PayloadId) (blk : Block) (v : Nat)
    (hpart : Part Z.S sg) (hsbn : pid.sbn < Z.S.n) (hsbl : pid.sbl = none ∨ pid.sbl = some (Z.S.K pid.sbn))
    (hblen : (pid.sbl = none → Partition.blockLength Z.S.aL Z.S.aS Z.S.nL Z.S.T.length Z.S.o.e pid.sbn = .ok v) ∧
      (∀ l, pid.sbl = some l → l * Z.S.o.e = v))
    (r : St × Option Block) (h : allocBlock Z.P sg Z.S.o Z.S.T.length pid blk = .ok r) :
    (blk.initialized = true ∧ r = (sg, some blk)) ∨
    (blk.initialized = false ∧ (2 ≤ sg.nbAlloc ∧ sg.maxSize < sg.totalAlloc + v) ∧ r = ({ sg with state := .error }, none)) ∨
    (blk.initialized = false ∧ ¬ (2 ≤ sg.nbAlloc ∧ sg.maxSize < sg.totalAlloc + v) ∧
      ∃ b', blk.init Z.P.codec Z.S.o (Z.S.K pid.sbn) v pid.sbn = .ok b' ∧ blkEsis b' = [] ∧
        r = ({ sg with nbAlloc := sg.nbAlloc + 1, totalAlloc := sg.totalAlloc + v }, some b')) := by
  have hk : sblOf sg pid = Z.S.K pid.sbn := by
    unfold sblOf
    cases hsbl with
    | inl hn => rw [hn]; simp only; rw [hpart.1, hpart.2.1, hpart.2.2.1]; exact hZ.laws.kRecv _ hsbn
    | inr hs => rw [hs]
  unfold allocBlock at h
  by_cases hini : blk.initialized = true
  · rw [if_pos hini] at h; cases h; exact .inl ⟨hini, rfl⟩
  · rw [if_neg hini] at h
    have hini' : blk.initialized = false := by simpa using hini
    dsimp only at h
    rw [hk] at h
    rcases hsbl with hn | hs
    · simp only [hn] at h
      have hblk : Partition.blockLength sg.aLarge sg.aSmall sg.nbALarge Z.S.T.length Z.S.o.e pid.sbn = .ok v := by
        rw [hpart.1, hpart.2.1, hpart.2.2.1]; exact hblen.1 hn
      rw [hblk] at h
      simp only [liftRs] at h
      split at h
      · cases h
      · by_cases hlim : 2 ≤ sg.nbAlloc ∧ sg.maxSize < sg.totalAlloc + v
        · rw [if_pos hlim] at h; cases h; exact .inr (.inl ⟨hini', hlim, rfl⟩)
        · rw [if_neg hlim] at h
          obtain ⟨b', hb', he⟩ := hC.init blk pid.sbn v hsbn hini'
          rw [hb'] at h
          dsimp only at h
          split at h
          · cases h
          · cases h; exact .inr (.inr ⟨hini', hlim, b', hb', he, rfl⟩)
    · simp only [hs] at h
      rw [hblen.2 _ hs] at h
      split at h
      · cases h
      · by_cases hlim : 2 ≤ sg.nbAlloc ∧ sg.maxSize < sg.totalAlloc + v
        · rw [if_pos hlim] at h; cases h; exact .inr (.inl ⟨hini', hlim, rfl⟩)
        · rw [if_neg hlim] at h
          obtain ⟨b', hb', he⟩ := hC.init blk pid.sbn v hsbn hini'
          rw [hb'] at h
          dsimp only at h
          split at h
          · cases h
          · cases h; exact .inr (.inr ⟨hini', hlim, b', hb', he, rfl⟩)

theorem head_grow (st : St) (k : Nat) (h : Head st) : Head (growBlocks st k) := by
  have hw : (growBlocks st k).writer = st.writer := by
    rcases grow_cases st k with e | ⟨_, e⟩ <;> rw [e]
  intro hop blk hb
  rw [hw] at hop
  rcases grow_get st k 0 blk hb with h1 | ⟨_, h1, _⟩
  · exact h hop blk h1
  · rw [h1]

/-- the symbol goes into block `k` of the deque (`blocks[k] = blk'`), the allocation counters move: the block-level relation with
    `got` extended by the (SBN, ESI) -/
theorem simB_store (Z : Setting) (sg : St) (rx : Session.ORx) (hsim : SimB Z sg rx) (k n1 t1 : Nat) (b1 blk' : Block) (esi : Nat)
    (hk : k < sg.blocks.length)
    (hb1 : ∀ e, e ∈ blkEsis b1 ↔ holds sg (sg.blocksOffset + k) e)
    (hmem : ∀ x, x ∈ blkEsis blk' ↔ x = esi ∨ x ∈ blkEsis b1)
    (hok : BlkOK Z (sg.blocksOffset + k) blk') :
    SimB Z { sg with nbAlloc := n1, totalAlloc := t1, blocks := sg.blocks.set k blk' }
      { rx with got := if !(rx.got.contains (sg.blocksOffset + k, esi)) then (sg.blocksOffset + k, esi) :: rx.got else rx.got } := by
  have hset : ({ sg with nbAlloc := n1, totalAlloc := t1, blocks := sg.blocks.set k blk' } : St).blocks[k]? = some blk' := by
    simp [hk]
  refine ⟨hsim.oti, hsim.att, hsim.wr, hsim.written, ?_, ?_, hsim.maxSz, hsim.attOti, ?_, hsim.quad, hsim.md5, ?_,
    fun w hw => (hsim.f.bw w hw).of_eq rfl rfl, hsim.f.cl, ?_⟩
  · intro b e
    have hL : (b, e) ∈ (if !(rx.got.contains (sg.blocksOffset + k, esi)) then (sg.blocksOffset + k, esi) :: rx.got else rx.got) ↔
        ((b, e) = (sg.blocksOffset + k, esi) ∨ (b, e) ∈ rx.got) := by
      by_cases hc : rx.got.contains (sg.blocksOffset + k, esi) = true
      · simp only [hc, Bool.not_true, Bool.false_eq_true, if_false]
        constructor
        · exact .inr
        · rintro (h | h)
          · rw [h]; simpa using hc
          · exact h
      · simp only [hc, Bool.not_false, if_true, List.mem_cons]
    show (b, e) ∈ (if !(rx.got.contains (sg.blocksOffset + k, esi)) then (sg.blocksOffset + k, esi) :: rx.got else rx.got) ↔ _
    rw [hL, hsim.got b e]
    by_cases hbk : b = sg.blocksOffset + k
    · subst hbk
      have h2 := mem_blkEsis_iff_holds _ k blk' hset e
      rw [← h2, hmem e, hb1 e]
      simp
    · constructor
      · rintro (h | ⟨h0, blk, d, h1, h2, h3⟩)
        · exact absurd (by cases h; rfl) hbk
        · refine ⟨h0, blk, d, ?_, h2, h3⟩
          show (sg.blocks.set k blk')[b - sg.blocksOffset]? = some blk
          rw [List.getElem?_set_ne (by omega)]; exact h1
      · rintro ⟨h0, blk, d, h1, h2, h3⟩
        have h0' : sg.blocksOffset ≤ b := h0
        refine .inr ⟨h0', blk, d, ?_, h2, h3⟩
        have h1' : (sg.blocks.set k blk')[b - sg.blocksOffset]? = some blk := h1
        rw [List.getElem?_set_ne (by omega)] at h1'; exact h1'
  · show (if !(rx.got.contains (sg.blocksOffset + k, esi)) then (sg.blocksOffset + k, esi) :: rx.got else rx.got).Nodup
    by_cases hc : rx.got.contains (sg.blocksOffset + k, esi) = true
    · simp only [hc, Bool.not_true, Bool.false_eq_true, if_false]; exact hsim.nodup
    · simp only [hc, Bool.not_false, if_true]
      exact List.nodup_cons.mpr ⟨by simpa using hc, hsim.nodup⟩
  · intro ho hn
    have := hsim.tbl ho hn
    unfold St.nbBlock at this ⊢
    simp only [List.length_set]; exact this
  · intro i b hib
    have hib' : (sg.blocks.set k blk')[i]? = some b := hib
    by_cases hik : i = k
    · subst hik
      rw [hset] at hib; cases hib; exact hok
    · rw [List.getElem?_set_ne (by omega)] at hib'
      exact hsim.f.blk i b hib'
  · show (sg.blocks.set k blk').length ≤ _
    simp only [List.length_set]; exact hsim.f.len

/-! ### after the symbol is stored: `write_blocks(sbn)` if the block completed  ~  `Session.settle` -/

theorem bw_of_opened (Z : Setting) (hZ : Z.OK) (hn : Z.S.n ≠ 0) (st : St) (hg : Good Z st) (hwr : st.writer = some .opened) :
    ∃ w, st.bw = some w := by
  have hTl : Z.S.T.length ≠ 0 := by have := hZ.preLt 0 (by omega); omega
  obtain ⟨T, C, h1, _, _, h4⟩ := (hg.jinv.opened hwr).ex
  have hT : T = Z.S.T.length := by
    cases hg.ginv.tl with
    | inl h2 => rw [h2] at h1; cases h1
    | inr h2 => rw [h2] at h1; cases h1; rfl
  obtain ⟨w, hw, _⟩ := h4 (by rw [hT]; exact hTl)
  exact ⟨w, hw⟩

theorem settle_at (Z : Setting) (hZ : Z.OK) (st st2 st1 : St) (ok : Bool) (os : Session.OState) (rx2 : Session.ORx) (sbn : Nat)
    (blk' : Block) (hi : Inv st) (hr : RelB Z st os) (hrec2 : st2.state = .receiving) (hsim2 : SimB Z st2 rx2)
    (hg2 : GInv Z.S st2) (hwr : st2.writer = st.writer) (hfd : st2.fdtId = st.fdtId) (hout : st2.out = st.out)
    (hc : st2.cache = st.cache) (hcs : st2.cacheSize = st.cacheSize)
    (hbw : st2.writer = some .opened → ∃ w, st2.bw = some w)
    (hsb : st2.blocksOffset ≤ sbn) (hblk : st2.blocks[sbn - st2.blocksOffset]? = some blk')
    (hhead : sbn ≠ st2.blocksOffset → st2.writer = some .opened → ∀ b, st2.blocks[0]? = some b → b.completed = false)
    (h : (if blk'.completed then writeBlocks Z.P st2 sbn else .ok (st2, true)) = .ok (st1, ok)) :
    StepOut Z st (if ok then st1 else error st1 false) (Session.finish Z.oc os (Session.settle Z.dec Z.oc rx2)) := by
  by_cases hatt : rx2.attached = true
  · -- attached: writer open, BlockWriter there
    have hfd2 : st2.fdtId.isSome = true := by rw [← hsim2.att]; exact hatt
    have hop : st2.writer = some .opened := hsim2.wr hfd2
    obtain ⟨w, hw⟩ := hbw hop
    have hW := hsim2.f.bw w hw
    have hoffn : st2.blocksOffset < Z.S.n := by
      apply Classical.byContradiction
      intro hcn
      have hroom := hg2.room
      have : st2.blocksOffset = Z.S.n := by omega
      have h1 := hW.left; have h2 := hW.pos
      rw [hW.sbn, this, hZ.laws.preN] at h1
      omega
    have hr2 : RelB Z st2 { os with obj := some rx2 } :=
      ⟨fun _ => ⟨rx2, rfl, hsim2⟩, fun hh => absurd hrec2 hh, by rw [hout]; exact hr.opens, by rw [hout]; exact hr.completes,
        by rw [hout]; exact hr.errors, by rw [hout]; exact hr.interrupts⟩
    have hmain : ok = true ∧
        ((Session.advance Z.dec Z.oc.ks Z.oc.p rx2.got (Z.oc.ks.size + 1) st2.blocksOffset < Z.S.n ∧
            Flushed Z st2 st1 (Session.advance Z.dec Z.oc.ks Z.oc.p rx2.got (Z.oc.ks.size + 1) st2.blocksOffset)) ∨
         (Session.advance Z.dec Z.oc.ks Z.oc.p rx2.got (Z.oc.ks.size + 1) st2.blocksOffset = Z.S.n ∧ Completed st2 st1)) := by
      by_cases hfl : blk'.completed = true ∧ sbn = st2.blocksOffset
      · -- the head block completed: flush
        obtain ⟨hcomp, hsbn⟩ := hfl
        rw [if_pos hcomp] at h
        unfold writeBlocks at h
        simp only [hop, hw] at h
        rw [if_neg (by simp), hsbn] at h
        exact flush_loop Z hZ st2.blocks.length st2 st1 ok rx2.got (Z.oc.ks.size + 1) (Nat.le_refl _) hrec2 hop hsim2.md5 hsim2.f
          ⟨w, hw⟩ hg2.blocks (fun b e _ => hsim2.got b e) hg2.room (by rw [hZ.nblocks]; omega) h
      · -- nothing to write
        have hres : st1 = st2 ∧ ok = true := by
          by_cases hcomp : blk'.completed = true
          · have hne : sbn ≠ st2.blocksOffset := fun he => hfl ⟨hcomp, he⟩
            rw [if_pos hcomp] at h
            unfold writeBlocks at h
            simp only [hop, hw] at h
            rw [if_neg (by simp)] at h
            unfold writeLoop at h
            rw [if_neg (by omega), hblk] at h
            simp only [hcomp, Bool.not_true, Bool.false_eq_true, if_false] at h
            unfold bwWrite at h
            simp only [hw] at h
            rw [if_pos (by rw [hW.sbn]; omega)] at h
            simp at h
            exact ⟨h.1.symm, h.2⟩
          · rw [if_neg hcomp] at h
            simp at h
            exact ⟨h.1.symm, h.2⟩
        obtain ⟨rfl, rfl⟩ := hres
        have hhd : ∀ b, st1.blocks[0]? = some b → b.completed = false := by
          by_cases he : sbn = st1.blocksOffset
          · intro b hb
            have hbe : b = blk' := by
              rw [he, Nat.sub_self, hb] at hblk; exact Option.some.inj hblk
            have : ¬ (b.completed = true) := fun hcp => hfl ⟨by rw [← hbe]; exact hcp, he⟩
            simpa using this
          · exact hhead he hop
        have hstop : Session.advance Z.dec Z.oc.ks Z.oc.p rx2.got (Z.oc.ks.size + 1) st1.blocksOffset = st1.blocksOffset := by
          apply advance_stop
          intro _
          rw [blockDone_head Z hZ st1 rx2.got (fun b e _ => hsim2.got b e) hoffn]
          cases hb : st1.blocks[0]? with
          | none => rfl
          | some blk =>
            dsimp only
            have := (hsim2.f.blk 0 blk hb).comp
            rw [Nat.add_zero] at this
            rw [← this]; exact hhd blk hb
        rw [hstop]
        exact ⟨rfl, .inl ⟨hoffn, hrec2, Nat.le_refl _, rfl, by simp, hsim2.f, by simp [hw], Frame.refl _, fun _ _ => rfl, hhd⟩⟩
    obtain ⟨rfl, hres⟩ := hmain
    simp only [if_true]
    have := (stepout_of_flush Z hZ st2 st1 _ rx2 hr2 hsim2 hatt hres).from hc hcs
    rw [finish_obj_irrel] at this
    exact this
  · -- not attached: no writer, nothing is written
    have hatt' : rx2.attached = false := by simpa using hatt
    have hfdn : st.fdtId = none := by
      have := hsim2.att
      rw [hatt', hfd] at this
      cases hf : st.fdtId with
      | none => rfl
      | some i => rw [hf] at this; cases this
    have hwn : st2.writer = none := by
      rw [hwr]
      cases hw' : st.writer with
      | none => rfl
      | some w => exact absurd hfdn (hi.fdt (by simp [hw']))
    have hres : st1 = st2 ∧ ok = true := by
      unfold writeBlocks at h
      simp only [hwn] at h
      split at h <;> (simp at h; exact ⟨h.1.symm, h.2⟩)
    obtain ⟨rfl, rfl⟩ := hres
    have hS : Session.settle Z.dec Z.oc rx2 = { rx := rx2, term := .receiving } := by simp [Session.settle, hatt']
    rw [hS]
    simp only [if_true]
    exact stepout_same Z st st1 os rx2 hr hrec2 hsim2 hout hc hcs (fun hh => by rw [hwn] at hh; cases hh)

/-- the common tail of the block path: `BlockDecoder::push`, the block goes back into the deque, `write_blocks` -/
theorem store_tail (Z : Setting) (hZ : Z.OK) (hC : CodecDec Z) (hn : Z.S.n ≠ 0) (st sg st1 : St) (ok : Bool) (os : Session.OState)
    (rx : Session.ORx) (sbn esi k n1 t1 : Nat) (payload : Bytes) (b1 blk' : Block)
    (hg : Good Z st) (hr : RelB Z st os) (hsimg : SimB Z sg rx) (hgg : GInv Z.S sg) (hhdg : Head sg)
    (hstate : sg.state = .receiving) (hwr : sg.writer = st.writer) (hfd : sg.fdtId = st.fdtId) (hout : sg.out = st.out)
    (hc : sg.cache = st.cache) (hcs : sg.cacheSize = st.cacheSize) (hbwe : sg.bw = st.bw)
    (hsk : sbn = sg.blocksOffset + k) (hsbn : sbn < Z.S.n) (hk : k < sg.blocks.length)
    (hb1esis : ∀ e, e ∈ blkEsis b1 ↔ holds sg sbn e) (hb1bok : BOK Z.S sbn b1) (hb1dec : b1.dec.isSome = true)
    (hb1r : ReachBlk Z sbn b1)
    (hb1c : b1.completed = false) (hb1ini : b1.initialized = true) (hb1size : b1.blockSize = Z.oc.blen.getD sbn 0)
    (hst : StoredEsi Z sbn esi) (hpay : payload = Z.S.sym sbn esi) (hpush : b1.push Z.P.codec payload esi = some blk')
    (h : (if blk'.completed then writeBlocks Z.P { sg with nbAlloc := n1, totalAlloc := t1, blocks := sg.blocks.set k blk' } sbn
          else .ok ({ sg with nbAlloc := n1, totalAlloc := t1, blocks := sg.blocks.set k blk' }, true)) = .ok (st1, ok)) :
    StepOut Z st (if ok then st1 else error st1 false)
      (Session.finish Z.oc os (Session.settle Z.dec Z.oc
        { rx with got := if !(rx.got.contains (sbn, esi)) then (sbn, esi) :: rx.got else rx.got })) := by
  subst hsk
  rw [hpay] at hpush
  obtain ⟨hmem, hcomp, hsrc⟩ := hC.push b1 blk' _ esi hsbn hb1r hb1c hst hpush
  obtain ⟨b2, hp2, hd2, hsz2, hini2⟩ := push_shape Z.P.codec b1 (Z.S.sym (sg.blocksOffset + k) esi) esi hb1dec hb1c
  have hbe : b2 = blk' := by rw [hpush] at hp2; exact (Option.some.inj hp2).symm
  subst hbe
  have hok : BlkOK Z (sg.blocksOffset + k) b2 :=
    ⟨hcomp, hsrc, by rw [hini2, hb1ini, hd2],
      (fun _ hnil => by have := (hmem esi).mpr (.inl rfl); rw [hnil] at this; exact absurd this (List.not_mem_nil)),
      (fun _ => by rw [hsz2, hb1size]), (fun _ => .push b1 b2 esi hb1r hst hpush)⟩
  have hsim2 := simB_store Z sg rx hsimg k n1 t1 b1 b2 esi hk hb1esis hmem hok
  have hbok2 : BOK Z.S (sg.blocksOffset + k) b2 := blockOK_push Z.P.codec (hZ.laws.codec _ hsbn) b1 b2 esi hb1bok hpush
  have hg1 : GInv Z.S { sg with nbAlloc := n1, totalAlloc := t1 } :=
    hgg.sameG ⟨rfl, rfl, rfl, rfl, rfl, rfl, rfl, rfl, rfl, rfl, rfl, rfl, rfl⟩
  have hg2 : GInv Z.S { sg with nbAlloc := n1, totalAlloc := t1, blocks := sg.blocks.set k b2 } := ginv_setBlock hg1 k b2 hbok2
  have hset : ({ sg with nbAlloc := n1, totalAlloc := t1, blocks := sg.blocks.set k b2 } : St).blocks[k]? = some b2 := by
    simp [hk]
  refine settle_at Z hZ st { sg with nbAlloc := n1, totalAlloc := t1, blocks := sg.blocks.set k b2 } st1 ok os _ (sg.blocksOffset + k) b2
    hg.inv hr hstate hsim2 hg2 hwr hfd hout hc hcs ?_ (Nat.le_add_right _ _) ?_ ?_ h
  · intro hop
    have hop' : st.writer = some .opened := by rw [← hwr]; exact hop
    obtain ⟨w, hw⟩ := bw_of_opened Z hZ hn st hg hop'
    exact ⟨w, by show sg.bw = some w; rw [hbwe]; exact hw⟩
  · show (sg.blocks.set k b2)[sg.blocksOffset + k - sg.blocksOffset]? = some b2
    rw [Nat.add_sub_cancel_left]; exact hset
  · intro hne hop b hb
    have hk0 : k ≠ 0 := fun h0 => hne (by show sg.blocksOffset + k = sg.blocksOffset; omega)
    have hb' : (sg.blocks.set k b2)[0]? = some b := hb
    rw [List.getElem?_set_ne hk0] at hb'
    exact hhdg hop b hb'

/-! ### the branches of `Session.pushCore` -/

section pushCore
variable (dec : (k p : Nat) → List Nat → Bool) (rc : Session.RxCfg) (o : Session.ObjCfg) (rx : Session.ORx) (s : Session.Sym)

theorem pc_ignored (hks : o.ks.isEmpty = false) (h1 : s.sbn < rx.written) :
    Session.pushCore dec rc o rx s = { rx := rx, term := .receiving } := by
  unfold Session.pushCore; rw [if_neg (by simp [hks]), if_pos h1]

theorem pc_look (hks : o.ks.isEmpty = false) (h1 : ¬ s.sbn < rx.written) (h2 : s.sbn - rx.written > rc.maxLook) :
    Session.pushCore dec rc o rx s = { rx := rx, term := .error } := by
  unfold Session.pushCore; rw [if_neg (by simp [hks]), if_neg h1, if_pos h2]

theorem pc_done (hks : o.ks.isEmpty = false) (h1 : ¬ s.sbn < rx.written) (h2 : ¬ s.sbn - rx.written > rc.maxLook)
    (h3 : Session.blockDone dec o.ks o.p rx.got s.sbn = true) :
    Session.pushCore dec rc o rx s = { rx := rx, term := .receiving } := by
  unfold Session.pushCore; rw [if_neg (by simp [hks]), if_neg h1, if_neg h2, if_pos h3]

theorem pc_limit (hks : o.ks.isEmpty = false) (h1 : ¬ s.sbn < rx.written) (h2 : ¬ s.sbn - rx.written > rc.maxLook)
    (h3 : Session.blockDone dec o.ks o.p rx.got s.sbn = false)
    (hf : rx.got.any (fun x => x.1 == s.sbn) = false) (hl : 2 ≤ (Session.distinctSbns rx.got).length)
    (hm : rc.maxSize < Session.allocBytes o.blen rx.got + o.blen.getD s.sbn 0) :
    Session.pushCore dec rc o rx s = { rx := rx, term := .error } := by
  unfold Session.pushCore
  rw [if_neg (by simp [hks]), if_neg h1, if_neg h2, if_neg (by simp [h3])]
  dsimp only
  rw [if_pos]
  rw [hf]
  simp only [Bool.not_false, Bool.true_and, Bool.and_eq_true, decide_eq_true_eq]
  exact ⟨hl, hm⟩

theorem pc_store (hks : o.ks.isEmpty = false) (h1 : ¬ s.sbn < rx.written) (h2 : ¬ s.sbn - rx.written > rc.maxLook)
    (h3 : Session.blockDone dec o.ks o.p rx.got s.sbn = false)
    (hlim : ¬ (rx.got.any (fun x => x.1 == s.sbn) = false ∧ 2 ≤ (Session.distinctSbns rx.got).length ∧
      rc.maxSize < Session.allocBytes o.blen rx.got + o.blen.getD s.sbn 0))
    (k : Nat) (hk : o.ks[s.sbn]? = some k)
    (hst : (decide (s.esi < Session.shardsOf o.scheme k o.p) || o.scheme == .raptorq) = true) :
    Session.pushCore dec rc o rx s = Session.settle dec o
      { rx with got := if !(rx.got.contains (s.sbn, s.esi)) then (s.sbn, s.esi) :: rx.got else rx.got } := by
  unfold Session.pushCore
  rw [if_neg (by simp [hks]), if_neg h1, if_neg h2, if_neg (by simp [h3])]
  dsimp only
  rw [if_neg, hk]
  · simp only [hst, Bool.true_and]
  · intro hcond
    simp only [Bool.and_eq_true, decide_eq_true_eq, Bool.not_eq_true'] at hcond
    exact hlim ⟨hcond.1.1, hcond.1.2, hcond.2⟩

end pushCore

/-! ### the block path: `push_to_block2`  ~  `Session.pushCore` -/

theorem grow_frame (st : St) (k : Nat) :
    (growBlocks st k).state = st.state ∧ (growBlocks st k).writer = st.writer ∧ (growBlocks st k).fdtId = st.fdtId ∧
    (growBlocks st k).out = st.out ∧ (growBlocks st k).cache = st.cache ∧ (growBlocks st k).cacheSize = st.cacheSize ∧
    (growBlocks st k).bw = st.bw ∧ (growBlocks st k).blocksOffset = st.blocksOffset ∧ (growBlocks st k).nbAlloc = st.nbAlloc ∧
    (growBlocks st k).totalAlloc = st.totalAlloc ∧ (growBlocks st k).maxSize = st.maxSize := by
  rcases grow_cases st k with e | ⟨_, e⟩ <;> rw [e] <;> exact ⟨rfl, rfl, rfl, rfl, rfl, rfl, rfl, rfl, rfl, rfl, rfl⟩

/-- `fresh` of `pushCore` is `!block.initialized` -/
theorem any_eq_ini (Z : Setting) (sg : St) (rx : Session.ORx) (hsim : SimB Z sg rx) (sbn k : Nat) (hsk : sbn = sg.blocksOffset + k)
    (blk : Block) (hblk : sg.blocks[k]? = some blk) : rx.got.any (fun x => x.1 == sbn) = blk.initialized := by
  rw [(hsim.f.blk k blk hblk).ini]
  apply Bool.eq_iff_iff.mpr
  simp only [List.any_eq_true, beq_iff_eq]
  constructor
  · rintro ⟨⟨b, e⟩, hm, hb⟩
    have hb' : b = sbn := hb
    subst hb'
    obtain ⟨_, blk2, h2, h3⟩ := (live_iff_got Z sg rx hsim b).mp ⟨e, hm⟩
    rw [hsk, Nat.add_sub_cancel_left, hblk] at h2
    cases h2; exact h3
  · intro hd
    obtain ⟨e, he⟩ := (live_iff_got Z sg rx hsim sbn).mpr ⟨by omega, blk, by rw [hsk, Nat.add_sub_cancel_left]; exact hblk, hd⟩
    exact ⟨(sbn, e), he, rfl⟩

/-- THE BLOCK PATH, under the codec contract `CodecDec`: `Link.BlockStep` DISCHARGED -/
theorem blockStep_of_contract (Z : Setting) (hZ : Z.OK) (hC : CodecDec Z) : BlockStep Z := by
  intro st st1 b os rx p s hg hr hrec hobj hsim hhd g hoti hn h
  obtain ⟨pid, hparse, hs⟩ := symOf_some g.sym
  have hTl : Z.S.T.length ≠ 0 := by have := hZ.preLt 0 (by omega); omega
  obtain ⟨_, _, pid', hparse', hgen⟩ := g.gen
  have hpe : pid' = pid := by rw [hparse] at hparse'; cases hparse'; rfl
  subst hpe
  obtain ⟨hsbn, hpay, hsbl⟩ := hgen hTl
  have hstored : StoredEsi Z pid'.sbn pid'.esi := by have := g.stored; rw [hs] at this; exact this
  have hblen := g.blen pid' hparse
  have ho : st.oti = some Z.S.o := by
    cases hg.ginv.oti with
    | inl hn' => rw [hn'] at hoti; cases hoti
    | inr h' => exact h'
  have htl : st.tl = some Z.S.T.length := by
    cases hg.ginv.tl with
    | inl hn' => have := hg.tinv.otitl hoti; rw [hn'] at this; cases this
    | inr h' => exact h'
  have hquad := hsim.quad hoti
  simp only [Prod.mk.injEq] at hquad
  have hpart : Part Z.S st := ⟨hquad.1, hquad.2.1, hquad.2.2.1, hquad.2.2.2⟩
  have hks : Z.oc.ks.isEmpty = false := by
    have : Z.oc.ks.size ≠ 0 := by rw [hZ.nblocks]; exact hn
    simp [Array.isEmpty, this]
  have hwrit := hsim.written
  have hkk : Z.oc.ks[pid'.sbn]? = some (Z.S.K pid'.sbn) := hZ.ks _ hsbn
  have hst2 : (decide (pid'.esi < Session.shardsOf Z.oc.scheme (Z.S.K pid'.sbn) Z.oc.p) || Z.oc.scheme == .raptorq) = true := by
    unfold StoredEsi at hstored; rw [hkk] at hstored; exact hstored
  subst hs
  unfold pushToBlock2 at h
  split at h
  rotate_left
  · rename_i hne; exact absurd htl (hne _ _ ho)
  rename_i o tl ho' htl'
  have eo : o = Z.S.o := by rw [ho] at ho'; simpa using ho'.symm
  have et : tl = Z.S.T.length := by rw [htl] at htl'; simpa using htl'.symm
  subst eo; subst et
  rw [hparse] at h
  dsimp only at h
  rw [if_neg hTl, if_neg (by rw [hpart.2.2.2]; omega)] at h
  by_cases h1 : pid'.sbn < st.blocksOffset
  · -- an already written block: ignored
    rw [if_pos h1] at h
    simp at h; obtain ⟨rfl, rfl⟩ := h
    rw [pc_ignored _ _ _ _ _ hks (by rw [hwrit]; exact h1)]
    simp only [if_true]
    exact stepout_same Z st st os rx hr hrec hsim rfl rfl rfl hhd
  rw [if_neg h1] at h
  have h1' : ¬ pid'.sbn < rx.written := by rw [hwrit]; exact h1
  by_cases h2 : 2 * MAX_PREALLOCATED_BLOCKS < pid'.sbn - st.blocksOffset
  · -- beyond the look-ahead window: Err
    have hlen := hsim.f.len
    rw [if_pos ⟨by omega, h2⟩] at h
    simp at h; obtain ⟨rfl, rfl⟩ := h
    rw [pc_look _ _ _ _ _ hks h1' (by rw [hwrit, hZ.look]; exact h2)]
    exact stepout_err Z st { st with state := .error } os rx hg.inv hr hsim rfl rfl
  rw [if_neg (fun hh => h2 hh.2)] at h
  have h2' : ¬ pid'.sbn - rx.written > Z.rc.maxLook := by rw [hwrit, hZ.look]; exact h2
  -- the deque reaches the block
  have e0 : st.blocksOffset + (pid'.sbn - st.blocksOffset) = pid'.sbn := by omega
  obtain ⟨fst, fwr, ffd, fout, fc, fcs, fbw, foff, fnb, ftot, fmax⟩ := grow_frame st (pid'.sbn - st.blocksOffset)
  have hsimg := simB_grow Z hZ st rx hsim (pid'.sbn - st.blocksOffset) (by omega) (by omega)
  have hhdg := head_grow st (pid'.sbn - st.blocksOffset) hhd
  have hgr := ginv_growBlocks hg.ginv (pid'.sbn - st.blocksOffset) (by omega)
  have hTg := tinv_growBlocks hg.tinv (by rw [ho]; simp) (pid'.sbn - st.blocksOffset)
  have fgr := sameG_growBlocks_fields st (pid'.sbn - st.blocksOffset)
  have hpartg : Part Z.S (growBlocks st (pid'.sbn - st.blocksOffset)) := by
    unfold Part
    rw [fgr.2.2.2.2.1, fgr.2.2.2.2.2.1, fgr.2.2.2.2.2.2.1, fgr.2.2.2.2.2.2.2.1]
    exact hpart
  have hcount : CountOK (growBlocks st (pid'.sbn - st.blocksOffset)) := by
    cases hg.tinv.cnt with
    | inl c => exact hTg.2 c
    | inr d => exact absurd hrec d.2.1
  obtain ⟨hcnt, hbytes⟩ := alloc_counts Z _ rx hTg.1 hcount hsimg
  generalize hsgd : growBlocks st (pid'.sbn - st.blocksOffset) = sg at *
  have e0g : sg.blocksOffset + (pid'.sbn - st.blocksOffset) = pid'.sbn := by rw [foff]; exact e0
  split at h
  · cases h
  rename_i blk hblk
  have hB := hsimg.f.blk _ blk hblk
  rw [e0g] at hB
  have hdone : Session.blockDone Z.dec Z.oc.ks Z.oc.p rx.got pid'.sbn = blk.completed := by
    rw [blockDone_at Z hZ sg rx hsimg pid'.sbn (by omega) hsbn, foff, hblk]
  by_cases h3 : blk.completed = true
  · -- the block is complete already: ignored
    rw [if_pos h3] at h
    simp at h; obtain ⟨rfl, rfl⟩ := h
    rw [pc_done _ _ _ _ _ hks h1' h2' (by rw [hdone]; exact h3)]
    simp only [if_true]
    exact stepout_same Z st sg os rx hr (by rw [fst]; exact hrec) hsimg fout fc fcs hhdg
  rw [if_neg h3] at h
  have h3' : blk.completed = false := by simpa using h3
  have hdone' : Session.blockDone Z.dec Z.oc.ks Z.oc.p rx.got pid'.sbn = false := by rw [hdone]; exact h3'
  have hany := any_eq_ini Z sg rx hsimg pid'.sbn _ e0g.symm blk hblk
  have hkl : pid'.sbn - st.blocksOffset < sg.blocks.length := (List.getElem?_eq_some_iff.mp hblk).1
  have hbokblk : BOK Z.S pid'.sbn blk := by
    have := hgr.1.blocks _ _ hblk
    rw [e0g] at this; exact this
  split at h
  · cases h
  · -- allocation refused
    rename_i sE heq
    simp at h; obtain ⟨rfl, rfl⟩ := h
    rcases alloc_outcome Z hZ hC sg pid' blk _ hpartg hsbn hsbl hblen _ heq with ⟨_, hr'⟩ | ⟨hini, hlim, hr'⟩ | ⟨_, _, _, _, _, hr'⟩
    · cases hr'
    · have hsE : sE = { sg with state := .error } := by cases hr'; rfl
      subst hsE
      rw [pc_limit _ _ _ _ _ hks h1' h2' hdone' (by rw [hany]; exact hini) (by rw [hcnt]; exact hlim.1)
        (by rw [hbytes, hZ.max, ← hsimg.maxSz]; exact hlim.2)]
      exact stepout_err Z st { sg with state := .error } os rx hg.inv hr hsim fwr fout
    · cases hr'
  · -- the symbol goes to the decoder
    rename_i sa b1 heq
    have hnolim : ¬ ((rx.got.any fun x => x.1 == pid'.sbn) = false ∧ 2 ≤ (Session.distinctSbns rx.got).length ∧
        Z.rc.maxSize < Session.allocBytes Z.oc.blen rx.got + Z.oc.blen.getD pid'.sbn 0) ∧
        ∃ n1 t1, sa = { sg with nbAlloc := n1, totalAlloc := t1 } ∧ (∀ e, e ∈ blkEsis b1 ↔ holds sg pid'.sbn e) ∧
          b1.dec.isSome = true ∧ b1.completed = false ∧ b1.initialized = true ∧ b1.blockSize = Z.oc.blen.getD pid'.sbn 0 ∧
          ReachBlk Z pid'.sbn b1 := by
      rcases alloc_outcome Z hZ hC sg pid' blk _ hpartg hsbn hsbl hblen _ heq with ⟨hini, hr'⟩ | ⟨_, _, hr'⟩ | ⟨hini, hlim, b', hb', he, hr'⟩
      · have h1e : sa = sg := by cases hr'; rfl
        have h2e : b1 = blk := by cases hr'; rfl
        subst h1e; subst h2e
        have hd : b1.dec.isSome = true := by rw [← hB.ini]; exact hini
        refine ⟨(fun hh => by rw [hany, hini] at hh; exact absurd hh.1 (by simp)), sa.nbAlloc, sa.totalAlloc, rfl, ?_, hd, h3', hini, hB.size hd, hB.reach hd⟩
        intro e
        have := mem_blkEsis_iff_holds sa _ b1 hblk e
        rw [e0g] at this; exact this
      · cases hr'
      · have h1e : sa = { sg with nbAlloc := sg.nbAlloc + 1, totalAlloc := sg.totalAlloc + Z.oc.blen.getD pid'.sbn 0 } := by
          cases hr'; rfl
        have h2e : b1 = b' := by cases hr'; rfl
        subst h2e
        obtain ⟨s1, s2, s3, s4⟩ := init_shape Z.P.codec blk Z.S.o _ _ _ b1 hini hb'
        refine ⟨fun hh => hlim ⟨by rw [← hcnt]; exact hh.2.1, by rw [hsimg.maxSz, ← hZ.max, ← hbytes]; exact hh.2.2⟩,
          _, _, h1e, ?_, s1, by rw [s4]; exact h3', s2, s3, .init blk b1 _ hini h3' hb'⟩
        intro e
        rw [he]
        simp only [List.not_mem_nil, false_iff]
        rintro ⟨_, blk2, d, q1, q2, _⟩
        have : sg.blocks[pid'.sbn - sg.blocksOffset]? = some blk := by rw [foff]; exact hblk
        rw [this] at q1; cases q1
        have := hB.ini
        rw [hini, q2] at this; cases this
    obtain ⟨hnl, n1, t1, hsa, hb1esis, hb1dec, hb1c, hb1ini, hb1size, hb1r⟩ := hnolim
    subst hsa
    rw [pc_store _ _ _ _ _ hks h1' h2' hdone' hnl _ hkk hst2]
    have hb1bok : BOK Z.S pid'.sbn b1 := bok_allocBlock Z.P Z.S hZ.laws _ _ pid' blk hpartg hsbn hsbl hbokblk heq
    split at h
    · cases h
    · rename_i blk' hpush
      exact store_tail Z hZ hC hn st sg st1 b os rx pid'.sbn pid'.esi (pid'.sbn - st.blocksOffset) n1 t1 p.payload b1 blk' hg hr hsimg
        hgr.1 hhdg (by rw [fst]; exact hrec) fwr ffd fout fc fcs fbw e0g.symm hsbn hkl hb1esis hb1bok hb1dec hb1r hb1c hb1ini hb1size
        hstored hpay hpush h

end Flute.Link
