import FluteModel.Lemmas.NoCodeSession
/-
  `GSess.Laws` for the FEC schemes (RS GF(2^8) both variants, RaptorQ, Raptor): the session of an object `T` sent with OTI `o`.
  The decoder output `D sbn` is NOT taken from the decoder: it is any byte string that has the SENDER's block
  `T[first·E ..][.. K·E]` as a prefix and is at most `K·E` long (RS / RaptorQ return the block zero-padded to `K·E`, Raptor the
  exact block) - so the codec contract `CodecOK` ("what is decoded from genuine symbols is `D sbn`") is a statement about the
  sender's bytes, not a tautology.  Source symbols are the `E`-byte slices of `T` (whatever padding the sender applies is part of
  `src`), repair symbols `rep` are whatever the sender's encoder emits.
-/
namespace Flute.ObjRecv
open Flute Flute.FecDec Flute.Lemmas.Partition

/-- the sender's view of an object sent with a FEC scheme -/
def fecSession (T : Bytes) (o : Oti) (sym : Nat → Nat → Bytes) (D : Nat → Bytes) : GSess :=
  let l := T.length
  let ts := divCeil l o.e
  let n := divCeil ts o.b
  let q := ts / n
  let r := ts % n
  let aL := if r = 0 then q else q + 1
  { T := T, o := o, aL := aL, aS := q, nL := r, n := n,
    K := fun sbn => symsOf aL q r sbn, sym := sym, D := D,
    pre := fun sbn => T.take (firstSym aL q r sbn * o.e) }

/-- the sender's block `sbn` (unpadded) -/
def senderBlock (T : Bytes) (o : Oti) (sbn : Nat) : Bytes :=
  let S := fecSession T o (fun _ _ => []) (fun _ => [])
  (T.drop (firstSym S.aL S.aS S.nL sbn * o.e)).take (S.K sbn * o.e)

theorem trimTo_of_prefix (n k : Nat) (X D : Bytes) (hp : X <+: D) (hD : D.length ≤ k)
    (hX : X.length = min k n) : trimTo n D = X := by
  have hXD := hp.length_le
  unfold trimTo
  split
  · rename_i hgt
    -- |D| < n: then |X| = k ≥ |D|, so D = X
    have : X.length = D.length := by omega
    exact (hp.eq_of_length this).symm
  · rename_i hle
    have hn : X.length = n := by omega
    rw [← hn]
    exact (List.prefix_iff_eq_take.mp hp).symm

theorem fecSession_laws (c : Codec) (T : Bytes) (o : Oti) (sym : Nat → Nat → Bytes) (D : Nat → Bytes)
    (he : 0 < o.e) (hb : 0 < o.b) (hb32 : o.b < 2 ^ 32) (hT : T.length < 2 ^ 32) (hT0 : 0 < T.length)
    (hD1 : ∀ sbn, sbn < (fecSession T o sym D).n → senderBlock T o sbn <+: D sbn)
    (hD2 : ∀ sbn, sbn < (fecSession T o sym D).n → (D sbn).length ≤ (fecSession T o sym D).K sbn * o.e)
    (hsrc : (o.scheme = .noCode ∨ o.scheme = .rs28 ∨ o.scheme = .rs28us) → ∀ sbn, sbn < (fecSession T o sym D).n →
        D sbn = genuineConcat (sym sbn) 0 ((fecSession T o sym D).K sbn))
    (hc : ∀ sbn, sbn < (fecSession T o sym D).n →
        CodecOK c o.scheme (sym sbn) ((fecSession T o sym D).K sbn) o.e sbn (D sbn)) :
    (fecSession T o sym D).Laws c := by
  have hl : 0 < T.length := hT0
  have hts : 0 < divCeil T.length o.e := divCeil_pos _ _ he hl
  have ⟨hN, hNT, hNB⟩ := nblocks_bounds (divCeil T.length o.e) o.b hts hb
  have ⟨hq, _, hAL⟩ := quad_shape (divCeil T.length o.e) (divCeil (divCeil T.length o.e) o.b) hN hNT
  have hcov := coverage (divCeil T.length o.e) (divCeil (divCeil T.length o.e) o.b) hN
  have haLB := aLarge_le_B (divCeil T.length o.e) o.b hts hb
  have hr := Nat.mod_lt (divCeil T.length o.e) hN
  have ⟨s1, s2⟩ := divCeil_spec T.length o.e he
  have htsl := divCeil_le_self T.length o.e he
  simp only [fecSession, senderBlock] at hD1 hD2 hsrc hc
  generalize hTs : divCeil T.length o.e = ts at *
  generalize hNn : divCeil ts o.b = n at *
  generalize hqq : ts / n = q at *
  generalize hrr : ts % n = r at *
  generalize haL : (if r = 0 then q else q + 1) = aL at *
  have haL1 : 1 ≤ aL := by rw [← haL]; split <;> omega
  have haLq : q ≤ aL := by rw [← haL]; split <;> omega
  have haLb : aL ≤ o.b := by rw [← hAL]; exact haLB
  have hfN : firstSym aL q r n = ts := by rw [firstSym_N _ _ _ _ (Nat.le_of_lt hr)]; exact hcov
  have hfirst : ∀ sbn, sbn < n → firstSym aL q r sbn + symsOf aL q r sbn ≤ ts := by
    intro sbn hsbn
    have := firstSym_room aL q r n haL1 hq (n - (sbn + 1)) (by omega)
    rw [show n - (n - (sbn + 1)) = sbn + 1 by omega, firstSym_succ, hfN] at this
    omega
  refine ⟨?_, ?_, ?_, ?_, ?_, ?_, ?_⟩
  · have := bp_shape o.b T.length o.e hb he hl (by omega)
    simp only [fecSession, hTs, hNn, hqq, hrr, haL] at this ⊢
    exact this
  · intro sbn hsbn
    simp only [fecSession, hTs, hNn, hqq, hrr, haL] at hsbn ⊢
    have h1 : r % U32 = r := Nat.mod_eq_of_lt (by unfold U32; omega)
    have h2 : aL % U32 = aL := Nat.mod_eq_of_lt (by unfold U32; omega)
    have h3 : q % U32 = q := Nat.mod_eq_of_lt (by unfold U32; omega)
    rw [h1, h2, h3]; rfl
  · intro hs sbn hsbn
    simp only [fecSession, hTs, hNn, hqq, hrr, haL] at hsbn ⊢
    exact hsrc hs sbn hsbn
  · intro sbn hsbn
    simp only [fecSession, hTs, hNn, hqq, hrr, haL] at hsbn ⊢
    exact hc sbn hsbn
  · simp [fecSession, firstSym_zero]
  · intro sbn hsbn
    simp only [fecSession, hTs, hNn, hqq, hrr, haL] at hsbn ⊢
    have hk := symsOf_pos aL q r sbn haL1 hq
    have hf := hfirst sbn hsbn
    rw [firstSym_succ]
    have hstart : firstSym aL q r sbn * o.e < T.length := sym_lt s2 (by omega)
    have htake : (T.take (firstSym aL q r sbn * o.e)).length = firstSym aL q r sbn * o.e := by
      rw [List.length_take]; omega
    rw [htake]
    have hX : ((T.drop (firstSym aL q r sbn * o.e)).take (symsOf aL q r sbn * o.e)).length =
        min (symsOf aL q r sbn * o.e) (T.length - firstSym aL q r sbn * o.e) := by
      rw [List.length_take, List.length_drop]
    rw [trimTo_of_prefix _ (symsOf aL q r sbn * o.e) _ (D sbn) (hD1 sbn hsbn) (hD2 sbn hsbn) hX,
      Nat.add_mul, List.take_add]
  · simp only [fecSession, hTs, hNn, hqq, hrr, haL]
    rw [hfN]
    exact List.take_of_length_le s1

/-! ### the Reed-Solomon instance: source symbols are the `E`-byte slices of `T`, zero-padded to `E` -/

def pad (e : Nat) (s : Bytes) : Bytes := s ++ List.replicate (e - s.length) 0

theorem pad_length (e : Nat) (s : Bytes) (h : s.length ≤ e) : (pad e s).length = e := by
  simp [pad]; omega

theorem zeros_add (a b : Nat) : List.replicate a (0 : Nat) ++ List.replicate b 0 = List.replicate (a + b) 0 := by
  induction a with
  | zero => simp
  | succ k ih => rw [Nat.succ_add, List.replicate_succ, List.replicate_succ, List.cons_append, ih]

theorem genuineConcat_congr (G G' : Nat → Bytes) (i n : Nat) (h : ∀ j, i ≤ j → j < i + n → G j = G' j) :
    genuineConcat G i n = genuineConcat G' i n := by
  induction n generalizing i with
  | zero => rfl
  | succ m ih =>
    simp only [genuineConcat]
    rw [h i (Nat.le_refl _) (by omega), ih (i + 1) (fun j h1 h2 => h j (by omega) (by omega))]

theorem padded_concat (T : Bytes) (e F : Nat) (n i : Nat) :
    ∃ z, genuineConcat (fun esi => pad e ((T.drop ((F + esi) * e)).take e)) i n =
          (T.drop ((F + i) * e)).take (n * e) ++ List.replicate z 0 ∧
        (genuineConcat (fun esi => pad e ((T.drop ((F + esi) * e)).take e)) i n).length = n * e := by
  induction n generalizing i with
  | zero => exact ⟨0, by simp [genuineConcat], by simp [genuineConcat]⟩
  | succ m ih =>
    obtain ⟨z', h1, h2⟩ := ih (i + 1)
    simp only [genuineConcat]
    have e2 : (F + (i + 1)) * e = (F + i) * e + e := by rw [← Nat.add_assoc, Nat.add_mul]; omega
    have e1 : (m + 1) * e = e + m * e := by rw [Nat.add_mul]; omega
    have hle : ((T.drop ((F + i) * e)).take e).length ≤ e := List.length_take_le _ _
    have hpl := pad_length e _ hle
    by_cases hfull : ((T.drop ((F + i) * e)).take e).length = e
    · refine ⟨z', ?_, ?_⟩
      · rw [h1, e1, List.take_add, List.drop_drop, e2]
        simp [pad, hfull, List.append_assoc]
      · rw [List.length_append, h2, hpl]; omega
    · -- the object ends inside this symbol: everything after it is padding
      have hshort : (T.drop ((F + i) * e)).length < e := by
        rw [List.length_take] at hfull hle; omega
      have hnil : T.drop ((F + (i + 1)) * e) = [] := by
        apply List.drop_eq_nil_of_le
        rw [List.length_drop] at hshort; rw [e2]; omega
      have htk : (T.drop ((F + i) * e)).take ((m + 1) * e) = T.drop ((F + i) * e) :=
        List.take_of_length_le (by rw [e1]; omega)
      have htk2 : (T.drop ((F + i) * e)).take e = T.drop ((F + i) * e) := List.take_of_length_le (by omega)
      rw [hnil] at h1
      simp at h1
      refine ⟨e - (T.drop ((F + i) * e)).length + z', ?_, ?_⟩
      · rw [h1, htk, htk2, pad, List.append_assoc, zeros_add]
      · rw [List.length_append, h2, hpl]; omega

/-- number of source symbols / first symbol of block `sbn` (RFC 5052 partition of `T`) -/
def sessK (T : Bytes) (o : Oti) (sbn : Nat) : Nat := (fecSession T o (fun _ _ => []) (fun _ => [])).K sbn
def sessF (T : Bytes) (o : Oti) (sbn : Nat) : Nat :=
  firstSym (fecSession T o (fun _ _ => []) (fun _ => [])).aL (fecSession T o (fun _ _ => []) (fun _ => [])).aS
    (fecSession T o (fun _ _ => []) (fun _ => [])).nL sbn

/-- Reed-Solomon: symbol (sbn, esi) = padded slice for esi < K, the encoder's repair symbol `rep sbn esi` beyond -/
def rsSym (T : Bytes) (o : Oti) (rep : Nat → Nat → Bytes) (sbn esi : Nat) : Bytes :=
  if esi < sessK T o sbn then pad o.e ((T.drop ((sessF T o sbn + esi) * o.e)).take o.e) else rep sbn esi

/-- `D sbn` = the K padded source symbols = the sender's block zero-padded to `K·E` -/
def rsSession (T : Bytes) (o : Oti) (rep : Nat → Nat → Bytes) : GSess :=
  fecSession T o (rsSym T o rep) (fun sbn => genuineConcat (rsSym T o rep sbn) 0 (sessK T o sbn))

theorem rsConcat (T : Bytes) (o : Oti) (rep : Nat → Nat → Bytes) (sbn : Nat) :
    genuineConcat (rsSym T o rep sbn) 0 (sessK T o sbn) =
      genuineConcat (fun esi => pad o.e ((T.drop ((sessF T o sbn + esi) * o.e)).take o.e)) 0 (sessK T o sbn) :=
  genuineConcat_congr _ _ 0 _ (fun j _ h2 => by simp only [rsSym]; rw [if_pos (by omega)])

/-- the RS session satisfies the laws as soon as the codec honours the RS contract (`CodecOK.rs`: reconstructing from genuine
    shards yields genuine shards) - the only hypothesis about the external crate -/
theorem rsSession_laws (c : Codec) (T : Bytes) (o : Oti) (rep : Nat → Nat → Bytes)
    (hs : o.scheme = .rs28 ∨ o.scheme = .rs28us)
    (he : 0 < o.e) (hb : 0 < o.b) (hb32 : o.b < 2 ^ 32) (hT : T.length < 2 ^ 32) (hT0 : 0 < T.length)
    (hrs : ∀ sbn, sbn < (rsSession T o rep).n → ∀ p shards shards',
        SlotsOK (rsSym T o rep sbn) 0 shards →
        c.rsReconstruct (sessK T o sbn) p shards = some shards' →
        SlotsOK (rsSym T o rep sbn) 0 shards') :
    (rsSession T o rep).Laws c := by
  unfold rsSession at hrs ⊢
  apply fecSession_laws c T o _ _ he hb hb32 hT hT0
  · intro sbn _
    show (T.drop (sessF T o sbn * o.e)).take (sessK T o sbn * o.e) <+: _
    rw [rsConcat]
    obtain ⟨z, h1, _⟩ := padded_concat T o.e (sessF T o sbn) (sessK T o sbn) 0
    rw [h1]; simp only [Nat.add_zero]
    exact List.prefix_append _ _
  · intro sbn _
    show (genuineConcat (rsSym T o rep sbn) 0 (sessK T o sbn)).length ≤ sessK T o sbn * o.e
    rw [rsConcat]
    obtain ⟨z, _, h2⟩ := padded_concat T o.e (sessF T o sbn) (sessK T o sbn) 0
    rw [h2]; exact Nat.le_refl _
  · intro _ sbn _; rfl
  · intro sbn hsbn
    refine ⟨fun _ => hrs sbn hsbn, fun h => ?_, fun h => ?_⟩
    · cases hs with
      | inl x => rw [x] at h; contradiction
      | inr x => rw [x] at h; contradiction
    · cases hs with
      | inl x => rw [x] at h; contradiction
      | inr x => rw [x] at h; contradiction

end Flute.ObjRecv
