import FluteModel.Lemmas.SchedWaitLift
/-
  FIFO over whole histories: among the waiting objects that have never completed a transfer, the waiting queue is
  in order of addition (= TOI order: the n-th `add_object` of a history carries TOI n).
-/
namespace Flute.Sched

/-- waiting object that has not finished any transfer yet -/
def fresh (s : State) (t : Nat) : Bool :=
  match getF s.objs t with
  | some f => f.info.total == 0
  | none => false

def SortedQ : State → Held → Prop := fun s _ =>
  s.queue.Pairwise (fun a b => fresh s a = true → fresh s b = true → a < b)

theorem SortedQ.mono {s s' : State} {L L' : Held} (h : SortedQ s L) (hsub : s'.queue.Sublist s.queue)
    (hf : ∀ k, fresh s' k = true → fresh s k = true) : SortedQ s' L' := by
  unfold SortedQ at *
  exact (h.sublist hsub).imp (fun hr ha hb => hr (hf _ ha) (hf _ hb))

theorem fresh_same {s s' : State} (ho : s'.objs = s.objs) (k : Nat) : fresh s' k = fresh s k := by
  unfold fresh; rw [ho]

theorem fresh_updF {s s' : State} (k0 : Nat) (g : FileDesc → FileDesc) (hg : ∀ f, (g f).key = f.key)
    (ht : ∀ f, (g f).info.total = f.info.total ∨ (g f).info.total ≠ 0)
    (ho : s'.objs = updF s.objs k0 g) (k : Nat) : fresh s' k = true → fresh s k = true := by
  unfold fresh
  rw [ho, getF_updF s.objs k0 k g hg]
  by_cases hk : k = k0
  · rw [if_pos hk]
    cases hgk : getF s.objs k with
    | none => simp
    | some f =>
      simp only [Option.map_some]
      rcases ht f with e | e
      · rw [e]; exact id
      · intro h; simp at h; exact absurd h e
  · rw [if_neg hk]; exact id

theorem fresh_publish (s : State) (now k : Nat) : fresh (publish s now) k = fresh s k := by
  unfold fresh
  rw [publish_getF_objs]
  cases getF s.objs k with
  | none => rfl
  | some f => simp only [Option.map_some, pubMark_info]

theorem SortedQ.publish {s : State} {L : Held} (h : SortedQ s L) (now : Nat) : SortedQ (publish s now) L :=
  h.mono (List.Sublist.refl _) (fun k hk => by rw [fresh_publish] at hk; exact hk)

theorem SortedQ.same {s s' : State} {L L' : Held} (h : SortedQ s L) (ho : s'.objs = s.objs) (hq : s'.queue = s.queue) :
    SortedQ s' L' :=
  h.mono (by rw [hq]; exact List.Sublist.refl _) (fun k hk => by rw [fresh_same ho] at hk; exact hk)

theorem SortedQ.append_new {s s' : State} {L L' : Held} (hw : Wf s L) (h : SortedQ s L) (fd : FileDesc)
    (ho : s'.objs = s.objs ++ [fd]) (hq : s'.queue = s.queue ++ [s.nextToi]) : SortedQ s' L' := by
  have hfr : ∀ k, k ∈ s.queue → fresh s' k = true → fresh s k = true := by
    intro k hk
    obtain ⟨f, hf, _⟩ := hw.queueObj k hk
    unfold fresh
    rw [ho, getF_append_some hf, hf]
    exact id
  unfold SortedQ
  rw [hq, List.pairwise_append]
  refine ⟨?_, by simp, ?_⟩
  · exact (List.Pairwise.and_mem.mp h).imp (fun ⟨ha, hb, hr⟩ fa fb => hr (hfr _ ha fa) (hfr _ hb fb))
  · intro x hx b hb _ _
    simp only [List.mem_singleton] at hb; subst hb
    exact hw.filesKeys x (hw.queueFiles x hx)

theorem SortedQ.closed : Closed Wf SortedQ where
  perm := fun _ _ _ _ h => h
  leaveFiles := fun _ _ _ h => h
  enterFiles := fun _ _ _ _ h _ _ => h
  emitRead := fun _ _ _ _ h _ => h
  emitIdle := fun _ _ _ _ h _ => h
  publish := fun _ _ now _ h _ => h.publish now
  fdtAdvance := fun s L now _ h _ _ => by
    rcases fdtAdvance_cases s now with ⟨e, _⟩ | ⟨k, f, _, _, _, e⟩
    · rw [e]; exact h.same (fdtPop_objs s) (fdtPop_queue s)
    · rw [e]; exact h.same (fdtPop_objs s) (fdtPop_queue s)
  fileStart := fun s L _ now tk t _ h _ _ => by
    have h1 : SortedQ (fileStartStep s t now tk) L :=
      h.mono List.erase_sublist (fresh_updF t (fun f => transferInit f now tk) (fun _ => rfl) (fun _ => Or.inl rfl) rfl)
    unfold autoPublish; split
    · exact publishTry_elim (P := fun x => SortedQ x L) _ now (h1.publish now) h1
    · exact h1
  pkt := fun s L _ c _ _ _ _ _ _ h _ _ _ _ _ =>
    h.mono (List.Sublist.refl _) (fresh_updF c.key tickInfo (fun _ => rfl) (fun _ => Or.inl (tickInfo_fields _).2.1) rfl)
  done := fun s L prio c now _ _ hw h _ _ _ => by
    have hfr : ∀ k, fresh (transferDoneFile s c.key now) k = true → fresh s k = true :=
      fresh_updF c.key (fun f => transferDoneInfo f now) (fun _ => rfl)
        (fun f => Or.inr (by show f.info.total + 1 ≠ 0; omega)) (transferDoneFile_objs s c.key now)
    rcases transferDoneFile_queue_cases s c.key now with e | e
    · exact h.mono (by rw [e]; exact List.Sublist.refl _) hfr
    · unfold SortedQ
      rw [e, List.pairwise_append]
      refine ⟨(h.imp (fun hr ha hb => hr (hfr _ ha) (hfr _ hb))), by simp, ?_⟩
      intro a _ b hb _ hfb
      simp only [List.mem_singleton] at hb; subst hb
      exfalso
      -- the finished object is not fresh any more
      unfold fresh at hfb
      rw [transferDoneFile_objs, getF_updF s.objs c.key c.key (fun f => transferDoneInfo f now) (fun _ => rfl), if_pos rfl] at hfb
      cases hg : getF s.objs c.key with
      | none => rw [hg] at hfb; simp at hfb
      | some f =>
        rw [hg] at hfb
        simp only [Option.map_some] at hfb
        have : (transferDoneInfo f now).info.total = f.info.total + 1 := rfl
        rw [this] at hfb
        simp at hfb
  fdtPkt := fun _ _ _ _ _ _ _ _ _ h _ _ _ _ _ => h
  fdtDone := fun s L c _ now _ _ h _ _ _ _ _ =>
    h.same (by unfold fdtRelease; exact transferDoneFdt_objs s c.key now)
      (by unfold fdtRelease; exact transferDoneFdt_queue s c.key now)

theorem SortedQ.closedOps : ClosedOps Wf SortedQ where
  add := fun s L a hw h => by
    unfold addObject; simp only []
    split
    · exact h
    · split
      · exact h
      · exact SortedQ.append_new hw h _ rfl rfl
  remove := fun s L t _ h => by
    unfold removeObject; split
    · exact h
    · exact h.mono List.filter_sublist (fun _ hk => hk)
  trigger := fun s L t ts _ h => by
    unfold triggerTransferAt; split
    · exact h
    · split
      · exact h
      · exact h.mono (List.Sublist.refl _)
          (fresh_updF t (fun f => resetLastTransfer f ts) (fun _ => rfl) (fun _ => Or.inl rfl) rfl)
  publishOp := fun s L now _ h =>
    publishTry_elim (P := fun x => SortedQ x L) (emit s (.opPublish now)) now
      (SortedQ.publish (s := emit s (.opPublish now)) h now) h
  complete := fun _ _ _ h => h

theorem sortedq_run (cfg : Cfg) (tbl : List Nat) (ops : List Op) :
    (run (init cfg tbl) ops).queue.Pairwise
      (fun a b => fresh (run (init cfg tbl) ops) a = true → fresh (run (init cfg tbl) ops) b = true → a < b) :=
  (inv_run (Closed.and Wf.closed SortedQ.closed) (ClosedOps.and Wf.closedOps SortedQ.closedOps) cfg tbl
    ⟨Wf.init cfg tbl, by unfold SortedQ; simp [init]⟩ ops).2

end Flute.Sched
