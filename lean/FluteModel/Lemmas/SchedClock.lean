import FluteModel.Lemmas.SchedMeasureFdt
/-
  Non-decreasing caller clock: every entry a `read(N)` / `publish(N)` appends to the trace carries the instant `N`
  (`read_ext`), so for a history whose instants never decrease the timed entries of the trace are sorted.
  Consequence for C14: a packet is never earlier than the Start of its transfer, hence never earlier than the
  transfer start time in effect.
-/
namespace Flute.Sched
open Flute.Spec.Timing Flute.Spec.Lifecycle

def timeOf : Ev → Option Nat
  | .opRead n => some n
  | .opPublish n => some n
  | .pub n _ _ => some n
  | .start n _ _ _ => some n
  | .stop n _ => some n
  | .fdtStart n _ => some n
  | .fdtStop n _ => some n
  | .pkt n _ _ _ _ => some n
  | .fdt n _ _ _ => some n
  | .idle n => some n
  | _ => none

/-- the instants supplied by the caller never decrease (`t` = the latest one so far) -/
def MonoFrom : Nat → List Op → Prop
  | _, [] => True
  | t, .read n _ :: rest => t ≤ n ∧ MonoFrom n rest
  | t, .publish n :: rest => t ≤ n ∧ MonoFrom n rest
  | t, _ :: rest => MonoFrom t rest

def AllLe (t : Nat) (l : List Ev) : Prop := ∀ e ∈ l, ∀ τ, timeOf e = some τ → τ ≤ t

def SortedLog : List Ev → Prop
  | [] => True
  | e :: l => SortedLog l ∧ ∀ τ, timeOf e = some τ → AllLe τ l

theorem okEv_time {N : Nat} {e : Ev} (h : okEv N e = true) : timeOf e = some N := by
  cases e <;> simp [okEv] at h <;> simp [timeOf, h]

/-- a chunk of entries that all carry the instant `N` (or none) on top of a sorted log bounded by `t ≤ N` -/
theorem sorted_chunk {N t : Nat} (ht : t ≤ N) : ∀ (new l : List Ev), (∀ e ∈ new, ∀ τ, timeOf e = some τ → τ = N) →
    SortedLog l → AllLe t l → SortedLog (new ++ l) ∧ AllLe N (new ++ l) := by
  intro new
  induction new with
  | nil =>
    intro l _ hs hl
    exact ⟨hs, fun e he τ hτ => Nat.le_trans (hl e he τ hτ) ht⟩
  | cons a r ih =>
    intro l hn hs hl
    obtain ⟨h1, h2⟩ := ih l (fun e he => hn e (List.mem_cons_of_mem _ he)) hs hl
    refine ⟨⟨h1, ?_⟩, ?_⟩
    · intro τ hτ
      have : τ = N := hn a List.mem_cons_self τ hτ
      rw [this]; exact h2
    · intro e he τ hτ
      rcases List.mem_cons.mp he with rfl | he
      · exact Nat.le_of_eq (hn e List.mem_cons_self τ hτ)
      · exact h2 e he τ hτ

theorem step_sorted (s : State) (op : Op) (t : Nat) (hs : SortedLog s.log) (hl : AllLe t s.log) :
    match op with
    | .read n _ => t ≤ n → SortedLog (step s op).log ∧ AllLe n (step s op).log
    | .publish n => t ≤ n → SortedLog (step s op).log ∧ AllLe n (step s op).log
    | _ => SortedLog (step s op).log ∧ AllLe t (step s op).log := by
  have untimed : ∀ (s' : State) (e : Ev), timeOf e = none → s'.log = e :: s.log → SortedLog s'.log ∧ AllLe t s'.log := by
    intro s' e he hlog
    rw [hlog]
    refine ⟨⟨hs, fun τ hτ => by rw [he] at hτ; cases hτ⟩, ?_⟩
    intro x hx τ hτ
    rcases List.mem_cons.mp hx with rfl | hx
    · rw [he] at hτ; cases hτ
    · exact hl x hx τ hτ
  cases op with
  | read n tk =>
    intro htn
    obtain ⟨new, e, ok⟩ := read_ext n s tk
    show SortedLog (read s n tk).1.log ∧ AllLe n (read s n tk).1.log
    rw [e]
    exact sorted_chunk htn new s.log (fun x hx τ hτ => by
      have := okEv_time (ok x hx); rw [this] at hτ; exact (Option.some.inj hτ).symm) hs hl
  | publish n =>
    intro htn
    show SortedLog (publishOp s n).log ∧ AllLe n (publishOp s n).log
    unfold publishOp
    rcases publishTry_cases (emit s (.opPublish n)) n with e | e
    · rw [e, publish_log]
      exact sorted_chunk htn [Ev.pub n _ _, Ev.opPublish n] s.log (fun x hx τ hτ => by
        simp only [List.mem_cons, List.mem_nil_iff, or_false] at hx
        rcases hx with rfl | rfl <;> simp [timeOf] at hτ <;> exact hτ.symm) hs hl
    · rw [e]
      exact sorted_chunk htn [Ev.opPublish n] s.log (fun x hx τ hτ => by
        simp only [List.mem_singleton] at hx
        subst hx; simp [timeOf] at hτ; exact hτ.symm) hs hl
  | add a =>
    show SortedLog (addObject s a).1.log ∧ AllLe t (addObject s a).1.log
    unfold addObject; simp only []
    split
    · exact untimed _ (Ev.opAdd s.nextToi a false) rfl rfl
    · split
      · exact untimed _ (Ev.opAdd s.nextToi a false) rfl rfl
      · exact untimed _ (Ev.opAdd s.nextToi a true) rfl rfl
  | remove k =>
    show SortedLog (removeObject s k).1.log ∧ AllLe t (removeObject s k).1.log
    unfold removeObject
    split
    · exact untimed _ (Ev.opRemove k false) rfl rfl
    · exact untimed _ (Ev.opRemove k true) rfl rfl
  | trigger k ts =>
    show SortedLog (triggerTransferAt s k ts).1.log ∧ AllLe t (triggerTransferAt s k ts).1.log
    unfold triggerTransferAt
    split
    · exact untimed _ (Ev.opTrigger k ts false) rfl rfl
    · split
      · exact untimed _ (Ev.opTrigger k ts false) rfl rfl
      · exact untimed _ (Ev.opTrigger k ts true) rfl rfl
  | setComplete => exact ⟨hs, hl⟩

theorem run_sorted : ∀ (ops : List Op) (s : State) (t : Nat), SortedLog s.log → AllLe t s.log → MonoFrom t ops →
    SortedLog (run s ops).log := by
  intro ops
  induction ops with
  | nil => intro s t hs _ _; exact hs
  | cons op rest ih =>
    intro s t hs hl hm
    have h := step_sorted s op t hs hl
    cases op with
    | read n tk => obtain ⟨h1, h2⟩ := h hm.1; exact ih _ n h1 h2 hm.2
    | publish n => obtain ⟨h1, h2⟩ := h hm.1; exact ih _ n h1 h2 hm.2
    | add a => exact ih _ t h.1 h.2 hm
    | remove k => exact ih _ t h.1 h.2 hm
    | trigger k ts => exact ih _ t h.1 h.2 hm
    | setComplete => exact ih _ t h.1 h.2 hm

/-- with a non-decreasing clock the timed entries of the trace are sorted -/
theorem trace_sorted (cfg : Cfg) (tbl : List Nat) (ops : List Op) (hm : MonoFrom 0 ops) :
    SortedLog (trace cfg tbl ops) :=
  run_sorted ops (init cfg tbl) 0 trivial (fun e he => by cases he) hm

theorem sorted_at : ∀ (post : List Ev) (e : Ev) (pre : List Ev), SortedLog (post ++ e :: pre) →
    ∀ τ, timeOf e = some τ → AllLe τ pre := by
  intro post
  induction post with
  | nil => intro e pre h; exact h.2
  | cons x r ih => intro e pre h; exact ih e pre h.1

/-! ### the Start of the transfer a packet belongs to -/

/-- if the lifecycle monitor says "in transfer", the timing monitor's `tStart` is the instant of a Start entry of
    the object in the past, and that Start passed its check -/
theorem tStart_is_start (toi : Nat) : ∀ (l : List Ev), TChecked toi l → (LM.run toi l).active = true →
    ∃ st tk, Ev.start (TM.run toi l).tStart toi st tk ∈ l ∧ ∀ x, st = some x → x ≤ (TM.run toi l).tStart := by
  intro l
  induction l with
  | nil => intro _ h; cases h
  | cons e r ih =>
    intro hc ha
    have hc' := hc.1
    have hce := hc.2
    by_cases hstart : ∃ n st tk, e = Ev.start n toi st tk
    · obtain ⟨n, st, tk, rfl⟩ := hstart
      refine ⟨st, tk, ?_, ?_⟩
      · have : (TM.run toi (Ev.start n toi st tk :: r)).tStart = n := by
          show (TM.step toi (TM.run toi r) (Ev.start n toi st tk)).tStart = n
          simp [TM.step]
        rw [this]; exact List.mem_cons_self
      · have hck := hce rfl
        have : (TM.run toi (Ev.start n toi st tk :: r)).tStart = n := by
          show (TM.step toi (TM.run toi r) (Ev.start n toi st tk)).tStart = n
          simp [TM.step]
        rw [this]
        intro x hx
        exact hck.2.1 x (by rw [← hck.1]; exact hx)
    · -- any other event: `active` and `tStart` as before, unless it is a Stop of the object
      have hactive : (LM.run toi r).active = true ∧ (TM.run toi (e :: r)).tStart = (TM.run toi r).tStart := by
        have ha' : (LM.step toi (LM.run toi r) e).active = true := ha
        have ht : (TM.run toi (e :: r)).tStart = (TM.step toi (TM.run toi r) e).tStart := rfl
        rw [ht]
        cases e with
        | start n t st tk =>
          have hne : t ≠ toi := fun h => hstart ⟨n, st, tk, by rw [h]⟩
          simp only [LM.step, TM.step, hne, if_false] at ha' ⊢
          exact ⟨ha', trivial⟩
        | stop n t =>
          by_cases h : t = toi
          · simp [LM.step, h] at ha'
          · simp only [LM.step, TM.step, h, if_false] at ha' ⊢
            exact ⟨ha', trivial⟩
        | pkt n p t i b =>
          by_cases h : t = toi
          · simp only [LM.step, TM.step, h, if_true] at ha' ⊢
            exact ⟨ha', trivial⟩
          · simp only [LM.step, TM.step, h, if_false] at ha' ⊢
            exact ⟨ha', trivial⟩
        | opAdd t a ok =>
          by_cases h : t = toi ∧ ok = true
          · simp only [LM.step, TM.step, h, and_self, if_true] at ha' ⊢
            exact ⟨ha', trivial⟩
          · simp only [LM.step, TM.step, h, if_false] at ha' ⊢
            exact ⟨ha', trivial⟩
        | opRemove t ok =>
          by_cases h : t = toi ∧ ok = true
          · simp only [LM.step, TM.step, h, and_self, if_true] at ha' ⊢
            exact ⟨ha', trivial⟩
          · simp only [LM.step, TM.step, h, if_false] at ha' ⊢
            exact ⟨ha', trivial⟩
        | opTrigger t ts ap =>
          by_cases h : t = toi ∧ ap = true
          · simp only [LM.step, TM.step, h, and_self, if_true] at ha' ⊢
            exact ⟨ha', trivial⟩
          · simp only [LM.step, TM.step, h, if_false] at ha' ⊢
            exact ⟨ha', trivial⟩
        | _ => exact ⟨ha', rfl⟩
      obtain ⟨st, tk, hm, hle⟩ := ih hc' hactive.1
      rw [hactive.2]
      exact ⟨st, tk, List.mem_cons_of_mem _ hm, hle⟩

end Flute.Sched
