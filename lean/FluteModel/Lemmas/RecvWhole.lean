import FluteModel.RecvWhole
import FluteModel.Props.C04
import FluteModel.Lemmas.RecvAllObj
import FluteModel.Lemmas.RecvFdtObj
/-
  Helper lemmas of the whole-call theorem (Props/C04Whole.lean): the interface functions preserve the object predicate, the
  invariant `WInv` of byte-level histories.
-/
namespace Flute.Recv.Whole
open Flute Flute.Recv Flute.Recv.AllObj Flute.Props.C04

variable {P : ObjRecv.Params}

/-! ### the interface functions preserve `ObjOK` -/

theorem new_ok (X : Interfaces P) (toi m : Nat) (hm : m < 2 ^ 63) : ObjOK X ((Full.iface P).new toi m) := by
  exact ⟨rfl, X.inv_new toi m hm⟩

theorem push_ok (X : Interfaces P) (p : Pkt) (hp : X.PktOK (Full.toPkt p)) (o : (Full.Any P)) (ho : ObjOK X o) :
    ObjOK X ((Full.iface P).push o p).1 := by
  cases o with
  | inl m => trivial
  | inr f =>
    obtain ⟨hf, hinv⟩ := ho
    simp only [Full.iface, ObjOK]
    unfold Full.push
    split
    · -- TOI 0: `attachFdt` with the packet's own entry, then `push`
      obtain ⟨st1, b, h1, hinv1⟩ := X.attach_total f.st (p.fdtId.getD 0) (Full.fdtEntry0 (Full.toPkt p)) hinv
        (fun e he => X.entry0_ok _ hp e he)
      obtain ⟨st', h2, hinv'⟩ := X.push_total st1 (Full.toPkt p) hinv1 hp
      unfold Full.push0
      rw [if_neg (by rw [hf]; simp)]
      split
      · rename_i w hw; rw [h1] at hw; cases hw
      · rename_i s1 b' hw
        rw [h1] at hw; injection hw with hw; injection hw with hw1 _; subst hw1
        split
        · rename_i w hw'; rw [h2] at hw'; cases hw'
        · rename_i s2 hw'
          rw [h2] at hw'; injection hw' with hw'; subst hw'
          exact ⟨hf, hinv'⟩
    · obtain ⟨st', hst', hinv'⟩ := X.push_total f.st (Full.toPkt p) hinv hp
      unfold Full.pushN
      rw [if_neg (by rw [hf]; simp)]
      split
      · rename_i w hw; rw [hst'] at hw; cases hw
      · rename_i st2 hst2
        rw [hst'] at hst2
        injection hst2 with hst2
        subst hst2
        exact ⟨hf, hinv'⟩

theorem attach_ok (X : Interfaces P) (o : (Full.Any P)) (id : Nat) (fdt : FdtAbs) (hq : FdtQ X fdt) (ho : ObjOK X o) :
    ObjOK X ((Full.iface P).attachFdt o id fdt).1 := by
  cases o with
  | inl m => trivial
  | inr f =>
    obtain ⟨hf, hinv⟩ := ho
    simp only [Full.iface, ObjOK]
    unfold Full.attachFdt
    rw [if_neg (by rw [hf]; simp)]
    simp only []
    obtain ⟨st', b, hst', hinv'⟩ := X.attach_total f.st id
      ((fdt.getFile f.st.toi).map (fun x => Full.entryOf x (x.cacheControl fdt.expirationDate))) hinv (by
        intro e he
        cases hg : fdt.getFile f.st.toi with
        | none => simp [hg] at he
        | some x =>
          simp only [hg, Option.map_some, Option.some.injEq] at he
          rw [← he]; exact hq f.st.toi x hg _)
    split
    · rename_i w hw; rw [hst'] at hw; cases hw
    · rename_i st2 ok2 hst2
      rw [hst'] at hst2
      injection hst2 with hst2
      injection hst2 with h1 _
      subst h1
      exact ⟨hf, hinv'⟩

/-- a datagram the parser accepted yields, at the object level, a packet meeting `PktOK` -/
theorem abs_pkt_ok (X : Interfaces P) (tsi : Nat) (d : List UInt8) (now : Int) (ans : FdtAns) (p : Pkt) (now' : Int)
    (ans' : FdtAns) (h : (BOp.data d now ans).abs tsi = .data (.pkt p) now' ans') : X.PktOK (Full.toPkt p) := by
  simp only [BOp.abs, Op.data.injEq] at h
  obtain ⟨h1, _, _⟩ := h
  unfold classify at h1
  cases hp : Alc.parseAlcPkt (d.map UInt8.toNat) with
  | panic w => simp [hp] at h1
  | err => simp [hp] at h1
  | ok q =>
    simp only [hp] at h1
    by_cases ht : q.lct.tsi ≠ tsi
    · rw [if_pos ht] at h1; cases h1
    · rw [if_neg ht] at h1
      simp only [Parsed.pkt.injEq] at h1
      rw [← h1]
      exact X.parsed_pkt_ok d q hp

/-- the invariant of the whole-call theorem -/
structure WInv (X : Interfaces P) (cfg : Config) (s : State (Full.Any P)) : Prop where
  good : AllFdt Good s
  objs : ObjsAll (ObjOK X) s
  inst : AllFdt (InstQ (FdtQ X)) s
  /-- the FDT object (TOI 0) inside every FDT-instance receiver is healthy too -/
  fobjs : AllFdt (FObj (ObjOK X)) s
  cfg : s.cfg = cfg

theorem winv_step (X : Interfaces P) (cfg : Config) (hc : cfg.maxCache < 2 ^ 63) (tsi : Nat) (s s' : State (Full.Any P))
    (b : BOp) (r : Res) (evs : List Ev) (hn : TimeSane (b.abs tsi).now) (hb : BOpAns X b)
    (h : step (Full.iface P) s (b.abs tsi) = .ok (s', r, evs)) (hs : WInv X cfg s) : WInv X cfg s' := by
  have hansq : ∀ d now ans, b.abs tsi = .data d now ans → ∀ fdt u, ans = .ok fdt u → FdtQ X fdt := by
    intro d now ans hop
    cases b with
    | cleanup now' stale => simp [BOp.abs] at hop
    | data d' now' ans' =>
      simp only [BOp.abs, Op.data.injEq] at hop
      rw [← hop.2.2]; exact hb
  refine ⟨step_good (Full.iface P) (Full.completeSound P) s s' _ r evs (bop_abs_ok tsi b hn) h hs.good, ?_, ?_, ?_,
    by rw [step_cfg (Full.iface P) s s' _ r evs h]; exact hs.cfg⟩
  · refine step_objsAll (Full.iface P) (ObjOK X) (FdtQ X) (fun o id f hq ho => attach_ok X o id f hq ho) s s' _ r evs
      (fun toi => new_ok X toi _ (by rw [hs.cfg]; exact hc)) ?_ hs.inst hansq h hs.objs
    intro p now ans hop o ho
    cases b with
    | cleanup now' stale => simp [BOp.abs] at hop
    | data d now' ans' => exact push_ok X p (abs_pkt_ok X tsi d now' ans' p now ans hop) o ho
  · -- the stored FDT instances: recv's generic `step_all`
    refine (step_all (Full.iface P) (InstQ (FdtQ X)) s s' _ r evs ?_ ?_ ?_ ?_ h hs.inst).1
    · intro f v hf
      unfold FdtRecv.noteFti
      split
      · intro inst hi; exact hf inst hi
      · exact hf
    · intro p now ans id _ _ inst hi; simp [FdtRecv.new] at hi
    · intro p now ans hop _ id _ f hf
      exact push_instQ (Full.iface P) (FdtQ X) ans (hansq _ now ans hop) f p now hf
    · intro f f' hf hu inst hi
      rw [updateExpired_inst f f' _ hu] at hi; exact hf inst hi
  · -- the FDT objects: recv's `step_fobj`
    refine step_fobj (Full.iface P) (ObjOK X) s s' _ r evs (new_ok X 0 _ (by decide)) ?_ h hs.fobjs
    intro p now ans hop _ o ho
    cases b with
    | cleanup now' stale => simp [BOp.abs] at hop
    | data d now' ans' => exact push_ok X p (abs_pkt_ok X tsi d now' ans' p now ans hop) o ho

theorem reachable_winv (X : Interfaces P) (cfg : Config) (hc : cfg.maxCache < 2 ^ 63) (tsi : Nat) (s : State (Full.Any P))
    (h : Reachable X tsi cfg s) : WInv X cfg s := by
  induction h with
  | init =>
    exact ⟨by constructor <;> (intro f hf; simp [State.init] at hf), by intro x hx; simp [State.init] at hx,
      by constructor <;> (intro f hf; simp [State.init] at hf),
      by constructor <;> (intro f hf; simp [State.init] at hf), rfl⟩
  | step s s' b r evs _ hn hb hstep ih => exact winv_step X cfg hc tsi s s' b r evs hn hb hstep ih

theorem anyFault_false (X : Interfaces P) (o : (Full.Any P)) (h : ObjOK X o) : anyFault o = false := by
  cases o with
  | inl m => rfl
  | inr f => exact h.1

theorem hasFault_false (X : Interfaces P) (s : State (Full.Any P)) (h : ObjsAll (ObjOK X) s)
    (hf : AllFdt (FObj (ObjOK X)) s) : hasFault s = false := by
  unfold hasFault
  simp only [Bool.or_eq_false_iff, List.any_eq_false]
  refine ⟨⟨?_, ?_⟩, ?_⟩
  · intro x hx
    simp only [Bool.not_eq_true]
    exact anyFault_false X x.2 (h x hx)
  · intro kf hkf
    cases ho : kf.2.obj with
    | none => simp
    | some o => simp only [Bool.not_eq_true]; exact anyFault_false X o (hf.2 kf hkf o ho)
  · intro f hfm
    cases ho : f.obj with
    | none => simp
    | some o => simp only [Bool.not_eq_true]; exact anyFault_false X o (hf.1 f hfm o ho)

end Flute.Recv.Whole
