import FluteModel.BlockEnc
import FluteModel.Lemmas.BencArith
/-
  Static facts about the blocks the encoder cuts from an object (no state machine here):
  which bytes block `k` covers, which shards it holds.
-/
namespace Flute.BencBlocks
open Flute Flute.Fec Flute.BlockEnc Flute.BencArith

/-- the fixed data of a transfer from a buffer: parameters, content, partition quadruple -/
structure Setup (P : Params) (c : Bytes) (aL aS nL n : Nat) : Prop where
  notLegacy : P.legacy = false
  e_pos : 0 < P.e
  len_eq : P.len = c.length
  l_pos : 0 < P.len
  good : Good P.len P.e aL aS nL n

section
variable (P : Params) (c : Bytes) (aL aS nL n : Nat)

/-- byte offset where block `k` starts -/
def off (k : Nat) : Nat := offAt P.len P.e aL aS nL k

/-- the bytes of block `k` -/
def bufAt (k : Nat) : Bytes := (c.drop (off P aL aS nL k)).take (off P aL aS nL (k + 1) - off P aL aS nL k)

/-- block `k` as `Block::new_from_buffer` builds it -/
def blockAt (k : Nat) : Option Block := Block.new P k (bufAt P c aL aS nL k)

/-- every block of the object can be encoded (the codec accepts its size) -/
def Accepts : Prop := ∀ k, k < n → (blockAt P c aL aS nL k).isSome = true

end

variable {P : Params} {c : Bytes} {aL aS nL n : Nat}

theorem off_zero : off P aL aS nL 0 = 0 := by simp [off, offAt, cum_zero]

theorem off_lt (hS : Setup P c aL aS nL n) {k : Nat} (hk : k < n) :
    off P aL aS nL k = cum aL aS nL k * P.e ∧ off P aL aS nL k < P.len := by
  have := cum_lt_of_lt hS.good hS.e_pos hS.l_pos k hk
  unfold off offAt
  omega

theorem off_n (hS : Setup P c aL aS nL n) : off P aL aS nL n = P.len := by
  have := cum_n_ge hS.good hS.e_pos
  unfold off offAt
  omega

theorem off_succ (hS : Setup P c aL aS nL n) {k : Nat} (hk : k < n) :
    off P aL aS nL (k + 1) = min (off P aL aS nL k + A aL aS nL k * P.e) P.len := by
  have h := (off_lt hS hk).1
  unfold off offAt at *
  rw [cum_succ, Nat.add_mul]
  omega

theorem off_succ_gt (hS : Setup P c aL aS nL n) {k : Nat} (hk : k < n) :
    off P aL aS nL k < off P aL aS nL (k + 1) := by
  have h1 := off_lt hS hk
  rw [off_succ hS hk]
  have h2 := A_pos aL aS nL k hS.good.aS_pos hS.good.aS_le
  have : 1 * P.e ≤ A aL aS nL k * P.e := Nat.mul_le_mul_right _ h2
  have := hS.e_pos
  omega

theorem off_succ_eq_len_iff (hS : Setup P c aL aS nL n) {k : Nat} (hk : k < n) :
    off P aL aS nL (k + 1) = P.len ↔ k + 1 = n := by
  constructor
  · intro h
    by_cases h2 : k + 1 < n
    · have := (off_lt hS h2).2; omega
    · omega
  · intro h; rw [h]; exact off_n hS

theorem bufAt_length (hS : Setup P c aL aS nL n) {k : Nat} (hk : k < n) :
    (bufAt P c aL aS nL k).length = off P aL aS nL (k + 1) - off P aL aS nL k := by
  have h1 := off_succ_gt hS hk
  have h2 : off P aL aS nL (k + 1) ≤ P.len := by unfold off offAt; omega
  have := hS.len_eq
  simp only [bufAt, List.length_take, List.length_drop]
  omega

theorem bufAt_length_pos (hS : Setup P c aL aS nL n) {k : Nat} (hk : k < n) :
    0 < (bufAt P c aL aS nL k).length := by
  rw [bufAt_length hS hk]; have := off_succ_gt hS hk; omega

/-- number of source symbols of block `k` = the partition's `A k` (what the receiver derives) -/
theorem bufAt_nsym (hS : Setup P c aL aS nL n) {k : Nat} (hk : k < n) :
    divCeil (bufAt P c aL aS nL k).length P.e = A aL aS nL k := by
  rw [bufAt_length hS hk]
  have hk1 := (off_lt hS hk).1
  by_cases hlast : k + 1 < n
  · -- a full block: A k · e bytes
    have h2 := (off_lt hS hlast).1
    rw [h2, hk1, cum_succ, Nat.add_mul, Nat.add_sub_cancel_left]
    unfold divCeil
    simp [Nat.mul_mod_left, Nat.mul_div_cancel _ hS.e_pos]
  · -- the last block: ends at L, (T-1)·e < L ≤ T·e
    have hn : k + 1 = n := by omega
    rw [hn, off_n hS, hk1]
    have ht := hS.good.t_total
    rw [← hn, cum_succ] at ht
    have hge := divCeil_mul_ge P.len P.e hS.e_pos
    have hlt := divCeil_pred_mul_lt P.len P.e hS.l_pos hS.e_pos
    have hApos := A_pos aL aS nL k hS.good.aS_pos hS.good.aS_le
    rw [← ht] at hge hlt
    generalize cum aL aS nL k = C at *
    generalize A aL aS nL k = a at *
    have he := hS.e_pos
    -- C·e < L ≤ (C+a)·e and (C+a-1)·e < L
    rw [Nat.add_mul] at hge
    have h3 : (C + a - 1) * P.e = C * P.e + (a - 1) * P.e := by
      have : C + a - 1 = C + (a - 1) := by omega
      rw [this, Nat.add_mul]
    rw [h3] at hlt
    -- x := L - C·e satisfies (a-1)·e < x ≤ a·e
    generalize hx : P.len - C * P.e = x
    have hx1 : (a - 1) * P.e < x := by omega
    have hx2 : x ≤ a * P.e := by omega
    unfold divCeil
    have hdm := Nat.div_add_mod x P.e
    have hml := Nat.mod_lt x he
    have ha1 : (a - 1) * P.e + P.e = a * P.e := by
      rw [← Nat.add_one_mul]; congr 1; omega
    by_cases hr : x % P.e = 0
    · simp only [hr, if_true]
      rw [hr] at hdm
      -- x = e·(x/e), (a-1)·e < e·(x/e) ≤ a·e
      have c1 : P.e * a = a * P.e := Nat.mul_comm _ _
      have c2 : P.e * (a - 1) = (a - 1) * P.e := Nat.mul_comm _ _
      have h5 : x / P.e ≤ a := Nat.le_of_mul_le_mul_left (by omega : P.e * (x / P.e) ≤ P.e * a) he
      have h6 : a - 1 < x / P.e := Nat.lt_of_mul_lt_mul_left (a := P.e) (by omega)
      omega
    · simp only [hr, if_false]
      have c1 : P.e * a = a * P.e := Nat.mul_comm _ _
      have c2 : P.e * (a - 1) = (a - 1) * P.e := Nat.mul_comm _ _
      have h5 : x / P.e < a := Nat.lt_of_mul_lt_mul_left (a := P.e) (by omega)
      have h6 : a - 1 ≤ x / P.e := by
        apply Nat.le_of_lt_succ
        apply Nat.lt_of_mul_lt_mul_left (a := P.e)
        rw [Nat.mul_succ]; omega
      omega

/-! ### shards of a block -/

theorem number_length (n0 : Nat) (l : List Bytes) : (number n0 l).length = l.length := by
  induction l generalizing n0 with
  | nil => rfl
  | cons d r ih => simp [number, ih]

theorem number_getElem? (n0 : Nat) (l : List Bytes) (i : Nat) :
    (number n0 l)[i]? = (l[i]?).map (fun d => ⟨n0 + i, d⟩) := by
  induction l generalizing n0 i with
  | nil => simp [number]
  | cons d r ih =>
    cases i with
    | zero => simp [number]
    | succ i => simp only [number, List.getElem?_cons_succ, ih]; congr; funext d; congr 1; omega

/-- what `Codec.encode` returns: `k` source shards with ESIs `0..k-1` = the split of the buffer, then
    `r ≤ p` repair shards with ESIs `k..k+r-1` -/
theorem encode_shape (cd : Codec) (e p : Nat) (buf : Bytes) (sh : List Shard) (he : 0 < e)
    (h : cd.encode e p buf = some sh) :
    ∃ r, r ≤ p ∧ sh.length = divCeil buf.length e + r ∧
      (∀ i, i < sh.length → ∃ s, sh[i]? = some s ∧ s.esi = i) ∧
      (∀ i, i < divCeil buf.length e → ∃ s, sh[i]? = some s ∧ (cd.split e buf)[i]? = some s.data) := by
  unfold Codec.encode at h
  simp only at h
  split at h
  · simp only [Option.some.injEq] at h
    subst h
    have hsl := cd.split_length e buf he
    refine ⟨cd.nRepair (divCeil buf.length e) p, cd.nRepair_le _ _, ?_, ?_, ?_⟩
    · simp [number_length, hsl]
    · intro i hi
      simp only [List.length_append, number_length, hsl, List.length_map, List.length_range] at hi
      by_cases h1 : i < divCeil buf.length e
      · have : i < (number 0 (cd.split e buf)).length := by rw [number_length, hsl]; exact h1
        rw [List.getElem?_append_left this, number_getElem?]
        have h2 : i < (cd.split e buf).length := by rw [hsl]; exact h1
        rw [List.getElem?_eq_getElem h2]
        exact ⟨_, rfl, by simp⟩
      · have : (number 0 (cd.split e buf)).length ≤ i := by rw [number_length, hsl]; omega
        rw [List.getElem?_append_right this, number_length, hsl]
        have h2 : i - divCeil buf.length e < cd.nRepair (divCeil buf.length e) p := by omega
        simp only [List.getElem?_map, List.getElem?_range h2, Option.map_some]
        exact ⟨_, rfl, by simp; omega⟩
    · intro i hi
      have : i < (number 0 (cd.split e buf)).length := by rw [number_length, hsl]; exact hi
      rw [List.getElem?_append_left this, number_getElem?]
      have h2 : i < (cd.split e buf).length := by rw [hsl]; exact hi
      rw [List.getElem?_eq_getElem h2]
      exact ⟨_, rfl, by simp⟩
  · cases h

end Flute.BencBlocks
