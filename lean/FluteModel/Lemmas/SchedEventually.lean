import FluteModel.Lemmas.SchedRelease
/-
  Liveness at one instant, for senders whose objects are not paced: polling an instant `N` (any tick inputs), an
  object without carousel that is published and past its start time leaves the sender within
  `mu N + max(1, max_transfer_count)` calls of `read(N)`.
-/
namespace Flute.Sched

def totalOf (s : State) (t : Nat) : Nat := match getF s.objs t with | some g => g.info.total | none => 0

/-- reads of the sequence that return `None` -/
def noneReads (N : Nat) : State → List (List (Nat × Nat)) → Nat
  | _, [] => 0
  | s, tk :: rest => (match (read s N tk).2 with | .none => 1 | _ => 0) + noneReads N (read s N tk).1 rest

theorem none_busy (N : Nat) : ∀ (tks : List (List (Nat × Nat))) (s : State),
    noneReads N s tks + busyReads N s tks = tks.length := by
  intro tks
  induction tks with
  | nil => intro s; rfl
  | cons tk r ih =>
    intro s
    unfold noneReads busyReads
    have := ih (read s N tk).1
    cases (read s N tk).2 <;> simp only [List.length_cons] <;> omega

/-- `t` is in the sender before every read of the sequence and after the last one -/
def AllIn (t N : Nat) : State → List (List (Nat × Nat)) → Prop
  | s, [] => t ∈ s.files
  | s, tk :: rest => t ∈ s.files ∧ AllIn t N (read s N tk).1 rest

/-- the static hypotheses, on the state the polling starts from -/
structure Unpaced (s0 : State) (t N : Nat) (f0 : FileDesc) : Prop where
  obj : getF s0.objs t = some f0
  car : f0.carousel = none
  pub : s0.cfg.mode = .full → f0.published = true
  start : ∀ st, f0.info.startTime = some st → st ≤ N
  all : ∀ k g, getF s0.objs k = some g → wantsTick g = false
  /-- no source fails (buffer sources) -/
  nofault : FaultFree s0

theorem read_step_total (cfg : Cfg) (tbl : List Nat) (hsorted : (cfg.queues.map (fun x => x.1)).Pairwise (fun a b => a < b))
    (s0 : State) (t N : Nat) (f0 : FileDesc) (hu : Unpaced s0 t N f0) (hprio : f0.prio ∈ cfg.queues.map (fun x => x.1))
    (ops : List Op) (hm : Mono s0 (run (init cfg tbl) ops)) (hin : t ∈ (run (init cfg tbl) ops).files)
    (tk : List (Nat × Nat)) :
    totalOf (run (init cfg tbl) ops) t + (match (read (run (init cfg tbl) ops) N tk).2 with | .none => 1 | _ => 0) ≤
      totalOf (read (run (init cfg tbl) ops) N tk).1 t := by
  have hwq := run_inv Wf.closed Wf.closedOps ops (init cfg tbl) (by rw [heldOf_init]; exact Wf.init cfg tbl) rfl
  have hl := (life_run cfg tbl ops).2
  have hsh := run_shape cfg tbl ops
  have hstale := stale_run cfg tbl ops
  have hmr := mono_read (run (init cfg tbl) ops) N tk hwq.2
  obtain ⟨f, hf, d⟩ := hm.fwd t f0 hu.obj
  -- no transfer of the sender is pacing
  have hgate : ∀ k g, getF (run (init cfg tbl) ops).objs k = some g → gateBlocked g N = false := by
    intro k g hg
    obtain ⟨g0, hg0, dg⟩ := hm.bwd k g hg
    have hw0 : wantsTick g = false := by
      have := hu.all k g0 hg0
      unfold wantsTick at this ⊢
      rw [dg.target, dg.nSym]; exact this
    unfold gateBlocked
    rw [hstale g (getF_mem hg) hw0]
  obtain ⟨f', hf', d'⟩ := hmr.fwd t f hf
  have htot : totalOf (run (init cfg tbl) ops) t = f.info.total := by unfold totalOf; rw [hf]
  have htot' : totalOf (read (run (init cfg tbl) ops) N tk).1 t = f'.info.total := by unfold totalOf; rw [hf']
  rw [htot, htot']
  cases hout : (read (run (init cfg tbl) ops) N tk).2 with
  | none =>
    simp only []
    -- the object cannot be waiting: it would be started
    have hcase := ((hl.rel t f hf).inFiles hin).2
    have htr : f.info.transferring = true := by
      rcases hcase with hq | htr
      · exfalso
        -- its priority queue exists and has a first slot
        obtain ⟨pm, hpm, hp1⟩ := List.mem_map.mp hprio
        have : (pm.1, slotsOf pm.2) ∈ shape (run (init cfg tbl) ops).sessions := by
          rw [hsh]; exact List.mem_map.mpr ⟨pm, hpm, rfl⟩
        unfold shape at this
        obtain ⟨q, hq1, hq2⟩ := List.mem_map.mp this
        simp only [Prod.mk.injEq] at hq2
        have hlen : 0 < q.slots.length := by rw [hq2.2]; unfold slotsOf; split <;> omega
        obtain ⟨c, g, _, hg, hb⟩ := idle_waiting cfg tbl ops N tk hsorted hout t f hq hf
          (Or.inr (by unfold gapElapsed; rw [d.carousel, hu.car]))
          (fun hmode => d.pub (hu.pub (by rw [← hm.cfg]; exact hmode)))
          (fun st hst => hu.start st (by rw [← d.start]; exact hst))
          (fun k _ g hg _ => by
            obtain ⟨g0, hg0, dg⟩ := hm.bwd k g hg
            rw [dg.faults]; exact hu.nofault k g0 hg0)
          q hq1 (by rw [hq2.1, hp1, d.prio]) 0 q.slots[0] (by simp [hlen])
        rw [hgate c.key g hg] at hb; cases hb
      · exact htr
    obtain ⟨pc, hpc, hk⟩ := hwq.1.transHeld f (getF_mem hf) htr
    have hk' : pc.2.key = t := by rw [hk]; exact getF_key hf
    have hfin : pc.2.enc.stopped = true ∨ f.nPk ≤ pc.2.enc.sent := by
      rcases idle_held cfg tbl ops N tk hout pc hpc f (by rw [hk']; exact hf) with h1 | h1 | h1
      · rw [hgate t f hf] at h1; cases h1
      · exact Or.inl h1
      · exact Or.inr h1
    -- locate the slot
    unfold heldOf held at hpc
    obtain ⟨q, hq, hpq⟩ := List.mem_flatMap.mp hpc
    unfold heldQ heldSlots at hpq
    obtain ⟨cur, hcur, hpo⟩ := List.mem_flatMap.mp hpq
    cases cur with
    | none => simp [optHeld] at hpo
    | some c =>
      simp only [optHeld, List.mem_singleton] at hpo
      subst hpo
      obtain ⟨pre, post, hsess⟩ := List.append_of_mem hq
      obtain ⟨j, hj⟩ := List.getElem?_of_mem hcur
      have hk2 : c.key = t := hk'
      obtain ⟨g2, hg2, hn2⟩ := read_release cfg tbl ops pre post q j c f N tk hsess hj (by rw [hk2]; exact hf)
        (hgate t f hf) hfin hout
      rw [hk2, hf'] at hg2; cases hg2
      exact hn2
  | hang => simp only []; exact d'.total
  | pkt a b c e => simp only []; exact d'.total
  | fdt a b c => simp only []; exact d'.total

theorem run_snoc_read' (cfg : Cfg) (tbl : List Nat) (ops : List Op) (N : Nat) (tk : List (Nat × Nat)) :
    run (init cfg tbl) (ops ++ [.read N tk]) = (read (run (init cfg tbl) ops) N tk).1 := run_snoc_read _ _ _ _

theorem total_grows (cfg : Cfg) (tbl : List Nat) (hsorted : (cfg.queues.map (fun x => x.1)).Pairwise (fun a b => a < b))
    (s0 : State) (t N : Nat) (f0 : FileDesc) (hu : Unpaced s0 t N f0) (hprio : f0.prio ∈ cfg.queues.map (fun x => x.1)) :
    ∀ (tks : List (List (Nat × Nat))) (ops : List Op), Mono s0 (run (init cfg tbl) ops) →
    AllIn t N (run (init cfg tbl) ops) tks →
    ∃ ops', Mono s0 (run (init cfg tbl) ops') ∧ t ∈ (run (init cfg tbl) ops').files ∧
      totalOf (run (init cfg tbl) ops) t + noneReads N (run (init cfg tbl) ops) tks ≤ totalOf (run (init cfg tbl) ops') t := by
  intro tks
  induction tks with
  | nil => intro ops hm hall; exact ⟨ops, hm, hall, Nat.le_refl _⟩
  | cons tk rest ih =>
    intro ops hm hall
    obtain ⟨hin, hrest⟩ := hall
    have hstep := read_step_total cfg tbl hsorted s0 t N f0 hu hprio ops hm hin tk
    have hwq := run_inv Wf.closed Wf.closedOps ops (init cfg tbl) (by rw [heldOf_init]; exact Wf.init cfg tbl) rfl
    have hm' : Mono s0 (run (init cfg tbl) (ops ++ [.read N tk])) := by
      rw [run_snoc_read']; exact hm.trans (mono_read _ N tk hwq.2)
    obtain ⟨ops', h1, h2, h3⟩ := ih (ops ++ [.read N tk]) hm' (by rw [run_snoc_read']; exact hrest)
    refine ⟨ops', h1, h2, ?_⟩
    rw [run_snoc_read'] at h3
    show _ + ((match (read (run (init cfg tbl) ops) N tk).2 with | .none => 1 | _ => 0) +
      noneReads N (read (run (init cfg tbl) ops) N tk).1 rest) ≤ _
    omega

/-- polling one instant: the object leaves the sender within `mu + max(1, max_transfer_count)` calls -/
theorem leaves_within (cfg : Cfg) (tbl : List Nat)
    (hsorted : (cfg.queues.map (fun x => x.1)).Pairwise (fun a b => a < b)) (ops : List Op) (t N : Nat) (f : FileDesc)
    (hu : Unpaced (run (init cfg tbl) ops) t N f) (hprio : f.prio ∈ cfg.queues.map (fun x => x.1))
    (tks : List (List (Nat × Nat))) (hlen : mu N tbl (run (init cfg tbl) ops) + burstF f ≤ tks.length) :
    ¬ AllIn t N (run (init cfg tbl) ops) tks := by
  intro hall
  obtain ⟨ops', hm, hin, htot⟩ := total_grows cfg tbl hsorted _ t N f hu hprio tks ops (Mono.refl _) hall
  have hb := busy_reads_bounded cfg tbl ops N tks
  have hnb := none_busy N tks (run (init cfg tbl) ops)
  obtain ⟨f', hf', d⟩ := hm.fwd t f hu.obj
  have hl := (life_run cfg tbl ops').2
  have hcount := ((hl.rel t f' hf').count (by rw [d.carousel]; exact hu.car)).2.2 (Or.inl hin)
  have hbf : burstF f' = burstF f := by unfold burstF; rw [d.maxCount]
  have htot' : totalOf (run (init cfg tbl) ops') t = f'.info.total := by unfold totalOf; rw [hf']
  rw [htot', ] at htot
  rw [hbf] at hcount
  omega

end Flute.Sched
