import FluteModel.Lemmas.SessionStream
import FluteModel.Lemmas.SessionFits
/-
  The packet cache byte limit (objectreceiver.rs `cache`: "Pkt cache is full").

  The lemmas of the session model are proved for a receiver without that limit (`Fits … ∧ pktCap = none`).
  This file transfers them to the receiver the driver runs (`pktCap = some object_max_cache_size`):
  as long as the datagram bytes of the object's packets fed to the receiver stay below the limit - or the
  object carries its FTI in-band, so that no packet is ever cached - the limited receiver behaves exactly
  like the unlimited one (`observe_unl`).
-/
namespace Flute.Lemmas.Session
open Flute.Session

/-- the same receiver without packet-cache limit -/
def unl (rc : RxCfg) : RxCfg := { rc with pktCap := none }

/-- packet-cache bytes held for the object -/
def cacheOf (o : ObjCfg) (st : OState) : Nat :=
  match st.obj with
  | some rx => cacheSum o rx.cache
  | none => 0

variable (dec : (k p : Nat) → List Nat → Bool)

theorem settle_cache (o : ObjCfg) (rx : ORx) : (settle dec o rx).rx.cache = rx.cache := by
  unfold settle; split <;> rfl

theorem pushCore_cache (rc : RxCfg) (o : ObjCfg) (rx : ORx) (s : Sym) :
    (pushCore dec rc o rx s).rx.cache = rx.cache := by
  unfold pushCore
  dsimp only
  repeat' split
  all_goals first | rfl | rw [settle_cache]

theorem pushSym_cache (rc : RxCfg) (o : ObjCfg) (rx : ORx) (s : Sym) :
    (pushSym dec rc o rx s).rx.cache = rx.cache := by
  unfold pushSym
  dsimp only
  split
  · exact pushCore_cache dec rc o rx s
  · exact pushCore_cache dec rc o rx s

theorem replay_cache_le (rc : RxCfg) (o : ObjCfg) : ∀ (l : List Sym) (rx : ORx),
    cacheSum o (replay dec rc o l rx).rx.cache ≤ cacheSum o l := by
  intro l
  induction l with
  | nil => intro rx; simp [replay, cacheSum]
  | cons s rest ih =>
    intro rx
    unfold replay
    dsimp only
    have hc := pushSym_cache dec rc o { rx with cache := rest } s
    split
    · exact Nat.le_trans (ih _) (by simp [cacheSum])
    · rw [hc]; simp [cacheSum]

theorem attach_cache_le (rc : RxCfg) (o : ObjCfg) (rx : ORx) :
    cacheSum o (attach dec rc o rx).rx.cache ≤ cacheSum o rx.cache := by
  unfold attach
  dsimp only
  by_cases hE : o.ks.isEmpty = true
  · simp [hE, attach.settle']
  · have hE' : o.ks.isEmpty = false := by simpa using hE
    simp only [hE', Bool.false_eq_true, ↓reduceIte, attach.settle']
    have h := replay_cache_le dec rc o rx.cache { rx with attached := true, otiKnown := true }
    split
    · rw [settle_cache]; exact h
    · exact h

theorem finish_cache_le (o : ObjCfg) (st : OState) (r : PushRes) :
    cacheOf o (finish o st r) ≤ cacheSum o r.rx.cache := by
  unfold cacheOf
  cases hobj : (finish o st r).obj with
  | none => exact Nat.zero_le _
  | some x =>
    have := finish_obj_some o st r x hobj
    rw [this]; exact Nat.le_refl _

theorem pushObj_cache_le (rc : RxCfg) (o : ObjCfg) (st : OState) (rx : ORx) (s : Sym) :
    cacheOf o (pushObj dec rc o st rx s) ≤ cacheSum o rx.cache + pktBytes o s := by
  unfold pushObj
  dsimp only
  have e1 : (if (!rx.otiKnown && o.inbandFti) = true then ({ rx with otiKnown := true } : ORx) else rx).cache = rx.cache := by
    split <;> rfl
  generalize (if (!rx.otiKnown && o.inbandFti) = true then ({ rx with otiKnown := true } : ORx) else rx) = rx' at e1
  split
  · split
    · refine Nat.le_trans (finish_cache_le o st _) ?_
      dsimp only; rw [e1]; omega
    · refine Nat.le_trans (finish_cache_le o st _) ?_
      dsimp only; rw [e1]; simp [cacheSum]; omega
  · refine Nat.le_trans (finish_cache_le o st _) ?_
    rw [pushSym_cache, e1]; omega

theorem attach_rx0_cache (rc : RxCfg) (o : ObjCfg) : cacheSum o (attach dec rc o rx0).rx.cache = 0 := by
  have := attach_cache_le dec rc o rx0
  simp [rx0, cacheSum] at this
  exact this

theorem pushNew_cache_le (rc : RxCfg) (o : ObjCfg) (st : OState) (s : Sym) :
    cacheOf o (pushNew dec rc o st s) ≤ cacheOf o st + pktBytes o s := by
  unfold pushNew
  cases hobj : st.obj with
  | some rx =>
    dsimp only
    have : cacheOf o st = cacheSum o rx.cache := by simp [cacheOf, hobj]
    rw [this]; exact pushObj_cache_le dec rc o st rx s
  | none =>
    dsimp only
    have h0 := attach_rx0_cache dec rc o
    split
    · split
      · refine Nat.le_trans (finish_cache_le o _ _) ?_
        rw [h0]; omega
      · refine Nat.le_trans (pushObj_cache_le dec rc o _ _ s) ?_
        rw [h0]; omega
    · refine Nat.le_trans (pushObj_cache_le dec rc o st rx0 s) ?_
      simp [rx0, cacheSum]

theorem cacheOf_congr (o : ObjCfg) (a b : OState) (h : a.obj = b.obj) : cacheOf o a = cacheOf o b := by
  unfold cacheOf; rw [h]

/-- the attach step of `fdtEv`, before the registry / age update -/
def fdtInner (rc : RxCfg) (o : ObjCfg) (st : OState) (l : Bool) : OState :=
  match st.obj with
  | some rx =>
    if l && !rx.attached then
      finish o { st with opens := st.opens + 1 } (attach dec rc o rx)
    else st
  | none => st

theorem fdtEv_obj (rc : RxCfg) (o : ObjCfg) (st : OState) (l : Bool) :
    (fdtEv dec rc o st l).obj = (fdtInner dec rc o st l).obj := rfl

theorem fdtEv_cache_le (rc : RxCfg) (o : ObjCfg) (st : OState) (l : Bool) :
    cacheOf o (fdtEv dec rc o st l) ≤ cacheOf o st := by
  rw [cacheOf_congr o _ _ (fdtEv_obj dec rc o st l)]
  unfold fdtInner
  cases hobj : st.obj with
  | none => exact Nat.le_refl _
  | some rx =>
    dsimp only
    have hst : cacheOf o st = cacheSum o rx.cache := by simp [cacheOf, hobj]
    split
    · rw [hst]
      exact Nat.le_trans (finish_cache_le o _ _) (attach_cache_le dec rc o rx)
    · exact Nat.le_refl _

def evBytes (o : ObjCfg) : Ev → Nat
  | .pkt s => pktBytes o s
  | .fdt _ => 0

theorem stepObj_cache_le (rc : RxCfg) (o : ObjCfg) (st : OState) (e : Ev) :
    cacheOf o (stepObj dec rc o st e) ≤ cacheOf o st + evBytes o e := by
  cases e with
  | fdt l => exact Nat.le_trans (fdtEv_cache_le dec rc o st l) (by simp [evBytes])
  | pkt s =>
    simp only [stepObj, evBytes]
    split
    · split
      · omega
      · split
        · have := pushNew_cache_le dec rc o { st with completed := false } s
          simpa [cacheOf] using this
        · omega
    · exact pushNew_cache_le dec rc o st s

/-! ### the limited receiver equals the unlimited one while the cache has room -/

/-- room in the packet cache: in-band FTI (nothing is ever cached), or `n` bytes below the limit -/
def Room (rc : RxCfg) (o : ObjCfg) (n : Nat) : Prop :=
  o.inbandFti = true ∨ ∀ cap, rc.pktCap = some cap → n < cap

theorem replay_unl (rc : RxCfg) (o : ObjCfg) : ∀ (l : List Sym) (rx : ORx),
    replay dec (unl rc) o l rx = replay dec rc o l rx := by
  intro l
  induction l with
  | nil => intro rx; rfl
  | cons s rest ih =>
    intro rx
    unfold replay
    dsimp only
    have e : pushSym dec (unl rc) o { rx with cache := rest } s = pushSym dec rc o { rx with cache := rest } s := rfl
    rw [e]
    split
    · exact ih _
    · rfl

theorem attach_unl (rc : RxCfg) (o : ObjCfg) (rx : ORx) : attach dec (unl rc) o rx = attach dec rc o rx := by
  unfold attach
  dsimp only
  rw [replay_unl]

theorem pushObj_unl (rc : RxCfg) (o : ObjCfg) (st : OState) (rx : ORx) (s : Sym)
    (h : Room rc o (cacheSum o rx.cache)) :
    pushObj dec rc o st rx s = pushObj dec (unl rc) o st rx s := by
  unfold pushObj
  dsimp only
  have e1 : (if (!rx.otiKnown && o.inbandFti) = true then ({ rx with otiKnown := true } : ORx) else rx).cache = rx.cache := by
    split <;> rfl
  have e2 : o.inbandFti = true →
      (if (!rx.otiKnown && o.inbandFti) = true then ({ rx with otiKnown := true } : ORx) else rx).otiKnown = true := by
    intro hi
    cases hk : rx.otiKnown <;> simp [hk, hi]
  generalize (if (!rx.otiKnown && o.inbandFti) = true then ({ rx with otiKnown := true } : ORx) else rx) = rx' at e1 e2
  have e3 : pushSym dec (unl rc) o rx' s = pushSym dec rc o rx' s := rfl
  rw [e3]
  by_cases hk : rx'.otiKnown = true
  · simp [hk]
  · have hk' : rx'.otiKnown = false := by simpa using hk
    simp only [hk', Bool.not_false, ↓reduceIte]
    have hu : cacheFull (unl rc) o rx'.cache = false := by simp [cacheFull, unl]
    have hl : cacheFull rc o rx'.cache = false := by
      rcases h with h | h
      · rw [e2 h] at hk'; exact absurd hk' (by simp)
      · unfold cacheFull
        cases hc : rc.pktCap with
        | none => rfl
        | some cap =>
          have := h cap hc
          simp only [decide_eq_false_iff_not]
          rw [e1]; omega
    rw [hu, hl]

theorem pushNew_unl (rc : RxCfg) (o : ObjCfg) (st : OState) (s : Sym) (h : Room rc o (cacheOf o st)) :
    pushNew dec rc o st s = pushNew dec (unl rc) o st s := by
  unfold pushNew
  cases hobj : st.obj with
  | some rx =>
    dsimp only
    have : cacheOf o st = cacheSum o rx.cache := by simp [cacheOf, hobj]
    rw [this] at h
    exact pushObj_unl dec rc o st rx s h
  | none =>
    dsimp only
    have h0 : cacheOf o st = 0 := by simp [cacheOf, hobj]
    rw [h0] at h
    rw [attach_unl]
    have hr : Room rc o (cacheSum o (attach dec rc o rx0).rx.cache) := by rw [attach_rx0_cache]; exact h
    split
    · split
      · rfl
      · exact pushObj_unl dec rc o _ _ s hr
    · exact pushObj_unl dec rc o st rx0 s (by simpa [rx0, cacheSum] using h)

theorem fdtEv_unl (rc : RxCfg) (o : ObjCfg) (st : OState) (l : Bool) :
    fdtEv dec rc o st l = fdtEv dec (unl rc) o st l := by
  unfold fdtEv
  simp only [attach_unl]

theorem stepObj_unl (rc : RxCfg) (o : ObjCfg) (st : OState) (e : Ev) (h : Room rc o (cacheOf o st)) :
    stepObj dec rc o st e = stepObj dec (unl rc) o st e := by
  cases e with
  | fdt l => exact fdtEv_unl dec rc o st l
  | pkt s =>
    simp only [stepObj]
    have hro : (unl rc).receiveOnce = rc.receiveOnce := rfl
    rw [hro]
    split
    · split
      · rfl
      · split
        · exact pushNew_unl dec rc o _ s (by simpa [cacheOf] using h)
        · rfl
    · exact pushNew_unl dec rc o st s h

def evsBytes (o : ObjCfg) : List Ev → Nat
  | [] => 0
  | e :: es => evBytes o e + evsBytes o es

theorem room_mono (rc : RxCfg) (o : ObjCfg) (a b : Nat) (hab : a ≤ b) (h : Room rc o b) : Room rc o a := by
  rcases h with h | h
  · exact Or.inl h
  · exact Or.inr (fun cap hc => Nat.lt_of_le_of_lt hab (h cap hc))

theorem runObj_unl (rc : RxCfg) (o : ObjCfg) : ∀ (es : List Ev) (st : OState),
    Room rc o (cacheOf o st + evsBytes o es) → runObj dec rc o st es = runObj dec (unl rc) o st es := by
  intro es
  induction es with
  | nil => intro st _; rfl
  | cons e es ih =>
    intro st h
    simp only [runObj]
    have h1 : Room rc o (cacheOf o st) := room_mono rc o _ _ (by omega) h
    rw [stepObj_unl dec rc o st e h1]
    apply ih
    refine room_mono rc o _ _ ?_ h
    have := stepObj_cache_le dec (unl rc) o st e
    simp only [evsBytes]
    omega

theorem evsBytes_pktSyms (o : ObjCfg) : ∀ (es : List Ev), evsBytes o es = cacheSum o (pktSyms es) := by
  intro es
  induction es with
  | nil => rfl
  | cons e es ih =>
    cases e with
    | fdt l => simp [evsBytes, evBytes, pktSyms, ih]
    | pkt s => simp [evsBytes, evBytes, pktSyms, cacheSum, ih]

/-- the FDT layer does not depend on the packet-cache limit (FDT packets carry their FTI) -/
theorem eventsFor_unl (decF : (k p : Nat) → List Nat → Bool) (rc : RxCfg) (s : SessCfg) (o : ObjCfg) :
    ∀ (ps : List Pkt) (st : FdtRx), eventsFor decF (unl rc) s o st ps = eventsFor decF rc s o st ps := by
  intro ps
  induction ps with
  | nil => intro st; rfl
  | cons p ps ih =>
    intro st
    unfold eventsFor
    have e : stepFdt decF (unl rc) s st p = stepFdt decF rc s st p := rfl
    rw [e]
    split
    · dsimp only
      split <;> simp [ih]
    · split
      · rw [ih]
      · exact ih st

/-- **The packet-cache limit does not matter while it is not reached.**  If the object carries its FTI
    in-band, or the datagram bytes of all its packets in the fed list `ps` stay below the limit
    (`object_max_cache_size`), the receiver with the limit observes exactly what the receiver without it does. -/
theorem observe_unl (decF decO : (k p : Nat) → List Nat → Bool) (rc : RxCfg) (s : SessCfg) (o : ObjCfg)
    (hto : o.toi ≠ 0) (ps : List Pkt) (h : Room rc o (cacheSum o (osyms o ps))) :
    observe decF decO rc s o ps = observe decF decO (unl rc) s o ps := by
  unfold observe
  rw [eventsFor_unl]
  apply runObj_unl
  rw [evsBytes_pktSyms, events_packets decF rc s o hto]
  simpa [cacheOf] using h

/-- **The resource hypothesis of C01 / C02 / C16, in bytes against the receiver configuration.**
    `rc.maxSize` = `object_max_cache_size` (default 10 MiB), `rc.pktCap` = the same number for the packet
    cache (the driver sets `some rc.maxSize`), `rc.maxLook` = 4096:
      * the object has at most 4096 source blocks,
      * the bytes the receiver accounts for ALL its blocks are within `object_max_cache_size`
        (a receiver that misses one symbol of block 0 - loss, or a late join - has to hold every later block
        until block 0 comes again: nothing less is enough in general; findings e2e-1 / e2e-2 are the receptions
        where a larger object is never delivered),
      * FDT-only OTI: the datagrams of the object's packets in the fed list `ps` stay below the packet-cache
        limit (in-band FTI: no packet is ever cached). -/
def FitsBytes (rc : RxCfg) (o : ObjCfg) (ps : List Pkt) : Prop :=
  o.ks.size ≤ rc.maxLook ∧ totalBytes o.blen o.blen.size ≤ rc.maxSize ∧ Room rc o (cacheSum o (osyms o ps))

theorem fits_unl (rc : RxCfg) (o : ObjCfg) (ps : List Pkt) (h : FitsBytes rc o ps) : Fits (unl rc) o :=
  fits_of_total (unl rc) o h.1 h.2.1 rfl

end Flute.Lemmas.Session
