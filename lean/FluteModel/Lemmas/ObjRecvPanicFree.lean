import FluteModel.Lemmas.ObjRecvTotal
import FluteModel.Lemmas.ObjRecvWritten
import FluteModel.Props.C07
/-
  Panic-freedom of the ObjectReceiver model over reachable states: the invariant `TInv` (structural facts behind the
  `debug_assert` / `unwrap` sites, per-block facts, partition = block_partitioning(OTI), exact allocation counters) is carried
  through every function together with the existence of an `.ok` result.
-/
namespace Flute.ObjRecv
open Flute Flute.FecDec Flute.Partition

/-- bound on the byte length of one source block (L < 2^48) -/
def BL : Nat := 2^48

def wsum : List Block → Nat
  | [] => 0
  | b :: r => b.blockSize + wsum r

def bcnt (b : Block) : Nat := if b.dec.isSome then 1 else 0

def wcnt : List Block → Nat
  | [] => 0
  | b :: r => bcnt b + wcnt r

structure BInv (b : Block) : Prop where
  uninit : b.initialized = false → b.dec = none
  size0 : b.dec = none → b.blockSize = 0
  live : b.initialized = true → b.completed = false → b.dec.isSome = true
  bound : b.blockSize < BL

theorem binv_default : BInv {} := ⟨fun _ => rfl, fun _ => rfl, fun h => by simp at h, by simp [BL]⟩

theorem wsum_set (l : List Block) (i : Nat) (b b' : Block) (h : l[i]? = some b) :
    wsum (l.set i b') + b.blockSize = wsum l + b'.blockSize := by
  induction l generalizing i with
  | nil => simp at h
  | cons x r ih =>
    cases i with
    | zero => simp at h; subst h; simp [wsum]; omega
    | succ j =>
      simp at h
      have := ih j h
      simp [wsum]; omega

theorem wcnt_set (l : List Block) (i : Nat) (b b' : Block) (h : l[i]? = some b) :
    wcnt (l.set i b') + bcnt b = wcnt l + bcnt b' := by
  induction l generalizing i with
  | nil => simp at h
  | cons x r ih =>
    cases i with
    | zero => simp at h; subst h; simp [wcnt]; omega
    | succ j =>
      simp at h
      have := ih j h
      simp [wcnt]; omega

theorem wsum_get (l : List Block) (i : Nat) (b : Block) (h : l[i]? = some b) : b.blockSize ≤ wsum l := by
  induction l generalizing i with
  | nil => simp at h
  | cons x r ih =>
    cases i with
    | zero => simp at h; subst h; simp [wsum]
    | succ j => simp at h; have := ih j h; simp [wsum]; omega

theorem wcnt_get (l : List Block) (i : Nat) (b : Block) (h : l[i]? = some b) : bcnt b ≤ wcnt l := by
  induction l generalizing i with
  | nil => simp at h
  | cons x r ih =>
    cases i with
    | zero => simp at h; subst h; simp [wcnt]
    | succ j => simp at h; have := ih j h; simp [wcnt]; omega

theorem wsum_tail (l : List Block) (b : Block) (h : l[0]? = some b) : wsum l.tail + b.blockSize = wsum l := by
  cases l with
  | nil => simp at h
  | cons x r => simp at h; subst h; simp [wsum]; omega

theorem wcnt_tail (l : List Block) (b : Block) (h : l[0]? = some b) : wcnt l.tail + bcnt b = wcnt l := by
  cases l with
  | nil => simp at h
  | cons x r => simp at h; subst h; simp [wcnt]; omega

theorem wsum_replicate (n : Nat) : wsum (List.replicate n ({} : Block)) = 0 := by
  induction n with
  | zero => rfl
  | succ k ih => simp [List.replicate_succ, wsum, ih]

theorem wcnt_replicate (n : Nat) : wcnt (List.replicate n ({} : Block)) = 0 := by
  induction n with
  | zero => rfl
  | succ k ih => simp [List.replicate_succ, wcnt, bcnt, ih]

theorem wsum_append (a b : List Block) : wsum (a ++ b) = wsum a + wsum b := by
  induction a with
  | nil => simp [wsum]
  | cons x r ih => simp [wsum, ih]; omega

theorem wcnt_append (a b : List Block) : wcnt (a ++ b) = wcnt a + wcnt b := by
  induction a with
  | nil => simp [wcnt]
  | cons x r ih => simp [wcnt, ih]; omega

/-- with every block within the bound, the sum is at most (number of live blocks) x bound -/
theorem wsum_le (l : List Block) (h : ∀ b ∈ l, BInv b) : wsum l ≤ wcnt l * BL := by
  induction l with
  | nil => simp [wsum]
  | cons x r ih =>
    have hx := h x (List.mem_cons_self ..)
    have hr := ih (fun b hb => h b (List.mem_cons_of_mem _ hb))
    simp only [wsum, wcnt, bcnt]
    cases hd : x.dec with
    | none => have := hx.size0 hd; simp; omega
    | some d => have := hx.bound; simp [Nat.add_mul]; omega

/-- the allocation counters are exactly the sum / the number of the live blocks of the deque -/
structure CountOK (st : St) : Prop where
  sum : st.totalAlloc = wsum st.blocks
  cnt : st.nbAlloc = wcnt st.blocks
  le : st.totalAlloc ≤ st.maxSize + 2 * BL

/-- a terminal call cleared the deque (the counters are stale from then on, and never used again) -/
def Dead (st : St) : Prop := st.cache = [] ∧ st.state ≠ .receiving ∧ ∀ b ∈ st.blocks, b = {}

structure TInv (st : St) : Prop where
  wbw : st.writer = none → st.bw = none
  bwtl : ∀ w, st.bw = some w → ∃ T, st.tl = some T ∧ T ≠ 0
  otitl : st.oti.isSome = true → st.tl.isSome = true
  noOti : st.oti = none → st.blocks = [] ∧ st.blocksOffset = 0 ∧ st.nbBlocks = 0
  tlFdt : st.oti = none → st.tl.isSome = true → st.fdtId.isSome = true
  blocks : ∀ b ∈ st.blocks, BInv b
  part : st.nbBlocks ≠ 0 → ∃ o l, st.oti = some o ∧ st.tl = some l ∧
          blockPartitioning o.b l o.e = .ok (st.aLarge, st.aSmall, st.nbALarge, st.nbBlocks)
  rtl : ∀ l, st.tl = some l → l < 2^48
  roti : ∀ o, st.oti = some o → o.e < 2^16
  max : st.maxSize < 2^63
  cnt : CountOK st ∨ Dead st

theorem tinv_new (toi m : Nat) (hm : m < 2^63) : TInv (St.new toi m) := by
  refine ⟨fun _ => rfl, by intro w h; simp [St.new] at h, by simp [St.new], fun _ => ⟨rfl, rfl, rfl⟩, by simp [St.new],
    by intro b hb; simp [St.new] at hb, by simp [St.new], by intro l h; simp [St.new] at h, by intro o h; simp [St.new] at h,
    hm, .inl ⟨rfl, rfl, by simp [St.new]⟩⟩

/-! ### fields untouched by the terminal calls -/

@[simp] theorem complete_oti (st : St) : (complete st).oti = st.oti := by
  unfold complete; cases h : st.writer <;> simp [h]
@[simp] theorem complete_blocks (st : St) : (complete st).blocks = [] := by
  unfold complete; cases h : st.writer <;> simp [h]
@[simp] theorem complete_nbBlocks (st : St) : (complete st).nbBlocks = st.nbBlocks := by
  unfold complete; cases h : st.writer <;> simp [h]
@[simp] theorem complete_aLarge (st : St) : (complete st).aLarge = st.aLarge := by
  unfold complete; cases h : st.writer <;> simp [h]
@[simp] theorem complete_aSmall (st : St) : (complete st).aSmall = st.aSmall := by
  unfold complete; cases h : st.writer <;> simp [h]
@[simp] theorem complete_nbALarge (st : St) : (complete st).nbALarge = st.nbALarge := by
  unfold complete; cases h : st.writer <;> simp [h]
@[simp] theorem complete_maxSize (st : St) : (complete st).maxSize = st.maxSize := by
  unfold complete; cases h : st.writer <;> simp [h]
@[simp] theorem error_tl (st : St) (i : Bool) : (error st i).tl = st.tl := by
  unfold error; cases h : st.writer <;> simp [h]
@[simp] theorem error_oti (st : St) (i : Bool) : (error st i).oti = st.oti := by
  unfold error; cases h : st.writer <;> simp [h]
@[simp] theorem error_blocks (st : St) (i : Bool) : (error st i).blocks = [] := by
  unfold error; cases h : st.writer <;> simp [h]
@[simp] theorem error_nbBlocks (st : St) (i : Bool) : (error st i).nbBlocks = st.nbBlocks := by
  unfold error; cases h : st.writer <;> simp [h]
@[simp] theorem error_aLarge (st : St) (i : Bool) : (error st i).aLarge = st.aLarge := by
  unfold error; cases h : st.writer <;> simp [h]
@[simp] theorem error_aSmall (st : St) (i : Bool) : (error st i).aSmall = st.aSmall := by
  unfold error; cases h : st.writer <;> simp [h]
@[simp] theorem error_nbALarge (st : St) (i : Bool) : (error st i).nbALarge = st.nbALarge := by
  unfold error; cases h : st.writer <;> simp [h]
@[simp] theorem error_maxSize (st : St) (i : Bool) : (error st i).maxSize = st.maxSize := by
  unfold error; cases h : st.writer <;> simp [h]

theorem tinv_complete {st : St} (h : TInv st) : TInv (complete st) := by
  refine ⟨?_, ?_, ?_, ?_, ?_, ?_, ?_, ?_, ?_, ?_, ?_⟩
  · intro hw; simp at hw; simp; exact h.wbw hw
  · intro w hw; simp at hw; simpa using h.bwtl w hw
  · simpa using h.otitl
  · intro ho; simp at ho; simpa using (h.noOti ho).2
  · simpa using h.tlFdt
  · intro b hb; simp at hb
  · simpa using h.part
  · simpa using h.rtl
  · simpa using h.roti
  · simpa using h.max
  · exact .inr ⟨by simp, by simp, by intro b hb; simp at hb⟩

theorem tinv_error {st : St} (i : Bool) (h : TInv st) : TInv (error st i) := by
  refine ⟨?_, ?_, ?_, ?_, ?_, ?_, ?_, ?_, ?_, ?_, ?_⟩
  · intro hw; simp at hw; simp; exact h.wbw hw
  · intro w hw; simp at hw; simpa using h.bwtl w hw
  · simpa using h.otitl
  · intro ho; simp at ho; simpa using (h.noOti ho).2
  · simpa using h.tlFdt
  · intro b hb; simp at hb
  · simpa using h.part
  · simpa using h.rtl
  · simpa using h.roti
  · simpa using h.max
  · exact .inr ⟨by simp, by cases i <;> simp, by intro b hb; simp at hb⟩

/-! ### the write path -/

theorem CountOK.same {st st' : St} (h : CountOK st) (s : SameSt st st') : CountOK st' :=
  ⟨by rw [s.totalAlloc, s.blocks]; exact h.sum, by rw [s.nbAlloc, s.blocks]; exact h.cnt,
   by rw [s.totalAlloc, s.maxSize]; exact h.le⟩

theorem TInv.wr {st st' : St} (h : TInv st) (w : Wr st st') (hb : st.bw.isSome = true) : TInv st' := by
  have s := w.same
  refine ⟨?_, ?_, ?_, ?_, ?_, ?_, ?_, ?_, ?_, ?_, ?_⟩
  · intro hw; rw [w.writer] at hw; have := h.wbw hw; simp [this] at hb
  · intro w' _
    cases hbw : st.bw with
    | none => simp [hbw] at hb
    | some w0 => rw [s.tl]; exact h.bwtl w0 hbw
  · rw [s.oti, s.tl]; exact h.otitl
  · rw [s.oti, s.blocks, w.off, s.nbBlocks]; exact h.noOti
  · rw [s.oti, s.tl, w.fdt]; exact h.tlFdt
  · rw [s.blocks]; exact h.blocks
  · rw [s.nbBlocks, s.oti, s.tl, s.aLarge, s.aSmall, s.nbALarge]; exact h.part
  · rw [s.tl]; exact h.rtl
  · rw [s.oti]; exact h.roti
  · rw [s.maxSize]; exact h.max
  · cases h.cnt with
    | inl c => exact .inl (c.same s)
    | inr d => exact .inr ⟨by rw [w.cache]; exact d.1, by rw [w.state]; exact d.2.1, by rw [s.blocks]; exact d.2.2⟩

theorem bwWrite_true_src (P : Params) (st : St) (sbn : Nat) (blk : Block) {st' : St}
    (h : bwWrite P st sbn blk = .ok (st', some true)) : blk.dec.isSome = true := by
  unfold bwWrite at h
  split at h
  · simp at h
  · split at h
    · simp at h
    · split at h
      · simp at h
      · rename_i data hsrc
        unfold Block.sourceBlock at hsrc
        split at hsrc
        · simp at hsrc
        · rename_i d hd; simp [hd]

theorem binv_deallocate {b : Block} (h : BInv b) (hc : b.completed = true) : BInv b.deallocate :=
  ⟨fun _ => rfl, fun _ => rfl, fun _ hn => by simp [Block.deallocate, hc] at hn, by simp [Block.deallocate, BL]⟩

theorem tinv_popBlock {st : St} (h : TInv st) (c : CountOK st) (off : Nat) (blk : Block)
    (hget : st.blocks[off]? = some blk) (hc : blk.completed = true) (hd : blk.dec.isSome = true) :
    TInv (popBlock st off blk) ∧ (popBlock st off blk).bw = st.bw := by
  have hoti : st.oti ≠ none := fun ho => by have := (h.noOti ho).1; simp [this] at hget
  have hs := wsum_get _ _ _ hget
  have hn := wcnt_get _ _ _ hget
  have hb1 : bcnt blk = 1 := by simp [bcnt, hd]
  unfold popBlock
  dsimp only
  split
  · rename_i h0
    subst h0
    have e1 := wsum_tail _ _ hget
    have e2 := wcnt_tail _ _ hget
    refine ⟨⟨h.wbw, h.bwtl, h.otitl, fun ho => absurd ho hoti, h.tlFdt, fun b hb => h.blocks b (List.mem_of_mem_tail hb),
      h.part, h.rtl, h.roti, h.max, .inl ⟨?_, ?_, ?_⟩⟩, rfl⟩
    · have := c.sum; simp only; omega
    · have := c.cnt; simp only; omega
    · have := c.le; simp only; omega
  · have e1 := wsum_set _ _ _ blk.deallocate hget
    have e2 := wcnt_set _ _ _ blk.deallocate hget
    have z1 : blk.deallocate.blockSize = 0 := rfl
    have z2 : bcnt blk.deallocate = 0 := rfl
    refine ⟨⟨h.wbw, h.bwtl, h.otitl, fun ho => absurd ho hoti, h.tlFdt, ?_,
      h.part, h.rtl, h.roti, h.max, .inl ⟨?_, ?_, ?_⟩⟩, rfl⟩
    · intro b hb
      cases List.mem_or_eq_of_mem_set hb with
      | inl hm => exact h.blocks b hm
      | inr he => subst he; exact binv_deallocate (h.blocks blk (List.mem_of_getElem? hget)) hc
    · have := c.sum; simp only; omega
    · have := c.cnt; simp only; omega
    · have := c.le; simp only; omega

theorem tinv_finishObject {st : St} (h : TInv st) (w : BW) : TInv (finishObject st w) := by
  unfold finishObject
  split
  · exact tinv_error _ h
  · split
    · exact tinv_complete h
    · exact tinv_error _ h

theorem finishObject_oti (st : St) (w : BW) : (finishObject st w).oti = st.oti := by
  unfold finishObject; split
  · simp
  · split <;> simp

theorem popBlock_oti (st : St) (off : Nat) (blk : Block) : (popBlock st off blk).oti = st.oti := by
  unfold popBlock; dsimp only; split <;> rfl

/-- the `while` loop of `write_blocks`: returns, and keeps the invariant -/
theorem tinv_writeLoop (P : Params) (D : DzOK P) :
    ∀ (fuel : Nat) (st : St) (sbn : Nat), st.blocksOffset + st.blocks.length ≤ fuel + sbn → TInv st → st.bw.isSome = true →
      ∃ st' b, writeLoop P (fuel + 1) st sbn = .ok (st', b) ∧ TInv st' ∧ st'.oti = st.oti := by
  intro fuel
  induction fuel with
  | zero =>
    intro st sbn hf hT hbw
    unfold writeLoop
    split
    · exact ⟨_, _, rfl, hT, rfl⟩
    · split
      · exact ⟨_, _, rfl, hT, rfl⟩
      · rename_i blk hblk
        have hidx : sbn - st.blocksOffset < st.blocks.length := (List.getElem?_eq_some_iff.mp hblk).1
        omega
  | succ n ih =>
    intro st sbn hf hT hbw
    unfold writeLoop
    split
    · exact ⟨_, _, rfl, hT, rfl⟩
    · rename_i hge
      split
      · exact ⟨_, _, rfl, hT, rfl⟩
      · rename_i blk hblk
        have hidx : sbn - st.blocksOffset < st.blocks.length := (List.getElem?_eq_some_iff.mp hblk).1
        split
        · exact ⟨_, _, rfl, hT, rfl⟩
        · rename_i hcomp
          have hcomp' : blk.completed = true := by simpa using hcomp
          obtain ⟨st1, r, h1⟩ := bwWrite_total P D st sbn blk hbw
          have hwr := wr_bwWrite _ _ _ _ h1
          have hT1 : TInv st1 := hT.wr hwr hbw
          have hbw1 : st1.bw.isSome = true := bwWrite_bw _ _ _ _ h1
          have ho1 : st1.oti = st.oti := hwr.same.oti
          rw [h1]
          cases r with
          | none => exact ⟨_, _, rfl, hT1, ho1⟩
          | some b =>
            cases b with
            | false => exact ⟨_, _, rfl, hT1, ho1⟩
            | true =>
              dsimp only
              have hd := bwWrite_true_src _ _ _ _ h1
              have e1 : st1.blocks = st.blocks := hwr.same.blocks
              have e2 : st1.blocksOffset = st.blocksOffset := hwr.off
              have hget1 : st1.blocks[sbn - st.blocksOffset]? = some blk := by rw [e1]; exact hblk
              have hc1 : CountOK st1 := by
                cases hT1.cnt with
                | inl c => exact c
                | inr d =>
                  have := d.2.2 blk (List.mem_of_getElem? hget1)
                  rw [this] at hcomp'
                  simp at hcomp'
              have hs := wsum_get _ _ _ hget1
              have hn := wcnt_get _ _ _ hget1
              have hb1 : bcnt blk = 1 := by simp [bcnt, hd]
              have := hc1.sum
              have := hc1.cnt
              rw [if_neg (by omega), if_neg (by omega)]
              obtain ⟨hTp, hbwp⟩ := tinv_popBlock hT1 hc1 _ blk hget1 hcomp' hd
              cases hw1 : st1.bw with
              | none => simp [hw1] at hbw1
              | some w =>
                dsimp only
                split
                · exact ⟨_, _, rfl, tinv_finishObject hTp w, by rw [finishObject_oti, popBlock_oti, ho1]⟩
                · have hm : (popBlock st1 (sbn - st.blocksOffset) blk).blocksOffset
                      + (popBlock st1 (sbn - st.blocksOffset) blk).blocks.length ≤ n + (sbn + 1) := by
                    unfold popBlock
                    dsimp only
                    split
                    · simp only [e1, e2]
                      have : st.blocks.tail.length = st.blocks.length - 1 := by simp
                      omega
                    · simp only [e1, e2, List.length_set]
                      omega
                  obtain ⟨st2, b2, h2, hT2, ho2⟩ := ih _ _ hm hTp (by rw [hbwp]; exact hbw1)
                  exact ⟨st2, b2, h2, hT2, by rw [ho2, popBlock_oti, ho1]⟩

theorem tinv_writeBlocks (P : Params) (D : DzOK P) (st : St) (sbn : Nat) (hT : TInv st) :
    ∃ st' b, writeBlocks P st sbn = .ok (st', b) ∧ TInv st' ∧ st'.oti = st.oti := by
  unfold writeBlocks
  split
  · exact ⟨_, _, rfl, hT, rfl⟩
  · split
    · exact ⟨_, _, rfl, hT, rfl⟩
    · split
      · exact ⟨_, _, rfl, hT, rfl⟩
      · rename_i w hw
        by_cases h : sbn < st.blocksOffset
        · unfold writeLoop; simp only [h, if_true]; exact ⟨_, _, rfl, hT, rfl⟩
        · exact tinv_writeLoop P D _ st sbn (by omega) hT (by simp [hw])

/-! ### push_to_block2 -/

theorem parsePayloadId_ok (o : Oti) (p : Pkt) :
    ∃ r, parsePayloadId o p = .ok r ∧ ∀ pid, r = some pid → ∀ s, pid.sbl = some s → s < 65536 := by
  unfold parsePayloadId
  split
  · split
    · dsimp only
      split
      · split
        · exact ⟨_, rfl, by intro pid h; cases h⟩
        · exact ⟨_, rfl, by intro pid h s hs; cases h; simp at hs⟩
      · split
        · exact ⟨_, rfl, by intro pid h; cases h⟩
        · exact ⟨_, rfl, by intro pid h s hs; cases h; simp at hs⟩
    · exact ⟨_, rfl, by intro pid h; cases h⟩
  · refine ⟨_, rfl, ?_⟩
    intro pid h s hs
    unfold inlinePayloadId at h
    dsimp only at h
    split at h <;> (try split at h) <;> first | (simp at h; done) | skip
    all_goals (cases h; simp at hs)
    subst hs
    exact Nat.mod_lt _ (by decide)

theorem tinv_setError {st : St} (h : TInv st) : TInv { st with state := .error } :=
  ⟨h.wbw, h.bwtl, h.otitl, h.noOti, h.tlFdt, h.blocks, h.part, h.rtl, h.roti, h.max,
   h.cnt.elim (fun c => .inl ⟨c.sum, c.cnt, c.le⟩) (fun d => .inr ⟨d.1, by simp, d.2.2⟩)⟩

theorem tinv_growBlocks {st : St} (h : TInv st) (ho : st.oti ≠ none) (off : Nat) :
    TInv (growBlocks st off) ∧ (CountOK st → CountOK (growBlocks st off)) := by
  unfold growBlocks
  split
  · refine ⟨⟨h.wbw, h.bwtl, h.otitl, fun hn => absurd hn ho, h.tlFdt, ?_, h.part, h.rtl, h.roti, h.max, ?_⟩, ?_⟩
    · intro b hb
      simp only [List.mem_append] at hb
      cases hb with
      | inl hm => exact h.blocks b hm
      | inr hm => rw [List.eq_of_mem_replicate hm]; exact binv_default
    · cases h.cnt with
      | inl c => exact .inl ⟨by simp only [wsum_append, wsum_replicate]; exact c.sum,
                            by simp only [wcnt_append, wcnt_replicate]; exact c.cnt, c.le⟩
      | inr d =>
        refine .inr ⟨d.1, d.2.1, ?_⟩
        intro b hb
        simp only [List.mem_append] at hb
        cases hb with
        | inl hm => exact d.2.2 b hm
        | inr hm => exact List.eq_of_mem_replicate hm
    · intro c
      exact ⟨by simp only [wsum_append, wsum_replicate]; exact c.sum,
             by simp only [wcnt_append, wcnt_replicate]; exact c.cnt, c.le⟩
  · exact ⟨h, id⟩

theorem growBlocks_get (st : St) (off : Nat) : ∃ b, (growBlocks st off).blocks[off]? = some b := by
  unfold growBlocks
  split
  · have : off < (st.blocks ++ List.replicate (off + 1 - st.blocks.length) ({} : Block)).length := by
      simp only [List.length_append, List.length_replicate]; omega
    exact ⟨_, List.getElem?_eq_getElem this⟩
  · rename_i hlt
    have : off < st.blocks.length := by omega
    exact ⟨_, List.getElem?_eq_getElem this⟩

theorem growBlocks_fields (st : St) (off : Nat) :
    (growBlocks st off).oti = st.oti ∧ (growBlocks st off).tl = st.tl ∧ (growBlocks st off).nbBlocks = st.nbBlocks ∧
    (growBlocks st off).bw = st.bw := by
  unfold growBlocks; split <;> exact ⟨rfl, rfl, rfl, rfl⟩

theorem init_shape (c : Codec) (b : Block) (o : Oti) (k bs sbn : Nat) (b' : Block)
    (hb : b.initialized = false) (h : b.init c o k bs sbn = .ok b') :
    b'.dec.isSome = true ∧ b'.initialized = true ∧ b'.blockSize = bs ∧ b'.completed = b.completed := by
  unfold Block.init at h
  rw [if_neg (by simp [hb])] at h
  split at h
  · simp at h
  dsimp only at h
  split at h
  · simp at h; rw [← h]; simp
  · split at h
    · simp at h; rw [← h]; simp
    · simp at h
  · split at h
    · simp at h; rw [← h]; simp
    · simp at h
  · simp at h
  · split at h
    · split at h
      · simp at h
      · simp at h; rw [← h]; simp
    · simp at h
  · split at h
    · simp at h
    · simp at h; rw [← h]; simp

theorem push_shape (c : Codec) (b : Block) (payload : Bytes) (esi : Nat) (hd : b.dec.isSome = true) (hc : b.completed = false) :
    ∃ b2, b.push c payload esi = some b2 ∧ b2.dec.isSome = true ∧ b2.blockSize = b.blockSize ∧ b2.initialized = b.initialized := by
  unfold Block.push
  rw [if_neg (by simp [hc])]
  cases hdec : b.dec with
  | none => simp [hdec] at hd
  | some d =>
    dsimp only
    split
    · exact ⟨_, rfl, hd, rfl, rfl⟩
    · split
      · exact ⟨_, rfl, rfl, rfl, rfl⟩
      · exact ⟨_, rfl, rfl, rfl, rfl⟩

theorem byteLen_le (p : Spec.Rfc5052) (l e sbn : Nat) : p.byteLen l e sbn ≤ l := by
  unfold Spec.Rfc5052.byteLen
  exact Nat.le_trans (Nat.sub_le _ _) (Nat.min_le_right _ _)

/-- the block length `push_to_block2` computes from the partition fields: no overflow, below the bound -/
theorem blockLength_ok {st : St} (hT : TInv st) {o : Oti} {tl : Nat} (ho : st.oti = some o) (htl : st.tl = some tl)
    (sbn : Nat) (hsbn : sbn < st.nbBlocks) :
    ∃ v, Partition.blockLength st.aLarge st.aSmall st.nbALarge tl o.e sbn = .ok v ∧ v < BL := by
  obtain ⟨o', l', ho', hl', hq⟩ := hT.part (by omega)
  rw [ho] at ho'; rw [htl] at hl'
  simp at ho' hl'; subst ho'; subst hl'
  have hl48 := hT.rtl _ htl
  have he16 := hT.roti _ ho
  have hpos : 0 < o.b ∧ 0 < o.e ∧ 0 < tl := by
    refine ⟨?_, ?_, ?_⟩ <;> (apply Nat.pos_of_ne_zero; intro hz)
    · rw [Flute.Props.C07.partition_degenerate _ _ _ (.inl hz)] at hq; simp at hq; omega
    · rw [Flute.Props.C07.partition_degenerate _ _ _ (.inr (.inl hz))] at hq; simp at hq; omega
    · rw [Flute.Props.C07.partition_degenerate _ _ _ (.inr (.inr hz))] at hq; simp at hq; omega
  refine ⟨_, Flute.Props.C07.block_length_eq_rfc o.b tl o.e sbn _ _ _ _ hpos.1 hpos.2.1 hpos.2.2 hl48 he16 hq hsbn, ?_⟩
  have := byteLen_le (Spec.rfc5052 tl o.e o.b) tl o.e sbn
  unfold BL; omega

theorem alloc_ok (P : Params) {st : St} (hT : TInv st) (c : CountOK st) {o : Oti} {tl : Nat}
    (ho : st.oti = some o) (htl : st.tl = some tl) (pid : PayloadId) (hsbn : pid.sbn < st.nbBlocks)
    (hsbl : ∀ s, pid.sbl = some s → s < 65536) (block : Block) (hB : BInv block) (hnc : block.completed = false) :
    ∃ st1 r, allocBlock P st o tl pid block = .ok (st1, r) ∧
      ((r = none ∧ st1 = { st with state := .error }) ∨
       (∃ b1 n1 t1, r = some b1 ∧ st1 = { st with nbAlloc := n1, totalAlloc := t1 } ∧ BInv b1 ∧ b1.dec.isSome = true ∧
          b1.completed = false ∧ t1 + block.blockSize = st.totalAlloc + b1.blockSize ∧
          n1 + bcnt block = st.nbAlloc + bcnt b1 ∧ t1 ≤ st.maxSize + 2 * BL)) := by
  unfold allocBlock
  split
  · rename_i hi
    exact ⟨st, some block, rfl, .inr ⟨block, st.nbAlloc, st.totalAlloc, rfl, rfl, hB, hB.live hi hnc, hnc, rfl, rfl, c.le⟩⟩
  · rename_i hi
    have hi' : block.initialized = false := by simpa using hi
    have hdn := hB.uninit hi'
    have hs0 := hB.size0 hdn
    have hc0 : bcnt block = 0 := by simp [bcnt, hdn]
    have he16 := hT.roti _ ho
    have hmax := hT.max
    have hle := c.le
    have hsum := wsum_le _ hT.blocks
    have hcs := c.sum
    have hcc := c.cnt
    have hBL : BL = 2^48 := rfl
    have hU : U64 = 2^64 := rfl
    dsimp only
    split
    · rename_i f heq
      exfalso
      split at heq
      · cases heq
      · obtain ⟨v, hv, _⟩ := blockLength_ok hT ho htl pid.sbn hsbn
        rw [hv] at heq; simp [liftRs] at heq
    rename_i v heq
    have hvb : v < BL := by
      split at heq
      · rename_i s hs
        have : sblOf st pid = s := by unfold sblOf; simp [hs]
        rw [this] at heq
        have h1 := hsbl s hs
        have : s * o.e < 65536 * 65536 := Nat.mul_lt_mul'' h1 (by omega)
        simp at heq
        omega
      · obtain ⟨v', hv, hvb⟩ := blockLength_ok hT ho htl pid.sbn hsbn
        rw [hv] at heq; simp [liftRs] at heq; omega
    rw [if_neg (by intro ⟨_, h⟩; omega)]
    split
    · exact ⟨_, _, rfl, .inl ⟨rfl, rfl⟩⟩
    · rename_i hlim
      cases hinit : block.init P.codec o (sblOf st pid) v pid.sbn with
      | err => exact ⟨_, _, rfl, .inl ⟨rfl, rfl⟩⟩
      | ok b =>
        dsimp only
        obtain ⟨h1, h2, h3, h4⟩ := init_shape _ _ _ _ _ _ _ hi' hinit
        have hlt : st.totalAlloc + v ≤ st.maxSize + 2 * BL := by
          by_cases h2n : 2 ≤ st.nbAlloc
          · have : ¬ st.maxSize < st.totalAlloc + v := fun hh => hlim ⟨h2n, hh⟩
            omega
          · have : wcnt st.blocks * BL ≤ 1 * BL := Nat.mul_le_mul_right _ (by omega)
            omega
        rw [if_neg (by omega)]
        refine ⟨_, _, rfl, .inr ⟨b, st.nbAlloc + 1, st.totalAlloc + v, rfl, rfl, ?_, h1, by rw [h4]; exact hnc, ?_, ?_, hlt⟩⟩
        · exact ⟨fun hh => by simp [h2] at hh, fun hh => by simp [hh] at h1, fun _ _ => h1, by rw [h3]; exact hvb⟩
        · omega
        · have : bcnt b = 1 := by simp [bcnt, h1]
          omega

/-- the invariant only reads these fields -/
theorem TInv.of_eq {st st' : St} (h : TInv st) (e1 : st'.writer = st.writer) (e2 : st'.bw = st.bw) (e3 : st'.tl = st.tl)
    (e4 : st'.oti = st.oti) (e5 : st'.blocks = st.blocks) (e6 : st'.blocksOffset = st.blocksOffset)
    (e7 : st'.nbBlocks = st.nbBlocks) (e8 : st'.fdtId = st.fdtId) (e9 : st'.aLarge = st.aLarge) (e10 : st'.aSmall = st.aSmall)
    (e11 : st'.nbALarge = st.nbALarge) (e12 : st'.maxSize = st.maxSize) (hc : CountOK st' ∨ Dead st') : TInv st' := by
  refine ⟨?_, ?_, ?_, ?_, ?_, ?_, ?_, ?_, ?_, ?_, hc⟩
  · rw [e1, e2]; exact h.wbw
  · rw [e2, e3]; exact h.bwtl
  · rw [e3, e4]; exact h.otitl
  · rw [e4, e5, e6, e7]; exact h.noOti
  · rw [e3, e4, e8]; exact h.tlFdt
  · rw [e5]; exact h.blocks
  · rw [e3, e4, e7, e9, e10, e11]; exact h.part
  · rw [e3]; exact h.rtl
  · rw [e4]; exact h.roti
  · rw [e12]; exact h.max

theorem tinv_store {stg : St} (hT : TInv stg) (off : Nat) (blk b2 : Block) (n1 t1 : Nat)
    (hget : stg.blocks[off]? = some blk) (c : CountOK stg) (hB2 : BInv b2)
    (ht : t1 + blk.blockSize = stg.totalAlloc + b2.blockSize) (hn : n1 + bcnt blk = stg.nbAlloc + bcnt b2)
    (hle : t1 ≤ stg.maxSize + 2 * BL) :
    TInv { ({ stg with nbAlloc := n1, totalAlloc := t1 } : St) with blocks := stg.blocks.set off b2 } := by
  have hoti : stg.oti ≠ none := fun ho => by have := (hT.noOti ho).1; simp [this] at hget
  have e1 := wsum_set _ _ _ b2 hget
  have e2 := wcnt_set _ _ _ b2 hget
  have := c.sum
  have := c.cnt
  refine ⟨hT.wbw, hT.bwtl, hT.otitl, fun ho => absurd ho hoti, hT.tlFdt, ?_, hT.part, hT.rtl, hT.roti, hT.max, .inl ⟨?_, ?_, hle⟩⟩
  · intro b hb
    cases List.mem_or_eq_of_mem_set hb with
    | inl hm => exact hT.blocks b hm
    | inr he => subst he; exact hB2
  · simp only; omega
  · simp only; omega

theorem tinv_pushToBlock2 (P : Params) (D : DzOK P) {st : St} (hT : TInv st) (c : CountOK st) (ho : st.oti ≠ none) (p : Pkt) :
    ∃ st' b, pushToBlock2 P st p = .ok (st', b) ∧ TInv st' ∧ st'.oti = st.oti := by
  unfold pushToBlock2
  split
  · rename_i o tl hoti htl
    obtain ⟨r, hr, hsblr⟩ := parsePayloadId_ok o p
    rw [hr]
    cases r with
    | none => exact ⟨_, _, rfl, hT, rfl⟩
    | some pid =>
      dsimp only
      split
      · rename_i h0
        have hbn : st.bw = none := by
          cases hb : st.bw with
          | none => rfl
          | some w => obtain ⟨T, h1, h2⟩ := hT.bwtl w hb; rw [htl] at h1; simp at h1; omega
        rw [if_neg (by simp [hbn])]
        refine ⟨_, _, rfl, ?_, ?_⟩
        · split
          · split
            · exact tinv_complete hT
            · exact tinv_error _ hT
          · exact hT
        · split
          · split <;> simp
          · rfl
      · split
        · exact ⟨_, _, rfl, hT, rfl⟩
        · split
          · exact ⟨_, _, rfl, hT, rfl⟩
          · split
            · exact ⟨_, _, rfl, tinv_setError hT, rfl⟩
            · rename_i hnb _ _
              obtain ⟨blk, hblk⟩ := growBlocks_get st (pid.sbn - st.blocksOffset)
              rw [hblk]
              dsimp only
              obtain ⟨hTg, hcg⟩ := tinv_growBlocks hT ho (pid.sbn - st.blocksOffset)
              obtain ⟨g1, g2, g3, g4⟩ := growBlocks_fields st (pid.sbn - st.blocksOffset)
              split
              · exact ⟨_, _, rfl, hTg, g1⟩
              · rename_i hnc
                obtain ⟨st1, r1, ha, hcase⟩ := alloc_ok P hTg (hcg c) (o := o) (tl := tl) (by rw [g1]; exact hoti)
                  (by rw [g2]; exact htl) pid (by rw [g3]; omega) (hsblr pid rfl) blk
                  (hTg.blocks blk (List.mem_of_getElem? hblk)) (by simpa using hnc)
                rw [ha]
                rcases hcase with ⟨rfl, rfl⟩ | ⟨b1, n1, t1, rfl, rfl, hB1, hd1, hc1, ht, hn, hle⟩
                · exact ⟨_, _, rfl, tinv_setError hTg, g1⟩
                · dsimp only
                  obtain ⟨b2, hp, hd2, hs2, hi2⟩ := push_shape P.codec b1 p.payload pid.esi hd1 hc1
                  rw [hp]
                  dsimp only
                  have hB2 : BInv b2 :=
                    ⟨fun h => by rw [hi2] at h; have := hB1.uninit h; simp [this] at hd1, fun h => by simp [h] at hd2,
                     fun _ _ => hd2, by rw [hs2]; exact hB1.bound⟩
                  have hb12 : bcnt b2 = bcnt b1 := by simp [bcnt, hd1, hd2]
                  have hT2 := tinv_store hTg (pid.sbn - st.blocksOffset) blk b2 n1 t1 hblk (hcg c) hB2
                    (by rw [hs2]; exact ht) (by rw [hb12]; exact hn) hle
                  split
                  · obtain ⟨st', b, hw, hT', ho'⟩ := tinv_writeBlocks P D _ pid.sbn hT2
                    exact ⟨st', b, hw, hT', by rw [ho']; exact g1⟩
                  · exact ⟨_, _, rfl, hT2, g1⟩
  · rename_i hno
    exfalso
    cases hoti : st.oti with
    | none => exact ho hoti
    | some o =>
      have := hT.otitl (by simp [hoti])
      cases htl : st.tl with
      | none => simp [htl] at this
      | some tl => exact hno o tl hoti htl

theorem tinv_pushToBlock (P : Params) (D : DzOK P) {st : St} (hT : TInv st) (c : CountOK st) (ho : st.oti ≠ none) (p : Pkt) :
    ∃ st' b, pushToBlock P st p = .ok (st', b) ∧ TInv st' ∧ st'.oti = st.oti := by
  unfold pushToBlock
  obtain ⟨st1, b, h1, hT1, ho1⟩ := tinv_pushToBlock2 P D hT c ho p
  rw [h1]
  cases b with
  | false => exact ⟨_, _, rfl, hT1, ho1⟩
  | true =>
    dsimp only
    split
    · exact ⟨_, _, rfl, tinv_error _ hT1, by simp [ho1]⟩
    · exact ⟨_, _, rfl, hT1, ho1⟩

theorem tinv_cacheLoop (P : Params) (D : DzOK P) :
    ∀ (fuel : Nat) (st : St), TInv st → st.oti ≠ none → ∃ st', cacheLoop P fuel st = .ok st' ∧ TInv st' := by
  intro fuel
  induction fuel with
  | zero => intro st hT _; unfold cacheLoop; exact ⟨_, rfl, hT⟩
  | succ n ih =>
    intro st hT ho
    unfold cacheLoop
    split
    · exact ⟨_, rfl, hT⟩
    · rename_i p rest hc
      have c : CountOK st := hT.cnt.resolve_right (fun d => by have := d.1; simp [hc] at this)
      have hT0 : TInv { st with cache := rest } :=
        hT.of_eq rfl rfl rfl rfl rfl rfl rfl rfl rfl rfl rfl rfl (.inl ⟨c.sum, c.cnt, c.le⟩)
      obtain ⟨st1, b, h1, hT1, ho1⟩ := tinv_pushToBlock P D hT0 ⟨c.sum, c.cnt, c.le⟩ ho p
      rw [h1]
      cases b with
      | false => exact ⟨_, rfl, tinv_error _ hT1⟩
      | true => exact ih _ hT1 (by rw [ho1]; exact ho)

theorem tinv_pushFromCache (P : Params) (D : DzOK P) {st : St} (hT : TInv st) :
    ∃ st', pushFromCache P st = .ok st' ∧ TInv st' := by
  unfold pushFromCache
  split
  · exact ⟨_, rfl, hT⟩
  · rename_i hnb
    have ho : st.oti ≠ none := by
      intro hn
      obtain ⟨h1, h2, _⟩ := hT.noOti hn
      exact hnb (by unfold St.nbBlock; simp [h1, h2])
    obtain ⟨st1, h1, hT1⟩ := tinv_cacheLoop P D _ st hT ho
    rw [h1]
    exact ⟨_, rfl, hT1.of_eq rfl rfl rfl rfl rfl rfl rfl rfl rfl rfl rfl rfl
      (hT1.cnt.elim (fun c => .inl ⟨c.sum, c.cnt, c.le⟩) (fun d => .inr ⟨d.1, d.2.1, d.2.2⟩))⟩

/-! ### push, attach_fdt, Drop -/

/-- what the parser guarantees about an EXT_FTI: 48-bit transfer length, 16-bit encoding symbol length -/
def WfPkt (p : Pkt) : Prop := ∀ o l, p.fti = some (o, l) → l < 2^48 ∧ o.e < 2^16

/-- the same ranges for what an FDT File entry announces -/
def WfFile (f : FileEntry) : Prop := f.tl < 2^48 ∧ ∀ o, f.oti = some o → o.e < 2^16

def WfOp : Op → Prop
  | .push p => WfPkt p
  | .attach _ none => True
  | .attach _ (some f) => WfFile f

theorem bp_total (b l e : Nat) (hl : l < 2^64) : ∃ q, blockPartitioning b l e = .ok q := by
  by_cases hb : b = 0
  · exact ⟨_, Flute.Props.C07.partition_degenerate _ _ _ (.inl hb)⟩
  by_cases he : e = 0
  · exact ⟨_, Flute.Props.C07.partition_degenerate _ _ _ (.inr (.inl he))⟩
  by_cases hl0 : l = 0
  · exact ⟨_, Flute.Props.C07.partition_degenerate _ _ _ (.inr (.inr hl0))⟩
  exact ⟨_, Flute.Lemmas.Partition.bp_shape b l e (Nat.pos_of_ne_zero hb) (Nat.pos_of_ne_zero he) (Nat.pos_of_ne_zero hl0) hl⟩

theorem tinv_initBP {st : St} (hT : TInv st) : ∃ st', initBlocksPartitioning st = .ok st' ∧ TInv st' := by
  unfold initBlocksPartitioning
  split
  · exact ⟨_, rfl, hT⟩
  · rename_i hnb
    have hbl : st.blocks = [] := by
      unfold St.nbBlock at hnb
      exact List.eq_nil_of_length_eq_zero (by omega)
    split
    · rename_i o tl hoti htl
      have hl := hT.rtl _ htl
      obtain ⟨⟨aL, aS, nL, n⟩, hq⟩ := bp_total o.b tl o.e (by omega)
      rw [hq]
      simp only [liftRs]
      refine ⟨_, rfl, hT.wbw, hT.bwtl, hT.otitl, (fun hn => by rw [hoti] at hn; cases hn), hT.tlFdt, ?_,
        fun _ => ⟨o, tl, hoti, htl, hq⟩, hT.rtl, hT.roti, hT.max, ?_⟩
      · intro b hb; rw [List.eq_of_mem_replicate hb]; exact binv_default
      · cases hT.cnt with
        | inl c =>
          refine .inl ⟨?_, ?_, c.le⟩
          · have := c.sum; rw [hbl] at this; simp only [wsum_replicate]; exact this
          · have := c.cnt; rw [hbl] at this; simp only [wcnt_replicate]; exact this
        | inr d => exact .inr ⟨d.1, d.2.1, fun b hb => List.eq_of_mem_replicate hb⟩
    · exact ⟨_, rfl, hT⟩

theorem tinv_openWriter (pl : Plan) {st : St} (hT : TInv st) (hw : st.writer = none) (tl : Nat) (htl : st.tl = some tl)
    (cenc : Cenc) : ∃ st', openWriter pl st tl cenc = .ok st' ∧ TInv st' := by
  have hbn := hT.wbw hw
  unfold openWriter
  dsimp only
  rw [if_neg (by simp [hbn])]
  split
  · refine ⟨_, rfl, tinv_error _ ?_⟩
    exact ⟨fun h => by simp at h, hT.bwtl, hT.otitl, hT.noOti, hT.tlFdt, hT.blocks, hT.part, hT.rtl, hT.roti, hT.max,
      hT.cnt.elim (fun c => .inl ⟨c.sum, c.cnt, c.le⟩) (fun d => .inr ⟨d.1, d.2.1, d.2.2⟩)⟩
  · refine ⟨_, rfl, fun h => by simp at h, ?_, hT.otitl, hT.noOti, hT.tlFdt, hT.blocks, hT.part, hT.rtl, hT.roti, hT.max,
      hT.cnt.elim (fun c => .inl ⟨c.sum, c.cnt, c.le⟩) (fun d => .inr ⟨d.1, d.2.1, d.2.2⟩)⟩
    intro w hwb
    dsimp only at hwb
    by_cases h0 : tl = 0
    · simp [h0, hbn] at hwb
    · exact ⟨tl, htl, h0⟩

theorem tinv_initObjectWriter (P : Params) {st : St} (hT : TInv st) : ∃ st', initObjectWriter P st = .ok st' ∧ TInv st' := by
  unfold initObjectWriter
  split
  · exact ⟨_, rfl, hT⟩
  · rename_i hw
    have hw' : st.writer = none := by simpa using hw
    split
    · rename_i _ cenc tl _ _ _ htl _
      dsimp only
      have hT2 : TInv { st with wIdx := st.nBuilder, nBuilder := st.nBuilder + 1,
                                out := .new st.meta (P.env.plan st.nBuilder).ans :: st.out } :=
        hT.of_eq rfl rfl rfl rfl rfl rfl rfl rfl rfl rfl rfl rfl
          (hT.cnt.elim (fun c => .inl ⟨c.sum, c.cnt, c.le⟩) (fun d => .inr ⟨d.1, d.2.1, d.2.2⟩))
      split
      · exact ⟨_, rfl, hT2.of_eq rfl rfl rfl rfl rfl rfl rfl rfl rfl rfl rfl rfl
          (hT2.cnt.elim (fun c => .inl ⟨c.sum, c.cnt, c.le⟩) (fun d => .inr ⟨d.1, by simp, d.2.2⟩))⟩
      · exact ⟨_, rfl, hT2.of_eq rfl rfl rfl rfl rfl rfl rfl rfl rfl rfl rfl rfl
          (hT2.cnt.elim (fun c => .inl ⟨c.sum, c.cnt, c.le⟩) (fun d => .inr ⟨d.1, by simp, d.2.2⟩))⟩
      · exact tinv_openWriter _ hT2 hw' tl htl cenc
    · exact ⟨_, rfl, hT⟩

theorem tinv_setCencFromPkt {st : St} (hT : TInv st) (p : Pkt) : TInv (setCencFromPkt st p) := by
  unfold setCencFromPkt
  split
  · exact hT
  · exact hT.of_eq rfl rfl rfl rfl rfl rfl rfl rfl rfl rfl rfl rfl
      (hT.cnt.elim (fun c => .inl ⟨c.sum, c.cnt, c.le⟩) (fun d => .inr ⟨d.1, d.2.1, d.2.2⟩))

theorem tinv_setOtiFromPkt {st : St} (hT : TInv st) (p : Pkt) (hp : WfPkt p) : TInv (setOtiFromPkt st p) := by
  unfold setOtiFromPkt
  split
  · exact hT
  · rename_i hno
    have hno' : st.oti = none := by simpa using hno
    split
    · exact hT
    · rename_i o tl hfti
      obtain ⟨hl, he⟩ := hp o tl hfti
      refine ⟨hT.wbw, ?_, ?_, fun h => by simp at h, fun h => by simp at h, hT.blocks, ?_, ?_, ?_, hT.max,
        hT.cnt.elim (fun c => .inl ⟨c.sum, c.cnt, c.le⟩) (fun d => .inr ⟨d.1, d.2.1, d.2.2⟩)⟩
      · intro w hw
        obtain ⟨T, h1, h2⟩ := hT.bwtl w hw
        exact ⟨T, by simp [h1], h2⟩
      · intro _; dsimp only; cases h : st.tl <;> simp
      · intro hn; exact absurd (hT.noOti hno').2.2 hn
      · intro l hl'
        dsimp only at hl'
        split at hl'
        · simp at hl'; omega
        · exact hT.rtl l hl'
      · intro o' ho'; simp at ho'; subst ho'; exact he

theorem tinv_cachePkt {st : St} (hT : TInv st) (c : CountOK st) (p : Pkt) : TInv (cachePkt st p).1 := by
  unfold cachePkt
  split
  · exact hT
  · split
    · exact hT
    · exact hT.of_eq rfl rfl rfl rfl rfl rfl rfl rfl rfl rfl rfl rfl (.inl ⟨c.sum, c.cnt, c.le⟩)

/-- **`push` is total on reachable states** -/
theorem tinv_push (P : Params) (D : DzOK P) {st : St} (hT : TInv st) (p : Pkt) (hp : WfPkt p) :
    ∃ st', push P st p = .ok st' ∧ TInv st' := by
  unfold push
  split
  · exact ⟨_, rfl, hT⟩
  · obtain ⟨s1, e1, T1⟩ := tinv_initBP (tinv_setOtiFromPkt (tinv_setCencFromPkt hT p) p hp)
    rw [e1]
    dsimp only
    obtain ⟨s2, e2, T2⟩ := tinv_initObjectWriter P T1
    rw [e2]
    dsimp only
    obtain ⟨s3, e3, T3⟩ := tinv_pushFromCache P D T2
    rw [e3]
    dsimp only
    split
    · exact ⟨_, rfl, T3⟩
    · rename_i hrec
      have c3 : CountOK s3 := T3.cnt.resolve_right (fun d => d.2.1 (by simpa using hrec))
      split
      · have hc := tinv_cachePkt T3 c3 p
        split
        · rename_i s4 heq; rw [heq] at hc; exact ⟨_, rfl, hc⟩
        · rename_i s4 heq; rw [heq] at hc; exact ⟨_, rfl, tinv_error _ hc⟩
      · rename_i hoti
        have ho : s3.oti ≠ none := by intro h; simp [h] at hoti
        obtain ⟨s4, b, e4, T4, _⟩ := tinv_pushToBlock P D T3 c3 ho p
        rw [e4]
        cases b with
        | true => exact ⟨_, rfl, T4⟩
        | false => exact ⟨_, rfl, tinv_error _ T4⟩

theorem tinv_attachMeta {st : St} (hT : TInv st) (hf : st.fdtId = none) (fdtId : Nat) (f : FileEntry) (hwf : WfFile f) :
    ∃ st', attachMeta st fdtId f = .ok st' ∧ TInv st' := by
  unfold attachMeta
  dsimp only
  have hcnt : ∀ s : St, s.blocks = st.blocks → s.totalAlloc = st.totalAlloc → s.nbAlloc = st.nbAlloc → s.maxSize = st.maxSize →
      s.cache = st.cache → s.state = st.state → (CountOK s ∨ Dead s) := by
    intro s e1 e2 e3 e4 e5 e6
    cases hT.cnt with
    | inl c => exact .inl ⟨by rw [e1, e2]; exact c.sum, by rw [e1, e3]; exact c.cnt, by rw [e2, e4]; exact c.le⟩
    | inr d => exact .inr ⟨by rw [e5]; exact d.1, by rw [e6]; exact d.2.1, by rw [e1]; exact d.2.2⟩
  cases ho : st.oti with
  | none =>
    cases ht : st.tl with
    | some l => have := hT.tlFdt ho (by simp [ht]); simp [hf] at this
    | none =>
      simp only [Option.isNone_none, Option.isSome_none, and_false, if_false, if_true, Bool.false_eq_true]
      refine ⟨_, rfl, hT.wbw, ?_, fun _ => rfl, ?_, fun _ _ => rfl, hT.blocks, ?_, ?_, ?_, hT.max,
        hcnt _ rfl rfl rfl rfl rfl rfl⟩
      · intro w hw; obtain ⟨T, h1, _⟩ := hT.bwtl w hw; rw [ht] at h1; cases h1
      · intro _; exact hT.noOti ho
      · intro hn; exact absurd (hT.noOti ho).2.2 hn
      · intro l hl; simp at hl; rw [← hl]; exact hwf.1
      · intro o ho'; exact hwf.2 o ho'
  | some o =>
    have := hT.otitl (by simp [ho])
    cases ht : st.tl with
    | none => simp [ht] at this
    | some l =>
      simp only [Option.isNone_some, Option.isSome_some, false_and, if_false, Bool.false_eq_true]
      refine ⟨_, rfl, hT.wbw, ?_, fun _ => rfl, (fun h => by cases h), fun _ _ => rfl, hT.blocks, ?_, ?_, ?_, hT.max,
        hcnt _ rfl rfl rfl rfl rfl rfl⟩
      · intro w hw; obtain ⟨T, h1, h2⟩ := hT.bwtl w hw; rw [ht] at h1; exact ⟨T, h1, h2⟩
      · intro hn; obtain ⟨o', l', h1, h2, h3⟩ := hT.part hn; rw [ho] at h1; rw [ht] at h2; exact ⟨o', l', h1, h2, h3⟩
      · intro l' hl; exact hT.rtl l' (by rw [ht]; exact hl)
      · intro o' ho'; exact hT.roti o' (by rw [ho]; exact ho')

/-- **`attach_fdt` is total on reachable states** -/
theorem tinv_attachFdtOld (P : Params) (D : DzOK P) {st : St} (hT : TInv st) (fdtId : Nat) (file : Option FileEntry)
    (hwf : WfOp (.attach fdtId file)) : ∃ st' b, attachFdtOld P st fdtId file = .ok (st', b) ∧ TInv st' := by
  unfold attachFdtOld attachCore
  split
  · exact ⟨_, _, rfl, hT⟩
  · rename_i hfd
    have hfd' : st.fdtId = none := by simpa using hfd
    split
    · exact ⟨_, _, rfl, hT⟩
    · rename_i f
      obtain ⟨s0, e0, T0⟩ := tinv_attachMeta hT hfd' fdtId f hwf
      rw [e0]
      dsimp only
      obtain ⟨s1, e1, T1⟩ := tinv_initBP T0
      rw [e1]
      dsimp only
      obtain ⟨s2, e2, T2⟩ := tinv_initObjectWriter P T1
      rw [e2]
      dsimp only
      obtain ⟨s3, e3, T3⟩ := tinv_pushFromCache P D T2
      rw [e3]
      dsimp only
      obtain ⟨s4, ok, e4, T4, _⟩ := tinv_writeBlocks P D s3 0 T3
      rw [e4]
      dsimp only
      have T5 : TInv (if ok = true then s4 else error s4 false) := by
        split
        · exact T4
        · exact tinv_error _ T4
      obtain ⟨s6, e6, T6⟩ := tinv_pushFromCache P D T5
      rw [e6]
      exact ⟨_, _, rfl, T6⟩


theorem tinv_reset {st : St} (hT : TInv st) (hw : st.writer = none) : TInv (resetOti st) := by
  have hbw := hT.wbw hw
  refine ⟨fun _ => hbw, ?_, fun h => by simp [resetOti] at h, fun _ => ⟨rfl, rfl, rfl⟩, fun _ h => by simp [resetOti] at h,
    fun b hb => by simp [resetOti] at hb, fun h => absurd rfl h, fun l h => by simp [resetOti] at h,
    fun o h => by simp [resetOti] at h, hT.max, .inl ⟨rfl, rfl, Nat.zero_le _⟩⟩
  intro w h
  have : st.bw = some w := h
  rw [hbw] at this; cases this

/-- the confrontation of the in-band OTI with the File entry returns (the partition of the FDT values does not overflow) -/
theorem fdtConflict_total (st : St) (f : FileEntry) (hwf : WfFile f) : ∃ c, fdtConflict st f = .ok c := by
  unfold fdtConflict
  split
  · exact ⟨_, rfl⟩
  · split
    · rename_i o fo _ _
      split
      · exact ⟨_, rfl⟩
      · obtain ⟨q, hq⟩ := bp_total fo.b f.tl fo.e (by have := hwf.1; omega)
        rw [hq]; simp only [liftRs]; exact ⟨_, rfl⟩
    · exact ⟨_, rfl⟩

/-- **`attach_fdt` is total on reachable states** -/
theorem tinv_attachFdt (P : Params) (D : DzOK P) {st : St} (hT : TInv st) (fdtId : Nat) (file : Option FileEntry)
    (hwf : WfOp (.attach fdtId file)) : ∃ st' b, attachFdt P st fdtId file = .ok (st', b) ∧ TInv st' := by
  unfold attachFdt
  split
  · exact ⟨_, _, rfl, hT⟩
  · rename_i hfd
    split
    · exact ⟨_, _, rfl, hT⟩
    · rename_i f
      obtain ⟨c, hc⟩ := fdtConflict_total st f hwf
      rw [hc]
      dsimp only
      cases c with
      | false =>
        have := tinv_attachFdtOld P D hT fdtId (some f) hwf
        unfold attachFdtOld at this
        rw [if_neg hfd] at this
        simpa using this
      | true =>
        have hw := fdtConflict_writer hc
        have := tinv_attachFdtOld P D (tinv_reset hT hw) fdtId (some f) hwf
        unfold attachFdtOld at this
        have hf2 : ¬ (resetOti st).fdtId.isSome = true := by simpa [resetOti] using hfd
        rw [if_neg hf2] at this
        simpa using this

theorem tinv_drop {st : St} (hT : TInv st) : TInv (drop st) := by
  unfold drop
  split
  · exact tinv_error _ hT
  · exact tinv_error _ hT
  · exact hT

theorem tinv_step (P : Params) (D : DzOK P) {st : St} (hT : TInv st) (op : Op) (hop : WfOp op) :
    ∃ st', step P st op = .ok st' ∧ TInv st' := by
  cases op with
  | push p => simpa [step] using tinv_push P D hT p hop
  | attach id f =>
    obtain ⟨st', b, h, hT'⟩ := tinv_attachFdt P D hT id f hop
    exact ⟨st', by simp [step, h], hT'⟩

theorem tinv_run (P : Params) (D : DzOK P) (ops : List Op) :
    ∀ {st : St}, TInv st → (∀ op ∈ ops, WfOp op) → ∃ st', run P st ops = .ok st' ∧ TInv st' := by
  induction ops with
  | nil => intro st hT _; exact ⟨_, rfl, hT⟩
  | cons op r ih =>
    intro st hT hops
    obtain ⟨s1, e1, T1⟩ := tinv_step P D hT op (hops op (List.mem_cons_self ..))
    obtain ⟨s2, e2, T2⟩ := ih T1 (fun x hx => hops x (List.mem_cons_of_mem _ hx))
    exact ⟨s2, by simp [run, e1, e2], T2⟩

theorem wsum_default (l : List Block) (h : ∀ b ∈ l, b = {}) : wsum l = 0 := by
  induction l with
  | nil => rfl
  | cons x r ih =>
    have hx := h x (List.mem_cons_self ..)
    subst hx
    simp [wsum, ih (fun b hb => h b (List.mem_cons_of_mem _ hb))]

/-- the bytes of all allocated source blocks of the deque stay within the configured limit plus two blocks -/
theorem TInv.blocks_bounded {st : St} (h : TInv st) : wsum st.blocks ≤ st.maxSize + 2 * BL := by
  cases h.cnt with
  | inl c => rw [← c.sum]; exact c.le
  | inr d => rw [wsum_default _ d.2.2]; omega

/-- the INPUT-side assumptions under which every history runs to the end (`tinv_run`): the decompressor meets its contract, the
    configured `max_size_allocated` is below 2^63, every packet / FDT entry has the ranges the parsers guarantee -/
structure Feasible (P : Params) (maxSize : Nat) (ops : List Op) : Prop where
  dz : Nonempty (DzOK P)
  max : maxSize < 2^63
  wf : ∀ op ∈ ops, WfOp op

/-- under `Feasible` the run returns; whatever holds for every returned run holds for it -/
theorem Feasible.elim {P : Params} {maxSize : Nat} {ops : List Op} (F : Feasible P maxSize ops) (toi : Nat) {Q : St → Prop}
    (hq : ∀ st', run P (St.new toi maxSize) ops = .ok st' → Q st') :
    ∃ st', run P (St.new toi maxSize) ops = .ok st' ∧ Q st' := by
  obtain ⟨D⟩ := F.dz
  obtain ⟨st', h, _⟩ := tinv_run P D ops (tinv_new toi maxSize F.max) F.wf
  exact ⟨st', h, hq st' h⟩

end Flute.ObjRecv
