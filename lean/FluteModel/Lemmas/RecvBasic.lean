import FluteModel.Recv
/-
  Helper lemmas about the session-level receiver model (`FluteModel/Recv.lean`):
  association lists, which functions can emit which events, frame properties.
-/
namespace Flute.Recv
variable {σ : Type}

/-! ### association lists -/

theorem alookup_ainsert_self {α} (k : Nat) (v : α) (l : List (Nat × α)) :
    alookup k (ainsert k v l) = some v := by
  induction l with
  | nil => simp [ainsert, alookup]
  | cons a r ih =>
    obtain ⟨k', v'⟩ := a
    by_cases h : k' = k
    · simp [ainsert, alookup, h]
    · simp [ainsert, alookup, h, ih]

theorem alookup_mem {α} {k : Nat} {v : α} {l : List (Nat × α)} (h : alookup k l = some v) :
    (k, v) ∈ l := by
  induction l with
  | nil => simp [alookup] at h
  | cons a r ih =>
    obtain ⟨k', v'⟩ := a
    by_cases hk : k' = k
    · simp [alookup, hk] at h; subst h; subst hk; simp
    · simp [alookup, hk] at h; exact List.mem_cons_of_mem _ (ih h)

theorem mem_ainsert {α} {k : Nat} {v : α} {l : List (Nat × α)} {x : Nat × α}
    (h : x ∈ ainsert k v l) : x = (k, v) ∨ x ∈ l := by
  induction l with
  | nil => simp [ainsert] at h; exact Or.inl h
  | cons a r ih =>
    obtain ⟨k', v'⟩ := a
    by_cases hk : k' = k
    · simp [ainsert, hk] at h
      rcases h with h | h
      · exact Or.inl h
      · exact Or.inr (List.mem_cons_of_mem _ h)
    · simp [ainsert, hk] at h
      rcases h with h | h
      · exact Or.inr (by rw [h]; simp)
      · rcases ih h with h | h
        · exact Or.inl h
        · exact Or.inr (List.mem_cons_of_mem _ h)

theorem mem_aerase {α} {k : Nat} {l : List (Nat × α)} {x : Nat × α}
    (h : x ∈ aerase k l) : x ∈ l := by
  induction l with
  | nil => simp [aerase] at h
  | cons a r ih =>
    obtain ⟨k', v'⟩ := a
    by_cases hk : k' = k
    · simp [aerase, hk] at h; exact List.mem_cons_of_mem _ (ih h)
    · simp [aerase, hk] at h
      rcases h with h | h
      · rw [h]; simp
      · exact List.mem_cons_of_mem _ (ih h)

/-! ### events: who can emit `Ev.attach` -/

/-- no ghost attach event in the list -/
def NoAttach (evs : List Ev) : Prop := ∀ t i, Ev.attach t i ∉ evs

theorem NoAttach.nil : NoAttach [] := by intro t i; simp

theorem NoAttach.append {a b : List Ev} (ha : NoAttach a) (hb : NoAttach b) : NoAttach (a ++ b) := by
  intro t i h
  rcases List.mem_append.mp h with h | h
  · exact ha t i h
  · exact hb t i h

theorem noAttach_wevs (toi : Nat) (l : List WEv) : NoAttach (wevs toi l) := by
  intro t i h
  simp [wevs] at h

theorem removeObject_noAttach (I : ObjIface σ) (s : State σ) (toi : Nat) :
    NoAttach (removeObject I s toi).2 := by
  unfold removeObject
  split
  · exact NoAttach.nil
  · exact noAttach_wevs _ _

theorem gcObjectError_noAttach (I : ObjIface σ) (fuel : Nat) (s : State σ) :
    NoAttach (gcObjectError I fuel s).2 := by
  induction fuel generalizing s with
  | zero => simp [gcObjectError]; exact NoAttach.nil
  | succ n ih =>
    unfold gcObjectError
    split
    · split
      · exact NoAttach.nil
      · exact NoAttach.append (removeObject_noAttach _ _ _) (ih _)
    · exact NoAttach.nil

theorem checkObjectState_noAttach (I : ObjIface σ) (s : State σ) (toi : Nat) :
    NoAttach (checkObjectState I s toi).2 := by
  unfold checkObjectState
  split
  · exact NoAttach.nil
  · split
    · exact NoAttach.nil
    · exact removeObject_noAttach _ _ _
    · exact NoAttach.append (gcObjectError_noAttach _ _ _) (removeObject_noAttach _ _ _)
    · exact NoAttach.append (gcObjectError_noAttach _ _ _) (removeObject_noAttach _ _ _)

theorem checkObjectStates_noAttach (I : ObjIface σ) (s : State σ) (l : List Nat) :
    NoAttach (checkObjectStates I s l).2 := by
  induction l generalizing s with
  | nil => simp [checkObjectStates]; exact NoAttach.nil
  | cons t ts ih =>
    simp only [checkObjectStates]
    exact NoAttach.append (checkObjectState_noAttach _ _ _) (ih _)

/-! ### frame: functions that never touch the FDT registries -/

theorem removeObject_fdt (I : ObjIface σ) (s : State σ) (toi : Nat) :
    (removeObject I s toi).1.fdtCurrent = s.fdtCurrent ∧
    (removeObject I s toi).1.fdtReceivers = s.fdtReceivers ∧
    (removeObject I s toi).1.cfg = s.cfg := by
  unfold removeObject
  split <;> simp

theorem gcObjectError_fdt (I : ObjIface σ) (fuel : Nat) (s : State σ) :
    (gcObjectError I fuel s).1.fdtCurrent = s.fdtCurrent ∧
    (gcObjectError I fuel s).1.fdtReceivers = s.fdtReceivers ∧
    (gcObjectError I fuel s).1.cfg = s.cfg := by
  induction fuel generalizing s with
  | zero => simp [gcObjectError]
  | succ n ih =>
    unfold gcObjectError
    split
    · split
      · simp
      · rename_i toi rest _
        have h1 := removeObject_fdt I { s with errors := rest } toi
        have h2 := ih (removeObject I { s with errors := rest } toi).1
        simp only [] at h1
        refine ⟨?_, ?_, ?_⟩
        · rw [h2.1, h1.1]
        · rw [h2.2.1, h1.2.1]
        · rw [h2.2.2, h1.2.2]
    · simp

theorem checkObjectState_fdt (I : ObjIface σ) (s : State σ) (toi : Nat) :
    (checkObjectState I s toi).1.fdtCurrent = s.fdtCurrent ∧
    (checkObjectState I s toi).1.fdtReceivers = s.fdtReceivers ∧
    (checkObjectState I s toi).1.cfg = s.cfg := by
  unfold checkObjectState
  split
  · simp
  · split
    · simp
    · rename_i o _ _ _
      have hX : ∀ X : State σ, X.fdtCurrent = s.fdtCurrent ∧ X.fdtReceivers = s.fdtReceivers ∧ X.cfg = s.cfg →
          (removeObject I X toi).1.fdtCurrent = s.fdtCurrent ∧
          (removeObject I X toi).1.fdtReceivers = s.fdtReceivers ∧
          (removeObject I X toi).1.cfg = s.cfg := by
        intro X hX
        have h := removeObject_fdt I X toi
        exact ⟨by rw [h.1, hX.1], by rw [h.2.1, hX.2.1], by rw [h.2.2, hX.2.2]⟩
      apply hX
      split <;> simp
    all_goals
      have h2 := gcObjectError_fdt I (sinsert toi s.errors).length { s with errors := sinsert toi s.errors }
      have h3 := removeObject_fdt I (gcObjectError I (sinsert toi s.errors).length { s with errors := sinsert toi s.errors }).1 toi
      simp only [] at h2 h3 ⊢
      refine ⟨by rw [h3.1, h2.1], by rw [h3.2.1, h2.2.1], by rw [h3.2.2, h2.2.2]⟩

theorem checkObjectStates_fdt (I : ObjIface σ) (s : State σ) (l : List Nat) :
    (checkObjectStates I s l).1.fdtCurrent = s.fdtCurrent ∧
    (checkObjectStates I s l).1.fdtReceivers = s.fdtReceivers ∧
    (checkObjectStates I s l).1.cfg = s.cfg := by
  induction l generalizing s with
  | nil => simp [checkObjectStates]
  | cons t ts ih =>
    simp only [checkObjectStates]
    have h1 := checkObjectState_fdt I s t
    have h2 := ih (checkObjectState I s t).1
    refine ⟨by rw [h2.1, h1.1], by rw [h2.2.1, h1.2.1], by rw [h2.2.2, h1.2.2]⟩

/-! ### the FTI-conflict test at the head of `push_fdt_obj` -/

theorem dropConflict_frame (s : State σ) (p : Pkt) :
    (dropConflict s p).objects = s.objects ∧ (dropConflict s p).completed = s.completed ∧
    (dropConflict s p).errors = s.errors ∧ (dropConflict s p).fdtCurrent = s.fdtCurrent ∧
    (dropConflict s p).cfg = s.cfg ∧ (dropConflict s p).closedImminent = s.closedImminent ∧
    (∀ kf ∈ (dropConflict s p).fdtReceivers, kf ∈ s.fdtReceivers) := by
  unfold dropConflict
  split
  · exact ⟨rfl, rfl, rfl, rfl, rfl, rfl, fun _ h => h⟩
  · split
    · exact ⟨rfl, rfl, rfl, rfl, rfl, rfl, fun _ h => h⟩
    · split
      · exact ⟨rfl, rfl, rfl, rfl, rfl, rfl, fun _ h => mem_aerase h⟩
      · exact ⟨rfl, rfl, rfl, rfl, rfl, rfl, fun _ h => h⟩

theorem noteFti_fields (f : FdtRecv σ) (v : Option Fti) :
    (f.noteFti v).fdtId = f.fdtId ∧ (f.noteFti v).obj = f.obj ∧ (f.noteFti v).st = f.st ∧
    (f.noteFti v).expires = f.expires ∧ (f.noteFti v).inst = f.inst ∧ (f.noteFti v).utf8 = f.utf8 ∧
    (f.noteFti v).offset = f.offset ∧ (f.noteFti v).late = f.late ∧ (f.noteFti v).check = f.check ∧
    (f.noteFti v).hasMeta = f.hasMeta ∧ (f.noteFti v).bytes = f.bytes := by
  unfold FdtRecv.noteFti
  split <;> exact ⟨rfl, rfl, rfl, rfl, rfl, rfl, rfl, rfl, rfl, rfl, rfl⟩

end Flute.Recv
