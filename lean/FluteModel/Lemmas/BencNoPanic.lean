import FluteModel.Lemmas.BencTerm
/-
  The `debug_assert!(transfer_length == 0)` of `BlockEncoder::read` (blockencoder.rs:81) is unreachable when
  the codec accepts every block and `interleave_blocks ≥ 1`: as long as no packet has been sent, every block
  cut so far is still open and untouched, so the window cannot be empty once a block has been cut.
-/
namespace Flute.BencNoPanic
open Flute Flute.Fec Flute.BlockEnc Flute.BencArith Flute.BencBlocks Flute.BencInv Flute.BencLoop Flute.BencTrace
open Flute.BencShape

variable {P : Params} {c : Bytes} {aL aS nL n : Nat}

def NP (s : Enc) : Prop := s.nbPkt = 0 → s.blocks.length = s.sbn ∧ ∀ b, b ∈ s.blocks → b.readIndex = 0

/-- a genuine block holds at least one shard -/
theorem blockOK_shards_pos (hS : Setup P c aL aS nL n) {b : Block} (hlt : b.sbn < n)
    (hok : BlockOK P c aL aS nL b) : 0 < b.shards.length := by
  obtain ⟨_, henc⟩ := blockAt_shape hS hlt hok.1
  simp only at henc
  obtain ⟨r, _, hlen, _, _⟩ := encode_shape _ _ _ _ _ hS.e_pos henc
  have := bufAt_nsym hS hlt (c := c)
  have := A_pos aL aS nL b.sbn hS.good.aS_pos hS.good.aS_le
  omega

theorem np_readWindowAux (hS : Setup P c aL aS nL n) (hA : Accepts P c aL aS nL n) (tr : List Pkt) :
    ∀ (m : Nat) (s : Enc), Inv P c aL aS nL n s → TInv P c aL aS nL tr s → NP s → NP (readWindowAux P m s) := by
  intro m
  induction m with
  | zero => intro s _ _ h; exact h
  | succ m ih =>
    intro s hI hT hN
    by_cases hre : s.readEnd = true
    · rw [rwa_succ_end hre]; exact hN
    · have hre' : s.readEnd = false := by simpa using hre
      by_cases hw : s.blocks.length < P.window
      · rw [rwa_succ_cut hre' hw]
        obtain ⟨b0, hb0, heq⟩ := readBlock_eq hS hA hI hre'
        rw [heq]
        obtain ⟨hI', hT'⟩ := inv_cut hS hI hT hre' hw hb0
        apply ih _ hI' hT'
        intro h0
        obtain ⟨h1, h2⟩ := hN h0
        refine ⟨by show (s.blocks ++ [b0]).length = s.sbn + 1; simp [h1], ?_⟩
        intro b hb
        rcases List.mem_append.mp hb with h | h
        · exact h2 b h
        · simp only [List.mem_singleton] at h; subst h; exact (blockAt_fields hb0).2
      · rw [rwa_succ_full hre' hw]; exact hN

/-- the loop never reaches the `debug_assert`, and keeps `NP` -/
theorem readLoop_np (hS : Setup P c aL aS nL n) (hA : Accepts P c aL aS nL n) (hw : 1 ≤ P.window)
    (force : Bool) (tr : List Pkt) :
    ∀ (fuel : Nat) (s : Enc), Inv P c aL aS nL n s → TInv P c aL aS nL tr s → NP s →
      (readLoop P force fuel s).1 ≠ .panic ∧ NP (readLoop P force fuel s).2 := by
  intro fuel
  induction fuel with
  | zero => intro s _ _ h; exact ⟨by simp [readLoop], h⟩
  | succ fuel ih =>
    intro s hI hT hN
    obtain ⟨hI1, hT1, hfull, _⟩ := inv_readWindowAux hS hA tr P.window s hI hT
    have hN1 := np_readWindowAux hS hA tr P.window s hI hT hN
    unfold readLoop
    simp only
    generalize hs1 : readWindow P s = s1
    have hs1' : readWindowAux P P.window s = s1 := hs1
    rw [hs1'] at hI1 hT1 hN1 hfull
    by_cases hemp : s1.blocks.isEmpty = true
    · simp only [hemp, if_true]
      have hnil : s1.blocks = [] := List.isEmpty_iff.mp hemp
      by_cases hn0 : s1.nbPkt = 0
      · -- impossible: nothing sent yet, so every block cut is still open; the window is not empty
        exfalso
        obtain ⟨h1, _⟩ := hN1 hn0
        rw [hnil] at h1
        rcases hfull (by omega) with h | h
        · have := hI1.readEnd_iff.mp h
          have := hS.good.n_pos
          simp at h1; omega
        · rw [hnil] at h; simp at h; omega
      · simp only [hn0, if_false]
        exact ⟨by simp, fun h => absurd h hn0⟩
    · simp only [hemp, Bool.false_eq_true, if_false]
      have hne : s1.blocks ≠ [] := fun h => hemp (List.isEmpty_iff.mpr h)
      have hlen : 0 < s1.blocks.length := List.length_pos_iff.mpr hne
      generalize hidx' : (if s1.idx ≥ s1.blocks.length then 0 else s1.idx) = idx
      have hidxlt : idx < s1.blocks.length := by rw [← hidx']; split <;> omega
      have hget : s1.blocks[idx]? = some s1.blocks[idx] := List.getElem?_eq_getElem hidxlt
      generalize s1.blocks[idx] = blk at hget
      rw [hget]
      simp only
      have hblk : blk ∈ s1.blocks := List.mem_iff_getElem?.mpr ⟨idx, hget⟩
      unfold Block.read
      cases hsh : blk.shards[blk.readIndex]? with
      | none =>
        simp only
        have hdr : blk.readIndex = blk.shards.length := by
          have h1 := (hI1.blocks_ok blk hblk).2.2
          have h2 := List.getElem?_eq_none_iff.mp hsh
          omega
        obtain ⟨hI2, hT2⟩ := inv_erase hI1 hT1 hget hdr
        apply ih _ hI2 hT2
        intro h0
        -- a drained block while nothing was sent: impossible
        exfalso
        have h0' : s1.nbPkt = 0 := h0
        obtain ⟨_, h2⟩ := hN1 h0'
        have hr0 := h2 blk hblk
        obtain ⟨hlt, hok⟩ := hI1.blocks_ok blk hblk
        have := blockOK_shards_pos hS (by have := hI1.sbn_le; omega) hok
        omega
      | some sh =>
        simp only
        exact ⟨by simp, fun h => by simp at h⟩

theorem np_stopped {s : Enc} (b : Bool) (h : NP s) : NP { s with stopped := b } := h

/-- `NP` holds in every reachable state, and `read` never returns the `debug_assert` outcome -/
theorem reach_np (hS : Setup P c aL aS nL n) (hA : Accepts P c aL aS nL n) (hw : 1 ≤ P.window)
    {s0 s : Enc} {tr : List (Bool × Pkt)}
    (hI0 : Inv P c aL aS nL n s0) (hT0 : TInv P c aL aS nL [] s0) (hst0 : s0.stopped = false)
    (hN0 : NP s0) (hr : Reads P s0 tr s) : NP s := by
  induction hr with
  | nil => exact hN0
  | @snoc s s' tr f p hr' hstep ih =>
    obtain ⟨hI, hT, _, _⟩ := reach hS hA hI0 hT0 hst0 hr'
    unfold BlockEnc.read at hstep
    split at hstep
    · cases hstep
    · cases f with
      | true =>
        simp only [if_true] at hstep
        have := (readLoop_np hS hA hw true (pkts tr) (readFuel P { s with stopped := true }) { s with stopped := true }
          (inv_stopped true hI) (tinv_stopped true hT) (np_stopped true ih)).2
        rw [hstep] at this; exact this
      | false =>
        simp only [Bool.false_eq_true, if_false] at hstep
        have := (readLoop_np hS hA hw false (pkts tr) (readFuel P s) s hI hT ih).2
        rw [hstep] at this; exact this

theorem read_no_panic (hS : Setup P c aL aS nL n) (hA : Accepts P c aL aS nL n) (hw : 1 ≤ P.window)
    {s : Enc} {tr : List Pkt} (f : Bool)
    (hI : Inv P c aL aS nL n s) (hT : TInv P c aL aS nL tr s) (hN : NP s) : (BlockEnc.read P s f).1 ≠ .panic := by
  unfold BlockEnc.read
  split
  · simp
  · cases f with
    | true => exact (readLoop_np hS hA hw true tr _ _ (inv_stopped true hI) (tinv_stopped true hT) (np_stopped true hN)).1
    | false => exact (readLoop_np hS hA hw false tr _ _ hI hT hN).1

theorem run_no_panic {closable : Bool} {tr : List (Bool × Pkt)} {s : Enc}
    (h : Run P c aL aS nL n closable tr s) (f : Bool) : (BlockEnc.read P s f).1 ≠ .panic := by
  obtain ⟨s0, hnew, hr⟩ := h.reads
  have hs0 := new_state h.part hnew
  obtain ⟨hI0, hT0⟩ := inv_init h.setup closable
  rw [← hs0] at hI0 hT0
  have hN0 : NP s0 := by rw [hs0]; intro _; exact ⟨rfl, by intro b hb; cases hb⟩
  have hN := reach_np h.setup h.accepts h.window_pos hI0 hT0 (by rw [hs0]) hN0 hr
  obtain ⟨hI, hT, _, _⟩ := reach h.setup h.accepts hI0 hT0 (by rw [hs0]) hr
  exact read_no_panic h.setup h.accepts h.window_pos f hI hT hN

end Flute.BencNoPanic
