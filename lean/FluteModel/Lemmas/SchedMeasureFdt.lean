import FluteModel.Lemmas.SchedMeasure
/-
  Second half of the measure for C12 `read_terminates`: the FDT packets `read` can return at one fixed instant
  `N` (for `0 < fdt_duration`): `phiB` = packets left in the FDT transfer in progress + the transfers the current
  instance can still start at `N` + one transfer of every queued instance + one transfer of every instance that
  can still be PUBLISHED at `N`: one republication at expiry (`last_publish = N` afterwards) and, in
  ObjectsBeingTransferred mode, one per object transfer that can still start at `N` (`startsA`).
-/
namespace Flute.Sched

/-- object transfer starts still possible at `N` -/
def sObj (N : Nat) (queue : List Nat) (L : Held) (f : FileDesc) : Nat :=
  if L.any (fun pc => pc.2.key == f.key) then tN N (transferDoneInfo f N)
  else if queue.contains f.key then tN N f else 0

def startsA (N : Nat) (s : State) (L : Held) : Nat := (s.objs.map (sObj N s.queue L)).sum

/-- packets of the next `n` publications -/
def futSum (tbl : List Nat) (len : Nat) : Nat → Nat
  | 0 => 0
  | n + 1 => npkOf tbl len + futSum tbl (len + 1) n

theorem futSum_mono (tbl : List Nat) : ∀ (n m len : Nat), n ≤ m → futSum tbl len n ≤ futSum tbl len m := by
  intro n
  induction n with
  | zero => intro m len _; exact Nat.zero_le _
  | succ k ih =>
    intro m len h
    cases m with
    | zero => omega
    | succ m' =>
      simp only [futSum]
      have := ih m' (len + 1) (by omega)
      omega

/-- a republication at expiry is still possible at `N` -/
def expE (N : Nat) (s : State) : Nat :=
  if s.lastPublish = some N ∧ (s.fdtQueue ≠ [] ∨ s.curFdt.isSome = true) then 0 else 1

def curTerm (N : Nat) (s : State) : Nat :=
  match s.curFdt with
  | none => 0
  | some k =>
    match getF s.fdts k with
    | none => 0
    | some f =>
      match s.fdtSess with
      | some c => (f.nPk - c.enc.sent) + tN N (transferDoneInfo f N) * f.nPk
      | none => tN N f * f.nPk

def queueTerm (tbl : List Nat) (s : State) : Nat := (s.fdtQueue.map (npkOf tbl)).sum

def phiB (N : Nat) (tbl : List Nat) (s : State) (L : Held) : Nat :=
  curTerm N s + queueTerm tbl s + futSum tbl s.fdts.length (expE N s + startsA N s L)

def isFdtPk : Ev → Bool
  | .fdt .. => true
  | _ => false

def cntFdt (l : List Ev) : Nat := (l.filter isFdtPk).length

theorem cntFdt_cons (e : Ev) (l : List Ev) : cntFdt (e :: l) = (if isFdtPk e then 1 else 0) + cntFdt l := by
  unfold cntFdt
  rw [List.filter_cons]
  split <;> simp <;> omega

def FInv (N c : Nat) (tbl : List Nat) (log0 : List Ev) : State → Held → Prop := fun s L =>
  ∃ new, s.log = new ++ log0 ∧ ((∃ e ∈ new, okEv N e = false) ∨ phiB N tbl s L + cntFdt new ≤ c)

theorem FInv.event {N c : Nat} {tbl : List Nat} {log0 : List Ev} {s s' : State} {L L' : Held} (h : FInv N c tbl log0 s L)
    (e : Ev) (hlog : s'.log = e :: s.log)
    (hok : okEv N e = true → phiB N tbl s' L' + (if isFdtPk e then 1 else 0) ≤ phiB N tbl s L) :
    FInv N c tbl log0 s' L' := by
  obtain ⟨new, e1, h1⟩ := h
  refine ⟨e :: new, by rw [hlog, e1]; rfl, ?_⟩
  rcases h1 with ⟨x, hx, hbad⟩ | h1
  · exact Or.inl ⟨x, List.mem_cons_of_mem _ hx, hbad⟩
  · cases hk : okEv N e with
    | false => exact Or.inl ⟨e, List.mem_cons_self, hk⟩
    | true =>
      right
      have := hok hk
      rw [cntFdt_cons]
      omega

theorem FInv.silent {N c : Nat} {tbl : List Nat} {log0 : List Ev} {s s' : State} {L L' : Held}
    (h : FInv N c tbl log0 s L) (hlog : s'.log = s.log) (hphi : phiB N tbl s' L' ≤ phiB N tbl s L) :
    FInv N c tbl log0 s' L' := by
  obtain ⟨new, e1, h1⟩ := h
  refine ⟨new, by rw [hlog, e1], ?_⟩
  rcases h1 with h1 | h1
  · exact Or.inl h1
  · exact Or.inr (by omega)

/-- `phiB` reads only these parts of the state -/
theorem phiB_congr {N : Nat} {tbl : List Nat} {s s' : State} {L : Held}
    (h1 : s'.curFdt = s.curFdt) (h2 : s'.fdts = s.fdts) (h3 : s'.fdtSess = s.fdtSess) (h4 : s'.fdtQueue = s.fdtQueue)
    (h5 : s'.lastPublish = s.lastPublish) (h6 : s'.objs = s.objs) (h7 : s'.queue = s.queue) :
    phiB N tbl s' L = phiB N tbl s L := by
  unfold phiB curTerm queueTerm expE startsA
  rw [h1, h2, h3, h4, h5, h6, h7]

/-! ### `sObj` under the changes of `L` -/

theorem sObj_held {N : Nat} {queue : List Nat} {L : Held} {f : FileDesc} (h : ∃ pc ∈ L, pc.2.key = f.key) :
    sObj N queue L f = tN N (transferDoneInfo f N) := by
  unfold sObj
  have : L.any (fun pc => pc.2.key == f.key) = true := by
    rw [List.any_eq_true]
    obtain ⟨pc, hpc, e⟩ := h
    exact ⟨pc, hpc, by simpa using e⟩
  rw [this]; rfl

theorem sObj_cons_other {N : Nat} {queue : List Nat} {L : Held} {p : Nat} {c : Cur} {f : FileDesc} (hk : c.key ≠ f.key) :
    sObj N queue ((p, c) :: L) f = sObj N queue L f := by
  unfold sObj
  have : (c.key == f.key) = false := by simpa using hk
  simp only [List.any_cons, this, Bool.false_or]

theorem sObj_not_held {N : Nat} {queue : List Nat} {L : Held} {f : FileDesc} (hne : ∀ pc ∈ L, pc.2.key ≠ f.key) :
    sObj N queue L f = if queue.contains f.key then tN N f else 0 := by
  unfold sObj
  rw [any_key_false hne]
  simp

theorem sObj_congr {N : Nat} {queue : List Nat} {L : Held} {f f' : FileDesc} (hk : f'.key = f.key)
    (hi : f'.info.count = f.info.count ∧ f'.info.total = f.info.total ∧ f'.info.lastEnd = f.info.lastEnd ∧
      f'.info.lastStart = f.info.lastStart)
    (hs : f'.maxCount = f.maxCount ∧ f'.carousel = f.carousel) :
    sObj N queue L f' = sObj N queue L f := by
  have ht : tN N f' = tN N f := by
    unfold tN
    rw [hs.2, hi.1, hi.2.1, hi.2.2.1, hi.2.2.2, hs.1]
  have ht2 : tN N (transferDoneInfo f' N) = tN N (transferDoneInfo f N) := by
    rw [tN_done, tN_done, hs.2, hi.1, hi.2.1, hi.2.2.2, hs.1]
  unfold sObj
  rw [hk, ht, ht2]

theorem startsA_perm {N : Nat} {s : State} {L L' : Held} (p : L.Perm L') : startsA N s L' = startsA N s L := by
  unfold startsA
  congr 1
  apply List.map_congr_left
  intro f _
  unfold sObj
  rw [p.any_eq]

theorem startsA_pubMark {N : Nat} (s : State) (now : Nat) (L : Held) : startsA N (publish s now) L = startsA N s L := by
  unfold startsA
  rw [publish_objs, List.map_map]
  show (s.objs.map (sObj N s.queue L ∘ pubMark s.files)).sum = _
  congr 1
  apply List.map_congr_left
  intro f _
  simp only [Function.comp]
  apply sObj_congr (pubMark_key _ f)
  · rw [pubMark_info]; exact ⟨rfl, rfl, rfl, rfl⟩
  · unfold pubMark; split <;> exact ⟨rfl, rfl⟩

end Flute.Sched

namespace Flute.Sched

theorem curTerm_publish {N : Nat} {s : State} {L : Held} (hw : Wf s L) (now : Nat) :
    curTerm N (publish s now) = curTerm N s := by
  unfold curTerm
  show (match s.curFdt with
    | none => 0
    | some k => match getF (publish s now).fdts k with
      | none => 0
      | some f => match s.fdtSess with
        | some c => _
        | none => _) = _
  cases hk : s.curFdt with
  | none => rfl
  | some k =>
    obtain ⟨f, hf⟩ := hw.curFdt k hk
    simp only []
    rw [publish_fdts, getF_append_some hf, hf]

theorem queueTerm_publish (tbl : List Nat) (s : State) (now : Nat) :
    queueTerm tbl (publish s now) = queueTerm tbl s + npkOf tbl s.fdts.length := by
  unfold queueTerm
  rw [publish_fdtQueue, List.map_append, List.sum_append]
  simp

theorem expE_publish (N : Nat) (s : State) : expE N (publish s N) = 0 := by
  unfold expE
  have h1 : (publish s N).lastPublish = some N := rfl
  have h2 : (publish s N).fdtQueue ≠ [] := by rw [publish_fdtQueue]; simp
  rw [if_pos ⟨h1, Or.inl h2⟩]

/-- at expiry the republication credit is still there (no publication at this very instant: repair of F24) -/
theorem expE_of_expire {N : Nat} {s : State} (he : currentFdtWillExpire s N = true) :
    expE N s = 1 ∧ s.fdtQueue = [] := by
  unfold currentFdtWillExpire at he
  cases hq : s.fdtQueue with
  | cons a r => rw [hq] at he; simp at he
  | nil =>
    refine ⟨?_, rfl⟩
    unfold expE
    rw [if_neg]
    rintro ⟨hlp, hor⟩
    rcases hor with h | h
    · exact h hq
    · rw [hq] at he
      cases hc : s.curFdt with
      | none => rw [hc] at h; cases h
      | some k =>
        rw [hc, hlp] at he
        simp at he

theorem FInv.ofExpiryPublish {N c : Nat} {tbl : List Nat} {log0 : List Ev} {s : State} {L : Held} (now : Nat)
    (hw : Wf s L) (h : FInv N c tbl log0 s L)
    (he : currentFdtWillExpire s now = true) : FInv N c tbl log0 (publish s now) L := by
  refine h.event (Ev.pub now s.fdts.length (pubDesc s).content) (publish_log s now) ?_
  intro hok
  have hnow : now = N := by simpa [okEv] using hok
  subst hnow
  simp only [isFdtPk, Bool.false_eq_true, if_false, Nat.add_zero]
  obtain ⟨hE, _⟩ := expE_of_expire he
  unfold phiB
  rw [curTerm_publish hw, queueTerm_publish, expE_publish, startsA_pubMark, hE]
  have hlen : (publish s now).fdts.length = s.fdts.length + 1 := by rw [publish_fdts]; simp
  rw [hlen]
  have : futSum tbl s.fdts.length (1 + startsA now s L) =
      npkOf tbl s.fdts.length + futSum tbl (s.fdts.length + 1) (startsA now s L) := by
    rw [Nat.add_comm 1]; rfl
  rw [this, Nat.zero_add]
  omega

/-- a publication in any other context (transfer start in ObjectsBeingTransferred mode): it costs one credit -/
theorem phiB_publish_cost {N : Nat} {tbl : List Nat} {s : State} {L : Held} (hw : Wf s L) :
    phiB N tbl (publish s N) L =
      curTerm N s + queueTerm tbl s + npkOf tbl s.fdts.length + futSum tbl (s.fdts.length + 1) (startsA N s L) := by
  unfold phiB
  rw [curTerm_publish hw, queueTerm_publish, expE_publish, startsA_pubMark]
  have hlen : (publish s N).fdts.length = s.fdts.length + 1 := by rw [publish_fdts]; simp
  rw [hlen, Nat.zero_add]
  omega

end Flute.Sched

namespace Flute.Sched

theorem expE_le_of_cur {N : Nat} {s s' : State} (hlp : s'.lastPublish = s.lastPublish)
    (hc : s'.curFdt.isSome = true) : expE N s' ≤ expE N s := by
  unfold expE
  by_cases h : s.lastPublish = some N ∧ (s.fdtQueue ≠ [] ∨ s.curFdt.isSome = true)
  · rw [if_pos h, if_pos ⟨by rw [hlp]; exact h.1, Or.inr hc⟩]; exact Nat.le_refl _
  · rw [if_neg h]; split <;> omega

theorem tN_fresh {tbl : List Nat} {f : FileDesc} (hsh : FdtShape tbl f) (hfr : Fresh f) (N : Nat) : tN N f = 1 := by
  unfold tN tNc
  cases hc : f.carousel with
  | none => have := hsh.carousel; rw [hc] at this; cases this
  | some cm =>
    simp only []
    rw [hfr.2.1, hsh.maxCount]
    simp

theorem FInv.ofFdtAdvance {N c : Nat} {tbl : List Nat} {log0 : List Ev} {s : State} {L : Held} (now : Nat)
    (hw : Wf s L) (htbl : s.fdtPkts = tbl) (hs : s.fdtSess = none) (h : FInv N c tbl log0 s L) :
    FInv N c tbl log0 (fdtAdvance s now) L := by
  rcases fdtAdvance_cases s now with ⟨e, hnone⟩ | ⟨k, f, hk, hf, hst, e⟩
  · rw [e]
    cases hq : s.fdtQueue with
    | nil =>
      have : fdtPop s = s := by unfold fdtPop; rw [hq]
      rw [this]; exact h
    | cons k rest =>
      exfalso
      obtain ⟨f, hf, hfr⟩ := hw.fdtQueue k (by rw [hq]; simp)
      have hsh := (hw.fdtKeys f (getF_mem hf)).2
      have hpop : fdtPop s = { s with curFdt := some k, fdtQueue := rest } := by unfold fdtPop; rw [hq]
      rw [hpop] at hnone
      unfold fdtTryStart at hnone
      simp only [hf, fresh_should_transfer hsh hfr, if_true] at hnone
      cases hnone
  · rw [e]
    rw [fdtPop_fdts] at hf
    refine h.event (Ev.fdtStart now k) (by show Ev.fdtStart now k :: (fdtPop s).log = _; rw [fdtPop_log]) ?_
    intro hok
    have hnow : now = N := by simpa [okEv] using hok
    subst hnow
    simp only [isFdtPk, Bool.false_eq_true, if_false, Nat.add_zero]
    have hsh := (hw.fdtKeys f (getF_mem hf)).2
    have hkey : ∀ g : FileDesc, (transferInit g now 0).key = g.key := fun _ => rfl
    -- the new current-instance term
    have hcur' : curTerm now ({ fdtStartStep (fdtPop s) k now with fdtSess := some (startFdtCur k) } : State) =
        (1 + tN now (transferDoneInfo (transferInit f now 0) now)) * f.nPk := by
      unfold curTerm
      show (match (fdtPop s).curFdt with
        | none => 0
        | some k' => match getF (updF (fdtPop s).fdts k (fun g => transferInit g now 0)) k' with
          | none => 0
          | some f' => (f'.nPk - (startFdtCur k).enc.sent) + tN now (transferDoneInfo f' now) * f'.nPk) = _
      rw [hk, fdtPop_fdts]
      simp only []
      rw [getF_updF _ _ _ _ hkey, if_pos rfl, hf]
      simp only [Option.map_some]
      show (f.nPk - 0) + _ * f.nPk = _
      rw [Nat.add_mul, Nat.one_mul, Nat.sub_zero]
    have hstart : 1 + tN now (transferDoneInfo (transferInit f now 0) now) ≤ tN now f := by
      rw [fdtPop_cfg] at hst
      exact tN_start hst (fun hc => by have := hsh.carousel; rw [hc] at this; cases this)
    have hcurle : curTerm now ({ fdtStartStep (fdtPop s) k now with fdtSess := some (startFdtCur k) } : State)
        ≤ tN now f * f.nPk := by rw [hcur']; exact Nat.mul_le_mul_right _ hstart
    have hE : expE now ({ fdtStartStep (fdtPop s) k now with fdtSess := some (startFdtCur k) } : State) ≤ expE now s :=
      expE_le_of_cur (by show (fdtPop s).lastPublish = s.lastPublish; unfold fdtPop; split <;> rfl)
        (by show (fdtPop s).curFdt.isSome = true; rw [hk]; rfl)
    have hS : startsA now ({ fdtStartStep (fdtPop s) k now with fdtSess := some (startFdtCur k) } : State) L =
        startsA now s L := by
      unfold startsA
      show ((fdtPop s).objs.map (sObj now (fdtPop s).queue L)).sum = _
      rw [fdtPop_objs, fdtPop_queue]
    have hlen : ({ fdtStartStep (fdtPop s) k now with fdtSess := some (startFdtCur k) } : State).fdts.length = s.fdts.length := by
      show (updF (fdtPop s).fdts k _).length = _
      rw [length_updF, fdtPop_fdts]
    have hQ : queueTerm tbl ({ fdtStartStep (fdtPop s) k now with fdtSess := some (startFdtCur k) } : State) =
        queueTerm tbl (fdtPop s) := rfl
    unfold phiB
    rw [hS, hlen, hQ]
    have hfut := futSum_mono tbl _ _ s.fdts.length (Nat.add_le_add_right hE (startsA now s L))
    generalize curTerm now ({ fdtStartStep (fdtPop s) k now with fdtSess := some (startFdtCur k) } : State) = A at hcurle ⊢
    generalize futSum tbl s.fdts.length
      (expE now ({ fdtStartStep (fdtPop s) k now with fdtSess := some (startFdtCur k) } : State) + startsA now s L) = F' at hfut ⊢
    generalize futSum tbl s.fdts.length (expE now s + startsA now s L) = F at hfut ⊢
    -- the two ways the current instance was determined
    cases hq : s.fdtQueue with
    | nil =>
      have hpop : fdtPop s = s := by unfold fdtPop; rw [hq]
      have hQ' : queueTerm tbl (fdtPop s) = queueTerm tbl s := by rw [hpop]
      rw [hpop] at hk
      have hcs : curTerm now s = tN now f * f.nPk := by
        unfold curTerm; rw [hk]; simp only []; rw [hf, hs]
      rw [hQ', hcs]
      omega
    | cons k0 rest =>
      have hpop : fdtPop s = { s with curFdt := some k0, fdtQueue := rest } := by unfold fdtPop; rw [hq]
      have hkk : k = k0 := by rw [hpop] at hk; exact (Option.some.inj hk).symm
      subst hkk
      obtain ⟨f', hf', hfr⟩ := hw.fdtQueue k (by rw [hq]; simp)
      rw [hf] at hf'; cases hf'
      have h1 : tN now f = 1 := tN_fresh hsh hfr now
      have hnp : f.nPk = npkOf tbl k := by
        have := nPk_of_shape hsh
        rw [getF_key hf, htbl] at this; exact this
      have hqs : queueTerm tbl s = npkOf tbl k + queueTerm tbl (fdtPop s) := by
        unfold queueTerm; rw [hq, hpop]; simp
      rw [h1, Nat.one_mul, hnp] at hcurle
      rw [hqs]
      generalize curTerm now s = C
      omega

theorem FInv.ofFdtPkt {N c0 : Nat} {tbl : List Nat} {log0 : List Ev} {s : State} {L : Held} {c : Cur} {f : FileDesc}
    {now idx : Nat} {b : Bool} {e : Enc}
    (hw : Wf s L) (h : FInv N c0 tbl log0 s L) (hc : s.fdtSess = some c) (hf : getF s.fdts c.key = some f)
    (he : encRead f.nSym c.enc false = (some (idx, b), e)) :
    FInv N c0 tbl log0 (fdtStep s c e f.fdtId now idx) L := by
  obtain ⟨hcur, h2, f', hf', _, _⟩ := hw.fdtSessSome c hc
  rw [hf] at hf'; cases hf'
  obtain ⟨_, e2, e3⟩ := encRead_false_some he h2
  have e3' : c.enc.sent < f.nPk := e3
  refine h.event (Ev.fdt now c.key f.fdtId idx) rfl ?_
  intro hok
  have hnow : now = N := by simpa [okEv] using hok
  subst hnow
  simp only [isFdtPk, if_true]
  have hfd : (fdtStep s c e f.fdtId now idx).fdts = s.fdts := updF_tick_fdts hw c.key
  have hct : curTerm now (fdtStep s c e f.fdtId now idx) + 1 ≤ curTerm now s := by
    unfold curTerm
    show (match s.curFdt with
      | none => 0
      | some k => match getF (fdtStep s c e f.fdtId now idx).fdts k with
        | none => 0
        | some f' => (f'.nPk - e.sent) + tN now (transferDoneInfo f' now) * f'.nPk) + 1 ≤ _
    rw [hfd, hcur]
    simp only [hf, hc]
    rw [e2]
    show f.nPk - (c.enc.sent + 1) + _ + 1 ≤ _
    omega
  unfold phiB
  have h1 : queueTerm tbl (fdtStep s c e f.fdtId now idx) = queueTerm tbl s := rfl
  have h2' : expE now (fdtStep s c e f.fdtId now idx) = expE now s := rfl
  have h3 : startsA now (fdtStep s c e f.fdtId now idx) L = startsA now s L := rfl
  rw [h1, h2', h3, hfd]
  omega

theorem FInv.ofFdtDone {N c0 : Nat} {tbl : List Nat} {log0 : List Ev} {s : State} {L : Held} {c : Cur} {f : FileDesc}
    (now : Nat) (hw : Wf s L) (h : FInv N c0 tbl log0 s L) (hc : s.fdtSess = some c)
    (hf : getF s.fdts c.key = some f) : FInv N c0 tbl log0 (fdtRelease s c.key now) L := by
  obtain ⟨hcur, _, _⟩ := hw.fdtSessSome c hc
  rw [fdtRelease_eq now hw hc]
  refine h.event (Ev.fdtStop now c.key) rfl ?_
  intro hok
  have hnow : now = N := by simpa [okEv] using hok
  subst hnow
  simp only [isFdtPk, Bool.false_eq_true, if_false, Nat.add_zero]
  have hkey : ∀ g : FileDesc, (transferDoneInfo g now).key = g.key := fun _ => rfl
  have hct : curTerm now ({ s with fdts := updF s.fdts c.key (fun f => transferDoneInfo f now), log := Ev.fdtStop now c.key :: s.log, fdtSess := none } : State) ≤ curTerm now s := by
    unfold curTerm
    show (match s.curFdt with
      | none => 0
      | some k => match getF (updF s.fdts c.key (fun f => transferDoneInfo f now)) k with
        | none => 0
        | some f' => tN now f' * f'.nPk) ≤ _
    rw [hcur]
    simp only []
    rw [getF_updF _ _ _ _ hkey, if_pos rfl, hf, hc]
    simp only [Option.map_some]
    show tN now (transferDoneInfo f now) * f.nPk ≤ _
    omega
  unfold phiB
  have hlen : (updF s.fdts c.key (fun f => transferDoneInfo f now)).length = s.fdts.length := length_updF _ _ _
  show curTerm now _ + queueTerm tbl s + futSum tbl (updF s.fdts c.key _).length (expE now s + startsA now s L) ≤ _
  rw [hlen]
  omega

end Flute.Sched

namespace Flute.Sched

theorem FInv.event2 {N c : Nat} {tbl : List Nat} {log0 : List Ev} {s s' : State} {L L' : Held} (h : FInv N c tbl log0 s L)
    (e1 e2 : Ev) (hlog : s'.log = e2 :: e1 :: s.log) (hn1 : isFdtPk e1 = false) (hn2 : isFdtPk e2 = false)
    (hok : okEv N e1 = true → okEv N e2 = true → phiB N tbl s' L' ≤ phiB N tbl s L) : FInv N c tbl log0 s' L' := by
  obtain ⟨new, e0, h1⟩ := h
  refine ⟨e2 :: e1 :: new, by rw [hlog, e0]; rfl, ?_⟩
  rcases h1 with ⟨x, hx, hbad⟩ | h1
  · exact Or.inl ⟨x, List.mem_cons_of_mem _ (List.mem_cons_of_mem _ hx), hbad⟩
  · cases hk1 : okEv N e1 with
    | false => exact Or.inl ⟨e1, List.mem_cons_of_mem _ List.mem_cons_self, hk1⟩
    | true =>
      cases hk2 : okEv N e2 with
      | false => exact Or.inl ⟨e2, List.mem_cons_self, hk2⟩
      | true =>
        right
        have := hok hk1 hk2
        rw [cntFdt_cons, cntFdt_cons, hn1, hn2]
        simp only [Bool.false_eq_true, if_false]
        omega

theorem futSum_succ (tbl : List Nat) (len n : Nat) : futSum tbl len (n + 1) = npkOf tbl len + futSum tbl (len + 1) n := rfl

theorem FInv.ofFileStart {N c : Nat} {tbl : List Nat} {log0 : List Ev} {s : State} {L : Held} {prio now t : Nat} (tk : Nat)
    (cur : Cur) (hck : cur.key = t) (hb : MBase s L) (h : FInv N c tbl log0 s L)
    (hfn : findNext s prio now s.queue = some t) :
    FInv N c tbl log0 (autoPublish (fileStartStep s t now tk) now) ((prio, cur) :: L) := by
  obtain ⟨⟨hw, hl⟩, hkeys⟩ := hb
  obtain ⟨pre, post, hq, _, g, hg, hst⟩ := findNext_spec s prio now s.queue t hfn
  have htq : t ∈ s.queue := by rw [hq]; simp
  obtain ⟨_, hgt, _, _⟩ := shouldTransferNow_true hst
  have hne : ∀ pc ∈ L, pc.2.key ≠ t := by
    intro pc hpc e
    obtain ⟨g', hg', hgt', _⟩ := hw.heldObj pc hpc
    rw [e, hg] at hg'; cases hg'
    rw [hgt] at hgt'; cases hgt'
  have hlog : (fileStartStep s t now tk).log = Ev.start now t g.info.startTime (if wantsTick g then some tk else none) :: s.log := by
    show Ev.start now t _ _ :: s.log = _
    rw [hg]
  -- one start credit is consumed
  have hS : now = N → startsA N (fileStartStep s t now tk) ((prio, cur) :: L) + 1 ≤ startsA N s L := by
    intro hnow
    subst hnow
    unfold startsA
    show ((updF s.objs t (fun f => transferInit f now tk)).map (sObj now (s.queue.erase t) ((prio, cur) :: L))).sum + 1 ≤ _
    unfold updF
    rw [List.map_map]
    have hnc : g.carousel = none → g.info.total < burstF g := by
      intro hcar
      exact ((hl.rel t g hg).count hcar).2.2 (Or.inl (hw.queueFiles t htq))
    have hstart := tN_start (tk := tk) hst hnc
    have hcont : s.queue.contains g.key = true := by rw [getF_key hg]; simpa using htq
    apply sum_map_lt
    · intro f hf
      simp only [Function.comp]
      by_cases hk : f.key = t
      · have hfg : f = g := by
          have := getF_of_mem_nodup s.objs hkeys.1 f hf
          rw [hk, hg] at this
          exact (Option.some.inj this).symm
        subst hfg
        simp only [hk, beq_self_eq_true, if_true]
        rw [sObj_held (f := transferInit f now tk) ⟨(prio, cur), List.mem_cons_self, by show cur.key = f.key; rw [hck, hk]⟩]
        rw [sObj_not_held (f := f) (by rw [hk]; exact hne), hcont]
        simp only [if_true]
        omega
      · have hk' : (f.key == t) = false := by simpa using hk
        simp only [hk', Bool.false_eq_true, if_false]
        rw [sObj_cons_other (by rw [hck]; exact fun e => hk e.symm)]
        unfold sObj
        have : (s.queue.erase t).contains f.key = s.queue.contains f.key := by
          have h1 : f.key ∈ s.queue.erase t ↔ f.key ∈ s.queue := List.mem_erase_of_ne hk
          cases h2 : s.queue.contains f.key <;> simp_all
        rw [this]
        exact Nat.le_refl _
    · refine ⟨g, getF_mem hg, ?_⟩
      have hk := getF_key hg
      simp only [Function.comp, hk, beq_self_eq_true, if_true]
      rw [sObj_held (f := transferInit g now tk) ⟨(prio, cur), List.mem_cons_self, by show cur.key = g.key; rw [hck, hk]⟩]
      rw [sObj_not_held (f := g) (by rw [hk]; exact hne), hcont]
      simp only [if_true]
      omega
  have hsame : curTerm N (fileStartStep s t now tk) = curTerm N s ∧ queueTerm tbl (fileStartStep s t now tk) = queueTerm tbl s ∧
      expE N (fileStartStep s t now tk) = expE N s ∧ (fileStartStep s t now tk).fdts.length = s.fdts.length :=
    ⟨rfl, rfl, rfl, rfl⟩
  have hw1 := Wf.fileStartStep tk cur hck hw hfn
  -- the start alone
  have h1 : FInv N c tbl log0 (fileStartStep s t now tk) ((prio, cur) :: L) := by
    refine h.event _ hlog ?_
    intro hok
    have hnow : now = N := by simpa [okEv] using hok
    simp only [isFdtPk, Bool.false_eq_true, if_false, Nat.add_zero]
    unfold phiB
    rw [hsame.1, hsame.2.1, hsame.2.2.1, hsame.2.2.2]
    have := futSum_mono tbl (expE N s + startsA N (fileStartStep s t now tk) ((prio, cur) :: L))
      (expE N s + startsA N s L) s.fdts.length (by have := hS hnow; omega)
    omega
  unfold autoPublish
  split
  · -- ObjectsBeingTransferred: the publication is paid by the consumed start credit
    rcases publishTry_cases (fileStartStep s t now tk) now with e | e
    · rw [e]
      refine h.event2 (Ev.start now t g.info.startTime (if wantsTick g then some tk else none))
        (Ev.pub now (fileStartStep s t now tk).fdts.length (pubDesc (fileStartStep s t now tk)).content)
        (by rw [publish_log, hlog]) rfl rfl ?_
      intro hok _
      have hnow : now = N := by simpa [okEv] using hok
      have hSS := hS hnow
      subst hnow
      rw [phiB_publish_cost hw1, hsame.1, hsame.2.1, hsame.2.2.2]
      unfold phiB
      have h2 := futSum_mono tbl (startsA now (fileStartStep s t now tk) ((prio, cur) :: L) + 1)
        (expE now s + startsA now s L) s.fdts.length (by omega)
      rw [futSum_succ] at h2
      omega
    · rw [e]; exact h1
  · exact h1

theorem FInv.ofPkt {N c0 : Nat} {tbl : List Nat} {log0 : List Ev} {s : State} {L : Held} {prio : Nat} {c : Cur}
    (now idx : Nat) (b : Bool) (e : Enc) (h : FInv N c0 tbl log0 s ((prio, c) :: L)) :
    FInv N c0 tbl log0 (pktStep s prio c.key now idx b) ((prio, { c with enc := e }) :: L) := by
  refine h.event (Ev.pkt now prio c.key idx b) rfl ?_
  intro _
  simp only [isFdtPk, Bool.false_eq_true, if_false, Nat.add_zero]
  have hS : startsA N (pktStep s prio c.key now idx b) ((prio, { c with enc := e }) :: L) = startsA N s ((prio, c) :: L) := by
    unfold startsA
    show ((updF s.objs c.key tickInfo).map (sObj N s.queue ((prio, { c with enc := e }) :: L))).sum = _
    unfold updF
    rw [List.map_map]
    congr 1
    apply List.map_congr_left
    intro f _
    simp only [Function.comp]
    have hL : ∀ f' : FileDesc, sObj N s.queue ((prio, { c with enc := e }) :: L) f' = sObj N s.queue ((prio, c) :: L) f' := by
      intro f'; unfold sObj; simp only [List.any_cons]; rfl
    rw [hL]
    split
    · exact sObj_congr (f := f) (f' := tickInfo f) rfl (tickInfo_fields f) ⟨rfl, rfl⟩
    · rfl
  unfold phiB
  rw [hS]
  exact Nat.le_refl _

theorem FInv.ofDone {N c0 : Nat} {tbl : List Nat} {log0 : List Ev} {s : State} {L : Held} {prio : Nat} {c : Cur} {f : FileDesc}
    (now : Nat) (hb : MBase s ((prio, c) :: L)) (h : FInv N c0 tbl log0 s ((prio, c) :: L))
    (hf : getF s.objs c.key = some f) : FInv N c0 tbl log0 (transferDoneFile s c.key now) L := by
  obtain ⟨⟨hw, _⟩, hkeys⟩ := hb
  have hnd := hw.heldNodup
  simp only [List.map_cons, List.nodup_cons] at hnd
  have hne : ∀ pc ∈ L, pc.2.key ≠ c.key := fun pc hpc e => hnd.1 (List.mem_map.mpr ⟨pc, hpc, e⟩)
  refine h.event (Ev.stop now c.key) (transferDoneFile_log s c.key now) ?_
  intro hok
  have hnow : now = N := by simpa [okEv] using hok
  subst hnow
  simp only [isFdtPk, Bool.false_eq_true, if_false, Nat.add_zero]
  have hS : startsA now (transferDoneFile s c.key now) L ≤ startsA now s ((prio, c) :: L) := by
    unfold startsA
    rw [transferDoneFile_objs]
    unfold updF
    rw [List.map_map]
    apply sum_map_le
    intro f0 hf0
    simp only [Function.comp]
    by_cases hk : f0.key = c.key
    · have hfg : f0 = f := by
        have := getF_of_mem_nodup s.objs hkeys.1 f0 hf0
        rw [hk, hf] at this
        exact (Option.some.inj this).symm
      subst hfg
      simp only [hk, beq_self_eq_true, if_true]
      rw [sObj_not_held (f := transferDoneInfo f0 now) (by
        intro pc hpc; show pc.2.key ≠ f0.key; rw [hk]; exact hne pc hpc)]
      rw [sObj_held (f := f0) ⟨(prio, c), List.mem_cons_self, hk.symm⟩]
      split
      · exact Nat.le_refl _
      · exact Nat.zero_le _
    · have hk' : (f0.key == c.key) = false := by simpa using hk
      simp only [hk', Bool.false_eq_true, if_false]
      rw [sObj_cons_other (by exact fun e => hk e.symm)]
      unfold sObj
      rw [transferDoneFile_queue_contains s c.key now f0.key hk]
      exact Nat.le_refl _
  unfold phiB
  have h1 : curTerm now (transferDoneFile s c.key now) = curTerm now s := by
    unfold curTerm
    rw [transferDoneFile_curFdt, transferDoneFile_fdts, transferDoneFile_fdtSess]
  have h2 : queueTerm tbl (transferDoneFile s c.key now) = queueTerm tbl s := by
    unfold queueTerm; rw [transferDoneFile_fdtQueue]
  have h3 : expE now (transferDoneFile s c.key now) = expE now s := by
    unfold expE
    have : (transferDoneFile s c.key now).lastPublish = s.lastPublish := by
      rw [transferDoneFile_eq]; split
      · rfl
      · split
        · split <;> rfl
        · rfl
    rw [this, transferDoneFile_fdtQueue, transferDoneFile_curFdt]
  rw [h1, h2, h3, transferDoneFile_fdts]
  have := futSum_mono tbl _ _ s.fdts.length (Nat.add_le_add_left hS (expE now s))
  omega

end Flute.Sched

namespace Flute.Sched

abbrev FBase (cfg : Cfg) (tbl : List Nat) : State → Held → Prop := And2 MBase (ConstInv cfg tbl)

theorem FBase.closed (cfg : Cfg) (tbl : List Nat) : Closed0 (FBase cfg tbl) :=
  Closed.and MBase.closed (Closed.weaken (ConstInv.closed cfg tbl))
theorem FBase.closedOps (cfg : Cfg) (tbl : List Nat) : ClosedOps0 (FBase cfg tbl) :=
  ClosedOps.and MBase.closedOps (ClosedOps.weaken (ConstInv.closedOps cfg tbl))

theorem FInv.same {N c : Nat} {tbl : List Nat} {log0 : List Ev} {s s' : State} {L : Held} (h : FInv N c tbl log0 s L)
    (e : Ev) (hlog : s'.log = e :: s.log) (hn : isFdtPk e = false)
    (h1 : s'.curFdt = s.curFdt) (h2 : s'.fdts = s.fdts) (h3 : s'.fdtSess = s.fdtSess) (h4 : s'.fdtQueue = s.fdtQueue)
    (h5 : s'.lastPublish = s.lastPublish) (h6 : s'.objs = s.objs) (h7 : s'.queue = s.queue) : FInv N c tbl log0 s' L :=
  h.event e hlog (fun _ => by rw [hn, phiB_congr h1 h2 h3 h4 h5 h6 h7]; simp)

theorem FInv.closed (cfg : Cfg) (tbl : List Nat) (N c0 : Nat) (log0 : List Ev) :
    Closed (FBase cfg tbl) (FInv N c0 tbl log0) where
  perm := fun s L L' p h => by
    obtain ⟨new, e1, h1⟩ := h
    refine ⟨new, e1, ?_⟩
    unfold phiB at h1 ⊢
    rw [startsA_perm p]; exact h1
  leaveFiles := fun _ _ _ h => h.silent rfl (Nat.le_of_eq (phiB_congr rfl rfl rfl rfl rfl rfl rfl))
  enterFiles := fun _ _ _ _ h _ _ => h.silent rfl (Nat.le_of_eq (phiB_congr rfl rfl rfl rfl rfl rfl rfl))
  emitRead := fun _ _ now _ h _ => h.same (Ev.opRead now) rfl rfl rfl rfl rfl rfl rfl rfl rfl
  emitIdle := fun _ _ now _ h _ => h.same (Ev.idle now) rfl rfl rfl rfl rfl rfl rfl rfl rfl
  publish := fun s _ now hb h he => h.ofExpiryPublish now hb.1.1.1 he
  fdtAdvance := fun _ _ now hb h _ hs => h.ofFdtAdvance now hb.1.1.1 hb.2.1 hs
  fileStart := fun _ _ _ _ tk _ hb h _ hfn => FInv.ofFileStart tk _ rfl hb.1 h hfn
  pkt := fun _ _ _ _ now _ idx b e _ h _ _ _ _ _ => h.ofPkt now idx b e
  done := fun _ _ _ _ now _ _ hb h _ hf _ => h.ofDone now hb.1 hf
  fdtPkt := fun _ _ _ _ _ _ _ _ hb h _ hc hf _ he => h.ofFdtPkt hb.1.1.1 hc hf he
  fdtDone := fun _ _ _ _ now _ hb h _ hc hf _ _ => h.ofFdtDone now hb.1.1.1 hc hf

theorem FInv.taint {N c : Nat} {tbl : List Nat} {log0 : List Ev} {s s' : State} {L L' : Held} (h : FInv N c tbl log0 s L)
    (e : Ev) (hlog : s'.log = e :: s.log) (hbad : okEv N e = false) : FInv N c tbl log0 s' L' :=
  h.event e hlog (fun hk => by rw [hbad] at hk; cases hk)

theorem FInv.taintMore {N c : Nat} {tbl : List Nat} {log0 : List Ev} {s s' : State} {L L' : Held}
    (h : FInv N c tbl log0 s L) (hbad : ∃ new, s.log = new ++ log0 ∧ ∃ e ∈ new, okEv N e = false)
    (new' : List Ev) (hlog : s'.log = new' ++ s.log) : FInv N c tbl log0 s' L' := by
  obtain ⟨new, e1, x, hx, hb⟩ := hbad
  exact ⟨new' ++ new, by rw [hlog, e1, List.append_assoc], Or.inl ⟨x, List.mem_append_right _ hx, hb⟩⟩

theorem FInv.closedOps (cfg : Cfg) (tbl : List Nat) (N c0 : Nat) (log0 : List Ev) :
    ClosedOps (FBase cfg tbl) (FInv N c0 tbl log0) where
  add := fun s _ a _ h => by
    unfold addObject; simp only []
    split
    · exact h.taint (Ev.opAdd s.nextToi a false) rfl rfl
    · split
      · exact h.taint (Ev.opAdd s.nextToi a false) rfl rfl
      · exact h.taint (Ev.opAdd s.nextToi a true) rfl rfl
  remove := fun s _ t _ h => by
    unfold removeObject
    split
    · exact h.taint (Ev.opRemove t false) rfl rfl
    · exact h.taint (Ev.opRemove t true) rfl rfl
  trigger := fun s _ t ts _ h => by
    unfold triggerTransferAt
    split
    · exact h.taint (Ev.opTrigger t ts false) rfl rfl
    · split
      · exact h.taint (Ev.opTrigger t ts false) rfl rfl
      · exact h.taint (Ev.opTrigger t ts true) rfl rfl
  publishOp := fun s L now _ h => by
    have h1 : FInv N c0 tbl log0 (emit s (.opPublish now)) L := h.taint (Ev.opPublish now) rfl rfl
    obtain ⟨new, e1, _⟩ := h
    have hbad : ∃ new', (emit s (.opPublish now)).log = new' ++ log0 ∧ ∃ e ∈ new', okEv N e = false :=
      ⟨Ev.opPublish now :: new, by show Ev.opPublish now :: s.log = _; rw [e1]; rfl, Ev.opPublish now,
        List.mem_cons_self, rfl⟩
    unfold publishOp
    rcases publishTry_cases (emit s (.opPublish now)) now with e | e
    · rw [e]
      exact h1.taintMore hbad [Ev.pub now (emit s (.opPublish now)).fdts.length (pubDesc (emit s (.opPublish now))).content]
        (by rw [publish_log]; rfl)
    · rw [e]; exact h1
  complete := fun _ _ _ h => h.silent rfl (Nat.le_of_eq (phiB_congr rfl rfl rfl rfl rfl rfl rfl))

/-- number of reads of the sequence that return something (an object packet or an FDT packet) -/
def busyReads (N : Nat) : State → List (List (Nat × Nat)) → Nat
  | _, [] => 0
  | s, tk :: rest =>
    (match (read s N tk).2 with | .none => 0 | _ => 1) + busyReads N (read s N tk).1 rest

theorem cntPk_split (l : List Ev) : cntPk l = cntObj l + cntFdt l := by
  induction l with
  | nil => rfl
  | cons e r ih =>
    rw [cntPk_cons, cntObj_cons, cntFdt_cons, ih]
    cases e <;> simp [isPk, isObjPk, isFdtPk] <;> omega

theorem busyReads_eq (N : Nat) : ∀ (tks : List (List (Nat × Nat))) (s : State) (new : List Ev),
    (run s (readsAt N tks)).log = new ++ s.log → cntPk new = busyReads N s tks := by
  intro tks
  induction tks with
  | nil =>
    intro s new h
    have : new = [] := by
      have h' : s.log = new ++ s.log := h
      have hl := congrArg List.length h'
      rw [List.length_append] at hl
      exact List.eq_nil_of_length_eq_zero (by omega)
    rw [this]; rfl
  | cons tk rest ih =>
    intro s new h
    have hr := read_out_log s N tk
    have hnh := read_no_hang s N tk
    obtain ⟨n2, e2, _⟩ := run_readsAt_ext N rest (read s N tk).1
    have h' : (run (read s N tk).1 (readsAt N rest)).log = new ++ s.log := h
    have first : ∃ n1, (read s N tk).1.log = n1 ++ s.log ∧
        cntPk n1 = (match (read s N tk).2 with | .none => 0 | _ => 1) := by
      unfold ReadRes at hr
      cases ho : (read s N tk).2 with
      | hang => exact absurd ho hnh
      | none =>
        rw [ho] at hr; obtain ⟨n, e, c⟩ := hr
        exact ⟨Ev.idle N :: n, by rw [e]; rfl, by rw [cntPk_cons, c]; rfl⟩
      | pkt p t i b =>
        rw [ho] at hr; obtain ⟨n, e, c⟩ := hr
        exact ⟨Ev.pkt N p t i b :: n, by rw [e]; rfl, by rw [cntPk_cons, c]; rfl⟩
      | fdt k id i =>
        rw [ho] at hr; obtain ⟨n, e, c⟩ := hr
        exact ⟨Ev.fdt N k id i :: n, by rw [e]; rfl, by rw [cntPk_cons, c]; rfl⟩
    obtain ⟨n1, e1, c1⟩ := first
    have hnew : new = n2 ++ n1 := by
      rw [e2, e1, ← List.append_assoc] at h'
      exact (List.append_cancel_right h').symm
    rw [hnew, cntPk_append, c1, ih (read s N tk).1 n2 e2]
    show _ = _ + busyReads N (read s N tk).1 rest
    omega

/-- the explicit measure of C12 `read_terminates` -/
def mu (N : Nat) (tbl : List Nat) (s : State) : Nat := phiA N s (heldOf s) + phiB N tbl s (heldOf s)

/-- `read_terminates`: for `0 < fdt_duration`, after ANY operation history, among ANY sequence of reads at one
    instant `N` at most `mu N tbl s` return something; hence `None` is returned after at most `mu` packets -/
theorem busy_reads_bounded (cfg : Cfg) (tbl : List Nat) (ops : List Op) (N : Nat)
    (tks : List (List (Nat × Nat))) :
    busyReads N (run (init cfg tbl) ops) tks ≤ mu N tbl (run (init cfg tbl) ops) := by
  have hb := run_inv (FBase.closed cfg tbl) (FBase.closedOps cfg tbl) ops (init cfg tbl)
    (by rw [heldOf_init]
        exact ⟨⟨⟨Wf.init cfg tbl, LifeInv.init cfg tbl⟩, by simp [KeysInv, init]⟩, ⟨rfl, rfl⟩⟩) rfl
  generalize run (init cfg tbl) ops = s0 at hb
  obtain ⟨hb0, hq0⟩ := hb
  have hm0 : MInv N (phiA N s0 (heldOf s0)) s0.log s0 (heldOf s0) := ⟨[], rfl, Or.inr (by simp [cntObj])⟩
  have hf0 : FInv N (phiB N tbl s0 (heldOf s0)) tbl s0.log s0 (heldOf s0) := ⟨[], rfl, Or.inr (by simp [cntFdt])⟩
  have hcl : Closed0 (And2 (And2 (FBase cfg tbl) (MInv N (phiA N s0 (heldOf s0)) s0.log))
      (FInv N (phiB N tbl s0 (heldOf s0)) tbl s0.log)) := by
    refine Closed.and (Closed.and (FBase.closed cfg tbl) ?_) ?_
    · -- MInv over the larger base
      have h := MInv.closed N (phiA N s0 (heldOf s0)) s0.log
      exact
      { perm := h.perm, leaveFiles := h.leaveFiles
        enterFiles := fun s L now hb => h.enterFiles s L now hb.1
        emitRead := fun s L now hb => h.emitRead s L now hb.1
        emitIdle := fun s L now hb => h.emitIdle s L now hb.1
        publish := fun s L now hb => h.publish s L now hb.1
        fdtAdvance := fun s L now hb => h.fdtAdvance s L now hb.1
        fileStart := fun s L prio now tk t hb => h.fileStart s L prio now tk t hb.1
        pkt := fun s L prio c now f idx b e hb => h.pkt s L prio c now f idx b e hb.1
        done := fun s L prio c now f e hb => h.done s L prio c now f e hb.1
        fdtPkt := fun s L c f now idx b e hb => h.fdtPkt s L c f now idx b e hb.1
        fdtDone := fun s L c f now e hb => h.fdtDone s L c f now e hb.1 }
    · have h := FInv.closed cfg tbl N (phiB N tbl s0 (heldOf s0)) s0.log
      exact
      { perm := h.perm, leaveFiles := h.leaveFiles
        enterFiles := fun s L now hb => h.enterFiles s L now hb.1
        emitRead := fun s L now hb => h.emitRead s L now hb.1
        emitIdle := fun s L now hb => h.emitIdle s L now hb.1
        publish := fun s L now hb => h.publish s L now hb.1
        fdtAdvance := fun s L now hb => h.fdtAdvance s L now hb.1
        fileStart := fun s L prio now tk t hb => h.fileStart s L prio now tk t hb.1
        pkt := fun s L prio c now f idx b e hb => h.pkt s L prio c now f idx b e hb.1
        done := fun s L prio c now f e hb => h.done s L prio c now f e hb.1
        fdtPkt := fun s L c f now idx b e hb => h.fdtPkt s L c f now idx b e hb.1
        fdtDone := fun s L c f now e hb => h.fdtDone s L c f now e hb.1 }
  have hco : ClosedOps0 (And2 (And2 (FBase cfg tbl) (MInv N (phiA N s0 (heldOf s0)) s0.log))
      (FInv N (phiB N tbl s0 (heldOf s0)) tbl s0.log)) := by
    refine ClosedOps.and (ClosedOps.and (FBase.closedOps cfg tbl) ?_) ?_
    · have h := MInv.closedOps N (phiA N s0 (heldOf s0)) s0.log
      exact
      { add := fun s L a hb => h.add s L a hb.1
        remove := fun s L t hb => h.remove s L t hb.1
        trigger := fun s L t ts hb => h.trigger s L t ts hb.1
        publishOp := fun s L now hb => h.publishOp s L now hb.1
        complete := fun s L hb => h.complete s L hb.1 }
    · have h := FInv.closedOps cfg tbl N (phiB N tbl s0 (heldOf s0)) s0.log
      exact
      { add := fun s L a hb => h.add s L a hb.1
        remove := fun s L t hb => h.remove s L t hb.1
        trigger := fun s L t ts hb => h.trigger s L t ts hb.1
        publishOp := fun s L now hb => h.publishOp s L now hb.1
        complete := fun s L hb => h.complete s L hb.1 }
  have h1 := run_inv hcl hco (readsAt N tks) s0 ⟨⟨hb0, hm0⟩, hf0⟩ hq0
  obtain ⟨newA, eA, hA⟩ := h1.1.1.2
  obtain ⟨newB, eB, hB⟩ := h1.1.2
  obtain ⟨n2, e2, ok2⟩ := run_readsAt_ext N tks s0
  have hnA : newA = n2 := by rw [e2] at eA; exact (List.append_cancel_right eA).symm
  have hnB : newB = n2 := by rw [e2] at eB; exact (List.append_cancel_right eB).symm
  have cA : cntObj n2 ≤ phiA N s0 (heldOf s0) := by
    rcases hA with ⟨x, hx, hbad⟩ | hA
    · rw [hnA] at hx; rw [ok2 x hx] at hbad; cases hbad
    · rw [hnA] at hA; omega
  have cB : cntFdt n2 ≤ phiB N tbl s0 (heldOf s0) := by
    rcases hB with ⟨x, hx, hbad⟩ | hB
    · rw [hnB] at hx; rw [ok2 x hx] at hbad; cases hbad
    · rw [hnB] at hB; omega
  rw [← busyReads_eq N tks s0 n2 e2, cntPk_split]
  unfold mu
  omega

end Flute.Sched

namespace Flute.Sched

theorem reads_shift_state (s : State) (N : Nat) (tk : List (Nat × Nat)) :
    ∀ k, (reads (read s N tk).1 N tk k).1 = (reads s N tk (k + 1)).1 := by
  intro k
  induction k with
  | zero => rfl
  | succ k ih =>
    show (read (reads (read s N tk).1 N tk k).1 N tk).1 = (read (reads s N tk (k + 1)).1 N tk).1
    rw [ih]

theorem reads_shift (s : State) (N : Nat) (tk : List (Nat × Nat)) (k : Nat) :
    reads (read s N tk).1 N tk (k + 1) = reads s N tk (k + 2) := by
  show read (reads (read s N tk).1 N tk k).1 N tk = read (reads s N tk (k + 1)).1 N tk
  rw [reads_shift_state]

theorem all_busy (N : Nat) (tk : List (Nat × Nat)) : ∀ (n : Nat) (s : State),
    (∀ k, k < n → (reads s N tk (k + 1)).2 ≠ Out.none) → busyReads N s (List.replicate n tk) = n := by
  intro n
  induction n with
  | zero => intro s _; rfl
  | succ n ih =>
    intro s h
    show (match (read s N tk).2 with | .none => 0 | _ => 1) + busyReads N (read s N tk).1 (List.replicate n tk) = n + 1
    have h0 : (read s N tk).2 ≠ Out.none := h 0 (Nat.succ_pos _)
    have hrest := ih (read s N tk).1 (fun k hk => by rw [reads_shift]; exact h (k + 1) (by omega))
    rw [hrest]
    cases ho : (read s N tk).2 with
    | none => exact absurd ho h0
    | hang => simp; omega
    | pkt a b c d => simp; omega
    | fdt a b c => simp; omega

/-- corollary: polling at one instant, `None` comes back within `mu + 1` reads -/
theorem reads_reach_none (cfg : Cfg) (tbl : List Nat) (ops : List Op) (N : Nat)
    (tk : List (Nat × Nat)) :
    ∃ k, k ≤ mu N tbl (run (init cfg tbl) ops) ∧ (reads (run (init cfg tbl) ops) N tk (k + 1)).2 = Out.none := by
  by_cases h : ∃ k, k ≤ mu N tbl (run (init cfg tbl) ops) ∧ (reads (run (init cfg tbl) ops) N tk (k + 1)).2 = Out.none
  · exact h
  · exfalso
    have hall : ∀ k, k < mu N tbl (run (init cfg tbl) ops) + 1 → (reads (run (init cfg tbl) ops) N tk (k + 1)).2 ≠ Out.none := by
      intro k hk hn
      exact h ⟨k, by omega, hn⟩
    have h1 := all_busy N tk _ (run (init cfg tbl) ops) hall
    have h2 := busy_reads_bounded cfg tbl ops N (List.replicate (mu N tbl (run (init cfg tbl) ops) + 1) tk)
    omega

end Flute.Sched
