import FluteModel.Recv
import FluteModel.Lemmas.RecvBasic
import FluteModel.Lemmas.RecvInv
/-
  A predicate on the objects of the `objects` registry is an invariant of every receiver call as soon as it holds for
  fresh objects and is preserved by the three interface functions that return an object (`new`, `push`, `attach_fdt`).
  Generic in the interface: used by Props/C04Whole.lean with "no fault so far and the object-level invariant holds"
  for the full object model.  (Integrator's lemma file; imports Recv / RecvBasic only.)
-/
namespace Flute.Recv.AllObj
open Flute Flute.Recv
variable {σ : Type}

/-- every object of the `objects` registry satisfies `P` -/
def ObjsAll (P : σ → Prop) (s : State σ) : Prop := ∀ x ∈ s.objects, P x.2

/-- `s'` holds no object that `s` did not hold -/
def ObjsSub (s' s : State σ) : Prop := ∀ x ∈ s'.objects, x ∈ s.objects

theorem ObjsSub.refl (s : State σ) : ObjsSub s s := fun _ h => h
theorem ObjsSub.trans {a b c : State σ} (h1 : ObjsSub a b) (h2 : ObjsSub b c) : ObjsSub a c := fun x h => h2 x (h1 x h)
theorem ObjsAll.sub {P : σ → Prop} {s s' : State σ} (h : ObjsAll P s) (hs : ObjsSub s' s) : ObjsAll P s' :=
  fun x hx => h x (hs x hx)

theorem removeObject_sub (I : ObjIface σ) (s : State σ) (t : Nat) : ObjsSub (removeObject I s t).1 s := by
  unfold removeObject
  cases alookup t s.objects with
  | none => exact ObjsSub.refl s
  | some o => intro x hx; exact mem_aerase hx

theorem gcObjectError_sub (I : ObjIface σ) : ∀ (fuel : Nat) (s : State σ), ObjsSub (gcObjectError I fuel s).1 s
  | 0, s => ObjsSub.refl s
  | fuel + 1, s => by
    unfold gcObjectError
    split
    · cases he : s.errors with
      | nil => exact ObjsSub.refl s
      | cons toi rest =>
        simp only []
        have h1 := removeObject_sub I { s with errors := rest } toi
        have h2 := gcObjectError_sub I fuel (removeObject I { s with errors := rest } toi).1
        exact h2.trans h1
    · exact ObjsSub.refl s

theorem checkObjectState_sub (I : ObjIface σ) (s : State σ) (t : Nat) : ObjsSub (checkObjectState I s t).1 s := by
  unfold checkObjectState
  cases alookup t s.objects with
  | none => exact ObjsSub.refl s
  | some o =>
    simp only []
    cases I.state o with
    | receiving => exact ObjsSub.refl s
    | completed =>
      simp only []
      split
      · exact removeObject_sub I _ t
      · exact removeObject_sub I _ t
    | interrupted =>
      simp only []
      have h2 := gcObjectError_sub I (sinsert t s.errors).length { s with errors := sinsert t s.errors }
      exact (removeObject_sub I _ t).trans h2
    | error =>
      simp only []
      have h2 := gcObjectError_sub I (sinsert t s.errors).length { s with errors := sinsert t s.errors }
      exact (removeObject_sub I _ t).trans h2

theorem checkObjectStates_sub (I : ObjIface σ) : ∀ (l : List Nat) (s : State σ), ObjsSub (checkObjectStates I s l).1 s
  | [], s => ObjsSub.refl s
  | t :: ts, s => by
    unfold checkObjectStates
    exact (checkObjectStates_sub I ts _).trans (checkObjectState_sub I s t)

/-- every FDT instance a receiver holds (parsed XML of a completed FDT object) satisfies `Q` -/
def InstQ (Q : FdtAbs → Prop) (f : FdtRecv σ) : Prop := ∀ inst, f.inst = some inst → Q inst

theorem updateExpired_inst (f f' : FdtRecv σ) (now : Int) (h : f.updateExpired now = .ok f') : f'.inst = f.inst := by
  unfold FdtRecv.updateExpired at h
  split at h
  · injection h with h; rw [← h]
  · split at h
    · split at h
      · cases h
      · injection h with h; rw [← h]
      · injection h with h; rw [← h]
    · injection h with h; rw [← h]

theorem applyWEvs_instQ (Q : FdtAbs → Prop) (ans : FdtAns) (hans : ∀ fdt u, ans = .ok fdt u → Q fdt) :
    ∀ (evs : List WEv) (f : FdtRecv σ), InstQ Q f → InstQ Q (f.applyWEvs ans evs) := by
  intro evs
  induction evs with
  | nil => intro f h; exact h
  | cons e r ih =>
    intro f h
    simp only [FdtRecv.applyWEvs, List.foldl_cons]
    apply ih
    cases e with
    | complete =>
      simp only [FdtRecv.applyWEv]
      split
      · exact h
      · cases hans' : ans with
        | err => intro inst hi; exact h inst hi
        | ok fdt u =>
          intro inst hi
          simp only [Option.some.injEq] at hi
          rw [← hi]; exact hans fdt u hans'
    | error => intro inst hi; exact h inst hi
    | interrupted => intro inst hi; exact h inst hi
    | write a b =>
      simp only [FdtRecv.applyWEv]
      split <;> (intro inst hi; exact h inst hi)
    | new c => intro inst hi; exact h inst hi
    | opened => intro inst hi; exact h inst hi

theorem push_instQ (I : ObjIface σ) (Q : FdtAbs → Prop) (ans : FdtAns) (hans : ∀ fdt u, ans = .ok fdt u → Q fdt)
    (f : FdtRecv σ) (p : Pkt) (now : Int) (h : InstQ Q f) : InstQ Q (f.push I p now ans) := by
  have h0 : InstQ Q (f.observeSct p.sct now) := by
    unfold FdtRecv.observeSct
    split
    · split <;> exact h
    · exact h
  unfold FdtRecv.push
  simp only []
  generalize f.observeSct p.sct now = g at h0
  cases hobj : g.obj with
  | none => exact h0
  | some o =>
    simp only []
    have h1 := applyWEvs_instQ Q ans hans (I.push o p).2 g h0
    cases I.state (I.push o p).1 with
    | receiving => intro inst hi; exact h1 inst hi
    | completed =>
      simp only []
      apply applyWEvs_instQ Q ans hans
      intro inst hi; exact h1 inst hi
    | interrupted => intro inst hi; exact h1 inst hi
    | error => intro inst hi; exact h1 inst hi

theorem attachAll_all (I : ObjIface σ) (P : σ → Prop) (Q : FdtAbs → Prop)
    (hatt : ∀ o id f, Q f → P o → P (I.attachFdt o id f).1)
    (id : Nat) (inst : FdtAbs) (hq : Q inst) : ∀ (objs : List (Nat × σ)), (∀ x ∈ objs, P x.2) →
      ∀ x ∈ (attachAll I id inst objs).1, P x.2
  | [], _ => by intro x hx; simp [attachAll] at hx
  | (toi, o) :: r, h => by
    intro x hx
    simp only [attachAll, List.mem_cons] at hx
    rcases hx with hx | hx
    · rw [hx]; exact hatt o id inst hq (h (toi, o) (by simp))
    · exact attachAll_all I P Q hatt id inst hq r (fun y hy => h y (List.mem_cons_of_mem _ hy)) x hx

theorem attachLatest_all (I : ObjIface σ) (P : σ → Prop) (Q : FdtAbs → Prop)
    (hatt : ∀ o id f, Q f → P o → P (I.attachFdt o id f).1)
    (s : State σ) (hcur : ∀ f ∈ s.fdtCurrent, InstQ Q f) (h : ObjsAll P s) : ObjsAll P (attachLatest I s).1 := by
  unfold attachLatest
  cases hc : s.fdtCurrent with
  | nil => exact h
  | cons f _ =>
    simp only []
    cases hi : f.inst with
    | none => exact h
    | some inst =>
      simp only []
      have hq : Q inst := hcur f (by rw [hc]; simp) inst hi
      have h1 : ObjsAll P { s with objects := (attachAll I f.fdtId inst s.objects).1 } :=
        attachAll_all I P Q hatt f.fdtId inst hq s.objects h
      exact h1.sub (checkObjectStates_sub I _ _)

theorem createScan_P (I : ObjIface σ) (P : σ → Prop) (Q : FdtAbs → Prop)
    (hatt : ∀ o id f, Q f → P o → P (I.attachFdt o id f).1)
    (toi : Nat) (now : Int) : ∀ (l : List (FdtRecv σ)) (o : σ) (o' : σ) (l' : List (FdtRecv σ)) (evs : List Ev),
      (∀ f ∈ l, InstQ Q f) → P o → createScan I toi now o l = .ok (o', l', evs) → P o'
  | [], o, o', l', evs, _, hp, h => by
    simp only [createScan] at h
    injection h with h; injection h with h1 _; rw [← h1]; exact hp
  | f :: r, o, o', l', evs, hl, hp, h => by
    unfold createScan at h
    have hr : ∀ g ∈ r, InstQ Q g := fun g hg => hl g (List.mem_cons_of_mem _ hg)
    cases hu : f.updateExpired now with
    | error w => simp [hu] at h
    | ok f' =>
      simp only [hu] at h
      have hq' : InstQ Q f' := by
        intro inst hi; rw [updateExpired_inst f f' now hu] at hi; exact hl f (by simp) inst hi
      -- whatever `att` is, its object satisfies `P`
      have hatt1 : ∀ (o1 : σ) (b : Bool) (evs1 : List WEv),
          (if f'.st = .complete then
            match f'.inst with
            | some inst => some (I.attachFdt o f'.fdtId inst)
            | none => none
           else none) = some (o1, b, evs1) → P o1 := by
        intro o1 b evs1 hh
        split at hh
        · split at hh
          · rename_i inst hinst
            injection hh with hh
            have := hatt o f'.fdtId inst (hq' inst hinst) hp
            rw [hh] at this; exact this
          · cases hh
        · cases hh
      split at h
      · rename_i o1 evs1 hh
        injection h with h; injection h with h1 _
        rw [← h1]; exact hatt1 o1 true evs1 hh
      · rename_i o1 evs1 hh
        have hp1 : P o1 := hatt1 o1 false evs1 hh
        cases hrr : createScan I toi now o1 r with
        | error w => simp [hrr] at h
        | ok v =>
          obtain ⟨o2, r2, e2⟩ := v
          simp only [hrr] at h
          injection h with h; injection h with h1 _
          rw [← h1]
          exact createScan_P I P Q hatt toi now r o1 o2 r2 e2 hr hp1 hrr
      · cases hrr : createScan I toi now o r with
        | error w => simp [hrr] at h
        | ok v =>
          obtain ⟨o2, r2, e2⟩ := v
          simp only [hrr] at h
          injection h with h; injection h with h1 _
          rw [← h1]
          exact createScan_P I P Q hatt toi now r o o2 r2 e2 hr hp hrr

theorem all_ainsert {P : σ → Prop} {l : List (Nat × σ)} {k : Nat} {o : σ} (h : ∀ x ∈ l, P x.2) (ho : P o) :
    ∀ x ∈ ainsert k o l, P x.2 := by
  intro x hx
  rcases mem_ainsert hx with hx | hx
  · rw [hx]; exact ho
  · exact h x hx

theorem createObj_all (I : ObjIface σ) (P : σ → Prop) (Q : FdtAbs → Prop)
    (hatt : ∀ o id f, Q f → P o → P (I.attachFdt o id f).1)
    (s s' : State σ) (toi : Nat) (now : Int) (evs : List Ev) (hnew : P (I.new toi s.cfg.maxCache))
    (hcur : ∀ f ∈ s.fdtCurrent, InstQ Q f)
    (h : createObj I s toi now = .ok (s', evs)) (hs : ObjsAll P s) : ObjsAll P s' := by
  unfold createObj at h
  cases hc : createScan I toi now (I.new toi s.cfg.maxCache) s.fdtCurrent with
  | error w => simp [hc] at h
  | ok v =>
    obtain ⟨o, cur, e⟩ := v
    simp only [hc] at h
    injection h with h; injection h with h1 _
    rw [← h1]
    exact all_ainsert hs (createScan_P I P Q hatt toi now _ _ o cur e hcur hnew hc)

theorem pushObjCore_all (I : ObjIface σ) (P : σ → Prop) (Q : FdtAbs → Prop)
    (hatt : ∀ o id f, Q f → P o → P (I.attachFdt o id f).1)
    (s s' : State σ) (p : Pkt) (now : Int) (r : Res) (evs : List Ev)
    (hnew : P (I.new p.toi s.cfg.maxCache)) (hpush : ∀ o, P o → P (I.push o p).1)
    (hcur : ∀ f ∈ s.fdtCurrent, InstQ Q f)
    (h : pushObjCore I s p now = .ok (s', r, evs)) (hs : ObjsAll P s) : ObjsAll P s' := by
  unfold pushObjCore at h
  -- the creation step
  obtain ⟨s1, e0, hcr, hs1⟩ : ∃ s1 e0,
      (if (alookup p.toi s.objects).isNone then createObj I s p.toi now else .ok (s, [])) = .ok (s1, e0) ∧
      ObjsAll P s1 := by
    by_cases hn : (alookup p.toi s.objects).isNone = true
    · rw [if_pos hn] at h ⊢
      cases hc : createObj I s p.toi now with
      | error w => rw [hc] at h; cases h
      | ok v =>
        obtain ⟨s1, e0⟩ := v
        exact ⟨s1, e0, rfl, createObj_all I P Q hatt s s1 p.toi now e0 hnew hcur hc hs⟩
    · rw [if_neg hn]
      exact ⟨s, [], rfl, hs⟩
  simp only [hcr] at h
  cases hl : alookup p.toi s1.objects with
  | none =>
    simp only [hl] at h
    injection h with h; injection h with h1 _
    rw [← h1]; exact hs1
  | some o =>
    simp only [hl] at h
    injection h with h; injection h with h1 _
    rw [← h1]
    have ho : P o := hs1 (p.toi, o) (alookup_mem hl)
    have h2 : ObjsAll P { s1 with objects := ainsert p.toi (I.push o p).1 s1.objects } :=
      all_ainsert hs1 (hpush o ho)
    exact h2.sub (checkObjectState_sub I _ p.toi)

theorem pushObj_all (I : ObjIface σ) (P : σ → Prop) (Q : FdtAbs → Prop)
    (hatt : ∀ o id f, Q f → P o → P (I.attachFdt o id f).1)
    (s s' : State σ) (p : Pkt) (now : Int) (r : Res) (evs : List Ev)
    (hnew : P (I.new p.toi s.cfg.maxCache)) (hpush : ∀ o, P o → P (I.push o p).1)
    (hcur : ∀ f ∈ s.fdtCurrent, InstQ Q f)
    (h : pushObj I s p now = .ok (s', r, evs)) (hs : ObjsAll P s) : ObjsAll P s' := by
  unfold pushObj at h
  cases hg : gateCompleted s p with
  | inr r0 =>
    simp only [hg] at h
    injection h with h; injection h with h1 _; rw [← h1]; exact hs
  | inl s1 =>
    simp only [hg] at h
    have h1 : s1.objects = s.objects ∧ s1.cfg = s.cfg ∧ s1.fdtCurrent = s.fdtCurrent := by
      unfold gateCompleted at hg
      split at hg
      · split at hg
        · cases hg
        · split at hg
          · cases hg
          · split at hg
            · injection hg with hg; rw [← hg]; exact ⟨rfl, rfl, rfl⟩
            · cases hg
      · injection hg with hg; rw [← hg]; exact ⟨rfl, rfl, rfl⟩
    cases hg2 : gateError s1 p with
    | inr r0 =>
      simp only [hg2] at h
      injection h with h; injection h with h2 _; rw [← h2]
      intro x hx; rw [h1.1] at hx; exact hs x hx
    | inl s2 =>
      simp only [hg2] at h
      have h2 : s2.objects = s1.objects ∧ s2.cfg = s1.cfg ∧ s2.fdtCurrent = s1.fdtCurrent := by
        unfold gateError at hg2
        split at hg2
        · split at hg2
          · cases hg2
          · split at hg2
            · injection hg2 with hg2; rw [← hg2]; exact ⟨rfl, rfl, rfl⟩
            · cases hg2
        · injection hg2 with hg2; rw [← hg2]; exact ⟨rfl, rfl, rfl⟩
      refine pushObjCore_all I P Q hatt s2 s' p now r evs (by rw [h2.2.1, h1.2.1]; exact hnew) hpush
        (by rw [h2.2.2, h1.2.2]; exact hcur) h ?_
      intro x hx; rw [h2.1, h1.1] at hx; exact hs x hx

theorem gcObjectCompleted_objects (s : State σ) : (gcObjectCompleted s).objects = s.objects := by
  unfold gcObjectCompleted
  split
  · rfl
  · split
    · rfl
    · split <;> rfl

theorem updateCompletedCc_objects (s : State σ) : (updateCompletedCc s).1.objects = s.objects := by
  unfold updateCompletedCc
  split
  · rfl
  · split
    · rfl
    · split <;> rfl

theorem fdtCompleted_all (I : ObjIface σ) (P : σ → Prop) (Q : FdtAbs → Prop)
    (hatt : ∀ o id f, Q f → P o → P (I.attachFdt o id f).1)
    (s s' : State σ) (id : Nat) (r : Res) (evs : List Ev) (hq : AllFdt (InstQ Q) s)
    (h : fdtCompleted I s id = .ok (s', r, evs)) (hs : ObjsAll P s) : ObjsAll P s' := by
  unfold fdtCompleted at h
  cases hp : prevIdCheck s.fdtCurrent with
  | error w => simp [hp] at h
  | ok u =>
    simp only [hp] at h
    cases hl : alookup id s.fdtReceivers with
    | none =>
      simp only [hl] at h
      injection h with h; injection h with h1 _; rw [← h1]; exact hs
    | some f =>
      simp only [hl] at h
      cases hc : fdtCb f id with
      | error w => simp [hc] at h
      | ok e0 =>
        simp only [hc] at h
        injection h with h; injection h with h1 _
        rw [← h1]
        have hf : InstQ Q f := hq.2 (id, f) (alookup_mem hl)
        have ha := attachLatest_all I P Q hatt
          { s with fdtReceivers := aerase id s.fdtReceivers, fdtCurrent := f :: s.fdtCurrent }
          (by
            intro g hg
            simp only [List.mem_cons] at hg
            rcases hg with hg | hg
            · rw [hg]; exact hf
            · exact hq.1 g hg) hs
        intro x hx
        apply ha x
        split at hx
        · simpa [updateCompletedCc_objects, gcObjectCompleted_objects] using hx
        · simpa [updateCompletedCc_objects, gcObjectCompleted_objects] using hx

theorem fdtDispatch_all (I : ObjIface σ) (P : σ → Prop) (Q : FdtAbs → Prop)
    (hatt : ∀ o id f, Q f → P o → P (I.attachFdt o id f).1)
    (s s' : State σ) (id : Nat) (f : FdtRecv σ) (now : Int) (r : Res) (evs : List Ev) (hq : AllFdt (InstQ Q) s)
    (h : fdtDispatch I s id f now = .ok (s', r, evs)) (hs : ObjsAll P s) : ObjsAll P s' := by
  unfold fdtDispatch at h
  cases hst : f.st with
  | receiving => simp only [hst] at h; injection h with h; injection h with h1 _; rw [← h1]; exact hs
  | error => simp only [hst] at h; injection h with h; injection h with h1 _; rw [← h1]; exact hs
  | expired =>
    simp only [hst] at h
    cases h1 : f.serverTime now with
    | error w => simp [h1] at h
    | ok t =>
      simp only [h1] at h
      cases h2 : chronoConv (f.expires.getD now) with
      | error w => simp [h2] at h
      | ok u =>
        simp only [h2] at h
        cases h3 : chronoConv t with
        | error w => simp [h3] at h
        | ok u2 =>
          simp only [h3] at h
          injection h with h; injection h with h4 _; rw [← h4]; exact hs
  | complete => simp only [hst] at h; exact fdtCompleted_all I P Q hatt s s' id r evs hq h hs

theorem pushFdtObj_all (I : ObjIface σ) (P : σ → Prop) (Q : FdtAbs → Prop)
    (hatt : ∀ o id f, Q f → P o → P (I.attachFdt o id f).1)
    (s s' : State σ) (p : Pkt) (now : Int) (ans : FdtAns) (r : Res) (evs : List Ev)
    (hq : AllFdt (InstQ Q) s) (hans : ∀ fdt u, ans = .ok fdt u → Q fdt)
    (h : pushFdtObj I s p now ans = .ok (s', r, evs)) (hs : ObjsAll P s) : ObjsAll P s' := by
  have hd : (dropConflict s p).objects = s.objects := by
    unfold dropConflict
    split
    · rfl
    · split
      · rfl
      · split <;> rfl
  have hs0 : ObjsAll P (dropConflict s p) := by intro x hx; rw [hd] at hx; exact hs x hx
  have hq0 : AllFdt (InstQ Q) (dropConflict s p) := (dropConflict_all (InstQ Q) s p hq).1
  unfold pushFdtObj pushFdtObj' at h
  generalize dropConflict s p = s0 at h hs0 hq0
  have triv : ∀ (r0 : Res), (Except.ok (s0, r0, ([] : List Ev)) : Rs _) = .ok (s', r, evs) → ObjsAll P s' := by
    intro r0 h; injection h with h; injection h with h1 _; rw [← h1]; exact hs0
  cases hid : p.fdtId with
  | none =>
    simp only [hid] at h
    split at h
    · exact triv _ h
    · split at h
      · exact triv _ h
      · exact triv _ h
  | some id =>
    simp only [hid] at h
    split at h
    · exact triv _ h
    · have he : (fdtEntry I s0 id p).1.objects = s0.objects := by
        unfold fdtEntry
        split <;> rfl
      have hs1 : ObjsAll P (fdtEntry I s0 id p).1 := by intro x hx; rw [he] at hx; exact hs0 x hx
      have hnote : ∀ (f : FdtRecv σ) v, InstQ Q f → InstQ Q (f.noteFti v) := by
        intro f v hf
        unfold FdtRecv.noteFti
        split
        · intro inst hi; exact hf inst hi
        · exact hf
      have hnewq : InstQ Q (FdtRecv.new I id s0.cfg.expCheck) := by
        intro inst hi; simp [FdtRecv.new] at hi
      obtain ⟨hq1, hq2⟩ := fdtEntry_all I (InstQ Q) s0 id p hnote hnewq hq0
      split at h
      · injection h with h; injection h with h1 _; rw [← h1]; exact hs1
      · -- the pushed (and possibly re-dated) instance
        have hpushed : InstQ Q ((fdtEntry I s0 id p).2.push I p now ans) :=
          push_instQ I Q ans hans _ p now hq2.1
        split at h
        · cases h
        · rename_i f hf
          have hfq : InstQ Q f := by
            split at hf
            · intro inst hi
              rw [updateExpired_inst _ f now hf] at hi
              exact hpushed inst hi
            · injection hf with hf; rw [← hf]; exact hpushed
          refine fdtDispatch_all I P Q hatt _ s' id f now r evs ?_ h hs1
          refine ⟨hq1.1, ?_⟩
          intro kf hkf
          rcases mem_ainsert hkf with hkf | hkf
          · rw [hkf]; exact hfq
          · exact hq1.2 kf hkf

theorem removeObjects_sub (I : ObjIface σ) : ∀ (l : List Nat) (s : State σ), ObjsSub (removeObjects I s l).1 s
  | [], s => ObjsSub.refl s
  | t :: ts, s => by
    unfold removeObjects
    have h1 := removeObject_sub I { s with errors := s.errors.filter (· ≠ t) } t
    exact (removeObjects_sub I ts _).trans h1

theorem cleanup_all (I : ObjIface σ) (P : σ → Prop) (s s' : State σ) (now : Int) (stale : Stale) (evs : List Ev)
    (h : cleanup I s now stale = .ok (s', evs)) (hs : ObjsAll P s) : ObjsAll P s' := by
  unfold cleanup at h
  have h1 : ObjsSub (cleanupObjects I s stale.obj).1 s := by
    unfold cleanupObjects
    split
    · exact ObjsSub.refl s
    · exact removeObjects_sub I _ s
  cases hc : cleanupFdt (cleanupObjects I s stale.obj).1 now stale.fdt with
  | error w => simp [hc] at h
  | ok s2 =>
    simp only [hc] at h
    injection h with h; injection h with h2 _
    rw [← h2]
    have : s2.objects = (cleanupObjects I s stale.obj).1.objects := by
      unfold cleanupFdt at hc
      split at hc
      · cases hc
      · injection hc with hc; rw [← hc]
    intro x hx; rw [this] at hx; exact hs x (h1 x hx)

/-- **the object invariant is an invariant of every receiver call**, as long as every FDT instance the receiver holds
    (and the XML-parser answer of this call) satisfies `Q` -/
theorem step_objsAll (I : ObjIface σ) (P : σ → Prop) (Q : FdtAbs → Prop)
    (hatt : ∀ o id f, Q f → P o → P (I.attachFdt o id f).1)
    (s s' : State σ) (op : Op) (r : Res) (evs : List Ev)
    (hnew : ∀ toi, P (I.new toi s.cfg.maxCache))
    (hpush : ∀ p now ans, op = .data (.pkt p) now ans → ∀ o, P o → P (I.push o p).1)
    (hq : AllFdt (InstQ Q) s)
    (hans : ∀ d now ans, op = .data d now ans → ∀ fdt u, ans = .ok fdt u → Q fdt)
    (h : step I s op = .ok (s', r, evs)) (hs : ObjsAll P s) : ObjsAll P s' := by
  cases op with
  | cleanup now stale =>
    simp only [step] at h
    cases hc : cleanup I s now stale with
    | error w => simp [hc] at h
    | ok v =>
      obtain ⟨s1, e1⟩ := v
      simp only [hc] at h
      injection h with h; injection h with h1 _
      rw [← h1]; exact cleanup_all I P s s1 now stale e1 hc hs
  | data d now ans =>
    simp only [step, pushData] at h
    cases d with
    | reject => injection h with h; injection h with h1 _; rw [← h1]; exact hs
    | otherTsi => injection h with h; injection h with h1 _; rw [← h1]; exact hs
    | pkt p =>
      simp only [push] at h
      have hcs : ∀ (s0 : State σ), s0.objects = s.objects → s0.cfg = s.cfg → s0.fdtCurrent = s.fdtCurrent →
          s0.fdtReceivers = s.fdtReceivers → ObjsAll P s0 ∧ P (I.new p.toi s0.cfg.maxCache) ∧ AllFdt (InstQ Q) s0 := by
        intro s0 h1 h2 h3 h4
        exact ⟨by intro x hx; rw [h1] at hx; exact hs x hx, by rw [h2]; exact hnew p.toi,
          ⟨by rw [h3]; exact hq.1, by rw [h4]; exact hq.2⟩⟩
      split at h
      · refine pushFdtObj_all I P Q hatt _ s' p now ans r evs ?_ (hans (.pkt p) now ans rfl) h ?_
        · split
          · exact (hcs _ rfl rfl rfl rfl).2.2
          · exact hq
        · split
          · exact (hcs _ rfl rfl rfl rfl).1
          · exact hs
      · refine pushObj_all I P Q hatt _ s' p now r evs ?_ (hpush p now ans rfl) ?_ h ?_
        · split
          · exact (hcs _ rfl rfl rfl rfl).2.1
          · exact hnew p.toi
        · split
          · exact (hcs _ rfl rfl rfl rfl).2.2.1
          · exact hq.1
        · split
          · exact (hcs _ rfl rfl rfl rfl).1
          · exact hs

/-! ### the configuration never changes -/

theorem removeObject_cfg (I : ObjIface σ) (s : State σ) (t : Nat) : (removeObject I s t).1.cfg = s.cfg := by
  unfold removeObject; split <;> rfl

theorem gcObjectError_cfg (I : ObjIface σ) : ∀ (fuel : Nat) (s : State σ), (gcObjectError I fuel s).1.cfg = s.cfg
  | 0, s => rfl
  | fuel + 1, s => by
    unfold gcObjectError
    split
    · cases he : s.errors with
      | nil => rfl
      | cons toi rest =>
        simp only []
        rw [gcObjectError_cfg I fuel, removeObject_cfg]
    · rfl

theorem checkObjectState_cfg (I : ObjIface σ) (s : State σ) (t : Nat) : (checkObjectState I s t).1.cfg = s.cfg := by
  unfold checkObjectState
  cases alookup t s.objects with
  | none => rfl
  | some o =>
    simp only []
    cases I.state o with
    | receiving => rfl
    | completed => simp only []; rw [removeObject_cfg]; split <;> rfl
    | interrupted => simp only []; rw [removeObject_cfg, gcObjectError_cfg]
    | error => simp only []; rw [removeObject_cfg, gcObjectError_cfg]

theorem checkObjectStates_cfg (I : ObjIface σ) : ∀ (l : List Nat) (s : State σ), (checkObjectStates I s l).1.cfg = s.cfg
  | [], s => rfl
  | t :: ts, s => by
    unfold checkObjectStates
    simp only []
    rw [checkObjectStates_cfg I ts, checkObjectState_cfg]

theorem attachLatest_cfg (I : ObjIface σ) (s : State σ) : (attachLatest I s).1.cfg = s.cfg := by
  unfold attachLatest
  cases s.fdtCurrent with
  | nil => rfl
  | cons f _ =>
    simp only []
    cases f.inst with
    | none => rfl
    | some inst => simp only []; rw [checkObjectStates_cfg]

theorem gcObjectCompleted_cfg (s : State σ) : (gcObjectCompleted s).cfg = s.cfg := by
  unfold gcObjectCompleted
  split
  · rfl
  · split
    · rfl
    · split <;> rfl

theorem updateCompletedCc_cfg (s : State σ) : (updateCompletedCc s).1.cfg = s.cfg := by
  unfold updateCompletedCc
  split
  · rfl
  · split
    · rfl
    · split <;> rfl

theorem pushObjCore_cfg (I : ObjIface σ) (s s' : State σ) (p : Pkt) (now : Int) (r : Res) (evs : List Ev)
    (h : pushObjCore I s p now = .ok (s', r, evs)) : s'.cfg = s.cfg := by
  unfold pushObjCore at h
  obtain ⟨s1, e0, hcr, hs1⟩ : ∃ s1 e0,
      (if (alookup p.toi s.objects).isNone then createObj I s p.toi now else .ok (s, [])) = .ok (s1, e0) ∧
      s1.cfg = s.cfg := by
    by_cases hn : (alookup p.toi s.objects).isNone = true
    · rw [if_pos hn] at h ⊢
      cases hc : createObj I s p.toi now with
      | error w => rw [hc] at h; cases h
      | ok v =>
        obtain ⟨s1, e0⟩ := v
        refine ⟨s1, e0, rfl, ?_⟩
        unfold createObj at hc
        split at hc
        · cases hc
        · injection hc with hc; injection hc with h1 _; rw [← h1]
    · rw [if_neg hn]; exact ⟨s, [], rfl, rfl⟩
  simp only [hcr] at h
  cases hl : alookup p.toi s1.objects with
  | none => simp only [hl] at h; injection h with h; injection h with h1 _; rw [← h1]; exact hs1
  | some o =>
    simp only [hl] at h
    injection h with h; injection h with h1 _
    rw [← h1, checkObjectState_cfg]; exact hs1

theorem pushObj_cfg (I : ObjIface σ) (s s' : State σ) (p : Pkt) (now : Int) (r : Res) (evs : List Ev)
    (h : pushObj I s p now = .ok (s', r, evs)) : s'.cfg = s.cfg := by
  unfold pushObj at h
  cases hg : gateCompleted s p with
  | inr r0 => simp only [hg] at h; injection h with h; injection h with h1 _; rw [← h1]
  | inl s1 =>
    simp only [hg] at h
    have h1 : s1.cfg = s.cfg := by
      unfold gateCompleted at hg
      split at hg
      · split at hg
        · cases hg
        · split at hg
          · cases hg
          · split at hg
            · injection hg with hg; rw [← hg]
            · cases hg
      · injection hg with hg; rw [← hg]
    cases hg2 : gateError s1 p with
    | inr r0 => simp only [hg2] at h; injection h with h; injection h with h2 _; rw [← h2]; exact h1
    | inl s2 =>
      simp only [hg2] at h
      have h2 : s2.cfg = s1.cfg := by
        unfold gateError at hg2
        split at hg2
        · split at hg2
          · cases hg2
          · split at hg2
            · injection hg2 with hg2; rw [← hg2]
            · cases hg2
        · injection hg2 with hg2; rw [← hg2]
      rw [pushObjCore_cfg I s2 s' p now r evs h, h2, h1]

theorem fdtCompleted_cfg (I : ObjIface σ) (s s' : State σ) (id : Nat) (r : Res) (evs : List Ev)
    (h : fdtCompleted I s id = .ok (s', r, evs)) : s'.cfg = s.cfg := by
  unfold fdtCompleted at h
  cases hp : prevIdCheck s.fdtCurrent with
  | error w => simp [hp] at h
  | ok u =>
    simp only [hp] at h
    cases hl : alookup id s.fdtReceivers with
    | none => simp only [hl] at h; injection h with h; injection h with h1 _; rw [← h1]
    | some f =>
      simp only [hl] at h
      cases hc : fdtCb f id with
      | error w => simp [hc] at h
      | ok e0 =>
        simp only [hc] at h
        injection h with h; injection h with h1 _
        rw [← h1]
        split <;> simp [updateCompletedCc_cfg, gcObjectCompleted_cfg, attachLatest_cfg]

theorem fdtDispatch_cfg (I : ObjIface σ) (s s' : State σ) (id : Nat) (f : FdtRecv σ) (now : Int) (r : Res)
    (evs : List Ev) (h : fdtDispatch I s id f now = .ok (s', r, evs)) : s'.cfg = s.cfg := by
  unfold fdtDispatch at h
  cases hst : f.st with
  | receiving => simp only [hst] at h; injection h with h; injection h with h1 _; rw [← h1]
  | error => simp only [hst] at h; injection h with h; injection h with h1 _; rw [← h1]
  | expired =>
    simp only [hst] at h
    cases h1 : f.serverTime now with
    | error w => simp [h1] at h
    | ok t =>
      simp only [h1] at h
      cases h2 : chronoConv (f.expires.getD now) with
      | error w => simp [h2] at h
      | ok u =>
        simp only [h2] at h
        cases h3 : chronoConv t with
        | error w => simp [h3] at h
        | ok u2 => simp only [h3] at h; injection h with h; injection h with h4 _; rw [← h4]
  | complete => simp only [hst] at h; exact fdtCompleted_cfg I s s' id r evs h

theorem pushFdtObj_cfg (I : ObjIface σ) (s s' : State σ) (p : Pkt) (now : Int) (ans : FdtAns) (r : Res)
    (evs : List Ev) (h : pushFdtObj I s p now ans = .ok (s', r, evs)) : s'.cfg = s.cfg := by
  have hd : (dropConflict s p).cfg = s.cfg := by
    unfold dropConflict
    split
    · rfl
    · split
      · rfl
      · split <;> rfl
  unfold pushFdtObj pushFdtObj' at h
  rw [← hd]
  generalize dropConflict s p = s0 at h
  have triv : ∀ (r0 : Res), (Except.ok (s0, r0, ([] : List Ev)) : Rs _) = .ok (s', r, evs) → s'.cfg = s0.cfg := by
    intro r0 h; injection h with h; injection h with h1 _; rw [← h1]
  cases hid : p.fdtId with
  | none =>
    simp only [hid] at h
    split at h
    · exact triv _ h
    · split at h
      · exact triv _ h
      · exact triv _ h
  | some id =>
    simp only [hid] at h
    split at h
    · exact triv _ h
    · have he : (fdtEntry I s0 id p).1.cfg = s0.cfg := by
        unfold fdtEntry
        split <;> rfl
      split at h
      · injection h with h; injection h with h1 _; rw [← h1]; exact he
      · split at h
        · cases h
        · rename_i f hf
          rw [fdtDispatch_cfg I _ s' id f now r evs h]; exact he

theorem removeObjects_cfg (I : ObjIface σ) : ∀ (l : List Nat) (s : State σ), (removeObjects I s l).1.cfg = s.cfg
  | [], s => rfl
  | t :: ts, s => by
    unfold removeObjects
    simp only []
    rw [removeObjects_cfg I ts, removeObject_cfg]

/-- the configuration is fixed at `Receiver::new` -/
theorem step_cfg (I : ObjIface σ) (s s' : State σ) (op : Op) (r : Res) (evs : List Ev)
    (h : step I s op = .ok (s', r, evs)) : s'.cfg = s.cfg := by
  cases op with
  | cleanup now stale =>
    simp only [step] at h
    cases hc : cleanup I s now stale with
    | error w => simp [hc] at h
    | ok v =>
      obtain ⟨s1, e1⟩ := v
      simp only [hc] at h
      injection h with h; injection h with h1 _
      rw [← h1]
      unfold cleanup at hc
      have h0 : (cleanupObjects I s stale.obj).1.cfg = s.cfg := by
        unfold cleanupObjects
        split
        · rfl
        · exact removeObjects_cfg I _ s
      cases hf : cleanupFdt (cleanupObjects I s stale.obj).1 now stale.fdt with
      | error w => simp [hf] at hc
      | ok s2 =>
        simp only [hf] at hc
        injection hc with hc; injection hc with h2 _
        rw [← h2]
        unfold cleanupFdt at hf
        split at hf
        · cases hf
        · injection hf with hf; rw [← hf]; exact h0
  | data d now ans =>
    simp only [step, pushData] at h
    cases d with
    | reject => injection h with h; injection h with h1 _; rw [← h1]
    | otherTsi => injection h with h; injection h with h1 _; rw [← h1]
    | pkt p =>
      simp only [push] at h
      split at h
      · rw [pushFdtObj_cfg I _ s' p now ans r evs h]; split <;> rfl
      · rw [pushObj_cfg I _ s' p now r evs h]; split <;> rfl

end Flute.Recv.AllObj
