import FluteModel.Lemmas.SchedPrio
/-
  The ghost trace `State.log` is tied to what the model RETURNS (and the driver prints): the log is
  append-only, a `read` that returns a packet has appended exactly that packet as the newest entry and no other
  packet entry, a `read` that returns `None` has appended `idle` and no packet entry, the other operations
  append no packet entry.
-/
namespace Flute.Sched

def isPk : Ev → Bool
  | .pkt .. => true
  | .fdt .. => true
  | _ => false

def cntPk (l : List Ev) : Nat := (l.filter isPk).length

theorem cntPk_append (a b : List Ev) : cntPk (a ++ b) = cntPk a + cntPk b := by
  simp [cntPk, List.filter_append]

theorem cntPk_cons (e : Ev) (l : List Ev) : cntPk (e :: l) = (if isPk e then 1 else 0) + cntPk l := by
  unfold cntPk
  rw [List.filter_cons]
  split <;> simp <;> omega

/-- `s'` extends the log of `s` by entries none of which is a packet -/
def Quiet0 (s s' : State) : Prop := ∃ new, s'.log = new ++ s.log ∧ cntPk new = 0

/-- `s'` extends the log of `s` by non-packet entries followed by the packet entry `e` (the newest) -/
def Emit1 (s s' : State) (e : Ev) : Prop := ∃ new, s'.log = e :: (new ++ s.log) ∧ cntPk new = 0

theorem Quiet0.refl (s : State) : Quiet0 s s := ⟨[], rfl, rfl⟩

theorem Quiet0.of_log {s s' : State} (h : s'.log = s.log) : Quiet0 s s' := ⟨[], by rw [h]; rfl, rfl⟩

theorem Quiet0.cons {s s' : State} {e : Ev} (he : isPk e = false) (h : s'.log = e :: s.log) : Quiet0 s s' :=
  ⟨[e], by rw [h]; rfl, by simp [cntPk, he]⟩

theorem Quiet0.trans {a b c : State} (h1 : Quiet0 a b) (h2 : Quiet0 b c) : Quiet0 a c := by
  obtain ⟨n1, e1, c1⟩ := h1
  obtain ⟨n2, e2, c2⟩ := h2
  exact ⟨n2 ++ n1, by rw [e2, e1, List.append_assoc], by rw [cntPk_append, c1, c2]⟩

theorem Quiet0.emit {a b c : State} {e : Ev} (h1 : Quiet0 a b) (h2 : Emit1 b c e) : Emit1 a c e := by
  obtain ⟨n1, e1, c1⟩ := h1
  obtain ⟨n2, e2, c2⟩ := h2
  exact ⟨n2 ++ n1, by rw [e2, e1, List.append_assoc], by rw [cntPk_append, c1, c2]⟩

def outEv (now : Nat) : Out → Option Ev
  | .pkt p t i b => some (.pkt now p t i b)
  | .fdt k id i => some (.fdt now k id i)
  | _ => none

/-- the relation between a call's log extension and its returned value -/
def Res (s s' : State) (now : Nat) (out : Out) : Prop :=
  match outEv now out with
  | some e => Emit1 s s' e
  | none => Quiet0 s s'

theorem Res.after {a b c : State} {now : Nat} {out : Out} (h1 : Quiet0 a b) (h2 : Res b c now out) : Res a c now out := by
  unfold Res at *
  split
  · rename_i e he; rw [he] at h2; exact h1.emit h2
  · rename_i he; rw [he] at h2; exact h1.trans h2

/-! ### primitives -/

theorem quiet_publish (s : State) (now : Nat) : Quiet0 s (publish s now) := Quiet0.cons rfl (publish_log s now)

theorem quiet_publishTry (s : State) (now : Nat) : Quiet0 s (publishTry s now) :=
  publishTry_elim (P := fun x => Quiet0 s x) s now (quiet_publish s now) (Quiet0.refl s)

theorem quiet_fdtAdvance (s : State) (now : Nat) : Quiet0 s (fdtAdvance s now) := by
  rcases fdtAdvance_cases s now with ⟨e, _⟩ | ⟨k, f, _, _, _, e⟩
  · rw [e]; exact Quiet0.of_log (fdtPop_log s)
  · rw [e]
    exact (Quiet0.of_log (fdtPop_log s)).trans (Quiet0.cons (e := Ev.fdtStart now k) rfl rfl)

theorem quiet_fdtGetNext (s : State) (now : Nat) : Quiet0 s (fdtGetNext s now) := by
  unfold fdtGetNext
  split
  · exact Quiet0.refl s
  · refine Quiet0.trans ?_ (quiet_fdtAdvance _ now)
    unfold fdtMaybePublish
    split
    · exact quiet_publishTry s now
    · exact Quiet0.refl s

theorem quiet_fdtRelease (s : State) (k now : Nat) : Quiet0 s (fdtRelease s k now) :=
  Quiet0.cons (e := Ev.fdtStop now k) rfl (by unfold fdtRelease; exact transferDoneFdt_log s k now)

theorem quiet_getNextFile {s s' : State} {prio now : Nat} {ticks : List (Nat × Nat)} {r : Option Nat}
    (hg : getNextFile s prio now ticks = (s', r)) : Quiet0 s s' := by
  unfold getNextFile at hg
  split at hg
  · simp only [Prod.mk.injEq] at hg; rw [← hg.1]; exact Quiet0.refl s
  · rename_i t _
    simp only [Prod.mk.injEq] at hg
    rw [← hg.1]
    have h1 : Quiet0 s (fileStartStep s t now (tkGet ticks t)) := Quiet0.cons (e := Ev.start now t _ _) rfl rfl
    unfold autoPublish
    split
    · exact h1.trans (quiet_publishTry _ now)
    · exact h1

theorem quiet_done (s : State) (t now : Nat) : Quiet0 s (transferDoneFile s t now) :=
  Quiet0.cons (e := Ev.stop now t) rfl (transferDoneFile_log s t now)

/-! ### the sessions -/

theorem runFdt_res : ∀ fuel s now, Res s (runFdt fuel s now).1 now (runFdt fuel s now).2 := by
  intro fuel
  induction fuel with
  | zero => intro s now; exact Quiet0.refl s
  | succ n ih =>
    intro s now
    unfold runFdt
    have key : ∀ s1 : State, Quiet0 s s1 →
        let r := (match s1.fdtSess with
          | none => (s1, Out.none)
          | some c =>
            match getF s1.fdts c.key with
            | none => (s1, Out.none)
            | some f =>
              if gateBlocked f now then (s1, Out.none) else
              match encRead f.nSym c.enc false with
              | (none, _) => runFdt n (fdtRelease s1 c.key now) now
              | (some (idx, _), e) => (fdtStep s1 c e f.fdtId now idx, Out.fdt c.key f.fdtId idx))
        Res s r.1 now r.2 := by
      intro s1 h1
      simp only []
      split
      · exact h1
      · rename_i c _
        split
        · exact h1
        · split
          · exact h1
          · split
            · exact Res.after (h1.trans (quiet_fdtRelease s1 c.key now)) (ih _ now)
            · exact h1.emit ⟨[], rfl, rfl⟩
    cases hs : s.fdtSess with
    | some c => simp only []; exact key s (Quiet0.refl s)
    | none => simp only []; exact key _ (quiet_fdtGetNext s now)

theorem runFile_res : ∀ fuel s prio cur now ticks,
    Res s (runFile fuel s prio cur now ticks).1 now (runFile fuel s prio cur now ticks).2.2 := by
  intro fuel
  induction fuel with
  | zero => intro s prio cur now ticks; exact Quiet0.refl s
  | succ n ih =>
    intro s prio cur now ticks
    have key : ∀ (fr : Bool) (s1 : State) (cur1 : Option Cur), Quiet0 s s1 →
        let r := (if !s1.fdtQueue.isEmpty then (s1, cur1, Out.none) else
          match cur1 with
          | none => (s1, none, Out.none)
          | some c =>
            match getF s1.objs c.key with
            | none => (s1, cur1, Out.none)
            | some f =>
              if gateBlocked f now then (s1, cur1, Out.none) else
              match encRead f.nSym c.enc (canStop f && !s1.files.contains c.key) with
              | (none, _) =>

                if fr then (transferDoneFile s1 c.key now, none, Out.none)

                else runFile n (transferDoneFile s1 c.key now) prio none now ticks
              | (some (idx, b), e) => (pktStep s1 prio c.key now idx b, some { c with enc := e }, Out.pkt prio c.key idx b))
        Res s r.1 now r.2.2 := by
      intro fr s1 cur1 h1
      simp only []
      split
      · exact h1
      · cases cur1 with
        | none => exact h1
        | some c =>
          simp only []
          split
          · exact h1
          · split
            · exact h1
            · split
              · cases fr with
                | true => simp only [if_true]; exact h1.trans (quiet_done s1 c.key now)
                | false =>
                  simp only [Bool.false_eq_true, if_false]
                  exact Res.after (h1.trans (quiet_done s1 c.key now)) (ih _ prio none now ticks)
              · exact h1.emit ⟨[], rfl, rfl⟩
    unfold runFile
    cases cur with
    | some c => exact key false s (some c) (Quiet0.refl s)
    | none =>
      simp only []
      cases hg : getNextFile s prio now ticks with
      | mk s' r =>
        have hq := quiet_getNextFile hg
        cases r with
        | none => exact key true s' none hq
        | some t =>
          simp only []
          cases ho : openFailed true s' (some (startCur s' t)) with
          | none => exact key true s' (some (startCur s' t)) hq
          | some kf =>
            obtain ⟨k', f'⟩ := kf
            simp only []
            exact hq.trans (quiet_done s' k' now)

theorem readQueue_res : ∀ k s q now ticks,
    Res s (readQueue k s q now ticks).1 now (readQueue k s q now ticks).2.2 := by
  intro k
  induction k with
  | zero => intro s q now ticks; exact Quiet0.refl s
  | succ n ih =>
    intro s q now ticks
    unfold readQueue
    split
    · exact Quiet0.refl s
    · rename_i cur _
      have h := runFile_res runFuel s q.prio cur now ticks
      generalize runFile runFuel s q.prio cur now ticks = r at h
      obtain ⟨s', cur', out⟩ := r
      simp only [] at h ⊢
      cases out with
      | none => exact Res.after h (ih _ _ _ _)
      | hang => exact h
      | pkt a b c d => exact h
      | fdt a b c => exact h

theorem readQueues_res : ∀ qs s now ticks,
    Res s (readQueues s qs now ticks).1 now (readQueues s qs now ticks).2.2 := by
  intro qs
  induction qs with
  | nil => intro s now ticks; exact Quiet0.refl s
  | cons q rest ih =>
    intro s now ticks
    unfold readQueues
    have h := readQueue_res q.slots.length s q now ticks
    generalize readQueue q.slots.length s q now ticks = r at h
    obtain ⟨s', q', out⟩ := r
    simp only [] at h ⊢
    cases out with
    | none =>
      simp only []
      have h2 := ih s' now ticks
      generalize readQueues s' rest now ticks = r2 at h2
      obtain ⟨s2, rest2, out2⟩ := r2
      exact Res.after h h2
    | hang => exact h
    | pkt a b c d => exact h
    | fdt a b c => exact h

/-- what `read` appends to the log, in terms of what it returns -/
def ReadRes (s s' : State) (now : Nat) (out : Out) : Prop :=
  match out with
  | .pkt p t i b => ∃ new, s'.log = Ev.pkt now p t i b :: (new ++ s.log) ∧ cntPk new = 0
  | .fdt k id i => ∃ new, s'.log = Ev.fdt now k id i :: (new ++ s.log) ∧ cntPk new = 0
  | .none => ∃ new, s'.log = Ev.idle now :: (new ++ s.log) ∧ cntPk new = 0
  | .hang => False

theorem readRes_of_res {a b c : State} {now : Nat} {out : Out} (h1 : Quiet0 a b) (h2 : Res b c now out)
    (hout : out ≠ Out.none) (hh : out ≠ Out.hang) : ReadRes a c now out := by
  have := Res.after h1 h2
  unfold Res outEv at this
  cases out with
  | none => exact absurd rfl hout
  | hang => exact absurd rfl hh
  | pkt p t i b => exact this
  | fdt k id i => exact this

/-- `Sender::read`: the returned value is the newest log entry (`idle` for `None`), everything else appended by
    the call is not a packet entry, and nothing already in the log is touched -/
theorem read_out_log (s : State) (now : Nat) (ticks : List (Nat × Nat)) :
    ReadRes s (read s now ticks).1 now (read s now ticks).2 := by
  have hnh := read_no_hang s now ticks
  unfold read at hnh ⊢
  have h0 : Quiet0 s (emit s (.opRead now)) := Quiet0.cons rfl rfl
  have h1 := runFdt_res runFuel (emit s (.opRead now)) now
  generalize runFdt runFuel (emit s (.opRead now)) now = r1 at h1 hnh
  obtain ⟨s1, o1⟩ := r1
  cases o1 with
  | hang => exact absurd rfl hnh
  | pkt a b c d => exact readRes_of_res h0 h1 (by simp) (by simp)
  | fdt a b c => exact readRes_of_res h0 h1 (by simp) (by simp)
  | none =>
    simp only [] at hnh ⊢
    have h1' : Quiet0 s s1 := h0.trans h1
    have h1q : Quiet0 s { s1 with quiet := true } := h1'.trans (Quiet0.of_log rfl)
    unfold readMid at hnh ⊢
    have h2 := readQueues_res s1.sessions { s1 with quiet := true } now ticks
    generalize readQueues { s1 with quiet := true } s1.sessions now ticks = r2 at h2 hnh
    obtain ⟨s2, qs, o2⟩ := r2
    simp only [] at h2 hnh ⊢
    cases o2 with
    | hang => exact absurd rfl hnh
    | pkt a b c d =>
      have : Res { s1 with quiet := true } ({ s2 with sessions := qs, quiet := false } : State) now (Out.pkt a b c d) := h2
      exact readRes_of_res h1q this (by simp) (by simp)
    | fdt a b c =>
      have : Res { s1 with quiet := true } ({ s2 with sessions := qs, quiet := false } : State) now (Out.fdt a b c) := h2
      exact readRes_of_res h1q this (by simp) (by simp)
    | none =>
      simp only [] at hnh ⊢
      have h2' : Quiet0 s ({ s2 with sessions := qs, quiet := false } : State) :=
        (h1q.trans h2).trans (Quiet0.of_log rfl)
      unfold readTail at hnh ⊢
      have h3 := runFdt_res runFuel ({ s2 with sessions := qs, quiet := false } : State) now
      generalize runFdt runFuel ({ s2 with sessions := qs, quiet := false } : State) now = r3 at h3 hnh
      obtain ⟨s3, o3⟩ := r3
      cases o3 with
      | hang => exact absurd rfl hnh
      | pkt a b c d => exact readRes_of_res h2' h3 (by simp) (by simp)
      | fdt a b c => exact readRes_of_res h2' h3 (by simp) (by simp)
      | none =>
        obtain ⟨new, e, c⟩ := h2'.trans h3
        exact ⟨new, by show Ev.idle now :: s3.log = _; rw [e], c⟩

/-- every operation only appends to the log; operations other than `read` append no packet entry -/
theorem step_log_append (s : State) (op : Op) :
    ∃ new, (step s op).log = new ++ s.log ∧
      (match op with
       | .read now ticks => cntPk new = (match (read s now ticks).2 with | .pkt .. => 1 | .fdt .. => 1 | _ => 0)
       | _ => cntPk new = 0) := by
  cases op with
  | add a =>
    show ∃ new, (addObject s a).1.log = _ ∧ _
    unfold addObject; simp only []
    split
    · exact ⟨[_], rfl, rfl⟩
    · split
      · exact ⟨[_], rfl, rfl⟩
      · exact ⟨[_], rfl, rfl⟩
  | publish now =>
    have h0 : Quiet0 s (emit s (.opPublish now)) := Quiet0.cons rfl rfl
    obtain ⟨new, e, c⟩ := h0.trans (quiet_publishTry (emit s (.opPublish now)) now)
    exact ⟨new, e, c⟩
  | remove t =>
    show ∃ new, (removeObject s t).1.log = _ ∧ _
    unfold removeObject
    split
    · exact ⟨[_], rfl, rfl⟩
    · exact ⟨[_], rfl, rfl⟩
  | trigger t ts =>
    show ∃ new, (triggerTransferAt s t ts).1.log = _ ∧ _
    unfold triggerTransferAt
    split
    · exact ⟨[_], rfl, rfl⟩
    · split
      · exact ⟨[_], rfl, rfl⟩
      · exact ⟨[_], rfl, rfl⟩
  | setComplete => exact ⟨[], rfl, rfl⟩
  | read now ticks =>
    have h := read_out_log s now ticks
    show ∃ new, (read s now ticks).1.log = _ ∧
      cntPk new = (match (read s now ticks).2 with | .pkt .. => 1 | .fdt .. => 1 | _ => 0)
    unfold ReadRes at h
    cases ho : (read s now ticks).2 with
    | hang => rw [ho] at h; exact absurd h id
    | none =>
      rw [ho] at h
      obtain ⟨new, e, c⟩ := h
      exact ⟨Ev.idle now :: new, by rw [e]; rfl, by rw [cntPk_cons, c]; rfl⟩
    | pkt p t i b =>
      rw [ho] at h
      obtain ⟨new, e, c⟩ := h
      exact ⟨Ev.pkt now p t i b :: new, by rw [e]; rfl, by rw [cntPk_cons, c]; rfl⟩
    | fdt k id i =>
      rw [ho] at h
      obtain ⟨new, e, c⟩ := h
      exact ⟨Ev.fdt now k id i :: new, by rw [e]; rfl, by rw [cntPk_cons, c]; rfl⟩

end Flute.Sched

namespace Flute.Sched

/-! ### `fdt_duration = 0`: every poll republishes (finding F24) -/

/-- iterate `read` at one instant; returns the state and the LAST returned value -/
def reads (s : State) (now : Nat) (ticks : List (Nat × Nat)) : Nat → State × Out
  | 0 => (s, Out.none)
  | n + 1 => read (reads s now ticks n).1 now ticks

/-! ### an idle sender stays idle under every operation except `add_object` -/

def IdleS (s : State) : Prop := s.files = [] ∧ s.queue = [] ∧ AllNone s.sessions

def notAdd : Op → Prop
  | .add _ => False
  | _ => True

theorem idle_step (s : State) (op : Op) (h : IdleS s) (hop : notAdd op) :
    IdleS (step s op) ∧ (∀ now ticks, op = .read now ticks → ∀ p t i b, (read s now ticks).2 ≠ Out.pkt p t i b) := by
  obtain ⟨hf, hq, hn⟩ := h
  cases op with
  | add a => exact absurd hop id
  | publish now =>
    refine ⟨?_, fun _ _ e => by cases e⟩
    show IdleS (publishOp s now)
    unfold publishOp
    refine publishTry_elim (P := IdleS) _ now ?_ ⟨hf, hq, hn⟩
    exact ⟨hf, hq, hn⟩
  | remove t =>
    refine ⟨?_, fun _ _ e => by cases e⟩
    show IdleS (removeObject s t).1
    unfold removeObject
    have : s.files.contains t = false := by rw [hf]; rfl
    simp only [this, Bool.not_false, if_true]
    exact ⟨hf, hq, hn⟩
  | trigger t ts =>
    refine ⟨?_, fun _ _ e => by cases e⟩
    show IdleS (triggerTransferAt s t ts).1
    unfold triggerTransferAt
    have : s.files.contains t = false := by rw [hf]; rfl
    simp only [this, Bool.not_false, if_true]
    exact ⟨hf, hq, hn⟩
  | setComplete => exact ⟨⟨hf, hq, hn⟩, fun _ _ e => by cases e⟩
  | read now ticks =>
    obtain ⟨h1, h2, h3, h4⟩ := read_idle s now ticks hq hn
    refine ⟨⟨by show (read s now ticks).1.files = []; rw [h3]; exact hf, h2, h4⟩, ?_⟩
    intro now' ticks' e
    cases e
    exact h1

/-- over a whole suffix of operations without `add_object`: no `read` returns an object packet -/
theorem idle_run : ∀ (ops : List Op) (s : State), IdleS s → (∀ op ∈ ops, notAdd op) →
    IdleS (run s ops) ∧
    ∀ pre now ticks post, ops = pre ++ Op.read now ticks :: post →
      ∀ p t i b, (read (run s pre) now ticks).2 ≠ Out.pkt p t i b := by
  intro ops
  induction ops with
  | nil => intro s h _; exact ⟨h, fun pre now ticks post e => by cases pre <;> cases e⟩
  | cons op rest ih =>
    intro s h hall
    obtain ⟨h1, h2⟩ := idle_step s op h (hall op List.mem_cons_self)
    obtain ⟨h3, h4⟩ := ih (step s op) h1 (fun o ho => hall o (List.mem_cons_of_mem _ ho))
    refine ⟨h3, ?_⟩
    intro pre now ticks post e
    cases pre with
    | nil =>
      simp only [List.nil_append, List.cons.injEq] at e
      exact h2 now ticks e.1
    | cons a pre' =>
      simp only [List.cons_append, List.cons.injEq] at e
      obtain ⟨rfl, e'⟩ := e
      exact h4 pre' now ticks post e'

end Flute.Sched
