import FluteModel.Session
import FluteModel.Lemmas.ObjRecvExact
import FluteModel.Lemmas.ObjRecvPanicFree
/-
  RECEIVER-SIDE LINK: e2e's symbol-set receiver (`Flute.Session`: `ORx`, `pushObj`, `attach`, `finish`) as an abstraction of the
  line-by-line model `ObjRecv` on genuine histories.

  Layout (top-down):
    * `Setting` / `Setting.OK`  - the two configurations tied together (one genuine object `S : GSess`, its `ObjCfg`, an all-accepting
                                   writer environment, limits);
    * `GenEv`, `FileOK`, `OpEv` - event translation: a genuine packet  <->  `Sym`,  an FDT entry listing the TOI  <->  attach;
    * `SimCore` / `Sim`          - the simulation relation `ObjRecv.St ~ Session.ORx` (object in state Receiving);
    * `Rel`                      - `ObjRecv.St ~ Session.OState` incl. the outcome correspondence (writer calls = counters);
    * `Steps`                    - the two step lemmas the composition is stated over (`block2B_step`, `flush0_step`); BOTH ARE
                                   THEOREMS: `flush0_thm`, `steps_of_block` (Lemmas/SessionFlush.lean) and `blockStep_of_contract`
                                   (Lemmas/SessionBlock.lean, under the codec contract `CodecDec`);
    * `runL_rel`                 - MAIN THEOREM: the simulation over whole object histories, from `Steps`;
    * `complete_sound`           - COROLLARY: the Session model reports `complete`  =>  the ObjRecv writer was told `complete` and
                                   (C03) the bytes it accepted are the object.
  STATUS of the step lemmas: ALL DISCHARGED
      * dead object / already attached object: later events are no-ops on both sides (inside `runL_rel`);
      * `push_unknown`          - OTI unknown, no in-band FTI: `cache()` incl. "Pkt cache is full"  ~  cache branch of `pushObj`;
      * `push_known_nonempty`   - OTI known, non-empty object: set_cenc / set_oti / init_blocks_partitioning / init_object_writer /
                                  push_from_cache are no-ops, `push` = `push_to_block` + error handling;
      * `push_first_inband`     - first packet with EXT_FTI of a non-empty object: set_oti_from_pkt + init_blocks_partitioning build
                                  the block table (`Laws.quad`), then the block path on that state;
      * `push_empty`            - the EMPTY object (both ways of learning the OTI): `complete` iff the writer exists (D14 repaired),
                                  else receiving, then the B flag;
      * `block_stepB`           - the B FLAG on top of `push_to_block2`: close-object on a still incomplete object = interrupted,
                                  the writer told so iff it exists  ~  `pushSym` on top of `pushCore`;
      * `attach_live`           - attach_fdt ~ attach + finish: metadata, writer creation (all-accepting env), LIFO replay of the
                                  packet cache (`replay_sim`, block-level relation `SimB` during the replay), write_blocks(0);
      * `flush0_thm` (SessionFlush.lean) - write_blocks(0) ~ `settle`: `flush_loop` against `advance`, exact byte accounting;
      * `blockStep_of_contract` (SessionBlock.lean) - push_to_block2 ~ pushCore: SBN window, look-ahead (`SimF.len`: the deque never
                                  exceeds 4097 blocks), allocation limit (`alloc_counts`), BlockDecoder::init / push against `got`
                                  (`CodecDec`, over reachable decoder states `ReachBlk`), flush from the pushed block (`settle_at`).
  The relation is an INVARIANT of genuine runs, not a hand-picked set of states: `runL_rel` re-establishes `Rel` / `Good` (incl.
  `SimF`: `bw.sbn = blocks_offset`, byte accounting, blocks.len() <= 4097, every decoder `ReachBlk`) after every op of a `Hist`.

  DIVERGENCES between the two models found while stating / proving this (none on genuine histories in the Session model's
  configuration; each is a side condition of the theorems; all reported to agent e2e, who confirmed (1)-(8)):
    (1) packet-cache limit: ObjRecv errors at cache_size >= max_size_allocated, Session with `pktCap = none` never  -> `Setting.OK.cap`;
    (2) `push` replays the cache on every push once the block table exists, `pushObj` never outside `attach`: they differ for an
        object with EXT_FTI on SOME packets only  -> `GenEv.fti` (all or none);
    (3) SBN >= nb_blocks: ignored by the code BEFORE the look-ahead test, pushCore has no such test (non-genuine packets);
    (4) ESI outside the decoder table: the code still initialises the block (allocation counters), Session does not; Raptor: any ESI is
        stored by the RaptorDecoder model, only ESI < k+p by Session (non-genuine packets);
    (5) look-ahead: `sbn - written > 4096` vs `blocks.len() <= off /\ off > 4096`: equal because blocks.len() <= 4097 (`SimF.len`, proved);
    (6) no writer refusal, no Content-MD5 / Content-Length failure in Session  -> `Setting.OK.env`, `FileOK.md5`, `FileOK.cl`;
    (7) `attach` sets otiKnown unconditionally; the code keeps oti = None when the FDT carries no FEC-OTI  -> `FileOK.oti`;
    (8) `blen` must be the block_length of push_to_block2 (`sbl * E` when the payload ID carries the source block length);
    (9) degenerate OTI (E = 0 or B = 0, non-empty object): no block at all; Session reads `ks = #[]` as "empty object, complete when
        attached", the code ignores every packet  -> `Setting.OK.empty`.
  NOT COVERED: the shell (`completed` registry, `age`, create_obj, gc) - e2e proves it against recv's `Recv` (Lemmas/SessionRecv.lean).
-/
namespace Flute.Link
open Flute Flute.FecDec Flute.ObjRecv

/-! ### what a block decoder holds -/

def someIdx : List (Option Bytes) → Nat → List Nat
  | [], _ => []
  | none :: r, i => someIdx r (i + 1)
  | some _ :: r, i => i :: someIdx r (i + 1)

/-- the ESIs stored in a decoder -/
def decEsis : Dec → List Nat
  | .noCode shards _ _ => someIdx shards 0
  | .rs _ _ shards _ _ _ => someIdx shards 0
  | .rq _ _ _ _ pushes _ => pushes.map (·.1)
  | .raptor _ _ pushes _ => pushes.map (·.1)

/-- the decoder of block `b` of `st` holds the symbol with ESI `e` -/
def holds (st : St) (b e : Nat) : Prop :=
  st.blocksOffset ≤ b ∧ ∃ blk d, st.blocks[b - st.blocksOffset]? = some blk ∧ blk.dec = some d ∧ e ∈ decEsis d

/-- the `Sym` of a packet, read with the object's OTI -/
def symOf (o : Oti) (p : Pkt) : Option Session.Sym :=
  match parsePayloadId o p with
  | .ok (some pid) => some { sbn := pid.sbn, esi := pid.esi, close := p.close }
  | _ => none

/-! ### the two configurations -/

structure Setting where
  P : Params
  S : GSess
  oc : Session.ObjCfg
  rc : Session.RxCfg
  dec : (k p : Nat) → List Nat → Bool
  maxSize : Nat

structure Setting.OK (Z : Setting) : Prop where
  laws : Z.S.Laws Z.P.codec
  /-- `ks` is the partition of the transfer length (`#[]` for the empty object) -/
  nblocks : Z.oc.ks.size = Z.S.n
  ks : ∀ b, b < Z.S.n → Z.oc.ks[b]? = some (Z.S.K b)
  /-- no source block only for the empty object (E > 0 and B > 0) -/
  empty : Z.S.n = 0 → Z.S.T.length = 0
  max : Z.rc.maxSize = Z.maxSize
  look : Z.rc.maxLook = 2 * MAX_PREALLOCATED_BLOCKS
  /-- the packet cache is limited by `object_max_cache_size` (what the driver of e2e sets) -/
  cap : Z.rc.pktCap = some Z.maxSize
  small : Z.maxSize < 2 ^ 63
  /-- the writer side accepts everything (the Session model has no writer failure) -/
  env : ∀ k, (Z.P.env.plan k).ans = .store ∧ (Z.P.env.plan k).openOk = true ∧ ∀ j, (Z.P.env.plan k).writeOk j = true
  dz : Nonempty (DzOK Z.P)
  /-- `dec` only looks at WHICH ESIs are held -/
  decExt : ∀ k p a b, (∀ x, x ∈ a ↔ x ∈ b) → Z.dec k p a = Z.dec k p b
  /-- a block of which no symbol is held is not decodable -/
  decNil : ∀ b, b < Z.S.n → Z.dec (Z.S.K b) Z.oc.p [] = false
  /-- every block starts before the end of the object -/
  preLt : ∀ k, k < Z.S.n → (Z.S.pre k).length < Z.S.T.length

/-- a genuine packet of the object and the `Sym` the Session model sees for it -/
structure GenEv (Z : Setting) (p : Pkt) (s : Session.Sym) : Prop where
  gen : GenPkt Z.S p
  sym : symOf Z.S.o p = some s
  /-- EXT_FTI on every packet of the object, or on none (`ObjCfg.inbandFti`) -/
  fti : p.fti = if Z.oc.inbandFti then some (Z.S.o, Z.S.T.length) else none
  cenc : p.cenc = none
  len : p.dataLen = Session.pktBytes Z.oc s
  wf : WfPkt p
  /-- a datagram is at most 65535 bytes long -/
  small : p.dataLen < 2 ^ 16
  /-- the ESI is in the decoder's table (`Session.pushCore`'s `stored`; genuine packets only) -/
  stored : (match Z.oc.ks[s.sbn]? with
    | none => false
    | some k => decide (s.esi < Session.shardsOf Z.oc.scheme k Z.oc.p) || Z.oc.scheme == .raptorq) = true
  /-- the block length `push_to_block2` accounts is the Session configuration's `blen` -/
  blen : ∀ pid, parsePayloadId Z.S.o p = .ok (some pid) →
    (pid.sbl = none → Partition.blockLength Z.S.aL Z.S.aS Z.S.nL Z.S.T.length Z.S.o.e pid.sbn = .ok (Z.oc.blen.getD pid.sbn 0)) ∧
    (∀ l, pid.sbl = some l → l * Z.S.o.e = Z.oc.blen.getD pid.sbn 0)

/-- the FDT File entry of the object: OTI present, no Content-MD5 / Content-Length that could fail -/
structure FileOK (Z : Setting) (f : FileEntry) : Prop where
  gen : GenFile Z.S f
  oti : f.oti = some Z.S.o
  md5 : f.md5 = none
  cl : f.cl = none ∨ f.cl = some Z.S.T.length
  wf : WfFile f

/-- events of one object's life -/
inductive LEv
  | pkt (s : Session.Sym)
  | att

inductive OpEv (Z : Setting) : Op → LEv → Prop
  | pkt {p s} : GenEv Z p s → OpEv Z (.push p) (.pkt s)
  | att {id f} : FileOK Z f → OpEv Z (.attach id (some f)) .att

/-- a history of one object: ops of the ObjRecv model and events of the Session model, pairwise related -/
inductive Hist (Z : Setting) : List Op → List LEv → Prop
  | nil : Hist Z [] []
  | cons {op ev ops evs} : OpEv Z op ev → Hist Z ops evs → Hist Z (op :: ops) (ev :: evs)

theorem OpEv.genOp {Z : Setting} {op : Op} {ev : LEv} (h : OpEv Z op ev) : GenOp Z.S op := by
  cases h with
  | pkt g => exact g.gen
  | att f => exact f.gen

theorem OpEv.wfOp {Z : Setting} {op : Op} {ev : LEv} (h : OpEv Z op ev) : WfOp op := by
  cases h with
  | pkt g => exact g.wf
  | att f => exact f.wf

/-! ### the simulation relation -/

/-- the ESIs a block holds -/
def blkEsis (blk : Block) : List Nat :=
  match blk.dec with
  | none => []
  | some d => decEsis d

/-- the ESI is in the decoder's table (`Session.pushCore`'s `stored`) -/
def StoredEsi (Z : Setting) (b esi : Nat) : Prop :=
  (match Z.oc.ks[b]? with
    | none => false
    | some k => decide (esi < Session.shardsOf Z.oc.scheme k Z.oc.p) || Z.oc.scheme == .raptorq) = true

/-- the states a decoder of block `b` goes through: `BlockDecoder::init`, then `push` of genuine symbols with ESIs of the table -/
inductive ReachBlk (Z : Setting) (b : Nat) : Block → Prop
  | init (blk b' : Block) (bs : Nat) : blk.initialized = false → blk.completed = false →
      blk.init Z.P.codec Z.S.o (Z.S.K b) bs b = .ok b' → ReachBlk Z b b'
  | push (blk blk' : Block) (esi : Nat) : ReachBlk Z b blk → StoredEsi Z b esi →
      blk.push Z.P.codec (Z.S.sym b esi) esi = some blk' → ReachBlk Z b blk'

structure BlkOK (Z : Setting) (b : Nat) (blk : Block) : Prop where
  /-- the codec's decodability is `dec`: the block is completed iff `dec` says so for the ESIs it holds -/
  comp : blk.completed = Z.dec (Z.S.K b) Z.oc.p (blkEsis blk)
  /-- a completed block has its source block (the genuine one, by `BOK`) -/
  src : blk.completed = true → blk.sourceBlock.isSome = true
  /-- a block is initialised iff it has a decoder (a written block leaves the deque: `deallocate` never runs) -/
  ini : blk.initialized = blk.dec.isSome
  /-- an allocated block holds at least one symbol (genuine ESIs are always stored) -/
  ne : blk.dec.isSome = true → blkEsis blk ≠ []
  /-- ... and is accounted with the block length of the Session configuration -/
  size : blk.dec.isSome = true → blk.blockSize = Z.oc.blen.getD b 0
  /-- a decoder in the deque was built by `init` and fed genuine symbols only -/
  reach : blk.dec.isSome = true → ReachBlk Z b blk

structure BwOK (Z : Setting) (st : St) (w : BW) : Prop where
  sbn : w.sbn = st.blocksOffset
  left : w.bytesLeft + (Z.S.pre w.sbn).length = Z.S.T.length
  pos : w.bytesLeft ≠ 0
  cenc : w.cenc = .null
  cl : w.cl = st.cl
  nbw : w.nbWritten = (Z.S.pre w.sbn).length
  disc : w.discarded = false
  dz : w.dz = none

structure SimF (Z : Setting) (st : St) : Prop where
  blk : ∀ i b, st.blocks[i]? = some b → BlkOK Z (st.blocksOffset + i) b
  bw : ∀ w, st.bw = some w → BwOK Z st w
  cl : st.cl = none ∨ st.cl = some Z.S.T.length
  /-- the deque never grows beyond the look-ahead window -/
  len : st.blocks.length ≤ 2 * MAX_PREALLOCATED_BLOCKS + 1

/-- between the block steps the head of the deque is never a completed block when the writer is open (it would have been flushed) -/
def Head (st : St) : Prop := st.writer = some .opened → ∀ blk, st.blocks[0]? = some blk → blk.completed = false

theorem SimF.of_eq {Z : Setting} {st st' : St} (h : SimF Z st) (e1 : st'.blocks = st.blocks)
    (e2 : st'.blocksOffset = st.blocksOffset) (e3 : st'.bw = st.bw) (e4 : st'.cl = st.cl) : SimF Z st' := by
  refine ⟨by rw [e1, e2]; exact h.blk, ?_, by rw [e4]; exact h.cl, by rw [e1]; exact h.len⟩
  intro w hw
  rw [e3] at hw
  have := h.bw w hw
  exact ⟨by rw [e2]; exact this.sbn, this.left, this.pos, this.cenc, by rw [e4]; exact this.cl, this.nbw, this.disc, this.dz⟩

/-- a fresh block table (or none), no BlockWriter -/
theorem simF_fresh (Z : Setting) (hdn : ∀ b, b < Z.S.n → Z.dec (Z.S.K b) Z.oc.p [] = false) (st : St) (k : Nat)
    (hk : k ≤ Z.S.n) (hk2 : k ≤ 2 * MAX_PREALLOCATED_BLOCKS + 1) (hb : st.blocks = List.replicate k {}) (ho : st.blocksOffset = 0) (hbw : st.bw = none)
    (hcl : st.cl = none ∨ st.cl = some Z.S.T.length) : SimF Z st := by
  refine ⟨?_, (fun w hw => by rw [hbw] at hw; cases hw), hcl, by rw [hb]; simpa using hk2⟩
  intro i b hib
  rw [hb] at hib
  have hm := List.mem_of_getElem? hib
  have hi : i < k := by
    have := (List.getElem?_eq_some_iff.mp hib).1
    simpa using this
  rw [List.eq_of_mem_replicate hm, ho]
  refine ⟨?_, fun h => by simp at h, rfl, fun h => by simp at h, fun h => by simp at h, fun h => by simp at h⟩
  show false = _
  rw [show blkEsis ({} : Block) = [] from rfl, Nat.zero_add]
  exact (hdn i (by omega)).symm

/-- the BLOCK-LEVEL part of the relation (everything `push_to_block` / `write_blocks` read and write; no packet cache) -/
structure SimB (Z : Setting) (st : St) (rx : Session.ORx) : Prop where
  oti : rx.otiKnown = st.oti.isSome
  att : rx.attached = st.fdtId.isSome
  wr : st.fdtId.isSome = true → st.writer = some .opened
  written : rx.written = st.blocksOffset
  got : ∀ b e, (b, e) ∈ rx.got ↔ holds st b e
  nodup : rx.got.Nodup
  maxSz : st.maxSize = Z.maxSize
  /-- an attached object knows its OTI (the FDT entry carries it, `FileOK.oti`) -/
  attOti : st.fdtId.isSome = true → st.oti.isSome = true
  /-- once the OTI of a non-empty object is known the block table exists -/
  tbl : st.oti.isSome = true → Z.S.n ≠ 0 → 0 < st.nbBlock
  /-- ... and the partition fields are the object's -/
  quad : st.oti.isSome = true → (st.aLarge, st.aSmall, st.nbALarge, st.nbBlocks) = (Z.S.aL, Z.S.aS, Z.S.nL, Z.S.n)
  /-- no Content-MD5 announced (`FileOK.md5`) -/
  md5 : st.md5 = none
  /-- the flush invariants -/
  f : SimF Z st

/-- the relation between two ops: block level + the packet cache -/
structure SimCore (Z : Setting) (st : St) (rx : Session.ORx) : Prop extends SimB Z st rx where
  cache : st.cache.map (symOf Z.S.o) = rx.cache.map some
  cacheGen : ∀ p ∈ st.cache, ∃ s, GenEv Z p s
  cacheSize : st.cacheSize = Session.cacheSum Z.oc rx.cache
  inband : Z.oc.inbandFti = true → st.cache = []
  /-- once the OTI of a non-empty object is known the packet cache has been replayed -/
  settled : st.oti.isSome = true → Z.S.n ≠ 0 → st.cache = []
  /-- between two ops the head of the deque is not a completed block (it has been flushed) -/
  head : Head st

/-- the invariants of the ObjRecv side (all proved over genuine histories elsewhere) -/
structure Good (Z : Setting) (st : St) : Prop where
  inv : Inv st
  jinv : JInv Z.P st
  ginv : GInv Z.S st
  tinv : TInv st

structure Sim (Z : Setting) (st : St) (rx : Session.ORx) : Prop extends SimCore Z st rx, Good Z st

/-! ### outcome correspondence -/

def isComplete : WCall → Bool
  | .complete => true
  | _ => false
def isError : WCall → Bool
  | .error => true
  | _ => false
def isInterrupted : WCall → Bool
  | .interrupted => true
  | _ => false
def isOpenOk : WCall → Bool
  | .open true => true
  | _ => false

def cnt (f : WCall → Bool) (out : List WCall) : Nat := (out.filter f).length

/-- `ObjRecv.St ~ Session.OState`: a live object is simulated; a dead one is gone; the writer calls are the counters -/
structure Rel (Z : Setting) (st : St) (os : Session.OState) : Prop where
  live : st.state = .receiving → ∃ rx, os.obj = some rx ∧ SimCore Z st rx
  dead : st.state ≠ .receiving → os.obj = none
  opens : os.opens = cnt isOpenOk st.out
  completes : os.completes = cnt isComplete st.out
  errors : os.errors = cnt isError st.out
  interrupts : os.interrupts = cnt isInterrupted st.out

/-- the block-level outcome relation (inside an op: during the replay of the cache the cache fields are not related) -/
structure RelB (Z : Setting) (st : St) (os : Session.OState) : Prop where
  live : st.state = .receiving → ∃ rx, os.obj = some rx ∧ SimB Z st rx
  dead : st.state ≠ .receiving → os.obj = none
  opens : os.opens = cnt isOpenOk st.out
  completes : os.completes = cnt isComplete st.out
  errors : os.errors = cnt isError st.out
  interrupts : os.interrupts = cnt isInterrupted st.out

/-- outcome of one block-path step from `st` to `fin`: related, the cache untouched while the object lives, cleared when it ends -/
structure StepOut (Z : Setting) (st fin : St) (os' : Session.OState) : Prop where
  rel : RelB Z fin os'
  keep : fin.state = .receiving → fin.cache = st.cache ∧ fin.cacheSize = st.cacheSize
  clear : fin.state ≠ .receiving → fin.cache = [] ∧ fin.blocks = []
  head : fin.state = .receiving → Head fin

theorem Rel.toB {Z : Setting} {st : St} {os : Session.OState} (h : Rel Z st os) : RelB Z st os :=
  ⟨fun hs => let ⟨rx, h1, h2⟩ := h.live hs; ⟨rx, h1, h2.toSimB⟩, h.dead, h.opens, h.completes, h.errors, h.interrupts⟩

/-- one event on the Session side, seen from the object (`pushNew`'s / `fdtEv`'s branch for an existing object) -/
def objStep (Z : Setting) (os : Session.OState) : LEv → Session.OState
  | .pkt s =>
    match os.obj with
    | none => os
    | some rx => Session.pushObj Z.dec Z.rc Z.oc os rx s
  | .att =>
    match os.obj with
    | none => os
    | some rx =>
      if !rx.attached then
        Session.finish Z.oc { os with opens := os.opens + 1 } (Session.attach Z.dec Z.rc Z.oc rx)
      else os

def objRun (Z : Setting) : Session.OState → List LEv → Session.OState
  | os, [] => os
  | os, e :: es => objRun Z (objStep Z os e) es

/-- the ObjRecv side: an object that left `Receiving` is removed by `check_object_state` (ObjSess), later ops do not reach it -/
def stepL (P : Params) (st : St) (op : Op) : Rx St :=
  if st.state ≠ .receiving then .ok st else step P st op

def runL (P : Params) : St → List Op → Rx St
  | st, [] => .ok st
  | st, op :: ops =>
    match stepL P st op with
    | .error e => .error e
    | .ok st => runL P st ops

/-! ### the step lemmas the composition needs -/

structure Steps (Z : Setting) : Prop where
  /-- THE BLOCK PATH.  `push_to_block2` (SBN window, look-ahead limit, allocation limit, `BlockDecoder::push`, `write_blocks`,
      completion) of a genuine packet on a live, partitioned, non-empty object  ~  `Session.pushCore`; the caller turns `Err`
      into `error()`.  Block-level relation only: it holds during the replay of the cache too.
      (The B flag on top of it is discharged: `block_stepB`.) -/
  block2B_step : ∀ (st st1 : St) (b : Bool) (os : Session.OState) (rx : Session.ORx) (p : Pkt) (s : Session.Sym),
    Good Z st → RelB Z st os → st.state = .receiving → os.obj = some rx → SimB Z st rx → Head st → GenEv Z p s →
    st.oti.isSome = true → Z.S.n ≠ 0 → pushToBlock2 Z.P st p = .ok (st1, b) →
    StepOut Z st (if b then st1 else error st1 false) (Session.finish Z.oc os (Session.pushCore Z.dec Z.rc Z.oc rx s))
  /-- THE FLUSH AT ATTACH.  `write_blocks(0)` on the freshly attached object (writer open, cache replayed): the completed leading
      blocks go to the writer, `complete()` when all did  ~  `Session.settle` -/
  flush0_step : ∀ (st st1 : St) (ok : Bool) (os : Session.OState) (rx : Session.ORx),
    Good Z st → RelB Z st os → st.state = .receiving → os.obj = some rx → SimB Z st rx → rx.attached = true → Z.S.n ≠ 0 →
    st.cache = [] → (st.blocksOffset = 0 ∨ Head st) → writeBlocks Z.P st 0 = .ok (st1, ok) →
    StepOut Z st (if ok then st1 else error st1 false) (Session.finish Z.oc os (Session.settle Z.dec Z.oc rx))

/-! ### composition -/

theorem good_new (Z : Setting) (hZ : Z.OK) (toi : Nat) : Good Z (St.new toi Z.maxSize) :=
  ⟨inv_new _ _, jinv_new _ _ _, ginv_new _ _ _, tinv_new _ _ hZ.small⟩

theorem good_step (Z : Setting) (hZ : Z.OK) {st st' : St} {op : Op} (hg : Good Z st) (hgen : GenOp Z.S op) (hwf : WfOp op)
    (h : step Z.P st op = .ok st') : Good Z st' := by
  refine ⟨inv_step _ _ _ hg.inv h, ?_, ?_, ?_⟩
  · cases op with
    | push p => exact jinv_push _ _ _ hg.inv hg.jinv (by simpa [step] using h)
    | attach id f =>
      simp only [step] at h
      split at h
      · cases h
      · rename_i s b heq; cases h; exact jinv_attachFdt _ _ _ _ hg.inv hg.jinv heq
  · cases op with
    | push p => exact ginv_push _ _ hZ.laws _ _ hg.inv hg.jinv hg.ginv hgen (by simpa [step] using h)
    | attach id f =>
      simp only [step] at h
      split at h
      · cases h
      · rename_i s b heq; cases h; exact ginv_attachFdt _ _ hZ.laws _ _ _ hg.inv hg.jinv hg.ginv hgen heq
  · obtain ⟨D⟩ := hZ.dz
    obtain ⟨s2, h2, hT⟩ := tinv_step Z.P D hg.tinv op hwf
    rw [h] at h2; cases h2; exact hT

/-- a live step always returns (totality) -/
theorem step_ok (Z : Setting) (hZ : Z.OK) {st : St} {op : Op} (hg : Good Z st) (hwf : WfOp op) :
    ∃ st', step Z.P st op = .ok st' := by
  obtain ⟨D⟩ := hZ.dz
  obtain ⟨s2, h2, _⟩ := tinv_step Z.P D hg.tinv op hwf
  exact ⟨s2, h2⟩

/-! ### the packet cache (OTI unknown): `cache()`  ~  the cache branch of `Session.pushObj` - DISCHARGED -/

theorem setCenc_none (st : St) (p : Pkt) (h : p.cenc = none) : setCencFromPkt st p = st := by
  unfold setCencFromPkt
  split
  · rfl
  · rename_i hn
    have : st.cenc = none := by simpa using hn
    cases st; simp_all

theorem setOti_none (st : St) (p : Pkt) (h : p.fti = none) : setOtiFromPkt st p = st := by
  unfold setOtiFromPkt
  split
  · rfl
  · rw [h]

theorem cnt_same {st st' : St} (h : st'.out = st.out) (f : WCall → Bool) : cnt f st'.out = cnt f st.out := by rw [h]

theorem symOf_some {o : Oti} {p : Pkt} {s : Session.Sym} (h : symOf o p = some s) :
    ∃ pid, parsePayloadId o p = .ok (some pid) ∧ s = { sbn := pid.sbn, esi := pid.esi, close := p.close } := by
  unfold symOf at h
  split at h
  · rename_i pid heq; exact ⟨pid, heq, by cases h; rfl⟩
  · cases h

theorem cnt_cons (f : WCall → Bool) (c : WCall) (out : List WCall) :
    cnt f (c :: out) = (if f c then 1 else 0) + cnt f out := by
  unfold cnt; by_cases h : f c <;> simp [List.filter, h] <;> omega

/-- a packet of an object whose OTI is unknown (no in-band FTI): it is cached, or the cache is full and the object errors -/
theorem push_unknown (Z : Setting) (hZ : Z.OK) (st st' : St) (os : Session.OState) (rx : Session.ORx) (p : Pkt) (s : Session.Sym)
    (hg : Good Z st) (hr : Rel Z st os) (hrec : st.state = .receiving) (hsim : SimCore Z st rx)
    (g : GenEv Z p s) (hoti : st.oti = none) (hin : Z.oc.inbandFti = false) (h : push Z.P st p = .ok st') :
    Rel Z st' (Session.pushObj Z.dec Z.rc Z.oc os rx s) := by
  have hfti : p.fti = none := by rw [g.fti, hin]; rfl
  obtain ⟨hb0, ho0, _⟩ := hg.tinv.noOti hoti
  have hnb : st.nbBlock = 0 := by unfold St.nbBlock; simp [hb0, ho0]
  have hfd : st.fdtId = none := by
    cases hf : st.fdtId with
    | none => rfl
    | some i => have := hsim.attOti (by simp [hf]); simp [hoti] at this
  have hwn : st.writer = none := by
    cases hw : st.writer with
    | none => rfl
    | some w => exact absurd hfd (hg.inv.fdt (by simp [hw]))
  have hatt : rx.attached = false := by rw [hsim.att, hfd]; rfl
  have hknown : rx.otiKnown = false := by rw [hsim.oti, hoti]; rfl
  -- the ObjRecv side
  unfold push at h
  rw [if_neg (by simp [hrec]), setCenc_none _ _ g.cenc, setOti_none _ _ hfti] at h
  have e1 : initBlocksPartitioning st = .ok st := by unfold initBlocksPartitioning; simp [hnb, hoti]
  have e2 : initObjectWriter Z.P st = .ok st := by unfold initObjectWriter; simp [hwn, hoti]
  have e3 : pushFromCache Z.P st = .ok st := by unfold pushFromCache; simp [hnb]
  rw [e1] at h; dsimp only at h
  rw [e2] at h; dsimp only at h
  rw [e3] at h; dsimp only at h
  rw [if_neg (by simp [hrec]), if_pos (by simp [hoti])] at h
  -- the Session side
  have hS : Session.pushObj Z.dec Z.rc Z.oc os rx s =
      if Session.cacheFull Z.rc Z.oc rx.cache then Session.finish Z.oc os { rx := rx, term := .error }
      else Session.finish Z.oc os { rx := { rx with cache := s :: rx.cache }, term := .receiving } := by
    simp [Session.pushObj, hin, hknown]
  rw [hS]
  have hfull : Session.cacheFull Z.rc Z.oc rx.cache = decide (st.maxSize ≤ st.cacheSize) := by
    simp [Session.cacheFull, hZ.cap, hsim.maxSz, hsim.cacheSize]
  have hsmall := hZ.small
  have hms := hsim.maxSz
  have hds := g.small
  unfold cachePkt at h
  by_cases hf : st.maxSize ≤ st.cacheSize
  · -- cache full: error
    rw [if_pos hf] at h
    simp at h; subst h
    rw [hfull]; simp only [hf, decide_true, if_true]
    refine ⟨fun hh => by simp at hh, fun _ => by simp [Session.finish], ?_, ?_, ?_, ?_⟩ <;>
      simp [Session.finish, hatt, hwn, hr.opens, hr.completes, hr.errors, hr.interrupts]
  · rw [if_neg hf, if_neg (by unfold U64; omega)] at h
    simp at h; subst h
    rw [hfull]; simp only [hf, decide_false, Bool.false_eq_true, if_false]
    refine ⟨fun _ => ⟨{ rx with cache := s :: rx.cache }, by simp [Session.finish], ?_⟩, fun hh => absurd hrec hh, ?_, ?_, ?_, ?_⟩
    · refine ⟨⟨hsim.oti, hsim.att, hsim.wr, hsim.written, fun b e => hsim.got b e, hsim.nodup, hsim.maxSz, hsim.attOti,
          fun hh => by simp [hoti] at hh, fun hh => by simp [hoti] at hh, hsim.md5, hsim.f.of_eq rfl rfl rfl rfl⟩, ?_, ?_, ?_,
          fun hh => by simp [hin] at hh, fun hh => by simp [hoti] at hh, fun hh => by simp [hwn] at hh⟩
      · simp [g.sym, hsim.cache]
      · intro q hq
        simp only [List.mem_cons] at hq
        rcases hq with rfl | hq
        · exact ⟨s, g⟩
        · exact hsim.cacheGen q hq
      · simp [Session.cacheSum, hsim.cacheSize, g.len, Nat.add_comm]
    all_goals simp [Session.finish, hr.opens, hr.completes, hr.errors, hr.interrupts]

theorem finish_obj_some {o : Session.ObjCfg} {os : Session.OState} {r : Session.PushRes} {x : Session.ORx}
    (h : (Session.finish o os r).obj = some x) : r.term = .receiving ∧ x = r.rx := by
  unfold Session.finish at h
  cases ht : r.term <;> simp [ht] at h
  exact ⟨rfl, h.symm⟩

theorem finish_obj_none {o : Session.ObjCfg} {os : Session.OState} {r : Session.PushRes}
    (h : (Session.finish o os r).obj = none) : r.term ≠ .receiving := by
  unfold Session.finish at h
  cases ht : r.term <;> simp [ht] at h <;> simp

/-- THE B FLAG - DISCHARGED: `push_to_block` = `push_to_block2`, then close-object on a still incomplete object means `interrupted`
    (writer told so iff it exists)  ~  `Session.pushSym` = `pushCore`, then the same rule.  Block-level relation. -/
theorem block_stepB (Z : Setting) (H : Steps Z) (st st1 : St) (b : Bool) (os : Session.OState) (rx : Session.ORx) (p : Pkt)
    (s : Session.Sym) (hg : Good Z st) (hr : RelB Z st os) (hrec : st.state = .receiving) (hobj : os.obj = some rx)
    (hsim : SimB Z st rx) (hhd : Head st) (g : GenEv Z p s) (hoti : st.oti.isSome = true) (hn : Z.S.n ≠ 0)
    (h : pushToBlock Z.P st p = .ok (st1, b)) :
    StepOut Z st (if b then st1 else error st1 false) (Session.finish Z.oc os (Session.pushSym Z.dec Z.rc Z.oc rx s)) := by
  obtain ⟨pid, _, hs⟩ := symOf_some g.sym
  have hcl : s.close = p.close := by rw [hs]
  unfold pushToBlock at h
  split at h
  · cases h
  · -- Err
    rename_i s2 heq
    cases h
    have h2 := H.block2B_step st _ false os rx p s hg hr hrec hobj hsim hhd g hoti hn heq
    have hdead : (Session.finish Z.oc os (Session.pushCore Z.dec Z.rc Z.oc rx s)).obj = none :=
      h2.rel.dead (by simp)
    have hterm := finish_obj_none hdead
    have : Session.pushSym Z.dec Z.rc Z.oc rx s = Session.pushCore Z.dec Z.rc Z.oc rx s := by
      unfold Session.pushSym
      cases ht : (Session.pushCore Z.dec Z.rc Z.oc rx s).term <;> simp_all
    rw [this]; exact h2
  · rename_i s2 heq
    have h2 := H.block2B_step st _ true os rx p s hg hr hrec hobj hsim hhd g hoti hn heq
    simp only [if_true] at h2
    by_cases hst : s2.state = .receiving
    · obtain ⟨rx2, hobj2, hsim2⟩ := h2.rel.live hst
      obtain ⟨hterm, hrx2⟩ := finish_obj_some hobj2
      by_cases hc : p.close = true
      · -- B flag on a still incomplete object
        rw [if_pos ⟨hc, hst⟩] at h
        cases h
        simp only [if_true]
        have hS : Session.pushSym Z.dec Z.rc Z.oc rx s =
            { rx := (Session.pushCore Z.dec Z.rc Z.oc rx s).rx, term := .interrupted } := by
          unfold Session.pushSym; simp [hcl, hc, hterm]
        rw [hS]
        have hfin : Session.finish Z.oc os (Session.pushCore Z.dec Z.rc Z.oc rx s) = { os with obj := some rx2 } := by
          unfold Session.finish; simp [hterm, hrx2]
        have h2r := h2.rel
        rw [hfin] at h2r
        subst hrx2
        refine ⟨?_, fun hh => by simp at hh, fun _ => by simp, fun hh => by simp at hh⟩
        cases hw : s2.writer with
        | none =>
          have hfd : s2.fdtId = none := by
            cases hf : s2.fdtId with
            | none => rfl
            | some i => have := hsim2.wr (by simp [hf]); rw [hw] at this; cases this
          have hatt : (Session.pushCore Z.dec Z.rc Z.oc rx s).rx.attached = false := by rw [hsim2.att, hfd]; rfl
          have hout : (error s2 true).out = s2.out := by simp [hw]
          refine ⟨fun hh => by simp at hh, fun _ => by simp [Session.finish], ?_, ?_, ?_, ?_⟩
          · rw [hout]; simpa [Session.finish] using h2r.opens
          · rw [hout]; simpa [Session.finish] using h2r.completes
          · rw [hout]; simpa [Session.finish] using h2r.errors
          · rw [hout]; simpa [Session.finish, hatt] using h2r.interrupts
        | some w =>
          have hfd : s2.fdtId.isSome = true := by
            cases hf : s2.fdtId with
            | none => exact absurd hf ((inv_pushToBlock2 _ _ _ hg.inv (hg.inv.live_of_receiving hrec) heq).1.fdt (by simp [hw]))
            | some i => rfl
          have hatt : (Session.pushCore Z.dec Z.rc Z.oc rx s).rx.attached = true := by rw [hsim2.att]; exact hfd
          have hout : (error s2 true).out = WCall.interrupted :: s2.out := by simp [hw]
          refine ⟨fun hh => by simp at hh, fun _ => by simp [Session.finish], ?_, ?_, ?_, ?_⟩
          · rw [hout, cnt_cons]; simpa [Session.finish, isOpenOk] using h2r.opens
          · rw [hout, cnt_cons]; simpa [Session.finish, isComplete] using h2r.completes
          · rw [hout, cnt_cons]; simpa [Session.finish, isError] using h2r.errors
          · rw [hout, cnt_cons]
            have := h2r.interrupts
            simp only [Session.finish, hatt, if_true, isInterrupted] at this ⊢
            omega
      · rw [if_neg (fun hh => hc hh.1)] at h
        cases h
        simp only [if_true]
        have : Session.pushSym Z.dec Z.rc Z.oc rx s = Session.pushCore Z.dec Z.rc Z.oc rx s := by
          unfold Session.pushSym; simp [hcl, hc]
        rw [this]; exact h2
    · rw [if_neg (fun hh => hst hh.2)] at h
      cases h
      simp only [if_true]
      have hdead := h2.rel.dead hst
      have hterm := finish_obj_none hdead
      have : Session.pushSym Z.dec Z.rc Z.oc rx s = Session.pushCore Z.dec Z.rc Z.oc rx s := by
        unfold Session.pushSym
        cases ht : (Session.pushCore Z.dec Z.rc Z.oc rx s).term <;> simp_all
      rw [this]; exact h2

/-- neither `pushCore` nor `settle` touches the packet cache -/
theorem settle_cache (dec : (k p : Nat) → List Nat → Bool) (o : Session.ObjCfg) (rx : Session.ORx) :
    (Session.settle dec o rx).rx.cache = rx.cache := by
  unfold Session.settle; split <;> rfl

theorem pushCore_cache (dec : (k p : Nat) → List Nat → Bool) (rc : Session.RxCfg) (o : Session.ObjCfg) (rx : Session.ORx)
    (s : Session.Sym) : (Session.pushCore dec rc o rx s).rx.cache = rx.cache := by
  unfold Session.pushCore
  split
  · rfl
  · split
    · rfl
    · split
      · rfl
      · split
        · rfl
        · dsimp only
          split
          · rfl
          · rw [settle_cache]

theorem pushSym_cache (dec : (k p : Nat) → List Nat → Bool) (rc : Session.RxCfg) (o : Session.ObjCfg) (rx : Session.ORx)
    (s : Session.Sym) : (Session.pushSym dec rc o rx s).rx.cache = rx.cache := by
  unfold Session.pushSym
  dsimp only
  split
  · exact pushCore_cache dec rc o rx s
  · exact pushCore_cache dec rc o rx s

theorem settle_attached (dec : (k p : Nat) → List Nat → Bool) (o : Session.ObjCfg) (rx : Session.ORx) :
    (Session.settle dec o rx).rx.attached = rx.attached := by
  unfold Session.settle; split <;> rfl

theorem pushCore_attached (dec : (k p : Nat) → List Nat → Bool) (rc : Session.RxCfg) (o : Session.ObjCfg) (rx : Session.ORx)
    (s : Session.Sym) : (Session.pushCore dec rc o rx s).rx.attached = rx.attached := by
  unfold Session.pushCore
  split
  · rfl
  · split
    · rfl
    · split
      · rfl
      · split
        · rfl
        · dsimp only
          split
          · rfl
          · rw [settle_attached]

theorem pushSym_attached (dec : (k p : Nat) → List Nat → Bool) (rc : Session.RxCfg) (o : Session.ObjCfg) (rx : Session.ORx)
    (s : Session.Sym) : (Session.pushSym dec rc o rx s).rx.attached = rx.attached := by
  unfold Session.pushSym
  dsimp only
  split
  · exact pushCore_attached dec rc o rx s
  · exact pushCore_attached dec rc o rx s

theorem replay_attached (dec : (k p : Nat) → List Nat → Bool) (rc : Session.RxCfg) (o : Session.ObjCfg) :
    ∀ (l : List Session.Sym) (rx : Session.ORx), (Session.replay dec rc o l rx).rx.attached = rx.attached := by
  intro l
  induction l with
  | nil => intro rx; rfl
  | cons s rest ih =>
    intro rx
    simp only [Session.replay]
    split
    · rw [ih, pushSym_attached]
    · rw [pushSym_attached]

theorem finish_obj_irrel' (o : Session.ObjCfg) (os : Session.OState) (n : Nat) (x : Option Session.ORx) (r : Session.PushRes) :
    Session.finish o { os with opens := n, obj := x } r = Session.finish o { os with opens := n } r := by
  unfold Session.finish; cases r.term <;> rfl

/-- the block path between two ops (cache replayed, i.e. empty): the full relation -/
theorem block_step (Z : Setting) (H : Steps Z) (st st1 : St) (b : Bool) (os : Session.OState) (rx : Session.ORx) (p : Pkt)
    (s : Session.Sym) (hg : Good Z st) (hr : Rel Z st os) (hrec : st.state = .receiving) (hobj : os.obj = some rx)
    (hsim : SimCore Z st rx) (g : GenEv Z p s) (hoti : st.oti.isSome = true) (hn : Z.S.n ≠ 0)
    (h : pushToBlock Z.P st p = .ok (st1, b)) :
    Rel Z (if b then st1 else error st1 false) (Session.finish Z.oc os (Session.pushSym Z.dec Z.rc Z.oc rx s)) := by
  have hc : st.cache = [] := hsim.settled hoti hn
  have hrc : rx.cache = [] := by have := hsim.cache; rw [hc] at this; simpa using this.symm
  have h2 := block_stepB Z H st st1 b os rx p s hg hr.toB hrec hobj hsim.toSimB hsim.head g hoti hn h
  refine ⟨fun hs => ?_, h2.rel.dead, h2.rel.opens, h2.rel.completes, h2.rel.errors, h2.rel.interrupts⟩
  obtain ⟨rx2, hobj2, hsim2⟩ := h2.rel.live hs
  obtain ⟨_, hrx2⟩ := finish_obj_some hobj2
  obtain ⟨k1, k2⟩ := h2.keep hs
  have hrc2 : rx2.cache = [] := by rw [hrx2, pushSym_cache, hrc]
  refine ⟨rx2, hobj2, hsim2, by rw [k1, hc, hrc2]; rfl, (fun q hq => by rw [k1, hc] at hq; cases hq),
    by rw [k2, hsim.cacheSize, hrc, hrc2], fun _ => by rw [k1, hc], fun _ _ => by rw [k1, hc], h2.head hs⟩

theorem setOti_some (st : St) (p : Pkt) (h : st.oti.isSome = true) : setOtiFromPkt st p = st := by
  unfold setOtiFromPkt; rw [if_pos h]

/-- a packet of a non-empty object whose OTI was already known: everything before `push_to_block` is a no-op -/
theorem push_known_nonempty (Z : Setting) (H : Steps Z) (st st' : St) (os : Session.OState) (rx : Session.ORx) (p : Pkt)
    (s : Session.Sym) (hg : Good Z st) (hr : Rel Z st os) (hrec : st.state = .receiving) (hobj : os.obj = some rx)
    (hsim : SimCore Z st rx) (g : GenEv Z p s) (hoti : st.oti.isSome = true) (hn : Z.S.n ≠ 0) (h : push Z.P st p = .ok st') :
    Rel Z st' (Session.pushObj Z.dec Z.rc Z.oc os rx s) := by
  have hnb := hsim.tbl hoti hn
  have hc := hsim.settled hoti hn
  have hknown : rx.otiKnown = true := by rw [hsim.oti]; exact hoti
  have hrc : rx.cache = [] := by
    have := hsim.cache; rw [hc] at this; simpa using this.symm
  have hcs : st.cacheSize = 0 := by rw [hsim.cacheSize, hrc]; rfl
  unfold push at h
  rw [if_neg (by simp [hrec]), setCenc_none _ _ g.cenc, setOti_some _ _ hoti] at h
  have e1 : initBlocksPartitioning st = .ok st := by unfold initBlocksPartitioning; simp [hnb]
  have e2 : initObjectWriter Z.P st = .ok st := by
    unfold initObjectWriter
    cases hw : st.writer with
    | some w => simp
    | none =>
      have hf : st.fdtId = none := by
        cases hf : st.fdtId with
        | none => rfl
        | some i => have := hsim.wr (by simp [hf]); rw [hw] at this; cases this
      simp [hf]
  have e3 : pushFromCache Z.P st = .ok st := by
    unfold pushFromCache
    rw [if_neg (by omega), hc]
    simp only [List.length_nil, cacheLoop]
    congr 1
    cases st; simp_all
  rw [e1] at h; dsimp only at h
  rw [e2] at h; dsimp only at h
  rw [e3] at h; dsimp only at h
  rw [if_neg (by simp [hrec]), if_neg (by cases ho : st.oti <;> simp_all)] at h
  have hS : Session.pushObj Z.dec Z.rc Z.oc os rx s = Session.finish Z.oc os (Session.pushSym Z.dec Z.rc Z.oc rx s) := by
    simp [Session.pushObj, hknown]
  rw [hS]
  split at h
  · cases h
  · rename_i s1 heq
    cases h
    have := block_step Z H st _ true os rx p s hg hr hrec hobj hsim g hoti hn heq
    simpa using this
  · rename_i s1 heq
    cases h
    have := block_step Z H st _ false os rx p s hg hr hrec hobj hsim g hoti hn heq
    simpa using this

theorem finish_obj_irrel (o : Session.ObjCfg) (os : Session.OState) (x : Option Session.ORx) (r : Session.PushRes) :
    Session.finish o { os with obj := x } r = Session.finish o os r := by
  unfold Session.finish; cases r.term <;> rfl

/-- the FIRST packet of a non-empty object with in-band FTI: `set_oti_from_pkt` + `init_blocks_partitioning` build the block table,
    nothing else happens before `push_to_block` - reduced to `Steps.block_step` on the state with the fresh table -/
theorem push_first_inband (Z : Setting) (hZ : Z.OK) (H : Steps Z) (st st' : St) (os : Session.OState) (rx : Session.ORx) (p : Pkt)
    (s : Session.Sym) (hg : Good Z st) (hr : Rel Z st os) (hrec : st.state = .receiving) (hobj : os.obj = some rx)
    (hsim : SimCore Z st rx) (g : GenEv Z p s) (hoti : st.oti = none) (hin : Z.oc.inbandFti = true) (hn : Z.S.n ≠ 0)
    (h : push Z.P st p = .ok st') :
    Rel Z st' (Session.pushObj Z.dec Z.rc Z.oc os rx s) := by
  have hfti : p.fti = some (Z.S.o, Z.S.T.length) := by rw [g.fti, hin]; rfl
  obtain ⟨hb0, ho0, _⟩ := hg.tinv.noOti hoti
  have hfd : st.fdtId = none := by
    cases hf : st.fdtId with
    | none => rfl
    | some i => have := hsim.attOti (by simp [hf]); simp [hoti] at this
  have hwn : st.writer = none := by
    cases hw : st.writer with
    | none => rfl
    | some w => exact absurd hfd (hg.inv.fdt (by simp [hw]))
  have htl : st.tl = none := by
    cases ht : st.tl with
    | none => rfl
    | some l => have := hg.tinv.tlFdt hoti (by simp [ht]); simp [hfd] at this
  have hc : st.cache = [] := hsim.inband hin
  have hrc : rx.cache = [] := by have := hsim.cache; rw [hc] at this; simpa using this.symm
  have hcs : st.cacheSize = 0 := by rw [hsim.cacheSize, hrc]; rfl
  have hgot : rx.got = [] := by
    apply List.eq_nil_iff_forall_not_mem.mpr
    intro x hx
    have := (hsim.got x.1 x.2).mp hx
    obtain ⟨_, blk, d, hb, _⟩ := this
    simp [hb0] at hb
  have hknown : rx.otiKnown = false := by rw [hsim.oti, hoti]; rfl
  -- the state after set_oti_from_pkt + init_blocks_partitioning
  have hs0 : setOtiFromPkt (setCencFromPkt st p) p = { st with oti := some Z.S.o, tl := some Z.S.T.length } := by
    rw [setCenc_none _ _ g.cenc]; unfold setOtiFromPkt; simp [hoti, hfti, htl]
  have hg0 : Good Z (setOtiFromPkt (setCencFromPkt st p) p) :=
    ⟨hg.inv.quiet ((quiet_setCencFromPkt st p).trans (quiet_setOtiFromPkt _ p)),
     jinv_setFromPkt st p (.inl hwn) hg.jinv, ginv_setFromPkt st p hg.ginv g.gen,
     tinv_setOtiFromPkt (tinv_setCencFromPkt hg.tinv p) p g.wf⟩
  obtain ⟨s1, e1, hT1⟩ := tinv_initBP hg0.tinv
  have hg1 : Good Z s1 :=
    ⟨(inv_initBlocksPartitioning _ hg0.inv e1).1, hg0.jinv.sameJ (sameJ_initBlocksPartitioning _ e1),
     ginv_initBlocksPartitioning _ hZ.laws _ hg0.ginv e1, hT1⟩
  have hs1 : s1 = { st with oti := some Z.S.o, tl := some Z.S.T.length, aLarge := Z.S.aL, aSmall := Z.S.aS, nbALarge := Z.S.nL,
                            nbBlocks := Z.S.n, blocks := List.replicate (min Z.S.n MAX_PREALLOCATED_BLOCKS) {} } := by
    rw [hs0] at e1
    unfold initBlocksPartitioning at e1
    simp [St.nbBlock, hb0, ho0, hZ.laws.quad, liftRs] at e1
    rw [← e1]; simp [ho0]
  have hnb1 : 0 < s1.nbBlock := by
    rw [hs1]; unfold St.nbBlock; simp [ho0, MAX_PREALLOCATED_BLOCKS]; omega
  unfold push at h
  rw [if_neg (by simp [hrec]), e1] at h
  dsimp only at h
  have e2 : initObjectWriter Z.P s1 = .ok s1 := by
    unfold initObjectWriter; rw [hs1]; simp [hwn, hfd]
  have e3 : pushFromCache Z.P s1 = .ok s1 := by
    unfold pushFromCache
    rw [if_neg (by omega)]
    have : s1.cache = [] := by rw [hs1]; exact hc
    rw [this]
    simp only [List.length_nil, cacheLoop]
    congr 1
    rw [hs1]; cases st; simp_all
  rw [e2] at h; dsimp only at h
  rw [e3] at h; dsimp only at h
  have hst1 : s1.state = .receiving := by rw [hs1]; exact hrec
  have hot1 : s1.oti.isSome = true := by rw [hs1]; rfl
  rw [if_neg (by simp [hst1]), if_neg (by cases ho : s1.oti <;> simp_all)] at h
  -- the Session side
  have hS : Session.pushObj Z.dec Z.rc Z.oc os rx s =
      Session.finish Z.oc os (Session.pushSym Z.dec Z.rc Z.oc { rx with otiKnown := true } s) := by
    simp [Session.pushObj, hin, hknown]
  rw [hS, ← finish_obj_irrel Z.oc os (some { rx with otiKnown := true })]
  have hsim1 : SimCore Z s1 { rx with otiKnown := true } := by
    refine ⟨⟨by rw [hot1], by rw [hs1]; exact hsim.att, fun hh => by rw [hs1] at hh; simp [hfd] at hh,
      by rw [hs1]; exact hsim.written, ?_, by simp [hgot], by rw [hs1]; exact hsim.maxSz,
      fun hh => by rw [hs1] at hh; simp [hfd] at hh, fun _ _ => hnb1, fun _ => by rw [hs1], by rw [hs1]; exact hsim.md5,
      simF_fresh Z hZ.decNil s1 (min Z.S.n MAX_PREALLOCATED_BLOCKS) (Nat.min_le_left _ _)
        (by have := Nat.min_le_right Z.S.n MAX_PREALLOCATED_BLOCKS; omega) (by rw [hs1]) (by rw [hs1]; exact ho0)
        (by rw [hs1]; exact hg.tinv.wbw hwn) (by rw [hs1]; exact hsim.f.cl)⟩,
      by rw [hs1]; simp [hc, hrc], fun q hq => by rw [hs1] at hq; simp [hc] at hq, by rw [hs1]; simp [hcs, hrc, Session.cacheSum],
      fun _ => by rw [hs1]; exact hc, fun _ _ => by rw [hs1]; exact hc, fun hh => by rw [hs1] at hh; simp [hwn] at hh⟩
    intro b e
    simp only [hgot, List.not_mem_nil, false_iff]
    rintro ⟨_, blk, d, hb, hd, _⟩
    rw [hs1] at hb
    have := List.mem_of_getElem? hb
    rw [List.eq_of_mem_replicate this] at hd
    cases hd
  have hr1 : Rel Z s1 { os with obj := some { rx with otiKnown := true } } := by
    have ho : s1.out = st.out := by rw [hs1]
    refine ⟨fun _ => ⟨_, rfl, hsim1⟩, fun hh => absurd hst1 hh, ?_, ?_, ?_, ?_⟩
    · rw [cnt_same ho]; exact hr.opens
    · rw [cnt_same ho]; exact hr.completes
    · rw [cnt_same ho]; exact hr.errors
    · rw [cnt_same ho]; exact hr.interrupts
  split at h
  · cases h
  · rename_i s2 heq
    cases h
    have := block_step Z H s1 _ true _ _ p s hg1 hr1 hst1 rfl hsim1 g hot1 hn heq
    simpa using this
  · rename_i s2 heq
    cases h
    have := block_step Z H s1 _ false _ _ p s hg1 hr1 hst1 rfl hsim1 g hot1 hn heq
    simpa using this

/-- the EMPTY object, from the state `s1` in which `push_to_block` runs: `complete` iff the writer exists, then the B flag -/
theorem empty_tail (Z : Setting) (hZ : Z.OK) (st s1 st' : St) (os : Session.OState) (rx rx1 : Session.ORx) (p : Pkt)
    (s : Session.Sym) (hg : Good Z st) (hr : Rel Z st os) (hsim : SimCore Z st rx) (g : GenEv Z p s) (hn : Z.S.n = 0)
    (f_state : s1.state = .receiving) (f_oti : s1.oti = some Z.S.o) (f_tl : s1.tl = some 0) (f_cache : s1.cache = st.cache)
    (f_cs : s1.cacheSize = st.cacheSize) (f_max : s1.maxSize = st.maxSize) (f_blocks : s1.blocks = []) (f_off : s1.blocksOffset = 0)
    (f_wr : s1.writer = st.writer) (f_bw : s1.bw = none) (f_fdt : s1.fdtId = st.fdtId) (f_out : s1.out = st.out)
    (f_md5 : s1.md5 = st.md5) (f_cl : s1.cl = st.cl)
    (f_quad : (s1.aLarge, s1.aSmall, s1.nbALarge, s1.nbBlocks) = (Z.S.aL, Z.S.aS, Z.S.nL, Z.S.n)) (hb0 : st.blocks = []) (ho0 : st.blocksOffset = 0)
    (hrx1 : rx1 = { rx with otiKnown := true })
    (h : (match pushToBlock Z.P s1 p with
          | .error f => .error f
          | .ok (x, true) => .ok x
          | .ok (x, false) => .ok (error x false)) = Except.ok st') :
    Rel Z st' (Session.finish Z.oc os (Session.pushSym Z.dec Z.rc Z.oc rx1 s)) := by
  obtain ⟨pid, hpid, hs⟩ := symOf_some g.sym
  have hks : Z.oc.ks.isEmpty = true := by simp [Array.isEmpty, hZ.nblocks, hn]
  have hatt1 : rx1.attached = rx.attached := by rw [hrx1]
  have hcl : s.close = p.close := by rw [hs]
  -- Session side
  have hS : Session.pushSym Z.dec Z.rc Z.oc rx1 s =
      if rx.attached then { rx := rx1, term := .completed }
      else if p.close then { rx := rx1, term := .interrupted } else { rx := rx1, term := .receiving } := by
    unfold Session.pushSym Session.pushCore
    simp only [hks, if_true, hatt1, hcl]
    cases rx.attached <;> cases p.close <;> simp
  rw [hS]
  -- ObjRecv side
  have hpb : pushToBlock2 Z.P s1 p = .ok (if s1.writer.isSome then complete s1 else s1, true) := by
    have hv : emptyMd5Valid Z.P s1 = true := by simp [emptyMd5Valid, f_md5, hsim.md5]
    unfold pushToBlock2
    simp [f_oti, f_tl, hpid, f_bw, hv]
  unfold pushToBlock at h
  rw [hpb] at h
  dsimp only at h
  cases hw : st.writer with
  | some w =>
    -- attached: complete
    have hfd : st.fdtId.isSome = true := by
      cases hf : st.fdtId with
      | none => exact absurd hf (hg.inv.fdt (by simp [hw]))
      | some i => rfl
    have hatt : rx.attached = true := by rw [hsim.att]; exact hfd
    have hs1w : s1.writer.isSome = true := by rw [f_wr, hw]; rfl
    simp only [hs1w, if_true] at h
    rw [if_neg (by simp)] at h
    dsimp only at h
    cases h
    simp only [hatt, if_true]
    have hout : (complete s1).out = WCall.complete :: st.out := by simp [hs1w, f_out]
    refine ⟨fun hh => by simp at hh, fun _ => by simp [Session.finish], ?_, ?_, ?_, ?_⟩
    · rw [hout, cnt_cons]; simp [Session.finish, isOpenOk, hr.opens]
    · rw [hout, cnt_cons]; simp [Session.finish, isComplete, hr.completes, hatt1, hatt, Nat.add_comm]
    · rw [hout, cnt_cons]; simp [Session.finish, isError, hr.errors]
    · rw [hout, cnt_cons]; simp [Session.finish, isInterrupted, hr.interrupts]
  | none =>
    have hfd : st.fdtId = none := by
      cases hf : st.fdtId with
      | none => rfl
      | some i => have := hsim.wr (by simp [hf]); rw [hw] at this; cases this
    have hatt : rx.attached = false := by rw [hsim.att, hfd]; rfl
    have hs1w : s1.writer.isSome = false := by rw [f_wr, hw]; rfl
    simp only [hs1w, Bool.false_eq_true, if_false] at h
    simp only [hatt, Bool.false_eq_true, if_false]
    by_cases hc : p.close = true
    · -- B flag on the incomplete (unattached) empty object: interrupted, no writer call
      rw [if_pos ⟨hc, f_state⟩] at h
      dsimp only at h
      cases h
      simp only [hc, if_true]
      have hwn : s1.writer = none := by rw [f_wr, hw]
      have hout : (error s1 true).out = st.out := by simp [hwn, f_out]
      refine ⟨fun hh => by simp at hh, fun _ => by simp [Session.finish], ?_, ?_, ?_, ?_⟩
      · rw [hout]; simp [Session.finish, hr.opens]
      · rw [hout]; simp [Session.finish, hr.completes]
      · rw [hout]; simp [Session.finish, hr.errors]
      · rw [hout]; simp [Session.finish, hatt1, hatt, hr.interrupts]
    · rw [if_neg (fun hh => hc hh.1)] at h
      dsimp only at h
      cases h
      simp only [hc, Bool.false_eq_true, if_false]
      refine ⟨fun _ => ⟨rx1, by simp [Session.finish], ?_⟩, fun hh => absurd f_state hh, ?_, ?_, ?_, ?_⟩
      · rw [hrx1]
        refine ⟨⟨by simp [f_oti], by rw [f_fdt]; exact hsim.att, fun hh => by rw [f_fdt] at hh; rw [f_wr]; exact hsim.wr hh,
          by rw [f_off, ← ho0]; exact hsim.written, ?_, hsim.nodup, by rw [f_max]; exact hsim.maxSz,
          fun hh => by simp [f_oti], fun _ hh => absurd hn hh, fun _ => f_quad, by rw [f_md5]; exact hsim.md5,
          ⟨fun i b hib => by rw [f_blocks] at hib; simp at hib, (fun w' hw' => by rw [f_bw] at hw'; cases hw'), by rw [f_cl]; exact hsim.f.cl, by rw [f_blocks]; simp⟩⟩,
          by rw [f_cache]; exact hsim.cache, fun q hq => hsim.cacheGen q (by rw [← f_cache]; exact hq),
          by rw [f_cs]; exact hsim.cacheSize, fun hh => by rw [f_cache]; exact hsim.inband hh, fun _ hh => absurd hn hh,
          fun _ blk hb => by rw [f_blocks] at hb; simp at hb⟩
        intro b e
        rw [hsim.got b e]
        unfold holds
        simp [f_blocks, hb0]
      all_goals simp [cnt_same f_out, Session.finish, hr.opens, hr.completes, hr.errors, hr.interrupts]

/-- a packet of the EMPTY object (transfer length 0) whose OTI is known or comes with the packet - DISCHARGED -/
theorem push_empty (Z : Setting) (hZ : Z.OK) (st st' : St) (os : Session.OState) (rx : Session.ORx) (p : Pkt) (s : Session.Sym)
    (hg : Good Z st) (hr : Rel Z st os) (hrec : st.state = .receiving) (hsim : SimCore Z st rx) (g : GenEv Z p s)
    (hk : st.oti.isSome = true ∨ Z.oc.inbandFti = true) (hn : Z.S.n = 0) (h : push Z.P st p = .ok st') :
    Rel Z st' (Session.pushObj Z.dec Z.rc Z.oc os rx s) := by
  have hT : Z.S.T.length = 0 := hZ.empty hn
  -- no block, ever
  have hroom := hg.ginv.room
  have ho0 : st.blocksOffset = 0 := by omega
  have hb0 : st.blocks = [] := List.eq_nil_of_length_eq_zero (by omega)
  have hnb : st.nbBlock = 0 := by unfold St.nbBlock; simp [hb0, ho0]
  have hq : Partition.blockPartitioning Z.S.o.b 0 Z.S.o.e = .ok (Z.S.aL, Z.S.aS, Z.S.nL, Z.S.n) := by
    have := hZ.laws.quad; rw [hT] at this; exact this
  have hwfd : st.writer = none → st.fdtId = none := by
    intro hw
    cases hf : st.fdtId with
    | none => rfl
    | some i => have := hsim.wr (by simp [hf]); rw [hw] at this; cases this
  unfold push at h
  rw [if_neg (by simp [hrec]), setCenc_none _ _ g.cenc] at h
  cases ho : st.oti with
  | some o =>
    -- OTI known before
    have hoti : st.oti.isSome = true := by simp [ho]
    have hoS : o = Z.S.o := by
      cases hg.ginv.oti with
      | inl h1 => rw [ho] at h1; cases h1
      | inr h1 => rw [ho] at h1; cases h1; rfl
    subst hoS
    have htl : st.tl = some 0 := by
      have h1 := hg.tinv.otitl hoti
      cases hg.ginv.tl with
      | inl h2 => simp [h2] at h1
      | inr h2 => rw [h2, hT]
    have hbw : st.bw = none := by
      cases hb : st.bw with
      | none => rfl
      | some w => obtain ⟨T, h1, h2⟩ := hg.tinv.bwtl w hb; rw [htl] at h1; cases h1; exact absurd rfl h2
    have hknown : rx.otiKnown = true := by rw [hsim.oti]; exact hoti
    rw [setOti_some _ _ hoti] at h
    obtain ⟨s1, hs1⟩ : ∃ s1 : St, s1 = { st with aLarge := Z.S.aL, aSmall := Z.S.aS, nbALarge := Z.S.nL, nbBlocks := Z.S.n,
                                                  blocks := List.replicate (min Z.S.n MAX_PREALLOCATED_BLOCKS) {} } := ⟨_, rfl⟩
    have e1 : initBlocksPartitioning st = .ok s1 := by
      rw [hs1]; unfold initBlocksPartitioning; simp [hnb, ho, htl, hq, liftRs]
    rw [e1] at h; dsimp only at h
    have e2 : initObjectWriter Z.P s1 = .ok s1 := by
      unfold initObjectWriter
      cases hw : st.writer with
      | some w => simp [hs1, hw]
      | none => simp [hs1, hw, hwfd hw]
    rw [e2] at h; dsimp only at h
    have e3 : pushFromCache Z.P s1 = .ok s1 := by
      unfold pushFromCache; simp [St.nbBlock, hs1, hn, ho0]
    rw [e3] at h; dsimp only at h
    rw [if_neg (by simp [hs1, hrec]), if_neg (by simp [hs1, ho])] at h
    have hS : Session.pushObj Z.dec Z.rc Z.oc os rx s = Session.finish Z.oc os (Session.pushSym Z.dec Z.rc Z.oc rx s) := by
      simp [Session.pushObj, hknown]
    rw [hS]
    have hrx : rx = { rx with otiKnown := true } := by cases rx; simp_all
    exact empty_tail Z hZ st s1 st' os rx rx p s hg hr hsim g hn (by rw [hs1]; exact hrec) (by rw [hs1]; exact ho)
      (by rw [hs1]; exact htl) (by rw [hs1]) (by rw [hs1]) (by rw [hs1]) (by rw [hs1]; simp [hn]) (by rw [hs1]; exact ho0)
      (by rw [hs1]) (by rw [hs1]; exact hbw) (by rw [hs1]) (by rw [hs1]) (by rw [hs1]) (by rw [hs1]) (by rw [hs1]) hb0 ho0 hrx h
  | none =>
    cases hk with
    | inl hk => simp [ho] at hk
    | inr hin =>
      have hfti : p.fti = some (Z.S.o, Z.S.T.length) := by rw [g.fti, hin]; rfl
      have hfd : st.fdtId = none := by
        cases hf : st.fdtId with
        | none => rfl
        | some i => have := hsim.attOti (by simp [hf]); simp [ho] at this
      have hwn : st.writer = none := by
        cases hw : st.writer with
        | none => rfl
        | some w => exact absurd hfd (hg.inv.fdt (by simp [hw]))
      have htl : st.tl = none := by
        cases ht : st.tl with
        | none => rfl
        | some l => have := hg.tinv.tlFdt ho (by simp [ht]); simp [hfd] at this
      have hbw : st.bw = none := hg.tinv.wbw hwn
      have hknown : rx.otiKnown = false := by rw [hsim.oti, ho]; rfl
      have hs0 : setOtiFromPkt st p = { st with oti := some Z.S.o, tl := some 0 } := by
        unfold setOtiFromPkt; simp [ho, hfti, htl, hT]
      rw [hs0] at h
      obtain ⟨s1, hs1⟩ : ∃ s1 : St, s1 = { st with oti := some Z.S.o, tl := some 0, aLarge := Z.S.aL, aSmall := Z.S.aS, nbALarge := Z.S.nL, nbBlocks := Z.S.n, blocks := List.replicate (min Z.S.n MAX_PREALLOCATED_BLOCKS) {} } := ⟨_, rfl⟩
      have e1 : initBlocksPartitioning { st with oti := some Z.S.o, tl := some 0 } = .ok s1 := by
        rw [hs1]; unfold initBlocksPartitioning; simp [St.nbBlock, hb0, ho0, hq, liftRs]
      rw [e1] at h; dsimp only at h
      have e2 : initObjectWriter Z.P s1 = .ok s1 := by
        unfold initObjectWriter; simp [hs1, hwn, hfd]
      rw [e2] at h; dsimp only at h
      have e3 : pushFromCache Z.P s1 = .ok s1 := by
        unfold pushFromCache; simp [St.nbBlock, hs1, hn, ho0]
      rw [e3] at h; dsimp only at h
      rw [if_neg (by simp [hs1, hrec]), if_neg (by simp [hs1])] at h
      have hS : Session.pushObj Z.dec Z.rc Z.oc os rx s =
          Session.finish Z.oc os (Session.pushSym Z.dec Z.rc Z.oc { rx with otiKnown := true } s) := by
        simp [Session.pushObj, hin, hknown]
      rw [hS]
      exact empty_tail Z hZ st s1 st' os rx _ p s hg hr hsim g hn (by rw [hs1]; exact hrec) (by rw [hs1]) (by rw [hs1])
        (by rw [hs1]) (by rw [hs1]) (by rw [hs1]) (by rw [hs1]; simp [hn]) (by rw [hs1]; exact ho0)
        (by rw [hs1]) (by rw [hs1]; exact hbw) (by rw [hs1]) (by rw [hs1]) (by rw [hs1]) (by rw [hs1]) (by rw [hs1]) hb0 ho0 rfl h

/-! ### `attach_fdt`: metadata, block table, writer - then the tail (replay, flush) -/

/-- what `attach_fdt` does once the writer is open: replay of the cache, `write_blocks(0)`, replay again -/
def attachTail (P : Params) (s2 : St) : Rx (St × Bool) :=
  match pushFromCache P s2 with
  | .error e => .error e
  | .ok st =>
  match writeBlocks P st 0 with
  | .error e => .error e
  | .ok (st, ok) =>
  match pushFromCache P (if ok then st else error st false) with
  | .error e => .error e
  | .ok st => .ok (st, true)

/-- the state after `init_object_writer` created and opened the writer (StoreObject, open Ok) -/
def openedSt (s1 : St) (T : Nat) : St :=
  { s1 with wIdx := s1.nBuilder, nBuilder := s1.nBuilder + 1, out := .open true :: .new s1.meta .store :: s1.out, md5Check := s1.md5Check, writer := some .opened, bw := if T ≠ 0 then some (BW.new T s1.cl .null s1.md5Check) else none }

/-- `init_object_writer` with an all-accepting writer side: the writer is created and opened -/
theorem writer_open (Z : Setting) (hZ : Z.OK) (s1 : St) (id T : Nat) (o : Oti) (hw : s1.writer = none) (hbw : s1.bw = none)
    (hf : s1.fdtId = some id) (hc : s1.cenc = some .null) (htl : s1.tl = some T) (ho : s1.oti = some o) (hm : s1.md5 = none) :
    initObjectWriter Z.P s1 = .ok (openedSt s1 T) := by
  obtain ⟨e1, e2, _⟩ := hZ.env s1.nBuilder
  unfold initObjectWriter openedSt
  simp only [hw, Option.isSome_none, Bool.false_eq_true, if_false, hf, hc, htl, ho]
  simp only [e1]
  unfold openWriter
  simp [hbw, e2, hm]

/-- the File entry of the object never contradicts what a genuine history taught in band -/
theorem no_conflict (Z : Setting) (hZ : Z.OK) (st : St) (rx : Session.ORx) (f : FileEntry) (hg : Good Z st)
    (hsim : SimB Z st rx) (fo : FileOK Z f) (hw : st.writer = none) : fdtConflict st f = .ok false := by
  unfold fdtConflict
  rw [if_neg (by simp [hw])]
  cases ho : st.oti with
  | none => rfl
  | some o =>
    have hoS : o = Z.S.o := by
      cases hg.ginv.oti with
      | inl h1 => rw [ho] at h1; cases h1
      | inr h1 => rw [ho] at h1; cases h1; rfl
    subst hoS
    have htl : st.tl = some Z.S.T.length := by
      have h1 := hg.tinv.otitl (by simp [ho])
      cases hg.ginv.tl with
      | inl h2 => simp [h2] at h1
      | inr h2 => exact h2
    have hq := hsim.quad (by simp [ho])
    simp only [fo.oti]
    rw [if_neg (by simp [htl, fo.gen.2.1])]
    rw [fo.gen.2.1, hZ.laws.quad]
    simp only [liftRs]
    simp [hq]

theorem attach_prefix (Z : Setting) (hZ : Z.OK) (st : St) (id : Nat) (f : FileEntry) (rx : Session.ORx) (hg : Good Z st)
    (hrec : st.state = .receiving) (hsim : SimCore Z st rx) (hatt : rx.attached = false) (fo : FileOK Z f) :
    ∃ s2 : St, attachFdt Z.P st id (some f) = attachTail Z.P s2 ∧ Good Z s2 ∧ s2.state = .receiving ∧
      SimB Z s2 { rx with attached := true, otiKnown := true } ∧ s2.cache = st.cache ∧ s2.cacheSize = st.cacheSize ∧
      (∃ m, s2.out = .open true :: .new m .store :: st.out) ∧ s2.writer = some .opened ∧ s2.oti.isSome = true ∧
      (Z.S.n = 0 → s2.blocks = [] ∧ s2.blocksOffset = 0 ∧ s2.bw = none) ∧ s2.blocksOffset = 0 ∧
      (st.cache ≠ [] → Z.S.n ≠ 0 → Head s2) := by
  have hfd : st.fdtId = none := by
    cases hf : st.fdtId with
    | none => rfl
    | some i => have := hsim.att; rw [hatt, hf] at this; cases this
  have hwn : st.writer = none := by
    cases hw : st.writer with
    | none => rfl
    | some w => exact absurd hfd (hg.inv.fdt (by simp [hw]))
  have hbw : st.bw = none := hg.tinv.wbw hwn
  have hftl : f.tl = Z.S.T.length := fo.gen.2.1
  have hfc : f.cenc = .null := fo.gen.2.2
  have hcenc : (if st.cenc.isNone then some f.cenc else st.cenc) = some Cenc.null := by
    cases hg.ginv.cenc with
    | inl h => simp [h, hfc]
    | inr h => simp [h]
  -- the state after the metadata
  obtain ⟨s0, e0, hT0⟩ := tinv_attachMeta hg.tinv hfd id f fo.wf
  have hi0 := inv_attachMeta _ _ _ hg.inv e0
  have hj0 := jinv_attachMeta _ _ _ hwn hg.jinv e0
  have hg0 := ginv_attachMeta _ _ _ hwn hg.ginv fo.gen e0
  have hs0 : s0 = { st with cenc := some .null, oti := some Z.S.o, tl := some Z.S.T.length, md5 := none, fdtId := some id,
                            cl := f.cl, noCache := some f.noCache } := by
    unfold attachMeta at e0
    dsimp only at e0
    rw [hcenc] at e0
    cases ho : st.oti with
    | none =>
      have htl : st.tl = none := by
        cases ht : st.tl with
        | none => rfl
        | some l => have := hg.tinv.tlFdt ho (by simp [ht]); simp [hfd] at this
      simp [ho, htl, fo.oti, fo.md5, hftl] at e0
      exact e0.symm
    | some o =>
      have hoS : o = Z.S.o := by
        cases hg.ginv.oti with
        | inl h1 => rw [ho] at h1; cases h1
        | inr h1 => rw [ho] at h1; cases h1; rfl
      have htl : st.tl = some Z.S.T.length := by
        have h1 := hg.tinv.otitl (by simp [ho])
        cases hg.ginv.tl with
        | inl h2 => simp [h2] at h1
        | inr h2 => exact h2
      simp [ho, htl, fo.md5, hoS] at e0
      exact e0.symm
  -- the block table
  obtain ⟨s1, e1, hT1⟩ := tinv_initBP hT0
  have hi1 := (inv_initBlocksPartitioning _ hi0 e1).1
  have hj1 := hj0.1.sameJ (sameJ_initBlocksPartitioning _ e1)
  have hg1 := ginv_initBlocksPartitioning _ hZ.laws _ hg0 e1
  have hs1 : ∃ B : List Block, s1 = { s0 with aLarge := Z.S.aL, aSmall := Z.S.aS, nbALarge := Z.S.nL, nbBlocks := Z.S.n, blocks := B } ∧
      ((st.oti.isSome = true ∧ Z.S.n ≠ 0 ∧ B = st.blocks) ∨
       ((st.oti = none ∨ Z.S.n = 0) ∧ st.blocks = [] ∧ st.blocksOffset = 0 ∧ B = List.replicate (min Z.S.n MAX_PREALLOCATED_BLOCKS) {})) := by
    by_cases hk : st.oti.isSome = true ∧ Z.S.n ≠ 0
    · have hnb := hsim.tbl hk.1 hk.2
      have hq := hsim.quad hk.1
      have : initBlocksPartitioning s0 = .ok s0 := by
        unfold initBlocksPartitioning
        have : 0 < s0.nbBlock := by rw [hs0]; exact hnb
        rw [if_pos this]
      rw [this] at e1
      cases e1
      refine ⟨st.blocks, ?_, .inl ⟨hk.1, hk.2, rfl⟩⟩
      simp only [Prod.mk.injEq] at hq
      rw [hs0]
      cases st
      simp_all
    · have hb : st.blocks = [] ∧ st.blocksOffset = 0 := by
        by_cases ho : st.oti = none
        · exact ⟨(hg.tinv.noOti ho).1, (hg.tinv.noOti ho).2.1⟩
        · have hn : Z.S.n = 0 := by
            apply Classical.byContradiction
            intro hn
            exact hk ⟨by cases hx : st.oti <;> simp_all, hn⟩
          have := hg.ginv.room
          exact ⟨List.eq_nil_of_length_eq_zero (by omega), by omega⟩
      refine ⟨_, ?_, .inr ⟨?_, hb.1, hb.2, rfl⟩⟩
      · rw [hs0] at e1
        unfold initBlocksPartitioning at e1
        simp [St.nbBlock, hb.1, hb.2, hZ.laws.quad, liftRs] at e1
        rw [hs0, ← e1]
        simp [hb.2]
      · by_cases ho : st.oti = none
        · exact .inl ho
        · right
          apply Classical.byContradiction
          intro hn
          exact hk ⟨by cases hx : st.oti <;> simp_all, hn⟩
  obtain ⟨B, hs1, hB⟩ := hs1
  -- the writer
  have ew := writer_open Z hZ s1 id Z.S.T.length Z.S.o (by rw [hs1, hs0]; exact hwn) (by rw [hs1, hs0]; exact hbw)
    (by rw [hs1, hs0]) (by rw [hs1, hs0]) (by rw [hs1, hs0]) (by rw [hs1, hs0]) (by rw [hs1, hs0])
  obtain ⟨s2, hs2⟩ : ∃ s2 : St, s2 = openedSt s1 Z.S.T.length := ⟨_, rfl⟩
  rw [← hs2] at ew
  have hi2 := inv_initObjectWriter _ _ hi1 ew
  have hj2 := jinv_initObjectWriter _ _ hj1 ew
  have hg2 := ginv_initObjectWriter _ _ hZ.laws _ hj1 hg1 ew
  have hT2 : TInv s2 := by
    obtain ⟨x, ex, hx⟩ := tinv_initObjectWriter Z.P hT1
    rw [ew] at ex; cases ex; exact hx
  unfold openedSt at hs2
  refine ⟨s2, ?_, ⟨hi2, hj2, hg2, hT2⟩, by rw [hs2, hs1, hs0]; exact hrec, ?_, by rw [hs2, hs1, hs0], by rw [hs2, hs1, hs0],
    ⟨_, by rw [hs2]; rw [hs1, hs0]⟩, by rw [hs2], by rw [hs2, hs1, hs0]; rfl, ?_, by rw [hs2, hs1, hs0]; exact hg.inv.bwOff hbw, ?_⟩
  · -- the run
    unfold attachFdt
    rw [if_neg (by simp [hfd])]
    dsimp only
    rw [no_conflict Z hZ st rx f hg hsim.toSimB fo hwn]
    dsimp only
    unfold attachCore attachTail
    simp only [Bool.false_eq_true, if_false]
    rw [e0]; dsimp only
    rw [e1]; dsimp only
    rw [ew]
    rfl
  · -- the block-level relation
    have hblocks : s2.blocks = B := by rw [hs2, hs1]
    have hoff : s2.blocksOffset = st.blocksOffset := by rw [hs2, hs1, hs0]
    refine ⟨by rw [hs2, hs1, hs0]; rfl, by rw [hs2, hs1, hs0]; rfl, fun _ => by rw [hs2], by rw [hoff]; exact hsim.written,
      ?_, hsim.nodup, by rw [hs2, hs1, hs0]; exact hsim.maxSz, fun _ => by rw [hs2, hs1, hs0]; rfl, ?_, fun _ => by rw [hs2, hs1],
      by rw [hs2, hs1, hs0], ?_⟩
    · intro b e
      rw [hsim.got b e]
      unfold holds
      rw [hblocks, hoff]
      rcases hB with ⟨_, _, hBe⟩ | ⟨_, hb0, _, hBe⟩
      · rw [hBe]
      · rw [hBe, hb0]
        constructor
        · rintro ⟨_, blk, d, hb, _⟩; simp at hb
        · rintro ⟨_, blk, d, hb, hd, _⟩
          have := List.mem_of_getElem? hb
          rw [List.eq_of_mem_replicate this] at hd
          cases hd
    · intro _ hn
      unfold St.nbBlock
      rw [hblocks, hoff]
      rcases hB with ⟨ho, hn', hBe⟩ | ⟨_, _, ho0, hBe⟩
      · rw [hBe]; exact hsim.tbl ho hn'
      · rw [hBe]; simp [MAX_PREALLOCATED_BLOCKS]; omega
    · -- the flush invariants
      have ho0 : st.blocksOffset = 0 := hg.inv.bwOff hbw
      have hcl2 : s2.cl = f.cl := by rw [hs2, hs1, hs0]
      refine ⟨?_, ?_, by rw [hcl2]; exact fo.cl, ?_⟩
      rotate_right
      · rw [hblocks]
        rcases hB with ⟨_, _, hBe⟩ | ⟨_, _, _, hBe⟩
        · rw [hBe]; exact hsim.f.len
        · rw [hBe]; have := Nat.min_le_right Z.S.n MAX_PREALLOCATED_BLOCKS; simp; omega
      · intro i b hib
        rw [hoff]
        rcases hB with ⟨_, _, hBe⟩ | ⟨_, _, _, hBe⟩
        · rw [hblocks, hBe] at hib; exact hsim.f.blk i b hib
        · have := (simF_fresh Z hZ.decNil { s2 with bw := none } (min Z.S.n MAX_PREALLOCATED_BLOCKS) (Nat.min_le_left _ _)
            (by have := Nat.min_le_right Z.S.n MAX_PREALLOCATED_BLOCKS; omega)
            (by show s2.blocks = _; rw [hblocks, hBe]) (by show s2.blocksOffset = 0; rw [hoff, ho0]) rfl
            (by show s2.cl = none ∨ _; rw [hcl2]; exact fo.cl)).blk i b hib
          simpa [hoff] using this
      · intro w' hw'
        have hbw2 : s2.bw = if Z.S.T.length ≠ 0 then some (BW.new Z.S.T.length s1.cl .null s1.md5Check) else none := by rw [hs2]
        rw [hbw2] at hw'
        by_cases hT : Z.S.T.length = 0
        · simp [hT] at hw'
        · simp only [ne_eq, hT, not_false_eq_true, if_true] at hw'
          cases hw'
          have hcl1 : s1.cl = s2.cl := by rw [hs2]
          exact ⟨by rw [hoff, ho0]; rfl, by simp [BW.new, hZ.laws.pre0], by simpa [BW.new] using hT, rfl, by rw [← hcl1]; rfl,
            by simp [BW.new, hZ.laws.pre0], rfl, rfl⟩
  · intro hn
    have hT : Z.S.T.length = 0 := hZ.empty hn
    rcases hB with ⟨_, hn', _⟩ | ⟨_, _, ho0, hBe⟩
    · exact absurd hn hn'
    · refine ⟨by rw [hs2, hs1, hBe, hn]; rfl, by rw [hs2, hs1, hs0]; exact ho0, by rw [hs2]; simp [hT]⟩
  · -- a non-empty cache means the OTI was unknown: the table is fresh
    intro hc hn _ blk hb
    rcases hB with ⟨ho, hn', _⟩ | ⟨_, _, _, hBe⟩
    · exact absurd (hsim.settled ho hn') hc
    · have hblocks : s2.blocks = B := by rw [hs2, hs1]
      rw [hblocks, hBe] at hb
      have := List.mem_of_getElem? hb
      rw [List.eq_of_mem_replicate this]

/-! ### the LIFO replay of the packet cache  ~  `Session.replay` -/

theorem SimB.cacheIrrel {Z : Setting} {st : St} {rx : Session.ORx} (h : SimB Z st rx) (c : List Pkt) (d : List Session.Sym) :
    SimB Z { st with cache := c } { rx with cache := d } :=
  ⟨h.oti, h.att, h.wr, h.written, h.got, h.nodup, h.maxSz, h.attOti, h.tbl, h.quad, h.md5, h.f.of_eq rfl rfl rfl rfl⟩

theorem good_cache {Z : Setting} {st : St} (hg : Good Z st) (hrec : st.state = .receiving) (c : List Pkt)
    (hc : ∀ p ∈ c, p ∈ st.cache) : Good Z { st with cache := c } := by
  have hl := hg.inv.live_of_receiving hrec
  refine ⟨⟨hg.inv.noIdle, hg.inv.ps, ?_, hg.inv.bwOff, hg.inv.fdt⟩, ?_, ?_, ?_⟩
  · intro hw
    have := (hg.inv.term hw).2
    exact absurd hrec this
  · exact hg.jinv.sameJ (by constructor <;> rfl)
  · exact ⟨⟨hg.ginv.oti, hg.ginv.tl, hg.ginv.cenc, hg.ginv.part, hg.ginv.room, fun p hp => hg.ginv.cacheGen p (hc p hp)⟩,
      hg.ginv.blocks, hg.ginv.opened, hg.ginv.closed⟩
  · have hcnt : CountOK st := hg.tinv.cnt.resolve_right (fun d => d.2.1 hrec)
    exact hg.tinv.of_eq rfl rfl rfl rfl rfl rfl rfl rfl rfl rfl rfl rfl (.inl ⟨hcnt.sum, hcnt.cnt, hcnt.le⟩)

theorem cacheLoop_nil (P : Params) (fuel : Nat) (st : St) (h : st.cache = []) : cacheLoop P fuel st = .ok st := by
  cases fuel with
  | zero => rfl
  | succ n => unfold cacheLoop; rw [h]

theorem replay_sim (Z : Setting) (hZ : Z.OK) (H : Steps Z) (hn : Z.S.n ≠ 0) :
    ∀ (fuel : Nat) (st : St) (rx : Session.ORx) (os : Session.OState) (st' : St),
      st.cache.length ≤ fuel → Good Z st → st.state = .receiving → st.oti.isSome = true →
      RelB Z st os → os.obj = some rx → SimB Z st rx → (st.cache ≠ [] → Head st) →
      st.cache.map (symOf Z.S.o) = rx.cache.map some → (∀ p ∈ st.cache, ∃ s, GenEv Z p s) →
      cacheLoop Z.P fuel st = .ok st' →
      RelB Z st' (Session.finish Z.oc os (Session.replay Z.dec Z.rc Z.oc rx.cache rx)) ∧ st'.cache = [] ∧
      (st'.state ≠ .receiving → st'.blocks = []) ∧ (st = st' ∨ (st'.state = .receiving → Head st')) := by
  intro fuel
  induction fuel with
  | zero =>
    intro st rx os st' hlen hg hrec hoti hr hobj hsim hhd hmap hgen h
    have hc : st.cache = [] := List.eq_nil_of_length_eq_zero (by omega)
    have hrc : rx.cache = [] := by rw [hc] at hmap; simpa using hmap.symm
    simp [cacheLoop] at h
    subst h
    rw [hrc]
    refine ⟨⟨fun _ => ⟨{ rx with cache := [] }, by simp [Session.replay, Session.finish], ?_⟩, fun hh => absurd hrec hh, ?_, ?_, ?_, ?_⟩, hc, fun hh => absurd hrec hh, .inl rfl⟩
    · have := hsim.cacheIrrel st.cache []
      simpa using this
    all_goals simp [Session.replay, Session.finish, hr.opens, hr.completes, hr.errors, hr.interrupts]
  | succ n ih =>
    intro st rx os st' hlen hg hrec hoti hr hobj hsim hhd hmap hgen h
    cases hc : st.cache with
    | nil =>
      have hrc : rx.cache = [] := by rw [hc] at hmap; simpa using hmap.symm
      rw [cacheLoop_nil _ _ _ hc] at h
      cases h
      rw [hrc]
      refine ⟨⟨fun _ => ⟨{ rx with cache := [] }, by simp [Session.replay, Session.finish], ?_⟩, fun hh => absurd hrec hh, ?_, ?_, ?_, ?_⟩, hc, fun hh => absurd hrec hh, .inl rfl⟩
      · have := hsim.cacheIrrel st.cache []
        simpa using this
      all_goals simp [Session.replay, Session.finish, hr.opens, hr.completes, hr.errors, hr.interrupts]
    | cons p rest =>
      -- the Session side has the same stack
      cases hrc : rx.cache with
      | nil => rw [hc, hrc] at hmap; simp at hmap
      | cons s rs =>
        rw [hc, hrc] at hmap
        simp only [List.map_cons, List.cons.injEq] at hmap
        obtain ⟨hps, hmap'⟩ := hmap
        obtain ⟨s', g⟩ := hgen p (by rw [hc]; exact List.mem_cons_self ..)
        have : s' = s := by have := g.sym; rw [hps] at this; cases this; rfl
        subst this
        -- one replayed packet
        have hg0 : Good Z { st with cache := rest } := good_cache hg hrec rest (fun q hq => by rw [hc]; exact List.mem_cons_of_mem _ hq)
        have hsim0 : SimB Z { st with cache := rest } { rx with cache := rs } := hsim.cacheIrrel rest rs
        have hr0 : RelB Z { st with cache := rest } { os with obj := some { rx with cache := rs } } :=
          ⟨fun _ => ⟨_, rfl, hsim0⟩, fun hh => absurd hrec hh, hr.opens, hr.completes, hr.errors, hr.interrupts⟩
        unfold cacheLoop at h
        rw [hc] at h
        dsimp only at h
        have hS : Session.replay Z.dec Z.rc Z.oc (s' :: rs) rx =
            (if (Session.pushSym Z.dec Z.rc Z.oc { rx with cache := rs } s').term == .receiving
             then Session.replay Z.dec Z.rc Z.oc rs (Session.pushSym Z.dec Z.rc Z.oc { rx with cache := rs } s').rx
             else Session.pushSym Z.dec Z.rc Z.oc { rx with cache := rs } s') := by
          simp [Session.replay]
        rw [hS]
        split at h
        · cases h
        · -- Err: the object errors, the replay stops
          rename_i s1 heq
          cases h
          have hhd0 : Head { st with cache := rest } := hhd (by rw [hc]; simp)
          have h2 := block_stepB Z H _ _ false _ _ p s' hg0 hr0 hrec rfl hsim0 hhd0 g hoti hn heq
          simp only [Bool.false_eq_true, if_false] at h2
          rw [finish_obj_irrel] at h2
          have hterm := finish_obj_none (h2.rel.dead (by simp))
          have : ((Session.pushSym Z.dec Z.rc Z.oc { rx with cache := rs } s').term == Session.Term.receiving) = false := by
            cases ht : (Session.pushSym Z.dec Z.rc Z.oc { rx with cache := rs } s').term <;> simp_all
          rw [this]
          exact ⟨h2.rel, by simp, fun _ => by simp, .inr (fun hh => by simp at hh)⟩
        · rename_i s1 heq
          have hhd0 : Head { st with cache := rest } := hhd (by rw [hc]; simp)
          have h2 := block_stepB Z H _ _ true _ _ p s' hg0 hr0 hrec rfl hsim0 hhd0 g hoti hn heq
          simp only [if_true] at h2
          rw [finish_obj_irrel] at h2
          by_cases hst : s1.state = .receiving
          · -- still receiving: go on with the rest of the stack
            obtain ⟨rx1, hobj1, hsim1⟩ := h2.rel.live hst
            obtain ⟨hterm, hrx1⟩ := finish_obj_some hobj1
            have hk := (h2.keep hst).1
            have hl0 : Live { st with cache := rest } := hg0.inv.live_of_receiving hrec
            have hcnt0 : CountOK { st with cache := rest } := hg0.tinv.cnt.resolve_right (fun d => d.2.1 hrec)
            obtain ⟨D⟩ := hZ.dz
            obtain ⟨x, bx, ex, hTx, hox⟩ := tinv_pushToBlock Z.P D hg0.tinv hcnt0 (by cases hx : st.oti <;> simp_all) p
            rw [heq] at ex; cases ex
            have hg1 : Good Z s1 :=
              ⟨(inv_pushToBlock _ _ _ hg0.inv hl0 heq).1, (jinv_pushToBlock _ _ _ hg0.inv hl0 hg0.jinv heq).1 rfl,
               (ginv_pushToBlock _ _ hZ.laws _ _ hg0.inv hl0 hg0.jinv hg0.ginv g.gen heq).1 rfl, hTx⟩
            have hcache1 : rx1.cache = rs := by rw [hrx1, pushSym_cache]
            simp only [hterm, beq_self_eq_true, if_true]
            have hfin : Session.finish Z.oc os (Session.pushSym Z.dec Z.rc Z.oc { rx with cache := rs } s') = { os with obj := some rx1 } := by
              unfold Session.finish; simp [hterm, hrx1]
            have h2r := h2.rel
            rw [hfin] at h2r
            have := ih s1 rx1 { os with obj := some rx1 } st' (by rw [hk]; simp; rw [hc] at hlen; simp at hlen; omega) hg1 hst
              (by rw [hox]; exact hoti) h2r rfl hsim1 (fun _ => h2.head hst) (by rw [hk, hcache1]; exact hmap')
              (fun q hq => hgen q (by rw [hc]; rw [hk] at hq; exact List.mem_cons_of_mem _ hq)) h
            rw [finish_obj_irrel, hcache1] at this
            rw [← hrx1]
            refine ⟨this.1, this.2.1, this.2.2.1, .inr ?_⟩
            rcases this.2.2.2 with he | he
            · intro _; rw [← he]; exact h2.head hst
            · exact he
          · -- the object ended during the replay: the loop finds an empty cache
            have hclear := (h2.clear hst).1
            rw [cacheLoop_nil _ _ _ hclear] at h
            cases h
            have hterm := finish_obj_none (h2.rel.dead hst)
            have : ((Session.pushSym Z.dec Z.rc Z.oc { rx with cache := rs } s').term == Session.Term.receiving) = false := by
              cases ht : (Session.pushSym Z.dec Z.rc Z.oc { rx with cache := rs } s').term <;> simp_all
            rw [this]
            exact ⟨h2.rel, hclear, fun _ => (h2.clear hst).2, .inr (fun hh => absurd hh hst)⟩

/-! ### `attach_fdt`  ~  `Session.attach` + `finish` - DISCHARGED from the block path (replay) and the flush at attach -/

theorem replay_recv_cache (dec : (k p : Nat) → List Nat → Bool) (rc : Session.RxCfg) (o : Session.ObjCfg) :
    ∀ (l : List Session.Sym) (rx : Session.ORx), (Session.replay dec rc o l rx).term = .receiving →
      (Session.replay dec rc o l rx).rx.cache = [] := by
  intro l
  induction l with
  | nil => intro rx _; rfl
  | cons s rest ih =>
    intro rx h
    simp only [Session.replay] at h ⊢
    split at h
    · rename_i ht; simp only [ht, if_true]; exact ih _ h
    · rename_i ht
      exfalso
      cases hx : (Session.pushSym dec rc o { rx with cache := rest } s).term <;> simp_all

theorem SimB.sizeIrrel {Z : Setting} {st : St} {rx : Session.ORx} (h : SimB Z st rx) (n : Nat) :
    SimB Z { st with cacheSize := n } rx :=
  ⟨h.oti, h.att, h.wr, h.written, h.got, h.nodup, h.maxSz, h.attOti, h.tbl, h.quad, h.md5, h.f.of_eq rfl rfl rfl rfl⟩

/-- `write_blocks` on an object whose deque is empty does nothing -/
theorem writeBlocks_noblocks (P : Params) (st : St) (h : st.blocks = []) : writeBlocks P st 0 = .ok (st, true) := by
  unfold writeBlocks
  split
  · rfl
  · split
    · rfl
    · split
      · rfl
      · unfold writeLoop
        simp [h]

/-- `push_from_cache` with an empty cache: at most the size counter is reset -/
theorem pushFromCache_empty (P : Params) (st : St) (h : st.cache = []) :
    pushFromCache P st = .ok st ∨ pushFromCache P st = .ok { st with cacheSize := 0 } := by
  unfold pushFromCache
  split
  · exact .inl rfl
  · right
    have : cacheLoop P st.cache.length st = .ok st := cacheLoop_nil _ _ _ h
    rw [this]

theorem cnt_open_new (f : WCall → Bool) (m : Meta) (out : List WCall) :
    cnt f (.open true :: .new m .store :: out) = (if f (.open true) then 1 else 0) + ((if f (.new m .store) then 1 else 0) + cnt f out) := by
  rw [cnt_cons, cnt_cons]

theorem attach_live (Z : Setting) (hZ : Z.OK) (H : Steps Z) (st st' : St) (b : Bool) (os : Session.OState) (rx : Session.ORx)
    (id : Nat) (f : FileEntry) (hg : Good Z st) (hr : Rel Z st os) (hrec : st.state = .receiving) (hobj : os.obj = some rx)
    (hsim : SimCore Z st rx) (hatt : rx.attached = false) (fo : FileOK Z f)
    (h : attachFdt Z.P st id (some f) = .ok (st', b)) :
    Rel Z st' (Session.finish Z.oc { os with opens := os.opens + 1 } (Session.attach Z.dec Z.rc Z.oc rx)) := by
  obtain ⟨s2, hrun, hg2, hst2, hsim2, hc2, hcs2, ⟨m, hout2⟩, hw2, hoti2, hempty, hoff2, hhead2⟩ :=
    attach_prefix Z hZ st id f rx hg hrec hsim hatt fo
  rw [hrun] at h
  -- the relation at `s2`: one `open` more
  have hr2 : RelB Z s2 { os with opens := os.opens + 1, obj := some { rx with attached := true, otiKnown := true } } := by
    refine ⟨fun _ => ⟨_, rfl, hsim2⟩, fun hh => absurd hst2 hh, ?_, ?_, ?_, ?_⟩
    · rw [hout2, cnt_open_new]; simp [isOpenOk, hr.opens]; omega
    · rw [hout2, cnt_open_new]; simp [isComplete, hr.completes]
    · rw [hout2, cnt_open_new]; simp [isError, hr.errors]
    · rw [hout2, cnt_open_new]; simp [isInterrupted, hr.interrupts]
  by_cases hn : Z.S.n = 0
  · -- the empty object: no replay, nothing to flush
    obtain ⟨hb, ho, hbw⟩ := hempty hn
    have hks : Z.oc.ks.isEmpty = true := by simp [Array.isEmpty, hZ.nblocks, hn]
    have e1 : pushFromCache Z.P s2 = .ok s2 := by unfold pushFromCache; simp [St.nbBlock, hb, ho]
    unfold attachTail at h
    rw [e1] at h; dsimp only at h
    rw [writeBlocks_noblocks _ _ hb] at h; dsimp only at h
    simp only [if_true] at h
    rw [e1] at h; dsimp only at h
    cases h
    have hS : Session.attach Z.dec Z.rc Z.oc rx = { rx := { rx with attached := true, otiKnown := true }, term := .receiving } := by
      simp [Session.attach, Session.attach.settle', hks]
    rw [hS]
    refine ⟨fun _ => ⟨_, by simp [Session.finish], hsim2, by rw [hc2]; exact hsim.cache,
      fun q hq => hsim.cacheGen q (by rw [← hc2]; exact hq), by rw [hcs2]; exact hsim.cacheSize,
      fun hh => by rw [hc2]; exact hsim.inband hh, fun _ hh => absurd hn hh,
      fun _ blk hb' => by rw [hb] at hb'; simp at hb'⟩, fun hh => absurd hst2 hh, ?_, ?_, ?_, ?_⟩
    · simpa [Session.finish] using hr2.opens
    · simpa [Session.finish] using hr2.completes
    · simpa [Session.finish] using hr2.errors
    · simpa [Session.finish] using hr2.interrupts
  · -- a non-empty object: replay, flush
    have hks : Z.oc.ks.isEmpty = false := by
      simp [Array.isEmpty, hZ.nblocks]; omega
    have hnb2 := hsim2.tbl hoti2 hn
    obtain ⟨D⟩ := hZ.dz
    -- the replay
    obtain ⟨s3, e3, hT3⟩ := tinv_cacheLoop Z.P D s2.cache.length s2 hg2.tinv (by cases hx : s2.oti <;> simp_all)
    have hi3 := inv_cacheLoop _ _ _ hg2.inv e3
    have hj3 := jinv_cacheLoop _ _ _ hg2.inv hg2.jinv e3
    have hgg3 := ginv_cacheLoop _ _ hZ.laws _ _ hg2.inv hg2.jinv hg2.ginv e3
    obtain ⟨hr3, hc3, hb3, hh3⟩ := replay_sim Z hZ H hn s2.cache.length s2 _ _ s3 (Nat.le_refl _) hg2 hst2 hoti2 hr2 rfl hsim2
      (fun hcne => hhead2 (by rw [← hc2]; exact hcne) hn)
      (by rw [hc2]; exact hsim.cache) (fun q hq => hsim.cacheGen q (by rw [← hc2]; exact hq)) e3
    have e3' : pushFromCache Z.P s2 = .ok { s3 with cacheSize := 0 } := by
      unfold pushFromCache
      rw [if_neg (by omega), e3]
    have hrxc : ({ rx with attached := true, otiKnown := true } : Session.ORx).cache = rx.cache := rfl
    rw [hrxc] at hr3
    rw [finish_obj_irrel'] at hr3
    -- the Session side
    have hS : Session.attach Z.dec Z.rc Z.oc rx =
        (if (Session.replay Z.dec Z.rc Z.oc rx.cache { rx with attached := true, otiKnown := true }).term == .receiving
         then Session.settle Z.dec Z.oc (Session.replay Z.dec Z.rc Z.oc rx.cache { rx with attached := true, otiKnown := true }).rx
         else Session.replay Z.dec Z.rc Z.oc rx.cache { rx with attached := true, otiKnown := true }) := by
      simp [Session.attach, Session.attach.settle', hks]
    rw [hS]
    unfold attachTail at h
    rw [e3'] at h; dsimp only at h
    have hg3' : Good Z { s3 with cacheSize := 0 } :=
      ⟨inv_pushFromCache _ _ hg2.inv e3', jinv_pushFromCache _ _ hg2.inv hg2.jinv e3',
       ginv_pushFromCache _ _ hZ.laws _ hg2.inv hg2.jinv hg2.ginv e3',
       by obtain ⟨x, ex, hx⟩ := tinv_pushFromCache Z.P D hg2.tinv; rw [e3'] at ex; cases ex; exact hx⟩
    by_cases hst3 : s3.state = .receiving
    · -- still receiving after the replay: flush
      obtain ⟨rx3, hobj3, hsim3⟩ := hr3.live hst3
      obtain ⟨hterm, hrx3⟩ := finish_obj_some hobj3
      simp only [hterm, beq_self_eq_true, if_true]
      have hfin3 : Session.finish Z.oc { os with opens := os.opens + 1 }
          (Session.replay Z.dec Z.rc Z.oc rx.cache { rx with attached := true, otiKnown := true }) =
          { os with opens := os.opens + 1, obj := some rx3 } := by
        unfold Session.finish; simp [hterm, hrx3]
      rw [hfin3] at hr3
      have hrx3c : rx3.cache = [] := by rw [hrx3]; exact replay_recv_cache _ _ _ _ _ hterm
      have hatt3 : rx3.attached = true := by rw [hrx3, replay_attached]
      split at h
      · cases h
      · rename_i s4 ok heq4
        have h4 := H.flush0_step _ s4 ok _ rx3 hg3' ⟨fun _ => ⟨rx3, rfl, hsim3.sizeIrrel 0⟩, fun hh => absurd hst3 hh,
          hr3.opens, hr3.completes, hr3.errors, hr3.interrupts⟩ hst3 rfl (hsim3.sizeIrrel 0) hatt3 hn hc3
          (by
            rcases hh3 with he | he
            · left; show s3.blocksOffset = 0; rw [← he]; exact hoff2
            · right; exact he hst3) heq4
        rw [finish_obj_irrel'] at h4
        rw [← hrx3]
        -- the second `push_from_cache` finds an empty cache
        have hcf : (if ok = true then s4 else error s4 false).cache = [] := by
          by_cases hlive : (if ok = true then s4 else error s4 false).state = .receiving
          · rw [(h4.keep hlive).1]; exact hc3
          · exact (h4.clear hlive).1
        rcases pushFromCache_empty Z.P _ hcf with e5 | e5
        · rw [e5] at h; dsimp only at h; cases h
          refine ⟨fun hs => ?_, h4.rel.dead, h4.rel.opens, h4.rel.completes, h4.rel.errors, h4.rel.interrupts⟩
          obtain ⟨rx5, hobj5, hsim5⟩ := h4.rel.live hs
          obtain ⟨_, hrx5⟩ := finish_obj_some hobj5
          have hrx5c : rx5.cache = [] := by rw [hrx5, settle_cache, hrx3c]
          exact ⟨rx5, hobj5, hsim5, by rw [hcf, hrx5c]; rfl, (fun q hq => by rw [hcf] at hq; cases hq),
            by rw [(h4.keep hs).2, hrx5c]; rfl, fun _ => hcf, fun _ _ => hcf, h4.head hs⟩
        · rw [e5] at h; dsimp only at h; cases h
          refine ⟨fun hs => ?_, h4.rel.dead, h4.rel.opens, h4.rel.completes, h4.rel.errors, h4.rel.interrupts⟩
          obtain ⟨rx5, hobj5, hsim5⟩ := h4.rel.live hs
          obtain ⟨_, hrx5⟩ := finish_obj_some hobj5
          have hrx5c : rx5.cache = [] := by rw [hrx5, settle_cache, hrx3c]
          exact ⟨rx5, hobj5, hsim5.sizeIrrel 0, by show _ = _; rw [hrx5c]; simpa using hcf, (fun q hq => by
              have : q ∈ (if ok = true then s4 else error s4 false).cache := hq
              rw [hcf] at this; cases this),
            by rw [hrx5c]; rfl, fun _ => hcf, fun _ _ => hcf, h4.head hs⟩
    · -- the object ended during the replay: nothing left to flush
      have hterm := finish_obj_none (hr3.dead hst3)
      have : ((Session.replay Z.dec Z.rc Z.oc rx.cache { rx with attached := true, otiKnown := true }).term == Session.Term.receiving) = false := by
        cases ht : (Session.replay Z.dec Z.rc Z.oc rx.cache { rx with attached := true, otiKnown := true }).term <;> simp_all
      rw [this]
      simp only [Bool.false_eq_true, if_false]
      rw [writeBlocks_noblocks _ _ (by exact hb3 hst3)] at h
      dsimp only at h
      simp only [if_true] at h
      have hdead : ∀ x : St, x.state = s3.state → x.out = s3.out →
          Rel Z x (Session.finish Z.oc { os with opens := os.opens + 1 } (Session.replay Z.dec Z.rc Z.oc rx.cache { rx with attached := true, otiKnown := true })) := by
        intro x hx hxo
        exact ⟨fun hs => absurd (hx ▸ hs) hst3, fun _ => hr3.dead hst3, by rw [hxo]; exact hr3.opens, by rw [hxo]; exact hr3.completes,
          by rw [hxo]; exact hr3.errors, by rw [hxo]; exact hr3.interrupts⟩
      rcases pushFromCache_empty Z.P { s3 with cacheSize := 0 } hc3 with e5 | e5
      · rw [e5] at h; dsimp only at h; cases h; exact hdead _ rfl rfl
      · rw [e5] at h; dsimp only at h; cases h; exact hdead _ rfl rfl

/-- `push` on a live object: the cache lemma, the two prefix lemmas, and the remaining step hypotheses -/
theorem push_live (Z : Setting) (hZ : Z.OK) (H : Steps Z) (st st' : St) (os : Session.OState) (rx : Session.ORx) (p : Pkt)
    (s : Session.Sym) (hg : Good Z st) (hr : Rel Z st os) (hrec : st.state = .receiving) (hobj : os.obj = some rx)
    (hsim : SimCore Z st rx) (g : GenEv Z p s) (h : push Z.P st p = .ok st') :
    Rel Z st' (Session.pushObj Z.dec Z.rc Z.oc os rx s) := by
  cases ho : st.oti with
  | some o =>
    have hoti : st.oti.isSome = true := by simp [ho]
    by_cases hn : Z.S.n = 0
    · exact push_empty Z hZ st st' os rx p s hg hr hrec hsim g (.inl hoti) hn h
    · exact push_known_nonempty Z H st st' os rx p s hg hr hrec hobj hsim g hoti hn h
  | none =>
    cases hi : Z.oc.inbandFti with
    | true =>
      by_cases hn : Z.S.n = 0
      · exact push_empty Z hZ st st' os rx p s hg hr hrec hsim g (.inr hi) hn h
      · exact push_first_inband Z hZ H st st' os rx p s hg hr hrec hobj hsim g ho hi hn h
    | false => exact push_unknown Z hZ st st' os rx p s hg hr hrec hsim g ho hi h

/-- **MAIN THEOREM (composition)**: from the step lemmas, the simulation over every genuine history of one object: the ObjRecv run
    returns, and its final state is related to the final state of the Session model - live object simulated, dead object gone,
    writer calls = counters. -/
theorem runL_rel (Z : Setting) (hZ : Z.OK) (H : Steps Z) :
    ∀ (ops : List Op) (evs : List LEv), Hist Z ops evs →
    ∀ (st : St) (os : Session.OState), Good Z st → Rel Z st os →
    ∃ st', runL Z.P st ops = .ok st' ∧ Good Z st' ∧ Rel Z st' (objRun Z os evs) := by
  intro ops evs hrel
  induction hrel with
  | nil => intro st os hg hr; exact ⟨st, rfl, hg, hr⟩
  | @cons op ev ops evs hoe _ ih =>
    intro st os hg hr
    unfold runL stepL
    by_cases hrec : st.state = .receiving
    · rw [if_neg (by simp [hrec])]
      obtain ⟨st1, h1⟩ := step_ok Z hZ hg hoe.wfOp
      rw [h1]
      dsimp only
      have hg1 := good_step Z hZ hg hoe.genOp hoe.wfOp h1
      obtain ⟨rx, hobj, hsim⟩ := hr.live hrec
      refine ih st1 _ hg1 ?_
      cases hoe with
      | @pkt p s g =>
        have : objStep Z os (.pkt s) = Session.pushObj Z.dec Z.rc Z.oc os rx s := by simp [objStep, hobj]
        rw [this]
        exact push_live Z hZ H st st1 os rx p s hg hr hrec hobj hsim g (by simpa [step] using h1)
      | @att id f fo =>
        simp only [step] at h1
        split at h1
        · cases h1
        · rename_i s2 b heq
          cases h1
          by_cases ha : rx.attached = true
          · -- already attached: `attach_fdt` returns at once
            have hf : st.fdtId.isSome = true := by rw [← hsim.att]; exact ha
            have : attachFdt Z.P st id (some f) = .ok (st, false) := by unfold attachFdt; simp [hf]
            rw [this] at heq; cases heq
            have : objStep Z os .att = os := by simp [objStep, hobj, ha]
            rw [this]; exact hr
          · have ha' : rx.attached = false := by simpa using ha
            have : objStep Z os .att =
                Session.finish Z.oc { os with opens := os.opens + 1 } (Session.attach Z.dec Z.rc Z.oc rx) := by
              simp [objStep, hobj, ha']
            rw [this]
            exact attach_live Z hZ H st _ b os rx id f hg hr hrec hobj hsim ha' fo heq
    · rw [if_pos hrec]
      dsimp only
      refine ih st _ hg ?_
      have hobj := hr.dead hrec
      have : objStep Z os ev = os := by cases ev <;> simp [objStep, hobj]
      rw [this]; exact hr

/-- the initial states are related -/
theorem rel_new (Z : Setting) (toi : Nat) :
    Rel Z (St.new toi Z.maxSize) { obj := some Session.rx0 } := by
  refine ⟨fun _ => ⟨Session.rx0, rfl, ?_⟩, fun h => absurd rfl h, rfl, rfl, rfl, rfl⟩
  refine ⟨⟨rfl, rfl, fun h => by simp [St.new] at h, rfl, ?_, List.nodup_nil, rfl, fun h => by simp [St.new] at h,
    fun h => by simp [St.new] at h, fun h => by simp [St.new] at h, rfl,
    ⟨fun i b h => by simp [St.new] at h, fun w h => by simp [St.new] at h, .inl rfl, by simp [St.new]⟩⟩, rfl, fun q hq => by simp [St.new] at hq, rfl, fun _ => rfl, fun _ _ => rfl,
    fun h => by simp [St.new] at h⟩
  intro b e
  simp [Session.rx0, holds, St.new]

/-- what `runL` executed is a prefix of the ops, executed by `run` -/
theorem runL_prefix (P : Params) : ∀ (ops : List Op) (st st' : St), runL P st ops = .ok st' →
    ∃ ops', ops' <+: ops ∧ run P st ops' = .ok st' := by
  intro ops
  induction ops with
  | nil => intro st st' h; simp [runL] at h; exact ⟨[], List.nil_prefix, by simp [run, h]⟩
  | cons op r ih =>
    intro st st' h
    unfold runL stepL at h
    by_cases hrec : st.state = .receiving
    · rw [if_neg (by simp [hrec])] at h
      split at h
      · cases h
      · rename_i s1 h1
        obtain ⟨ops', hp, hr⟩ := ih s1 st' h
        exact ⟨op :: ops', by simpa using hp, by simp [run, h1, hr]⟩
    · -- dead: nothing more is executed
      rw [if_pos hrec] at h
      dsimp only at h
      have : ∀ (l : List Op) (s : St), s.state ≠ .receiving → runL P s l = .ok s := by
        intro l
        induction l with
        | nil => intro s _; rfl
        | cons o t ih2 => intro s hs; unfold runL stepL; rw [if_pos hs]; exact ih2 s hs
      rw [this r st hrec] at h
      cases h
      exact ⟨[], List.nil_prefix, rfl⟩

theorem cnt_pos_not_noComplete : ∀ (out : List WCall), 0 < cnt isComplete out → ¬ noComplete out
  | [], h => by simp [cnt] at h
  | .complete :: _, _ => by simp [noComplete]
  | .new _ _ :: r, h => by
    simp only [noComplete]; exact cnt_pos_not_noComplete r (by simpa [cnt, isComplete, List.filter] using h)
  | .open _ :: r, h => by
    simp only [noComplete]; exact cnt_pos_not_noComplete r (by simpa [cnt, isComplete, List.filter] using h)
  | .write _ _ _ :: r, h => by
    simp only [noComplete]; exact cnt_pos_not_noComplete r (by simpa [cnt, isComplete, List.filter] using h)
  | .error :: r, h => by
    simp only [noComplete]; exact cnt_pos_not_noComplete r (by simpa [cnt, isComplete, List.filter] using h)
  | .interrupted :: r, h => by
    simp only [noComplete]; exact cnt_pos_not_noComplete r (by simpa [cnt, isComplete, List.filter] using h)

/-- **COROLLARY**: whenever the Session model reports `complete` for the object on a genuine history, the ObjRecv run returns, its
    writer was told `complete`, and the bytes the writer accepted are exactly the object's transfer bytes. -/
theorem complete_sound (Z : Setting) (hZ : Z.OK) (H : Steps Z) (toi : Nat) (ops : List Op) (evs : List LEv)
    (hh : Hist Z ops evs) (hc : 0 < (objRun Z { obj := some Session.rx0 } evs).completes) :
    ∃ st', runL Z.P (St.new toi Z.maxSize) ops = .ok st' ∧ ¬ noComplete st'.out ∧ st'.written = Z.S.T := by
  obtain ⟨st', h, hg, hr⟩ := runL_rel Z hZ H ops evs hh _ _ (good_new Z hZ toi) (rel_new Z toi)
  have hnc : ¬ noComplete st'.out := cnt_pos_not_noComplete _ (by rw [← hr.completes]; exact hc)
  refine ⟨st', h, hnc, ?_⟩
  cases hw : st'.writer with
  | none => exact absurd (hg.jinv.none_ hw).2 hnc
  | some ws =>
    cases ws with
    | idle => exact absurd hw hg.inv.noIdle
    | opened => exact absurd (hg.jinv.opened hw).nc hnc
    | error => exact absurd (hg.jinv.error hw) hnc
    | closed => exact hg.ginv.closed hw

/-- and conversely the counters ARE the writer calls: no `complete` reported by the Session model, none made by ObjRecv -/
theorem complete_complete (Z : Setting) (hZ : Z.OK) (H : Steps Z) (toi : Nat) (ops : List Op) (evs : List LEv)
    (hh : Hist Z ops evs) :
    ∃ st', runL Z.P (St.new toi Z.maxSize) ops = .ok st' ∧
      (objRun Z { obj := some Session.rx0 } evs).completes = cnt isComplete st'.out ∧
      (objRun Z { obj := some Session.rx0 } evs).errors = cnt isError st'.out ∧
      (objRun Z { obj := some Session.rx0 } evs).interrupts = cnt isInterrupted st'.out ∧
      (objRun Z { obj := some Session.rx0 } evs).opens = cnt isOpenOk st'.out := by
  obtain ⟨st', h, _, hr⟩ := runL_rel Z hZ H ops evs hh _ _ (good_new Z hZ toi) (rel_new Z toi)
  exact ⟨st', h, hr.completes, hr.errors, hr.interrupts, hr.opens⟩

/-! ### `objStep` is what `Session.stepObj` does for an existing object -/

theorem stepObj_pkt (Z : Setting) (os : Session.OState) (rx : Session.ORx) (s : Session.Sym)
    (hobj : os.obj = some rx) (hc : os.completed = false) :
    Session.stepObj Z.dec Z.rc Z.oc os (.pkt s) = objStep Z os (.pkt s) := by
  simp [Session.stepObj, Session.pushNew, objStep, hobj, hc]

theorem stepObj_fdt (Z : Setting) (os : Session.OState) (rx : Session.ORx) (hobj : os.obj = some rx) :
    Session.stepObj Z.dec Z.rc Z.oc os (.fdt true) =
      { objStep Z os .att with completed := (objStep Z os .att).completed && true, age := Session.ageStep (objStep Z os .att).age true } := by
  simp only [Session.stepObj, Session.fdtEv, objStep, hobj]
  by_cases ha : rx.attached = true <;> simp [ha]

theorem stepObj_fdt_other (Z : Setting) (os : Session.OState) :
    Session.stepObj Z.dec Z.rc Z.oc os (.fdt false) = { os with completed := false, age := Session.ageStep os.age false } := by
  simp only [Session.stepObj, Session.fdtEv]
  cases h : os.obj <;> simp [h]

end Flute.Link
