import FluteModel.Lemmas.SessionRun
/-
  The FDT layer: an FDT instance whose packets arrive with decodable symbols of every block
  completes (`Ev.fdt`), whatever else is received in between.  The FDT is itself an object coded
  with the session's default OTI, always carrying in-band FTI, never the close-object flag.
-/
namespace Flute.Lemmas.Session
open Flute.Session

variable (cF : Codec)

def toSym (p : Pkt) : Sym := { sbn := p.sbn, esi := p.esi, close := p.close }

/-- the symbols of FDT instance `id` among the packets `ps` -/
def fsyms (id : Nat) (ps : List Pkt) : List Sym :=
  (ps.filter (fun p => p.toi == 0 && p.fdtId == id)).map toSym

/-- the FDT receiver state after `ps` -/
def fdtState (dec : (k p : Nat) → List Nat → Bool) (rc : RxCfg) (s : SessCfg) : FdtRx → List Pkt → FdtRx
  | st, [] => st
  | st, p :: ps => if p.toi == 0 then fdtState dec rc s (stepFdt dec rc s st p).1 ps else fdtState dec rc s st ps

theorem eventsFor_append (dec : (k p : Nat) → List Nat → Bool) (rc : RxCfg) (s : SessCfg) (o : ObjCfg) :
    ∀ (a b : List Pkt) (st : FdtRx),
      eventsFor dec rc s o st (a ++ b) = eventsFor dec rc s o st a ++ eventsFor dec rc s o (fdtState dec rc s st a) b := by
  intro a
  induction a with
  | nil => intro b st; simp [eventsFor, fdtState]
  | cons p ps ih =>
    intro b st
    simp only [List.cons_append, eventsFor, fdtState]
    by_cases h0 : (p.toi == 0) = true
    · simp only [h0, ↓reduceIte]
      cases hd : (stepFdt dec rc s st p).2 with
      | none => simp only [ih]
      | some f => simp only [List.cons_append, ih]
    · simp only [h0, Bool.false_eq_true, ↓reduceIte]
      by_cases ht : (p.toi == o.toi) = true
      · simp only [ht, ↓reduceIte, List.cons_append, ih]
      · simp only [ht, Bool.false_eq_true, ↓reduceIte, ih]

/-- state of the reception of instance `f`: what it holds covers the symbols `P` received so far -/
def FInv (s : SessCfg) (f : FdtCfg) (P : List Sym) (st : FdtRx) : Prop :=
  (match st.receiving.find? (fun x => x.1 == f.id) with
   | some x => Cov cF (fdtObj s f) x.2 P ∧ AttInv cF (fdtObj s f) x.2 ∧ x.2.attached = true
   | none => P = []) ∧ ¬ f.id ∈ st.current

theorem size_pos_of_nonempty (a : Array Nat) (h : a.isEmpty = false) : 0 < a.size := by
  have : a.size ≠ 0 := by
    intro h0
    have := Array.isEmpty_iff_size_eq_zero.mpr h0
    rw [this] at h; exact absurd h (by simp)
  omega

theorem find_other {α : Type} (l : List (Nat × α)) (k id : Nat) (v : α) (h : k ≠ id) :
    ((k, v) :: l.filter (fun x => x.1 != k)).find? (fun x => x.1 == id) = l.find? (fun x => x.1 == id) ∧
    (l.filter (fun x => x.1 != k)).find? (fun x => x.1 == id) = l.find? (fun x => x.1 == id) := by
  have h2 : (l.filter (fun x => x.1 != k)).find? (fun x => x.1 == id) = l.find? (fun x => x.1 == id) := by
    induction l with
    | nil => rfl
    | cons x xs ih =>
      by_cases hx : x.1 = k
      · have hki : (k == id) = false := beq_false_of_ne h
        simp [hx, List.find?_cons, hki, ih]
      · by_cases hi : (x.1 == id) = true
        · simp [List.filter_cons, hx, List.find?_cons, hi]
        · simp [List.filter_cons, hx, List.find?_cons, hi, ih]
  refine ⟨?_, h2⟩
  have : ((k, v).1 == id) = false := beq_false_of_ne h
  rw [List.find?_cons_of_neg (by simp [this])]
  exact h2

/-- **the FDT layer is live**: feeding `ps`, either the completion of `f` is reported, or the
    reception of `f` still holds everything that arrived of it -/
theorem fdt_run (rc : RxCfg) (s : SessCfg) (o : ObjCfg) (f : FdtCfg)
    (hfind : s.fdts.find? (fun x => x.id == f.id) = some f)
    (hN : f.ks.isEmpty = false) (hlook : f.ks.size ≤ rc.maxLook)
    (hfresh : blockDone cF.canDecode f.ks s.fdtP [] 0 = false) :
    ∀ (ps : List Pkt) (st : FdtRx) (P : List Sym), FInv cF s f P st →
      (∀ p, p ∈ ps → p.toi = 0 → p.fdtId = f.id → Genuine (fdtObj s f) (toSym p) ∧ p.close = false) →
      Ev.fdt (f.files.contains o.toi) ∈ eventsFor cF.canDecode rc s o st ps ∨
        FInv cF s f ((fsyms f.id ps).reverse ++ P) (fdtState cF.canDecode rc s st ps) := by
  have hfit : Fits { rc with maxSize := 1024 * 1024, pktCap := none } (fdtObj s f) :=
    fits_of_noacct _ _ hlook rfl
  intro ps
  induction ps with
  | nil => intro st P h _; right; simpa [fsyms, fdtState] using h
  | cons p ps ih =>
    intro st P hinv hgen
    have hgen' : ∀ q, q ∈ ps → q.toi = 0 → q.fdtId = f.id → Genuine (fdtObj s f) (toSym q) ∧ q.close = false :=
      fun q hq => hgen q (List.mem_cons_of_mem _ hq)
    by_cases h0 : p.toi = 0
    · have h0' : (p.toi == 0) = true := by rw [h0]; rfl
      simp only [eventsFor, fdtState, h0', ↓reduceIte]
      by_cases hid : p.fdtId = f.id
      · -- a packet of `f`
        obtain ⟨hg, hnc⟩ := hgen p (List.mem_cons_self ..) h0 hid
        have hcur : (rc.receiveOnce && st.current.contains p.fdtId) = false := by
          have : st.current.contains p.fdtId = false := by
            rw [hid]; simpa using hinv.2
          rw [this]; simp
        have hfind' : s.fdts.find? (fun x => x.id == p.fdtId) = some f := by rw [hid]; exact hfind
        -- the receiver of `f` before the packet
        have hrxinv : Cov cF (fdtObj s f) (fdtLookup st p.fdtId) P ∧ AttInv cF (fdtObj s f) (fdtLookup st p.fdtId) ∧
            (fdtLookup st p.fdtId).attached = true := by
          have h1 := hinv.1
          rw [← hid] at h1
          unfold fdtLookup
          cases hfd : st.receiving.find? (fun x => x.1 == p.fdtId) with
          | some x =>
            rw [hfd] at h1
            exact h1
          | none =>
            rw [hfd] at h1
            simp only at h1
            subst h1
            refine ⟨by intro q hq; simp at hq, ?_, rfl⟩
            intro _
            simp only [fdtObj, fdtFresh]
            exact ⟨size_pos_of_nonempty _ hN, hfresh⟩
        have hstep : stepFdt cF.canDecode rc s st p =
            fdtFinish st p.fdtId f (pushSym cF.canDecode { rc with maxSize := 1024 * 1024, pktCap := none } (fdtObj s f) (fdtLookup st p.fdtId) (toSym p)) := by
          unfold stepFdt
          simp only [hcur, Bool.false_eq_true, ↓reduceIte, hfind', toSym]
        rw [hstep]
        have hspec := pushCore_spec cF { rc with maxSize := 1024 * 1024, pktCap := none } (fdtObj s f) (fdtLookup st p.fdtId) (toSym p) P
          (by simpa [fdtObj] using hN) hg hfit hrxinv.1 _ rfl
        rw [← pushSym_noclose cF _ _ (fdtLookup st p.fdtId) (toSym p) (by simpa [toSym] using hnc)] at hspec
        obtain ⟨h1, h2, _, h4⟩ := hspec
        unfold fdtFinish
        rcases h1 with h1 | h1
        · simp only [h1]
          obtain ⟨hc, ha⟩ := h4 h1
          have hnext : FInv cF s f (toSym p :: P)
              { st with receiving := (p.fdtId, (pushSym cF.canDecode { rc with maxSize := 1024 * 1024, pktCap := none } (fdtObj s f) (fdtLookup st p.fdtId) (toSym p)).rx) :: st.receiving.filter (fun x => x.1 != p.fdtId) } := by
            refine ⟨?_, hinv.2⟩
            have : (((p.fdtId, (pushSym cF.canDecode { rc with maxSize := 1024 * 1024, pktCap := none } (fdtObj s f) (fdtLookup st p.fdtId) (toSym p)).rx) ::
                st.receiving.filter (fun x => x.1 != p.fdtId)).find? (fun x => x.1 == f.id)) =
                some (p.fdtId, (pushSym cF.canDecode { rc with maxSize := 1024 * 1024, pktCap := none } (fdtObj s f) (fdtLookup st p.fdtId) (toSym p)).rx) := by
              rw [List.find?_cons_of_pos]; simp [hid]
            simp only [this]
            exact ⟨hc, ha hrxinv.2.1, by rw [h2.1]; exact hrxinv.2.2⟩
          rcases ih _ (toSym p :: P) hnext hgen' with h | h
          · exact Or.inl h
          · right
            have e : (fsyms f.id (p :: ps)).reverse ++ P = (fsyms f.id ps).reverse ++ (toSym p :: P) := by
              simp [fsyms, h0, hid, List.filter_cons]
            rw [e]; exact h
        · simp only [h1]
          left
          exact List.mem_cons_self ..
      · -- a packet of another instance: the reception of `f` is not touched
        have hne : p.fdtId ≠ f.id := hid
        have hkeep : FInv cF s f P (stepFdt cF.canDecode rc s st p).1 := by
          unfold stepFdt
          split
          · exact hinv
          · split
            · exact hinv
            · rename_i f' _
              unfold fdtFinish
              dsimp only
              have hfo := fun v => find_other st.receiving p.fdtId f.id v hne
              split
              · refine ⟨?_, hinv.2⟩
                simp only
                rw [(hfo _).1]; exact hinv.1
              · refine ⟨?_, ?_⟩
                · simp only
                  rw [(hfo rx0).2]; exact hinv.1
                · simp only
                  intro hm
                  have := List.mem_of_mem_take hm
                  simp only [List.mem_cons] at this
                  rcases this with h | h
                  · exact hne h.symm
                  · exact hinv.2 h
              · refine ⟨?_, hinv.2⟩
                simp only
                rw [(hfo rx0).2]; exact hinv.1
        have e : fsyms f.id (p :: ps) = fsyms f.id ps := by
          have : (p.fdtId == f.id) = false := beq_false_of_ne hne
          simp [fsyms, List.filter_cons, this]
        rw [e]
        rcases ih _ P hkeep hgen' with h | h
        · left
          cases hd : (stepFdt cF.canDecode rc s st p).2 with
          | none => simpa [hd] using h
          | some f' => simp only [hd]; exact List.mem_cons_of_mem _ h
        · exact Or.inr h
    · have h0' : (p.toi == 0) = false := by simpa using h0
      have e : fsyms f.id (p :: ps) = fsyms f.id ps := by
        simp [fsyms, List.filter_cons, h0']
      simp only [eventsFor, fdtState, h0', Bool.false_eq_true, ↓reduceIte, e]
      rcases ih st P hinv hgen' with h | h
      · left
        split
        · exact List.mem_cons_of_mem _ h
        · exact h
      · exact Or.inr h

/-- an FDT instance received whole completes: its completion is among the events -/
theorem fdt_whole_completes (rc : RxCfg) (s : SessCfg) (o : ObjCfg) (f : FdtCfg)
    (hfind : s.fdts.find? (fun x => x.id == f.id) = some f)
    (hN : f.ks.isEmpty = false) (hlook : f.ks.size ≤ rc.maxLook)
    (hfresh : blockDone cF.canDecode f.ks s.fdtP [] 0 = false)
    (ps : List Pkt)
    (hgen : ∀ p, p ∈ ps → p.toi = 0 → p.fdtId = f.id → Genuine (fdtObj s f) (toSym p) ∧ p.close = false)
    (hwhole : AllDec cF (fdtObj s f) (fsyms f.id ps)) :
    Ev.fdt (f.files.contains o.toi) ∈ eventsFor cF.canDecode rc s o fdtRx0 ps := by
  have h0 : FInv cF s f [] fdtRx0 := by
    refine ⟨by simp [fdtRx0], by simp [fdtRx0]⟩
  rcases fdt_run cF rc s o f hfind hN hlook hfresh ps fdtRx0 [] h0 hgen with h | h
  · exact h
  · exfalso
    obtain ⟨h1, _⟩ := h
    simp only [List.append_nil] at h1
    have hdec : AllDec cF (fdtObj s f) (fsyms f.id ps).reverse :=
      allDec_mono cF _ _ _ (fun q hq => List.mem_reverse.mpr hq) hwhole
    cases hfd : (fdtState cF.canDecode rc s fdtRx0 ps).receiving.find? (fun x => x.1 == f.id) with
    | some x =>
      rw [hfd] at h1
      exact not_stuck cF (fdtObj s f) x.2 _ h1.1 h1.2.2 h1.2.1 hdec
    | none =>
      rw [hfd] at h1
      simp only at h1
      -- nothing arrived of `f`, yet block 0 is decodable: excluded by `hfresh`
      have hsz : 0 < f.ks.size := size_pos_of_nonempty _ hN
      obtain ⟨k, hk, hd⟩ := hdec 0 (by simpa [fdtObj] using hsz)
      rw [h1] at hd
      simp only [fdtObj] at hk hd
      unfold blockDone at hfresh
      simp only [hk] at hfresh
      have : symsOf [] 0 = esisOf [] 0 := by simp [symsOf, esisOf]
      rw [this, hfresh] at hd
      exact absurd hd (by simp)

end Flute.Lemmas.Session
