import FluteModel.XmlTok
import FluteModel.Admission
/-
  The byte scan `XmlTok.xmlOkBytes` that the `fdtabs` driver instantiates `FdtAbs.Cfg.xmlOk` with is `is_xml_str`: on the
  UTF-8 of a string it says "every code point is an XML 1.0 Char" (`Admission.isXmlStr` on the decoded code points).
-/
namespace Flute.Lemmas.XmlTok
open Flute Flute.XmlTok Flute.Admission

theorem ok_cons (b : Nat) (r : List Nat) (h : b ≠ 239) :
    xmlOkBytes (b :: r) = ((decide (b ≥ 32) || decide (b = 9) || decide (b = 10) || decide (b = 13)) && xmlOkBytes r) := by
  conv => lhs; unfold xmlOkBytes
  split <;> simp_all

theorem ok_239 (b1 b2 : Nat) (r : List Nat) :
    xmlOkBytes (239 :: b1 :: b2 :: r) = (!(decide (b1 = 191) && (decide (b2 = 190) || decide (b2 = 191))) && xmlOkBytes (b1 :: b2 :: r)) := by
  by_cases h1 : b1 = 191
  · by_cases h2 : b2 = 190
    · subst h1; subst h2; simp [xmlOkBytes]
    · by_cases h3 : b2 = 191
      · subst h1; subst h3; simp [xmlOkBytes]
      · subst h1
        conv => lhs; unfold xmlOkBytes
        simp [h2, h3]
  · conv => lhs; unfold xmlOkBytes
    simp [h1]

theorem ok_cont (b : Nat) (r : List Nat) (h : cont b = true) : xmlOkBytes (b :: r) = xmlOkBytes r := by
  unfold cont at h
  simp only [Bool.and_eq_true, decide_eq_true_eq] at h
  rw [ok_cons b r (by omega)]
  have : decide (b ≥ 32) = true := by simp; omega
  simp [this]

theorem xml_lt128 (b : Nat) (h : b < 128) :
    isXmlChar b = (decide (b ≥ 32) || decide (b = 9) || decide (b = 10) || decide (b = 13)) := by
  unfold isXmlChar
  by_cases h9 : b = 9
  · subst h9; decide
  by_cases h10 : b = 10
  · subst h10; decide
  by_cases h13 : b = 13
  · subst h13; decide
  by_cases h32 : b ≥ 32
  · have a1 : (32 ≤ b) := h32
    have a2 : b ≤ 55295 := by omega
    simp [a1, a2]
  · have a1 : ¬ (32 ≤ b) := h32
    have a3 : ¬ (57344 ≤ b) := by omega
    have a4 : ¬ (65536 ≤ b) := by omega
    simp [h9, h10, h13, a1, a3, a4]

theorem xml_mid (c : Nat) (h1 : 32 ≤ c) (h2 : c ≤ 55295) : isXmlChar c = true := by
  unfold isXmlChar; simp [h1, h2]

theorem xml_e000 (c : Nat) (h1 : 57344 ≤ c) (h2 : c ≤ 65533) : isXmlChar c = true := by
  unfold isXmlChar; simp [h1, h2]

theorem xml_hi (c : Nat) (h1 : 65536 ≤ c) (h2 : c ≤ 1114111) : isXmlChar c = true := by
  unfold isXmlChar; simp [h1, h2]

theorem xml_fffe (c : Nat) (h1 : 65534 ≤ c) (h2 : c ≤ 65535) : isXmlChar c = false := by
  unfold isXmlChar
  have a1 : ¬ c = 9 := by omega
  have a2 : ¬ c = 10 := by omega
  have a3 : ¬ c = 13 := by omega
  have a4 : ¬ c ≤ 55295 := by omega
  have a5 : ¬ c ≤ 65533 := by omega
  have a6 : ¬ 65536 ≤ c := by omega
  simp [a1, a2, a3, a4, a5, a6]

theorem cont_rng (b : Nat) (h : cont b = true) : 128 ≤ b ∧ b ≤ 191 := by
  unfold cont at h; simpa using h

theorem step1_cons (b0 : Nat) (r : List Nat) :
    step1 (b0 :: r) =
      (if b0 < 128 then some (b0, r)
       else if 194 ≤ b0 ∧ b0 ≤ 223 then
         match r with
         | b1 :: r1 => if cont b1 then some ((b0 - 192) * 64 + (b1 - 128), r1) else none
         | _ => none
       else if 224 ≤ b0 ∧ b0 ≤ 239 then
         match r with
         | b1 :: b2 :: r2 =>
           if cont b1 && cont b2 && decide (b0 = 224 → 160 ≤ b1) && decide (b0 = 237 → b1 ≤ 159) then
             some ((b0 - 224) * 4096 + (b1 - 128) * 64 + (b2 - 128), r2)
           else none
         | _ => none
       else if 240 ≤ b0 ∧ b0 ≤ 244 then
         match r with
         | b1 :: b2 :: b3 :: r3 =>
           if cont b1 && cont b2 && cont b3 && decide (b0 = 240 → 144 ≤ b1) && decide (b0 = 244 → b1 ≤ 143) then
             some ((b0 - 240) * 262144 + (b1 - 128) * 4096 + (b2 - 128) * 64 + (b3 - 128), r3)
           else none
         | _ => none
       else none) := rfl

theorem ge32 (b : Nat) (h : 32 ≤ b) (x : Bool) :
    ((decide (b ≥ 32) || decide (b = 9) || decide (b = 10) || decide (b = 13)) && x) = x := by
  have : decide (b ≥ 32) = true := by simp; omega
  simp [this]

theorem step_scan (bs : List Nat) (c : Nat) (rest : List Nat) (h : step1 bs = some (c, rest)) :
    xmlOkBytes bs = (isXmlChar c && xmlOkBytes rest) := by
  cases bs with
  | nil => simp [step1] at h
  | cons b0 r =>
    rw [step1_cons] at h
    by_cases h0 : b0 < 128
    · simp only [h0, if_true, Option.some.injEq, Prod.mk.injEq] at h
      obtain ⟨rfl, rfl⟩ := h
      rw [ok_cons _ _ (by omega), xml_lt128 _ h0]
    simp only [h0, if_false] at h
    by_cases h1 : 194 ≤ b0 ∧ b0 ≤ 223
    · simp only [h1, and_self, if_true] at h
      cases r with
      | nil => simp at h
      | cons b1 r1 =>
        simp only at h
        by_cases hc : cont b1 = true
        · simp only [hc, if_true, Option.some.injEq, Prod.mk.injEq] at h
          obtain ⟨rfl, rfl⟩ := h
          have := cont_rng b1 hc
          rw [ok_cons b0 _ (by omega), ok_cont b1 _ hc, xml_mid _ (by omega) (by omega), ge32 b0 (by omega)]
          simp
        · simp [hc] at h
    simp only [h1, if_false] at h
    by_cases h2 : 224 ≤ b0 ∧ b0 ≤ 239
    · simp only [h2, and_self, if_true] at h
      match r, h with
      | [], h => simp at h
      | [_], h => simp at h
      | b1 :: b2 :: r2, h =>
        simp only at h
        by_cases hc : (cont b1 && cont b2 && decide (b0 = 224 → 160 ≤ b1) && decide (b0 = 237 → b1 ≤ 159)) = true
        · simp only [hc, if_true, Option.some.injEq, Prod.mk.injEq] at h
          obtain ⟨rfl, rfl⟩ := h
          simp only [Bool.and_eq_true, decide_eq_true_eq] at hc
          obtain ⟨⟨⟨hc1, hc2⟩, hE0⟩, hED⟩ := hc
          have r1 := cont_rng b1 hc1
          have r2' := cont_rng b2 hc2
          by_cases hEF : b0 = 239
          · subst hEF
            rw [ok_239, ok_cont b1 _ hc1, ok_cont b2 _ hc2]
            by_cases hb : b1 = 191 ∧ (b2 = 190 ∨ b2 = 191)
            · have hx : isXmlChar ((239 - 224) * 4096 + (b1 - 128) * 64 + (b2 - 128)) = false :=
                xml_fffe _ (by omega) (by omega)
              rw [hx]
              rcases hb with ⟨hb1, hb2 | hb2⟩ <;> simp [hb1, hb2]
            · have hx : isXmlChar ((239 - 224) * 4096 + (b1 - 128) * 64 + (b2 - 128)) = true :=
                xml_e000 _ (by omega) (by omega)
              rw [hx]
              have hf : (decide (b1 = 191) && (decide (b2 = 190) || decide (b2 = 191))) = false := by
                cases hd : (decide (b1 = 191) && (decide (b2 = 190) || decide (b2 = 191)))
                · rfl
                · exfalso; apply hb; simpa using hd
              simp [hf]
          · rw [ok_cons b0 _ hEF, ok_cont b1 _ hc1, ok_cont b2 _ hc2, ge32 b0 (by omega)]
            have hx : isXmlChar ((b0 - 224) * 4096 + (b1 - 128) * 64 + (b2 - 128)) = true := by
              by_cases hlow : b0 ≤ 237
              · exact xml_mid _ (by omega) (by omega)
              · exact xml_e000 _ (by omega) (by omega)
            rw [hx]; simp
        · rw [if_neg hc] at h; cases h
    simp only [h2, if_false] at h
    by_cases h3 : 240 ≤ b0 ∧ b0 ≤ 244
    · simp only [h3, and_self, if_true] at h
      match r, h with
      | [], h => simp at h
      | [_], h => simp at h
      | [_, _], h => simp at h
      | b1 :: b2 :: b3 :: r3, h =>
        simp only at h
        by_cases hc : (cont b1 && cont b2 && cont b3 && decide (b0 = 240 → 144 ≤ b1) && decide (b0 = 244 → b1 ≤ 143)) = true
        · simp only [hc, if_true, Option.some.injEq, Prod.mk.injEq] at h
          obtain ⟨rfl, rfl⟩ := h
          simp only [Bool.and_eq_true, decide_eq_true_eq] at hc
          obtain ⟨⟨⟨⟨hc1, hc2⟩, hc3⟩, hF0⟩, hF4⟩ := hc
          have r1 := cont_rng b1 hc1
          have r2' := cont_rng b2 hc2
          have r3' := cont_rng b3 hc3
          rw [ok_cons b0 _ (by omega), ok_cont b1 _ hc1, ok_cont b2 _ hc2, ok_cont b3 _ hc3,
            xml_hi _ (by omega) (by omega), ge32 b0 (by omega)]
          simp
        · rw [if_neg hc] at h; cases h
    simp [h3] at h

theorem fuel_scan : ∀ (n : Nat) (bs cps : List Nat), decodeFuel n bs = some cps → xmlOkBytes bs = cps.all isXmlChar := by
  intro n
  induction n with
  | zero =>
    intro bs cps h
    cases bs with
    | nil => simp [decodeFuel] at h; subst h; rfl
    | cons b r => simp [decodeFuel] at h
  | succ n ih =>
    intro bs cps h
    cases bs with
    | nil => simp [decodeFuel] at h; subst h; rfl
    | cons b r =>
      simp only [decodeFuel] at h
      cases hs : step1 (b :: r) with
      | none => rw [hs] at h; cases h
      | some p =>
        obtain ⟨c, rest⟩ := p
        rw [hs] at h
        simp only at h
        cases hd : decodeFuel n rest with
        | none => rw [hd] at h; cases h
        | some t =>
          rw [hd] at h
          simp only [Option.map_some, Option.some.injEq] at h
          subst h
          rw [step_scan _ c rest hs, ih rest t hd, List.all_cons]

/-- on well-formed UTF-8 the byte scan is `is_xml_str` of the decoded code points -/
theorem scan_eq (bs cps : List Nat) (h : decodeUtf8 bs = some cps) : xmlOkBytes bs = isXmlStr cps :=
  fuel_scan bs.length bs cps h

/-- `hx` of the admission link for the driver's instantiation: for EVERY token -/
theorem xmlOkTok_eq (t : String) : xmlOkTok t = isXmlStr (cpTok t) := by
  unfold xmlOkTok cpTok
  cases Drv.unhex t with
  | none => rfl
  | some bs =>
    simp only
    cases hd : decodeUtf8 bs with
    | some cps => exact scan_eq bs cps hd
    | none =>
      simp only
      cases hb : xmlOkBytes bs <;> simp [isXmlStr, isXmlChar]

/-- non-vacuity: "aé<U+FFFE>" is decoded and refused, "a\té😀" is decoded and accepted -/
example : decodeUtf8 [97, 195, 169, 239, 191, 190] = some [97, 233, 65534] ∧ xmlOkBytes [97, 195, 169, 239, 191, 190] = false ∧
    decodeUtf8 [97, 9, 195, 169, 240, 159, 152, 128] = some [97, 9, 233, 128512] ∧
    xmlOkBytes [97, 9, 195, 169, 240, 159, 152, 128] = true := by decide

/-- quick-xml's end-of-line normalisation of element text (the `rd` parameter of `FdtAbs.recvMeta` in the driver) leaves a
    string without CR / NEL / U+2028 alone: for such group strings the hypothesis of `Props.C10.groups_read_unaltered` holds
    (finding D23 is exactly the complement) -/
theorem eol11_id : ∀ (bs : List Nat), eolFree bs = true → eol11 bs = bs := by
  intro bs
  fun_induction eolFree bs <;> intro h <;> simp_all [eol11]

end Flute.Lemmas.XmlTok
