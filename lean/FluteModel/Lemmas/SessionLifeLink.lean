import FluteModel.Lemmas.SessionObjRecv
/-
  `Session.runObj` (what e2e's C01 / C02 / C16 theorems are about: the receiver seen from one TOI, events `Ev.fdt lists` / `Ev.pkt s`)
  against `Link.objRun` (the object-level run the link with `ObjRecv` is stated over), for ONE LIFE of the object: from a state
  without object (not in the completed registry) the first packet creates it - attached at creation when a complete FDT instance
  already lists the TOI (`age.isSome`) -, FDT instances listing it attach it, packets are pushed, until the object ends.
  `lifeL` is the event translation; the guard `aliveRun` says every translated event finds the object alive (the last one may end it).
-/
namespace Flute.Link
open Flute Flute.ObjRecv

/-- the events of one life as the object sees them (`created`: the object exists; `age`: `OState.age`) -/
def lifeL : Bool → Option Nat → List Session.Ev → List LEv
  | _, _, [] => []
  | false, age, .fdt l :: es => lifeL false (Session.ageStep age l) es
  | false, age, .pkt s :: es => (if age.isSome then [.att, .pkt s] else [.pkt s]) ++ lifeL true age es
  | true, age, .fdt l :: es => (if l then [.att] else []) ++ lifeL true (Session.ageStep age l) es
  | true, age, .pkt s :: es => .pkt s :: lifeL true age es

/-- every event is processed by a live object (the last one may end it) -/
def aliveRun (Z : Setting) : Session.OState → List LEv → Bool
  | _, [] => true
  | os, e :: es => os.obj.isSome && aliveRun Z (objStep Z os e) es

/-- the two states agree on the object and on the four counters; a live object is not in the completed registry -/
structure LifeRel (st os : Session.OState) : Prop where
  obj : st.obj = os.obj
  opens : st.opens = os.opens
  completes : st.completes = os.completes
  errors : st.errors = os.errors
  interrupts : st.interrupts = os.interrupts
  live : st.obj.isSome = true → st.completed = false

theorem lifeRel_finish (o : Session.ObjCfg) (st os : Session.OState) (r : Session.PushRes) (n m : Nat)
    (h1 : st.opens + n = os.opens + m) (h2 : st.completes = os.completes) (h3 : st.errors = os.errors)
    (h4 : st.interrupts = os.interrupts) (hc : st.completed = false) :
    LifeRel (Session.finish o { st with opens := st.opens + n } r) (Session.finish o { os with opens := os.opens + m } r) := by
  unfold Session.finish
  cases r.term <;> dsimp only
  · exact ⟨rfl, h1, h2, h3, h4, fun _ => hc⟩
  · refine ⟨rfl, h1, ?_, h3, h4, fun h => by cases h⟩
    show (if r.rx.attached then st.completes + 1 else st.completes) = (if r.rx.attached then os.completes + 1 else os.completes)
    rw [h2]
  · refine ⟨rfl, h1, h2, h3, ?_, fun h => by cases h⟩
    show (if r.rx.attached then st.interrupts + 1 else st.interrupts) = (if r.rx.attached then os.interrupts + 1 else os.interrupts)
    rw [h4]
  · refine ⟨rfl, h1, h2, ?_, h4, fun h => by cases h⟩
    show (if r.rx.attached then st.errors + 1 else st.errors) = (if r.rx.attached then os.errors + 1 else os.errors)
    rw [h3]

theorem lifeRel_finish0 (o : Session.ObjCfg) (st os : Session.OState) (r : Session.PushRes)
    (h1 : st.opens = os.opens) (h2 : st.completes = os.completes) (h3 : st.errors = os.errors)
    (h4 : st.interrupts = os.interrupts) (hc : st.completed = false) :
    LifeRel (Session.finish o st r) (Session.finish o os r) := by
  have := lifeRel_finish o st os r 0 0 (by omega) h2 h3 h4 hc
  exact this

/-- `pushObj` is `finish` of a result that does not depend on the session-side state -/
theorem pushObj_finish (dec : (k p : Nat) → List Nat → Bool) (rc : Session.RxCfg) (o : Session.ObjCfg) (rx : Session.ORx)
    (s : Session.Sym) : ∃ r : Session.PushRes, ∀ st, Session.pushObj dec rc o st rx s = Session.finish o st r := by
  by_cases h0 : (!rx.otiKnown && o.inbandFti) = true
  · by_cases h1 : (!({ rx with otiKnown := true } : Session.ORx).otiKnown) = true
    · simp at h1
    · exact ⟨_, fun st => by unfold Session.pushObj; simp only [h0, ↓reduceIte]; rw [if_neg h1]⟩
  · by_cases h1 : (!rx.otiKnown) = true
    · by_cases h2 : Session.cacheFull rc o rx.cache = true
      · exact ⟨_, fun st => by unfold Session.pushObj; simp only [h0, Bool.false_eq_true, ↓reduceIte]; rw [if_pos h1, if_pos h2]⟩
      · exact ⟨_, fun st => by unfold Session.pushObj; simp only [h0, Bool.false_eq_true, ↓reduceIte]; rw [if_pos h1, if_neg h2]⟩
    · exact ⟨_, fun st => by unfold Session.pushObj; simp only [h0, Bool.false_eq_true, ↓reduceIte]; rw [if_neg h1]⟩

theorem lifeRel_pushObj (Z : Setting) (st os : Session.OState) (rx : Session.ORx) (s : Session.Sym)
    (h1 : st.opens = os.opens) (h2 : st.completes = os.completes) (h3 : st.errors = os.errors)
    (h4 : st.interrupts = os.interrupts) (hc : st.completed = false) :
    LifeRel (Session.pushObj Z.dec Z.rc Z.oc st rx s) (Session.pushObj Z.dec Z.rc Z.oc os rx s) := by
  obtain ⟨r, hr⟩ := pushObj_finish Z.dec Z.rc Z.oc rx s
  rw [hr st, hr os]
  exact lifeRel_finish0 _ _ _ _ h1 h2 h3 h4 hc

theorem finish_age (o : Session.ObjCfg) (st : Session.OState) (r : Session.PushRes) : (Session.finish o st r).age = st.age := by
  unfold Session.finish; cases r.term <;> rfl

theorem pushObj_age (Z : Setting) (st : Session.OState) (rx : Session.ORx) (s : Session.Sym) :
    (Session.pushObj Z.dec Z.rc Z.oc st rx s).age = st.age := by
  obtain ⟨r, hr⟩ := pushObj_finish Z.dec Z.rc Z.oc rx s
  rw [hr st, finish_age]

theorem objRun_append (Z : Setting) (os : Session.OState) (a b : List LEv) : objRun Z os (a ++ b) = objRun Z (objRun Z os a) b := by
  induction a generalizing os with
  | nil => rfl
  | cons e es ih => simp only [List.cons_append, objRun]; exact ih _

theorem aliveRun_append (Z : Setting) (os : Session.OState) (a b : List LEv) :
    aliveRun Z os (a ++ b) = (aliveRun Z os a && aliveRun Z (objRun Z os a) b) := by
  induction a generalizing os with
  | nil => simp [aliveRun, objRun]
  | cons e es ih => simp only [List.cons_append, aliveRun, objRun, ih, Bool.and_assoc]

/-- the four counters agree -/
def SameCounters (a b : Session.OState) : Prop :=
  a.opens = b.opens ∧ a.completes = b.completes ∧ a.errors = b.errors ∧ a.interrupts = b.interrupts

/-- ONE LIFE, the object exists: `runObj` and `objRun` make the same writer calls -/
theorem life_created (Z : Setting) : ∀ (evs : List Session.Ev) (st os : Session.OState), LifeRel st os →
    aliveRun Z os (lifeL true st.age evs) = true →
    SameCounters (Session.runObj Z.dec Z.rc Z.oc st evs) (objRun Z os (lifeL true st.age evs)) := by
  intro evs
  induction evs with
  | nil => intro st os h _; exact ⟨h.opens, h.completes, h.errors, h.interrupts⟩
  | cons e es ih =>
    intro st os h ha
    cases e with
    | fdt l =>
      simp only [lifeL] at ha ⊢
      simp only [Session.runObj]
      rw [aliveRun_append] at ha
      rw [objRun_append]
      have hage : (Session.stepObj Z.dec Z.rc Z.oc st (.fdt l)).age = Session.ageStep st.age l := by
        simp only [Session.stepObj, Session.fdtEv]
        congr 1
        cases st.obj with
        | none => rfl
        | some rx => dsimp only; split <;> first | rfl | exact finish_age _ _ _
      rw [← hage] at ha ⊢
      simp only [Bool.and_eq_true] at ha
      refine ih _ _ ?_ ha.2
      cases l with
      | false =>
        rw [stepObj_fdt_other]
        exact ⟨h.obj, h.opens, h.completes, h.errors, h.interrupts, fun _ => rfl⟩
      | true =>
        have ha1 : os.obj.isSome = true := by
          have := ha.1; simp only [if_true, aliveRun, Bool.and_eq_true] at this; exact this.1
        cases hobj : os.obj with
        | none => rw [hobj] at ha1; cases ha1
        | some rx =>
          have hsobj : st.obj = some rx := by rw [h.obj, hobj]
          have hc : st.completed = false := h.live (by rw [hsobj]; rfl)
          have key : LifeRel (objStep Z st .att) (objStep Z os .att) := by
            simp only [objStep, hobj, hsobj]
            by_cases hat : rx.attached = true
            · simp only [hat, Bool.not_true, Bool.false_eq_true, if_false]
              exact h
            · have hat' : rx.attached = false := by simpa using hat
              simp only [hat', Bool.not_false, if_true]
              exact lifeRel_finish _ _ _ _ 1 1 (by rw [h.opens]) h.completes h.errors h.interrupts hc
          rw [stepObj_fdt Z st rx hsobj]
          simp only [if_true, objRun]
          exact ⟨key.obj, key.opens, key.completes, key.errors, key.interrupts,
            fun hh => by show ((objStep Z st .att).completed && true) = false; rw [key.live hh]; rfl⟩
    | pkt s =>
      simp only [lifeL, aliveRun, objRun, Bool.and_eq_true] at ha ⊢
      simp only [Session.runObj]
      cases hobj : os.obj with
      | none => rw [hobj] at ha; cases ha.1
      | some rx =>
        have hsobj : st.obj = some rx := by rw [h.obj, hobj]
        have hc : st.completed = false := h.live (by rw [hsobj]; rfl)
        rw [stepObj_pkt Z st rx s hsobj hc]
        have e1 : objStep Z st (.pkt s) = Session.pushObj Z.dec Z.rc Z.oc st rx s := by simp only [objStep, hsobj]
        have e2 : objStep Z os (.pkt s) = Session.pushObj Z.dec Z.rc Z.oc os rx s := by simp only [objStep, hobj]
        rw [e1]
        rw [e2] at ha ⊢
        have hage := pushObj_age Z st rx s
        rw [← hage] at ha ⊢
        exact ih _ _ (lifeRel_pushObj Z st os rx s h.opens h.completes h.errors h.interrupts hc) ha.2

/-- ONE LIFE from a state without object: the first packet creates it (attached at creation when an FDT instance lists the TOI) -/
theorem life_new (Z : Setting) : ∀ (evs : List Session.Ev) (st os : Session.OState),
    st.obj = none → st.completed = false → os.obj = some Session.rx0 → SameCounters st os →
    aliveRun Z os (lifeL false st.age evs) = true →
    SameCounters (Session.runObj Z.dec Z.rc Z.oc st evs) (objRun Z os (lifeL false st.age evs)) := by
  intro evs
  induction evs with
  | nil => intro st os _ _ _ h _; exact h
  | cons e es ih =>
    intro st os hobj hc hos h ha
    cases e with
    | fdt l =>
      simp only [lifeL] at ha ⊢
      simp only [Session.runObj]
      have hst : Session.stepObj Z.dec Z.rc Z.oc st (.fdt l) = { st with completed := st.completed && l, age := Session.ageStep st.age l } := by
        simp only [Session.stepObj, Session.fdtEv, hobj]
      rw [hst]
      exact ih _ os hobj (by show (st.completed && l) = false; rw [hc]; rfl) hos h ha
    | pkt s =>
      simp only [Session.runObj]
      have hst : Session.stepObj Z.dec Z.rc Z.oc st (.pkt s) = Session.pushNew Z.dec Z.rc Z.oc st s := by
        simp only [Session.stepObj, hc, Bool.false_eq_true, if_false]
      rw [hst]
      simp only [lifeL] at ha ⊢
      rw [aliveRun_append] at ha
      rw [objRun_append]
      simp only [Bool.and_eq_true] at ha
      by_cases hage : st.age.isSome = true
      · -- attached at creation
        simp only [hage, if_true, aliveRun, objRun, Bool.and_eq_true] at ha ⊢
        have hatt : objStep Z os .att =
            Session.finish Z.oc { os with opens := os.opens + 1 } (Session.attach Z.dec Z.rc Z.oc Session.rx0) := by
          simp [objStep, hos, Session.rx0]
        rw [hatt] at ha ⊢
        obtain ⟨hterm, hrx⟩ := finish_obj_some (Option.isSome_iff_exists.mp ha.1.2.1).choose_spec
        have hfin : Session.finish Z.oc { os with opens := os.opens + 1 } (Session.attach Z.dec Z.rc Z.oc Session.rx0) =
            { os with opens := os.opens + 1, obj := some (Session.attach Z.dec Z.rc Z.oc Session.rx0).rx } := by
          unfold Session.finish; rw [hterm]
        rw [hfin] at ha ⊢
        have hpn : Session.pushNew Z.dec Z.rc Z.oc st s =
            Session.pushObj Z.dec Z.rc Z.oc { st with opens := st.opens + 1 } (Session.attach Z.dec Z.rc Z.oc Session.rx0).rx s := by
          simp [Session.pushNew, hobj, hage, hterm]
        rw [hpn]
        have e2 : objStep Z { os with opens := os.opens + 1, obj := some (Session.attach Z.dec Z.rc Z.oc Session.rx0).rx } (.pkt s) =
            Session.pushObj Z.dec Z.rc Z.oc { os with opens := os.opens + 1, obj := some (Session.attach Z.dec Z.rc Z.oc Session.rx0).rx }
              (Session.attach Z.dec Z.rc Z.oc Session.rx0).rx s := by simp only [objStep]
        rw [e2] at ha ⊢
        have hage2 := pushObj_age Z { st with opens := st.opens + 1 } (Session.attach Z.dec Z.rc Z.oc Session.rx0).rx s
        have key := life_created Z es _ _ (lifeRel_pushObj Z { st with opens := st.opens + 1 }
          { os with opens := os.opens + 1, obj := some (Session.attach Z.dec Z.rc Z.oc Session.rx0).rx }
          (Session.attach Z.dec Z.rc Z.oc Session.rx0).rx s
          (by show st.opens + 1 = os.opens + 1; rw [h.1]) h.2.1 h.2.2.1 h.2.2.2 hc)
        rw [hage2] at key
        exact key ha.2
      · simp only [hage, Bool.false_eq_true, if_false, aliveRun, objRun, Bool.and_eq_true] at ha ⊢
        have hpn : Session.pushNew Z.dec Z.rc Z.oc st s = Session.pushObj Z.dec Z.rc Z.oc st Session.rx0 s := by
          simp [Session.pushNew, hobj, hage]
        rw [hpn]
        have e2 : objStep Z os (.pkt s) = Session.pushObj Z.dec Z.rc Z.oc os Session.rx0 s := by simp only [objStep, hos]
        rw [e2] at ha ⊢
        have key := life_created Z es _ _ (lifeRel_pushObj Z st os Session.rx0 s h.1 h.2.1 h.2.2.1 h.2.2.2 hc)
        rw [pushObj_age Z st Session.rx0 s] at key
        exact key ha.2

end Flute.Link
