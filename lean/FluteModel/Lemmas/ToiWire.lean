/-
  Helper lemmas for C15 about `FluteModel/ToiWire.lean`: big-endian round trip and the width chosen
  by `nb_bytes_128`.  Core Lean only.
-/
import FluteModel.ToiWire
namespace Flute.ToiWire

theorem beBytes_length : ∀ (n v : Nat), (beBytes n v).length = n := by
  intro n
  induction n with
  | zero => intro v; rfl
  | succ n ih => intro v; simp [beBytes, ih]

theorem drop_beBytes : ∀ (k m v : Nat), (beBytes (k + m) v).drop k = beBytes m v := by
  intro k
  induction k with
  | zero => intro m v; simp
  | succ k ih =>
    intro m v
    have : k + 1 + m = (k + m) + 1 := by omega
    rw [this, beBytes, List.drop_succ_cons, ih]

theorem foldl_beBytes : ∀ (n v acc : Nat),
    (beBytes n v).foldl (fun a b => a * 256 + b) acc = acc * 256 ^ n + v % 256 ^ n := by
  intro n
  induction n with
  | zero => intro v acc; simp [beBytes, Nat.mod_one]
  | succ n ih =>
    intro v acc
    rw [beBytes, List.foldl_cons, ih]
    have h1 : v % 256 ^ (n + 1) = v % 256 ^ n + 256 ^ n * (v / 256 ^ n % 256) := by
      rw [Nat.pow_succ, Nat.mod_mul]
    rw [h1, Nat.pow_succ, Nat.add_mul, Nat.mul_assoc, Nat.mul_comm 256 (256 ^ n),
      Nat.mul_comm (v / 256 ^ n % 256) (256 ^ n)]
    omega

theorem fromBE_beBytes (n v : Nat) : fromBE (beBytes n v) = v % 256 ^ n := by
  unfold fromBE; rw [foldl_beBytes]; simp

theorem foldl_zeros : ∀ (k : Nat),
    (List.replicate k 0).foldl (fun a b => a * 256 + b) 0 = 0 := by
  intro k
  induction k with
  | zero => rfl
  | succ k ih => simp [List.replicate_succ, ih]

theorem fromBE_pad (k : Nat) (b : List Nat) : fromBE (List.replicate k 0 ++ b) = fromBE b := by
  unfold fromBE; rw [List.foldl_append, foldl_zeros]

/-- a field of `len` bytes carries every value below `256^len` exactly -/
theorem roundtrip_len (toi len : Nat) (hlen : len ≤ 16) (h : toi < 256 ^ len) :
    decode { o := o, h := hh, bytes := (beBytes 16 toi).drop (16 - len) } = toi ∧
      ((beBytes 16 toi).drop (16 - len)).length = len := by
  have e : 16 = (16 - len) + len := by omega
  have hd : (beBytes 16 toi).drop (16 - len) = beBytes len toi := by
    conv => lhs; rw [e]
    have : 16 - len + len - len = 16 - len := by omega
    rw [this]
    exact drop_beBytes (16 - len) len toi
  rw [hd]
  refine ⟨?_, beBytes_length _ _⟩
  unfold decode
  simp only
  rw [fromBE_pad, fromBE_beBytes, Nat.mod_eq_of_lt h]

theorem nbBytes128_spec (v : Nat) (hv : v < 2 ^ 112) :
    ∃ n, nbBytes128 v 2 = n ∧ n ∈ [2, 4, 6, 8, 10, 12, 14] ∧ v < 256 ^ n := by
  unfold nbBytes128
  by_cases h7 : v / 2 ^ 112 % 2 ^ 16 ≠ 0
  · omega
  by_cases h6 : v / 2 ^ 96 % 2 ^ 16 ≠ 0
  · exact ⟨14, by simp [h7, h6], by simp, by omega⟩
  by_cases h5 : v / 2 ^ 80 % 2 ^ 16 ≠ 0
  · exact ⟨12, by simp [h7, h6, h5], by simp, by omega⟩
  by_cases h4 : v / 2 ^ 64 % 2 ^ 16 ≠ 0
  · exact ⟨10, by simp [h7, h6, h5, h4], by simp, by omega⟩
  by_cases h3 : v / 2 ^ 48 % 2 ^ 16 ≠ 0
  · exact ⟨8, by simp [h7, h6, h5, h4, h3], by simp, by omega⟩
  by_cases h2 : v / 2 ^ 32 % 2 ^ 16 ≠ 0
  · exact ⟨6, by simp [h7, h6, h5, h4, h3, h2], by simp, by omega⟩
  by_cases h1 : v / 2 ^ 16 % 2 ^ 16 ≠ 0
  · exact ⟨4, by simp [h7, h6, h5, h4, h3, h2, h1], by simp, by omega⟩
  by_cases h0 : v % 2 ^ 16 ≠ 0
  · exact ⟨2, by simp [h7, h6, h5, h4, h3, h2, h1, h0], by simp, by omega⟩
  · exact ⟨2, by simp [h7, h6, h5, h4, h3, h2, h1, h0], by simp, by omega⟩

theorem hTsi_le (tsi : Nat) : hTsi tsi ≤ 1 := by
  unfold hTsi; omega

/-- round trip of the TOI field for every TOI below 2^112 and every TSI, with the field length -/
theorem roundtrip_full (toi tsi : Nat) (h : toi < 2 ^ 112) :
    decode (encode toi tsi) = toi ∧
      (encode toi tsi).bytes.length = 4 * (encode toi tsi).o + 2 * (encode toi tsi).h := by
  obtain ⟨n, hn, hmem, hlt⟩ := nbBytes128_spec toi h
  have hh := hTsi_le tsi
  have hL : n ≤ n / 4 % 4 * 4 + max (hTsi tsi) (n / 2 % 2) * 2 ∧
      n / 4 % 4 * 4 + max (hTsi tsi) (n / 2 % 2) * 2 ≤ 16 := by
    simp only [List.mem_cons, List.not_mem_nil, or_false] at hmem
    rcases hmem with rfl | rfl | rfl | rfl | rfl | rfl | rfl <;> omega
  have key := roundtrip_len (o := n / 4 % 4) (hh := max (hTsi tsi) (n / 2 % 2)) toi
    (n / 4 % 4 * 4 + max (hTsi tsi) (n / 2 % 2) * 2) hL.2
    (Nat.lt_of_lt_of_le hlt (Nat.pow_le_pow_right (by decide) hL.1))
  unfold encode
  simp only [hn]
  refine ⟨key.1, ?_⟩
  rw [key.2]
  omega

theorem roundtrip_of_lt (toi tsi : Nat) (h : toi < 2 ^ 112) : decode (encode toi tsi) = toi :=
  (roundtrip_full toi tsi h).1

end Flute.ToiWire
