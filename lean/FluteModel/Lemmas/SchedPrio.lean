import FluteModel.Lemmas.SchedTime
/-
  Strict priority / pacing progress, pre-state form: if some slot of queue `q` holds a transfer whose next packet
  is due at `now` (gate open, encoder not drained), then `read` returns an FDT packet or a packet of `q` or of
  a queue visited before `q` - never `None`, never a packet of a later (lower-priority) queue.
-/
namespace Flute.Sched

/-- the object `k` is in transfer, untouched: same `TransferInfo`, same size, same membership in the FDT -/
structure Kept (k : Nat) (f : FileDesc) (inFiles : Prop) (s : State) : Prop where
  obj : ∃ f', getF s.objs k = some f' ∧ f'.info = f.info ∧ f'.nSym = f.nSym ∧ f'.allowStop = f.allowStop
  files : k ∈ s.files ↔ inFiles

theorem Kept.updOther {k : Nat} {f : FileDesc} {P : Prop} {s s' : State} (h : Kept k f P s) (k' : Nat)
    (g : FileDesc → FileDesc) (hg : ∀ x, (g x).key = x.key) (hne : k' ≠ k)
    (ho : s'.objs = updF s.objs k' g) (hf : k ∈ s'.files ↔ k ∈ s.files) : Kept k f P s' := by
  obtain ⟨f', h1, h2⟩ := h.obj
  exact ⟨⟨f', by rw [ho, getF_updF _ _ _ _ hg, if_neg (fun e => hne e.symm)]; exact h1, h2⟩, hf.trans h.files⟩

theorem Kept.publish {k : Nat} {f : FileDesc} {P : Prop} {s : State} (h : Kept k f P s) (now : Nat) :
    Kept k f P (publish s now) := by
  obtain ⟨f', h1, h2, h3, h4⟩ := h.obj
  refine ⟨⟨pubMark s.files f', by rw [publish_getF_objs, h1]; rfl, ?_, ?_, ?_⟩, h.files⟩
  · rw [pubMark_info]; exact h2
  · unfold pubMark; split <;> exact h3
  · unfold pubMark; split <;> exact h4

theorem Kept.same {k : Nat} {f : FileDesc} {P : Prop} {s s' : State} (h : Kept k f P s)
    (ho : s'.objs = s.objs) (hf : s'.files = s.files) : Kept k f P s' := by
  exact ⟨by rw [ho]; exact h.obj, by rw [hf]; exact h.files⟩

/-! ### the FDT session does not touch objects in transfer -/

theorem Kept.fdtAdvance {k : Nat} {f : FileDesc} {P : Prop} {s : State} (h : Kept k f P s) (now : Nat) :
    Kept k f P (Sched.fdtAdvance s now) := by
  rcases fdtAdvance_cases s now with ⟨e, _⟩ | ⟨k', f', _, _, _, e⟩
  · rw [e]; exact h.same (fdtPop_objs s) (fdtPop_files s)
  · rw [e]; exact h.same (fdtPop_objs s) (fdtPop_files s)

theorem Kept.fdtGetNext {k : Nat} {f : FileDesc} {P : Prop} {s : State} (h : Kept k f P s) (now : Nat) :
    Kept k f P (Sched.fdtGetNext s now) := by
  unfold Sched.fdtGetNext
  split
  · exact h
  · apply Kept.fdtAdvance
    unfold fdtMaybePublish
    split
    · exact publishTry_elim (P := fun x => Kept k f P x) s now (h.publish now) h
    · exact h

theorem Kept.runFdt {k : Nat} {f : FileDesc} {P : Prop} : ∀ fuel (s : State) now, Kept k f P s →
    Kept k f P (Sched.runFdt fuel s now).1 := by
  intro fuel
  induction fuel with
  | zero => intro s now h; exact h
  | succ n ih =>
    intro s now h
    unfold Sched.runFdt
    have key : ∀ s1 : State, Kept k f P s1 →
        Kept k f P (match s1.fdtSess with
          | none => (s1, Out.none)
          | some c =>
            match getF s1.fdts c.key with
            | none => (s1, Out.none)
            | some f =>
              if gateBlocked f now then (s1, Out.none) else
              match encRead f.nSym c.enc false with
              | (none, _) => Sched.runFdt n (fdtRelease s1 c.key now) now
              | (some (idx, _), e) => (fdtStep s1 c e f.fdtId now idx, Out.fdt c.key f.fdtId idx)).1 := by
      intro s1 h1
      split
      · exact h1
      · rename_i c _
        split
        · exact h1
        · split
          · exact h1
          · split
            · apply ih
              exact h1.same (by unfold fdtRelease; exact transferDoneFdt_objs s1 c.key now)
                (by unfold fdtRelease; exact transferDoneFdt_files s1 c.key now)
            · exact h1.same rfl rfl
    cases hs : s.fdtSess with
    | some c => simp only []; exact key s h
    | none => simp only []; exact key _ (h.fdtGetNext now)

/-! ### a file session that returns nothing does not touch the other objects in transfer -/

theorem Kept.getNextFile {k : Nat} {f : FileDesc} {P : Prop} {s s' : State} {prio now t : Nat}
    {ticks : List (Nat × Nat)} (h : Kept k f P s) (ht : f.info.transferring = true)
    (hg : getNextFile s prio now ticks = (s', some t)) : Kept k f P s' ∧ t ≠ k := by
  unfold Sched.getNextFile at hg
  split at hg
  · simp at hg
  · rename_i t' hf
    simp only [Prod.mk.injEq, Option.some.injEq] at hg
    obtain ⟨e1, e2⟩ := hg
    subst e2
    obtain ⟨_, _, _, _, g, hgg, hst⟩ := findNext_spec s prio now s.queue t' hf
    obtain ⟨_, hgt, _, _⟩ := shouldTransferNow_true hst
    have hne : t' ≠ k := by
      intro e
      obtain ⟨f', h1, h2, _⟩ := h.obj
      rw [e, h1] at hgg; cases hgg
      rw [h2, ht] at hgt; cases hgt
    have h1 : Kept k f P (fileStartStep s t' now (tkGet ticks t')) :=
      h.updOther t' (fun g => transferInit g now (tkGet ticks t')) (fun _ => rfl) hne rfl Iff.rfl
    refine ⟨?_, hne⟩
    rw [← e1]
    unfold autoPublish
    split
    · exact publishTry_elim (P := fun x => Kept k f P x) _ now (h1.publish now) h1
    · exact h1

theorem Kept.done {k : Nat} {f : FileDesc} {P : Prop} {s : State} (h : Kept k f P s) (x now : Nat) (hne : x ≠ k) :
    Kept k f P (transferDoneFile s x now) := by
  refine h.updOther x (fun g => transferDoneInfo g now) (fun _ => rfl) hne (transferDoneFile_objs s x now) ?_
  rw [transferDoneFile_eq]
  split
  · exact Iff.rfl
  · split
    · split
      · exact Iff.rfl
      · exact ⟨fun hm => List.mem_of_mem_erase hm, fun hm => (List.mem_erase_of_ne (fun e => hne e.symm)).mpr hm⟩
    · exact Iff.rfl

/-- `SenderSession::run` of a slot that does not hold `k`: whatever it returns, a packet has the slot's priority;
    if it returns nothing, `k` is untouched and the slot still does not hold `k` -/
theorem runFile_other {k : Nat} {f : FileDesc} {P : Prop} (ht : f.info.transferring = true) :
    ∀ fuel (s : State) prio (cur : Option Cur) now ticks, Kept k f P s → (∀ c, cur = some c → c.key ≠ k) →
    let r := runFile fuel s prio cur now ticks
    (∀ p t i b, r.2.2 = Out.pkt p t i b → p = prio) ∧
    (r.2.2 = Out.none → Kept k f P r.1 ∧ ∀ c, r.2.1 = some c → c.key ≠ k) := by
  intro fuel
  induction fuel with
  | zero => intro s prio cur now ticks _ _; simp [runFile]
  | succ n ih =>
    intro s prio cur now ticks h hc
    have key : ∀ (fr : Bool) (s1 : State) (cur1 : Option Cur), Kept k f P s1 → (∀ c, cur1 = some c → c.key ≠ k) →
        let r := (if !s1.fdtQueue.isEmpty then (s1, cur1, Out.none) else
          match cur1 with
          | none => (s1, none, Out.none)
          | some c =>
            match getF s1.objs c.key with
            | none => (s1, cur1, Out.none)
            | some f =>
              if gateBlocked f now then (s1, cur1, Out.none) else
              match encRead f.nSym c.enc (canStop f && !s1.files.contains c.key) with
              | (none, _) =>

                if fr then (transferDoneFile s1 c.key now, none, Out.none)

                else runFile n (transferDoneFile s1 c.key now) prio none now ticks
              | (some (idx, b), e) => (pktStep s1 prio c.key now idx b, some { c with enc := e }, Out.pkt prio c.key idx b))
        (∀ p t i b, r.2.2 = Out.pkt p t i b → p = prio) ∧
        (r.2.2 = Out.none → Kept k f P r.1 ∧ ∀ c, r.2.1 = some c → c.key ≠ k) := by
      intro fr s1 cur1 h1 hc1
      simp only []
      split
      · exact ⟨fun _ _ _ _ e => (by cases e), fun _ => ⟨h1, hc1⟩⟩
      · cases cur1 with
        | none => exact ⟨fun _ _ _ _ e => (by cases e), fun _ => ⟨h1, hc1⟩⟩
        | some c =>
          simp only []
          split
          · exact ⟨fun _ _ _ _ e => (by cases e), fun _ => ⟨h1, hc1⟩⟩
          · split
            · exact ⟨fun _ _ _ _ e => (by cases e), fun _ => ⟨h1, hc1⟩⟩
            · split
              · cases fr with
                | true =>
                  simp only [if_true]
                  exact ⟨fun _ _ _ _ e => (by cases e), fun _ => ⟨h1.done c.key now (hc1 c rfl), fun _ e => by cases e⟩⟩
                | false =>
                  simp only [Bool.false_eq_true, if_false]
                  exact ih _ prio none now ticks (h1.done c.key now (hc1 c rfl)) (fun _ e => by cases e)
              · exact ⟨fun p t i b e => (by simp only [Out.pkt.injEq] at e; exact e.1.symm), fun e => (by cases e)⟩
    unfold runFile
    cases cur with
    | some c => exact key false s (some c) h hc
    | none =>
      simp only []
      cases hg : getNextFile s prio now ticks with
      | mk s' r =>
        cases r with
        | none =>
          have : s' = s := by
            unfold getNextFile at hg
            split at hg
            · simp at hg; exact hg.symm
            · simp at hg
          subst this
          exact key true s' none h (fun _ e => by cases e)
        | some t =>
          obtain ⟨h1, hne⟩ := h.getNextFile ht hg
          simp only []
          cases ho : openFailed true s' (some (startCur s' t)) with
          | none =>
            exact key true s' (some (startCur s' t)) h1 (fun c e => by
              simp only [Option.some.injEq] at e; rw [← e]; exact hne)
          | some kf =>
            obtain ⟨k', f'⟩ := kf
            obtain ⟨_, c, e1, e2, _, _⟩ := openFailed_some ho
            simp only [Option.some.injEq] at e1
            subst e1
            have hk : k' = t := e2.symm
            subst hk
            simp only []
            exact ⟨fun _ _ _ _ e => (by cases e), fun _ => ⟨h1.done k' now hne, fun _ e => by cases e⟩⟩

/-! ### while an FDT instance is pending every file session yields -/

theorem publish_fdtQueue_ne (s : State) (now : Nat) : (publish s now).fdtQueue ≠ [] := by
  rw [publish_fdtQueue]; simp

theorem getNextFile_fdtQueue {s s' : State} {prio now : Nat} {ticks : List (Nat × Nat)} {r : Option Nat}
    (hg : getNextFile s prio now ticks = (s', r)) (h : s.fdtQueue ≠ []) : s'.fdtQueue ≠ [] := by
  unfold getNextFile at hg
  split at hg
  · simp only [Prod.mk.injEq] at hg; rw [← hg.1]; exact h
  · simp only [Prod.mk.injEq] at hg
    rw [← hg.1]
    unfold autoPublish
    split
    · exact publishTry_elim (P := fun x => x.fdtQueue ≠ []) _ now (publish_fdtQueue_ne _ now) h
    · exact h

theorem runFile_pending (fuel : Nat) (s : State) (prio : Nat) (cur : Option Cur) (now : Nat)
    (ticks : List (Nat × Nat)) (h : s.fdtQueue ≠ []) :
    (runFile (fuel + 1) s prio cur now ticks).2.2 = Out.none ∧
    (runFile (fuel + 1) s prio cur now ticks).1.fdtQueue ≠ [] := by
  have hne : ∀ s1 : State, s1.fdtQueue ≠ [] → (!s1.fdtQueue.isEmpty) = true := by
    intro s1 h1
    cases hq : s1.fdtQueue with
    | nil => exact absurd hq h1
    | cons a r => rfl
  unfold runFile
  cases cur with
  | some c => simp only [openFailed_false, hne s h, if_true]; exact ⟨trivial, h⟩
  | none =>
    simp only []
    cases hg : getNextFile s prio now ticks with
    | mk s' r =>
      have h' := getNextFile_fdtQueue hg h
      cases r with
      | none =>
        have ho : openFailed true s' none = none := rfl
        simp only [ho, hne s' h', if_true]; exact ⟨trivial, h'⟩
      | some t =>
        simp only []
        cases ho : openFailed true s' (some (startCur s' t)) with
        | none => simp only [hne s' h', if_true]; exact ⟨trivial, h'⟩
        | some kf =>
          obtain ⟨k', f'⟩ := kf
          simp only []
          exact ⟨trivial, by rw [transferDoneFile_fdtQueue]; exact h'⟩

theorem readQueue_pending : ∀ k s q now ticks, s.fdtQueue ≠ [] →
    (readQueue k s q now ticks).2.2 = Out.none ∧ (readQueue k s q now ticks).1.fdtQueue ≠ [] := by
  intro k
  induction k with
  | zero => intro s q now ticks h; exact ⟨rfl, h⟩
  | succ n ih =>
    intro s q now ticks h
    unfold readQueue
    split
    · exact ⟨rfl, h⟩
    · rename_i cur _
      have e : runFuel = 3 + 1 := rfl
      have hp := runFile_pending 3 s q.prio cur now ticks h
      rw [e]
      generalize runFile (3 + 1) s q.prio cur now ticks = r at hp
      obtain ⟨s', cur', out⟩ := r
      simp only [] at hp ⊢
      obtain ⟨h1, h2⟩ := hp
      subst h1
      exact ih _ _ _ _ h2

theorem readQueues_pending : ∀ qs s now ticks, s.fdtQueue ≠ [] →
    (readQueues s qs now ticks).2.2 = Out.none ∧ (readQueues s qs now ticks).1.fdtQueue ≠ [] := by
  intro qs
  induction qs with
  | nil => intro s now ticks h; exact ⟨rfl, h⟩
  | cons q rest ih =>
    intro s now ticks h
    unfold readQueues
    have hp := readQueue_pending q.slots.length s q now ticks h
    generalize readQueue q.slots.length s q now ticks = r at hp
    obtain ⟨s', q', out⟩ := r
    simp only [] at hp ⊢
    obtain ⟨h1, h2⟩ := hp
    subst h1
    simp only []
    have h3 := ih s' now ticks h2
    generalize readQueues s' rest now ticks = r2 at h3
    obtain ⟨s2, rest2, out2⟩ := r2
    exact h3

/-! ### the slot whose packet is due -/

theorem gateBlocked_congr {f f' : FileDesc} (h : f'.info = f.info) (now : Nat) : gateBlocked f' now = gateBlocked f now := by
  unfold gateBlocked; rw [h]

theorem runFile_due {k : Nat} {f : FileDesc} {P : Prop} (fuel : Nat) (s : State) (prio : Nat) (c : Cur) (now : Nat)
    (ticks : List (Nat × Nat)) (h : Kept k f P s) (hk : c.key = k) (hg : gateBlocked f now = false)
    (hs : c.enc.stopped = false) (hlt : c.enc.sent < f.nPk) :
    (∃ i b, (runFile (fuel + 1) s prio (some c) now ticks).2.2 = Out.pkt prio k i b) ∨
    ((runFile (fuel + 1) s prio (some c) now ticks).2.2 = Out.none ∧
     (runFile (fuel + 1) s prio (some c) now ticks).1.fdtQueue ≠ []) := by
  by_cases hq : s.fdtQueue = []
  · left
    obtain ⟨f', h1, h2, h3, _⟩ := h.obj
    unfold runFile
    simp only [hq, List.isEmpty_nil, Bool.not_true, Bool.false_eq_true, if_false]
    rw [hk, h1]
    simp only [gateBlocked_congr h2 now, hg, Bool.false_eq_true, if_false]
    rw [encRead_eq]
    have hs' : ¬ c.enc.stopped = true := by rw [hs]; simp
    have hlt' : c.enc.sent < (if f'.nSym = 0 then 1 else f'.nSym) := by
      have : f.nPk = (if f.nSym = 0 then 1 else f.nSym) := rfl
      rw [h3, ← this]; exact hlt
    rw [if_neg hs', if_pos hlt']
    exact ⟨_, _, rfl⟩
  · right
    exact runFile_pending fuel s prio (some c) now ticks hq

/-! ### queues that do not hold the due transfer -/

theorem readQueue_other {k : Nat} {f : FileDesc} {P : Prop} (ht : f.info.transferring = true) :
    ∀ steps (s : State) (q : QSess) now ticks, Kept k f P s →
    (∀ cur0 ∈ q.slots, ∀ c0, cur0 = some c0 → c0.key ≠ k) →
    (∀ p t i b, (readQueue steps s q now ticks).2.2 = Out.pkt p t i b → p = q.prio) ∧
    ((readQueue steps s q now ticks).2.2 = Out.none → Kept k f P (readQueue steps s q now ticks).1) := by
  intro steps
  induction steps with
  | zero => intro s q now ticks h _; exact ⟨fun _ _ _ _ e => (by cases e), fun _ => h⟩
  | succ n ih =>
    intro s q now ticks h hq
    unfold readQueue
    split
    · exact ⟨fun _ _ _ _ e => (by cases e), fun _ => h⟩
    · rename_i cur hcur
      have hmem : cur ∈ q.slots := List.mem_of_getElem? hcur
      have hr := runFile_other ht runFuel s q.prio cur now ticks h (hq cur hmem)
      generalize runFile runFuel s q.prio cur now ticks = r at hr
      obtain ⟨s', cur', out⟩ := r
      simp only [] at hr ⊢
      cases out with
      | none =>
        obtain ⟨h1, h2⟩ := hr.2 rfl
        simp only []
        refine ih s' _ now ticks h1 ?_
        intro cur0 hcur0 c0 e
        rcases List.mem_or_eq_of_mem_set hcur0 with hm | hm
        · exact hq cur0 hm c0 e
        · subst hm; exact h2 c0 e
      | hang => exact ⟨fun _ _ _ _ e => (by cases e), fun e => (by cases e)⟩
      | pkt a b c d => exact ⟨fun p t i b' e => (by rw [← hr.1 a b c d rfl]; cases e; rfl), fun e => (by cases e)⟩
      | fdt a b c => exact ⟨fun _ _ _ _ e => (by cases e), fun e => (by cases e)⟩

/-- cyclic distance from the round-robin index to slot `j` -/
def rrDist (idx j n : Nat) : Nat := if idx ≤ j then j - idx else j + n - idx

theorem readQueue_due {k : Nat} {f : FileDesc} {P : Prop} (ht : f.info.transferring = true) (c : Cur) (j n : Nat)
    (hk : c.key = k) (now : Nat) (hg : gateBlocked f now = false) (hs : c.enc.stopped = false)
    (hlt : c.enc.sent < f.nPk) (hj : j < n) :
    ∀ steps (s : State) (q : QSess) ticks, Kept k f P s → q.slots.length = n → q.index < n →
    q.slots[j]? = some (some c) →
    (∀ i c0, i ≠ j → q.slots[i]? = some (some c0) → c0.key ≠ k) →
    rrDist q.index j n < steps →
    (∀ p t i b, (readQueue steps s q now ticks).2.2 = Out.pkt p t i b → p = q.prio) ∧
    ((readQueue steps s q now ticks).2.2 = Out.none → (readQueue steps s q now ticks).1.fdtQueue ≠ []) := by
  intro steps
  induction steps with
  | zero => intro s q ticks _ _ _ _ _ hd; exact absurd hd (Nat.not_lt_zero _)
  | succ m ih =>
    intro s q ticks h hn hidx hjs hoth hd
    unfold readQueue
    split
    · rename_i hnone
      rw [List.getElem?_eq_none_iff] at hnone
      omega
    · rename_i cur hcur
      by_cases hij : q.index = j
      · -- the due slot
        rw [hij, hjs] at hcur
        simp only [Option.some.injEq] at hcur
        subst hcur
        have e : runFuel = 3 + 1 := rfl
        have hr := runFile_due 3 s q.prio c now ticks h hk hg hs hlt
        rw [e]
        generalize runFile (3 + 1) s q.prio (some c) now ticks = r at hr
        obtain ⟨s', cur', out⟩ := r
        simp only [] at hr ⊢
        rcases hr with ⟨i, b, hr⟩ | ⟨hr1, hr2⟩
        · subst hr
          exact ⟨fun p t i' b' e => (by cases e; rfl), fun e => (by cases e)⟩
        · subst hr1
          simp only []
          constructor
          · intro p t i b e
            rw [(readQueue_pending m s' _ now ticks hr2).1] at e
            cases e
          · intro _
            exact (readQueue_pending m s' _ now ticks hr2).2
      · have hne : ∀ c0, cur = some c0 → c0.key ≠ k := by
          intro c0 e; subst e
          exact hoth q.index c0 hij hcur
        have hr := runFile_other ht runFuel s q.prio cur now ticks h hne
        generalize runFile runFuel s q.prio cur now ticks = r at hr
        obtain ⟨s', cur', out⟩ := r
        simp only [] at hr ⊢
        cases out with
        | none =>
          obtain ⟨h1, h2⟩ := hr.2 rfl
          simp only []
          refine ih s' _ ticks h1 (by simp [hn]) ?_ ?_ ?_ ?_
          · show (if q.index + 1 = q.slots.length then 0 else q.index + 1) < n
            split <;> omega
          · show (q.slots.set q.index cur')[j]? = _
            rw [List.getElem?_set_ne hij]; exact hjs
          · intro i c0 hi hget
            have hget' : (q.slots.set q.index cur')[i]? = some (some c0) := hget
            by_cases hiq : q.index = i
            · subst hiq
              rw [List.getElem?_set_self (by omega)] at hget'
              simp only [Option.some.injEq] at hget'
              exact h2 c0 hget'
            · rw [List.getElem?_set_ne hiq] at hget'
              exact hoth i c0 hi hget'
          · show rrDist (if q.index + 1 = q.slots.length then 0 else q.index + 1) j n < m
            unfold rrDist at hd ⊢
            rw [hn]
            split <;> split <;> split at hd <;> omega
        | hang => exact ⟨fun _ _ _ _ e => (by cases e), fun e => (by cases e)⟩
        | pkt a b c' d => exact ⟨fun p t i b' e => (by rw [← hr.1 a b c' d rfl]; cases e; rfl), fun e => (by cases e)⟩
        | fdt a b c' => exact ⟨fun _ _ _ _ e => (by cases e), fun e => (by cases e)⟩

theorem rrDist_lt (idx j n : Nat) (h1 : idx < n) (h2 : j < n) : rrDist idx j n < n := by
  unfold rrDist; split <;> omega

theorem readQueues_due {k : Nat} {f : FileDesc} {P : Prop} (ht : f.info.transferring = true) (c : Cur) (j : Nat)
    (hk : c.key = k) (now : Nat) (hg : gateBlocked f now = false) (hs : c.enc.stopped = false)
    (hlt : c.enc.sent < f.nPk) (q : QSess) (post : List QSess) (ticks : List (Nat × Nat))
    (hidx : q.index < q.slots.length) (hjs : q.slots[j]? = some (some c))
    (hoth : ∀ i c0, i ≠ j → q.slots[i]? = some (some c0) → c0.key ≠ k) :
    ∀ (pre : List QSess) (s : State), Kept k f P s →
    (∀ q0 ∈ pre, ∀ cur0 ∈ q0.slots, ∀ c0, cur0 = some c0 → c0.key ≠ k) →
    (∀ p t i b, (readQueues s (pre ++ q :: post) now ticks).2.2 = Out.pkt p t i b →
      p ∈ (pre ++ [q]).map (fun x => x.prio)) ∧
    ((readQueues s (pre ++ q :: post) now ticks).2.2 = Out.none →
      (readQueues s (pre ++ q :: post) now ticks).1.fdtQueue ≠ []) := by
  have hj : j < q.slots.length := by
    rcases Nat.lt_or_ge j q.slots.length with h | h
    · exact h
    · rw [List.getElem?_eq_none h] at hjs; cases hjs
  intro pre
  induction pre with
  | nil =>
    intro s h _
    simp only [List.nil_append]
    unfold readQueues
    have hr := readQueue_due ht c j q.slots.length hk now hg hs hlt hj q.slots.length s q ticks h rfl hidx hjs hoth
      (rrDist_lt _ _ _ hidx hj)
    generalize readQueue q.slots.length s q now ticks = r at hr
    obtain ⟨s', q', out⟩ := r
    simp only [] at hr ⊢
    cases out with
    | none =>
      simp only []
      have hp := readQueues_pending post s' now ticks (hr.2 rfl)
      generalize readQueues s' post now ticks = r2 at hp
      obtain ⟨s2, rest2, out2⟩ := r2
      simp only [] at hp ⊢
      exact ⟨fun p t i b e => (by rw [hp.1] at e; cases e), fun _ => hp.2⟩
    | hang => exact ⟨fun _ _ _ _ e => (by cases e), fun e => (by cases e)⟩
    | pkt a b c' d =>
      exact ⟨fun p t i b' e => (by
        have := hr.1 a b c' d rfl
        cases e; simp [this]), fun e => (by cases e)⟩
    | fdt a b c' => exact ⟨fun _ _ _ _ e => (by cases e), fun e => (by cases e)⟩
  | cons q0 pre' ih =>
    intro s h hpre
    simp only [List.cons_append]
    unfold readQueues
    have hr := readQueue_other ht q0.slots.length s q0 now ticks h (hpre q0 List.mem_cons_self)
    generalize readQueue q0.slots.length s q0 now ticks = r at hr
    obtain ⟨s', q0', out⟩ := r
    simp only [] at hr ⊢
    cases out with
    | none =>
      simp only []
      have h2 := ih s' (hr.2 rfl) (fun q1 hq1 => hpre q1 (List.mem_cons_of_mem _ hq1))
      generalize readQueues s' (pre' ++ q :: post) now ticks = r2 at h2
      obtain ⟨s2, rest2, out2⟩ := r2
      simp only [] at h2 ⊢
      exact ⟨fun p t i b e => List.mem_cons_of_mem _ (h2.1 p t i b e), h2.2⟩
    | hang => exact ⟨fun _ _ _ _ e => (by cases e), fun e => (by cases e)⟩
    | pkt a b c' d =>
      exact ⟨fun p t i b' e => (by
        have := hr.1 a b c' d rfl
        cases e; simp [this]), fun e => (by cases e)⟩
    | fdt a b c' => exact ⟨fun _ _ _ _ e => (by cases e), fun e => (by cases e)⟩

/-- a pending FDT instance is started and its first packet returned by the FDT session -/
theorem runFdt_emits_pending {s : State} {L : Held} (fuel now : Nat) (hw : Wf s L) (hs : s.fdtSess = none)
    (hq : s.fdtQueue ≠ []) : ∃ k id i, (runFdt (fuel + 1) s now).2 = Out.fdt k id i := by
  unfold runFdt
  simp only [hs]
  -- get_next: not busy, nothing to publish, the head of the queue is popped and started
  have hbusy : fdtBusy s = false := hw.fdtSessNone hs
  have hmp : fdtMaybePublish s now = s := by
    unfold fdtMaybePublish currentFdtWillExpire
    cases hql : s.fdtQueue with
    | nil => exact absurd hql hq
    | cons a r => simp
  have hgn : fdtGetNext s now = fdtAdvance s now := by
    unfold fdtGetNext
    rw [hbusy, hmp]; simp
  rw [hgn]
  cases hql : s.fdtQueue with
  | nil => exact absurd hql hq
  | cons k rest =>
    obtain ⟨f, hf, hfr⟩ := hw.fdtQueue k (by rw [hql]; simp)
    have hsh := (hw.fdtKeys f (getF_mem hf)).2
    have hpop : fdtPop s = { s with curFdt := some k, fdtQueue := rest } := by unfold fdtPop; rw [hql]
    have hadv : fdtAdvance s now =
        { fdtStartStep (fdtPop s) k now with fdtSess := some (startFdtCur k) } := by
      unfold fdtAdvance fdtTryStart
      rw [hpop]
      simp only [hf, fresh_should_transfer hsh hfr, if_true]
    rw [hadv]
    simp only []
    have hkey : ∀ g : FileDesc, (transferInit g now 0).key = g.key := fun _ => rfl
    have hget : getF (fdtStartStep (fdtPop s) k now).fdts k = some (transferInit f now 0) := by
      show getF (updF (fdtPop s).fdts k _) k = _
      rw [fdtPop_fdts, getF_updF _ _ _ _ hkey, if_pos rfl, hf]; rfl
    have hget' : getF (fdtStartStep (fdtPop s) k now).fdts (startFdtCur k).key = some (transferInit f now 0) := hget
    rw [hget']
    simp only [gate_of_shape (transferInit_shape hsh now 0), Bool.false_eq_true, if_false]
    obtain ⟨b, e, he⟩ := encRead_fresh (transferInit f now 0).nSym false false
    have : (startFdtCur k).enc = { sent := 0, stopped := false, closable := false } := rfl
    rw [this, he]
    exact ⟨_, _, _, rfl⟩

/-! ### round-robin indices stay inside their slot lists -/

def IdxOk (qs : List QSess) : Prop := ∀ q ∈ qs, q.index < q.slots.length

theorem readQueue_idx : ∀ k s q now ticks, q.index < q.slots.length →
    (readQueue k s q now ticks).2.1.index < (readQueue k s q now ticks).2.1.slots.length := by
  intro k
  induction k with
  | zero => intro s q now ticks h; exact h
  | succ n ih =>
    intro s q now ticks h
    unfold readQueue
    split
    · exact h
    · generalize runFile runFuel s q.prio _ now ticks = r
      obtain ⟨s', cur', out⟩ := r
      simp only []
      have hq' : (if q.index + 1 = q.slots.length then 0 else q.index + 1) < (q.slots.set q.index cur').length := by
        rw [List.length_set]; split <;> omega
      cases out with
      | none => exact ih _ _ _ _ hq'
      | hang => exact hq'
      | pkt a b c d => exact hq'
      | fdt a b c => exact hq'

theorem readQueues_idx : ∀ qs s now ticks, IdxOk qs → IdxOk (readQueues s qs now ticks).2.1 := by
  intro qs
  induction qs with
  | nil => intro s now ticks h; exact h
  | cons q rest ih =>
    intro s now ticks h
    unfold readQueues
    have h1 := readQueue_idx q.slots.length s q now ticks (h q List.mem_cons_self)
    generalize readQueue q.slots.length s q now ticks = r at h1
    obtain ⟨s', q', out⟩ := r
    simp only [] at h1 ⊢
    have hrest : IdxOk rest := fun q0 hq0 => h q0 (List.mem_cons_of_mem _ hq0)
    cases out with
    | none =>
      simp only []
      have h2 := ih s' now ticks hrest
      generalize readQueues s' rest now ticks = r2 at h2
      obtain ⟨s2, rest2, out2⟩ := r2
      intro q0 hq0
      rcases List.mem_cons.mp hq0 with rfl | hq0
      · exact h1
      · exact h2 q0 hq0
    | hang => intro q0 hq0; rcases List.mem_cons.mp hq0 with rfl | hq0; exact h1; exact hrest q0 hq0
    | pkt a b c d => intro q0 hq0; rcases List.mem_cons.mp hq0 with rfl | hq0; exact h1; exact hrest q0 hq0
    | fdt a b c => intro q0 hq0; rcases List.mem_cons.mp hq0 with rfl | hq0; exact h1; exact hrest q0 hq0

theorem read_idx (s : State) (now : Nat) (ticks : List (Nat × Nat)) (h : IdxOk s.sessions) :
    IdxOk (read s now ticks).1.sessions := by
  unfold read
  have h1 := runFdt_sessions runFuel (emit s (.opRead now)) now
  generalize runFdt runFuel (emit s (.opRead now)) now = r at h1
  obtain ⟨s1, o⟩ := r
  simp only [emit_sessions] at h1
  have hs1 : IdxOk s1.sessions := by rw [h1]; exact h
  cases o with
  | none =>
    simp only []
    unfold readMid
    have h2 := readQueues_idx s1.sessions { s1 with quiet := true } now ticks hs1
    generalize readQueues { s1 with quiet := true } s1.sessions now ticks = r2 at h2
    obtain ⟨s2, qs, o2⟩ := r2
    simp only [] at h2 ⊢
    cases o2 with
    | none => simp only []; rw [readTail_sessions]; exact h2
    | hang => exact h2
    | pkt a b c d => exact h2
    | fdt a b c => exact h2
  | hang => exact hs1
  | pkt a b c d => exact hs1
  | fdt a b c => exact hs1

theorem run_idx (cfg : Cfg) (tbl : List Nat) (ops : List Op) : IdxOk (run (init cfg tbl) ops).sessions := by
  have step_idx : ∀ (s : State) (op : Op), IdxOk s.sessions → IdxOk (step s op).sessions := by
    intro s op h
    cases op with
    | add a =>
      have : (addObject s a).1.sessions = s.sessions := by
        unfold addObject; simp only []; split
        · rfl
        · split <;> rfl
      show IdxOk (addObject s a).1.sessions; rw [this]; exact h
    | publish now =>
      show IdxOk (publishOp s now).sessions
      unfold publishOp; rw [publishTry_sessions]; exact h
    | remove t =>
      have : (removeObject s t).1.sessions = s.sessions := by unfold removeObject; split <;> rfl
      show IdxOk (removeObject s t).1.sessions; rw [this]; exact h
    | trigger t ts =>
      have : (triggerTransferAt s t ts).1.sessions = s.sessions := by
        unfold triggerTransferAt; split
        · rfl
        · split <;> rfl
      show IdxOk (triggerTransferAt s t ts).1.sessions; rw [this]; exact h
    | read now ticks => exact read_idx s now ticks h
    | setComplete => exact h
  have : ∀ (ops : List Op) (s : State), IdxOk s.sessions → IdxOk (run s ops).sessions := by
    intro ops
    induction ops with
    | nil => intro s h; exact h
    | cons op rest ih => intro s h; exact ih _ (step_idx s op h)
  apply this
  intro q hq
  simp only [init, List.mem_map] at hq
  obtain ⟨pm, _, rfl⟩ := hq
  simp only [List.length_replicate]
  split <;> omega

/-! ### distinct slot contents -/

theorem mem_held_of_slot {pre : List QSess} {q0 : QSess} {c0 : Cur} (hq : q0 ∈ pre) (hc : some c0 ∈ q0.slots) :
    (q0.prio, c0) ∈ held pre := by
  unfold held
  refine List.mem_flatMap.mpr ⟨q0, hq, ?_⟩
  unfold heldQ heldSlots
  exact List.mem_flatMap.mpr ⟨some c0, hc, by simp [optHeld]⟩

theorem heldSlots_distinct (p : Nat) : ∀ (l : List (Option Cur)) (i j : Nat) (c0 c : Cur),
    ((heldSlots p l).map (fun pc => pc.2.key)).Nodup → l[i]? = some (some c0) → l[j]? = some (some c) → i ≠ j →
    c0.key ≠ c.key := by
  intro l
  induction l with
  | nil => intro i j c0 c _ h; simp at h
  | cons a r ih =>
    intro i j c0 c hn hi hj hij
    have e : heldSlots p (a :: r) = optHeld p a ++ heldSlots p r := by simp [heldSlots]
    rw [e, List.map_append, List.nodup_append] at hn
    obtain ⟨_, hn2, hn3⟩ := hn
    cases i with
    | zero =>
      cases j with
      | zero => exact absurd rfl hij
      | succ j' =>
        simp only [List.getElem?_cons_zero, Option.some.injEq] at hi
        simp only [List.getElem?_cons_succ] at hj
        subst hi
        have h1 : c0.key ∈ (optHeld p (some c0)).map (fun pc => pc.2.key) := by simp [optHeld]
        have h2 : c.key ∈ (heldSlots p r).map (fun pc => pc.2.key) := by
          refine List.mem_map.mpr ⟨(p, c), ?_, rfl⟩
          unfold heldSlots
          exact List.mem_flatMap.mpr ⟨some c, List.mem_of_getElem? hj, by simp [optHeld]⟩
        exact hn3 _ h1 _ h2
    | succ i' =>
      cases j with
      | zero =>
        simp only [List.getElem?_cons_zero, Option.some.injEq] at hj
        simp only [List.getElem?_cons_succ] at hi
        subst hj
        have h1 : c.key ∈ (optHeld p (some c)).map (fun pc => pc.2.key) := by simp [optHeld]
        have h2 : c0.key ∈ (heldSlots p r).map (fun pc => pc.2.key) := by
          refine List.mem_map.mpr ⟨(p, c0), ?_, rfl⟩
          unfold heldSlots
          exact List.mem_flatMap.mpr ⟨some c0, List.mem_of_getElem? hi, by simp [optHeld]⟩
        exact fun e => hn3 _ h1 _ h2 e.symm
      | succ j' =>
        simp only [List.getElem?_cons_succ] at hi hj
        exact ih i' j' c0 c hn2 hi hj (fun e => hij (by rw [e]))

/-- Strict priority / pacing progress (pre-state form) for every reachable state:
    if a slot of queue `q` holds a transfer whose next packet is due at `now`, then `read` does not return
    `None`, and an object packet it returns belongs to `q` or to a queue visited before `q`. -/
theorem read_due (cfg : Cfg) (tbl : List Nat) (ops : List Op) (pre post : List QSess) (q : QSess) (j : Nat) (c : Cur)
    (f : FileDesc) (now : Nat) (ticks : List (Nat × Nat))
    (hsess : (run (init cfg tbl) ops).sessions = pre ++ q :: post)
    (hjs : q.slots[j]? = some (some c)) (hf : getF (run (init cfg tbl) ops).objs c.key = some f)
    (hg : gateBlocked f now = false) (hs : c.enc.stopped = false) (hlt : c.enc.sent < f.nPk) :
    (read (run (init cfg tbl) ops) now ticks).2 ≠ Out.none ∧
    ∀ p t i b, (read (run (init cfg tbl) ops) now ticks).2 = Out.pkt p t i b →
      p ∈ (pre ++ [q]).map (fun x => x.prio) := by
  have hwq := run_inv Wf.closed Wf.closedOps ops (init cfg tbl) (by rw [heldOf_init]; exact Wf.init cfg tbl) rfl
  have hidx := run_idx cfg tbl ops
  generalize run (init cfg tbl) ops = s at *
  obtain ⟨hw, hquiet⟩ := hwq
  -- facts about the slots from the structural invariant
  have hheld : heldOf s = held pre ++ (heldQ q ++ held post) := by
    unfold heldOf; rw [hsess]; simp [held]
  have hcq : (q.prio, c) ∈ heldQ q := by
    unfold heldQ heldSlots
    exact List.mem_flatMap.mpr ⟨some c, List.mem_of_getElem? hjs, by simp [optHeld]⟩
  have hcin : (q.prio, c) ∈ heldOf s := by rw [hheld]; exact List.mem_append_right _ (List.mem_append_left _ hcq)
  obtain ⟨f0, hf0, htr, _⟩ := hw.heldObj _ hcin
  rw [hf] at hf0; cases hf0
  have hnd := hw.heldNodup
  rw [hheld, List.map_append, List.nodup_append] at hnd
  obtain ⟨_, hnd2, hnd3⟩ := hnd
  have hpre : ∀ q0 ∈ pre, ∀ cur0 ∈ q0.slots, ∀ c0, cur0 = some c0 → c0.key ≠ c.key := by
    intro q0 hq0 cur0 hcur0 c0 e
    subst e
    have h1 : c0.key ∈ (held pre).map (fun pc => pc.2.key) :=
      List.mem_map.mpr ⟨_, mem_held_of_slot hq0 hcur0, rfl⟩
    have h2 : c.key ∈ (heldQ q ++ held post).map (fun pc => pc.2.key) :=
      List.mem_map.mpr ⟨_, List.mem_append_left _ hcq, rfl⟩
    exact hnd3 _ h1 _ h2
  have hoth : ∀ i c0, i ≠ j → q.slots[i]? = some (some c0) → c0.key ≠ c.key := by
    intro i c0 hij hi
    rw [List.map_append, List.nodup_append] at hnd2
    exact heldSlots_distinct q.prio q.slots i j c0 c hnd2.1 hi hjs hij
  have hqidx : q.index < q.slots.length := hidx q (by rw [hsess]; simp)
  have hkept : Kept c.key f (c.key ∈ s.files) s := ⟨⟨f, hf, rfl, rfl, rfl⟩, Iff.rfl⟩
  -- first poll of the FDT session
  unfold read
  have hw0 : Wf (emit s (.opRead now)) (heldOf s) := Wf.emit _ hw
  have hk0 : Kept c.key f (c.key ∈ s.files) (emit s (.opRead now)) := hkept.same rfl rfl
  have hk1 := Kept.runFdt runFuel (emit s (.opRead now)) now hk0
  have hw1 := runFdt_inv Wf.closed runFuel (emit s (.opRead now)) now _ hw0 hquiet
  have hs1 := runFdt_sessions runFuel (emit s (.opRead now)) now
  have ho1 := runFdt_out runFuel (emit s (.opRead now)) now
  generalize hr1 : runFdt runFuel (emit s (.opRead now)) now = r1 at hk1 hw1 hs1 ho1
  obtain ⟨s1, o1⟩ := r1
  simp only [emit_sessions] at hk1 hw1 hs1 ho1
  cases o1 with
  | hang => exact ⟨by simp, fun _ _ _ _ e => (by cases e)⟩
  | fdt a b c' => exact ⟨by simp, fun _ _ _ _ e => (by cases e)⟩
  | pkt a b c' d => exact absurd rfl (ho1 a b c' d)
  | none =>
    simp only []
    have hq1 := runFdt_none runFuel (emit s (.opRead now)) now s1 hr1
    have hw1q : Wf { s1 with quiet := true } (heldOf s) := Wf.enterFiles now hw1.1 hq1
    have hk1q : Kept c.key f (c.key ∈ s.files) { s1 with quiet := true } := hk1.same rfl rfl
    have hSsess : ({ s1 with quiet := true } : State).sessions = pre ++ q :: post := by
      show s1.sessions = _; rw [hs1, hsess]
    have hSq : ({ s1 with quiet := true } : State).quiet = true := rfl
    generalize ({ s1 with quiet := true } : State) = S at hw1q hk1q hSsess hSq ⊢
    unfold readMid
    simp only []
    rw [hSsess]
    have hdue := readQueues_due htr c j rfl now hg hs hlt q post ticks hqidx hjs hoth pre S hk1q hpre
    have hwq2 := readQueues_inv Wf.closed (pre ++ q :: post) S now ticks []
      (by simpa [heldOf, hsess] using hw1q) hSq
    generalize readQueues S (pre ++ q :: post) now ticks = r2 at hdue hwq2
    obtain ⟨s2, qs, o2⟩ := r2
    simp only [List.append_nil] at hdue hwq2 ⊢
    cases o2 with
    | hang => exact ⟨by simp, fun _ _ _ _ e => (by cases e)⟩
    | fdt a b c' => exact ⟨by simp, fun _ _ _ _ e => (by cases e)⟩
    | pkt a b c' d => exact ⟨by simp, fun p t i b' e => (by cases e; exact hdue.1 a b c' d rfl)⟩
    | none =>
      simp only []
      have hfq := hdue.2 rfl
      have hw2 : Wf { s2 with sessions := qs, quiet := false } (held qs) := Wf.leaveFiles qs hwq2.1
      have hsess2 : ({ s2 with sessions := qs, quiet := false } : State).fdtSess = none := hwq2.1.quiet hwq2.2
      unfold readTail
      have e : runFuel = 3 + 1 := rfl
      obtain ⟨k', id, i', he⟩ := runFdt_emits_pending 3 now hw2 hsess2 hfq
      rw [e]
      generalize runFdt (3 + 1) ({ s2 with sessions := qs, quiet := false } : State) now = r3 at he
      obtain ⟨s3, o3⟩ := r3
      simp only [] at he
      subst he
      exact ⟨by simp, fun _ _ _ _ e => (by cases e)⟩

/-- in a configuration sorted by priority (a `BTreeMap`) the queues visited up to `q` have priority ≤ `q.prio` -/
theorem prio_le_of_sorted (cfg : Cfg) (tbl : List Nat) (ops : List Op) (pre post : List QSess) (q : QSess)
    (hsorted : (cfg.queues.map (fun x => x.1)).Pairwise (fun a b => a < b))
    (hsess : (run (init cfg tbl) ops).sessions = pre ++ q :: post) :
    ∀ p ∈ (pre ++ [q]).map (fun x => x.prio), p ≤ q.prio := by
  have hsh := run_shape cfg tbl ops
  rw [hsess] at hsh
  have hp : (pre ++ q :: post).map (fun x => x.prio) = cfg.queues.map (fun x => x.1) := by
    have := congrArg (List.map (fun x : Nat × Nat => x.1)) hsh
    simp only [shape, List.map_map] at this
    exact this
  rw [← hp, List.map_append, List.pairwise_append] at hsorted
  obtain ⟨_, _, h3⟩ := hsorted
  intro p hp'
  rw [List.map_append, List.mem_append] at hp'
  rcases hp' with h | h
  · exact Nat.le_of_lt (h3 p h q.prio (by simp))
  · simp at h; omega

end Flute.Sched
