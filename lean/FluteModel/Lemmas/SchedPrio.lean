import FluteModel.Lemmas.SchedTime
/-
  Strict priority / pacing progress, pre-state form: if some slot of queue `q` holds a transfer whose next packet
  is due at `now` (gate open, encoder not drained), then `read` returns an FDT packet or a packet of `q` or of
  a queue visited before `q` - never `None`, never a packet of a later (lower-priority) queue.
-/
namespace Flute.Sched

/-- the object `k` is in transfer, untouched: same `TransferInfo`, same size, same membership in the FDT -/
structure Kept (k : Nat) (f : FileDesc) (inFiles : Prop) (s : State) : Prop where
  obj : ∃ f', getF s.objs k = some f' ∧ f'.info = f.info ∧ f'.nSym = f.nSym ∧ f'.allowStop = f.allowStop
  files : k ∈ s.files ↔ inFiles

theorem Kept.updOther {k : Nat} {f : FileDesc} {P : Prop} {s s' : State} (h : Kept k f P s) (k' : Nat)
    (g : FileDesc → FileDesc) (hg : ∀ x, (g x).key = x.key) (hne : k' ≠ k)
    (ho : s'.objs = updF s.objs k' g) (hf : k ∈ s'.files ↔ k ∈ s.files) : Kept k f P s' := by
  obtain ⟨f', h1, h2⟩ := h.obj
  exact ⟨⟨f', by rw [ho, getF_updF _ _ _ _ hg, if_neg (fun e => hne e.symm)]; exact h1, h2⟩, hf.trans h.files⟩

theorem Kept.publish {k : Nat} {f : FileDesc} {P : Prop} {s : State} (h : Kept k f P s) (now : Nat) :
    Kept k f P (publish s now) := by
  obtain ⟨f', h1, h2, h3, h4⟩ := h.obj
  refine ⟨⟨pubMark s.files f', by rw [publish_getF_objs, h1]; rfl, ?_, ?_, ?_⟩, h.files⟩
  · rw [pubMark_info]; exact h2
  · unfold pubMark; split <;> exact h3
  · unfold pubMark; split <;> exact h4

theorem Kept.same {k : Nat} {f : FileDesc} {P : Prop} {s s' : State} (h : Kept k f P s)
    (ho : s'.objs = s.objs) (hf : s'.files = s.files) : Kept k f P s' := by
  exact ⟨by rw [ho]; exact h.obj, by rw [hf]; exact h.files⟩

/-! ### the FDT session does not touch objects in transfer -/

theorem Kept.fdtAdvance {k : Nat} {f : FileDesc} {P : Prop} {s : State} (h : Kept k f P s) (now : Nat) :
    Kept k f P (Sched.fdtAdvance s now) := by
  rcases fdtAdvance_cases s now with ⟨e, _⟩ | ⟨k', f', _, _, _, e⟩
  · rw [e]; exact h.same (fdtPop_objs s) (fdtPop_files s)
  · rw [e]; exact h.same (fdtPop_objs s) (fdtPop_files s)

theorem Kept.fdtGetNext {k : Nat} {f : FileDesc} {P : Prop} {s : State} (h : Kept k f P s) (now : Nat) :
    Kept k f P (Sched.fdtGetNext s now) := by
  unfold Sched.fdtGetNext
  split
  · exact h
  · apply Kept.fdtAdvance
    unfold fdtMaybePublish
    split
    · exact h.publish now
    · exact h

theorem Kept.runFdt {k : Nat} {f : FileDesc} {P : Prop} : ∀ fuel (s : State) now, Kept k f P s →
    Kept k f P (Sched.runFdt fuel s now).1 := by
  intro fuel
  induction fuel with
  | zero => intro s now h; exact h
  | succ n ih =>
    intro s now h
    unfold Sched.runFdt
    have key : ∀ s1 : State, Kept k f P s1 →
        Kept k f P (match s1.fdtSess with
          | none => (s1, Out.none)
          | some c =>
            match getF s1.fdts c.key with
            | none => (s1, Out.none)
            | some f =>
              if gateBlocked f now then (s1, Out.none) else
              match encRead f.nSym c.enc false with
              | (none, _) => Sched.runFdt n (fdtRelease s1 c.key now) now
              | (some (idx, _), e) => (fdtStep s1 c e f.fdtId now idx, Out.fdt c.key f.fdtId idx)).1 := by
      intro s1 h1
      split
      · exact h1
      · rename_i c _
        split
        · exact h1
        · split
          · exact h1
          · split
            · apply ih
              exact h1.same (by unfold fdtRelease; exact transferDoneFdt_objs s1 c.key now)
                (by unfold fdtRelease; exact transferDoneFdt_files s1 c.key now)
            · exact h1.same rfl rfl
    cases hs : s.fdtSess with
    | some c => simp only []; exact key s h
    | none => simp only []; exact key _ (h.fdtGetNext now)

/-! ### a file session that returns nothing does not touch the other objects in transfer -/

theorem Kept.getNextFile {k : Nat} {f : FileDesc} {P : Prop} {s s' : State} {prio now t : Nat}
    {ticks : List (Nat × Nat)} (h : Kept k f P s) (ht : f.info.transferring = true)
    (hg : getNextFile s prio now ticks = (s', some t)) : Kept k f P s' ∧ t ≠ k := by
  unfold Sched.getNextFile at hg
  split at hg
  · simp at hg
  · rename_i t' hf
    simp only [Prod.mk.injEq, Option.some.injEq] at hg
    obtain ⟨e1, e2⟩ := hg
    subst e2
    obtain ⟨_, _, _, _, g, hgg, hst⟩ := findNext_spec s prio now s.queue t' hf
    obtain ⟨_, hgt, _, _⟩ := shouldTransferNow_true hst
    have hne : t' ≠ k := by
      intro e
      obtain ⟨f', h1, h2, _⟩ := h.obj
      rw [e, h1] at hgg; cases hgg
      rw [h2, ht] at hgt; cases hgt
    have h1 : Kept k f P (fileStartStep s t' now (tkGet ticks t')) :=
      h.updOther t' (fun g => transferInit g now (tkGet ticks t')) (fun _ => rfl) hne rfl Iff.rfl
    refine ⟨?_, hne⟩
    rw [← e1]
    unfold autoPublish
    split
    · exact h1.publish now
    · exact h1

theorem Kept.done {k : Nat} {f : FileDesc} {P : Prop} {s : State} (h : Kept k f P s) (x now : Nat) (hne : x ≠ k) :
    Kept k f P (transferDoneFile s x now) := by
  refine h.updOther x (fun g => transferDoneInfo g now) (fun _ => rfl) hne (transferDoneFile_objs s x now) ?_
  rw [transferDoneFile_eq]
  split
  · exact Iff.rfl
  · split
    · split
      · exact Iff.rfl
      · exact ⟨fun hm => List.mem_of_mem_erase hm, fun hm => (List.mem_erase_of_ne (fun e => hne e.symm)).mpr hm⟩
    · exact Iff.rfl

/-- `SenderSession::run` of a slot that does not hold `k`: whatever it returns, a packet has the slot's priority;
    if it returns nothing, `k` is untouched and the slot still does not hold `k` -/
theorem runFile_other {k : Nat} {f : FileDesc} {P : Prop} (ht : f.info.transferring = true) :
    ∀ fuel (s : State) prio (cur : Option Cur) now ticks, Kept k f P s → (∀ c, cur = some c → c.key ≠ k) →
    let r := runFile fuel s prio cur now ticks
    (∀ p t i b, r.2.2 = Out.pkt p t i b → p = prio) ∧
    (r.2.2 = Out.none → Kept k f P r.1 ∧ ∀ c, r.2.1 = some c → c.key ≠ k) := by
  intro fuel
  induction fuel with
  | zero => intro s prio cur now ticks _ _; simp [runFile]
  | succ n ih =>
    intro s prio cur now ticks h hc
    have key : ∀ (s1 : State) (cur1 : Option Cur), Kept k f P s1 → (∀ c, cur1 = some c → c.key ≠ k) →
        let r := (if !s1.fdtQueue.isEmpty then (s1, cur1, Out.none) else
          match cur1 with
          | none => (s1, none, Out.none)
          | some c =>
            match getF s1.objs c.key with
            | none => (s1, cur1, Out.none)
            | some f =>
              if gateBlocked f now then (s1, cur1, Out.none) else
              match encRead f.nSym c.enc (canStop f && !s1.files.contains c.key) with
              | (none, _) => runFile n (transferDoneFile s1 c.key now) prio none now ticks
              | (some (idx, b), e) => (pktStep s1 prio c.key now idx b, some { c with enc := e }, Out.pkt prio c.key idx b))
        (∀ p t i b, r.2.2 = Out.pkt p t i b → p = prio) ∧
        (r.2.2 = Out.none → Kept k f P r.1 ∧ ∀ c, r.2.1 = some c → c.key ≠ k) := by
      intro s1 cur1 h1 hc1
      simp only []
      split
      · exact ⟨fun _ _ _ _ e => (by cases e), fun _ => ⟨h1, hc1⟩⟩
      · cases cur1 with
        | none => exact ⟨fun _ _ _ _ e => (by cases e), fun _ => ⟨h1, hc1⟩⟩
        | some c =>
          simp only []
          split
          · exact ⟨fun _ _ _ _ e => (by cases e), fun _ => ⟨h1, hc1⟩⟩
          · split
            · exact ⟨fun _ _ _ _ e => (by cases e), fun _ => ⟨h1, hc1⟩⟩
            · split
              · exact ih _ prio none now ticks (h1.done c.key now (hc1 c rfl)) (fun _ e => by cases e)
              · exact ⟨fun p t i b e => (by simp only [Out.pkt.injEq] at e; exact e.1.symm), fun e => (by cases e)⟩
    unfold runFile
    cases cur with
    | some c => exact key s (some c) h hc
    | none =>
      simp only []
      cases hg : getNextFile s prio now ticks with
      | mk s' r =>
        cases r with
        | none =>
          have : s' = s := by
            unfold getNextFile at hg
            split at hg
            · simp at hg; exact hg.symm
            · simp at hg
          subst this
          exact key s' none h (fun _ e => by cases e)
        | some t =>
          obtain ⟨h1, hne⟩ := h.getNextFile ht hg
          exact key s' (some (startCur s' t)) h1 (fun c e => by
            simp only [Option.some.injEq] at e; rw [← e]; exact hne)

/-! ### while an FDT instance is pending every file session yields -/

theorem publish_fdtQueue_ne (s : State) (now : Nat) : (publish s now).fdtQueue ≠ [] := by
  rw [publish_fdtQueue]; simp

theorem getNextFile_fdtQueue {s s' : State} {prio now : Nat} {ticks : List (Nat × Nat)} {r : Option Nat}
    (hg : getNextFile s prio now ticks = (s', r)) (h : s.fdtQueue ≠ []) : s'.fdtQueue ≠ [] := by
  unfold getNextFile at hg
  split at hg
  · simp only [Prod.mk.injEq] at hg; rw [← hg.1]; exact h
  · simp only [Prod.mk.injEq] at hg
    rw [← hg.1]
    unfold autoPublish
    split
    · exact publish_fdtQueue_ne _ now
    · exact h

theorem runFile_pending (fuel : Nat) (s : State) (prio : Nat) (cur : Option Cur) (now : Nat)
    (ticks : List (Nat × Nat)) (h : s.fdtQueue ≠ []) :
    (runFile (fuel + 1) s prio cur now ticks).2.2 = Out.none ∧
    (runFile (fuel + 1) s prio cur now ticks).1.fdtQueue ≠ [] := by
  have hne : ∀ s1 : State, s1.fdtQueue ≠ [] → (!s1.fdtQueue.isEmpty) = true := by
    intro s1 h1
    cases hq : s1.fdtQueue with
    | nil => exact absurd hq h1
    | cons a r => rfl
  unfold runFile
  cases cur with
  | some c => simp only [hne s h, if_true]; exact ⟨trivial, h⟩
  | none =>
    simp only []
    cases hg : getNextFile s prio now ticks with
    | mk s' r =>
      have h' := getNextFile_fdtQueue hg h
      cases r with
      | none => simp only [hne s' h', if_true]; exact ⟨trivial, h'⟩
      | some t => simp only [hne s' h', if_true]; exact ⟨trivial, h'⟩

theorem readQueue_pending : ∀ k s q now ticks, s.fdtQueue ≠ [] →
    (readQueue k s q now ticks).2.2 = Out.none ∧ (readQueue k s q now ticks).1.fdtQueue ≠ [] := by
  intro k
  induction k with
  | zero => intro s q now ticks h; exact ⟨rfl, h⟩
  | succ n ih =>
    intro s q now ticks h
    unfold readQueue
    split
    · exact ⟨rfl, h⟩
    · rename_i cur _
      have e : runFuel = 3 + 1 := rfl
      have hp := runFile_pending 3 s q.prio cur now ticks h
      rw [e]
      generalize runFile (3 + 1) s q.prio cur now ticks = r at hp
      obtain ⟨s', cur', out⟩ := r
      simp only [] at hp ⊢
      obtain ⟨h1, h2⟩ := hp
      subst h1
      exact ih _ _ _ _ h2

theorem readQueues_pending : ∀ qs s now ticks, s.fdtQueue ≠ [] →
    (readQueues s qs now ticks).2.2 = Out.none ∧ (readQueues s qs now ticks).1.fdtQueue ≠ [] := by
  intro qs
  induction qs with
  | nil => intro s now ticks h; exact ⟨rfl, h⟩
  | cons q rest ih =>
    intro s now ticks h
    unfold readQueues
    have hp := readQueue_pending q.slots.length s q now ticks h
    generalize readQueue q.slots.length s q now ticks = r at hp
    obtain ⟨s', q', out⟩ := r
    simp only [] at hp ⊢
    obtain ⟨h1, h2⟩ := hp
    subst h1
    simp only []
    have h3 := ih s' now ticks h2
    generalize readQueues s' rest now ticks = r2 at h3
    obtain ⟨s2, rest2, out2⟩ := r2
    exact h3

/-! ### the slot whose packet is due -/

theorem gateBlocked_congr {f f' : FileDesc} (h : f'.info = f.info) (now : Nat) : gateBlocked f' now = gateBlocked f now := by
  unfold gateBlocked; rw [h]

theorem runFile_due {k : Nat} {f : FileDesc} {P : Prop} (fuel : Nat) (s : State) (prio : Nat) (c : Cur) (now : Nat)
    (ticks : List (Nat × Nat)) (h : Kept k f P s) (hk : c.key = k) (hg : gateBlocked f now = false)
    (hs : c.enc.stopped = false) (hlt : c.enc.sent < f.nPk) :
    (∃ i b, (runFile (fuel + 1) s prio (some c) now ticks).2.2 = Out.pkt prio k i b) ∨
    ((runFile (fuel + 1) s prio (some c) now ticks).2.2 = Out.none ∧
     (runFile (fuel + 1) s prio (some c) now ticks).1.fdtQueue ≠ []) := by
  by_cases hq : s.fdtQueue = []
  · left
    obtain ⟨f', h1, h2, h3, _⟩ := h.obj
    unfold runFile
    simp only [hq, List.isEmpty_nil, Bool.not_true, Bool.false_eq_true, if_false]
    rw [hk, h1]
    simp only [gateBlocked_congr h2 now, hg, Bool.false_eq_true, if_false]
    rw [encRead_eq]
    have hs' : ¬ c.enc.stopped = true := by rw [hs]; simp
    have hlt' : c.enc.sent < (if f'.nSym = 0 then 1 else f'.nSym) := by
      have : f.nPk = (if f.nSym = 0 then 1 else f.nSym) := rfl
      rw [h3, ← this]; exact hlt
    rw [if_neg hs', if_pos hlt']
    exact ⟨_, _, rfl⟩
  · right
    exact runFile_pending fuel s prio (some c) now ticks hq

/-! ### queues that do not hold the due transfer -/

theorem readQueue_other {k : Nat} {f : FileDesc} {P : Prop} (ht : f.info.transferring = true) :
    ∀ steps (s : State) (q : QSess) now ticks, Kept k f P s →
    (∀ cur0 ∈ q.slots, ∀ c0, cur0 = some c0 → c0.key ≠ k) →
    (∀ p t i b, (readQueue steps s q now ticks).2.2 = Out.pkt p t i b → p = q.prio) ∧
    ((readQueue steps s q now ticks).2.2 = Out.none → Kept k f P (readQueue steps s q now ticks).1) := by
  intro steps
  induction steps with
  | zero => intro s q now ticks h _; exact ⟨fun _ _ _ _ e => (by cases e), fun _ => h⟩
  | succ n ih =>
    intro s q now ticks h hq
    unfold readQueue
    split
    · exact ⟨fun _ _ _ _ e => (by cases e), fun _ => h⟩
    · rename_i cur hcur
      have hmem : cur ∈ q.slots := List.mem_of_getElem? hcur
      have hr := runFile_other ht runFuel s q.prio cur now ticks h (hq cur hmem)
      generalize runFile runFuel s q.prio cur now ticks = r at hr
      obtain ⟨s', cur', out⟩ := r
      simp only [] at hr ⊢
      cases out with
      | none =>
        obtain ⟨h1, h2⟩ := hr.2 rfl
        simp only []
        refine ih s' _ now ticks h1 ?_
        intro cur0 hcur0 c0 e
        rcases List.mem_or_eq_of_mem_set hcur0 with hm | hm
        · exact hq cur0 hm c0 e
        · subst hm; exact h2 c0 e
      | hang => exact ⟨fun _ _ _ _ e => (by cases e), fun e => (by cases e)⟩
      | pkt a b c d => exact ⟨fun p t i b' e => (by rw [← hr.1 a b c d rfl]; cases e; rfl), fun e => (by cases e)⟩
      | fdt a b c => exact ⟨fun _ _ _ _ e => (by cases e), fun e => (by cases e)⟩

/-- cyclic distance from the round-robin index to slot `j` -/
def rrDist (idx j n : Nat) : Nat := if idx ≤ j then j - idx else j + n - idx

theorem readQueue_due {k : Nat} {f : FileDesc} {P : Prop} (ht : f.info.transferring = true) (c : Cur) (j n : Nat)
    (hk : c.key = k) (now : Nat) (hg : gateBlocked f now = false) (hs : c.enc.stopped = false)
    (hlt : c.enc.sent < f.nPk) (hj : j < n) :
    ∀ steps (s : State) (q : QSess) ticks, Kept k f P s → q.slots.length = n → q.index < n →
    q.slots[j]? = some (some c) →
    (∀ i c0, i ≠ j → q.slots[i]? = some (some c0) → c0.key ≠ k) →
    rrDist q.index j n < steps →
    (∀ p t i b, (readQueue steps s q now ticks).2.2 = Out.pkt p t i b → p = q.prio) ∧
    ((readQueue steps s q now ticks).2.2 = Out.none → (readQueue steps s q now ticks).1.fdtQueue ≠ []) := by
  intro steps
  induction steps with
  | zero => intro s q ticks _ _ _ _ _ hd; exact absurd hd (Nat.not_lt_zero _)
  | succ m ih =>
    intro s q ticks h hn hidx hjs hoth hd
    unfold readQueue
    split
    · rename_i hnone
      rw [List.getElem?_eq_none_iff] at hnone
      omega
    · rename_i cur hcur
      by_cases hij : q.index = j
      · -- the due slot
        rw [hij, hjs] at hcur
        simp only [Option.some.injEq] at hcur
        subst hcur
        have e : runFuel = 3 + 1 := rfl
        have hr := runFile_due 3 s q.prio c now ticks h hk hg hs hlt
        rw [e]
        generalize runFile (3 + 1) s q.prio (some c) now ticks = r at hr
        obtain ⟨s', cur', out⟩ := r
        simp only [] at hr ⊢
        rcases hr with ⟨i, b, hr⟩ | ⟨hr1, hr2⟩
        · subst hr
          exact ⟨fun p t i' b' e => (by cases e; rfl), fun e => (by cases e)⟩
        · subst hr1
          simp only []
          constructor
          · intro p t i b e
            rw [(readQueue_pending m s' _ now ticks hr2).1] at e
            cases e
          · intro _
            exact (readQueue_pending m s' _ now ticks hr2).2
      · have hne : ∀ c0, cur = some c0 → c0.key ≠ k := by
          intro c0 e; subst e
          exact hoth q.index c0 hij hcur
        have hr := runFile_other ht runFuel s q.prio cur now ticks h hne
        generalize runFile runFuel s q.prio cur now ticks = r at hr
        obtain ⟨s', cur', out⟩ := r
        simp only [] at hr ⊢
        cases out with
        | none =>
          obtain ⟨h1, h2⟩ := hr.2 rfl
          simp only []
          refine ih s' _ ticks h1 (by simp [hn]) ?_ ?_ ?_ ?_
          · show (if q.index + 1 = q.slots.length then 0 else q.index + 1) < n
            split <;> omega
          · show (q.slots.set q.index cur')[j]? = _
            rw [List.getElem?_set_ne hij]; exact hjs
          · intro i c0 hi hget
            have hget' : (q.slots.set q.index cur')[i]? = some (some c0) := hget
            by_cases hiq : q.index = i
            · subst hiq
              rw [List.getElem?_set_self (by omega)] at hget'
              simp only [Option.some.injEq] at hget'
              exact h2 c0 hget'
            · rw [List.getElem?_set_ne hiq] at hget'
              exact hoth i c0 hi hget'
          · show rrDist (if q.index + 1 = q.slots.length then 0 else q.index + 1) j n < m
            unfold rrDist at hd ⊢
            rw [hn]
            split <;> split <;> split at hd <;> omega
        | hang => exact ⟨fun _ _ _ _ e => (by cases e), fun e => (by cases e)⟩
        | pkt a b c' d => exact ⟨fun p t i b' e => (by rw [← hr.1 a b c' d rfl]; cases e; rfl), fun e => (by cases e)⟩
        | fdt a b c' => exact ⟨fun _ _ _ _ e => (by cases e), fun e => (by cases e)⟩

end Flute.Sched
