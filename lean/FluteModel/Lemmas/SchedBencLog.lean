import FluteModel.Lemmas.SchedBencInv
import FluteModel.Lemmas.SchedLife
/-
  The composed LOG: every object packet event `Ev.pkt now prio t idx b` in the trace of ANY operation history of the
  scheduler model was produced by `encRead f.nSym` from a reachable abstract encoder (`LogReplay`, an invariant of
  `Sched.step` on top of `Wf ∧ SlotReplay`), hence (`pkt_event_is_real`) it is `(index, B)` of a packet RETURNED by a
  genuine `BlockEncoder` run of the object's byte-level description, with `idx` packets returned before it - and the
  interleave window holds in the state that run is in after returning it.
-/
namespace Flute.Sched
open Flute.SchedBenc (absReplay absStep)

/-- `(idx, b)` is what `encRead N` returns from some reachable abstract encoder -/
def PktReach (N idx : Nat) (b : Bool) : Prop :=
  ∃ enc force e', Reach N enc ∧ encRead N enc force = (some (idx, b), e')

/-- objects keep their packet count (both directions) -/
def NEq (s' s : State) : Prop := ∀ k, (getF s'.objs k).map (·.nSym) = (getF s.objs k).map (·.nSym)

theorem NEq.refl {s' s : State} (h : s'.objs = s.objs) : NEq s' s := fun k => by rw [h]

theorem NEq.trans {s2 s1 s0 : State} (h2 : NEq s2 s1) (h1 : NEq s1 s0) : NEq s2 s0 := fun k => (h2 k).trans (h1 k)

theorem NEq.map {s' s : State} (g : FileDesc → FileDesc) (hk : ∀ f, (g f).key = f.key)
    (hn : ∀ f, (g f).nSym = f.nSym) (h : s'.objs = s.objs.map g) : NEq s' s := by
  intro k
  rw [h, getF_map _ _ hk]
  cases getF s.objs k with
  | none => rfl
  | some f => simp [hn]

theorem NEq.updF {s' s : State} (k0 : Nat) (g : FileDesc → FileDesc) (hk : ∀ f, (g f).key = f.key)
    (hn : ∀ f, (g f).nSym = f.nSym) (h : s'.objs = Sched.updF s.objs k0 g) : NEq s' s := by
  intro k
  rw [h, getF_updF _ _ _ _ hk]
  split
  · cases getF s.objs k with
    | none => rfl
    | some f => simp [hn]
  · rfl

theorem NEq.publish (s : State) (now : Nat) : NEq (Sched.publish s now) s :=
  NEq.map (pubMark s.files) (pubMark_key _) (pubMark_nSym _) (publish_objs s now)

theorem NEq.publishTry (s : State) (now : Nat) : NEq (Sched.publishTry s now) s :=
  publishTry_elim (P := fun x => NEq x s) s now (NEq.publish s now) (NEq.refl rfl)

/-- no new object packet event -/
def LogSame (s' s : State) : Prop :=
  ∀ now prio t idx b, Ev.pkt now prio t idx b ∈ s'.log → Ev.pkt now prio t idx b ∈ s.log

theorem LogSame.refl {s' s : State} (h : s'.log = s.log) : LogSame s' s := by
  intro now prio t idx b hm; rw [h] at hm; exact hm

theorem LogSame.trans {s2 s1 s0 : State} (h2 : LogSame s2 s1) (h1 : LogSame s1 s0) : LogSame s2 s0 :=
  fun now prio t idx b hm => h1 _ _ _ _ _ (h2 _ _ _ _ _ hm)

theorem LogSame.cons {s' s : State} (e : Ev) (hne : ∀ now prio t idx b, e ≠ Ev.pkt now prio t idx b)
    (h : s'.log = e :: s.log) : LogSame s' s := by
  intro now prio t idx b hm
  rw [h] at hm
  rcases List.mem_cons.mp hm with h1 | h1
  · exact absurd h1.symm (hne _ _ _ _ _)
  · exact h1

theorem LogSame.publish (s : State) (now : Nat) : LogSame (Sched.publish s now) s :=
  LogSame.cons _ (by intro _ _ _ _ _ h; cases h) (publish_log s now)

theorem LogSame.publishTry (s : State) (now : Nat) : LogSame (Sched.publishTry s now) s :=
  publishTry_elim (P := fun x => LogSame x s) s now (LogSame.publish s now) (LogSame.refl rfl)

theorem LogSame.fdtTryStart (s : State) (now : Nat) : LogSame (Sched.fdtTryStart s now).1 s := by
  unfold Sched.fdtTryStart
  split
  · exact LogSame.refl rfl
  · split
    · exact LogSame.refl rfl
    · split
      · exact LogSame.cons (Ev.fdtStart now _) (by intro _ _ _ _ _ h; cases h) rfl
      · exact LogSame.refl rfl

theorem LogSame.fdtAdvance (s : State) (now : Nat) : LogSame (Sched.fdtAdvance s now) s := by
  have h := LogSame.fdtTryStart (fdtPop s) now
  have h' : LogSame (Sched.fdtTryStart (fdtPop s) now).1 s := h.trans (LogSame.refl (fdtPop_log s))
  unfold Sched.fdtAdvance
  split
  · rename_i s' k heq
    rw [heq] at h'
    exact (LogSame.refl rfl).trans h'
  · rename_i s' heq
    rw [heq] at h'
    exact h'

/-- THE LOG INVARIANT: every object packet event is an `encRead` answer of a reachable abstract encoder of its object -/
def LogReplay (s : State) (_ : Held) : Prop :=
  ∀ now prio t idx b, Ev.pkt now prio t idx b ∈ s.log →
    ∃ f, getF s.objs t = some f ∧ PktReach f.nSym idx b

theorem LogReplay.mono {s' s : State} {L L' : Held} (h : LogReplay s L) (hn : NEq s' s) (hl : LogSame s' s) :
    LogReplay s' L' := by
  intro now prio t idx b hm
  obtain ⟨f, hf, hp⟩ := h now prio t idx b (hl _ _ _ _ _ hm)
  have := hn t
  rw [hf] at this
  cases hf' : getF s'.objs t with
  | none => rw [hf'] at this; cases this
  | some f' =>
    rw [hf'] at this
    simp only [Option.map_some, Option.some.injEq] at this
    exact ⟨f', rfl, by rw [this]; exact hp⟩

theorem LogReplay.closed : Closed (And2 Wf SlotReplay) LogReplay where
  perm := fun _ _ _ _ h => h.mono (NEq.refl rfl) (LogSame.refl rfl)
  leaveFiles := fun _ _ _ h => h.mono (NEq.refl rfl) (LogSame.refl rfl)
  enterFiles := fun _ _ _ _ h _ _ => h.mono (NEq.refl rfl) (LogSame.refl rfl)
  emitRead := fun _ _ now _ h _ => h.mono (NEq.refl rfl) (LogSame.cons (Ev.opRead now) (by intro _ _ _ _ _ h; cases h) rfl)
  emitIdle := fun _ _ now _ h _ => h.mono (NEq.refl rfl) (LogSame.cons (Ev.idle now) (by intro _ _ _ _ _ h; cases h) rfl)
  publish := fun s _ now _ h _ => h.mono (NEq.publish s now) (LogSame.publish s now)
  fdtAdvance := fun s _ now _ h _ _ => h.mono (NEq.refl (fdtAdvance_objs s now)) (LogSame.fdtAdvance s now)
  fileStart := fun s L prio now tk t _ h _ _ => by
    have hn1 : NEq (fileStartStep s t now tk) s :=
      NEq.updF t (fun f => transferInit f now tk) (fun _ => rfl) (fun _ => rfl) rfl
    have hl1 : LogSame (fileStartStep s t now tk) s :=
      LogSame.cons (Ev.start now t _ _) (by intro _ _ _ _ _ h; cases h) rfl
    refine h.mono ?_ ?_
    · unfold autoPublish
      split
      · exact (NEq.publishTry _ now).trans hn1
      · exact hn1
    · unfold autoPublish
      split
      · exact (LogSame.publishTry _ now).trans hl1
      · exact hl1
  pkt := fun s L prio c now f idx b e hb h _ hf _ _ he => by
    have hn : NEq (pktStep s prio c.key now idx b) s :=
      NEq.updF c.key tickInfo tickInfo_key tickInfo_nSym rfl
    intro now' prio' t' idx' b' hm
    have hlog : (pktStep s prio c.key now idx b).log = Ev.pkt now prio c.key idx b :: s.log := rfl
    rw [hlog] at hm
    have hnew : ∀ t0 idx0 b0, (∃ f0, getF s.objs t0 = some f0 ∧ PktReach f0.nSym idx0 b0) →
        ∃ f', getF (pktStep s prio c.key now idx b).objs t0 = some f' ∧ PktReach f'.nSym idx0 b0 := by
      intro t0 idx0 b0 ⟨f0, hf0, hp⟩
      have := hn t0
      rw [hf0] at this
      cases hf' : getF (pktStep s prio c.key now idx b).objs t0 with
      | none => rw [hf'] at this; cases this
      | some f' =>
        rw [hf'] at this
        simp only [Option.map_some, Option.some.injEq] at this
        exact ⟨f', rfl, by rw [this]; exact hp⟩
    rcases List.mem_cons.mp hm with h1 | h1
    · cases h1
      exact hnew _ _ _ ⟨f, hf, c.enc, _, e, hb.2 (prio, c) (by simp) f hf, he⟩
    · exact hnew _ _ _ (h _ _ _ _ _ h1)
  done := fun s L prio c now f e _ h _ _ _ =>
    h.mono (NEq.updF c.key (fun f => transferDoneInfo f now) (fun _ => rfl) (fun _ => rfl)
      (transferDoneFile_objs s c.key now))
      (LogSame.cons (Ev.stop now c.key) (by intro _ _ _ _ _ h; cases h) (transferDoneFile_log s c.key now))
  fdtPkt := fun _ _ c f now idx _ _ _ h _ _ _ _ _ =>
    h.mono (NEq.refl rfl) (LogSame.cons (Ev.fdt now c.key f.fdtId idx) (by intro _ _ _ _ _ h; cases h) rfl)
  fdtDone := fun s _ c _ now _ _ h _ _ _ _ _ =>
    h.mono (NEq.refl (by show (transferDoneFdt s c.key now).objs = s.objs; exact transferDoneFdt_objs s c.key now))
      (LogSame.cons (Ev.fdtStop now c.key) (by intro _ _ _ _ _ h; cases h)
        (by show (transferDoneFdt s c.key now).log = _; exact transferDoneFdt_log s c.key now))

theorem LogReplay.closedOps : ClosedOps (And2 Wf SlotReplay) LogReplay where
  add := fun s L a _ h => by
    intro now prio t idx b hm
    have hlog : Ev.pkt now prio t idx b ∈ s.log := by
      unfold addObject at hm
      simp only at hm
      split at hm
      · rcases List.mem_cons.mp hm with h1 | h1
        · cases h1
        · exact h1
      · split at hm
        · rcases List.mem_cons.mp hm with h1 | h1
          · cases h1
          · exact h1
        · rcases List.mem_cons.mp hm with h1 | h1
          · cases h1
          · exact h1
    obtain ⟨f, hf, hp⟩ := h now prio t idx b hlog
    refine ⟨f, ?_, hp⟩
    unfold addObject
    simp only
    split
    · exact hf
    · split
      · exact hf
      · exact getF_append_some hf
  remove := fun s _ t _ h => by
    refine h.mono (NEq.refl (by unfold removeObject; split <;> rfl)) ?_
    unfold removeObject
    split
    · exact LogSame.cons (Ev.opRemove t false) (by intro _ _ _ _ _ h; cases h) rfl
    · exact LogSame.cons (Ev.opRemove t true) (by intro _ _ _ _ _ h; cases h) rfl
  trigger := fun s _ t ts _ h => by
    unfold triggerTransferAt
    split
    · exact h.mono (NEq.refl rfl) (LogSame.cons (Ev.opTrigger t ts false) (by intro _ _ _ _ _ h; cases h) rfl)
    · split
      · exact h.mono (NEq.refl rfl) (LogSame.cons (Ev.opTrigger t ts false) (by intro _ _ _ _ _ h; cases h) rfl)
      · exact h.mono (NEq.updF t (fun f => resetLastTransfer f ts) (fun _ => rfl) (fun _ => rfl) rfl)
          (LogSame.cons (Ev.opTrigger t ts true) (by intro _ _ _ _ _ h; cases h) rfl)
  publishOp := fun s _ now _ h =>
    h.mono ((NEq.publishTry (emit s (Ev.opPublish now)) now).trans (NEq.refl rfl))
      ((LogSame.publishTry (emit s (Ev.opPublish now)) now).trans
        (LogSame.cons (Ev.opPublish now) (by intro _ _ _ _ _ h; cases h) rfl))
  complete := fun _ _ _ h => h.mono (NEq.refl rfl) (LogSame.refl rfl)

/-- **after every operation history** -/
theorem log_replay_run (cfg : Cfg) (tbl : List Nat) (ops : List Op) :
    LogReplay (run (Sched.init cfg tbl) ops) (heldOf (run (Sched.init cfg tbl) ops)) :=
  (inv_run
    (Closed.and (Closed.and Wf.closed SlotReplay.closed) LogReplay.closed)
    (ClosedOps.and (ClosedOps.and Wf.closedOps SlotReplay.closedOps) LogReplay.closedOps) cfg tbl
    ⟨⟨Wf.init cfg tbl, fun pc hpc => by cases hpc⟩, fun _ _ _ _ _ hm => by simp [Sched.init] at hm⟩ ops).2

end Flute.Sched

namespace Flute.SchedBenc
open Flute Flute.Fec Flute.BlockEnc Flute.BencBlocks Flute.BencInv Flute.BencTrace Flute.BencShape Flute.BencPsi

/-- **the composed log.**  Every object packet event `pkt now prio t idx b` in the trace of ANY operation history of
    the scheduler model belongs to an object `f` of the model, and for every byte-level description of that object
    (`Describes … f.nSym`; every No-Code object has one, `describes_nocode`) it is a packet a genuine `BlockEncoder`
    RETURNS: there is a run `tr` of `idx` successful reads (benc's `Run`), a call `read(force)` in the state reached that
    returns a packet `p` with `p.closeObject = b` - so `idx` is the packet's position in its transfer and `b` its B flag -
    and in the encoder state after it at most `interleave_blocks` blocks are open, in increasing SBN, all cut already,
    no packet of a block not yet cut, at most `interleave_blocks` blocks partially sent (`Props.C08.window_bound`). -/
theorem pkt_event_is_real (cfg : Sched.Cfg) (tbl : List Nat) (ops : List Sched.Op) {now prio t idx : Nat} {b : Bool}
    (hm : Sched.Ev.pkt now prio t idx b ∈ (Sched.run (Sched.init cfg tbl) ops).log) :
    ∃ f, Sched.getF (Sched.run (Sched.init cfg tbl) ops).objs t = some f ∧
      ∀ {P : Params} {c : Bytes} {aL aS nL n : Nat}, Describes P c aL aS nL n f.nSym →
        ∃ (cl : Bool) (tr : List (Bool × Pkt)) (e : Enc) (force : Bool) (p : Pkt) (e' : Enc),
          Run P c aL aS nL n cl tr e ∧ tr.length = idx ∧ BlockEnc.read P e force = (.pkt p, e') ∧ p.closeObject = b ∧
          Run P c aL aS nL n cl (tr ++ [(force, p)]) e' ∧
          e'.blocks.length ≤ P.window ∧ (e'.blocks.map (·.sbn)).Pairwise (· < ·) ∧
          (∀ bk, bk ∈ e'.blocks → bk.sbn < e'.sbn) ∧
          (∀ k, e'.sbn ≤ k → proj (pkts (tr ++ [(force, p)])) k = []) ∧
          (∀ ks : List Nat, ks.Nodup →
            (∀ k, k ∈ ks → PartiallySent P c aL aS nL (pkts (tr ++ [(force, p)])) k) → ks.length ≤ P.window) := by
  obtain ⟨f, hf, enc, force, e'', ⟨fs, out, st, cl, hr⟩, he⟩ := Sched.log_replay_run cfg tbl ops now prio t idx b hm
  refine ⟨f, hf, ?_⟩
  intro P c aL aS nL n hd
  cases st with
  | true =>
    exfalso
    have := replay_stopped _ fs out cl _ hr
    rw [this] at he
    simp [Sched.encRead] at he
  | false =>
    obtain ⟨s0, trC, h0, hC, hlast, hN⟩ := hd.transfer cl
    rw [← hN] at hr he
    obtain ⟨tr, e, hrun, _, g2, _, _⟩ := replay_realised h0 hd.symLe hC hlast fs out _ hr
    have hk := enc_contract hrun hd.symLe hC hlast force
    rw [g2, he] at hk
    generalize hres : BlockEnc.read P e force = res at hk
    obtain ⟨o, e1⟩ := res
    cases o with
    | pkt p =>
      have hk' : (some (e.nbPkt, p.closeObject), absEnc e1) = ((some (idx, b), e'') : Option (Nat × Bool) × Sched.Enc) :=
        Option.some.inj hk
      simp only [Prod.mk.injEq, Option.some.injEq] at hk'
      obtain ⟨⟨k1, k2⟩, _⟩ := hk'
      obtain ⟨s0', hnew, hrd⟩ := hrun.reads
      have hrun2 : Run P c aL aS nL n cl (tr ++ [(force, p)]) e1 :=
        { hrun with reads := ⟨s0', hnew, Reads.snoc hrd hres⟩ }
      obtain ⟨w1, w2, w3, w4, _, w6⟩ := interleave_window_run hrun2
      exact ⟨cl, tr, e, force, p, e1, hrun, by rw [← nbPkt_run hrun]; exact k1, hres, k2, hrun2, w1, w2, w3, w4, w6⟩
    | none =>
      have hk' : (none, absEnc e1) = ((some (idx, b), e'') : Option (Nat × Bool) × Sched.Enc) := Option.some.inj hk
      simp at hk'
    | panic => cases hk
    | hang => cases hk

end Flute.SchedBenc
