import FluteModel.Lemmas.BencInv
/-
  The `loop` of `BlockEncoder::read` preserves the invariants; what a returned packet is.
-/
namespace Flute.BencLoop
open Flute Flute.Fec Flute.BlockEnc Flute.BencArith Flute.BencBlocks Flute.BencInv

variable {P : Params} {c : Bytes} {aL aS nL n : Nat}

/-- two positions of the open-block list with the same SBN are the same position -/
theorem sbn_inj {l : List Block} (hs : (l.map (·.sbn)).Pairwise (· < ·)) {i j : Nat} {a b : Block}
    (hi : l[i]? = some a) (hj : l[j]? = some b) (h : a.sbn = b.sbn) : i = j := by
  rw [List.pairwise_map, List.pairwise_iff_getElem] at hs
  obtain ⟨hi', rfl⟩ := List.getElem?_eq_some_iff.mp hi
  obtain ⟨hj', rfl⟩ := List.getElem?_eq_some_iff.mp hj
  rcases Nat.lt_trichotomy i j with h1 | h1 | h1
  · have := hs i j hi' hj' h1; omega
  · exact h1
  · have := hs j i hj' hi' h1; omega

/-- removing a drained block -/
theorem inv_erase {s : Enc} {tr : List Pkt} {idx : Nat} {blk : Block}
    (hI : Inv P c aL aS nL n s) (hT : TInv P c aL aS nL tr s)
    (hget : s.blocks[idx]? = some blk) (hdr : blk.readIndex = blk.shards.length) :
    let s' : Enc := { s with idx := idx, blocks := s.blocks.eraseIdx idx }
    Inv P c aL aS nL n s' ∧ TInv P c aL aS nL tr s' := by
  intro s'
  have hmem : ∀ b, b ∈ s.blocks.eraseIdx idx → b ∈ s.blocks := fun b h => List.mem_of_mem_eraseIdx h
  constructor
  · refine ⟨hI.src, hI.qaL, hI.qaS, hI.qnL, hI.sbn_le, hI.off_eq, hI.readEnd_iff, ?_, ?_, ?_⟩
    · intro b hb; exact hI.blocks_ok b (hmem b hb)
    · show ((s.blocks.eraseIdx idx).map (·.sbn)).Pairwise (· < ·)
      rw [List.pairwise_map]
      exact List.Pairwise.sublist (List.eraseIdx_sublist _ _) (List.pairwise_map.mp hI.sorted)
    · show (s.blocks.eraseIdx idx).length ≤ P.window
      have := hI.win
      rw [List.length_eraseIdx]; split <;> omega
  · refine ⟨fun b hb => hT.opened b (hmem b hb), ?_, hT.future⟩
    intro k hk hno
    by_cases hkb : blk.sbn = k
    · have hblk : blk ∈ s.blocks := List.mem_iff_getElem?.mpr ⟨idx, hget⟩
      have h1 := hT.opened blk hblk
      have h2 := (hI.blocks_ok blk hblk).2.1
      refine ⟨_, hkb ▸ h2, ?_⟩
      rw [← hkb, h1, hdr, List.take_length]
    · apply hT.closed k hk
      intro b hb
      obtain ⟨j, hj⟩ := List.mem_iff_getElem?.mp hb
      by_cases hji : j = idx
      · subst hji; rw [hget] at hj; cases hj; exact hkb
      · exact hno b (List.mem_eraseIdx_iff_getElem?.mpr ⟨j, hji, hj⟩)

/-- emitting the next shard of the block at `idx` -/
theorem inv_emit {s : Enc} {tr : List Pkt} {idx : Nat} {blk : Block} {sh : Shard}
    (hI : Inv P c aL aS nL n s) (hT : TInv P c aL aS nL tr s)
    (hget : s.blocks[idx]? = some blk) (hsh : blk.shards[blk.readIndex]? = some sh)
    (p : Pkt) (hp1 : p.sbn = blk.sbn) (hp2 : p.esi = sh.esi) (hp3 : p.payload = sh.data)
    (srcSent nbPkt : Nat) :
    let s' : Enc := { s with idx := idx + 1, blocks := s.blocks.set idx { blk with readIndex := blk.readIndex + 1 },
                             srcSent := srcSent, nbPkt := nbPkt }
    Inv P c aL aS nL n s' ∧ TInv P c aL aS nL (tr ++ [p]) s' := by
  intro s'
  have hblk : blk ∈ s.blocks := List.mem_iff_getElem?.mpr ⟨idx, hget⟩
  have hidx : idx < s.blocks.length := (List.getElem?_eq_some_iff.mp hget).1
  have hr : blk.readIndex < blk.shards.length := (List.getElem?_eq_some_iff.mp hsh).1
  have hmapset : (s.blocks.set idx { blk with readIndex := blk.readIndex + 1 }).map (·.sbn) = s.blocks.map (·.sbn) := by
    apply List.ext_getElem?
    intro j
    rw [List.getElem?_map, List.getElem?_set, List.getElem?_map]
    by_cases hji : idx = j
    · subst hji
      obtain ⟨_, h⟩ := List.getElem?_eq_some_iff.mp hget
      simp [hidx, h]
    · simp [hji]
  -- membership in the updated list, by position
  have hpos : ∀ b, b ∈ s.blocks.set idx { blk with readIndex := blk.readIndex + 1 } →
      b = { blk with readIndex := blk.readIndex + 1 } ∨ (b ∈ s.blocks ∧ b.sbn ≠ blk.sbn) := by
    intro b hb
    obtain ⟨j, hj⟩ := List.mem_iff_getElem?.mp hb
    rw [List.getElem?_set] at hj
    by_cases hji : idx = j
    · subst hji; simp [hidx] at hj; exact Or.inl hj.symm
    · simp only [hji, if_false] at hj
      right
      refine ⟨List.mem_iff_getElem?.mpr ⟨j, hj⟩, ?_⟩
      intro heq
      exact hji (sbn_inj hI.sorted hget hj heq.symm)
  constructor
  · refine ⟨hI.src, hI.qaL, hI.qaS, hI.qnL, hI.sbn_le, hI.off_eq, hI.readEnd_iff, ?_, ?_, ?_⟩
    · intro b hb
      rcases hpos b hb with h | ⟨h, _⟩
      · subst h
        have := hI.blocks_ok blk hblk
        exact ⟨this.1, this.2.1, by show blk.readIndex + 1 ≤ blk.shards.length; omega⟩
      · exact hI.blocks_ok b h
    · show ((s.blocks.set idx _).map (·.sbn)).Pairwise (· < ·)
      rw [hmapset]; exact hI.sorted
    · show (s.blocks.set idx _).length ≤ P.window
      rw [List.length_set]; exact hI.win
  · refine ⟨?_, ?_, ?_⟩
    · intro b hb
      rcases hpos b hb with h | ⟨h, hne⟩
      · subst h
        show proj (tr ++ [p]) blk.sbn = ((blk.shards.take (blk.readIndex + 1)).map sview)
        rw [proj_append, ← hp1, proj_single_eq, hp1, hT.opened blk hblk, List.take_add_one, hsh]
        simp [pview, sview, hp2, hp3]
      · rw [proj_append, proj_single_ne p b.sbn (by rw [hp1]; exact fun h => hne h.symm), List.append_nil]
        exact hT.opened b h
    · intro k hk hno
      have hkb : blk.sbn ≠ k := by
        intro h
        have hin : ({ blk with readIndex := blk.readIndex + 1 } : Block) ∈ s.blocks.set idx { blk with readIndex := blk.readIndex + 1 } :=
          List.mem_iff_getElem?.mpr ⟨idx, List.getElem?_set_self hidx⟩
        exact hno _ hin h
      rw [proj_append, proj_single_ne p k (by rw [hp1]; exact hkb), List.append_nil]
      apply hT.closed k hk
      intro b hb heq
      obtain ⟨j, hj⟩ := List.mem_iff_getElem?.mp hb
      have hji : idx ≠ j := by
        intro h; subst h; rw [hget] at hj; cases hj; exact hkb heq
      exact hno b (List.mem_iff_getElem?.mpr ⟨j, by rw [List.getElem?_set_ne hji]; exact hj⟩) heq
    · intro k hk
      have hk' : s.sbn ≤ k := hk
      have := (hI.blocks_ok blk hblk).1
      rw [proj_append, proj_single_ne p k (by rw [hp1]; omega), List.append_nil]
      exact hT.future k hk'

/-- what a packet returned by the loop is, relative to the state before (`s`) and after (`s'`) -/
structure Emit (P : Params) (force : Bool) (s : Enc) (p : Pkt) (s' : Enc) : Prop where
  blk : ∃ b, b ∈ s'.blocks ∧ b.sbn = p.sbn ∧ p.sbl = b.nbSource ∧ 0 < b.readIndex
  isSource : p.isSource = decide (p.esi < p.sbl)
  srcSent : s'.srcSent = s.srcSent + (if p.isSource then p.payload.length else 0)
  nbPkt : s'.nbPkt = s.nbPkt + 1
  closable : s'.closable = s.closable
  stopped : s'.stopped = s.stopped
  flag : p.closeObject = true → force = true ∨
    (s.closable = true ∧ P.len ≤ s'.srcSent ∧ ∀ b, b ∈ s'.blocks → b.isEmpty = true)
  flag_conv : (P.len ≤ s'.srcSent ∧ ∀ b, b ∈ s'.blocks → b.isEmpty = true) → s.closable = true → p.closeObject = true

/-- the result of the loop, when it is a packet or `None` -/
def LoopPost (P : Params) (c : Bytes) (aL aS nL n : Nat) (force : Bool) (tr : List Pkt) (s : Enc) :
    Out × Enc → Prop
  | (.pkt p, s') => Inv P c aL aS nL n s' ∧ TInv P c aL aS nL (tr ++ [p]) s' ∧ Emit P force s p s'
  | (.none, s') => Inv P c aL aS nL n s' ∧ TInv P c aL aS nL tr s' ∧ s'.blocks = [] ∧
      (1 ≤ P.window → s'.readEnd = true) ∧ s'.closable = s.closable ∧ s'.stopped = s.stopped ∧
      s'.srcSent = s.srcSent ∧ s'.nbPkt = s.nbPkt
  | _ => True

theorem readLoop_spec (hS : Setup P c aL aS nL n) (hA : Accepts P c aL aS nL n) (force : Bool) (tr : List Pkt) :
    ∀ (fuel : Nat) (s : Enc), Inv P c aL aS nL n s → TInv P c aL aS nL tr s →
      LoopPost P c aL aS nL n force tr s (readLoop P force fuel s) := by
  intro fuel
  induction fuel with
  | zero => intro s _ _; simp [readLoop, LoopPost]
  | succ fuel ih =>
    intro s hI hT
    obtain ⟨hI1, hT1, hfull, hidx, hsrc, hnb, hcl, hst, _⟩ := inv_readWindowAux hS hA tr P.window s hI hT
    unfold readLoop
    simp only
    generalize hs1 : readWindow P s = s1
    have hs1' : readWindowAux P P.window s = s1 := hs1
    rw [hs1'] at hI1 hT1 hfull hidx hsrc hnb hcl hst
    by_cases hemp : s1.blocks.isEmpty = true
    · simp only [hemp, if_true]
      have hnil : s1.blocks = [] := List.isEmpty_iff.mp hemp
      have hpost : LoopPost P c aL aS nL n force tr s (.none, s1) := by
        refine ⟨hI1, hT1, hnil, ?_, hcl, hst, hsrc, hnb⟩
        intro hw
        rcases hfull (by omega) with h | h
        · exact h
        · rw [hnil] at h; simp at h; omega
      by_cases hn0 : s1.nbPkt = 0
      · simp only [hn0, if_true]
        have hlen : P.len ≠ 0 := by have := hS.l_pos; omega
        rw [if_pos hlen]; exact hpost
      · simp only [hn0, if_false]
        exact hpost
    · simp only [hemp, Bool.false_eq_true, if_false]
      have hne : s1.blocks ≠ [] := fun h => hemp (List.isEmpty_iff.mpr h)
      have hlen : 0 < s1.blocks.length := List.length_pos_iff.mpr hne
      generalize hidx' : (if s1.idx ≥ s1.blocks.length then 0 else s1.idx) = idx
      have hidxlt : idx < s1.blocks.length := by rw [← hidx']; split <;> omega
      have hget : s1.blocks[idx]? = some s1.blocks[idx] := List.getElem?_eq_getElem hidxlt
      generalize s1.blocks[idx] = blk at hget
      rw [hget]
      simp only
      unfold Block.read
      cases hsh : blk.shards[blk.readIndex]? with
      | none =>
        simp only
        have hdr : blk.readIndex = blk.shards.length := by
          have h1 := (hI1.blocks_ok blk (List.mem_iff_getElem?.mpr ⟨idx, hget⟩)).2.2
          have h2 := List.getElem?_eq_none_iff.mp hsh
          omega
        obtain ⟨hI2, hT2⟩ := inv_erase hI1 hT1 hget hdr
        have := ih _ hI2 hT2
        revert this
        generalize readLoop P force fuel _ = res
        intro this
        match res, this with
        | (.pkt p, s'), ⟨a, b, e⟩ =>
          exact ⟨a, b, ⟨e.blk, e.isSource, by rw [e.srcSent, hsrc], by rw [e.nbPkt, hnb], by rw [e.closable, hcl],
            by rw [e.stopped, hst], by rw [← hcl]; exact e.flag, by rw [← hcl]; exact e.flag_conv⟩⟩
        | (.none, s'), ⟨a, b, c1, c2, c3, c4, c5, c6⟩ =>
          exact ⟨a, b, c1, c2, by rw [c3, hcl], by rw [c4, hst], by rw [c5, hsrc], by rw [c6, hnb]⟩
        | (.panic, _), _ => trivial
        | (.hang, _), _ => trivial
      | some sh =>
        simp only
        obtain ⟨hI2, hT2⟩ := inv_emit hI1 hT1 hget hsh
          { sbn := blk.sbn, esi := sh.esi, payload := sh.data,
            closeObject := force || (s1.closable &&
              isLastPacket P (if decide (sh.esi < blk.nbSource) = true then s1.srcSent + sh.data.length else s1.srcSent)
                ({ blk with readIndex := blk.readIndex + 1 } : Block).isEmpty
                (s1.blocks.set idx { blk with readIndex := blk.readIndex + 1 })),
            sbl := blk.nbSource, isSource := decide (sh.esi < blk.nbSource) }
          rfl rfl rfl
          (if decide (sh.esi < blk.nbSource) = true then s1.srcSent + sh.data.length else s1.srcSent) (s1.nbPkt + 1)
        refine ⟨hI2, hT2, ?_⟩
        have hnl : P.legacy = false := hS.notLegacy
        refine ⟨⟨_, List.mem_iff_getElem?.mpr ⟨idx, List.getElem?_set_self hidxlt⟩, rfl, rfl, Nat.succ_pos _⟩, rfl, ?_,
          by show s1.nbPkt + 1 = s.nbPkt + 1; rw [hnb], hcl, hst, ?_, ?_⟩
        · show (if decide (sh.esi < blk.nbSource) = true then s1.srcSent + sh.data.length else s1.srcSent) = _
          rw [hsrc]; split <;> simp_all
        · intro hflag
          simp only [Bool.or_eq_true, Bool.and_eq_true, isLastPacket, hnl, Bool.false_or, decide_eq_true_eq] at hflag
          rcases hflag with h | ⟨h1, ⟨h2, _⟩, h4⟩
          · exact Or.inl h
          · right
            rw [← hcl]
            exact ⟨h1, by simpa using h2, List.all_eq_true.mp h4⟩
        · intro ⟨h1, h2⟩ h3
          simp only [Bool.or_eq_true, Bool.and_eq_true, isLastPacket, hnl, Bool.false_or, decide_eq_true_eq]
          right
          rw [← hcl] at h3
          refine ⟨h3, ⟨by simpa using h1, ?_⟩, List.all_eq_true.mpr h2⟩
          exact h2 _ (List.mem_iff_getElem?.mpr ⟨idx, List.getElem?_set_self hidxlt⟩)

end Flute.BencLoop
