import FluteModel.ObjRecv
import FluteModel.Spec.WriterProto
/-
  Invariant of the ObjectReceiver model that ties `St.writer` (ObjectWriterSessionState) to the state of the
  protocol automaton after the calls recorded in `St.out`; preservation by every model function.
-/
namespace Flute.ObjRecv
open Flute Flute.FecDec Flute.Spec
open Flute.Spec.WriterProto (PState Ev)

/-- protocol view of a recorded call (`new_object_writer` is a call on the builder, not on the writer) -/
def evOf : WCall → Option Ev
  | .new _ _ => none
  | .open ok => some (if ok then .openOk else .openErr)
  | .write _ _ ok => some (.write ok)
  | .complete => some .complete
  | .error => some .error
  | .interrupted => some .interrupted

/-- the calls seen by the writer, in call order -/
def wtraceOf (out : List WCall) : List Ev := out.reverse.filterMap evOf

def St.wtrace (st : St) : List Ev := wtraceOf st.out

def pstateOf (out : List WCall) : Option PState := WriterProto.run .idle (wtraceOf out)

theorem wtraceOf_cons (c : WCall) (out : List WCall) :
    wtraceOf (c :: out) = wtraceOf out ++ (evOf c).toList := by
  simp only [wtraceOf, List.reverse_cons, List.filterMap_append]
  cases h : evOf c <;> simp [List.filterMap, h]

theorem pstateOf_cons (c : WCall) (out : List WCall) :
    pstateOf (c :: out) =
      match evOf c with
      | none => pstateOf out
      | some e => (pstateOf out).bind fun s => WriterProto.step s e := by
  unfold pstateOf
  rw [wtraceOf_cons]
  cases h : evOf c with
  | none => simp
  | some e => simp [WriterProto.run_snoc]

/-- protocol state that corresponds to the session state kept by the code -/
def absW : Option WS → PState
  | none => .idle
  | some .idle => .idle
  | some .opened => .opened
  | some .closed => .done
  | some .error => .done

structure Inv (st : St) : Prop where
  noIdle : st.writer ≠ some .idle
  ps : pstateOf st.out = some (absW st.writer)
  term : (st.writer = some .closed ∨ st.writer = some .error) → st.cache = [] ∧ st.state ≠ .receiving
  bwOff : st.bw = none → st.blocksOffset = 0
  fdt : st.writer ≠ none → st.fdtId ≠ none

theorem inv_new (toi m : Nat) : Inv (St.new toi m) := by
  constructor <;> simp [St.new, pstateOf, wtraceOf, WriterProto.run, absW]

/-- `st'` differs from `st` only in fields the invariant does not read (blocks, counters, partition, oti, ...),
    possibly with the object state moved to `Error` -/
structure Quiet (st st' : St) : Prop where
  writer : st'.writer = st.writer
  out : st'.out = st.out
  cache : st'.cache = st.cache
  bw : st'.bw = st.bw
  off : st'.blocksOffset = st.blocksOffset
  fdt : st'.fdtId = st.fdtId
  state : st'.state = st.state ∨ st'.state ≠ .receiving
  cacheSize : st'.cacheSize = st.cacheSize
  maxSize : st'.maxSize = st.maxSize
  toi : st'.toi = st.toi

theorem Quiet.refl (st : St) : Quiet st st := ⟨rfl, rfl, rfl, rfl, rfl, rfl, .inl rfl, rfl, rfl, rfl⟩

theorem Inv.quiet {st st' : St} (h : Inv st) (q : Quiet st st') : Inv st' := by
  constructor
  · rw [q.writer]; exact h.noIdle
  · rw [q.out, q.writer]; exact h.ps
  · rw [q.writer, q.cache]
    intro t
    refine ⟨(h.term t).1, ?_⟩
    cases q.state with
    | inl e => rw [e]; exact (h.term t).2
    | inr e => exact e
  · rw [q.bw, q.off]; exact h.bwOff
  · rw [q.writer, q.fdt]; exact h.fdt

/-! ### terminal calls -/

@[simp] theorem complete_writer (st : St) : (complete st).writer = st.writer.map fun _ => WS.closed := by
  unfold complete; cases h : st.writer <;> simp [h]
@[simp] theorem complete_out (st : St) :
    (complete st).out = if st.writer.isSome then WCall.complete :: st.out else st.out := by
  unfold complete; cases h : st.writer <;> simp [h]
@[simp] theorem complete_cache (st : St) : (complete st).cache = [] := by
  unfold complete; cases h : st.writer <;> simp [h]
@[simp] theorem complete_state (st : St) : (complete st).state = .completed := by
  unfold complete; cases h : st.writer <;> simp [h]
@[simp] theorem complete_bw (st : St) : (complete st).bw = st.bw := by
  unfold complete; cases h : st.writer <;> simp [h]
@[simp] theorem complete_off (st : St) : (complete st).blocksOffset = st.blocksOffset := by
  unfold complete; cases h : st.writer <;> simp [h]
@[simp] theorem complete_fdt (st : St) : (complete st).fdtId = st.fdtId := by
  unfold complete; cases h : st.writer <;> simp [h]

@[simp] theorem error_writer (st : St) (i : Bool) : (error st i).writer = st.writer.map fun _ => WS.error := by
  unfold error; cases h : st.writer <;> simp [h]
@[simp] theorem error_out (st : St) (i : Bool) :
    (error st i).out = if st.writer.isSome then (if i then WCall.interrupted else WCall.error) :: st.out else st.out := by
  unfold error; cases h : st.writer <;> simp [h]
@[simp] theorem error_cache (st : St) (i : Bool) : (error st i).cache = [] := by
  unfold error; cases h : st.writer <;> simp [h]
@[simp] theorem error_state (st : St) (i : Bool) : (error st i).state = if i then .interrupted else .error := by
  unfold error; cases h : st.writer <;> simp [h]
@[simp] theorem error_bw (st : St) (i : Bool) : (error st i).bw = st.bw := by
  unfold error; cases h : st.writer <;> simp [h]
@[simp] theorem error_off (st : St) (i : Bool) : (error st i).blocksOffset = st.blocksOffset := by
  unfold error; cases h : st.writer <;> simp [h]
@[simp] theorem error_fdt (st : St) (i : Bool) : (error st i).fdtId = st.fdtId := by
  unfold error; cases h : st.writer <;> simp [h]

theorem inv_complete {st : St} (h : Inv st) (hw : st.writer = none ∨ st.writer = some .opened) :
    Inv (complete st) := by
  have hp := h.ps
  have hb := h.bwOff
  have hf := h.fdt
  cases hw with
  | inl hn => constructor <;> simp_all [absW]
  | inr ho => constructor <;> simp_all [absW, pstateOf_cons, evOf, WriterProto.step]

theorem inv_error {st : St} (i : Bool) (h : Inv st) (hw : st.writer = none ∨ st.writer = some .opened) :
    Inv (error st i) := by
  have hp := h.ps
  have hb := h.bwOff
  have hf := h.fdt
  cases hw with
  | inl hn => constructor <;> simp_all [absW]
  | inr ho => cases i <;> constructor <;> simp_all [absW, pstateOf_cons, evOf, WriterProto.step]

/-! ### writes while the writer is open -/

/-- no `complete` call recorded -/
def noComplete : List WCall → Prop
  | [] => True
  | .complete :: _ => False
  | _ :: r => noComplete r


/-- fields of `St` that the write path never touches -/
structure SameSt (st st' : St) : Prop where
  md5Check : st'.md5Check = st.md5Check
  md5 : st'.md5 = st.md5
  tl : st'.tl = st.tl
  cenc : st'.cenc = st.cenc
  blocks : st'.blocks = st.blocks
  nbAlloc : st'.nbAlloc = st.nbAlloc
  totalAlloc : st'.totalAlloc = st.totalAlloc
  oti : st'.oti = st.oti
  aLarge : st'.aLarge = st.aLarge
  aSmall : st'.aSmall = st.aSmall
  nbALarge : st'.nbALarge = st.nbALarge
  nbBlocks : st'.nbBlocks = st.nbBlocks
  maxSize : st'.maxSize = st.maxSize
  cacheSize : st'.cacheSize = st.cacheSize
  cl : st'.cl = st.cl

theorem SameSt.refl (st : St) : SameSt st st := ⟨rfl, rfl, rfl, rfl, rfl, rfl, rfl, rfl, rfl, rfl, rfl, rfl, rfl, rfl, rfl⟩
theorem SameSt.trans {a b c : St} (h1 : SameSt a b) (h2 : SameSt b c) : SameSt a c :=
  ⟨h2.md5Check.trans h1.md5Check, h2.md5.trans h1.md5, h2.tl.trans h1.tl, h2.cenc.trans h1.cenc,
   h2.blocks.trans h1.blocks, h2.nbAlloc.trans h1.nbAlloc, h2.totalAlloc.trans h1.totalAlloc,
   h2.oti.trans h1.oti, h2.aLarge.trans h1.aLarge, h2.aSmall.trans h1.aSmall, h2.nbALarge.trans h1.nbALarge,
   h2.nbBlocks.trans h1.nbBlocks, h2.maxSize.trans h1.maxSize, h2.cacheSize.trans h1.cacheSize, h2.cl.trans h1.cl⟩


/-- `st'` is `st` after some `write` calls (and block-writer bookkeeping): everything the invariant reads is unchanged,
    an open writer stays open -/
structure Wr (st st' : St) : Prop where
  writer : st'.writer = st.writer
  cache : st'.cache = st.cache
  state : st'.state = st.state
  off : st'.blocksOffset = st.blocksOffset
  fdt : st'.fdtId = st.fdtId
  bw : st.bw.isSome → st'.bw.isSome
  ps : pstateOf st.out = some .opened → pstateOf st'.out = some .opened
  same : SameSt st st'
  nc : noComplete st.out → noComplete st'.out
  toi : st'.toi = st.toi
  grow : ∃ l, st'.out = l ++ st.out

theorem Wr.refl (st : St) : Wr st st := ⟨rfl, rfl, rfl, rfl, rfl, id, id, SameSt.refl _, id, rfl, ⟨[], rfl⟩⟩

theorem Wr.trans {a b c : St} (h1 : Wr a b) (h2 : Wr b c) : Wr a c :=
  ⟨h2.writer.trans h1.writer, h2.cache.trans h1.cache, h2.state.trans h1.state, h2.off.trans h1.off,
   h2.fdt.trans h1.fdt, fun h => h2.bw (h1.bw h), fun h => h2.ps (h1.ps h), h1.same.trans h2.same,
   fun h => h2.nc (h1.nc h), h2.toi.trans h1.toi,
   by obtain ⟨l1, e1⟩ := h1.grow; obtain ⟨l2, e2⟩ := h2.grow; exact ⟨l2 ++ l1, by rw [e2, e1, List.append_assoc]⟩⟩

theorem Inv.wr {st st' : St} (h : Inv st) (ho : st.writer = some .opened) (w : Wr st st') :
    Inv st' ∧ st'.writer = some .opened := by
  have hps : pstateOf st.out = some .opened := by have := h.ps; simpa [ho, absW] using this
  refine ⟨⟨?_, ?_, ?_, ?_, ?_⟩, w.writer.trans ho⟩
  · rw [w.writer]; exact h.noIdle
  · rw [w.writer, ho]; simpa [absW] using w.ps hps
  · rw [w.writer, ho]; simp
  · intro hb
    rw [w.off]
    apply h.bwOff
    cases hs : st.bw with
    | none => rfl
    | some x => have := w.bw (by simp [hs]); simp [hb] at this
  · rw [w.writer, w.fdt]; exact h.fdt

theorem wr_wWrite (P : Params) (st : St) (sbn : Nat) (d : Bytes) : Wr st (wWrite P st sbn d).1 := by
  refine ⟨rfl, rfl, rfl, rfl, rfl, id, ?_, ⟨rfl, rfl, rfl, rfl, rfl, rfl, rfl, rfl, rfl, rfl, rfl, rfl, rfl, rfl, rfl⟩, ?_, rfl, ⟨[_], rfl⟩⟩
  · intro h
    simp [wWrite, pstateOf_cons, evOf, h, WriterProto.step]
  · intro h; simpa [wWrite, noComplete] using h

theorem wr_decoderRead (P : Params) (fuel : Nat) (st : St) (w : BW) {st' : St} {w' : BW} {b : Bool}
    (h : decoderRead P fuel st w = .ok (st', w', b)) : Wr st st' := by
  induction fuel generalizing st w with
  | zero => simp [decoderRead] at h
  | succ n ih =>
    unfold decoderRead at h
    split at h
    · simp at h
    · dsimp only at h
      split at h
      · simp at h; rw [← h.1]; exact Wr.refl _
      · simp at h; rw [← h.1]; exact Wr.refl _
      · split at h
        · simp at h; rw [← h.1]; exact Wr.refl _
        · split at h
          · exact ih _ _ h
          · split at h
            · simp at h; rw [← h.1]; exact wr_wWrite _ _ _ _
            · exact (wr_wWrite _ _ _ _).trans (ih _ _ h)

theorem wr_dwLoop (P : Params) (fuel : Nat) (st : St) (w : BW) (pkt : Bytes) (off : Nat) (stalled : Bool)
    {st' : St} {w' : BW} {b : Bool}
    (h : dwLoop P fuel st w pkt off stalled = .ok (st', w', b)) : Wr st st' := by
  induction fuel generalizing st w off stalled with
  | zero => simp [dwLoop] at h
  | succ n ih =>
    unfold dwLoop at h
    split at h
    · simp at h
    · dsimp only at h
      split at h
      · simp at h
      · rename_i heq
        simp at h; rw [← h.1]; exact wr_decoderRead _ _ _ _ heq
      · rename_i heq
        have h1 := wr_decoderRead _ _ _ _ heq
        split at h
        · simp at h; rw [← h.1]; exact h1
        · split at h
          · simp at h; rw [← h.1]; exact h1
          · exact h1.trans (ih _ _ _ _ h)

theorem wr_decodeWritePkt (P : Params) (st : St) (w : BW) (pkt : Bytes) {st' : St} {w' : BW} {b : Bool}
    (h : decodeWritePkt P st w pkt = .ok (st', w', b)) : Wr st st' := by
  unfold decodeWritePkt at h
  split at h
  · exact wr_decoderRead _ _ _ _ h
  · exact wr_dwLoop _ _ _ _ _ _ _ h

theorem wr_setBw (st : St) (w : BW) : Wr st { st with bw := some w } :=
  ⟨rfl, rfl, rfl, rfl, rfl, fun _ => rfl, id, ⟨rfl, rfl, rfl, rfl, rfl, rfl, rfl, rfl, rfl, rfl, rfl, rfl, rfl, rfl, rfl⟩, id, rfl, ⟨[], rfl⟩⟩

theorem wr_bwData (P : Params) (st : St) (w : BW) (data : Bytes) {st' : St} {w' : BW} {b : Bool}
    (h : bwData P st w data = .ok (st', w', b)) : Wr st st' := by
  unfold bwData at h
  split at h
  · simp at h; rw [← h.1]; exact wr_wWrite _ _ _ _
  · exact wr_decodeWritePkt _ _ _ _ h

theorem wr_bwFinish (P : Params) (st : St) (w : BW) {st' : St} {w' : BW} {b : Bool}
    (h : bwFinish P st w = .ok (st', w', b)) : Wr st st' := by
  unfold bwFinish at h
  split at h
  · exact wr_decoderRead _ _ _ _ h
  · simp at h; rw [← h.1]; exact Wr.refl _

theorem wr_bwWrite (P : Params) (st : St) (sbn : Nat) (blk : Block) {st' : St} {r : Option Bool}
    (h : bwWrite P st sbn blk = .ok (st', r)) : Wr st st' := by
  unfold bwWrite at h
  split at h
  · simp at h
  · split at h
    · simp at h; rw [← h.1]; exact Wr.refl _
    · split at h
      · simp at h; rw [← h.1]; exact Wr.refl _
      · dsimp only at h
        split at h
        · simp at h
        · rename_i heq
          simp at h; rw [← h.1]
          exact (wr_bwData _ _ _ _ heq).trans (wr_setBw _ _)
        · rename_i heq
          have h1 := wr_bwData _ _ _ _ heq
          split at h
          · split at h
            · simp at h
            · rename_i heq2
              simp at h; rw [← h.1]
              exact (h1.trans (wr_bwFinish _ _ _ heq2)).trans (wr_setBw _ _)
            · rename_i heq2
              simp at h; rw [← h.1]
              exact (h1.trans (wr_bwFinish _ _ _ heq2)).trans (wr_setBw _ _)
          · simp at h; rw [← h.1]
            exact h1.trans (wr_setBw _ _)

theorem bwWrite_bw (P : Params) (st : St) (sbn : Nat) (blk : Block) {st' : St} {r : Option Bool}
    (h : bwWrite P st sbn blk = .ok (st', r)) : st'.bw.isSome := by
  have hw := wr_bwWrite _ _ _ _ h
  apply hw.bw
  unfold bwWrite at h
  split at h
  · simp at h
  · rename_i heq; simp [heq]

theorem inv_popBlock {st : St} (h : Inv st) (hb : st.bw.isSome) (off : Nat) (blk : Block) :
    Inv (popBlock st off blk) ∧ (popBlock st off blk).writer = st.writer := by
  unfold popBlock
  dsimp only
  split
  · refine ⟨⟨h.noIdle, h.ps, h.term, ?_, h.fdt⟩, rfl⟩
    intro hn; simp at hn; simp [hn] at hb
  · exact ⟨⟨h.noIdle, h.ps, h.term, h.bwOff, h.fdt⟩, rfl⟩

theorem inv_finishObject {st : St} (h : Inv st) (ho : st.writer = some .opened) (w : BW) :
    Inv (finishObject st w) := by
  have key : ∀ c : Bool, Inv (if c = true then complete st else error st false) := by
    intro c; cases c
    · simpa using inv_error false h (Or.inr ho)
    · simpa using inv_complete h (Or.inr ho)
  unfold finishObject
  split
  · simpa using key false
  · exact key _

theorem inv_writeLoop (P : Params) (fuel : Nat) (st : St) (sbn : Nat) {st' : St} {b : Bool}
    (hi : Inv st) (ho : st.writer = some .opened)
    (h : writeLoop P fuel st sbn = .ok (st', b)) :
    Inv st' ∧ (b = false → st'.writer = some .opened) := by
  induction fuel generalizing st sbn with
  | zero => simp [writeLoop] at h
  | succ n ih =>
    unfold writeLoop at h
    split at h
    · simp at h; rw [← h.1]; exact ⟨hi, fun _ => ho⟩
    · split at h
      · simp at h; rw [← h.1]; exact ⟨hi, fun _ => ho⟩
      · split at h
        · simp at h; rw [← h.1]; exact ⟨hi, fun _ => ho⟩
        · split at h
          · simp at h
          · rename_i heq
            simp at h; rw [← h.1]
            have := hi.wr ho (wr_bwWrite _ _ _ _ heq)
            exact ⟨this.1, fun _ => this.2⟩
          · rename_i heq
            simp at h; rw [← h.1]
            have := hi.wr ho (wr_bwWrite _ _ _ _ heq)
            exact ⟨this.1, fun _ => this.2⟩
          · rename_i heq
            have h1 := hi.wr ho (wr_bwWrite _ _ _ _ heq)
            have hbw := bwWrite_bw _ _ _ _ heq
            split at h
            · simp at h
            · split at h
              · simp at h
              · split at h
                · simp at h
                · have hp := inv_popBlock h1.1 hbw (sbn - st.blocksOffset) ‹Block›
                  split at h
                  · simp at h; obtain ⟨rfl, rfl⟩ := h
                    exact ⟨inv_finishObject hp.1 (hp.2.trans h1.2) _, fun hf => by cases hf⟩
                  · exact ih _ _ hp.1 (hp.2.trans h1.2) h

theorem inv_writeBlocks (P : Params) (st : St) (sbn : Nat) {st' : St} {b : Bool}
    (hi : Inv st) (h : writeBlocks P st sbn = .ok (st', b)) :
    Inv st' ∧ (b = false → st'.writer = some .opened) ∧ (st.writer = none → st' = st) := by
  unfold writeBlocks at h
  split at h
  · simp at h; obtain ⟨rfl, rfl⟩ := h; exact ⟨hi, by simp, fun _ => rfl⟩
  · rename_i ws hws
    split at h
    · simp at h; obtain ⟨rfl, rfl⟩ := h; exact ⟨hi, by simp, fun _ => rfl⟩
    · rename_i hne
      have ho : st.writer = some .opened := by
        rw [hws]; cases ws <;> simp_all
      split at h
      · simp at h; obtain ⟨rfl, rfl⟩ := h; exact ⟨hi, by simp, fun _ => rfl⟩
      · have := inv_writeLoop _ _ _ _ hi ho h
        exact ⟨this.1, this.2, fun hn => by simp [hn] at ho⟩

/-! ### push_to_block -/

theorem quiet_growBlocks (st : St) (off : Nat) : Quiet st (growBlocks st off) := by
  unfold growBlocks; split
  · exact ⟨rfl, rfl, rfl, rfl, rfl, rfl, .inl rfl, rfl, rfl, rfl⟩
  · exact Quiet.refl _

theorem quiet_setError (st : St) : Quiet st { st with state := .error } :=
  ⟨rfl, rfl, rfl, rfl, rfl, rfl, .inr (by simp), rfl, rfl, rfl⟩

theorem quiet_allocBlock (P : Params) (st : St) (o : Oti) (tl : Nat) (pid : PayloadId) (blk : Block)
    {st' : St} {r : Option Block} (h : allocBlock P st o tl pid blk = .ok (st', r)) : Quiet st st' := by
  unfold allocBlock at h
  split at h
  · simp at h; rw [← h.1]; exact Quiet.refl _
  · dsimp only at h
    split at h
    · simp at h
    · split at h
      · simp at h
      · split at h
        · simp at h; rw [← h.1]; exact quiet_setError _
        · split at h
          · simp at h; rw [← h.1]; exact quiet_setError _
          · split at h
            · simp at h
            · simp at h; rw [← h.1]; exact ⟨rfl, rfl, rfl, rfl, rfl, rfl, .inl rfl, rfl, rfl, rfl⟩

theorem Quiet.trans {a b c : St} (h1 : Quiet a b) (h2 : Quiet b c) : Quiet a c := by
  refine ⟨h2.writer.trans h1.writer, h2.out.trans h1.out, h2.cache.trans h1.cache, h2.bw.trans h1.bw,
    h2.off.trans h1.off, h2.fdt.trans h1.fdt, ?_, h2.cacheSize.trans h1.cacheSize, h2.maxSize.trans h1.maxSize, h2.toi.trans h1.toi⟩
  cases h2.state with
  | inr e => exact .inr e
  | inl e =>
    cases h1.state with
    | inl e1 => exact .inl (e.trans e1)
    | inr e1 => exact .inr (by rw [e]; exact e1)

/-- a writer that did not get its terminal call: not created yet, or open -/
def Live (st : St) : Prop := st.writer = none ∨ st.writer = some .opened

theorem Live.quiet {st st' : St} (h : Live st) (q : Quiet st st') : Live st' := by
  unfold Live; rw [q.writer]; exact h

theorem inv_pushToBlock2 (P : Params) (st : St) (p : Pkt) {st' : St} {b : Bool}
    (hi : Inv st) (hl : Live st) (h : pushToBlock2 P st p = .ok (st', b)) :
    Inv st' ∧ (b = false → Live st') := by
  unfold pushToBlock2 at h
  split at h
  · split at h
    · simp at h
    · simp at h; obtain ⟨rfl, rfl⟩ := h; exact ⟨hi, fun _ => hl⟩
    · split at h
      · split at h
        · simp at h
        · simp at h; obtain ⟨rfl, rfl⟩ := h
          refine ⟨?_, fun hf => by cases hf⟩
          split
          · split
            · exact inv_complete hi hl
            · exact inv_error _ hi hl
          · exact hi
      · split at h
        · simp at h; obtain ⟨rfl, rfl⟩ := h; exact ⟨hi, fun _ => hl⟩
        · split at h
          · simp at h; obtain ⟨rfl, rfl⟩ := h; exact ⟨hi, fun _ => hl⟩
          · split at h
            · simp at h; obtain ⟨rfl, rfl⟩ := h
              exact ⟨hi.quiet (quiet_setError _), fun _ => hl.quiet (quiet_setError _)⟩
            · split at h
              · simp at h
              · have q0 := quiet_growBlocks st (‹PayloadId›.sbn - st.blocksOffset)
                split at h
                · simp at h; obtain ⟨rfl, rfl⟩ := h; exact ⟨hi.quiet q0, fun _ => hl.quiet q0⟩
                · split at h
                  · simp at h
                  · rename_i heq
                    simp at h; obtain ⟨rfl, rfl⟩ := h
                    have q1 := q0.trans (quiet_allocBlock _ _ _ _ _ _ heq)
                    exact ⟨hi.quiet q1, fun _ => hl.quiet q1⟩
                  · rename_i heq
                    have q1 := q0.trans (quiet_allocBlock _ _ _ _ _ _ heq)
                    split at h
                    · simp at h
                    · have q2 : Quiet st { ‹St› with blocks := (‹St›).blocks.set (‹PayloadId›.sbn - st.blocksOffset) ‹Block› } :=
                        q1.trans ⟨rfl, rfl, rfl, rfl, rfl, rfl, .inl rfl, rfl, rfl, rfl⟩
                      split at h
                      · have := inv_writeBlocks _ _ _ (hi.quiet q2) h
                        exact ⟨this.1, fun hf => Or.inr (this.2.1 hf)⟩
                      · simp at h; obtain ⟨rfl, rfl⟩ := h
                        exact ⟨hi.quiet q2, fun hf => by cases hf⟩
  · simp at h

/-- from the invariant: a writer that is neither closed nor in error is live -/
theorem Inv.live_of_receiving {st : St} (h : Inv st) (hr : st.state = .receiving) : Live st := by
  unfold Live
  cases hw : st.writer with
  | none => exact .inl rfl
  | some ws =>
    cases ws with
    | idle => exact absurd hw h.noIdle
    | opened => exact .inr rfl
    | closed => exact absurd hr (h.term (.inl hw)).2
    | error => exact absurd hr (h.term (.inr hw)).2

theorem Inv.live_of_cache {st : St} (h : Inv st) (hc : st.cache ≠ []) : Live st := by
  unfold Live
  cases hw : st.writer with
  | none => exact .inl rfl
  | some ws =>
    cases ws with
    | idle => exact absurd hw h.noIdle
    | opened => exact .inr rfl
    | closed => exact absurd (h.term (.inl hw)).1 hc
    | error => exact absurd (h.term (.inr hw)).1 hc

theorem inv_pushToBlock (P : Params) (st : St) (p : Pkt) {st' : St} {b : Bool}
    (hi : Inv st) (hl : Live st) (h : pushToBlock P st p = .ok (st', b)) :
    Inv st' ∧ (b = false → Live st') := by
  unfold pushToBlock at h
  split at h
  · simp at h
  · rename_i heq
    simp at h; obtain ⟨rfl, rfl⟩ := h
    exact inv_pushToBlock2 _ _ _ hi hl heq
  · rename_i heq
    have h1 := inv_pushToBlock2 _ _ _ hi hl heq
    split at h
    · rename_i hc
      simp at h; obtain ⟨rfl, rfl⟩ := h
      exact ⟨inv_error _ h1.1 (h1.1.live_of_receiving hc.2), fun hf => by cases hf⟩
    · simp at h; obtain ⟨rfl, rfl⟩ := h
      exact ⟨h1.1, fun hf => by cases hf⟩

theorem inv_cacheLoop (P : Params) (fuel : Nat) (st : St) {st' : St}
    (hi : Inv st) (h : cacheLoop P fuel st = .ok st') : Inv st' := by
  induction fuel generalizing st with
  | zero => simp [cacheLoop] at h; rw [← h]; exact hi
  | succ n ih =>
    unfold cacheLoop at h
    split at h
    · simp at h; rw [← h]; exact hi
    · rename_i pk rest hc
      have hl : Live st := hi.live_of_cache (by simp [hc])
      have hi2 : Inv { st with cache := rest } := by
        refine ⟨hi.noIdle, hi.ps, ?_, hi.bwOff, hi.fdt⟩
        intro t
        have := hi.term t
        simp [hc] at this
      have hl2 : Live { st with cache := rest } := hl
      split at h
      · simp at h
      · rename_i heq
        simp at h; rw [← h]
        have := inv_pushToBlock _ _ _ hi2 hl2 heq
        exact inv_error _ this.1 (this.2 rfl)
      · rename_i heq
        exact ih _ (inv_pushToBlock _ _ _ hi2 hl2 heq).1 h

theorem inv_pushFromCache (P : Params) (st : St) {st' : St}
    (hi : Inv st) (h : pushFromCache P st = .ok st') : Inv st' := by
  unfold pushFromCache at h
  split at h
  · simp at h; rw [← h]; exact hi
  · split at h
    · simp at h
    · rename_i heq
      simp at h; rw [← h]
      have := inv_cacheLoop _ _ _ hi heq
      exact ⟨this.noIdle, this.ps, this.term, this.bwOff, this.fdt⟩

theorem inv_initBlocksPartitioning (st : St) {st' : St}
    (hi : Inv st) (h : initBlocksPartitioning st = .ok st') : Inv st' ∧ Quiet st st' := by
  unfold initBlocksPartitioning at h
  split at h
  · simp at h; rw [← h]; exact ⟨hi, Quiet.refl _⟩
  · split at h
    · split at h
      · simp at h
      · simp at h; subst h
        exact ⟨hi.quiet ⟨rfl, rfl, rfl, rfl, rfl, rfl, .inl rfl, rfl, rfl, rfl⟩, ⟨rfl, rfl, rfl, rfl, rfl, rfl, .inl rfl, rfl, rfl, rfl⟩⟩
    · simp at h; rw [← h]; exact ⟨hi, Quiet.refl _⟩

theorem inv_openWriter (pl : Plan) (st : St) (tl : Nat) (cenc : Cenc) {st' : St}
    (hi : Inv st) (hw : st.writer = none) (hf : st.fdtId ≠ none)
    (h : openWriter pl st tl cenc = .ok st') : Inv st' := by
  have hps : pstateOf st.out = some .idle := by have := hi.ps; simpa [hw, absW] using this
  unfold openWriter at h
  dsimp only at h
  split at h
  · simp at h
  · rename_i hbw
    have hbw0 : st.bw = none := by
      cases hb : st.bw with
      | none => rfl
      | some x => simp [hb] at hbw
    have hoff : st.blocksOffset = 0 := hi.bwOff hbw0
    split at h
    · simp at h; subst h
      refine ⟨by simp, ?_, by simp, ?_, by simpa using hf⟩
      · simp [pstateOf_cons, evOf, absW, WriterProto.step, hps]
      · intro _; simpa using hoff
    · simp at h; subst h
      refine ⟨by simp, ?_, by simp, ?_, by simpa using hf⟩
      · simp [pstateOf_cons, evOf, absW, WriterProto.step, hps]
      · intro _; exact hoff

theorem inv_initObjectWriter (P : Params) (st : St) {st' : St}
    (hi : Inv st) (h : initObjectWriter P st = .ok st') : Inv st' := by
  unfold initObjectWriter at h
  split at h
  · simp at h; rw [← h]; exact hi
  · rename_i hws
    have hw : st.writer = none := by
      cases hx : st.writer <;> simp_all
    have hps : pstateOf st.out = some .idle := by have := hi.ps; simpa [hw, absW] using this
    split at h
    · rename_i fid cenc tl o hfid hcenc htl ho
      dsimp only at h
      have hi2 : Inv { st with wIdx := st.nBuilder, nBuilder := st.nBuilder + 1,
                               out := WCall.new st.meta (P.env.plan st.nBuilder).ans :: st.out } := by
        refine ⟨hi.noIdle, ?_, hi.term, hi.bwOff, hi.fdt⟩
        simp [pstateOf_cons, evOf, hw, absW, hps]
      split at h
      · simp at h; subst h
        exact hi2.quiet ⟨rfl, rfl, rfl, rfl, rfl, rfl, .inr (by simp), rfl, rfl, rfl⟩
      · simp at h; subst h
        exact hi2.quiet ⟨rfl, rfl, rfl, rfl, rfl, rfl, .inr (by simp), rfl, rfl, rfl⟩
      · exact inv_openWriter _ _ _ _ hi2 hw (by simp [hfid]) h
    · simp at h; rw [← h]; exact hi

/-! ### push, attach_fdt, Drop -/

theorem quiet_setCencFromPkt (st : St) (p : Pkt) : Quiet st (setCencFromPkt st p) := by
  unfold setCencFromPkt; split
  · exact Quiet.refl _
  · exact ⟨rfl, rfl, rfl, rfl, rfl, rfl, .inl rfl, rfl, rfl, rfl⟩

theorem quiet_setOtiFromPkt (st : St) (p : Pkt) : Quiet st (setOtiFromPkt st p) := by
  unfold setOtiFromPkt; split
  · exact Quiet.refl _
  · split
    · exact Quiet.refl _
    · exact ⟨rfl, rfl, rfl, rfl, rfl, rfl, .inl rfl, rfl, rfl, rfl⟩

theorem inv_cachePkt (st : St) (p : Pkt) (hi : Inv st) (hl : Live st) :
    Inv (cachePkt st p).1 ∧ Live (cachePkt st p).1 := by
  unfold cachePkt
  split
  · exact ⟨hi, hl⟩
  · split
    · exact ⟨hi, hl⟩
    · refine ⟨⟨hi.noIdle, hi.ps, ?_, hi.bwOff, hi.fdt⟩, hl⟩
      intro t
      cases hl with
      | inl hn => cases t <;> simp_all
      | inr ho => cases t <;> simp_all

theorem inv_push (P : Params) (st : St) (p : Pkt) {st' : St}
    (hi : Inv st) (h : push P st p = .ok st') : Inv st' := by
  unfold push at h
  split at h
  · simp at h; rw [← h]; exact hi
  · split at h
    · simp at h
    · rename_i st1 h1
      have i1 := (inv_initBlocksPartitioning _
        (hi.quiet ((quiet_setCencFromPkt st p).trans (quiet_setOtiFromPkt _ p))) h1).1
      split at h
      · simp at h
      · rename_i st2 h2
        have i2 := inv_initObjectWriter _ _ i1 h2
        split at h
        · simp at h
        · rename_i st3 h3
          have i3 := inv_pushFromCache _ _ i2 h3
          split at h
          · simp at h; rw [← h]; exact i3
          · rename_i hr
            have hl : Live st3 := i3.live_of_receiving (by simpa using hr)
            split at h
            · have hc := inv_cachePkt st3 p i3 hl
              split at h
              · rename_i heq
                simp at h; rw [← h]
                rw [heq] at hc; exact hc.1
              · rename_i heq
                simp at h; rw [← h]
                rw [heq] at hc; exact inv_error _ hc.1 hc.2
            · split at h
              · simp at h
              · rename_i heq
                simp at h; rw [← h]
                exact (inv_pushToBlock _ _ _ i3 hl heq).1
              · rename_i heq
                simp at h; rw [← h]
                have := inv_pushToBlock _ _ _ i3 hl heq
                exact inv_error _ this.1 (this.2 rfl)

theorem inv_attachMeta (st : St) (fdtId : Nat) (f : FileEntry) {st' : St}
    (hi : Inv st) (h : attachMeta st fdtId f = .ok st') : Inv st' := by
  unfold attachMeta at h
  dsimp only at h
  split at h
  · simp at h
  · simp at h; subst h
    exact ⟨hi.noIdle, hi.ps, hi.term, hi.bwOff, by simp⟩

theorem inv_attachFdtOld (P : Params) (st : St) (fdtId : Nat) (file : Option FileEntry) {st' : St} {b : Bool}
    (hi : Inv st) (h : attachFdtOld P st fdtId file = .ok (st', b)) : Inv st' := by
  unfold attachFdtOld attachCore at h
  split at h
  · simp at h; rw [← h.1]; exact hi
  · split at h
    · simp at h; rw [← h.1]; exact hi
    · split at h
      · simp at h
      · rename_i st1 h1
        have i1 := inv_attachMeta _ _ _ hi h1
        split at h
        · simp at h
        · rename_i st2 h2
          have i2 := (inv_initBlocksPartitioning _ i1 h2).1
          split at h
          · simp at h
          · rename_i st3 h3
            have i3 := inv_initObjectWriter _ _ i2 h3
            split at h
            · simp at h
            · rename_i st4 h4
              have i4 := inv_pushFromCache _ _ i3 h4
              split at h
              · simp at h
              · rename_i st5 ok h5
                have i5 := inv_writeBlocks _ _ _ i4 h5
                have i6 : Inv (if ok = true then st5 else error st5 false) := by
                  cases ok
                  · simpa using inv_error false i5.1 (Or.inr (i5.2.1 rfl))
                  · simpa using i5.1
                split at h
                · simp at h
                · rename_i st6 h6
                  simp at h; rw [← h.1]
                  exact inv_pushFromCache _ _ i6 h6


/-! ### the FDT is the authority: `attach_fdt` first confronts the in-band OTI with the File entry -/

theorem fdtConflict_writer {st : St} {f : FileEntry} (h : fdtConflict st f = .ok true) : st.writer = none := by
  unfold fdtConflict at h
  split at h
  · cases h
  · rename_i hw; cases hx : st.writer <;> simp_all

/-- `attach_fdt` is the old function on `st`, or - on a conflict, which needs `writer = None` - on `resetOti st` -/
theorem attachFdt_cases {P : Params} {st : St} {id : Nat} {file : Option FileEntry} {r : St × Bool}
    (h : attachFdt P st id file = .ok r) :
    attachFdtOld P st id file = .ok r ∨
    (∃ f, file = some f ∧ st.writer = none ∧ st.fdtId = none ∧ attachFdtOld P (resetOti st) id (some f) = .ok r) := by
  unfold attachFdt at h
  split at h
  · left; unfold attachFdtOld; rename_i hf; rw [if_pos hf]; exact h
  · rename_i hf
    split at h
    · left; unfold attachFdtOld; rw [if_neg hf]; exact h
    · rename_i f
      split at h
      · cases h
      · rename_i c hc
        cases c with
        | false => left; unfold attachFdtOld; rw [if_neg hf]; simpa using h
        | true =>
          right
          refine ⟨f, rfl, fdtConflict_writer hc, by simpa using hf, ?_⟩
          unfold attachFdtOld
          have : (resetOti st).fdtId.isSome = false := by simpa [resetOti] using hf
          rw [if_neg (by simp [this])]
          simpa using h

theorem inv_reset {st : St} (hi : Inv st) : Inv (resetOti st) :=
  ⟨hi.noIdle, hi.ps, hi.term, fun _ => rfl, hi.fdt⟩

theorem inv_attachFdt (P : Params) (st : St) (fdtId : Nat) (file : Option FileEntry) {st' : St} {b : Bool}
    (hi : Inv st) (h : attachFdt P st fdtId file = .ok (st', b)) : Inv st' := by
  rcases attachFdt_cases h with h0 | ⟨f, rfl, _, _, h1⟩
  · exact inv_attachFdtOld P st fdtId file hi h0
  · exact inv_attachFdtOld P (resetOti st) fdtId _ (inv_reset hi) h1

/-- after Drop no writer is left open -/
theorem inv_drop (st : St) (hi : Inv st) :
    Inv (drop st) ∧ (drop st).writer ≠ some .opened := by
  unfold drop
  split
  · rename_i hw
    exact ⟨inv_error _ hi (Or.inr hw), by simp [hw]⟩
  · rename_i hw
    exact absurd hw hi.noIdle
  · rename_i h1 h2
    exact ⟨hi, fun hw => h1 hw⟩

theorem inv_step (P : Params) (st : St) (op : Op) {st' : St}
    (hi : Inv st) (h : step P st op = .ok st') : Inv st' := by
  cases op with
  | push p => exact inv_push _ _ _ hi h
  | attach id f =>
    simp only [step] at h
    split at h
    · simp at h
    · rename_i heq
      simp at h; rw [← h]
      exact inv_attachFdt _ _ _ _ hi heq

theorem inv_run (P : Params) (st : St) (ops : List Op) {st' : St}
    (hi : Inv st) (h : run P st ops = .ok st') : Inv st' := by
  induction ops generalizing st with
  | nil => simp [run] at h; rw [← h]; exact hi
  | cons op r ih =>
    simp only [run] at h
    split at h
    · simp at h
    · rename_i heq
      exact ih _ (inv_step _ _ _ hi heq) h

end Flute.ObjRecv
