import FluteModel.Drain
import FluteModel.Lemmas.Ring
/-
  Helper lemmas for the BlockWriter drain loops.
-/
namespace Flute.Lemmas.Drain
open Flute Flute.Ring Flute.Drain Flute.Lemmas.Ring

theorem write_le (r : Ring) (d : List Nat) (h : Ring.Inv r) (r' : Ring) (k : Nat)
    (hw : Ring.write r d = .ok (r', k)) :
    k ≤ d.length ∧ Ring.Inv r' ∧ r'.buffer.length = r.buffer.length := by
  obtain ⟨r1, k1, hw1, hi, hl, _, _, ha⟩ := write_refines r d h
  rw [hw] at hw1
  injection hw1 with hw1
  injection hw1 with h1 h2
  subst h1; subst h2
  refine ⟨?_, hi, hl⟩
  simp only [abs, Spec.Fifo.write] at ha
  have := (Prod.mk.inj ha).2
  omega

/-- result of a terminated loop -/
def Ended {σ} (res : Res (BW σ)) (len buflen : Nat) : Prop :=
  ∃ st', (res = .done st' ∨ res = .err st') ∧ Ring.Inv st'.ring ∧ st'.ring.buffer.length = len ∧
    st'.buflen = buflen

theorem decoderRead_ended {σ} (D : Decomp σ) (C : Contract D) :
    ∀ (f : Nat) (st : BW σ), Ring.Inv st.ring → C.mu st.dec st.ring < f →
      Ended (decoderRead D f st) st.ring.buffer.length st.buflen := by
  intro f
  induction f with
  | zero => intro st _ h; omega
  | succ f ih =>
    intro st hinv hmu
    unfold decoderRead
    cases hr : D.read st.dec st.ring st.buflen with
    | mk s' rest =>
      obtain ⟨r', res⟩ := rest
      obtain ⟨hi', hl'⟩ := C.read_inv _ _ _ _ _ _ hinv hr
      cases res with
      | wouldBlock => exact ⟨_, Or.inl rfl, hi', hl', rfl⟩
      | err => exact ⟨_, Or.inr rfl, hi', hl', rfl⟩
      | ok b =>
        simp only []
        by_cases hb : b = []
        · simp only [hb, if_true]; exact ⟨_, Or.inl rfl, hi', hl', rfl⟩
        · have hdec := C.read_decreases _ _ _ _ _ _ hinv hr hb
          simp only [hb, if_false]
          by_cases hc : st.contentLeft = some 0
          · rw [if_pos hc]
            have := ih (BW.mk s' r' st.buflen st.contentLeft st.out) hi' (by simp only; omega)
            simpa only [hl'] using this
          · rw [if_neg hc]
            have := ih (BW.mk s' r' st.buflen (st.contentLeft.map (· - b.length)) (st.out ++ b)) hi'
              (by simp only; omega)
            simpa only [hl'] using this

theorem writeLoop_ended {σ} (D : Decomp σ) (C : Contract D) :
    ∀ (fo : Nat) (st : BW σ) (pkt : List Nat) (offset : Nat) (stalled : Bool),
      Ring.Inv st.ring → offset ≤ pkt.length →
      2 * (pkt.length - offset) + (if stalled then 0 else 1) < fo →
      Ended (writeLoop D (fun s => C.mu s.dec s.ring + 1) fo st pkt offset stalled)
        st.ring.buffer.length st.buflen := by
  intro fo
  induction fo with
  | zero => intro st pkt offset stalled _ _ h; omega
  | succ fo ih =>
    intro st pkt offset stalled hinv hoff hfuel
    unfold writeLoop
    simp only [show ¬ pkt.length < offset by omega, if_false]
    obtain ⟨r1, k1, hw1, _⟩ := write_refines st.ring (pkt.drop offset) hinv
    obtain ⟨hk, hi1, hl1⟩ := write_le st.ring _ hinv r1 k1 hw1
    simp only [hw1]
    have hk' : k1 ≤ pkt.length - offset := by simpa [List.length_drop] using hk
    obtain ⟨st', hres, hi', hl', hb'⟩ :=
      decoderRead_ended D C (C.mu st.dec r1 + 1) { st with ring := r1 } hi1 (by simp only; omega)
    simp only [] at hl' hb'
    rcases hres with hres | hres
    · simp only [hres]
      by_cases hdone : offset + k1 = pkt.length
      · simp only [hdone, if_true]; exact ⟨st', Or.inl rfl, hi', by rw [hl', hl1], hb'⟩
      · simp only [hdone, if_false]
        by_cases hst : k1 = 0 ∧ stalled = true
        · simp only [hst, and_self, if_true]; exact ⟨st', Or.inr rfl, hi', by rw [hl', hl1], hb'⟩
        · simp only [hst, if_false]
          have := ih st' pkt (offset + k1) (k1 == 0) hi' (by omega) (by
            by_cases hk0 : k1 = 0
            · have hs : stalled = false := by
                cases stalled with
                | false => rfl
                | true => exact absurd ⟨hk0, rfl⟩ hst
              subst hs
              simp [hk0] at hfuel ⊢
              omega
            · have : (k1 == 0) = false := by simp [hk0]
              rw [this]
              simp only [Bool.false_eq_true, if_false]
              cases stalled <;> simp at hfuel <;> omega)
          rw [hl', hl1, hb'] at this
          exact this
    · simp only [hres]; exact ⟨st', Or.inr rfl, hi', by rw [hl', hl1], hb'⟩

end Flute.Lemmas.Drain
