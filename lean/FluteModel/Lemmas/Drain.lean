import FluteModel.Drain
import FluteModel.Lemmas.Ring
/-
  Helper lemmas for the BlockWriter drain loops.
-/
namespace Flute.Lemmas.Drain
open Flute Flute.Ring Flute.Drain Flute.Lemmas.Ring Flute.Spec

theorem write_le (r : Ring) (d : List Nat) (h : Ring.Inv r) (r' : Ring) (k : Nat)
    (hw : Ring.write r d = .ok (r', k)) :
    k ≤ d.length ∧ Ring.Inv r' ∧ r'.buffer.length = r.buffer.length := by
  obtain ⟨r1, k1, hw1, hi, hl, _, _, ha⟩ := write_refines r d h
  rw [hw] at hw1
  injection hw1 with hw1
  injection hw1 with h1 h2
  subst h1; subst h2
  refine ⟨?_, hi, hl⟩
  simp only [abs, Spec.Fifo.write] at ha
  have := (Prod.mk.inj ha).2
  omega

/-- result of a terminated loop -/
def Ended {σ} (res : Res (BW σ)) (len buflen : Nat) : Prop :=
  ∃ st', (res = .done st' ∨ res = .err st') ∧ Ring.Inv st'.ring ∧ st'.ring.buffer.length = len ∧
    st'.buflen = buflen

theorem decoderRead_ended {σ} (D : Decomp σ) (C : Contract D) :
    ∀ (f : Nat) (st : BW σ), Ring.Inv st.ring → C.mu st.dec st.ring < f →
      Ended (decoderRead D f st) st.ring.buffer.length st.buflen := by
  intro f
  induction f with
  | zero => intro st _ h; omega
  | succ f ih =>
    intro st hinv hmu
    unfold decoderRead
    cases hr : D.read st.dec st.ring st.buflen with
    | mk s' rest =>
      obtain ⟨r', res⟩ := rest
      obtain ⟨hi', hl'⟩ := C.read_inv _ _ _ _ _ _ hinv hr
      cases res with
      | wouldBlock => exact ⟨_, Or.inl rfl, hi', hl', rfl⟩
      | err => exact ⟨_, Or.inr rfl, hi', hl', rfl⟩
      | ok b =>
        simp only []
        by_cases hb : b = []
        · simp only [hb, if_true]; exact ⟨_, Or.inl rfl, hi', hl', rfl⟩
        · have hdec := C.read_decreases _ _ _ _ _ _ hinv hr hb
          simp only [hb, if_false]
          by_cases hc : st.contentLeft = some 0
          · rw [if_pos hc]
            have := ih (BW.mk s' r' st.buflen st.contentLeft st.out) hi' (by simp only; omega)
            simpa only [hl'] using this
          · rw [if_neg hc]
            have := ih (BW.mk s' r' st.buflen (st.contentLeft.map (· - b.length)) (st.out ++ b)) hi'
              (by simp only; omega)
            simpa only [hl'] using this

theorem writeLoop_ended {σ} (D : Decomp σ) (C : Contract D) :
    ∀ (fo : Nat) (st : BW σ) (pkt : List Nat) (offset : Nat) (stalled : Bool),
      Ring.Inv st.ring → offset ≤ pkt.length →
      2 * (pkt.length - offset) + (if stalled then 0 else 1) < fo →
      Ended (writeLoop D (fun s => C.mu s.dec s.ring + 1) fo st pkt offset stalled)
        st.ring.buffer.length st.buflen := by
  intro fo
  induction fo with
  | zero => intro st pkt offset stalled _ _ h; omega
  | succ fo ih =>
    intro st pkt offset stalled hinv hoff hfuel
    unfold writeLoop
    simp only [show ¬ pkt.length < offset by omega, if_false]
    obtain ⟨r1, k1, hw1, _⟩ := write_refines st.ring (pkt.drop offset) hinv
    obtain ⟨hk, hi1, hl1⟩ := write_le st.ring _ hinv r1 k1 hw1
    simp only [hw1]
    have hk' : k1 ≤ pkt.length - offset := by simpa [List.length_drop] using hk
    obtain ⟨st', hres, hi', hl', hb'⟩ :=
      decoderRead_ended D C (C.mu st.dec r1 + 1) { st with ring := r1 } hi1 (by simp only; omega)
    simp only [] at hl' hb'
    rcases hres with hres | hres
    · simp only [hres]
      by_cases hdone : offset + k1 = pkt.length
      · simp only [hdone, if_true]; exact ⟨st', Or.inl rfl, hi', by rw [hl', hl1], hb'⟩
      · simp only [hdone, if_false]
        by_cases hst : k1 = 0 ∧ stalled = true
        · simp only [hst, and_self, if_true]; exact ⟨st', Or.inr rfl, hi', by rw [hl', hl1], hb'⟩
        · simp only [hst, if_false]
          have := ih st' pkt (offset + k1) (k1 == 0) hi' (by omega) (by
            by_cases hk0 : k1 = 0
            · have hs : stalled = false := by
                cases stalled with
                | false => rfl
                | true => exact absurd ⟨hk0, rfl⟩ hst
              subst hs
              simp [hk0] at hfuel ⊢
              omega
            · have : (k1 == 0) = false := by simp [hk0]
              rw [this]
              simp only [Bool.false_eq_true, if_false]
              cases stalled <;> simp at hfuel <;> omega)
          rw [hl', hl1, hb'] at this
          exact this
    · simp only [hres]; exact ⟨st', Or.inr rfl, hi', by rw [hl', hl1], hb'⟩


/-- a loop result that is neither `hang` nor `panic` -/
def Terminated {σ} (res : Res (BW σ)) : Prop := ∃ st', res = .done st' ∨ res = .err st'

/-- the "echo" decompressor (hands out what is in the ring): the contract is satisfiable -/
def echo : Decomp Unit where
  read := fun s r n =>
    match Ring.read r n with
    | .ok (r', .ok b) => (s, r', .ok b)
    | .ok (r', .wouldBlock) => (s, r', .wouldBlock)
    | .error _ => (s, r, .err)

/-- the echo decompressor meets the contract with `mu` = number of bytes in the ring (non-vacuity of the hypothesis
    of `drain_terminates`) -/
def echoContract : Contract echo where
  mu := fun _ r => (content r).length
  read_decreases := by
    intro s r n s' r' b hinv hr hb
    obtain ⟨r1, res, hrd, _, _, _, _, ha⟩ := read_refines r n hinv
    simp only [echo, hrd] at hr
    cases res with
    | wouldBlock => simp at hr
    | ok b1 =>
      simp only [Prod.mk.injEq, DRead.ok.injEq] at hr
      obtain ⟨_, hr1, hb1⟩ := hr
      subst hr1; subst hb1
      simp only [Lemmas.Ring.abs, Fifo.read, toSpec] at ha
      by_cases hm : min n (content r).length = 0
      · simp only [hm, if_true] at ha
        have h2 := (Prod.mk.inj ha).2
        by_cases hf : r.finish = true
        · simp only [hf, if_true] at h2; injection h2 with h2; exact absurd h2.symm hb
        · simp only [hf] at h2; cases h2
      · simp only [hm, if_false] at ha
        have h1 := (Prod.mk.inj ha).1
        have hq : content r1 = (content r).drop (min n (content r).length) := by
          have := congrArg Fifo.q h1; simpa using this.symm
        rw [hq, List.length_drop]
        omega
  read_inv := by
    intro s r n s' r' res hinv hr
    obtain ⟨r1, res1, hrd, hi, hb, _, _, _⟩ := read_refines r n hinv
    simp only [echo, hrd] at hr
    cases res1 with
    | wouldBlock =>
      simp only [Prod.mk.injEq] at hr
      obtain ⟨_, hr1, _⟩ := hr
      subst hr1; exact ⟨hi, by rw [hb]⟩
    | ok b1 =>
      simp only [Prod.mk.injEq] at hr
      obtain ⟨_, hr1, _⟩ := hr
      subst hr1; exact ⟨hi, by rw [hb]⟩

/-- A full ring (size 2, one byte held), `content_length_left = Some(0)`, one more input byte to write. -/
def stuck : BW Unit := ⟨(), ⟨[7, 0], 1, 0, false⟩, 1, some 0, []⟩

end Flute.Lemmas.Drain
