import FluteModel.Admission
/-
  Saturating products of `Oti::max_transfer_length` (since /repo bda304c): capped at less than 2^64 - 1 the saturated
  value equals the exact one - so the "usize overflow" side condition of the session link is a theorem, not a hypothesis.
-/
namespace Flute.Lemmas.AdmissionSat
open Flute Flute.Admission

theorem sat_ge (x y : Nat) :
    satMul64 x y = x * y ∨ (satMul64 x y = 18446744073709551615 ∧ 18446744073709551616 ≤ x * y) := by
  unfold satMul64; split
  · exact .inl rfl
  · right; constructor <;> omega

theorem satcap (e b k cap : Nat) (hk : 0 < k) (hcap : cap < 18446744073709551615) :
    (if satMul64 (satMul64 e b) k > cap then cap else satMul64 (satMul64 e b) k)
      = (if e * b * k > cap then cap else e * b * k) := by
  rcases sat_ge e b with h1 | ⟨h1, h1'⟩ <;> rcases sat_ge (satMul64 e b) k with h2 | ⟨h2, h2'⟩
  · rw [h2, h1]
  · rw [h2]; rw [h1] at h2'
    have : e * b * k > cap := by omega
    simp [this]; omega
  · rw [h2, h1]
    have h3 : 18446744073709551615 * 1 ≤ 18446744073709551615 * k := Nat.mul_le_mul_left _ hk
    have h4 : 18446744073709551616 * 1 ≤ e * b * k := Nat.mul_le_mul h1' hk
    have : e * b * k > cap := by omega
    have h5 : 18446744073709551615 * k > cap := by omega
    simp [this, h5]
  · rw [h2]
    have h4 : 18446744073709551616 * 1 ≤ e * b * k := Nat.mul_le_mul h1' hk
    have : e * b * k > cap := by omega
    simp [this]; omega

end Flute.Lemmas.AdmissionSat
